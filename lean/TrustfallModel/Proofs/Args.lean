/-
Helper lemmas for C12: declarative well-typedness (`Conforms`) and "the traversal reaches an enum"
(`Reaches`) versus the executable `is_valid_value`; the complete specification of
`from_query_and_arguments` (`validate_spec`, `validate_ok_iff`); the inferred variable type as the
greatest lower bound of the use types (`inferLoop_spec`).
-/
import TrustfallModel.Props.C17
import TrustfallModel.Model.ArgCheck
namespace TF.Args
open TF Ty Shape

/-- Declarative well-typedness of a value for base name `b` and modifiers `s`: the specification
`is_valid_value` is meant to decide.  Enum values conform to nothing. -/
inductive Conforms (b : Bytes) : Shape → Value → Prop where
  | null {s : Shape} : s.nullable = true → Conforms b s .null
  | int64 {n : Bool} {i : Int64} : b = INT → Conforms b (.named n) (.int64 i)
  | uint64 {n : Bool} {u : UInt64} : b = INT → Conforms b (.named n) (.uint64 u)
  | float64 {n : Bool} {k : Int} : b = FLOAT → Conforms b (.named n) (.float64 k)
  | string {n : Bool} {x : Bytes} : b = STRING → Conforms b (.named n) (.string x)
  | boolean {n : Bool} {x : Bool} : b = BOOLEAN → Conforms b (.named n) (.boolean x)
  | list {n : Bool} {s : Shape} {l : List Value} :
      (∀ x, x ∈ l → Conforms b s x) → Conforms b (.list n s) (.list l)

/-- The traversal of `is_valid_value` reaches an enum leaf: the value is an enum, or it is a list
checked against a list type and its first element that is not well-typed reaches one. -/
inductive Reaches (b : Bytes) : Shape → Value → Prop where
  | enum {s : Shape} {e : Bytes} : Reaches b s (.enum e)
  | list {n : Bool} {s : Shape} {pre post : List Value} {x : Value} :
      (∀ p, p ∈ pre → Conforms b s p) → Reaches b s x →
      Reaches b (.list n s) (.list (pre ++ x :: post))

theorem depth_eq_zero_iff (s : Shape) : s.depth = 0 ↔ ∃ n, s = .named n := by
  cases s <;> simp [depth]

mutual
theorem valid_iff_conforms (b : Bytes) (s : Shape) :
    (v : Value) → (Shape.valid b s v = .ok true ↔ Conforms b s v)
  | .null => by
    simp only [Shape.valid, Outcome.ok.injEq]
    constructor
    · exact Conforms.null
    · intro h; cases h; assumption
  | .int64 i => by
    simp only [Shape.valid, Outcome.ok.injEq, Bool.and_eq_true, depth_eq_zero_iff, beq_iff_eq]
    constructor
    · intro ⟨⟨n, hn⟩, hb⟩; subst hn; exact Conforms.int64 hb
    · intro h; cases h; exact ⟨⟨_, rfl⟩, by assumption⟩
  | .uint64 i => by
    simp only [Shape.valid, Outcome.ok.injEq, Bool.and_eq_true, depth_eq_zero_iff, beq_iff_eq]
    constructor
    · intro ⟨⟨n, hn⟩, hb⟩; subst hn; exact Conforms.uint64 hb
    · intro h; cases h; exact ⟨⟨_, rfl⟩, by assumption⟩
  | .float64 i => by
    simp only [Shape.valid, Outcome.ok.injEq, Bool.and_eq_true, depth_eq_zero_iff, beq_iff_eq]
    constructor
    · intro ⟨⟨n, hn⟩, hb⟩; subst hn; exact Conforms.float64 hb
    · intro h; cases h; exact ⟨⟨_, rfl⟩, by assumption⟩
  | .string i => by
    simp only [Shape.valid, Outcome.ok.injEq, Bool.and_eq_true, depth_eq_zero_iff, beq_iff_eq]
    constructor
    · intro ⟨⟨n, hn⟩, hb⟩; subst hn; exact Conforms.string hb
    · intro h; cases h; exact ⟨⟨_, rfl⟩, by assumption⟩
  | .boolean i => by
    simp only [Shape.valid, Outcome.ok.injEq, Bool.and_eq_true, depth_eq_zero_iff, beq_iff_eq]
    constructor
    · intro ⟨⟨n, hn⟩, hb⟩; subst hn; exact Conforms.boolean hb
    · intro h; cases h; exact ⟨⟨_, rfl⟩, by assumption⟩
  | .enum e => by
    have : Shape.valid b s (.enum e) = .panic := by cases s <;> simp [Shape.valid]
    rw [this]
    constructor <;> intro h <;> cases h
  | .list l => by
    cases s with
    | named n =>
      simp only [Shape.valid]
      constructor <;> intro h <;> cases h
    | list n s' =>
      simp only [Shape.valid]
      rw [validAll_iff_conforms b s' l]
      constructor
      · exact Conforms.list
      · intro h; cases h; assumption
theorem validAll_iff_conforms (b : Bytes) (s : Shape) :
    (l : List Value) → (validAll b s l = .ok true ↔ ∀ x, x ∈ l → Conforms b s x)
  | [] => by simp [validAll]
  | x :: xs => by
    have h1 := valid_iff_conforms b s x
    have h2 := validAll_iff_conforms b s xs
    simp only [validAll, List.mem_cons, forall_eq_or_imp]
    rw [← h1, ← h2]
    cases hx : Shape.valid b s x with
    | panic => simp
    | ok r => cases r <;> simp
end


theorem reaches_list_iff (b : Bytes) (n : Bool) (s : Shape) (l : List Value) :
    Reaches b (.list n s) (.list l) ↔
      ∃ pre x post, l = pre ++ x :: post ∧ (∀ p, p ∈ pre → Conforms b s p) ∧ Reaches b s x := by
  constructor
  · intro h
    cases h with
    | list hp hx => exact ⟨_, _, _, rfl, hp, hx⟩
  · intro ⟨pre, x, post, hl, hp, hx⟩
    subst hl
    exact Reaches.list hp hx

mutual
theorem valid_panic_iff (b : Bytes) (s : Shape) :
    (v : Value) → (Shape.valid b s v = .panic ↔ Reaches b s v)
  | .null => by simp only [Shape.valid]; constructor <;> intro h <;> cases h
  | .int64 _ => by simp only [Shape.valid]; constructor <;> intro h <;> cases h
  | .uint64 _ => by simp only [Shape.valid]; constructor <;> intro h <;> cases h
  | .float64 _ => by simp only [Shape.valid]; constructor <;> intro h <;> cases h
  | .string _ => by simp only [Shape.valid]; constructor <;> intro h <;> cases h
  | .boolean _ => by simp only [Shape.valid]; constructor <;> intro h <;> cases h
  | .enum e => by
    have : Shape.valid b s (.enum e) = .panic := by cases s <;> simp [Shape.valid]
    rw [this]
    exact ⟨fun _ => Reaches.enum, fun _ => rfl⟩
  | .list l => by
    cases s with
    | named n =>
      simp only [Shape.valid]
      constructor <;> intro h <;> cases h
    | list n s' =>
      simp only [Shape.valid]
      rw [reaches_list_iff]
      exact validAll_panic_iff b s' l
theorem validAll_panic_iff (b : Bytes) (s : Shape) :
    (l : List Value) → (validAll b s l = .panic ↔
      ∃ pre x post, l = pre ++ x :: post ∧ (∀ p, p ∈ pre → Conforms b s p) ∧ Reaches b s x)
  | [] => by
    simp only [validAll]
    constructor
    · intro h; cases h
    · intro ⟨pre, x, post, hl, _, _⟩
      cases pre <;> simp at hl
  | y :: ys => by
    have hp := valid_panic_iff b s y
    have hc := valid_iff_conforms b s y
    have ih := validAll_panic_iff b s ys
    simp only [validAll]
    cases hy : Shape.valid b s y with
    | panic =>
      simp only [true_iff]
      exact ⟨[], y, ys, rfl, by simp, hp.mp hy⟩
    | ok r =>
      cases r with
      | false =>
        simp only [reduceCtorEq, false_iff]
        intro ⟨pre, x, post, hl, hpre, hx⟩
        cases pre with
        | nil =>
          simp at hl
          obtain ⟨rfl, _⟩ := hl
          rw [hp.mpr hx] at hy; cases hy
        | cons p pre' =>
          simp at hl
          obtain ⟨rfl, _⟩ := hl
          have := hc.mpr (hpre _ (by simp))
          rw [this] at hy; cases hy
      | true =>
        simp only []
        rw [ih]
        constructor
        · intro ⟨pre, x, post, hl, hpre, hx⟩
          refine ⟨y :: pre, x, post, by simp [hl], ?_, hx⟩
          intro p hpm
          cases List.mem_cons.mp hpm with
          | inl h => subst h; exact hc.mp hy
          | inr h => exact hpre p h
        · intro ⟨pre, x, post, hl, hpre, hx⟩
          cases pre with
          | nil =>
            simp at hl
            obtain ⟨rfl, _⟩ := hl
            rw [hp.mpr hx] at hy; cases hy
          | cons p pre' =>
            simp at hl
            obtain ⟨rfl, rfl⟩ := hl
            exact ⟨pre', x, post, rfl, fun q hq => hpre q (by simp [hq]), hx⟩
end


/-! ### `from_query_and_arguments` -/

section
variable {N : Type} [DecidableEq N]

/-- The variables whose supplied value is not valid for their type, in variable order. -/
def illTyped (vars : List (N × Ty)) (args : List (N × Value)) : List (ArgErr N) :=
  vars.filterMap fun nt =>
    match getArg args nt.1 with
    | some v => if isValidValue nt.2 v = .ok false then some (.argumentTypeError nt.1 nt.2 v) else none
    | none => none

/-- The variables without a value, in variable order. -/
def missing (vars : List (N × Ty)) (args : List (N × Value)) : List N :=
  (vars.filter fun nt => (getArg args nt.1).isNone).map (·.1)

/-- Some supplied value makes `is_valid_value` panic. -/
def SomePanics (vars : List (N × Ty)) (args : List (N × Value)) : Prop :=
  ∃ nt, nt ∈ vars ∧ ∃ v, getArg args nt.1 = some v ∧ isValidValue nt.2 v = .panic

theorem checkVariables_panic_iff (args : List (N × Value)) (vars : List (N × Ty)) :
    checkVariables args vars = .panic ↔ SomePanics vars args := by
  induction vars with
  | nil => simp [checkVariables, SomePanics]
  | cons nt rest ih =>
    obtain ⟨n, t⟩ := nt
    have hs : SomePanics ((n, t) :: rest) args ↔
        (∃ v, getArg args n = some v ∧ isValidValue t v = .panic) ∨ SomePanics rest args := by
      simp [SomePanics]
    rw [hs, ← ih]
    simp only [checkVariables]
    cases hg : getArg args n with
    | none =>
      simp only [false_and, exists_false, false_or, reduceCtorEq]
      cases checkVariables args rest with
      | panic => simp
      | ok p => obtain ⟨es, ms⟩ := p; simp
    | some v =>
      simp only [validateArgumentType, Option.some.injEq, exists_eq_left']
      cases hv : isValidValue t v with
      | panic => simp
      | ok r =>
        cases checkVariables args rest with
        | panic => cases r <;> simp
        | ok p => obtain ⟨es, ms⟩ := p; cases r <;> simp

theorem checkVariables_ok (args : List (N × Value)) (vars : List (N × Ty)) {es : List (ArgErr N)}
    {ms : List N} (h : checkVariables args vars = .ok (es, ms)) :
    es = illTyped vars args ∧ ms = missing vars args := by
  induction vars generalizing es ms with
  | nil => simp [checkVariables] at h; simp [h, illTyped, missing]
  | cons nt rest ih =>
    obtain ⟨n, t⟩ := nt
    simp only [checkVariables] at h
    cases hg : getArg args n with
    | none =>
      rw [hg] at h
      cases hr : checkVariables args rest with
      | panic => simp [hr] at h
      | ok p =>
        obtain ⟨es', ms'⟩ := p
        simp [hr] at h
        obtain ⟨e1, e2⟩ := ih hr
        simp [illTyped, missing, hg, ← h.1, ← h.2, e1, e2]
    | some v =>
      rw [hg] at h
      simp only [validateArgumentType] at h
      cases hv : isValidValue t v with
      | panic => simp [hv] at h
      | ok r =>
        cases hr : checkVariables args rest with
        | panic => cases r <;> simp [hv, hr] at h
        | ok p =>
          obtain ⟨es', ms'⟩ := p
          obtain ⟨e1, e2⟩ := ih hr
          cases r <;> simp [hv, hr] at h <;>
            simp [illTyped, missing, hg, hv, ← h.1, ← h.2, e1, e2]

/-- The `errors` vector of a run that does not panic. -/
def errorsOf (vars : List (N × Ty)) (args : List (N × Value)) : List (ArgErr N) :=
  illTyped vars args ++
    (if (missing vars args).isEmpty then [] else [.missingArguments (missing vars args)]) ++
    (if (unusedArguments vars args).isEmpty then [] else [.unusedArguments (unusedArguments vars args)])

omit [DecidableEq N] in
theorem ofVec_ok {es : List (ArgErr N)} (h : es ≠ []) :
    ∃ e, ArgsError.ofVec es = .ok e ∧ e.errors = es := by
  match es, h with
  | [e], _ => exact ⟨_, rfl, rfl⟩
  | e1 :: e2 :: rest, _ => exact ⟨_, rfl, rfl⟩

/-- `validate`, completely: panic exactly when a supplied value makes `is_valid_value` panic;
otherwise accepted exactly when the `errors` vector is empty, and refused with exactly it. -/
theorem validate_spec (vars : List (N × Ty)) (args : List (N × Value)) :
    (SomePanics vars args → validate vars args = .panic) ∧
    (¬ SomePanics vars args →
      (errorsOf vars args = [] → validate vars args = .ok (.ok ())) ∧
      (errorsOf vars args ≠ [] →
        ∃ e, validate vars args = .ok (.error e) ∧ e.errors = errorsOf vars args)) := by
  constructor
  · intro h
    have := (checkVariables_panic_iff args vars).mpr h
    simp [validate, this]
  · intro h
    cases hc : checkVariables args vars with
    | panic => exact absurd ((checkVariables_panic_iff args vars).mp hc) h
    | ok p =>
      obtain ⟨es, ms⟩ := p
      obtain ⟨e1, e2⟩ := checkVariables_ok args vars hc
      subst e1 e2
      have hE : (let errors := if (missing vars args).isEmpty then illTyped vars args
            else illTyped vars args ++ [.missingArguments (missing vars args)]
          if (unusedArguments vars args).isEmpty then errors
          else errors ++ [.unusedArguments (unusedArguments vars args)]) = errorsOf vars args := by
        unfold errorsOf
        cases (missing vars args).isEmpty <;> cases (unusedArguments vars args).isEmpty <;> simp
      constructor
      · intro h0
        simp only [validate, hc]
        simp only [] at hE
        rw [hE, h0]; rfl
      · intro hne
        obtain ⟨e, he, hee⟩ := ofVec_ok hne
        refine ⟨e, ?_, hee⟩
        simp only [validate, hc]
        simp only [] at hE
        rw [hE]
        have : (errorsOf vars args).isEmpty = false := by
          cases h' : errorsOf vars args with
          | nil => exact absurd h' hne
          | cons _ _ => rfl
        simp [this, he]


theorem mem_illTyped {vars : List (N × Ty)} {args : List (N × Value)} {e : ArgErr N} :
    e ∈ illTyped vars args ↔ ∃ nt, nt ∈ vars ∧ ∃ v, getArg args nt.1 = some v ∧
      isValidValue nt.2 v = .ok false ∧ e = .argumentTypeError nt.1 nt.2 v := by
  simp only [illTyped, List.mem_filterMap]
  constructor
  · intro ⟨nt, hm, h⟩
    refine ⟨nt, hm, ?_⟩
    cases hg : getArg args nt.1 with
    | none => simp [hg] at h
    | some v =>
      simp only [hg] at h
      split at h
      · rename_i hv; cases h; exact ⟨v, rfl, hv, rfl⟩
      · cases h
  · intro ⟨nt, hm, v, hg, hv, he⟩
    exact ⟨nt, hm, by simp [hg, hv, he]⟩

theorem mem_missing {vars : List (N × Ty)} {args : List (N × Value)} {n : N} :
    n ∈ missing vars args ↔ (∃ t, (n, t) ∈ vars) ∧ getArg args n = none := by
  simp only [missing, List.mem_map, List.mem_filter, Option.isNone_iff_eq_none]
  constructor
  · intro ⟨nt, ⟨hm, hg⟩, hn⟩; subst hn; exact ⟨⟨nt.2, hm⟩, hg⟩
  · intro ⟨⟨t, hm⟩, hg⟩; exact ⟨(n, t), ⟨hm, hg⟩, rfl⟩

theorem mem_unused {vars : List (N × Ty)} {args : List (N × Value)} {k : N} :
    k ∈ unusedArguments vars args ↔ (∃ v, (k, v) ∈ args) ∧ ¬ ∃ t, (k, t) ∈ vars := by
  simp only [unusedArguments, List.mem_filter, List.mem_map, Bool.not_eq_true', List.any_eq_false,
    beq_iff_eq]
  constructor
  · intro ⟨⟨kv, hm, hk⟩, hno⟩
    subst hk
    exact ⟨⟨kv.2, hm⟩, fun ⟨t, ht⟩ => hno (kv.1, t) ht rfl⟩
  · intro ⟨⟨v, hm⟩, hno⟩
    exact ⟨⟨(k, v), hm, rfl⟩, fun nt hnt hk => hno ⟨nt.2, by rw [← hk]; exact hnt⟩⟩

theorem errorsOf_eq_nil_iff (vars : List (N × Ty)) (args : List (N × Value)) :
    errorsOf vars args = [] ↔
      illTyped vars args = [] ∧ missing vars args = [] ∧ unusedArguments vars args = [] := by
  unfold errorsOf
  cases h1 : missing vars args <;> cases h2 : unusedArguments vars args <;> simp

/-- Acceptance, exactly. -/
theorem validate_ok_iff (vars : List (N × Ty)) (args : List (N × Value)) :
    validate vars args = .ok (.ok ()) ↔
      (∀ nt, nt ∈ vars → ∃ x, getArg args nt.1 = some x ∧ isValidValue nt.2 x = .ok true) ∧
      (∀ kv, kv ∈ args → ∃ t, (kv.1, t) ∈ vars) := by
  have spec := validate_spec vars args
  constructor
  · intro h
    have hnp : ¬ SomePanics vars args := fun hp => by rw [spec.1 hp] at h; cases h
    have hnil : errorsOf vars args = [] := by
      apply Classical.byContradiction
      intro hne
      obtain ⟨e, he, _⟩ := (spec.2 hnp).2 hne
      rw [he] at h; cases h
    obtain ⟨h1, h2, h3⟩ := (errorsOf_eq_nil_iff vars args).mp hnil
    constructor
    · intro nt hm
      cases hg : getArg args nt.1 with
      | none =>
        have : nt.1 ∈ missing vars args := mem_missing.mpr ⟨⟨nt.2, hm⟩, hg⟩
        rw [h2] at this; cases this
      | some x =>
        refine ⟨x, rfl, ?_⟩
        cases hv : isValidValue nt.2 x with
        | panic => exact absurd ⟨nt, hm, x, hg, hv⟩ hnp
        | ok r =>
          cases r with
          | true => rfl
          | false =>
            have : ArgErr.argumentTypeError nt.1 nt.2 x ∈ illTyped vars args :=
              mem_illTyped.mpr ⟨nt, hm, x, hg, hv, rfl⟩
            rw [h1] at this; cases this
    · intro kv hm
      apply Classical.byContradiction
      intro hno
      have : kv.1 ∈ unusedArguments vars args := mem_unused.mpr ⟨⟨kv.2, hm⟩, hno⟩
      rw [h3] at this; cases this
  · intro ⟨hv, hk⟩
    have hnp : ¬ SomePanics vars args := by
      intro ⟨nt, hm, v, hg, hp⟩
      obtain ⟨x, hx, hxv⟩ := hv nt hm
      rw [hg] at hx; cases hx
      rw [hp] at hxv; cases hxv
    apply (spec.2 hnp).1
    rw [errorsOf_eq_nil_iff]
    refine ⟨?_, ?_, ?_⟩
    · apply List.eq_nil_iff_forall_not_mem.mpr
      intro e he
      obtain ⟨nt, hm, v, hg, hf, _⟩ := mem_illTyped.mp he
      obtain ⟨x, hx, hxv⟩ := hv nt hm
      rw [hg] at hx; cases hx
      rw [hf] at hxv; cases hxv
    · apply List.eq_nil_iff_forall_not_mem.mpr
      intro n hn
      obtain ⟨⟨t, hm⟩, hg⟩ := mem_missing.mp hn
      obtain ⟨x, hx, _⟩ := hv (n, t) hm
      rw [hg] at hx; cases hx
    · apply List.eq_nil_iff_forall_not_mem.mpr
      intro k hkm
      obtain ⟨⟨v, hm⟩, hno⟩ := mem_unused.mp hkm
      exact hno (hk (k, v) hm)

end

/-! ### The inferred type is the greatest lower bound of the use types -/

theorem inferLoop_spec {e : Ty} (he : WF e) (uses : List Ty) (hu : ∀ u, u ∈ uses → WF u) :
    ∃ t bad, inferLoop e uses = .ok (t, bad) ∧ WF t ∧
      (bad = false → ∀ x, isValidValue t x = .ok true ↔
        (isValidValue e x = .ok true ∧ ∀ u, u ∈ uses → isValidValue u x = .ok true)) ∧
      (bad = true ↔ ∃ u, u ∈ uses ∧ equalIgnoringNullability e u = false) := by
  induction uses generalizing e with
  | nil => exact ⟨e, false, rfl, he, by simp, by simp⟩
  | cons u rest ih =>
    have hwu := hu u (by simp)
    have hrest : ∀ w, w ∈ rest → WF w := fun w hw => hu w (by simp [hw])
    obtain ⟨r, hr, hrw⟩ := C17.intersect_total he hwu
    have hiff := C17.intersect_some_iff_eqIgnNull he hwu
    simp only [inferLoop, hr]
    cases r with
    | none =>
      have hne : equalIgnoringNullability e u = false := by
        cases h : equalIgnoringNullability e u with
        | false => rfl
        | true => obtain ⟨c, hc⟩ := hiff.mpr h; rw [hr] at hc; cases hc
      obtain ⟨t, bad, hl, hwt, _, _⟩ := ih he hrest
      refine ⟨t, true, by simp [hl], hwt, by simp, ?_⟩
      simp only [true_iff]
      exact ⟨u, by simp, hne⟩
    | some c =>
      have hwc := hrw c rfl
      have heq : equalIgnoringNullability e u = true := hiff.mp ⟨c, hr⟩
      obtain ⟨t, bad, hl, hwt, hgood, hbad⟩ := ih hwc hrest
      refine ⟨t, bad, hl, hwt, ?_, ?_⟩
      · intro hb x
        rw [hgood hb x, C17.valid_intersect he hwu hr x]
        simp only [List.mem_cons, forall_eq_or_imp]
        exact ⟨fun ⟨⟨a, b⟩, c⟩ => ⟨a, b, c⟩, fun ⟨a, b, c⟩ => ⟨⟨a, b⟩, c⟩⟩
      · rw [hbad]
        have hce : ∀ w, WF w → (equalIgnoringNullability c w = equalIgnoringNullability e w) := by
          intro w hw
          have h1 := C17.eqIgnNull_iff hwc hw
          have h2 := C17.eqIgnNull_iff he hw
          obtain ⟨hb1, hb2, hsh⟩ := C17.intersect_some_spec he hwu hr
          have hd : c.listDepth = e.listDepth := by
            unfold listDepth
            exact Shape.inter_depth hsh
          rw [hb1, hd] at h1
          cases ha : equalIgnoringNullability c w <;> cases hb : equalIgnoringNullability e w <;> simp_all
        constructor
        · intro ⟨w, hw, hf⟩
          exact ⟨w, by simp [hw], by rw [← hce w (hrest w hw)]; exact hf⟩
        · intro ⟨w, hw, hf⟩
          cases List.mem_cons.mp hw with
          | inl h => subst h; rw [heq] at hf; cases hf
          | inr h => exact ⟨w, h, by rw [hce w (hrest w h)]; exact hf⟩

end TF.Args
