/-
Bridge between the engine group's structural argument validation (`Model/Args.lean`:
`Engine.validValueR`, `Engine.argTypeErrs`, `Engine.validateArgs`, `Engine.ArgsOK` on `QTy` flag
lists) and the mask-based model of C12/C17 (`Args.validate` over `Ty.isValidValue`):

* `validValueR_eq_isValidValue` — same validity verdict (and no panic on either side), for every
  `QTy` with at least one flag, every value, enum leaves included;
* `validQ_iff` — the Bool *relation* `Engine.validQ` holds iff `is_valid_value` answers `true`;
* `validateArgs_eq` — same acceptance, same error variants in the same order;
* `ArgsOK_iff` — the engine's acceptance predicate is `validateQ … = ok (ok ())`, to which the C12
  theorems (`TF.C12.validate_iff`, `validate_iff_welltyped`, …) apply through `validateQ`'s
  definition.

Not in the import closure of `Props/C12.lean` (so that edits to `Model/Args.lean` cannot break
`./check C12`); build with `lake build TrustfallModel.Proofs.ArgsBridge`.
-/
import TrustfallModel.Model.Args
import TrustfallModel.Model.ArgsQ
import TrustfallModel.Proofs.Args
namespace TF.Args
open TF Ty Shape

theorem nameBytes_inj {s t : String} (h : nameBytes s = nameBytes t) : s = t := by
  unfold nameBytes at h
  apply String.toByteArray_inj.mp
  have : s.toUTF8.data = t.toUTF8.data := Array.toList_inj.mp h
  simp only [String.toUTF8_eq_toByteArray] at this
  exact ByteArray.ext this

theorem nameBytes_beq (s : String) (lit : String) : (nameBytes s == nameBytes lit) = (s == lit) := by
  by_cases h : s = lit
  · subst h; simp
  · have : nameBytes s ≠ nameBytes lit := fun e => h (nameBytes_inj e)
    rw [beq_eq_false_iff_ne.mpr this, beq_eq_false_iff_ne.mpr h]

theorem int_lit : nameBytes "Int" = INT := by decide +kernel
theorem float_lit : nameBytes "Float" = FLOAT := by decide +kernel
theorem string_lit : nameBytes "String" = STRING := by decide +kernel
theorem boolean_lit : nameBytes "Boolean" = BOOLEAN := by decide +kernel


/-- Engine-side result type from the mask-based outcome (`validate` keeps the `assert!` of
`errors.into()` as its only, unreachable, panic site). -/
def toR {α : Type} : Ty.Outcome α → Engine.R α
  | .ok a => .ok a
  | .panic => .panic "errors.into(): assert!(!v.is_empty())"

theorem shapeOfFlags_cons_cons (n m : Bool) (rest : List Bool) :
    shapeOfFlags (n :: m :: rest) = .list n (shapeOfFlags (m :: rest)) := rfl

mutual
theorem validValueR_eq (base : String) : (nulls : List Bool) → nulls ≠ [] → (v : Value) →
    Engine.validValueR nulls base v = .ok (Shape.valid (nameBytes base) (shapeOfFlags nulls) v)
  | [], h, _ => absurd rfl h
  | [n], _, v => by
    cases v <;> simp [Engine.validValueR, shapeOfFlags, Shape.valid, Shape.nullable, depth,
      ← int_lit, ← float_lit, ← string_lit, ← boolean_lit, nameBytes_beq]
  | n :: m :: rest, _, v => by
    cases v with
    | list items =>
      simp only [Engine.validValueR, shapeOfFlags_cons_cons, Shape.valid, List.isEmpty_cons,
        Bool.false_eq_true, if_false]
      exact validValuesR_eq base (m :: rest) (by simp) items
    | _ => simp [Engine.validValueR, shapeOfFlags, Shape.valid, Shape.nullable, depth]
theorem validValuesR_eq (base : String) (nulls : List Bool) (h : nulls ≠ []) : (l : List Value) →
    Engine.validValuesR nulls base l = .ok (validAll (nameBytes base) (shapeOfFlags nulls) l)
  | [] => by simp [Engine.validValuesR, validAll]
  | x :: xs => by
    simp only [Engine.validValuesR, validAll]
    rw [validValueR_eq base nulls h x]
    cases hx : Shape.valid (nameBytes base) (shapeOfFlags nulls) x with
    | false => simp
    | true => simp only [Bool.true_and]; exact validValuesR_eq base nulls h xs
end

/-- The engine group's structural `is_valid_value` is the mask-based one on the denoted type. -/
theorem validValueR_eq_isValidValue (q : Engine.QTy) (h : q.nulls ≠ []) (v : Value) :
    Engine.validValueR q.nulls q.base v = .ok (validValueQ q v) := by
  unfold validValueQ qtyToTy
  rw [isValidValue_ofShape]
  exact validValueR_eq q.base q.nulls h v


/-! ### `validateArgs` -/

theorem filter_isEmpty {α : Type} (p : α → Bool) (l : List α) : (l.filter p).isEmpty = !l.any p := by
  induction l with
  | nil => rfl
  | cons x xs ih => cases h : p x <;> simp [List.filter, h, ih]

theorem find?_isNone {α : Type} (p : α → Bool) (l : List α) : (l.find? p).isNone = !l.any p := by
  induction l with
  | nil => rfl
  | cons x xs ih => cases h : p x <;> simp [List.find?, h, ih]

theorem getArg_isNone (args : List (String × Value)) (n : String) :
    (getArg args n).isNone = (args.find? (fun kv => kv.1 == n)).isNone := by
  unfold getArg
  cases args.find? (fun kv => kv.1 == n) <;> rfl

/-- The conversion of the variable list. -/
def convVars (vars : List (Engine.Name × Engine.QTy)) : List (String × Ty) :=
  vars.map fun nq => (nq.1, qtyToTy nq.2)

theorem argTypeErrs_eq (args : List (String × Value)) (vars : List (Engine.Name × Engine.QTy))
    (h : ∀ nq, nq ∈ vars → nq.2.nulls ≠ []) :
    Engine.argTypeErrs args vars =
      .ok ((checkVariables args (convVars vars)).1.map ArgErr.variantName) := by
  induction vars with
  | nil => rfl
  | cons nq rest ih =>
    obtain ⟨n, q⟩ := nq
    have hq : q.nulls ≠ [] := h (n, q) (by simp)
    have ih' := ih (fun x hx => h x (by simp [hx]))
    simp only [Engine.argTypeErrs, convVars, List.map_cons, checkVariables, getArg]
    cases hf : args.find? (fun kv => kv.1 == n) with
    | none =>
      simp only []
      rw [ih']
      rfl
    | some kv =>
      obtain ⟨k, v⟩ := kv
      simp only [validateArgumentType]
      rw [validValueR_eq_isValidValue q hq v, ih']
      unfold validValueQ convVars
      cases isValidValue (qtyToTy q) v <;> simp [ArgErr.variantName]

theorem missing_isEmpty (args : List (String × Value)) (vars : List (Engine.Name × Engine.QTy)) :
    (missing (convVars vars) args).isEmpty =
      !(vars.any fun x => (args.find? (fun kv => kv.1 == x.1)).isNone) := by
  unfold missing convVars
  simp only [List.isEmpty_map, filter_isEmpty, List.any_map]
  congr 2
  funext x
  exact getArg_isNone args x.1

theorem unused_isEmpty (args : List (String × Value)) (vars : List (Engine.Name × Engine.QTy)) :
    (unusedArguments (convVars vars) args).isEmpty =
      !(args.any fun x => (vars.find? (fun nq => nq.1 == x.1)).isNone) := by
  unfold unusedArguments convVars
  simp only [filter_isEmpty, List.any_map, find?_isNone]
  rfl


/-- What `Engine.validateArgs` reports, computed from the mask-based validation. -/
def reportOf : Ty.Outcome (Except (ArgsError String) Unit) → Engine.R (Option (List String))
  | .panic => .panic "errors.into(): assert!(!v.is_empty())"
  | .ok (.ok ()) => .ok none
  | .ok (.error e) => .ok (some (e.errors.map ArgErr.variantName))

/-- The engine group's `validateArgs` (structural, on `QTy`) is the mask-based `validate` on the
denoted types: same acceptance, same error variants in the same order (neither side panics:
`C12.validate_total`). -/
theorem validateArgs_eq (vars : List (Engine.Name × Engine.QTy)) (args : List (String × Value))
    (h : ∀ nq, nq ∈ vars → nq.2.nulls ≠ []) :
    Engine.validateArgs vars args = reportOf (validateQ vars args) := by
  unfold Engine.validateArgs validateQ validate
  rw [argTypeErrs_eq args vars h]
  rw [show (List.map (fun nq => (nq.fst, qtyToTy nq.snd)) vars) = convVars vars from rfl]
  rw [checkVariables_eq]
  have hm := missing_isEmpty args vars
  have hu := unused_isEmpty args vars
  simp only []
  generalize hM : (vars.any fun x => (args.find? (fun kv => kv.1 == x.1)).isNone) = M at hm
  generalize hU : (args.any fun x => (vars.find? (fun nq => nq.1 == x.1)).isNone) = U at hu
  have hM' : (vars.any fun x => match x with | (n, _) => (args.find? (fun kv => kv.1 == n)).isNone) = M := by
    rw [← hM]
  have hU' : (args.any fun x => match x with | (n, _) => (vars.find? (fun nq => nq.1 == n)).isNone) = U := by
    rw [← hU]
  simp only [hm, hu]
  generalize illTyped (convVars vars) args = es
  generalize missing (convVars vars) args = ms
  cases M <;> cases U <;> simp only [Bool.not_true, Bool.not_false, if_true, if_false,
    Bool.false_eq_true, List.append_nil]
  · cases es with
    | nil => rfl
    | cons e rest =>
      obtain ⟨x, hx, hxe⟩ := ofVec_ok (es := e :: rest) (by simp)
      simp [hx, reportOf, hxe]
  · obtain ⟨x, hx, hxe⟩ := ofVec_ok
      (es := es ++ [ArgErr.unusedArguments (unusedArguments (convVars vars) args)]) (by simp)
    simp [hx, reportOf, hxe, ArgErr.variantName]
  · obtain ⟨x, hx, hxe⟩ := ofVec_ok (es := es ++ [ArgErr.missingArguments ms]) (by simp)
    simp [hx, reportOf, hxe, ArgErr.variantName]
  · obtain ⟨x, hx, hxe⟩ := ofVec_ok
      (es := es ++ [ArgErr.missingArguments ms,
        ArgErr.unusedArguments (unusedArguments (convVars vars) args)]) (by simp)
    simp [hx, reportOf, hxe, ArgErr.variantName]

/-- In particular the engine's acceptance predicate is the mask-based acceptance. -/
theorem ArgsOK_iff (ir : Engine.IRQuery) (args : List (String × Value))
    (h : ∀ nq, nq ∈ ir.variables → nq.2.nulls ≠ []) :
    Engine.ArgsOK ir args = true ↔ validateQ ir.variables args = .ok (.ok ()) := by
  unfold Engine.ArgsOK
  rw [validateArgs_eq ir.variables args h]
  cases hv : validateQ ir.variables args with
  | panic => simp [reportOf]
  | ok r =>
    cases r with
    | ok u => simp [reportOf]
    | error e => simp [reportOf]

mutual
theorem validNulls_eq (base : String) : (nulls : List Bool) → nulls ≠ [] → (v : Value) →
    Engine.validNulls nulls base v = Shape.valid (nameBytes base) (shapeOfFlags nulls) v
  | [], h, _ => absurd rfl h
  | [n], _, v => by
    cases v <;> simp [Engine.validNulls, shapeOfFlags, Shape.valid, Shape.nullable, depth,
      ← int_lit, ← float_lit, ← string_lit, ← boolean_lit, nameBytes_beq]
  | n :: m :: rest, _, v => by
    cases v with
    | list items =>
      simp only [Engine.validNulls, shapeOfFlags_cons_cons, Shape.valid, List.isEmpty_cons,
        Bool.not_false, Bool.true_and]
      exact validNullsList_eq base (m :: rest) (by simp) items
    | _ => simp [Engine.validNulls, shapeOfFlags, Shape.valid, Shape.nullable, depth]
theorem validNullsList_eq (base : String) (nulls : List Bool) (h : nulls ≠ []) : (l : List Value) →
    Engine.validNullsList nulls base l = validAll (nameBytes base) (shapeOfFlags nulls) l
  | [] => by simp [Engine.validNullsList, validAll]
  | x :: xs => by
    simp only [Engine.validNullsList, validAll]
    rw [validNulls_eq base nulls h x, validNullsList_eq base nulls h xs]
end

/-- The engine group's validity *relation* `validQ` is the mask-based `is_valid_value` (they are the
same function now that enum values are `false` rather than a panic; in particular never `true`
for a value with an enum leaf the check inspects, nor for one with an ill-typed element). -/
theorem validQ_iff (q : Engine.QTy) (h : q.nulls ≠ []) (v : Value) :
    Engine.validQ q v = true ↔ validValueQ q v = true := by
  unfold Engine.validQ validValueQ qtyToTy
  rw [isValidValue_ofShape, validNulls_eq q.base q.nulls h v]

end TF.Args

#print axioms TF.Args.validValueR_eq_isValidValue
#print axioms TF.Args.validateArgs_eq
#print axioms TF.Args.ArgsOK_iff
#print axioms TF.Args.validQ_iff
