/-
Helper lemmas for C06: membership of candidate values under `Range::intersect`, `normalize`,
`intersect`, `exclude_single_value`.

Everything about the order on values is derived from three facts of `Proofs/ValueOrder.lean`
(`cmp_swap`, `cmp_isLE_trans`, `cmp_eq_iff_beq`): the comparison of any three values is one of the 13
weak orderings of three points (`cmp_consistent`), and every lemma below that mentions at most three
values is then decided by enumerating those (`order3`).  Core Lean + `Std` only.
-/
import TrustfallModel.Model.Candidates
import TrustfallModel.Proofs.ValueOrder

namespace TF.Cand
open TF Value

/-! ### the order toolkit -/

/-- The 13 weak orderings of three elements, as the triple `(cmp a b, cmp b c, cmp a c)`. -/
def Consistent : Ordering → Ordering → Ordering → Bool
  | .lt, .lt, z => z == .lt
  | .lt, .eq, z => z == .lt
  | .lt, .gt, _ => true
  | .eq, y, z => y == z
  | .gt, .gt, z => z == .gt
  | .gt, .eq, z => z == .gt
  | .gt, .lt, _ => true

theorem cmp_consistent (a b c : Value) : Consistent (cmp a b) (cmp b c) (cmp a c) = true := by
  have t1 := @cmp_isLE_trans a b c
  have t2 := @cmp_isLE_trans a c b
  have t3 := @cmp_isLE_trans b a c
  have t4 := @cmp_isLE_trans b c a
  have t5 := @cmp_isLE_trans c a b
  have t6 := @cmp_isLE_trans c b a
  rw [cmp_swap b a, cmp_swap c b, cmp_swap c a] at *
  revert t1 t2 t3 t4 t5 t6
  generalize cmp a b = x
  generalize cmp b c = y
  generalize cmp a c = z
  cases x <;> cases y <;> cases z <;> simp [Consistent, Ordering.swap, Ordering.isLE]

theorem beq_eq_cmp (a b : Value) : Value.beq a b = (cmp a b == .eq) := by
  have := cmp_eq_iff_beq a b
  cases h : Value.beq a b <;> cases h2 : cmp a b <;> simp_all

/-- Decide a goal that depends only on the mutual order of three values: bring every comparison
(`lt/le/gt/ge/beq`, in hypotheses and goal) into the orientation `cmp a b`, `cmp b c`, `cmp a c`, and
enumerate the consistent outcomes. -/
syntax "order3 " term:max term:max term:max : tactic
macro_rules
  | `(tactic| order3 $a $b $c) => `(tactic| (
      have hcons := cmp_consistent $a $b $c
      simp only [lt, le, gt, ge, beq_eq_cmp, cmp_swap $b $a, cmp_swap $c $b, cmp_swap $c $a] at *
      generalize hx : cmp $a $b = x at *
      generalize hy : cmp $b $c = y at *
      generalize hz : cmp $a $c = z at *
      cases x <;> cases y <;> cases z <;> simp_all [Consistent, Ordering.swap]))

theorem beq_refl (a : Value) : Value.beq a a = true :=
  (cmp_eq_iff_beq a a).mp (Std.ReflCmp.compare_self (cmp := cmp))

theorem beq_comm (a b : Value) : Value.beq a b = Value.beq b a := by
  rw [beq_eq_cmp, beq_eq_cmp, cmp_swap a b]
  cases cmp b a <;> rfl

theorem beq_congr_left {a b : Value} (h : Value.beq a b = true) (c : Value) :
    Value.beq a c = Value.beq b c := by
  order3 a b c

theorem beq_congr_right {a b : Value} (h : Value.beq a b = true) (c : Value) :
    Value.beq c a = Value.beq c b := by
  order3 a b c

/-! ### null -/

theorem beq_null_left (v : Value) : Value.beq .null v = isNull v := by
  cases v <;> simp [Value.beq, isNull, disc]

theorem beq_null_right (v : Value) : Value.beq v .null = isNull v := by
  cases v <;> simp [Value.beq, isNull, disc]

theorem isNull_congr {a b : Value} (h : Value.beq a b = true) : isNull a = isNull b := by
  cases a <;> cases b <;> simp_all [Value.beq, isNull, disc]

theorem beq_of_isNull {x : Value} (hx : isNull x = true) (v : Value) : Value.beq v x = isNull v := by
  cases x <;> simp [isNull] at hx
  exact beq_null_right v

/-! ### `Vec::contains` and `retain` -/

theorem containsV_congr (vs : List Value) {a b : Value} (h : Value.beq a b = true) :
    containsV vs a = containsV vs b := by
  induction vs with
  | nil => rfl
  | cons x xs ih =>
    simp only [containsV, List.any_cons] at ih ⊢
    rw [ih, beq_congr_right h x]

/-- `retain p` keeps exactly the members that satisfy `p`, for a predicate that does not distinguish
`==` values. -/
theorem containsV_filter (vs : List Value) (p : Value → Bool) (v : Value)
    (hp : ∀ x, Value.beq x v = true → p x = p v) :
    containsV (vs.filter p) v = (containsV vs v && p v) := by
  induction vs with
  | nil => simp [containsV]
  | cons x xs ih =>
    simp only [containsV] at ih
    by_cases hx : p x = true
    · simp only [containsV, List.filter_cons_of_pos hx, List.any_cons, ih]
      cases hb : Value.beq x v
      · simp
      · have := hp x hb
        simp [← this, hx]
    · have hx' : p x = false := by simpa using hx
      simp only [containsV, List.filter_cons_of_neg hx, List.any_cons, ih]
      cases hb : Value.beq x v
      · simp
      · have := hp x hb
        simp [← this, hx']

end TF.Cand

namespace TF.Bound
open TF Value Cand

/-! ### bounds -/

theorem startOk_meetStart (a b : Bound) (v : Value) :
    startOk (meetStart a b) v = (startOk a v && startOk b v) := by
  cases a with
  | unbounded => simp [meetStart, startOk]
  | included s =>
    cases b with
    | unbounded => simp [meetStart, startOk]
    | included o => simp only [meetStart]; split <;> simp only [startOk] <;> order3 s o v
    | excluded o => simp only [meetStart]; split <;> simp only [startOk] <;> order3 s o v
  | excluded s =>
    cases b with
    | unbounded => simp [meetStart, startOk]
    | included o => simp only [meetStart]; split <;> simp only [startOk] <;> order3 s o v
    | excluded o => simp only [meetStart]; split <;> simp only [startOk] <;> order3 s o v

theorem endOk_meetEnd (a b : Bound) (v : Value) :
    endOk (meetEnd a b) v = (endOk a v && endOk b v) := by
  cases a with
  | unbounded => simp [meetEnd, endOk]
  | included s =>
    cases b with
    | unbounded => simp [meetEnd, endOk]
    | included o => simp only [meetEnd]; split <;> simp only [endOk] <;> order3 s o v
    | excluded o => simp only [meetEnd]; split <;> simp only [endOk] <;> order3 s o v
  | excluded s =>
    cases b with
    | unbounded => simp [meetEnd, endOk]
    | included o => simp only [meetEnd]; split <;> simp only [endOk] <;> order3 s o v
    | excluded o => simp only [meetEnd]; split <;> simp only [endOk] <;> order3 s o v

theorem isNullBound_meetStart (a b : Bound) (ha : a.isNullBound = false) (hb : b.isNullBound = false) :
    (meetStart a b).isNullBound = false := by
  cases a <;> cases b <;> simp only [meetStart] <;> (try split) <;> assumption

theorem isNullBound_meetEnd (a b : Bound) (ha : a.isNullBound = false) (hb : b.isNullBound = false) :
    (meetEnd a b).isNullBound = false := by
  cases a <;> cases b <;> simp only [meetEnd] <;> (try split) <;> assumption

theorem startOk_congr (b : Bound) {x v : Value} (h : Value.beq x v = true) :
    startOk b x = startOk b v := by
  cases b with
  | unbounded => rfl
  | included s => simp only [startOk]; order3 s x v
  | excluded s => simp only [startOk]; order3 s x v

theorem endOk_congr (b : Bound) {x v : Value} (h : Value.beq x v = true) :
    endOk b x = endOk b v := by
  cases b with
  | unbounded => rfl
  | included s => simp only [endOk]; order3 s x v
  | excluded s => simp only [endOk]; order3 s x v

theorem isNullBound_dropIncluded (b : Bound) (x : Value) :
    (dropIncluded b x).isNullBound = b.isNullBound := by
  cases b <;> simp only [dropIncluded] <;> (try split) <;> rfl

theorem startOk_dropIncluded_sub (b : Bound) (x v : Value) (h : startOk (dropIncluded b x) v = true) :
    startOk b v = true := by
  cases b with
  | unbounded => rfl
  | excluded s => exact h
  | included s =>
    simp only [dropIncluded] at h
    split at h
    · simp only [startOk] at h ⊢; order3 s v x
    · exact h

theorem endOk_dropIncluded_sub (b : Bound) (x v : Value) (h : endOk (dropIncluded b x) v = true) :
    endOk b v = true := by
  cases b with
  | unbounded => rfl
  | excluded s => exact h
  | included s =>
    simp only [dropIncluded] at h
    split at h
    · simp only [endOk] at h ⊢; order3 s v x
    · exact h

theorem startOk_dropIncluded_keeps (b : Bound) (x v : Value) (h : startOk b v = true)
    (hne : Value.beq v x = false) : startOk (dropIncluded b x) v = true := by
  cases b with
  | unbounded => rfl
  | excluded s => exact h
  | included s =>
    simp only [dropIncluded]
    split
    · simp only [startOk] at h ⊢; order3 s v x
    · exact h

theorem endOk_dropIncluded_keeps (b : Bound) (x v : Value) (h : endOk b v = true)
    (hne : Value.beq v x = false) : endOk (dropIncluded b x) v = true := by
  cases b with
  | unbounded => rfl
  | excluded s => exact h
  | included s =>
    simp only [dropIncluded]
    split
    · simp only [endOk] at h ⊢; order3 s v x
    · exact h

end TF.Bound

namespace TF.Range
open TF Value Cand Bound

/-! ### ranges -/

theorem contains_intersect (r o : Range) (v : Value) :
    (r.intersect o).contains v = (r.contains v && o.contains v) := by
  simp only [contains, intersect]
  cases isNull v
  · simp only [Bool.false_eq_true, ↓reduceIte, startOk_meetStart, endOk_meetEnd]
    cases startOk r.start v <;> cases startOk o.start v <;> cases endOk r.end_ v <;> simp
  · simp

theorem contains_congr (r : Range) {x v : Value} (h : Value.beq x v = true) :
    r.contains x = r.contains v := by
  simp only [contains, isNull_congr h, startOk_congr _ h, endOk_congr _ h]

/-- A degenerate range admits no value through its bounds (whatever the value's kind). -/
theorem degenerate_bounds (r : Range) (h : r.degenerate = true) (v : Value) :
    (startOk r.start v && endOk r.end_ v) = false := by
  obtain ⟨s, e, n⟩ := r
  cases s <;> cases e <;> simp only [degenerate] at h <;> try (exact absurd h (by decide))
  all_goals (rename_i l r; simp only [startOk, endOk]; order3 l v r)

end TF.Range

namespace TF.Candidate
open TF Value Cand Bound Range

/-! ### `normalize` -/

theorem wf_normalize (a : Candidate) : a.normalize.wf = true ∨ a.normalize = a := by
  cases a with
  | range r =>
    simp only [normalize]
    split
    · left; rfl
    · split
      · left; rfl
      · split
        · split
          · left; rfl
          · split
            · split <;> (left; rfl)
            · right; rfl
        · right; rfl
  | multiple vs =>
    simp only [normalize]
    split <;> first | (left; rfl) | (right; rfl)
  | impossible => right; rfl
  | single _ => right; rfl
  | all => right; rfl

theorem mem_normalize_range (r : Range) (v : Value) (hwf : (range r).wf = true) :
    mem v (range r).normalize = r.contains v := by
  obtain ⟨s, e, n⟩ := r
  simp only [normalize]
  split
  · -- null only
    rename_i hno
    simp only [nullOnly, Bool.and_eq_true] at hno
    have hd := degenerate_bounds _ hno.2 v
    simp only at hd hno
    simp only [mem, contains, beq_null_left, hd, hno.1]
    cases isNull v <;> simp
  · rename_i hno
    split
    · -- degenerate, null not included
      rename_i hdeg
      have hn : n = false := by
        simp only [nullOnly, hdeg, Bool.and_true] at hno
        simpa using hno
      have hd := degenerate_bounds _ hdeg v
      simp only at hd
      simp only [mem, contains, hd, hn]
      cases isNull v <;> simp
    · rename_i hdeg
      split
      · rename_i hse
        cases s with
        | unbounded =>
          cases e with
          | unbounded =>
            cases n
            · simp [Range.beq, Bound.beq, Range.full, mem]
            · simp [Range.beq, Bound.beq, Range.full, mem, contains, startOk, endOk]
          | included _ => simp [Bound.beq] at hse
          | excluded _ => simp [Bound.beq] at hse
        | excluded a =>
          cases e with
          | unbounded => simp [Bound.beq] at hse
          | included _ => simp [Bound.beq] at hse
          | excluded b =>
            simp [Range.beq, Bound.beq, Range.full, mem]
        | included a =>
          cases e with
          | unbounded => simp [Bound.beq] at hse
          | excluded _ => simp [Bound.beq] at hse
          | included b =>
            simp only [Bound.beq] at hse
            have ha : isNull a = false := by
              simp only [wf, isNullBound, Bool.and_eq_true, Bool.not_eq_true'] at hwf
              exact hwf.1
            simp only [Range.beq, Bound.beq, Range.full, Bool.false_and, Bool.false_eq_true, ↓reduceIte]
            cases hnv : isNull v
            · have hpt : (Cand.le a v && Cand.le v b) = Value.beq a v := by order3 a b v
              cases n
              · simp [mem, contains, startOk, endOk, hnv, hpt]
              · simp [mem, contains, containsV, startOk, endOk, hnv, hpt, beq_null_left]
            · have hav : Value.beq a v = false := by
                cases h : Value.beq a v
                · rfl
                · have := isNull_congr h; simp_all
              cases n
              · simp [mem, contains, hnv, hav]
              · simp [mem, contains, containsV, hnv, beq_null_left]
      · rfl

theorem mem_normalize' (a : Candidate) (v : Value) (hwf : a.wf = true) :
    mem v a.normalize = mem v a := by
  cases a with
  | range r => exact mem_normalize_range r v hwf
  | multiple vs =>
    simp only [normalize]
    split <;> simp [mem, containsV]
  | impossible => rfl
  | single _ => rfl
  | all => rfl

theorem wf_normalize' (a : Candidate) (hwf : a.wf = true) : a.normalize.wf = true := by
  rcases wf_normalize a with h | h
  · exact h
  · rw [h]; exact hwf

/-! ### `intersect` -/

/-- `a` is not a `Range` (the arms that `intersectArm` models). -/
def notRange : Candidate → Bool
  | range _ => false
  | _ => true

theorem mem_intersectArm (a b : Candidate) (v : Value) (ha : a.notRange = true) :
    mem v (intersectArm a b) = (mem v a && mem v b) := by
  cases a with
  | range _ => simp [notRange] at ha
  | impossible => simp [intersectArm, mem]
  | all => simp [intersectArm, mem]
  | single val =>
    cases b with
    | impossible => simp [intersectArm, mem]
    | all => simp [intersectArm, mem]
    | single o =>
      simp only [intersectArm]
      split <;> simp only [mem] <;> order3 val o v
    | multiple others =>
      simp only [intersectArm]
      cases hv : Value.beq val v
      · split <;> simp [mem, hv]
      · rw [containsV_congr others hv]
        cases hc : containsV others v <;> simp [mem, hv, hc]
    | range others =>
      simp only [intersectArm]
      cases hv : Value.beq val v
      · split <;> simp [mem, hv]
      · rw [contains_congr others hv]
        cases hc : others.contains v <;> simp [mem, hv, hc]
  | multiple mult =>
    cases b with
    | impossible => simp [intersectArm, mem]
    | all => simp [intersectArm, mem]
    | single o =>
      simp only [intersectArm]
      cases hv : Value.beq o v
      · split <;> simp [mem, hv]
      · rw [containsV_congr mult hv]
        cases hc : containsV mult v <;> simp [mem, hv, hc]
    | multiple others =>
      simp only [intersectArm, mem]
      exact containsV_filter mult _ v (fun x hx => containsV_congr others hx)
    | range others =>
      simp only [intersectArm, mem]
      exact containsV_filter mult _ v (fun x hx => contains_congr others hx)

theorem wf_intersectArm (a b : Candidate) (ha : a.wf = true) (hb : b.wf = true) :
    (intersectArm a b).wf = true := by
  cases a with
  | range _ => exact ha
  | impossible => rfl
  | all => exact hb
  | single val =>
    cases b <;> simp only [intersectArm] <;> (try split) <;> rfl
  | multiple mult =>
    cases b <;> simp only [intersectArm] <;> (try split) <;> rfl

theorem wf_range_intersect (r o : Range) (hr : (range r).wf = true) (ho : (range o).wf = true) :
    (range (r.intersect o)).wf = true := by
  simp only [wf, Bool.and_eq_true, Bool.not_eq_true'] at hr ho ⊢
  exact ⟨isNullBound_meetStart _ _ hr.1 ho.1, isNullBound_meetEnd _ _ hr.2 ho.2⟩

theorem wf_intersect' (a b : Candidate) (ha : a.wf = true) (hb : b.wf = true) :
    (a.intersect b).wf = true := by
  cases a with
  | range r =>
    cases b with
    | range o => exact wf_normalize' _ (wf_range_intersect r o ha hb)
    | impossible => exact wf_normalize' _ (wf_normalize' _ (wf_intersectArm _ _ hb ha))
    | single _ => exact wf_normalize' _ (wf_normalize' _ (wf_intersectArm _ _ hb ha))
    | multiple _ => exact wf_normalize' _ (wf_normalize' _ (wf_intersectArm _ _ hb ha))
    | all => exact wf_normalize' _ (wf_normalize' _ (wf_intersectArm _ _ hb ha))
  | impossible => exact wf_normalize' _ (wf_intersectArm _ _ ha hb)
  | single _ => exact wf_normalize' _ (wf_intersectArm _ _ ha hb)
  | multiple _ => exact wf_normalize' _ (wf_intersectArm _ _ ha hb)
  | all => exact wf_normalize' _ (wf_intersectArm _ _ ha hb)

theorem mem_intersect' (a b : Candidate) (v : Value) (ha : a.wf = true) (hb : b.wf = true) :
    mem v (a.intersect b) = (mem v a && mem v b) := by
  have direct : ∀ a b : Candidate, a.wf = true → b.wf = true → a.notRange = true →
      mem v (normalize (intersectArm a b)) = (mem v a && mem v b) := by
    intro a b ha hb hn
    rw [mem_normalize' _ v (wf_intersectArm a b ha hb), mem_intersectArm a b v hn]
  have reversed : ∀ (r : Range) (b : Candidate), (range r).wf = true → b.wf = true →
      b.notRange = true →
      mem v (normalize (normalize (intersectArm b (range r)))) = (mem v (range r) && mem v b) := by
    intro r b hr hb hn
    rw [mem_normalize' _ v (wf_normalize' _ (wf_intersectArm b _ hb hr)), direct b _ hb hr hn,
      Bool.and_comm]
  cases a with
  | range r =>
    cases b with
    | range o =>
      show mem v (normalize (range (r.intersect o))) = _
      rw [mem_normalize' _ v (wf_range_intersect r o ha hb)]
      exact contains_intersect r o v
    | impossible => exact reversed r _ ha hb rfl
    | single _ => exact reversed r _ ha hb rfl
    | multiple _ => exact reversed r _ ha hb rfl
    | all => exact reversed r _ ha hb rfl
  | impossible => exact direct _ b ha hb rfl
  | single _ => exact direct _ b ha hb rfl
  | multiple _ => exact direct _ b ha hb rfl
  | all => exact direct _ b ha hb rfl

/-! ### `exclude_single_value` -/

theorem wf_exclude' (a : Candidate) (x : Value) (ha : a.wf = true) : (a.exclude x).wf = true := by
  cases a with
  | impossible => rfl
  | single s => simp only [exclude]; split <;> rfl
  | multiple mult => exact wf_normalize' (multiple _) rfl
  | all => simp only [exclude]; split <;> rfl
  | range r =>
    simp only [exclude]
    split
    · exact wf_normalize' _ (by simpa only [wf] using ha)
    · apply wf_normalize'
      simp only [wf, isNullBound_dropIncluded] at ha ⊢
      exact ha

/-- Membership after exclusion, for the discrete variants: exactly the other members. -/
theorem mem_exclude_multiple (mult : List Value) (x v : Value) :
    mem v ((multiple mult).exclude x) = (containsV mult v && !(Value.beq v x)) := by
  simp only [exclude]
  rw [mem_normalize' _ v rfl]
  simp only [mem]
  exact containsV_filter mult _ v (fun e he => by rw [beq_congr_left he x])

theorem exclude_sub' (a : Candidate) (x v : Value) (ha : a.wf = true)
    (h : mem v (a.exclude x) = true) : mem v a = true := by
  cases a with
  | impossible => exact h
  | all => rfl
  | single s =>
    simp only [exclude] at h
    split at h
    · simp [mem] at h
    · exact h
  | multiple mult =>
    rw [mem_exclude_multiple] at h
    simp only [Bool.and_eq_true] at h
    exact h.1
  | range r =>
    simp only [exclude] at h
    split at h
    · rw [mem_normalize' _ v (by simpa only [wf] using ha)] at h
      simp only [mem, contains] at h ⊢
      cases hv : isNull v <;> simp_all
    · rw [mem_normalize' _ v (by simpa only [wf, isNullBound_dropIncluded] using ha)] at h
      simp only [mem, contains] at h ⊢
      cases hv : isNull v
      · simp only [hv, Bool.false_eq_true, ↓reduceIte, Bool.and_eq_true] at h ⊢
        exact ⟨startOk_dropIncluded_sub _ x v h.1, endOk_dropIncluded_sub _ x v h.2⟩
      · simpa [hv] using h

theorem exclude_keeps' (a : Candidate) (x v : Value) (ha : a.wf = true)
    (h : mem v a = true) (hne : Value.beq v x = false) : mem v (a.exclude x) = true := by
  cases a with
  | impossible => exact h
  | all =>
    simp only [exclude]
    split
    · rename_i hx
      rw [beq_of_isNull hx] at hne
      simp [mem, contains, Range.fullNonNull, hne, startOk, endOk]
    · rfl
  | single s =>
    simp only [exclude]
    simp only [mem] at h
    have : Value.beq s x = false := by order3 s v x
    simp [this, mem, h]
  | multiple mult =>
    rw [mem_exclude_multiple]
    simp only [mem] at h
    simp [h, hne]
  | range r =>
    simp only [exclude]
    split
    · rename_i hx
      rw [beq_of_isNull hx] at hne
      rw [mem_normalize' _ v (by simpa only [wf] using ha)]
      simp only [mem, contains, hne] at h ⊢
      exact h
    · rw [mem_normalize' _ v (by simpa only [wf, isNullBound_dropIncluded] using ha)]
      simp only [mem, contains] at h ⊢
      cases hv : isNull v
      · simp only [hv, Bool.false_eq_true, ↓reduceIte, Bool.and_eq_true] at h ⊢
        exact ⟨startOk_dropIncluded_keeps _ x v h.1 hne, endOk_dropIncluded_keeps _ x v h.2 hne⟩
      · simpa [hv] using h

end TF.Candidate
