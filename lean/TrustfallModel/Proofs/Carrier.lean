/-
Proofs about the carrier machine (`Model/Carrier.lean`).

* `safe_all`: the invariant.  In the big-step formulation it reads: whenever a pipeline is being
  built on a *full* cell, with closures that all own a *full* private cell and whose bodies
  (recursively) only create owning closures, then every sub-run either runs out of fuel or returns
  with the pipeline's cell restored to what it was (`true` after construction steps, unchanged by
  windows — closures never touch a cell they do not own), all closures' cells full again, and no
  empty clone recorded.  Open brackets are exactly the `windows … false …` calls on the Lean call
  stack: the empty cells are exactly the cells of the currently open brackets, and a closure that
  can be activated inside a bracket never owns that bracket's cell.
* `fuel_adequate`: with `fuelFor` fuel such a run does not run out of fuel, so `run = ok`.
* `chunk_flatten`: re-batching is order preserving.
-/
import TrustfallModel.Model.Carrier

namespace TF.Carrier
open TF TF.Engine

/-- a closure that owns a full private cell and whose body only creates owning closures -/
def GoodClo (clo : Clo) : Prop := clo.own = true ∧ clo.full = true ∧ allOwnL clo.body = true

def Good (cs : List Clo) : Prop := ∀ clo ∈ cs, GoodClo clo

/-- the sub-run did not panic: it ran out of fuel or returned a state satisfying `post` -/
def Res.sat {α : Type} (r : Res α) (post : α → Prop) : Prop :=
  match r with
  | .ok a => post a
  | .fail o => o = .outOfFuel

theorem good_nil : Good [] := by intro clo h; cases h

theorem good_snoc {cs : List Clo} {clo : Clo} (h : Good cs) (hc : GoodClo clo) : Good (cs ++ [clo]) := by
  intro x hx
  rcases List.mem_append.mp hx with hx | hx
  · exact h x hx
  · simp at hx; subst hx; exact hc

theorem good_set {cs : List Clo} {clo : Clo} (n : Nat) (h : Good cs) (hc : GoodClo clo) :
    Good (cs.set n clo) := by
  intro x hx
  rcases List.mem_or_eq_of_mem_set hx with hx | hx
  · exact h x hx
  · subst hx; exact hc

theorem allOwnL_cons (i : Item) (is : List Item) :
    allOwnL (i :: is) = (i.allOwn && allOwnL is) := by simp [allOwnL]

/-- The four statements of the invariant, for one fuel value. -/
structure SafeAt (f : Nat) : Prop where
  construct : ∀ items c cs st, allOwnL items = true → c = true → Good cs →
    (construct f items c cs st).sat fun r =>
      r.1 = true ∧ Good r.2.1 ∧ r.2.2.emptyClones = st.emptyClones
  windows : ∀ k c cs st, Good cs →
    (windows f k c cs st).sat fun r => r.1 = c ∧ Good r.2.1 ∧ r.2.2.emptyClones = st.emptyClones
  window : ∀ c cs st, Good cs →
    (window f c cs st).sat fun r => r.1 = c ∧ Good r.2.1 ∧ r.2.2.emptyClones = st.emptyClones
  activate : ∀ c clo st, GoodClo clo →
    (activate f c clo st).sat fun r =>
      r.1 = c ∧ GoodClo r.2.1 ∧ r.2.2.emptyClones = st.emptyClones

theorem safe_all (f : Nat) : SafeAt f := by
  induction f with
  | zero =>
    refine ⟨?_, ?_, ?_, ?_⟩ <;> intros <;> simp [construct, windows, window, activate, Res.sat]
  | succ f ih =>
    refine ⟨?_, ?_, ?_, ?_⟩
    · -- construct
      intro items c cs st hown hc hG
      subst hc
      cases items with
      | nil => simp [construct, Res.sat, hG]
      | cons it rest =>
        rw [allOwnL_cons, Bool.and_eq_true] at hown
        obtain ⟨hit, hrest⟩ := hown
        cases it with
        | peek s =>
          simp only [construct, if_true]
          exact ih.construct rest true cs st hrest rfl hG
        | call s k =>
          simp only [construct, if_true]
          have hw := ih.windows k false cs st hG
          revert hw
          cases Carrier.windows f k false cs st with
          | fail o => intro hw; simpa [Res.sat] using hw
          | ok r =>
            obtain ⟨c', cs', st'⟩ := r
            intro hw
            simp only [Res.sat] at hw
            obtain ⟨_, hG', hec⟩ := hw
            have hc := ih.construct rest true cs' st' hrest rfl hG'
            revert hc
            simp only []
            cases Carrier.construct f rest true cs' st' with
            | fail o => intro hc; simpa [Res.sat] using hc
            | ok r2 =>
              intro hc
              simp only [Res.sat] at hc ⊢
              exact ⟨hc.1, hc.2.1, hc.2.2.trans hec⟩
        | closure own body =>
          simp only [Item.allOwn, Bool.and_eq_true] at hit
          obtain ⟨ho, hb⟩ := hit
          subst ho
          simp only [construct, Bool.not_true, Bool.and_false, Bool.false_eq_true, if_false]
          exact ih.construct rest true _ st hrest rfl (good_snoc hG ⟨rfl, rfl, hb⟩)
    · -- windows
      intro k c cs st hG
      cases k with
      | zero => simp [windows, Res.sat, hG]
      | succ k =>
        simp only [windows]
        have hw := ih.window c cs st hG
        revert hw
        cases Carrier.window f c cs st with
        | fail o => intro hw; simpa [Res.sat] using hw
        | ok r =>
          obtain ⟨c', cs', st'⟩ := r
          intro hw
          simp only [Res.sat] at hw
          obtain ⟨hc', hG', hec⟩ := hw
          simp only at hc'
          subst hc'
          have h2 := ih.windows k c' cs' st' hG'
          revert h2
          simp only []
          cases Carrier.windows f k c' cs' st' with
          | fail o => intro h2; simpa [Res.sat] using h2
          | ok r2 =>
            intro h2
            simp only [Res.sat] at h2 ⊢
            exact ⟨h2.1, h2.2.1, h2.2.2.trans hec⟩
    · -- window
      intro c cs st hG
      simp only [window]
      cases hs : st.sched with
      | nil => simp [Res.sat, hG]
      | cons n s =>
        simp only []
        cases hn : cs[n]? with
        | none => simp [Res.sat, hG]
        | some clo =>
          simp only []
          have hclo : GoodClo clo := hG clo (List.mem_of_getElem? hn)
          have ha := ih.activate c clo { st with sched := s } hclo
          revert ha
          cases Carrier.activate f c clo { st with sched := s } with
          | fail o => intro ha; simpa [Res.sat] using ha
          | ok r =>
            obtain ⟨c', clo', st'⟩ := r
            intro ha
            simp only [Res.sat] at ha
            obtain ⟨hc', hclo', hec⟩ := ha
            simp only at hc' hclo' hec
            subst hc'
            have h2 := ih.window c' (cs.set n clo') st' (good_set n hG hclo')
            revert h2
            simp only []
            cases Carrier.window f c' (cs.set n clo') st' with
            | fail o => intro h2; simpa [Res.sat] using h2
            | ok r2 =>
              intro h2
              simp only [Res.sat] at h2 ⊢
              exact ⟨h2.1, h2.2.1, h2.2.2.trans hec⟩
    · -- activate
      intro c clo st hclo
      obtain ⟨ho, hf, hb⟩ := hclo
      simp only [activate, ho, hf, if_true]
      have hc := ih.construct clo.body true [] st hb rfl good_nil
      revert hc
      cases Carrier.construct f clo.body true [] st with
      | fail o => intro hc; simpa [Res.sat] using hc
      | ok r =>
        obtain ⟨cell, inner, st'⟩ := r
        intro hc
        simp only [Res.sat] at hc
        obtain ⟨hcell, hGi, hec⟩ := hc
        simp only at hcell hGi hec
        subst hcell
        have hw := ih.window true inner st' hGi
        revert hw
        simp only []
        cases Carrier.window f true inner st' with
        | fail o => intro hw; simpa [Res.sat] using hw
        | ok r2 =>
          obtain ⟨cell', inner', st''⟩ := r2
          intro hw
          simp only [Res.sat] at hw ⊢
          obtain ⟨hcell', _, hec'⟩ := hw
          simp only at hcell' hec'
          subst hcell'
          exact ⟨rfl, ⟨ho, rfl, hb⟩, hec'.trans hec⟩

/-- **No `expect("query was not returned")`, no clone of an empty carrier**: a plan in which every
closure owns its clone ends `ok` (or the model's fuel was too small) under every schedule. -/
theorem run_safe (p : Plan) (h : p.allOwn = true) (sched : Schedule) (fuel : Nat) :
    run p sched fuel = .ok ∨ run p sched fuel = .outOfFuel := by
  unfold run
  have hc := (safe_all fuel).construct p.items true [] ⟨sched, 0⟩ h rfl good_nil
  revert hc
  cases construct fuel p.items true [] ⟨sched, 0⟩ with
  | fail o => intro hc; right; simpa [Res.sat] using hc
  | ok r =>
    obtain ⟨c, cs, st⟩ := r
    intro hc
    simp only [Res.sat] at hc
    obtain ⟨_, hG, hec⟩ := hc
    simp only at hG hec
    have hw := (safe_all fuel).window c cs st hG
    revert hw
    simp only []
    cases window fuel c cs st with
    | fail o => intro hw; right; simpa [Res.sat] using hw
    | ok r2 =>
      intro hw
      simp only [Res.sat] at hw
      left
      simp [hw.2.2, hec]

/-! ### every plan `planOf` builds is all-own -/

theorem allOwnL_append (xs ys : List Item) : allOwnL (xs ++ ys) = (allOwnL xs && allOwnL ys) := by
  induction xs with
  | nil => simp [allOwnL]
  | cons x xs ih => simp [allOwnL, ih, Bool.and_assoc]

theorem allOwnL_flatMap {α : Type} (l : List α) (g : α → List Item)
    (h : ∀ a ∈ l, allOwnL (g a) = true) : allOwnL (l.flatMap g) = true := by
  induction l with
  | nil => simp [allOwnL]
  | cons a l ih =>
    simp only [List.flatMap_cons, allOwnL_append, Bool.and_eq_true]
    exact ⟨h a (by simp), ih fun b hb => h b (by simp [hb])⟩

theorem allOwnL_replicate_call (n : Nat) (s : Site) (k : Nat) :
    allOwnL (List.replicate n (.call s k)) = true := by
  induction n with
  | zero => simp [allOwnL]
  | succ n ih => simp [List.replicate_succ, allOwnL, Item.allOwn, ih]

theorem filterItems_allOwn (vs : List IRVertex) (vid : Vid) (f : IRFilter) :
    allOwnL (filterItems vs vid f) = true := by
  unfold filterItems
  repeat' split
  all_goals simp [allOwnL, Item.allOwn]

theorem localFilterItems_allOwn (vs : List IRVertex) (vid : Vid) (f : IRFilter) :
    allOwnL (localFilterItems vs vid f) = true := by
  simp [localFilterItems, allOwnL, Item.allOwn, filterItems_allOwn]

theorem entryItems_allOwn (vs : List IRVertex) (vid : Vid) : allOwnL (entryItems vs vid) = true := by
  unfold entryItems
  split
  · simp [allOwnL]
  · rw [allOwnL_append, Bool.and_eq_true]
    refine ⟨?_, allOwnL_flatMap _ _ fun f _ => localFilterItems_allOwn vs vid f⟩
    split <;> simp [allOwnL, Item.allOwn]

theorem recLevelItems_allOwn (coerce : Bool) (k : Nat) : allOwnL (recLevelItems coerce k) = true := by
  induction k with
  | zero => simp [recLevelItems, allOwnL]
  | succ k ih => cases coerce <;> simp [recLevelItems, allOwnL, Item.allOwn, ih]

theorem edgeItems_allOwn (vs : List IRVertex) (e : IREdge) : allOwnL (edgeItems vs e) = true := by
  unfold edgeItems
  rw [allOwnL_append, Bool.and_eq_true]
  refine ⟨?_, entryItems_allOwn vs e.toVid⟩
  split <;> simp [allOwnL, Item.allOwn, recLevelItems_allOwn]

theorem importItems_allOwn (l : List FieldRef) : allOwnL (importItems l) = true := by
  induction l with
  | nil => simp [importItems, allOwnL]
  | cons r l ih => cases r <;> simp [importItems, allOwnL, Item.allOwn, ih]

def StagesOwn (l : List (Eid × Pipeline)) : Prop := ∀ p ∈ l, allOwnL p.2 = true

theorem mergeItems_allOwn (es fs : List (Eid × Pipeline)) (fuel : Nat)
    (he : StagesOwn es) (hf : StagesOwn fs) : allOwnL (mergeItems es fs fuel) = true := by
  induction fuel generalizing es fs with
  | zero =>
    cases es with
    | nil => simp only [mergeItems]; exact allOwnL_flatMap _ _ hf
    | cons e es =>
      cases fs with
      | nil => simp only [mergeItems]; exact allOwnL_flatMap _ _ he
      | cons f fs => simp [mergeItems, allOwnL]
  | succ fuel ih =>
    cases es with
    | nil => simp only [mergeItems]; exact allOwnL_flatMap _ _ hf
    | cons e es =>
      cases fs with
      | nil => simp only [mergeItems]; exact allOwnL_flatMap _ _ he
      | cons f fs =>
        simp only [mergeItems]
        split
        · rw [allOwnL_append, Bool.and_eq_true]
          exact ⟨he e (by simp), ih es (f :: fs) (fun p hp => he p (by simp [hp])) hf⟩
        · split
          · rw [allOwnL_append, Bool.and_eq_true]
            exact ⟨hf f (by simp), ih (e :: es) fs he (fun p hp => hf p (by simp [hp]))⟩
          · simp [allOwnL]

mutual
theorem compItems_allOwn : ∀ (c : Component), allOwnL (compItems true c) = true
  | .mk root vs es fs outs => by
    simp only [compItems]
    rw [allOwnL_append, Bool.and_eq_true]
    refine ⟨entryItems_allOwn vs root, mergeItems_allOwn _ _ _ ?_ (foldsItems_allOwn vs fs)⟩
    intro p hp
    simp only [List.mem_map] at hp
    obtain ⟨e, _, rfl⟩ := hp
    exact edgeItems_allOwn vs e
theorem foldsItems_allOwn (vs : List IRVertex) : ∀ (fs : List Fold), StagesOwn (foldsItems true vs fs)
  | [] => by intro p hp; simp [foldsItems] at hp
  | .mk eid fromVid toVid name params comp imports fouts post :: rest => by
    intro p hp
    simp only [foldsItems, List.mem_cons] at hp
    rcases hp with rfl | hp
    · simp only [allOwnL_append, Bool.and_eq_true]
      refine ⟨⟨⟨importItems_allOwn imports, ?_⟩, allOwnL_flatMap _ _ fun f _ => filterItems_allOwn vs fromVid f⟩, ?_⟩
      · simp [allOwnL, Item.allOwn, compItems_allOwn comp]
      · simp [allOwnL, Item.allOwn, allOwnL_replicate_call]
    · exact foldsItems_allOwn vs rest p hp
end

theorem planOf_allOwn (ir : IRQuery) : (planOf ir).allOwn = true := by
  simp [planOf, planOfWith, Plan.allOwn, allOwnL_append, compItems_allOwn, allOwnL, Item.allOwn]

/-! ### re-batching is order preserving -/

theorem chunk_flatten {α : Type} (sched : Schedule) (xs : List α) : (chunk sched xs).flatten = xs := by
  induction sched generalizing xs with
  | nil => cases xs <;> simp [chunk]
  | cons n s ih =>
    cases xs with
    | nil => simp [chunk]
    | cons x xs =>
      simp only [chunk, List.flatten_cons, ih]
      exact List.take_append_drop n (x :: xs)

end TF.Carrier
