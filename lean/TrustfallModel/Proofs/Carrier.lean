/-
Proofs about the carrier machine (`Model/Carrier.lean`).

* `safe_all`: the invariant.  In the big-step formulation it reads: whenever a pipeline is being
  built on a *full* cell, with closures that all own a *full* private cell and whose bodies
  (recursively) only create owning closures, then every sub-run either runs out of fuel or returns
  with the pipeline's cell restored to what it was (`true` after construction steps, unchanged by
  windows — closures never touch a cell they do not own), all closures' cells full again, and no
  empty clone recorded.  Open brackets are exactly the `windows … false …` calls on the Lean call
  stack: the empty cells are exactly the cells of the currently open brackets, and a closure that
  can be activated inside a bracket never owns that bracket's cell.
* `fuel_adequate`: with `fuelFor` fuel such a run does not run out of fuel, so `run = ok`.
* `chunk_flatten`: re-batching is order preserving.
-/
import TrustfallModel.Model.Carrier

namespace TF.Carrier
open TF TF.Engine

/-- a closure that owns a full private cell and whose body only creates owning closures -/
def GoodClo (clo : Clo) : Prop := clo.own = true ∧ clo.full = true ∧ allOwnL clo.body = true

def Good (cs : List Clo) : Prop := ∀ clo ∈ cs, GoodClo clo

/-- the sub-run did not panic: it ran out of fuel or returned a state satisfying `post` -/
def Res.sat {α : Type} (r : Res α) (post : α → Prop) : Prop :=
  match r with
  | .ok a => post a
  | .fail o => o = .outOfFuel

theorem good_nil : Good [] := by intro clo h; cases h

theorem good_snoc {cs : List Clo} {clo : Clo} (h : Good cs) (hc : GoodClo clo) : Good (cs ++ [clo]) := by
  intro x hx
  rcases List.mem_append.mp hx with hx | hx
  · exact h x hx
  · simp at hx; subst hx; exact hc

theorem good_set {cs : List Clo} {clo : Clo} (n : Nat) (h : Good cs) (hc : GoodClo clo) :
    Good (cs.set n clo) := by
  intro x hx
  rcases List.mem_or_eq_of_mem_set hx with hx | hx
  · exact h x hx
  · subst hx; exact hc

theorem allOwnL_cons (i : Item) (is : List Item) :
    allOwnL (i :: is) = (i.allOwn && allOwnL is) := by simp [allOwnL]

/-- The four statements of the invariant, for one fuel value. -/
structure SafeAt (f : Nat) : Prop where
  construct : ∀ items c cs st, allOwnL items = true → c = true → Good cs →
    (construct f items c cs st).sat fun r =>
      r.1 = true ∧ Good r.2.1 ∧ r.2.2.emptyClones = st.emptyClones
  windows : ∀ k c cs st, Good cs →
    (windows f k c cs st).sat fun r => r.1 = c ∧ Good r.2.1 ∧ r.2.2.emptyClones = st.emptyClones
  window : ∀ c cs st, Good cs →
    (window f c cs st).sat fun r => r.1 = c ∧ Good r.2.1 ∧ r.2.2.emptyClones = st.emptyClones
  activate : ∀ c clo st, GoodClo clo →
    (activate f c clo st).sat fun r =>
      r.1 = c ∧ GoodClo r.2.1 ∧ r.2.2.emptyClones = st.emptyClones

theorem Res.sat_mono {α : Type} {r : Res α} {P Q : α → Prop} (h : r.sat P) (hPQ : ∀ a, P a → Q a) :
    r.sat Q := by
  cases r with
  | ok a => exact hPQ a h
  | fail o => exact h

theorem safe_all (f : Nat) : SafeAt f := by
  induction f with
  | zero =>
    refine ⟨?_, ?_, ?_, ?_⟩ <;> intros <;> simp [construct, windows, window, activate, Res.sat]
  | succ f ih =>
    refine ⟨?_, ?_, ?_, ?_⟩
    · -- construct
      intro items c cs st hown hc hG
      subst hc
      cases items with
      | nil => simp [construct, Res.sat, hG]
      | cons it rest =>
        rw [allOwnL_cons, Bool.and_eq_true] at hown
        obtain ⟨hit, hrest⟩ := hown
        cases it with
        | peek s =>
          simp only [construct, if_true]
          exact ih.construct rest true cs st hrest rfl hG
        | call s vids =>
          simp only [construct, if_true]
          have hw := ih.windows vids.length false cs st hG
          split
          · rename_i c' cs' st' heq
            rw [heq] at hw
            simp only [Res.sat] at hw
            obtain ⟨_, hG', hec⟩ := hw
            exact Res.sat_mono (ih.construct rest true cs' st' hrest rfl hG')
              fun r h => ⟨h.1, h.2.1, h.2.2.trans hec⟩
          · rename_i o heq
            rw [heq] at hw
            exact hw
        | closure own body =>
          simp only [Item.allOwn, Bool.and_eq_true] at hit
          obtain ⟨ho, hb⟩ := hit
          subst ho
          simp only [construct, Bool.not_true, Bool.and_false, Bool.false_eq_true, if_false]
          exact ih.construct rest true _ st hrest rfl (good_snoc hG ⟨rfl, rfl, hb⟩)
    · -- windows
      intro k c cs st hG
      cases k with
      | zero => simp [windows, Res.sat, hG]
      | succ k =>
        simp only [windows]
        have hw := ih.window c cs st hG
        split
        · rename_i c' cs' st' heq
          rw [heq] at hw
          simp only [Res.sat] at hw
          obtain ⟨hc', hG', hec⟩ := hw
          subst hc'
          exact Res.sat_mono (ih.windows k c' cs' st' hG') fun r h => ⟨h.1, h.2.1, h.2.2.trans hec⟩
        · rename_i o heq
          rw [heq] at hw
          exact hw
    · -- window
      intro c cs st hG
      simp only [window]
      split
      · simp [Res.sat, hG]
      · rename_i n s hs
        split
        · simp [Res.sat, hG]
        · rename_i clo hn
          have hclo : GoodClo clo := hG clo (List.mem_of_getElem? hn)
          have ha := ih.activate c clo { st with sched := s, acts := st.acts + 1 } hclo
          split
          · rename_i c' clo' st' heq
            rw [heq] at ha
            simp only [Res.sat] at ha
            obtain ⟨hc', hclo', hec⟩ := ha
            subst hc'
            exact Res.sat_mono (ih.window c' (cs.set n clo') st' (good_set n hG hclo'))
              fun r h => ⟨h.1, h.2.1, h.2.2.trans hec⟩
          · rename_i o heq
            rw [heq] at ha
            exact ha
    · -- activate
      intro c clo st hclo
      obtain ⟨ho, hf, hb⟩ := hclo
      simp only [activate, ho, hf, if_true]
      have hc := ih.construct clo.body true [] st hb rfl good_nil
      split
      · rename_i cell inner st' heq
        rw [heq] at hc
        simp only [Res.sat] at hc
        obtain ⟨hcell, hGi, hec⟩ := hc
        subst hcell
        have hw := ih.window true inner st' hGi
        split
        · rename_i cell' inner' st'' heq2
          rw [heq2] at hw
          simp only [Res.sat] at hw ⊢
          obtain ⟨hcell', _, hec'⟩ := hw
          subst hcell'
          exact ⟨by simp, ⟨rfl, rfl, hb⟩, hec'.trans hec⟩
        · rename_i o heq2
          rw [heq2] at hw
          exact hw
      · rename_i o heq
        rw [heq] at hc
        exact hc

/-- **No `expect("query was not returned")`, no clone of an empty carrier**: a plan in which every
closure owns its clone ends `ok` (or the model's fuel was too small) under every schedule. -/
theorem run_safe (p : Plan) (h : p.allOwn = true) (sched : Schedule) (fuel : Nat) :
    run p sched fuel = .ok ∨ run p sched fuel = .outOfFuel := by
  unfold run
  have hc := (safe_all fuel).construct p.items true [] ⟨sched, 0, 0⟩ h rfl good_nil
  split
  · rename_i c cs st heq
    rw [heq] at hc
    simp only [Res.sat] at hc
    obtain ⟨_, hG, hec⟩ := hc
    have hw := (safe_all fuel).window c cs st hG
    split
    · rename_i c' cs' st' heq2
      rw [heq2] at hw
      simp only [Res.sat] at hw
      left
      simp [hw.2.2, hec]
    · rename_i o heq2
      rw [heq2] at hw
      right
      exact hw
  · rename_i o heq
    rw [heq] at hc
    right
    exact hc

/-! ### fuel adequacy -/

/-- the sub-run did not run out of fuel, and a returned state satisfies `post` -/
def Res.fine {α : Type} (r : Res α) (post : α → Prop) : Prop :=
  match r with
  | .ok a => post a
  | .fail o => o ≠ .outOfFuel

theorem Res.fine_mono {α : Type} {r : Res α} {P Q : α → Prop} (h : r.fine P) (hPQ : ∀ a, P a → Q a) :
    r.fine Q := by
  cases r with
  | ok a => exact hPQ a h
  | fail o => exact h

/-- every closure body of `cs` is small compared with `w` -/
def Bounded (w : Nat) (cs : List Clo) : Prop := ∀ clo ∈ cs, sizeL clo.body + 2 ≤ w

theorem Bounded.mono {w w' : Nat} {cs : List Clo} (h : Bounded w cs) (hw : w ≤ w') : Bounded w' cs :=
  fun clo hc => Nat.le_trans (h clo hc) hw

theorem bounded_nil (w : Nat) : Bounded w [] := by intro clo h; cases h

theorem bounded_snoc {w : Nat} {cs : List Clo} {clo : Clo} (h : Bounded w cs)
    (hc : sizeL clo.body + 2 ≤ w) : Bounded w (cs ++ [clo]) := by
  intro x hx
  rcases List.mem_append.mp hx with hx | hx
  · exact h x hx
  · simp at hx; subst hx; exact hc

theorem bounded_set {w : Nat} {cs : List Clo} {clo : Clo} (n : Nat) (h : Bounded w cs)
    (hc : sizeL clo.body + 2 ≤ w) : Bounded w (cs.set n clo) := by
  intro x hx
  rcases List.mem_or_eq_of_mem_set hx with hx | hx
  · exact h x hx
  · subst hx; exact hc

theorem sizeL_pos (l : List Item) : 1 ≤ sizeL l := by
  cases l with
  | nil => simp [sizeL]
  | cons i is => have := sizeL_pos is; simp only [sizeL]; omega

structure FuelAt (f : Nat) : Prop where
  construct : ∀ items c cs st w, Bounded w cs → st.sched.length + sizeL items + w ≤ f →
    (construct f items c cs st).fine fun r =>
      r.2.2.sched.length ≤ st.sched.length ∧ Bounded (max w (sizeL items)) r.2.1
  windows : ∀ k c cs st w, Bounded w cs → st.sched.length + w + k + 1 ≤ f →
    (windows f k c cs st).fine fun r => r.2.2.sched.length ≤ st.sched.length ∧ Bounded w r.2.1
  window : ∀ c cs st w, Bounded w cs → st.sched.length + w + 1 ≤ f →
    (window f c cs st).fine fun r => r.2.2.sched.length ≤ st.sched.length ∧ Bounded w r.2.1
  activate : ∀ c clo st w, sizeL clo.body + 2 ≤ w → st.sched.length + w ≤ f →
    (activate f c clo st).fine fun r =>
      r.2.2.sched.length ≤ st.sched.length ∧ r.2.1.body = clo.body

theorem fuel_all (f : Nat) : FuelAt f := by
  induction f with
  | zero =>
    refine ⟨?_, ?_, ?_, ?_⟩
    · intro items c cs st w _ h; have := sizeL_pos items; omega
    · intro k c cs st w _ h; omega
    · intro c cs st w _ h; omega
    · intro c clo st w h1 h2; omega
  | succ f ih =>
    refine ⟨?_, ?_, ?_, ?_⟩
    · -- construct
      intro items c cs st w hB hf
      cases items with
      | nil => simp only [construct, Res.fine]; exact ⟨Nat.le_refl _, hB.mono (Nat.le_max_left _ _)⟩
      | cons it rest =>
        have hpos := sizeL_pos rest
        cases it with
        | peek s =>
          simp only [sizeL, Item.size] at hf
          simp only [construct]
          split
          · refine Res.fine_mono (ih.construct rest c cs st w hB (by omega)) fun r h => ⟨h.1, ?_⟩
            exact h.2.mono (by simp only [sizeL, Item.size]; omega)
          · simp [Res.fine]
        | call s vids =>
          simp only [sizeL, Item.size] at hf
          simp only [construct]
          split
          · have hw := ih.windows vids.length false cs st w hB (by omega)
            split
            · rename_i c' cs' st' heq
              rw [heq] at hw
              simp only [Res.fine] at hw
              obtain ⟨hL, hB'⟩ := hw
              refine Res.fine_mono (ih.construct rest true cs' st' w hB' (by omega)) fun r h =>
                ⟨Nat.le_trans h.1 hL, ?_⟩
              exact h.2.mono (by simp only [sizeL, Item.size]; omega)
            · rename_i o heq
              rw [heq] at hw
              exact hw
          · simp [Res.fine]
        | closure own body =>
          simp only [sizeL, Item.size] at hf
          simp only [construct]
          have hB' : Bounded (max w (sizeL body + 2)) (cs ++ [⟨own, c, body⟩]) :=
            bounded_snoc (hB.mono (Nat.le_max_left _ _)) (Nat.le_max_right _ _)
          have h := ih.construct rest c (cs ++ [⟨own, c, body⟩])
            (if own && !c then { st with emptyClones := st.emptyClones + 1 } else st)
            (max w (sizeL body + 2)) hB' (by split <;> (try simp only []) <;> omega)
          refine Res.fine_mono h fun r h2 => ⟨?_, ?_⟩
          · have := h2.1; split at this <;> simpa using this
          · exact h2.2.mono (by simp only [sizeL, Item.size]; omega)
    · -- windows
      intro k c cs st w hB hf
      cases k with
      | zero => simp only [windows, Res.fine]; exact ⟨Nat.le_refl _, hB⟩
      | succ k =>
        simp only [windows]
        have hw := ih.window c cs st w hB (by omega)
        split
        · rename_i c' cs' st' heq
          rw [heq] at hw
          simp only [Res.fine] at hw
          obtain ⟨hL, hB'⟩ := hw
          exact Res.fine_mono (ih.windows k c' cs' st' w hB' (by omega)) fun r h =>
            ⟨Nat.le_trans h.1 hL, h.2⟩
        · rename_i o heq
          rw [heq] at hw
          exact hw
    · -- window
      intro c cs st w hB hf
      simp only [window]
      split
      · simp only [Res.fine]; exact ⟨Nat.le_refl _, hB⟩
      · rename_i n s hs
        rw [hs] at hf
        simp only [List.length_cons] at hf
        split
        · simp only [Res.fine, hs, List.length_cons]; exact ⟨by omega, hB⟩
        · rename_i clo hn
          have hclo : sizeL clo.body + 2 ≤ w := hB clo (List.mem_of_getElem? hn)
          have ha := ih.activate c clo { st with sched := s, acts := st.acts + 1 } w hclo (by simp only []; omega)
          split
          · rename_i c' clo' st' heq
            rw [heq] at ha
            simp only [Res.fine] at ha
            obtain ⟨hL, hbody⟩ := ha
            have hB' : Bounded w (cs.set n clo') := bounded_set n hB (by rw [hbody]; exact hclo)
            refine Res.fine_mono (ih.window c' (cs.set n clo') st' w hB' (by omega)) fun r h =>
              ⟨?_, h.2⟩
            rw [hs]; simp only [List.length_cons]; omega
          · rename_i o heq
            rw [heq] at ha
            exact ha
    · -- activate
      intro c clo st w hclo hf
      simp only [activate]
      have hc := ih.construct clo.body (if clo.own then clo.full else c) [] st 0 (bounded_nil 0) (by omega)
      split
      · rename_i cell inner st' heq
        rw [heq] at hc
        simp only [Res.fine] at hc
        obtain ⟨hL, hBi⟩ := hc
        have hBi' : Bounded (sizeL clo.body) inner := hBi.mono (by omega)
        have hw := ih.window cell inner st' (sizeL clo.body) hBi' (by omega)
        split
        · rename_i cell' inner' st'' heq2
          rw [heq2] at hw
          simp only [Res.fine] at hw
          split <;> simp only [Res.fine] <;> exact ⟨Nat.le_trans hw.1 hL, by simp⟩
        · rename_i o heq2
          rw [heq2] at hw
          exact hw
      · rename_i o heq
        rw [heq] at hc
        exact hc

/-- With `fuelFor` (or more) fuel no run — of any plan, owning or sharing — runs out of fuel. -/
theorem fuel_adequate (p : Plan) (sched : Schedule) (fuel : Nat) (h : fuelFor p sched ≤ fuel) :
    run p sched fuel ≠ .outOfFuel := by
  unfold fuelFor at h
  unfold run
  have hc := (fuel_all fuel).construct p.items true [] ⟨sched, 0, 0⟩ 0 (bounded_nil 0) (by simp only []; omega)
  split
  · rename_i c cs st heq
    rw [heq] at hc
    simp only [Res.fine] at hc
    obtain ⟨hL, hB⟩ := hc
    have hw := (fuel_all fuel).window c cs st (sizeL p.items) (hB.mono (by omega)) (by omega)
    split
    · split <;> simp
    · rename_i o heq2
      rw [heq2] at hw
      exact hw
  · rename_i o heq
    rw [heq] at hc
    exact hc

/-! ### every plan `planOf` builds is all-own -/

theorem allOwnL_append (xs ys : List Item) : allOwnL (xs ++ ys) = (allOwnL xs && allOwnL ys) := by
  induction xs with
  | nil => simp [allOwnL]
  | cons x xs ih => simp [allOwnL, ih, Bool.and_assoc]

theorem allOwnL_flatMap {α : Type} (l : List α) (g : α → List Item)
    (h : ∀ a ∈ l, allOwnL (g a) = true) : allOwnL (l.flatMap g) = true := by
  induction l with
  | nil => simp [allOwnL]
  | cons a l ih =>
    simp only [List.flatMap_cons, allOwnL_append, Bool.and_eq_true]
    exact ⟨h a (by simp), ih fun b hb => h b (by simp [hb])⟩

theorem allOwnL_map_call {α : Type} (l : List α) (s : Site) (g : α → List Vid) :
    allOwnL (l.map fun a => .call s (g a)) = true := by
  induction l with
  | nil => simp [allOwnL]
  | cons a l ih => simp [allOwnL, Item.allOwn, ih]

theorem filterItems_allOwn (vs : List IRVertex) (vid : Vid) (f : IRFilter) :
    allOwnL (filterItems vs vid f) = true := by
  unfold filterItems
  repeat' split
  all_goals simp [allOwnL, Item.allOwn]

theorem localFilterItems_allOwn (vs : List IRVertex) (vid : Vid) (f : IRFilter) :
    allOwnL (localFilterItems vs vid f) = true := by
  simp [localFilterItems, allOwnL, Item.allOwn, filterItems_allOwn]

theorem entryItems_allOwn (vs : List IRVertex) (vid : Vid) : allOwnL (entryItems vs vid) = true := by
  unfold entryItems
  split
  · simp [allOwnL]
  · rw [allOwnL_append, Bool.and_eq_true]
    refine ⟨?_, allOwnL_flatMap _ _ fun f _ => localFilterItems_allOwn vs vid f⟩
    split <;> simp [allOwnL, Item.allOwn]

theorem recLevelItems_allOwn (v : Vid) (coerce : Bool) (k : Nat) :
    allOwnL (recLevelItems v coerce k) = true := by
  induction k with
  | zero => simp [recLevelItems, allOwnL]
  | succ k ih => cases coerce <;> simp [recLevelItems, allOwnL, Item.allOwn, ih]

theorem edgeItems_allOwn (vs : List IRVertex) (e : IREdge) : allOwnL (edgeItems vs e) = true := by
  unfold edgeItems
  rw [allOwnL_append, Bool.and_eq_true]
  refine ⟨?_, entryItems_allOwn vs e.toVid⟩
  split <;> simp [allOwnL, Item.allOwn, recLevelItems_allOwn]

theorem importItems_allOwn (l : List FieldRef) : allOwnL (importItems l) = true := by
  induction l with
  | nil => simp [importItems, allOwnL]
  | cons r l ih => cases r <;> simp [importItems, allOwnL, Item.allOwn, ih]

def StagesOwn (l : List (Eid × Pipeline)) : Prop := ∀ p ∈ l, allOwnL p.2 = true

theorem mergeItems_allOwn (es fs : List (Eid × Pipeline)) (fuel : Nat)
    (he : StagesOwn es) (hf : StagesOwn fs) : allOwnL (mergeItems es fs fuel) = true := by
  induction fuel generalizing es fs with
  | zero =>
    cases es with
    | nil => simp only [mergeItems]; exact allOwnL_flatMap _ _ hf
    | cons e es =>
      cases fs with
      | nil => simp only [mergeItems]; exact allOwnL_flatMap _ _ he
      | cons f fs => simp [mergeItems, allOwnL]
  | succ fuel ih =>
    cases es with
    | nil => simp only [mergeItems]; exact allOwnL_flatMap _ _ hf
    | cons e es =>
      cases fs with
      | nil => simp only [mergeItems]; exact allOwnL_flatMap _ _ he
      | cons f fs =>
        simp only [mergeItems]
        split
        · rw [allOwnL_append, Bool.and_eq_true]
          exact ⟨he e (by simp), ih es (f :: fs) (fun p hp => he p (by simp [hp])) hf⟩
        · split
          · rw [allOwnL_append, Bool.and_eq_true]
            exact ⟨hf f (by simp), ih (e :: es) fs he (fun p hp => hf p (by simp [hp]))⟩
          · simp [allOwnL]

mutual
theorem compItems_allOwn : ∀ (c : Component), allOwnL (compItems true c) = true
  | .mk root vs es fs outs => by
    simp only [compItems]
    rw [allOwnL_append, Bool.and_eq_true]
    refine ⟨entryItems_allOwn vs root, mergeItems_allOwn _ _ _ ?_ (foldsItems_allOwn vs fs)⟩
    intro p hp
    simp only [List.mem_map] at hp
    obtain ⟨e, _, rfl⟩ := hp
    exact edgeItems_allOwn vs e
theorem foldsItems_allOwn (vs : List IRVertex) : ∀ (fs : List Fold), StagesOwn (foldsItems true vs fs)
  | [] => by intro p hp; simp [foldsItems] at hp
  | .mk eid fromVid toVid name params comp imports fouts post :: rest => by
    intro p hp
    simp only [foldsItems, List.mem_cons] at hp
    rcases hp with rfl | hp
    · simp only [allOwnL_append, Bool.and_eq_true]
      refine ⟨⟨⟨importItems_allOwn imports, ?_⟩, allOwnL_flatMap _ _ fun f _ => filterItems_allOwn vs fromVid f⟩, ?_⟩
      · simp [allOwnL, Item.allOwn, compItems_allOwn comp]
      · simp [allOwnL, Item.allOwn, allOwnL_map_call]
    · exact foldsItems_allOwn vs rest p hp
end

theorem planOf_allOwn (ir : IRQuery) : (planOf ir).allOwn = true := by
  simp [planOf, planOfWith, Plan.allOwn, allOwnL_append, compItems_allOwn, allOwnL, Item.allOwn]

/-! ### re-batching is order preserving -/

theorem chunk_flatten {α : Type} (sched : Schedule) (xs : List α) : (chunk sched xs).flatten = xs := by
  induction sched generalizing xs with
  | nil => cases xs <;> simp [chunk]
  | cons n s ih =>
    cases xs with
    | nil => simp [chunk]
    | cons x xs =>
      simp only [chunk, List.flatten_cons, ih]
      exact List.take_append_drop n (x :: xs)

/-- `VariableChunkIterator` chunk sizes are 1..4 -/
theorem wordSize_range (w i : Nat) : 1 ≤ wordSize w i ∧ wordSize w i ≤ 4 := by
  unfold wordSize
  have : (w >>> (2 * (i % 32))) &&& 3 ≤ 3 := Nat.and_le_right
  omega

end TF.Carrier
