/-
Lemmas about the model of `check_adapter_invariants` (`Model/Checker.lean`): what one per-point
check accepts, and that the whole check is the conjunction of the per-point checks.
-/
import TrustfallModel.Model.Checker

namespace TF.Checker
open TF

/-! ### Order tags -/

theorem orderKeys_eq_some_iff (l : List Ctx) (ks : List Int64) :
    orderKeys l = some ks ↔ l.map orderKey = ks.map some := by
  induction l generalizing ks with
  | nil => cases ks <;> simp [orderKeys]
  | cons c cs ih =>
    cases ks with
    | nil =>
      simp only [orderKeys, List.map_cons, List.map_nil]
      cases orderKey c <;> cases orderKeys cs <;> simp
    | cons k ks =>
      have := ih ks
      simp only [orderKeys, List.map_cons]
      cases hk : orderKey c <;> cases hks : orderKeys cs <;> simp_all

theorem orderKeys_length {l : List Ctx} {ks : List Int64} (h : orderKeys l = some ks) :
    ks.length = l.length := by
  have := congrArg List.length ((orderKeys_eq_some_iff l ks).mp h)
  simpa using this.symm

/-- The tags of the probe are `0 … 8`. -/
theorem orderKeys_probe : orderKeys probe = some probeOrder := by decide

theorem probe_length : probe.length = 9 := by decide
theorem probeOrder_length : probeOrder.length = 9 := by decide

/-- A context of the probe is determined by its tag. -/
def ctxOfKey (o : Option Int64) : Ctx := { active := none, values := [Value.int64 (o.getD 0)] }

theorem ctxOfKey_orderKey_of_mem_probe {c : Ctx} (h : c ∈ probe) : ctxOfKey (orderKey c) = c := by
  simp only [probe, makeContexts, List.mem_map] at h
  obtain ⟨i, _, rfl⟩ := h
  simp [orderKey, asI64, ctxOfKey]

/-- A list of probe contexts whose tags are the probe's tags, in order, *is* the probe: the tag
comparison detects every loss, duplication and reordering of probe contexts. -/
theorem eq_probe_of_orderKeys {l : List Ctx} (hmem : ∀ c ∈ l, c ∈ probe)
    (h : orderKeys l = some probeOrder) : l = probe := by
  have h1 := (orderKeys_eq_some_iff l probeOrder).mp h
  have h2 := (orderKeys_eq_some_iff probe probeOrder).mp orderKeys_probe
  have e1 : l.map (fun c => ctxOfKey (orderKey c)) = l :=
    (List.map_congr_left fun c hc => ctxOfKey_orderKey_of_mem_probe (hmem c hc)).trans (List.map_id l)
  have e2 : probe.map (fun c => ctxOfKey (orderKey c)) = probe :=
    (List.map_congr_left fun c hc => ctxOfKey_orderKey_of_mem_probe hc).trans (List.map_id probe)
  calc l = l.map (fun c => ctxOfKey (orderKey c)) := e1.symm
    _ = (l.map orderKey).map ctxOfKey := by simp [List.map_map, Function.comp_def]
    _ = (probe.map orderKey).map ctxOfKey := by rw [h1, h2]
    _ = probe.map (fun c => ctxOfKey (orderKey c)) := by simp [List.map_map, Function.comp_def]
    _ = probe := e2

/-! ### One point -/

/-- Exactly what the per-point loop accepts: no bad payload, and the returned contexts carry the
probe's tags in the probe's order (which forces their number). -/
theorem checkOutputs_pass_iff {α : Type} (bad : α → Bool) (out : List (Ctx × α)) :
    checkOutputs bad out = .pass ↔
      (∀ p ∈ out, bad p.2 = false) ∧ orderKeys (out.map Prod.fst) = some probeOrder := by
  unfold checkOutputs
  by_cases hany : out.any (fun p => bad p.2) = true
  · simp only [hany, if_true]
    constructor
    · intro h; cases h
    · rintro ⟨hall, _⟩
      obtain ⟨p, hp, hb⟩ := List.any_eq_true.mp hany
      rw [hall p hp] at hb; cases hb
  · have hall : ∀ p ∈ out, bad p.2 = false := by
      intro p hp
      cases hb : bad p.2 with
      | false => rfl
      | true => exact absurd (List.any_eq_true.mpr ⟨p, hp, hb⟩) hany
    simp only [hany, Bool.false_eq_true, if_false]
    by_cases hlen : out.length ≠ probe.length
    · rw [if_pos hlen]
      constructor
      · intro h; cases h
      · rintro ⟨_, hk⟩
        have := orderKeys_length hk
        rw [probeOrder_length, List.length_map] at this
        rw [probe_length] at hlen
        exact absurd this.symm hlen
    · rw [if_neg hlen]
      cases hk : orderKeys (out.map Prod.fst) with
      | none => simp
      | some ks =>
        by_cases he : probeOrder = ks
        · simp only [if_pos he]
          exact ⟨fun _ => ⟨hall, by rw [he]⟩, fun _ => trivial⟩
        · simp only [if_neg he]
          constructor
          · intro h; cases h
          · rintro ⟨_, h⟩; exact absurd (Option.some.inj h).symm he

theorem badValue_eq_false_iff (v : Value) : badValue v = false ↔ v = Value.null := by
  cases v <;> simp [badValue, Value.beq, Value.disc]

theorem badNeighbors_eq_false_iff (ns : List Nat) : badNeighbors ns = false ↔ ns = [] := by
  cases ns <;> simp [badNeighbors]

theorem badCoercion_eq_false_iff (b : Bool) : badCoercion b = false ↔ b = false := by
  simp [badCoercion]

/-! ### The whole check -/

theorem check_eq_true_iff_verdicts (S : SchemaView) (A : AdapterModel) :
    check S A = true ↔ ∀ v ∈ verdicts S A, v = .pass := by
  unfold check run
  cases hf : (verdicts S A).find? (fun v => v != .pass) with
  | none =>
    simp only [beq_self_eq_true, true_iff]
    intro v hv
    have := List.find?_eq_none.mp hf v hv
    simpa using this
  | some w =>
    have hw := List.find?_some hf
    have hmem := List.mem_of_find?_eq_some hf
    constructor
    · intro h
      have : w = .pass := by simpa using h
      subst this
      simp at hw
    · intro h
      have := h w hmem
      subst this
      simp at hw

/-- `check_adapter_invariants` returns normally iff every visited point passes its loop. -/
theorem check_eq_true_iff (S : SchemaView) (A : AdapterModel) :
    check S A = true ↔
      (∀ pt ∈ propPoints S, propVerdict A pt = .pass) ∧
      (∀ pt ∈ edgePoints S, edgeVerdict A pt = .pass) ∧
      (∀ pt ∈ coercionPoints S, coercionVerdict A pt = .pass) := by
  rw [check_eq_true_iff_verdicts]
  simp only [verdicts, List.mem_append, List.mem_map]
  constructor
  · intro h
    refine ⟨fun pt hpt => h _ (Or.inl (Or.inl ⟨pt, hpt, rfl⟩)),
      fun pt hpt => h _ (Or.inl (Or.inr ⟨pt, hpt, rfl⟩)),
      fun pt hpt => h _ (Or.inr ⟨pt, hpt, rfl⟩)⟩
  · rintro ⟨h1, h2, h3⟩ v hv
    rcases hv with (⟨pt, hpt, rfl⟩ | ⟨pt, hpt, rfl⟩) | ⟨pt, hpt, rfl⟩
    · exact h1 pt hpt
    · exact h2 pt hpt
    · exact h3 pt hpt

theorem check_eq_false_of_verdict {S : SchemaView} {A : AdapterModel} {v : Verdict}
    (hv : v ∈ verdicts S A) (hne : v ≠ .pass) : check S A = false := by
  cases h : check S A with
  | false => rfl
  | true => exact absurd ((check_eq_true_iff_verdicts S A).mp h v hv) hne

/-! ### The contract on one resolver output -/

/-- The adapter contract for one resolver call, as far as contexts without an active vertex are
concerned: one output per input, same order, and the documented payload (`ok`) for every context
whose vertex does not exist. -/
def HonestOutput {α : Type} (ok : α → Prop) (ctxs : List Ctx) (out : List (Ctx × α)) : Prop :=
  out.map Prod.fst = ctxs ∧ ∀ p ∈ out, p.1.active = none → ok p.2

theorem active_none_of_mem_probe {c : Ctx} (h : c ∈ probe) : c.active = none := by
  simp only [probe, makeContexts, List.mem_map] at h
  obtain ⟨i, _, rfl⟩ := h
  rfl

theorem checkOutputs_pass_of_honest {α : Type} {bad : α → Bool} {ok : α → Prop}
    (hok : ∀ a, ok a → bad a = false) {out : List (Ctx × α)} (h : HonestOutput ok probe out) :
    checkOutputs bad out = .pass := by
  rw [checkOutputs_pass_iff]
  refine ⟨fun p hp => hok _ (h.2 p hp (active_none_of_mem_probe ?_)), by rw [h.1]; exact orderKeys_probe⟩
  rw [← h.1]
  exact List.mem_map.mpr ⟨p, hp, rfl⟩

/-- A per-point loop fails as soon as some payload is bad, or the returned contexts are probe
contexts but not the probe itself (lost, duplicated or reordered). -/
theorem checkOutputs_fail_of_violation {α : Type} {bad : α → Bool} {out : List (Ctx × α)}
    (h : (∃ p ∈ out, bad p.2 = true) ∨
      ((∀ c ∈ out.map Prod.fst, c ∈ probe) ∧ out.map Prod.fst ≠ probe)) :
    checkOutputs bad out ≠ .pass := by
  intro hp
  rw [checkOutputs_pass_iff] at hp
  rcases h with ⟨p, hpm, hb⟩ | ⟨hmem, hne⟩
  · rw [hp.1 p hpm] at hb; cases hb
  · exact hne (eq_probe_of_orderKeys hmem hp.2)

theorem mem_of_mem_swapAt {β : Type} (n : Nat) (l : List β) (x : β) (h : x ∈ swapAt n l) : x ∈ l := by
  fun_induction swapAt n l <;> simp_all [List.mem_cons]
  all_goals grind

end TF.Checker
