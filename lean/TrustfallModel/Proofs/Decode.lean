/-
Specification-side definitions for C18 (what a decoded value *denotes*, when a value is
*representable* in a target) and the lemmas behind `Props/C18.lean`.
-/
import TrustfallModel.Model.Decode

namespace TF.Decode
open TF Value

/-! ## Specification vocabulary -/

/-- Integer-kinded value (either representation). -/
def isInt : Value → Bool
  | .int64 _ | .uint64 _ => true
  | _ => false

/-- The mathematical value of an integer-kinded value (0 for other kinds; use with `isInt`). -/
def numOf : Value → Int
  | .int64 i => i.toInt
  | .uint64 u => (u.toNat : Int)
  | _ => 0

theorem numVal_of_isInt {v : Value} (h : isInt v = true) : numVal v = some (numOf v) := by
  cases v <;> simp_all [isInt, numVal, numOf]

/-- the finite float with this key is exactly the integer `n` -/
def fltIsInt : Flt → Int → Bool
  | .fin k, n => fltInt? k == some n
  | _, _ => false

mutual
/-- `denotes lenient x v`: the decoded Rust value `x` is the value `v`: integers by their number
(whatever the representation of `v`), strings / chars by their bytes, `None` is `Null`, `Some x` is a
non-null `v` that `x` denotes, `Vec`s and tuples element by element with equal length, an `f64` decoded
from a `Float64` is the same float.  At the three places where the real decoder converts with `as`
(`integer → f64`, `integer → f32`, `Float64 → f32`) the exact reading (`lenient = false`) demands
that the float equals the source number exactly; the lenient reading accepts any float there. -/
def denotes (lenient : Bool) : Dec → Value → Bool
  | .int _ n, v => numVal v == some n
  | .f64 x, v =>
    match v with
    | .float64 k => x == .fin k
    | .int64 i => lenient || fltIsInt x i.toInt
    | .uint64 u => lenient || fltIsInt x u.toNat
    | _ => false
  | .f32 x, v =>
    match v with
    | .float64 k => lenient || x == .fin k
    | .int64 i => lenient || fltIsInt x i.toInt
    | .uint64 u => lenient || fltIsInt x u.toNat
    | _ => false
  | .bool b, v => match v with | .boolean b' => b == b' | _ => false
  | .str s, v => match v with | .string s' => s == s' | _ => false
  | .char s, v => match v with | .string s' => s == s' | _ => false
  | .none, v => match v with | .null => true | _ => false
  | .some x, v => match v with | .null => false | v => denotes lenient x v
  | .list xs, v => match v with | .list vs => denotesList lenient xs vs | _ => false
  | .tuple xs, v => match v with | .list vs => denotesList lenient xs vs | _ => false
def denotesList (lenient : Bool) : List Dec → List Value → Bool
  | [], [] => true
  | x :: xs, v :: vs => denotes lenient x v && denotesList lenient xs vs
  | _, _ => false
end

mutual
/-- `representable τ v`: the value `v` is of the kind the Rust type `τ` describes and every number in
it is exactly a value of the corresponding field type: integers lie in the target's range; a `Float64`
is always an `f64` and is an `f32` iff narrowing does not change it; an integer is an `f64`/`f32` iff
the conversion is exact; `Null` is `None`; tuples need the exact length.  (`()` is outside the
property's quantifier, and the real decoder accepts nothing for it — `decode_unit_rejects` —, so
nothing is called representable there.) -/
def representable : Target → Value → Bool
  | .int t, v => match numVal v with | some n => decide (fits t n) | none => false
  | .f64, v =>
    match v with
    | .float64 _ => true
    | .int64 i => fltIsInt (i2d i.toInt) i.toInt
    | .uint64 u => fltIsInt (i2d u.toNat) u.toNat
    | _ => false
  | .f32, v =>
    match v with
    | .float64 k => d2s k == .fin k
    | .int64 i => fltIsInt (i2s i.toInt) i.toInt
    | .uint64 u => fltIsInt (i2s u.toNat) u.toNat
    | _ => false
  | .bool, v => match v with | .boolean _ => true | _ => false
  | .string, v => match v with | .string _ => true | _ => false
  | .char, v => match v with | .string s => singleChar s | _ => false
  | .unit, _ => false
  | .option t, v => match v with | .null => true | v => representable t v
  | .vec t, v => match v with | .list vs => vs.all (representable t) | _ => false
  | .tuple ts, v => match v with | .list vs => representableTuple ts vs | _ => false
def representableTuple : List Target → List Value → Bool
  | [], [] => true
  | t :: ts, v :: vs => representable t v && representableTuple ts vs
  | _, _ => false
end

/-! ## Integers: serde's visitors are range checks -/

theorem tryFrom_ok {t : IntTy} {n : Int} (h : fits t n) : tryFrom t n = .ok n := if_pos h
theorem tryFrom_err {t : IntTy} {n : Int} (h : ¬ fits t n) : tryFrom t n = .error .invalid := if_neg h

theorem visitI64_eq (t : IntTy) (i : Int64) : visitI64 t i = tryFrom t i.toInt := by
  have h1 := i.le_toInt
  have h2 := i.toInt_lt
  by_cases hf : fits t i.toInt
  · rw [tryFrom_ok hf]
    cases t <;> simp only [visitI64, tryFrom_ok hf] <;> simp only [fits, IntTy.min, IntTy.max] at hf <;>
      rw [if_pos (by omega)]
  · rw [tryFrom_err hf]
    cases t <;> simp only [visitI64, tryFrom_err hf, ite_self] <;> simp only [fits, IntTy.min, IntTy.max] at hf <;>
      (exfalso; omega)

theorem visitU64_eq (t : IntTy) (u : UInt64) : visitU64 t u = tryFrom t (u.toNat : Int) := by
  have h2 := u.toNat_lt
  by_cases hf : fits t (u.toNat : Int)
  · rw [tryFrom_ok hf]
    cases t <;> simp only [visitU64, tryFrom_ok hf]
  · rw [tryFrom_err hf]
    cases t <;> simp only [visitU64, tryFrom_err hf] <;> simp only [fits, IntTy.min, IntTy.max] at hf <;>
      (exfalso; omega)

/-- Integer targets: whichever path is taken (the crate's `try_into` or serde's visitor), the outcome
is the range check on the source number. -/
theorem decode_int_int64 (t : IntTy) (i : Int64) :
    decode (.int t) (.int64 i) = if fits t i.toInt then .ok (.int t i.toInt) else .error .invalid := by
  by_cases hf : fits t i.toInt
  · simp only [decode, visitI64_eq, ite_self, tryFrom_ok hf, if_pos hf]
  · simp only [decode, visitI64_eq, ite_self, tryFrom_err hf, if_neg hf]

theorem decode_int_uint64 (t : IntTy) (u : UInt64) :
    decode (.int t) (.uint64 u) =
      if fits t (u.toNat : Int) then .ok (.int t (u.toNat : Int)) else .error .invalid := by
  by_cases hf : fits t (u.toNat : Int)
  · simp only [decode, visitU64_eq, ite_self, tryFrom_ok hf, if_pos hf]
  · simp only [decode, visitU64_eq, ite_self, tryFrom_err hf, if_neg hf]

theorem decode_int_of_isInt (t : IntTy) (v : Value) (h : isInt v = true) :
    decode (.int t) v = if fits t (numOf v) then .ok (.int t (numOf v)) else .error .invalid := by
  cases v <;> simp [isInt] at h
  · exact decode_int_int64 t _
  · exact decode_int_uint64 t _

theorem decode_int_not_isInt (t : IntTy) (v : Value) (h : isInt v = false) :
    decode (.int t) v = reject v := by
  cases v <;> simp [isInt] at h <;> simp only [decode]


/-! ## Side conditions -/

mutual
/-- no float target anywhere inside -/
def noFloat : Target → Bool
  | .f32 | .f64 => false
  | .option t | .vec t => noFloat t
  | .tuple ts => noFloatList ts
  | _ => true
def noFloatList : List Target → Bool
  | [] => true
  | t :: ts => noFloat t && noFloatList ts
end

mutual
/-- no `Enum` value anywhere inside -/
def noEnum : Value → Bool
  | .enum _ => false
  | .list vs => noEnumList vs
  | _ => true
def noEnumList : List Value → Bool
  | [] => true
  | v :: vs => noEnum v && noEnumList vs
end

theorem reject_not_ok (v : Value) (x : Dec) : reject v ≠ .ok x := by
  cases v <;> simp [reject]

theorem reject_noEnum {v : Value} (h : noEnum v = true) : reject v = .error .invalid := by
  cases v <;> simp_all [reject, noEnum]


/-! ### soundness up to float rounding -/


theorem mapE_denotes (l : Bool) (f : Value → Res Dec)
    (hf : ∀ v x, f v = .ok x → denotes l x v = true) :
    ∀ vs xs, mapE f vs = .ok xs → denotesList l xs vs = true
  | [], xs, h => by simp [mapE] at h; subst h; simp [denotesList]
  | v :: vs, xs, h => by
    simp only [mapE] at h
    split at h
    · rename_i x hx
      split at h
      · rename_i ys hys
        simp at h; subst h
        simp [denotesList, hf v x hx, mapE_denotes l f hf vs ys hys]
      · simp at h
    · simp at h

mutual
theorem decode_sound_aux : ∀ (τ : Target) (v : Value) (x : Dec),
    decode τ v = .ok x → denotes true x v = true
  | .int t, v, x, h => by
    cases hv : isInt v
    · rw [decode_int_not_isInt t v hv] at h; exact absurd h (reject_not_ok _ _)
    · rw [decode_int_of_isInt t v hv] at h
      split at h
      · simp at h; subst h; simp [denotes, numVal_of_isInt hv]
      · simp at h
  | .f64, v, x, h => by
    cases v <;> simp [decode, reject] at h <;> subst h <;> simp [denotes]
  | .f32, v, x, h => by
    cases v <;> simp [decode, reject] at h <;> subst h <;> simp [denotes]
  | .bool, v, x, h => by
    cases v <;> simp [decode, reject] at h <;> subst h <;> simp [denotes]
  | .string, v, x, h => by
    cases v <;> simp [decode, reject] at h <;> subst h <;> simp [denotes]
  | .char, v, x, h => by
    cases v <;> simp only [decode] at h <;> (try exact absurd h (reject_not_ok _ _))
    split at h
    · simp at h; subst h; simp [denotes]
    · simp at h
  | .unit, v, x, h => by
    simp only [decode] at h; exact absurd h (reject_not_ok _ _)
  | .option t, v, x, h => by
    cases v <;> simp only [decode] at h
    case null => simp at h; subst h; simp [denotes]
    all_goals
      split at h
      · rename_i y hy
        simp at h; subst h
        simp [denotes, decode_sound_aux t _ y hy]
      · simp at h
  | .vec t, v, x, h => by
    cases v <;> simp only [decode] at h <;> (try exact absurd h (reject_not_ok _ _))
    split at h
    · rename_i ys hys
      simp at h; subst h
      simp [denotes, mapE_denotes true (decode t) (decode_sound_aux t) _ ys hys]
    · simp at h
  | .tuple ts, v, x, h => by
    cases v <;> simp only [decode] at h <;> (try exact absurd h (reject_not_ok _ _))
    split at h
    · simp at h
    · split at h
      · rename_i ys hys
        simp at h; subst h
        simp [denotes, decodeTuple_sound_aux ts _ ys hys (by omega)]
      · simp at h
theorem decodeTuple_sound_aux : ∀ (ts : List Target) (vs : List Value) (xs : List Dec),
    decodeTuple ts vs = .ok xs → ts.length = vs.length → denotesList true xs vs = true
  | [], vs, xs, h, hl => by
    cases vs <;> simp at hl
    simp [decodeTuple] at h; subst h; simp [denotesList]
  | t :: ts, [], xs, h, hl => by simp at hl
  | t :: ts, v :: vs, xs, h, hl => by
    simp only [decodeTuple] at h
    split at h
    · rename_i x hx
      split at h
      · rename_i ys hys
        simp at h; subst h
        simp at hl
        simp [denotesList, decode_sound_aux t v x hx, decodeTuple_sound_aux ts vs ys hys hl]
      · simp at h
    · simp at h
end

/-! ### exactness on representable values -/

theorem mapE_exact (t : Target) (f : Value → Res Dec)
    (hf : ∀ v, representable t v = true → ∃ x, f v = .ok x ∧ denotes false x v = true) :
    ∀ vs, vs.all (representable t) = true → ∃ xs, mapE f vs = .ok xs ∧ denotesList false xs vs = true
  | [], _ => ⟨[], by simp [mapE], by simp [denotesList]⟩
  | v :: vs, h => by
    simp only [List.all_cons, Bool.and_eq_true] at h
    obtain ⟨x, hx, dx⟩ := hf v h.1
    obtain ⟨xs, hxs, dxs⟩ := mapE_exact t f hf vs h.2
    exact ⟨x :: xs, by simp [mapE, hx, hxs], by simp [denotesList, dx, dxs]⟩

mutual
theorem decode_exact_aux : ∀ (τ : Target) (v : Value), representable τ v = true →
    ∃ x, decode τ v = .ok x ∧ denotes false x v = true
  | .int t, v, h => by
    cases v <;> simp [representable, numVal] at h
    · exact ⟨_, by rw [decode_int_int64, if_pos h], by simp [denotes, numVal]⟩
    · exact ⟨_, by rw [decode_int_uint64, if_pos h], by simp [denotes, numVal]⟩
  | .f64, v, h => by
    cases v <;> simp [representable] at h <;> simp [decode, denotes, h]
  | .f32, v, h => by
    cases v <;> simp [representable] at h <;> simp [decode, denotes, h]
  | .bool, v, h => by
    cases v <;> simp [representable] at h <;> simp [decode, denotes]
  | .string, v, h => by
    cases v <;> simp [representable] at h <;> simp [decode, denotes]
  | .char, v, h => by
    cases v <;> simp [representable] at h <;> simp [decode, denotes, h]
  | .unit, v, h => by simp [representable] at h
  | .option t, v, h => by
    cases v <;> simp only [representable] at h
    case null => exact ⟨.none, by simp [decode], by simp [denotes]⟩
    all_goals
      obtain ⟨x, hx, dx⟩ := decode_exact_aux t _ h
      exact ⟨.some x, by simp [decode, hx], by simp [denotes, dx]⟩
  | .vec t, v, h => by
    cases v <;> simp only [representable] at h <;> (try cases h)
    obtain ⟨xs, hxs, dxs⟩ := mapE_exact t (decode t) (decode_exact_aux t) _ h
    exact ⟨.list xs, by simp [decode, hxs], by simp [denotes, dxs]⟩
  | .tuple ts, v, h => by
    cases v <;> simp only [representable] at h <;> (try simp at h)
    obtain ⟨xs, hl, hxs, dxs⟩ := decodeTuple_exact_aux ts _ h
    exact ⟨.tuple xs, by simp [decode, hl, hxs], by simp [denotes, dxs]⟩
theorem decodeTuple_exact_aux : ∀ (ts : List Target) (vs : List Value), representableTuple ts vs = true →
    ∃ xs, ts.length = vs.length ∧ decodeTuple ts vs = .ok xs ∧ denotesList false xs vs = true
  | [], [], _ => ⟨[], rfl, by simp [decodeTuple], by simp [denotesList]⟩
  | [], _ :: _, h => by simp [representableTuple] at h
  | _ :: _, [], h => by simp [representableTuple] at h
  | t :: ts, v :: vs, h => by
    simp only [representableTuple, Bool.and_eq_true] at h
    obtain ⟨x, hx, dx⟩ := decode_exact_aux t v h.1
    obtain ⟨xs, hl, hxs, dxs⟩ := decodeTuple_exact_aux ts vs h.2
    exact ⟨x :: xs, by simp [hl], by simp [decodeTuple, hx, hxs], by simp [denotesList, dx, dxs]⟩
end

/-! ### only representable values are accepted (targets without floats) -/

theorem mapE_repr (t : Target) (f : Value → Res Dec)
    (hf : ∀ v x, f v = .ok x → representable t v = true) :
    ∀ vs xs, mapE f vs = .ok xs → vs.all (representable t) = true
  | [], _, _ => by simp
  | v :: vs, xs, h => by
    simp only [mapE] at h
    split at h
    · rename_i x hx
      split at h
      · rename_i ys hys
        simp only [List.all_cons, Bool.and_eq_true]
        exact ⟨hf v x hx, mapE_repr t f hf vs ys hys⟩
      · simp at h
    · simp at h

mutual
theorem decode_ok_repr_aux : ∀ (τ : Target) (v : Value) (x : Dec), noFloat τ = true →
    decode τ v = .ok x → representable τ v = true
  | .int t, v, x, _, h => by
    cases hv : isInt v
    · rw [decode_int_not_isInt t v hv] at h; exact absurd h (reject_not_ok _ _)
    · rw [decode_int_of_isInt t v hv] at h
      split at h
      · rename_i hf
        simp [representable, numVal_of_isInt hv, hf]
      · simp at h
  | .f64, _, _, hn, _ => by simp [noFloat] at hn
  | .f32, _, _, hn, _ => by simp [noFloat] at hn
  | .bool, v, x, _, h => by
    cases v <;> simp [decode, reject] at h <;> simp [representable]
  | .string, v, x, _, h => by
    cases v <;> simp [decode, reject] at h <;> simp [representable]
  | .char, v, x, _, h => by
    cases v <;> simp only [decode] at h <;> (try exact absurd h (reject_not_ok _ _))
    split at h
    · rename_i hs; simp [representable, hs]
    · simp at h
  | .unit, v, x, _, h => by
    simp only [decode] at h; exact absurd h (reject_not_ok _ _)
  | .option t, v, x, hn, h => by
    simp only [noFloat] at hn
    cases v <;> simp only [decode] at h
    case null => simp [representable]
    all_goals
      split at h
      · rename_i y hy
        simp only [representable]
        exact decode_ok_repr_aux t _ y hn hy
      · simp at h
  | .vec t, v, x, hn, h => by
    simp only [noFloat] at hn
    cases v <;> simp only [decode] at h <;> (try exact absurd h (reject_not_ok _ _))
    split at h
    · rename_i ys hys
      simp only [representable]
      exact mapE_repr t (decode t) (fun v x => decode_ok_repr_aux t v x hn) _ ys hys
    · simp at h
  | .tuple ts, v, x, hn, h => by
    simp only [noFloat] at hn
    cases v <;> simp only [decode] at h <;> (try exact absurd h (reject_not_ok _ _))
    split at h
    · simp at h
    · split at h
      · rename_i ys hys
        simp only [representable]
        exact decodeTuple_ok_repr_aux ts _ ys hn hys (by omega)
      · simp at h
theorem decodeTuple_ok_repr_aux : ∀ (ts : List Target) (vs : List Value) (xs : List Dec),
    noFloatList ts = true → decodeTuple ts vs = .ok xs → ts.length = vs.length →
    representableTuple ts vs = true
  | [], vs, xs, _, h, hl => by
    cases vs <;> simp at hl
    simp [representableTuple]
  | t :: ts, [], xs, _, h, hl => by simp at hl
  | t :: ts, v :: vs, xs, hn, h, hl => by
    simp only [noFloatList, Bool.and_eq_true] at hn
    simp only [decodeTuple] at h
    split at h
    · rename_i x hx
      split at h
      · rename_i ys hys
        simp at hl
        simp [representableTuple, decode_ok_repr_aux t v x hn.1 hx,
          decodeTuple_ok_repr_aux ts vs ys hn.2 hys hl]
      · simp at h
    · simp at h
end

/-! ### panics come from `Enum` values only -/

theorem mapE_no_panic (f : Value → Res Dec)
    (hf : ∀ v, noEnum v = true → f v ≠ .error .panic) :
    ∀ vs, noEnumList vs = true → mapE f vs ≠ .error .panic
  | [], _ => by simp [mapE]
  | v :: vs, h => by
    simp only [noEnumList, Bool.and_eq_true] at h
    have h1 := hf v h.1
    have h2 := mapE_no_panic f hf vs h.2
    simp only [mapE]
    split
    · split
      · simp
      · rename_i e he; intro hc; simp at hc; subst hc; exact h2 he
    · rename_i e he; intro hc; simp at hc; subst hc; exact h1 he

mutual
theorem decode_no_panic_aux : ∀ (τ : Target) (v : Value), noEnum v = true →
    decode τ v ≠ .error .panic
  | .int t, v, hv => by
    cases hi : isInt v
    · rw [decode_int_not_isInt t v hi, reject_noEnum hv]; simp
    · rw [decode_int_of_isInt t v hi]; split <;> simp
  | .f64, v, hv => by
    cases v <;> simp [decode, reject] <;> simp [noEnum] at hv
  | .f32, v, hv => by
    cases v <;> simp [decode, reject] <;> simp [noEnum] at hv
  | .bool, v, hv => by
    cases v <;> simp [decode, reject] <;> simp [noEnum] at hv
  | .string, v, hv => by
    cases v <;> simp [decode, reject] <;> simp [noEnum] at hv
  | .char, v, hv => by
    cases v <;> simp [decode, reject] <;> (try simp [noEnum] at hv)
    split <;> simp
  | .unit, v, hv => by
    simp only [decode, reject_noEnum hv]; simp
  | .option t, v, hv => by
    cases v <;> simp only [decode]
    case null => simp
    all_goals
      have := decode_no_panic_aux t _ hv
      split
      · simp
      · rename_i e he; intro hc; simp at hc; subst hc; exact this he
  | .vec t, v, hv => by
    cases v <;> simp only [decode] <;> (try (rw [reject_noEnum hv]; simp))
    simp only [noEnum] at hv
    have := mapE_no_panic (decode t) (decode_no_panic_aux t) _ hv
    split
    · simp
    · rename_i e he; intro hc; simp at hc; subst hc; exact this he
  | .tuple ts, v, hv => by
    cases v <;> simp only [decode] <;> (try (rw [reject_noEnum hv]; simp))
    simp only [noEnum] at hv
    have := decodeTuple_no_panic_aux ts _ hv
    split
    · simp
    · split
      · simp
      · rename_i e he; intro hc; simp at hc; subst hc; exact this he
theorem decodeTuple_no_panic_aux : ∀ (ts : List Target) (vs : List Value), noEnumList vs = true →
    decodeTuple ts vs ≠ .error .panic
  | [], vs, _ => by simp [decodeTuple]
  | t :: ts, [], _ => by simp [decodeTuple]
  | t :: ts, v :: vs, h => by
    simp only [noEnumList, Bool.and_eq_true] at h
    have h1 := decode_no_panic_aux t v h.1
    have h2 := decodeTuple_no_panic_aux ts vs h.2
    simp only [decodeTuple]
    split
    · split
      · simp
      · rename_i e he; intro hc; simp at hc; subst hc; exact h2 he
    · rename_i e he; intro hc; simp at hc; subst hc; exact h1 he
end


/-! ### lengths -/

theorem mapE_length (f : Value → Res Dec) : ∀ vs xs, mapE f vs = .ok xs → xs.length = vs.length
  | [], xs, h => by simp [mapE] at h; subst h; rfl
  | v :: vs, xs, h => by
    simp only [mapE] at h
    split at h
    · split at h
      · rename_i ys hys
        simp at h; subst h
        simp [mapE_length f vs ys hys]
      · simp at h
    · simp at h

theorem decodeTuple_length : ∀ (ts : List Target) (vs : List Value) (xs : List Dec),
    decodeTuple ts vs = .ok xs → xs.length = ts.length
  | [], vs, xs, h => by simp [decodeTuple] at h; subst h; rfl
  | t :: ts, [], xs, h => by simp [decodeTuple] at h
  | t :: ts, v :: vs, xs, h => by
    simp only [decodeTuple] at h
    split at h
    · split at h
      · rename_i ys hys
        simp at h; subst h
        simp [decodeTuple_length ts vs ys hys]
      · simp at h
    · simp at h

/-! ### rows -/

theorem mem_insertSorted (kv : Name × Value) : ∀ (r : Row) (x : Name × Value),
    x ∈ insertSorted kv r ↔ x = kv ∨ x ∈ r
  | [], x => by simp [insertSorted]
  | kv' :: rest, x => by
    simp only [insertSorted]
    split
    · simp only [List.mem_cons, mem_insertSorted kv rest x]
      constructor
      · rintro (h | h | h) <;> simp [h]
      · rintro (h | h | h) <;> simp [h]
    · simp

theorem mem_sortRow : ∀ (r : Row) (x : Name × Value), x ∈ sortRow r ↔ x ∈ r
  | [], x => by simp [sortRow]
  | kv :: rest, x => by
    have ih := mem_sortRow rest x
    simp only [sortRow, List.foldr_cons, List.mem_cons] at ih ⊢
    rw [mem_insertSorted, ih]

theorem lookupTarget_some_mem {fields : List (Name × Target)} {k : Name} {τ : Target}
    (h : lookupTarget fields k = some τ) : (k, τ) ∈ fields := by
  simp only [lookupTarget, Option.map_eq_some_iff] at h
  obtain ⟨f, hf, rfl⟩ := h
  have h1 := List.find?_some hf
  have h2 := List.mem_of_find?_eq_some hf
  simp at h1; subst h1; exact h2

theorem lookupTarget_of_mem : ∀ {fields : List (Name × Target)} {k : Name} {τ : Target},
    (fields.map (·.1)).Nodup → (k, τ) ∈ fields → lookupTarget fields k = some τ
  | [], _, _, _, h => by simp at h
  | f :: rest, k, τ, hn, h => by
    simp only [List.map_cons, List.nodup_cons] at hn
    simp only [List.mem_cons] at h
    simp only [lookupTarget, List.find?_cons]
    rcases h with h | h
    · subst h; simp
    · have : (f.1 == k) = false := by
        apply Bool.eq_false_iff.mpr
        intro hc
        simp at hc
        apply hn.1
        rw [hc]
        exact List.mem_map.mpr ⟨(k, τ), h, rfl⟩
      rw [this]
      exact lookupTarget_of_mem hn.2 h

theorem lookupDec_some_mem {got : List (Name × Dec)} {k : Name} {x : Dec}
    (h : lookupDec got k = some x) : (k, x) ∈ got := by
  simp only [lookupDec, Option.map_eq_some_iff] at h
  obtain ⟨f, hf, rfl⟩ := h
  have h1 := List.find?_some hf
  have h2 := List.mem_of_find?_eq_some hf
  simp at h1; subst h1; exact h2

theorem lookupDec_none_not_mem {got : List (Name × Dec)} {k : Name}
    (h : lookupDec got k = none) (x : Dec) : (k, x) ∉ got := by
  simp only [lookupDec, Option.map_eq_none_iff, List.find?_eq_none] at h
  intro hm
  have := h (k, x) hm
  simp at this

/-- every entry produced by the `visit_map` loop is the decoding of a row entry with that key by the
type of the struct field with that name -/
theorem decodePresent_sound (fields : List (Name × Target)) : ∀ (r : Row) (got : List (Name × Dec)),
    decodePresent fields r = .ok got → ∀ k x, (k, x) ∈ got →
      ∃ v τ, (k, v) ∈ r ∧ lookupTarget fields k = some τ ∧ decode τ v = .ok x
  | [], got, h, k, x, hm => by simp [decodePresent] at h; subst h; simp at hm
  | (k', v') :: rest, got, h, k, x, hm => by
    simp only [decodePresent] at h
    split at h
    · rename_i τ hτ
      split at h
      · rename_i y hy
        split at h
        · rename_i out hout
          simp at h; subst h
          simp only [List.mem_cons] at hm
          rcases hm with hm | hm
          · simp at hm; obtain ⟨rfl, rfl⟩ := hm
            exact ⟨v', τ, by simp, hτ, hy⟩
          · obtain ⟨v, τ', h1, h2, h3⟩ := decodePresent_sound fields rest out hout k x hm
            exact ⟨v, τ', by simp [h1], h2, h3⟩
        · simp at h
      · simp at h
    · obtain ⟨v, τ', h1, h2, h3⟩ := decodePresent_sound fields rest got h k x hm
      exact ⟨v, τ', by simp [h1], h2, h3⟩

/-- every row entry whose key names a struct field produces an entry -/
theorem decodePresent_complete (fields : List (Name × Target)) : ∀ (r : Row) (got : List (Name × Dec)),
    decodePresent fields r = .ok got → ∀ k v τ, (k, v) ∈ r → lookupTarget fields k = some τ →
      ∃ x, (k, x) ∈ got
  | [], got, h, k, v, τ, hm, _ => by simp at hm
  | (k', v') :: rest, got, h, k, v, τ, hm, hl => by
    simp only [decodePresent] at h
    simp only [List.mem_cons] at hm
    split at h
    · rename_i τ' hτ'
      split at h
      · rename_i y hy
        split at h
        · rename_i out hout
          simp at h; subst h
          rcases hm with hm | hm
          · simp at hm; obtain ⟨rfl, rfl⟩ := hm
            exact ⟨y, by simp⟩
          · obtain ⟨x, hx⟩ := decodePresent_complete fields rest out hout k v τ hm hl
            exact ⟨x, by simp [hx]⟩
        · simp at h
      · simp at h
    · rename_i hnone
      rcases hm with hm | hm
      · simp at hm; obtain ⟨rfl, rfl⟩ := hm
        rw [hl] at hnone; simp at hnone
      · exact decodePresent_complete fields rest got h k v τ hm hl

/-- the two lists have the same length and corresponding elements are related -/
inductive Forall2 {α β : Type} (R : α → β → Prop) : List α → List β → Prop
  | nil : Forall2 R [] []
  | cons {a b as bs} : R a b → Forall2 R as bs → Forall2 R (a :: as) (b :: bs)

theorem Forall2.imp_mem {α β : Type} {R S : α → β → Prop} {as : List α} {bs : List β}
    (h : Forall2 R as bs) (hi : ∀ a ∈ as, ∀ b, R a b → S a b) : Forall2 S as bs := by
  induction h with
  | nil => exact .nil
  | cons hd _ ih =>
    exact .cons (hi _ (by simp) _ hd) (ih (fun a ha b hr => hi a (by simp [ha]) b hr))

theorem Forall2.length_eq {α β : Type} {R : α → β → Prop} {as : List α} {bs : List β}
    (h : Forall2 R as bs) : as.length = bs.length := by
  induction h with
  | nil => rfl
  | cons _ _ ih => simp [ih]

/-- What `decodeRow` guarantees for the field `k : τ` that came out as `x`. -/
def FieldOk (row : Row) (k : Name) (τ : Target) (x : Dec) : Prop :=
  (∃ v, (k, v) ∈ row ∧ decode τ v = .ok x) ∨
  ((∀ v, (k, v) ∉ row) ∧ (∃ t, τ = .option t) ∧ x = .none)

theorem assemble_spec (got : List (Name × Dec)) : ∀ (fields : List (Name × Target)) (out : List (Name × Dec)),
    assemble got fields = .ok out →
    Forall2 (fun f o => o.1 = f.1 ∧
      (lookupDec got f.1 = some o.2 ∨
        (lookupDec got f.1 = none ∧ (∃ t, f.2 = .option t) ∧ o.2 = .none))) fields out
  | [], out, h => by simp [assemble] at h; subst h; exact .nil
  | (k, τ) :: rest, out, h => by
    simp only [assemble] at h
    split at h
    · rename_i x hx
      split at h
      · rename_i o ho
        simp at h; subst h
        refine .cons ⟨rfl, ?_⟩ (assemble_spec got rest o ho)
        split at hx
        · rename_i y hy; simp at hx; subst hx; exact .inl hy
        · rename_i hnone
          split at hx
          · simp at hx; subst hx; exact .inr ⟨hnone, ⟨_, rfl⟩, rfl⟩
          · simp at hx
      · simp at h
    · simp at h

theorem decodeRow_spec (fields : List (Name × Target)) (row : Row) (out : List (Name × Dec))
    (hn : (fields.map (·.1)).Nodup) (h : decodeRow fields row = .ok out) :
    Forall2 (fun f o => o.1 = f.1 ∧ FieldOk row f.1 f.2 o.2) fields out := by
  simp only [decodeRow] at h
  split at h
  · rename_i got hgot
    have hs := decodePresent_sound fields _ got hgot
    have hc := decodePresent_complete fields _ got hgot
    have ha := assemble_spec got fields out h
    -- strengthen pointwise, remembering membership in `fields`
    have key : ∀ f ∈ fields, ∀ o : Name × Dec,
        (o.1 = f.1 ∧ (lookupDec got f.1 = some o.2 ∨
          (lookupDec got f.1 = none ∧ (∃ t, f.2 = .option t) ∧ o.2 = .none))) →
        (o.1 = f.1 ∧ FieldOk row f.1 f.2 o.2) := by
      intro f hf o ⟨h1, h2⟩
      refine ⟨h1, ?_⟩
      have hlt : lookupTarget fields f.1 = some f.2 := lookupTarget_of_mem hn hf
      rcases h2 with h2 | ⟨h2, h3, h4⟩
      · obtain ⟨v, τ', m1, m2, m3⟩ := hs f.1 o.2 (lookupDec_some_mem h2)
        rw [hlt] at m2; simp at m2; subst m2
        exact .inl ⟨v, (mem_sortRow row _).mp m1, m3⟩
      · refine .inr ⟨?_, h3, h4⟩
        intro v hv
        obtain ⟨x, hx⟩ := hc f.1 v f.2 ((mem_sortRow row _).mpr hv) hlt
        exact lookupDec_none_not_mem h2 x hx
    exact ha.imp_mem key
  · simp at h

theorem decodePresent_insert_unknown (fields : List (Name × Target)) (k : Name) (v : Value)
    (hk : lookupTarget fields k = none) : ∀ r : Row,
    decodePresent fields (insertSorted (k, v) r) = decodePresent fields r
  | [] => by simp [insertSorted, decodePresent, hk]
  | (k', v') :: rest => by
    simp only [insertSorted]
    split
    · simp only [decodePresent, decodePresent_insert_unknown fields k v hk rest]
    · simp [decodePresent, hk]

end TF.Decode
