/-
Specification-side definitions for C18 (what a decoded value *denotes*, when a value is
*representable* in a target) and the lemmas behind `Props/C18.lean`.
-/
import TrustfallModel.Model.Decode

namespace TF.Decode
open TF Value

/-! ## Specification vocabulary -/

/-- Integer-kinded value (either representation). -/
def isInt : Value → Bool
  | .int64 _ | .uint64 _ => true
  | _ => false

/-- The mathematical value of an integer-kinded value (0 for other kinds; use with `isInt`). -/
def numOf : Value → Int
  | .int64 i => i.toInt
  | .uint64 u => (u.toNat : Int)
  | _ => 0

theorem numVal_of_isInt {v : Value} (h : isInt v = true) : numVal v = some (numOf v) := by
  cases v <;> simp_all [isInt, numVal, numOf]

/-- the finite float with this key is exactly the integer `n` -/
def fltIsInt : Flt → Int → Bool
  | .fin k, n => fltInt? k == some n
  | _, _ => false

mutual
/-- `denotes lenient x v`: the decoded Rust value `x` is the value `v`: integers by their number
(whatever the representation of `v`), strings / chars by their bytes, `None` is `Null`, `Some x` is a
non-null `v` that `x` denotes, `Vec`s and tuples element by element with equal length, an `f64` decoded
from a `Float64` is the same float.  At the three places where the real decoder converts with `as`
(`integer → f64`, `integer → f32`, `Float64 → f32`) the exact reading (`lenient = false`) demands
that the float equals the source number exactly; the lenient reading accepts any float there. -/
def denotes (lenient : Bool) : Dec → Value → Bool
  | .int _ n, v => numVal v == some n
  | .f64 x, v =>
    match v with
    | .float64 k => x == .fin k
    | .int64 i => lenient || fltIsInt x i.toInt
    | .uint64 u => lenient || fltIsInt x u.toNat
    | _ => false
  | .f32 x, v =>
    match v with
    | .float64 k => lenient || x == .fin k
    | .int64 i => lenient || fltIsInt x i.toInt
    | .uint64 u => lenient || fltIsInt x u.toNat
    | _ => false
  | .bool b, v => match v with | .boolean b' => b == b' | _ => false
  | .str s, v => match v with | .string s' => s == s' | _ => false
  | .char s, v => match v with | .string s' => s == s' | _ => false
  | .none, v => match v with | .null => true | _ => false
  | .some x, v => match v with | .null => false | v => denotes lenient x v
  | .list xs, v => match v with | .list vs => denotesList lenient xs vs | _ => false
  | .tuple xs, v => match v with | .list vs => denotesList lenient xs vs | _ => false
def denotesList (lenient : Bool) : List Dec → List Value → Bool
  | [], [] => true
  | x :: xs, v :: vs => denotes lenient x v && denotesList lenient xs vs
  | _, _ => false
end

mutual
/-- `representable τ v`: the value `v` is of the kind the Rust type `τ` describes and every number in
it is exactly a value of the corresponding field type: integers lie in the target's range; a `Float64`
is always an `f64` and is an `f32` iff narrowing does not change it; an integer is an `f64`/`f32` iff
the conversion is exact; `Null` is `None`; tuples need the exact length.  (`()` is outside the
property's quantifier, and the real decoder accepts nothing for it — `decode_unit_rejects` —, so
nothing is called representable there.) -/
def representable : Target → Value → Bool
  | .int t, v => match numVal v with | some n => decide (fits t n) | none => false
  | .f64, v =>
    match v with
    | .float64 _ => true
    | .int64 i => fltIsInt (i2d i.toInt) i.toInt
    | .uint64 u => fltIsInt (i2d u.toNat) u.toNat
    | _ => false
  | .f32, v =>
    match v with
    | .float64 k => d2s k == .fin k
    | .int64 i => fltIsInt (i2s i.toInt) i.toInt
    | .uint64 u => fltIsInt (i2s u.toNat) u.toNat
    | _ => false
  | .bool, v => match v with | .boolean _ => true | _ => false
  | .string, v => match v with | .string _ => true | _ => false
  | .char, v => match v with | .string s => singleChar s | _ => false
  | .unit, _ => false
  | .option t, v => match v with | .null => true | v => representable t v
  | .vec t, v => match v with | .list vs => representableAll t vs | _ => false
  | .tuple ts, v => match v with | .list vs => representableTuple ts vs | _ => false
def representableAll : Target → List Value → Bool
  | _, [] => true
  | t, v :: vs => representable t v && representableAll t vs
def representableTuple : List Target → List Value → Bool
  | [], [] => true
  | t :: ts, v :: vs => representable t v && representableTuple ts vs
  | _, _ => false
end
