/-
Helper lemmas for C07: what the filter operators of `Model/Filter.lean` compute.
Core Lean + `Std` only.
-/
import TrustfallModel.Model.Filter
import TrustfallModel.Proofs.ValueOrder

namespace TF.Filter
open TF Value

/-- The comparison function generated for an operator token. -/
def cmpFn : CmpOp → Value → Value → Outcome Bool
  | .gt => greaterThan
  | .ge => greaterThanOrEqual
  | .lt => lessThan
  | .le => lessThanOrEqual

/-! ### operator tokens against `compare` -/

theorem onInt_eq_onOrdering (op : CmpOp) (x y : Int) :
    op.onInt x y = op.onOrdering (compare x y) := by
  rcases Int.lt_trichotomy x y with h | h | h
  · rw [Int.compare_eq_lt.mpr h]
    cases op <;> simp only [CmpOp.onInt, CmpOp.onOrdering] <;>
      first | (show _ = true; simp; omega) | (show _ = false; simp; omega)
  · rw [Int.compare_eq_eq.mpr h]
    cases op <;> simp only [CmpOp.onInt, CmpOp.onOrdering] <;>
      first | (show _ = true; simp; omega) | (show _ = false; simp; omega)
  · rw [Int.compare_eq_gt.mpr h]
    cases op <;> simp only [CmpOp.onInt, CmpOp.onOrdering] <;>
      first | (show _ = true; simp; omega) | (show _ = false; simp; omega)

theorem beq_eq_decide' {α : Type} [BEq α] [LawfulBEq α] [DecidableEq α] (a b : α) :
    (a == b) = decide (a = b) := by
  rw [Bool.eq_iff_iff]; simp

theorem onNat_eq_onInt (op : CmpOp) (x y : Nat) : op.onNat x y = op.onInt (x : Int) (y : Int) := by
  cases op <;> simp [CmpOp.onInt, CmpOp.onNat]

/-! ### integers: every pair of `Int64`/`UInt64` bit patterns -/

/-- All four comparison functions on integer-kinded operands of either representation: the
operator applied to the mathematical values. -/
theorem cmpFn_int (op : CmpOp) (l r : Value) (x y : Int)
    (hl : numVal l = some x) (hr : numVal r = some y) :
    cmpFn op l r = .ok (op.onInt x y) := by
  cases l <;> simp [numVal] at hl <;> cases r <;> simp [numVal] at hr <;> subst hl hr
  all_goals rename_i a b
  · cases op <;> simp [cmpFn, greaterThan, greaterThanOrEqual, lessThan, lessThanOrEqual, comparisonOp]
  · have h1 := Int64.toInt_lt a
    have h2 := Int64.le_toInt a
    have h3 := UInt64.toNat_lt b
    cases op <;>
      simp only [cmpFn, greaterThan, greaterThanOrEqual, lessThan, lessThanOrEqual, comparisonOp,
        slowPathGreater, slowPathLess, CmpOp.onInt, CmpOp.onNat] <;>
      (repeat' split) <;>
      first
        | rfl
        | omega
        | (congr 1; simp only [decide_eq_decide]; omega)
        | (congr 1; simp only [Bool.false_eq, Bool.true_eq, decide_eq_false_iff_not, decide_eq_true_eq]; omega)
  · have h1 := Int64.toInt_lt b
    have h2 := Int64.le_toInt b
    have h3 := UInt64.toNat_lt a
    cases op <;>
      simp only [cmpFn, greaterThan, greaterThanOrEqual, lessThan, lessThanOrEqual, comparisonOp,
        slowPathGreater, slowPathLess, CmpOp.onInt, CmpOp.onNat] <;>
      (repeat' split) <;>
      first
        | rfl
        | omega
        | (congr 1; simp only [decide_eq_decide]; omega)
        | (congr 1; simp only [Bool.false_eq, Bool.true_eq, decide_eq_false_iff_not, decide_eq_true_eq]; omega)
  · cases op <;>
      simp [cmpFn, greaterThan, greaterThanOrEqual, lessThan, lessThanOrEqual, comparisonOp,
        CmpOp.onInt, CmpOp.onNat]

/-- `equals` on integer-kinded operands of either representation is numeric equality. -/
theorem equals_int (l r : Value) (x y : Int)
    (hl : numVal l = some x) (hr : numVal r = some y) :
    equals l r = decide (x = y) := by
  cases l <;> simp [numVal] at hl <;> cases r <;> simp [numVal] at hr <;> subst hl hr
  all_goals rename_i a b
  · simp only [equals, disc, beq, beq_self_eq_true, if_true]
    rw [beq_eq_decide', decide_eq_decide, Int64.toInt_inj]
  · have h1 := Int64.toInt_lt a
    have h2 := Int64.le_toInt a
    have h3 := UInt64.toNat_lt b
    simp only [equals]
    (repeat' split) <;> (try rw [beq_eq_decide']) <;>
      simp only [Bool.false_eq, decide_eq_false_iff_not, decide_eq_decide] <;> omega
  · have h1 := Int64.toInt_lt b
    have h2 := Int64.le_toInt b
    have h3 := UInt64.toNat_lt a
    simp only [equals]
    (repeat' split) <;> (try rw [beq_eq_decide']) <;>
      simp only [Bool.false_eq, decide_eq_false_iff_not, decide_eq_decide] <;> omega
  · simp only [equals, disc, beq, beq_self_eq_true, if_true]
    rw [beq_eq_decide', decide_eq_decide, ← UInt64.toNat_inj]; omega

/-! ### `equals` is `==` -/

theorem beq_ordering_eq_iff (o : Ordering) : (o == Ordering.eq) = true ↔ o = .eq := by
  cases o <;> decide

theorem equals_mixed_iu (x : Int64) (y : UInt64) : equals (.int64 x) (.uint64 y) = beq (.int64 x) (.uint64 y) := by
  rw [equals_int (.int64 x) (.uint64 y) _ _ rfl rfl]
  simp only [beq, cmpI64U64_num]
  rw [Bool.eq_iff_iff, beq_ordering_eq_iff, Int.compare_eq_eq, decide_eq_true_iff]

theorem equals_mixed_ui (x : UInt64) (y : Int64) : equals (.uint64 x) (.int64 y) = beq (.uint64 x) (.int64 y) := by
  rw [equals_int (.uint64 x) (.int64 y) _ _ rfl rfl]
  simp only [beq, cmpI64U64_num]
  rw [Bool.eq_iff_iff, beq_ordering_eq_iff, Int.compare_eq_eq, decide_eq_true_iff]
  exact eq_comm

mutual
theorem equals_eq_beq (a b : Value) : equals a b = beq a b := by
  cases a <;> cases b
  all_goals first
    | exact equals_mixed_iu _ _
    | exact equals_mixed_ui _ _
    | (simp only [equals, beq]; exact equalsList_eq_beqList _ _)
    | simp [equals, beq, disc]
theorem equalsList_eq_beqList (l r : List Value) :
    (l.length == r.length && equalsZipAll l r) = beqList l r := by
  cases l with
  | nil => cases r <;> simp [equalsZipAll, beqList]
  | cons x xs =>
    cases r with
    | nil => simp [beqList]
    | cons y ys =>
      simp only [List.length_cons, equalsZipAll, beqList]
      rw [← equalsList_eq_beqList xs ys, equals_eq_beq x y]
      cases beq x y <;> simp
end

/-! ### strings: `cmpBytes` is the lexicographic order of byte lists -/

theorem cmpBytes_lt_iff (a b : Bytes) : cmpBytes a b = .lt ↔ a < b := by
  induction a generalizing b with
  | nil => cases b <;> simp [cmpBytes, List.not_lt_nil, List.nil_lt_cons]
  | cons x xs ih =>
    cases b with
    | nil => simp [cmpBytes, List.not_lt_nil]
    | cons y ys =>
      simp only [cmpBytes, List.cons_lt_cons_iff, UInt8.lt_iff_toNat_lt]
      rcases Nat.lt_trichotomy x.toNat y.toNat with h | h | h
      · rw [Nat.compare_eq_lt.mpr h]; simp [h]
      · rw [Nat.compare_eq_eq.mpr h]
        have hxy : x = y := UInt8.toNat_inj.mp h
        simp [ih ys, hxy]
      · rw [Nat.compare_eq_gt.mpr h]
        have hne : x ≠ y := by intro e; subst e; omega
        simp [hne]; omega

theorem cmpBytes_gt_iff (a b : Bytes) : cmpBytes a b = .gt ↔ b < a := by
  rw [cmpBytes_swap a b, ← cmpBytes_lt_iff b a]
  cases cmpBytes b a <;> simp [Ordering.swap]

theorem onOrdering_cmpBytes (op : CmpOp) (a b : Bytes) :
    op.onOrdering (cmpBytes a b) =
      match op with
      | .gt => decide (a > b)
      | .ge => decide (a ≥ b)
      | .lt => decide (a < b)
      | .le => decide (a ≤ b) := by
  have hlt := cmpBytes_lt_iff a b
  have hgt := cmpBytes_gt_iff a b
  cases op <;> simp only [CmpOp.onOrdering, GT.gt, GE.ge]
  · rw [Bool.eq_iff_iff, decide_eq_true_iff, ← hgt]; cases cmpBytes a b <;> decide
  · rw [Bool.eq_iff_iff, decide_eq_true_iff, ← List.not_lt, ← hlt]; cases cmpBytes a b <;> decide
  · rw [Bool.eq_iff_iff, decide_eq_true_iff, ← hlt]; cases cmpBytes a b <;> decide
  · rw [Bool.eq_iff_iff, decide_eq_true_iff, ← List.not_lt, ← hgt]; cases cmpBytes a b <;> decide

theorem cmpFn_string (op : CmpOp) (a b : Bytes) :
    cmpFn op (.string a) (.string b) = .ok (op.onOrdering (cmpBytes a b)) := by
  cases op <;> rfl

theorem cmpFn_float (op : CmpOp) (a b : Int) :
    cmpFn op (.float64 a) (.float64 b) = .ok (op.onInt a b) := by
  cases op <;> rfl

/-! ### null -/

theorem cmpFn_null_left (op : CmpOp) (r : Value) : cmpFn op .null r = .ok false := by
  cases op <;> simp [cmpFn, greaterThan, greaterThanOrEqual, lessThan, lessThanOrEqual, comparisonOp]

theorem cmpFn_null_right (op : CmpOp) (l : Value) : cmpFn op l .null = .ok false := by
  cases op <;> cases l <;>
    simp [cmpFn, greaterThan, greaterThanOrEqual, lessThan, lessThanOrEqual, comparisonOp]

/-! ### agreement with the total order of C08 on operands of one orderable kind -/

/-- Both integer-kinded (either representation), both floats, or both strings. -/
def SameOrderableKind : Value → Value → Prop
  | .int64 _, .int64 _ | .int64 _, .uint64 _ | .uint64 _, .int64 _ | .uint64 _, .uint64 _ => True
  | .float64 _, .float64 _ => True
  | .string _, .string _ => True
  | _, _ => False

theorem cmpFn_eq_cmp (op : CmpOp) (l r : Value) (h : SameOrderableKind l r) :
    cmpFn op l r = .ok (op.onOrdering (Value.cmp l r)) := by
  cases l <;> cases r <;> simp only [SameOrderableKind] at h
  · rw [cmpFn_int op _ _ _ _ rfl rfl, onInt_eq_onOrdering, Value.cmp_int rfl rfl]; rfl
  · rw [cmpFn_int op _ _ _ _ rfl rfl, onInt_eq_onOrdering, Value.cmp_int rfl rfl]; rfl
  · rw [cmpFn_int op _ _ _ _ rfl rfl, onInt_eq_onOrdering, Value.cmp_int rfl rfl]; rfl
  · rw [cmpFn_int op _ _ _ _ rfl rfl, onInt_eq_onOrdering, Value.cmp_int rfl rfl]; rfl
  · rw [cmpFn_float, onInt_eq_onOrdering]; rfl
  · rw [cmpFn_string]; rfl

/-! ### collections -/

theorem oneOfLoop_eq_any (x : Value) (v : List Value) :
    oneOfLoop x v = v.any (fun a => x == a) := by
  induction v with
  | nil => rfl
  | cons a as ih => simp only [oneOfLoop, List.any_cons, ih]; cases x == a <;> rfl

/-! ### strings: prefix / suffix / infix -/

theorem isInfixOf_iff (p s : Bytes) : isInfixOf p s = true ↔ p <:+: s := by
  induction s with
  | nil => simp [isInfixOf, List.isPrefixOf_iff_prefix]
  | cons x xs ih =>
    simp only [isInfixOf, Bool.or_eq_true, List.isPrefixOf_iff_prefix, ih, List.infix_cons_iff]

/-! ### typing of operand pairs (what `operand_types_valid` admits), for the no-panic lemma -/

/-- Base types admitted by `Type::is_orderable` (`"Int" | "Float" | "String"`). -/
inductive OrdBase where
  | int | float | string
  deriving Repr, DecidableEq

mutual
/-- `v` is a value of the type "`depth`-fold list of `base`", every level nullable
(the frontend compares operand types *ignoring nullability*). -/
def inhabits (base : OrdBase) : Nat → Value → Bool
  | _, .null => true
  | 0, .int64 _ => base == .int
  | 0, .uint64 _ => base == .int
  | 0, .float64 _ => base == .float
  | 0, .string _ => base == .string
  | d + 1, .list vs => inhabitsAll base d vs
  | _, _ => false
def inhabitsAll (base : OrdBase) : Nat → List Value → Bool
  | _, [] => true
  | d, v :: vs => inhabits base d v && inhabitsAll base d vs
end

/-- `ordering_types_valid`: both operand types orderable (by base type name only) and equal
ignoring nullability — hence both operands inhabit one `depth`-fold list type of one base. -/
def TypedOrdering (l r : Value) : Prop :=
  ∃ base depth, inhabits base depth l = true ∧ inhabits base depth r = true

/-- A string-typed operand (`String` or `String!`). -/
def isStringOrNull : Value → Bool
  | .string _ | .null => true
  | _ => false

def isListOrNull : Value → Bool
  | .list _ | .null => true
  | _ => false

def isList : Value → Bool
  | .list _ => true
  | _ => false

/-- Operand pairs the frontend's `operand_types_valid` admits, as far as the *kinds* of the values
are concerned (which is all the operator functions branch on). -/
def Typed (path : ArgPath) : BinOp → Value → Value → Prop
  | .equals, _, _ | .notEquals, _, _ => True
  | .lessThan, l, r | .lessThanOrEqual, l, r | .greaterThan, l, r | .greaterThanOrEqual, l, r =>
    TypedOrdering l r
  | .contains, l, _ | .notContains, l, _ => isListOrNull l = true
  | .oneOf, _, r | .notOneOf, _, r => isListOrNull r = true
  | .hasPrefix, l, r | .notHasPrefix, l, r | .hasSuffix, l, r | .notHasSuffix, l, r
  | .hasSubstring, l, r | .notHasSubstring, l, r =>
    isStringOrNull l = true ∧ isStringOrNull r = true
  | .regexMatches, l, r | .notRegexMatches, l, r =>
    isStringOrNull l = true ∧
      match path with
      | .tagged => isStringOrNull r = true
      -- a variable used as a regex is inferred `String!`; argument validation rejects null
      | .static => ∃ s, r = .string s

def BinOp.isOrdering : BinOp → Bool
  | .lessThan | .lessThanOrEqual | .greaterThan | .greaterThanOrEqual => true
  | _ => false

def BinOp.isRegex : BinOp → Bool
  | .regexMatches | .notRegexMatches => true
  | _ => false

/-- The pattern (when the right operand is a string) compiles. -/
def patternCompiles (rx : RegexEngine) : Value → Prop
  | .string r => (rx r).isSome = true
  | _ => True

theorem cmpFn_no_panic_of_scalar (op : CmpOp) (l r : Value) (base : OrdBase)
    (hl : inhabits base 0 l = true) (hr : inhabits base 0 r = true) :
    cmpFn op l r ≠ .panic := by
  cases l <;> simp [inhabits] at hl
  · rw [cmpFn_null_left]; simp
  all_goals (cases r <;> simp [inhabits] at hr)
  all_goals first
    | (rw [cmpFn_null_right]; simp)
    | (rw [cmpFn_int op _ _ _ _ rfl rfl]; simp)
    | (rw [cmpFn_float]; simp)
    | (rw [cmpFn_string]; simp)
    | (subst hl; simp at hr)

theorem inhabits_not_list_depth0 (base : OrdBase) (d : Nat) (v : Value)
    (h : inhabits base d v = true) (hv : isList v = false) : inhabits base 0 v = true := by
  cases v <;> cases d <;> simp_all [inhabits, isList]

theorem stringOp_no_panic (f : Bytes → Bytes → Bool) (l r : Value)
    (hl : isStringOrNull l = true) (hr : isStringOrNull r = true) : stringOp f l r ≠ .panic := by
  cases l <;> simp [isStringOrNull] at hl <;> cases r <;> simp [isStringOrNull] at hr <;>
    simp [stringOp]

theorem oneOf_no_panic (l r : Value) (hr : isListOrNull r = true) : oneOf l r ≠ .panic := by
  cases r <;> simp [isListOrNull] at hr <;> simp [oneOf]

theorem map_ne_panic {α β : Type} (f : α → β) (o : Outcome α) (h : o ≠ .panic) :
    o.map f ≠ .panic := by
  cases o <;> simp_all [Outcome.map]

end TF.Filter
