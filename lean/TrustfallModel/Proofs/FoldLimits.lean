/-
Helper lemmas for C22: the fold-count shortcuts of `compute_fold` (`get_max_fold_count_limit`,
`get_min_fold_count_limit`, `collect_fold_elements`) against the post-filters they anticipate.

Part 1 (this section): the two limit computations are *sound* for the filters they are computed
from — `max_limit_sound`, `min_limit_sound` — using the numeric theorems of C07 for the integer
comparisons between the count (`Uint64`) and `Int64`/`Uint64` arguments.
-/
import TrustfallModel.Model.Interp
import TrustfallModel.Props.C07
import TrustfallModel.Proofs.InterpHom

namespace TF.Engine
open TF Filter

/-! ### the `R` monad -/

theorem R.bind_eq_ok {α β : Type} {x : R α} {f : α → R β} {b : β} (h : x.bind f = .ok b) :
    ∃ a, x = .ok a ∧ f a = .ok b := by
  cases x <;> simp [R.bind] at h
  exact ⟨_, rfl, h⟩

theorem R.bind_eq_ok' {α β : Type} {x : R α} {f : α → R β} {b : β} (h : (x >>= f) = .ok b) :
    ∃ a, x = .ok a ∧ f a = .ok b := R.bind_eq_ok h

@[simp] theorem R.pure_eq_ok {α : Type} (a : α) : (pure a : R α) = .ok a := rfl
@[simp] theorem R.bind_eq_bind {α β : Type} (x : R α) (f : α → R β) : (x >>= f) = x.bind f := rfl
@[simp] theorem R.map_ok {α β : Type} (f : α → β) (a : α) : (R.ok a).map f = .ok (f a) := rfl
@[simp] theorem R.map_panic {α β : Type} (f : α → β) (s) : (R.panic s : R α).map f = .panic s := rfl
@[simp] theorem R.map_fuel {α β : Type} (f : α → β) : (R.fuel : R α).map f = .fuel := rfl

/-! ### the count as a `Uint64` value -/

theorem count_toNat (n : Nat) (h : n < 2 ^ 64) : (UInt64.ofNat n).toNat = n := by
  simp [UInt64.toNat_ofNat']; omega

theorem numVal_count (n : Nat) (h : n < 2 ^ 64) :
    Value.numVal (.uint64 (UInt64.ofNat n)) = some (n : Int) := by
  simp [Value.numVal, count_toNat n h]

/-- `usize_from_field_value(..).expect(..)` succeeds exactly on integer-kinded values; the result
is the number clamped at 0. -/
theorem usizeExpect_ok {v : Value} {k : Nat} (h : usizeExpect v = .ok k) :
    ∃ x : Int, v.numVal = some x ∧ k = x.toNat := by
  cases v <;> simp [usizeExpect, usizeFromValue, R.bind] at h
  · rename_i i; exact ⟨i.toInt, rfl, h.symm⟩
  · rename_i u; exact ⟨u.toNat, rfl, by simp [← h]⟩

/-! ### one post-filter with a variable argument -/

/-- `apply_fold_specific_filter` for `count <op> $var` on one context whose fold has `n`
elements: the context survives iff it has no active vertex or the operator holds. -/
theorem applyPostFilter_var (env : Env) (parent : Component) (fold : Fold) (f : IRFilter)
    (c : Ctx) (o : Filter.BinOp) (name : Name) (ty : QTy) (v : Value) (n : Nat) (b : Bool)
    (hop : f.op = .bin o) (hr : f.right = some (.var name ty)) (hrx : isRegexOp o = false)
    (harg : env.arg name = .ok v) (hslot : c.foldCount? fold.eid = some (some n))
    (hb : Filter.applyStatic env.regex o (.uint64 (UInt64.ofNat n)) v = .ok b) :
    applyPostFilter env parent fold f c = .ok (if c.active.isNone || b then some c else none) := by
  simp only [applyPostFilter, hslot, applyFilter, hop, hr, harg, hrx, bind, R.bind, pure, filterMapR,
    Ctx.pushValue, Ctx.popValue, hb, R.ofOutcome]
  obtain ⟨a, vs, vals, s, fc, fv, it⟩ := c
  cases a <;> cases b <;> simp

/-- `apply_fold_specific_filter` for `count <op> $var` on a context whose fold does not exist
(the slot holds `None`; such a context has no active vertex): the placeholder `Null` is pushed and
popped again, the operator is not evaluated, the context passes. -/
theorem applyPostFilter_var_nonexistent (env : Env) (parent : Component) (fold : Fold) (f : IRFilter)
    (c : Ctx) (o : Filter.BinOp) (name : Name) (ty : QTy) (v : Value)
    (hop : f.op = .bin o) (hr : f.right = some (.var name ty)) (hrx : isRegexOp o = false)
    (harg : env.arg name = .ok v) (hslot : c.foldCount? fold.eid = some none)
    (hact : c.active = none) :
    applyPostFilter env parent fold f c = .ok (some c) := by
  simp only [applyPostFilter, hslot, applyFilter, hop, hr, harg, hrx, bind, R.bind, pure, filterMapR,
    Ctx.pushValue, Ctx.popValue, R.ofOutcome]
  obtain ⟨a, vs, vals, s, fc, fv, it⟩ := c
  simp only at hact
  subst hact
  simp

theorem filterMapR_singleton {α β : Type} (g : α → R (Option β)) (x : α) :
    filterMapR g [x] = (g x).map (fun o => o.toList) := by
  simp only [filterMapR]
  cases g x <;> simp
  rename_i o; cases o <;> rfl

theorem pop_push (c : Ctx) (v : Value) : (c.pushValue v).popValue = .ok (v, c) := rfl

theorem applyFilter_singleton {env : Env} {comp : Component} {vid : Vid} {f : IRFilter} {c : Ctx}
    {v : Value} {l : List Ctx} (h : applyFilter env comp vid f [c.pushValue v] = .ok l) :
    l = [] ∨ l = [c] := by
  unfold applyFilter at h
  split at h
  · rw [filterMapR_singleton] at h
    simp only [pop_push, R.bind_eq_bind, R.bind_ok, R.pure_eq_ok, R.map_ok] at h
    split at h <;> simp at h <;> simp [← h]
  · obtain ⟨right, _, h⟩ := R.bind_eq_ok' h
    obtain ⟨_, _, h⟩ := R.bind_eq_ok' h
    rw [filterMapR_singleton] at h
    simp only [pop_push, R.bind_eq_bind, R.bind_ok, R.pure_eq_ok] at h
    split at h
    · simp at h; simp [← h]
    · generalize R.ofOutcome _ (applyStatic _ _ _ _) = X at h
      cases X <;> simp at h
      split at h <;> simp at h <;> simp [← h]
  · rw [filterMapR_singleton] at h
    simp only [pop_push, R.bind_eq_bind, R.bind_ok, R.pure_eq_ok] at h
    generalize tagValue _ _ _ _ _ = T at h
    cases T <;> simp at h
    split at h
    · simp at h; simp [← h]
    · split at h
      · simp at h; simp [← h]
      · generalize R.ofOutcome _ (applyTagged _ _ _ _) = X at h
        cases X <;> simp at h
        split at h <;> simp at h <;> simp [← h]
  · simp at h

/-- A surviving context is returned unchanged (the pushed count is popped again). -/
theorem applyPostFilter_some {env : Env} {parent : Component} {fold : Fold} {f : IRFilter}
    {c c' : Ctx} (h : applyPostFilter env parent fold f c = .ok (some c')) : c' = c := by
  unfold applyPostFilter at h
  split at h
  · obtain ⟨l, hl, h⟩ := R.bind_eq_ok' h
    rcases applyFilter_singleton hl with rfl | rfl <;> simp at h
    exact h.symm
  · obtain ⟨l, hl, h⟩ := R.bind_eq_ok' h
    rcases applyFilter_singleton hl with rfl | rfl <;> simp at h
    exact h.symm
  · simp at h

/-! ### verdict of `count <op> $var` for integer-kinded arguments -/

section verdicts
variable (rx : RegexEngine) (n : Nat) (hn : n < 2 ^ 64) (v : Value) (x : Int)
  (hv : v.numVal = some x)
include hn hv

theorem static_equals :
    applyStatic rx .equals (.uint64 (UInt64.ofNat n)) v = .ok (decide ((n : Int) = x)) := by
  simp only [applyStatic, equalsOp]; rw [C07.eq_int _ _ _ _ (numVal_count n hn) hv]

theorem static_lt :
    applyStatic rx .lessThan (.uint64 (UInt64.ofNat n)) v = .ok (decide ((n : Int) < x)) :=
  C07.lt_int _ _ _ _ (numVal_count n hn) hv

theorem static_le :
    applyStatic rx .lessThanOrEqual (.uint64 (UInt64.ofNat n)) v = .ok (decide ((n : Int) ≤ x)) :=
  C07.le_int _ _ _ _ (numVal_count n hn) hv

theorem static_gt :
    applyStatic rx .greaterThan (.uint64 (UInt64.ofNat n)) v = .ok (decide ((n : Int) > x)) :=
  C07.gt_int _ _ _ _ (numVal_count n hn) hv

theorem static_ge :
    applyStatic rx .greaterThanOrEqual (.uint64 (UInt64.ofNat n)) v = .ok (decide ((n : Int) ≥ x)) :=
  C07.ge_int _ _ _ _ (numVal_count n hn) hv

end verdicts

/-- every element of a `one_of` list whose maximum was computed is integer-kinded and bounded by
the maximum (after clamping at 0) -/
theorem listMaxR_bound {vs : List Value} {r : Option Nat} (h : listMaxR vs = .ok r) :
    ∀ v ∈ vs, ∃ x : Int, v.numVal = some x ∧ ∃ m, r = some m ∧ x.toNat ≤ m := by
  induction vs generalizing r with
  | nil => simp
  | cons w ws ih =>
    simp only [listMaxR, R.bind_eq_bind] at h
    obtain ⟨k, hk, h⟩ := R.bind_eq_ok h
    obtain ⟨r', hr', h⟩ := R.bind_eq_ok h
    obtain ⟨x, hx, hkx⟩ := usizeExpect_ok hk
    intro v hvmem
    rcases List.mem_cons.mp hvmem with rfl | hmem
    · refine ⟨x, hx, ?_⟩
      cases r' <;> simp at h <;> subst h
      · exact ⟨k, rfl, by omega⟩
      · exact ⟨_, rfl, by omega⟩
    · obtain ⟨y, hy, m', hm', hle⟩ := ih hr' v hmem
      subst hm'
      simp at h; subst h
      exact ⟨y, hy, _, rfl, by omega⟩

theorem static_oneOf_above_max (rx : RegexEngine) (n : Nat) (hn : n < 2 ^ 64) (vs : List Value)
    (m : Nat) (hmax : listMaxR vs = .ok (some m)) (hlt : m < n) :
    applyStatic rx .oneOf (.uint64 (UInt64.ofNat n)) (.list vs) = .ok false := by
  simp only [applyStatic, C07.one_of_list]
  congr 1
  rw [List.any_eq_false]
  intro v hvmem
  obtain ⟨x, hx, m', hm', hle⟩ := listMaxR_bound hmax v hvmem
  cases hm'
  rw [← C07.equals_eq_value_eq, C07.eq_int _ _ _ _ (numVal_count n hn) hx]
  simp; omega

/-! ### (a) the max limit -/

theorem maxLimitOf_inv {env : Env} {f : IRFilter} {m : Nat} (h : maxLimitOf env f = .ok (some m)) :
    ∃ name ty, f.right = some (.var name ty) ∧ ∃ v, env.arg name = .ok v ∧
      ((f.op = .bin .equals ∧ usizeExpect v = .ok m) ∨
       (f.op = .bin .lessThanOrEqual ∧ usizeExpect v = .ok m) ∨
       (f.op = .bin .lessThan ∧ ∃ k, usizeExpect v = .ok k ∧ m = k - 1) ∨
       (f.op = .bin .oneOf ∧ ∃ vs, v = .list vs ∧ listMaxR vs = .ok (some m))) := by
  unfold maxLimitOf at h
  split at h
  · rename_i name ty _ hop hr
    obtain ⟨v, hv, h⟩ := R.bind_eq_ok' h
    obtain ⟨k, hk, h⟩ := R.bind_eq_ok' h
    simp at h; subst h
    exact ⟨name, ty, hr, v, hv, .inl ⟨hop, hk⟩⟩
  · rename_i name ty _ hop hr
    obtain ⟨v, hv, h⟩ := R.bind_eq_ok' h
    obtain ⟨k, hk, h⟩ := R.bind_eq_ok' h
    simp at h; subst h
    exact ⟨name, ty, hr, v, hv, .inr (.inl ⟨hop, hk⟩)⟩
  · rename_i name ty _ hop hr
    obtain ⟨v, hv, h⟩ := R.bind_eq_ok' h
    obtain ⟨k, hk, h⟩ := R.bind_eq_ok' h
    simp at h; subst h
    exact ⟨name, ty, hr, v, hv, .inr (.inr (.inl ⟨hop, k, hk, rfl⟩))⟩
  · rename_i name ty _ hop hr
    obtain ⟨v, hv, h⟩ := R.bind_eq_ok' h
    split at h
    · exact ⟨name, ty, hr, _, hv, .inr (.inr (.inr ⟨hop, _, rfl, h⟩))⟩
    · simp at h
  · simp at h

/-- The post-filter a max limit was computed from rejects every count above the limit. -/
theorem maxLimit_filter_fails (env : Env) (parent : Component) (fold : Fold) (f : IRFilter)
    (c : Ctx) (n m : Nat) (hmax : maxLimitOf env f = .ok (some m)) (hlt : m < n) (hn : n < 2 ^ 64)
    (hslot : c.foldCount? fold.eid = some (some n)) (hact : c.active.isSome = true) :
    applyPostFilter env parent fold f c = .ok none := by
  obtain ⟨name, ty, hr, v, harg, hcase⟩ := maxLimitOf_inv hmax
  have hnone : c.active.isNone = false := by cases hc : c.active <;> simp_all
  rcases hcase with ⟨hop, hk⟩ | ⟨hop, hk⟩ | ⟨hop, k, hk, rfl⟩ | ⟨hop, vs, rfl, hmaxl⟩
  · obtain ⟨x, hx, rfl⟩ := usizeExpect_ok hk
    rw [applyPostFilter_var env parent fold f c _ name ty v n _ hop hr rfl harg hslot
      (static_equals env.regex n hn v x hx)]
    have : ¬ (n : Int) = x := by omega
    simp [hnone, this]
  · obtain ⟨x, hx, rfl⟩ := usizeExpect_ok hk
    rw [applyPostFilter_var env parent fold f c _ name ty v n _ hop hr rfl harg hslot
      (static_le env.regex n hn v x hx)]
    have : ¬ (n : Int) ≤ x := by omega
    simp [hnone, this]
  · obtain ⟨x, hx, rfl⟩ := usizeExpect_ok hk
    rw [applyPostFilter_var env parent fold f c _ name ty v n _ hop hr rfl harg hslot
      (static_lt env.regex n hn v x hx)]
    have : ¬ (n : Int) < x := by omega
    simp [hnone, this]
  · rw [applyPostFilter_var env parent fold f c _ name ty _ n _ hop hr rfl harg hslot
      (static_oneOf_above_max env.regex n hn vs m hmaxl hlt)]
    simp [hnone]

/-- The tightest limit is the initial one or the contribution of one of the filters. -/
theorem maxFoldLimit_source {env : Env} {fs : List IRFilter} {acc : Option Nat} {m : Nat}
    (h : maxFoldLimit env fs acc = .ok (some m)) :
    acc = some m ∨ ∃ f ∈ fs, maxLimitOf env f = .ok (some m) := by
  induction fs generalizing acc with
  | nil => simp [maxFoldLimit] at h; exact .inl h
  | cons f fs ih =>
    simp only [maxFoldLimit, R.bind_eq_bind] at h
    obtain ⟨next, hnext, h⟩ := R.bind_eq_ok h
    rcases ih h with hacc | ⟨g, hg, hgm⟩
    · cases acc with
      | none => simp at hacc; subst hacc; exact .inr ⟨f, by simp, hnext⟩
      | some l =>
        cases next with
        | none => simp at hacc; exact .inl (by simp [hacc])
        | some r =>
          simp at hacc
          split at hacc
          · simp at hacc; subst hacc; exact .inr ⟨f, by simp, hnext⟩
          · simp at hacc; exact .inl (by simp [hacc])
    · exact .inr ⟨g, by simp [hg], hgm⟩

/-- If one of the post-filters rejects the context and none panics, the context is rejected. -/
theorem applyPostFilters_none_of_mem {env : Env} {parent : Component} {fold : Fold}
    {fs : List IRFilter} {c : Ctx} {f : IRFilter} (hf : f ∈ fs)
    (hfail : applyPostFilter env parent fold f c = .ok none) {r : Option Ctx}
    (hr : applyPostFilters env parent fold fs c = .ok r) : r = none := by
  induction fs with
  | nil => simp at hf
  | cons g gs ih =>
    simp only [applyPostFilters, R.bind_eq_bind] at hr
    obtain ⟨o, ho, hr2⟩ := R.bind_eq_ok hr
    cases o with
    | none => simp at hr2; exact hr2.symm
    | some c' =>
      have hc' := applyPostFilter_some ho
      subst hc'
      rcases List.mem_cons.mp hf with rfl | hmem
      · rw [hfail] at ho; simp at ho
      · exact ih hmem hr2

/-- **(a)** `get_max_fold_count_limit` is sound: when the post-filters impose the limit `m`, the
fold exists for the context (`active` is the fold's source vertex), `n > m` elements were
computed (`n < 2^64`: `elements.len() as u64` is exact on 64-bit targets) and the post-filters do
not panic on the context with count `n`, then the post-filters reject it — dropping the context
early in `collect_fold_elements` is exactly what they would have done.  Covers `=`, `<=`, `<`
(`saturating_sub(1)`), `one_of` (maximum of the list) with arguments of either integer
representation; negative arguments clamp to the limit 0 and the filter is then false for every
count. -/
theorem max_limit_sound_list (env : Env) (parent : Component) (fold : Fold) (fs : List IRFilter)
    (c : Ctx) (n m : Nat)
    (hmax : maxFoldLimit env fs none = .ok (some m))
    (hslot : c.foldCount? fold.eid = some (some n)) (hact : c.active.isSome = true)
    (hlt : m < n) (hn : n < 2 ^ 64)
    (hnp : ∃ r, applyPostFilters env parent fold fs c = .ok r) :
    applyPostFilters env parent fold fs c = .ok none := by
  obtain ⟨r, hr⟩ := hnp
  rcases maxFoldLimit_source hmax with h | ⟨f, hf, hfm⟩
  · simp at h
  · have := applyPostFilters_none_of_mem hf
      (maxLimit_filter_fails env parent fold f c n m hfm hlt hn hslot hact) hr
    rw [hr, this]

/-! ### (b) the min limit -/

theorem minLimitOf_inv {env : Env} {f : IRFilter} {k : Nat} (h : minLimitOf env f = .ok (some k)) :
    ∃ name ty, f.right = some (.var name ty) ∧ ∃ v x, env.arg name = .ok v ∧ v.numVal = some x ∧
      ((f.op = .bin .greaterThanOrEqual ∧ k = x.toNat) ∨
       (f.op = .bin .greaterThan ∧ k = x.toNat + 1)) := by
  unfold minLimitOf at h
  split at h
  · rename_i name ty _ hop hr
    obtain ⟨v, hv, h⟩ := R.bind_eq_ok' h
    obtain ⟨k', hk, h⟩ := R.bind_eq_ok' h
    simp at h; subst h
    obtain ⟨x, hx, rfl⟩ := usizeExpect_ok hk
    exact ⟨name, ty, hr, v, x, hv, hx, .inl ⟨hop, rfl⟩⟩
  · rename_i name ty _ hop hr
    obtain ⟨v, hv, h⟩ := R.bind_eq_ok' h
    obtain ⟨k', hk, h⟩ := R.bind_eq_ok' h
    simp at h; subst h
    obtain ⟨x, hx, rfl⟩ := usizeExpect_ok hk
    exact ⟨name, ty, hr, v, x, hv, hx, .inr ⟨hop, rfl⟩⟩
  · simp at h

/-- The verdict of a post-filter that contributes `k` to the min limit is "the count is at least
`t`" for some threshold `t ≤ k` (`t = 0` for `count > negative`), on every context. -/
theorem minFilter_verdict (env : Env) (parent : Component) (fold : Fold) (f : IRFilter) (k : Nat)
    (h : minLimitOf env f = .ok (some k)) :
    ∃ t, t ≤ k ∧ ∀ (c : Ctx) (n : Nat), c.foldCount? fold.eid = some (some n) → n < 2 ^ 64 →
      applyPostFilter env parent fold f c =
        .ok (if c.active.isNone || decide (t ≤ n) then some c else none) := by
  obtain ⟨name, ty, hr, v, x, harg, hx, hcase⟩ := minLimitOf_inv h
  rcases hcase with ⟨hop, rfl⟩ | ⟨hop, rfl⟩
  · refine ⟨x.toNat, Nat.le_refl _, fun c n hslot hn => ?_⟩
    rw [applyPostFilter_var env parent fold f c _ name ty v n _ hop hr rfl harg hslot
      (static_ge env.regex n hn v x hx)]
    have : decide ((n : Int) ≥ x) = decide (x.toNat ≤ n) := decide_eq_decide.mpr (by omega)
    rw [this]
  · by_cases hneg : x < 0
    · refine ⟨0, Nat.zero_le _, fun c n hslot hn => ?_⟩
      rw [applyPostFilter_var env parent fold f c _ name ty v n _ hop hr rfl harg hslot
        (static_gt env.regex n hn v x hx)]
      have : decide ((n : Int) > x) = decide (0 ≤ n) := decide_eq_decide.mpr (by omega)
      rw [this]
    · refine ⟨x.toNat + 1, Nat.le_refl _, fun c n hslot hn => ?_⟩
      rw [applyPostFilter_var env parent fold f c _ name ty v n _ hop hr rfl harg hslot
        (static_gt env.regex n hn v x hx)]
      have : decide ((n : Int) > x) = decide (x.toNat + 1 ≤ n) := decide_eq_decide.mpr (by omega)
      rw [this]

/-- When `get_min_fold_count_limit` yields `k`: every post-filter contributes some `kf ≤ k`. -/
theorem minFoldLimit_mem {env : Env} {fs : List IRFilter} {acc : Option Nat} {k : Nat}
    (h : minFoldLimit env fs acc = .ok (some k)) :
    (∀ a, acc = some a → a ≤ k) ∧ ∀ f ∈ fs, ∃ kf, kf ≤ k ∧ minLimitOf env f = .ok (some kf) := by
  induction fs generalizing acc with
  | nil => simp [minFoldLimit] at h; subst h; simp
  | cons f fs ih =>
    simp only [minFoldLimit, R.bind_eq_bind] at h
    obtain ⟨o, ho, h⟩ := R.bind_eq_ok h
    cases o with
    | none => simp at h
    | some kf =>
      simp only at h
      obtain ⟨hacc, hmem⟩ := ih h
      have hkf : kf ≤ k ∧ ∀ a, acc = some a → a ≤ k := by
        cases acc with
        | none => exact ⟨hacc kf rfl, by simp⟩
        | some l =>
          simp only at hacc
          by_cases hl : l < kf
          · simp [hl] at hacc; exact ⟨hacc, by intro a ha; cases ha; omega⟩
          · simp [hl] at hacc; exact ⟨by omega, by intro a ha; cases ha; exact hacc⟩
      refine ⟨hkf.2, ?_⟩
      intro g hg
      rcases List.mem_cons.mp hg with rfl | hg
      · exact ⟨kf, hkf.1, ho⟩
      · exact hmem g hg

/-- The verdict of a whole list of min-limit post-filters is one threshold `t ≤ k`. -/
theorem minFilters_verdict (env : Env) (parent : Component) (fold : Fold) (fs : List IRFilter)
    (k : Nat) (h : ∀ f ∈ fs, ∃ kf, kf ≤ k ∧ minLimitOf env f = .ok (some kf)) :
    ∃ t, t ≤ k ∧ ∀ (c : Ctx) (n : Nat), c.foldCount? fold.eid = some (some n) → n < 2 ^ 64 →
      applyPostFilters env parent fold fs c =
        .ok (if c.active.isNone || decide (t ≤ n) then some c else none) := by
  induction fs with
  | nil => exact ⟨0, Nat.zero_le _, fun c n _ _ => by simp [applyPostFilters]⟩
  | cons f fs ih =>
    obtain ⟨kf, hkf, hf⟩ := h f (by simp)
    obtain ⟨t1, ht1, hv1⟩ := minFilter_verdict env parent fold f kf hf
    obtain ⟨t2, ht2, hv2⟩ := ih (fun g hg => h g (by simp [hg]))
    refine ⟨max t1 t2, by omega, fun c n hslot hn => ?_⟩
    simp only [applyPostFilters, R.bind_eq_bind, hv1 c n hslot hn]
    cases hc : c.active.isNone
    · by_cases h1 : t1 ≤ n
      · simp [h1, hv2 c n hslot hn, hc]
        by_cases h2 : t2 ≤ n
        · have : max t1 t2 ≤ n := by omega
          simp [h2, this]
        · have : ¬ max t1 t2 ≤ n := by omega
          simp [h2, this]
      · have : ¬ max t1 t2 ≤ n := by omega
        simp [h1, this]
    · simp [hv2 c n hslot hn, hc]

/-- `get_min_fold_count_limit = k`: the post-filters accept a context with count `n` iff its count
is at least some `t ≤ k` (or it has no active vertex). -/
theorem minFoldLimit_verdict (env : Env) (parent : Component) (fold : Fold) (fs : List IRFilter)
    (k : Nat) (h : minFoldLimit env fs none = .ok (some k)) :
    ∃ t, t ≤ k ∧ ∀ (c : Ctx) (n : Nat), c.foldCount? fold.eid = some (some n) → n < 2 ^ 64 →
      applyPostFilters env parent fold fs c =
        .ok (if c.active.isNone || decide (t ≤ n) then some c else none) :=
  minFilters_verdict env parent fold fs k (minFoldLimit_mem h).2

/-- … and they let a context pass whose fold does not exist (slot `None`, no active vertex): a
fold inside a missing `@optional` scope is not filtered by its count. -/
theorem minFilters_pass_nonexistent (env : Env) (parent : Component) (fold : Fold)
    (fs : List IRFilter) (k : Nat)
    (h : ∀ f ∈ fs, ∃ kf, kf ≤ k ∧ minLimitOf env f = .ok (some kf))
    (c : Ctx) (hslot : c.foldCount? fold.eid = some none) (hact : c.active = none) :
    applyPostFilters env parent fold fs c = .ok (some c) := by
  induction fs with
  | nil => rfl
  | cons f fs ih =>
    obtain ⟨kf, _, hf⟩ := h f (by simp)
    obtain ⟨name, ty, hr, v, x, harg, _, hcase⟩ := minLimitOf_inv hf
    have h1 : applyPostFilter env parent fold f c = .ok (some c) := by
      rcases hcase with ⟨hop, _⟩ | ⟨hop, _⟩
      · exact applyPostFilter_var_nonexistent env parent fold f c _ name ty v hop hr rfl harg hslot hact
      · exact applyPostFilter_var_nonexistent env parent fold f c _ name ty v hop hr rfl harg hslot hact
    simp only [applyPostFilters, R.bind_eq_bind, h1, R.bind_ok]
    exact ih (fun g hg => h g (by simp [hg]))

theorem minFoldLimit_pass_nonexistent (env : Env) (parent : Component) (fold : Fold)
    (fs : List IRFilter) (k : Nat) (h : minFoldLimit env fs none = .ok (some k))
    (c : Ctx) (hslot : c.foldCount? fold.eid = some none) (hact : c.active = none) :
    applyPostFilters env parent fold fs c = .ok (some c) :=
  minFilters_pass_nonexistent env parent fold fs k (minFoldLimit_mem h).2 c hslot hact

/-! ### evaluating the interpreter on concrete queries (for the witnesses)

`computeComponent` / `runStages` / `computeFold` / `foldOne` are compiled by well-founded recursion
and do not reduce in the kernel; these lemmas unfold them once, the closed side conditions are
then discharged by `rfl`. -/

theorem computeComponent_leaf (env : Env) (k : Nat) (comp : Component) (rootV : IRVertex)
    (ctxs : List Ctx) (hv : comp.vertex? comp.root = some rootV) (he : comp.edges = [])
    (hf : comp.folds = []) :
    computeComponent env (k + 1) comp ctxs = enterVertex env comp rootV ctxs := by
  rw [computeComponent, hv]
  simp only [he, hf, mergeStages, List.map_nil, R.bind_ok, runStages]
  cases enterVertex env comp rootV ctxs <;> rfl

theorem computeFold_single (env : Env) (k : Nat) (parent : Component) (fold : Fold) (c : Ctx)
    (fromV : IRVertex) (c1 c2 : Ctx) (lim : Option Nat × Option Nat) (ns : List VertexId)
    (elems : List Ctx) (r : Option Ctx)
    (hv : parent.vertex? fold.fromVid = some fromV)
    (h1 : importTags env parent fold.imports c = .ok c1)
    (h2 : c1.activate fold.fromVid = .ok c2)
    (h3 : foldLimits env parent fold = .ok lim)
    (h4 : env.adapter.nbrs fold.eid fromV.typeName fold.name fold.params c2.active = .ok ns)
    (h5 : computeComponent env k fold.component (foldStart c2 ns) = .ok elems)
    (h6 : foldFinish env parent fold lim c2 elems = .ok r) :
    computeFold env k parent fold [c] = .ok r.toList := by
  rw [computeFold, hv]
  simp only [mapR, h1, h2, h3, R.bind_ok, filterMapR_singleton]
  rw [foldOne, h4]
  simp only [R.bind_ok, h5, h6, R.map_ok]

end TF.Engine
