/-
C22: concrete evaluations of the model for the former witnesses of F-23 and F-29 (now regression
examples: both runs agree), for a query with an inconsistent count reference, and for a query in
which both shortcuts are active (non-vacuity).  `computeComponent`/`runStages`/`computeFold`/`foldOne` are compiled by well-founded
recursion and do not reduce by `decide`; they are unfolded with the lemmas below and the closed,
non-recursive parts are discharged by `rfl`.
-/
import TrustfallModel.Proofs.FoldLimitsTheorem

namespace TF.Engine
open TF Filter

theorem foldOne_eval (env : Env) (k : Nat) (parent : Component) (fold : Fold) (ft : Name)
    (lim : Option Nat × Option Nat) (c : Ctx) (ns : List VertexId) (elems : List Ctx) (r : Option Ctx)
    (h4 : env.adapter.nbrs fold.eid ft fold.name fold.params c.active = .ok ns)
    (h5 : computeComponent env k fold.component (foldStart c ns) = .ok elems)
    (h6 : foldFinish env parent fold lim c elems = .ok r) :
    foldOne env k parent fold ft lim c = .ok r := by
  rw [foldOne, h4]
  simp only [R.bind_ok, h5, h6]

theorem computeFold_eval (env : Env) (k : Nat) (parent : Component) (fold : Fold) (ctxs : List Ctx)
    (fromV : IRVertex) (l1 l2 : List Ctx) (lim : Option Nat × Option Nat) (outs : List Ctx)
    (hv : parent.vertex? fold.fromVid = some fromV)
    (h1 : mapR (importTags env parent fold.imports) ctxs = .ok l1)
    (h2 : mapR (fun c => c.activate fold.fromVid) l1 = .ok l2)
    (h3 : foldLimits env parent fold = .ok lim)
    (h4 : filterMapR (fun c => foldOne env k parent fold fromV.typeName lim c) l2 = .ok outs) :
    computeFold env k parent fold ctxs = .ok outs := by
  rw [computeFold, hv]
  simp only [h1, h2, h3, R.bind_ok, h4]

/-- a component with exactly one fold and no edges -/
theorem computeComponent_oneFold (env : Env) (k : Nat) (comp : Component) (rootV : IRVertex)
    (g : Fold) (ctxs l1 outs : List Ctx) (hv : comp.vertex? comp.root = some rootV)
    (he : comp.edges = []) (hf : comp.folds = [g])
    (h1 : enterVertex env comp rootV ctxs = .ok l1)
    (hvis : checkVisited [comp.root] g.fromVid g.toVid = .ok [g.toVid, comp.root])
    (h2 : computeFold env k comp g l1 = .ok outs) :
    computeComponent env (k + 1) comp ctxs = .ok outs := by
  rw [computeComponent, hv]
  simp only [he, hf, mergeStages, List.map, R.bind_ok, h1]
  rw [runStages, hvis, R.bind_ok, h2, R.bind_ok, runStages]

/-! ### the world of the witnesses: vertex 4 has the divisors 1, 2 and the multiples 4, 8;
vertex 2 has the multiples 4, 6; every property is the vertex number -/

def wInt : QTy := ⟨"Int", [true]⟩

def wAdapter : Adapter where
  start := fun _ _ _ => .ok [4]
  prop := fun _ _ _ v => .ok (match v with | some x => .int64 (Int64.ofNat x) | none => .null)
  nbrs := fun _ _ edge _ v => .ok (if edge == "divisor" then (if v == some 4 then [1, 2] else [])
                                    else (if v == some 4 then [4, 8] else if v == some 2 then [4, 6] else []))
  coerce := fun _ _ _ _ => .ok true

/-- arguments `one = 1`; `lim`: the engine as it is (`true`) or the reference semantics -/
def wEnv (lim : Bool) : Env :=
  { adapter := wAdapter, args := [("one", .int64 1)], regex := fun _ => none, useLimits := lim }

theorem wEnv_noLimits : (wEnv true).noLimits = wEnv false := rfl

def wV (vid : Vid) : IRVertex := ⟨vid, "Number", none, []⟩
def wGe1 : IRFilter := ⟨.bin .greaterThanOrEqual, .count, some (.var "one" ⟨"Int", [false]⟩)⟩

/-! #### the former witness of F-23: `{ Four { value @output divisor @fold @transform(op:"count")
@filter(op:">=", value:["$one"]) @tag(name:"c") multiple @fold @transform(op:"count")
@output(name:"m") @filter(op:"=", value:["%c"]) } }`.  `has_tag_on_fold_count` now sees the tag in
the sibling fold's post-filter: the first fold is not truncated, both runs agree. -/

def wF1 : Fold := .mk 1 1 2 "divisor" [] (.mk 2 [wV 2] [] [] []) [] [] [wGe1]
/-- the second fold; `rv` = the `fold_root_vid` recorded in its reference to the first fold's count
(the frontend records the first fold's root, 2) -/
def tF2 (rv : Vid) : Fold := .mk 2 1 3 "multiple" [] (.mk 3 [wV 3] [] [] []) [] ["m"]
  [⟨.bin .equals, .count, some (.tag (.fcount 1 rv))⟩]
def tRoot (rv : Vid) : Component := .mk 1 [wV 1] [] [wF1, tF2 rv] [⟨"value", 1, "value", wInt⟩]
def tIR (rv : Vid) : IRQuery :=
  { rootName := "Four", rootParams := [], variables := [("one", ⟨"Int", [false]⟩)], rootComponent := tRoot rv }

def wF2 : Fold := tF2 2
def wRoot : Component := tRoot 2
def wIR : IRQuery := tIR 2

def wC1 : Ctx := { Ctx.new (some 4) with vertices := [(1, some 4)] }
def wElems (a b : Nat) (vid : Vid) : List Ctx :=
  [{ Ctx.new (some a) with vertices := [(vid, some a)] }, { Ctx.new (some b) with vertices := [(vid, some b)] }]

/-- the engine's eligibility test rejects the first fold: its count is observed by the sibling -/
theorem wLimits : foldLimits (wEnv true) wRoot wF1 = .ok (none, none) := rfl

/-- the first fold for the one context: 2 divisors, with and without the limits -/
theorem wFold1 (lim : Bool) :
    computeFold (wEnv lim) 63 wRoot wF1 [wC1] = .ok [{ wC1 with foldCounts := [(1, some 2)] }] := by
  cases lim
  · exact computeFold_single (wEnv false) 63 wRoot wF1 wC1 (wV 1) wC1 wC1 (none, none) [1, 2] (wElems 1 2 2) _
      rfl rfl rfl rfl rfl (by rw [computeComponent_leaf _ _ _ (wV 2) _ rfl rfl rfl]; rfl) rfl
  · exact computeFold_single (wEnv true) 63 wRoot wF1 wC1 (wV 1) wC1 wC1 (none, none) [1, 2] (wElems 1 2 2) _
      rfl rfl rfl rfl rfl (by rw [computeComponent_leaf _ _ _ (wV 2) _ rfl rfl rfl]; rfl) rfl

def wC3 : Ctx := { wC1 with foldCounts := [(1, some 2), (2, some 2)],
                            foldedValues := [((2, "m"), some (.uint64 2))] }

/-- the second fold sees the real count 2 in the first fold's slot: `2 = 2` holds -/
theorem wFold2 (lim : Bool) :
    computeFold (wEnv lim) 63 wRoot wF2 [{ wC1 with foldCounts := [(1, some 2)] }] = .ok [wC3] := by
  cases lim
  · exact computeFold_single (wEnv false) 63 wRoot wF2 _ (wV 1) _ _ (none, none) [4, 8] (wElems 4 8 3) (some wC3)
      rfl rfl rfl rfl rfl (by rw [computeComponent_leaf _ _ _ (wV 3) _ rfl rfl rfl]; rfl) rfl
  · exact computeFold_single (wEnv true) 63 wRoot wF2 _ (wV 1) _ _ (none, none) [4, 8] (wElems 4 8 3) (some wC3)
      rfl rfl rfl rfl rfl (by rw [computeComponent_leaf _ _ _ (wV 3) _ rfl rfl rfl]; rfl) rfl

theorem wRun (lim : Bool) :
    interpret (wEnv lim) wIR = .ok [[("m", .uint64 2), ("value", .int64 4)]] := by
  have h : computeComponent (wEnv lim) 64 wRoot [Ctx.new (some 4)] = .ok [wC3] := by
    rw [computeComponent]
    show ((enterVertex (wEnv lim) wRoot (wV 1) [Ctx.new (some 4)]).bind fun ctxs1 =>
      (mergeStages [] [wF1, wF2] 2).bind fun stages => runStages (wEnv lim) 63 wRoot stages [1] ctxs1) = _
    rw [show enterVertex (wEnv lim) wRoot (wV 1) [Ctx.new (some 4)] = .ok [wC1] from by cases lim <;> rfl]
    simp only [mergeStages, List.map, R.bind_ok]
    rw [runStages, show checkVisited [1] wF1.fromVid wF1.toVid = .ok [2, 1] from rfl, R.bind_ok, wFold1 lim,
      R.bind_ok, runStages, show checkVisited [2, 1] wF2.fromVid wF2.toVid = .ok [3, 2, 1] from rfl, R.bind_ok]
    rw [wFold2 lim, R.bind_ok, runStages]
  show (interpretFrom (wEnv lim) wIR [4]) = _
  unfold interpretFrom
  show (computeComponent (wEnv lim) 64 wRoot [Ctx.new (some 4)]).bind _ = _
  rw [h]; cases lim <;> rfl

/-! #### the same query with an INCONSISTENT count reference (`fold_root_vid` 99 instead of 2 — not
an IR the frontend builds): `has_tag_on_fold_count` compares Eid *and* root, the lookup of the count
goes by the Eid alone, so the first fold is truncated although its count is read.  This is why the
global theorem asks for consistent references (`countRefsWFC`). -/

def xF2 : Fold := tF2 99
def xRoot : Component := tRoot 99
def xIR : IRQuery := tIR 99

/-- the first fold for the one context: 2 divisors; the slot holds `min 2 1` with the limits -/
theorem xFold1 (lim : Bool) :
    computeFold (wEnv lim) 63 xRoot wF1 [wC1] =
      .ok [{ wC1 with foldCounts := [(1, some (if lim then 1 else 2))] }] := by
  cases lim
  · exact computeFold_single (wEnv false) 63 xRoot wF1 wC1 (wV 1) wC1 wC1 (none, none) [1, 2] (wElems 1 2 2) _
      rfl rfl rfl rfl rfl (by rw [computeComponent_leaf _ _ _ (wV 2) _ rfl rfl rfl]; rfl) rfl
  · exact computeFold_single (wEnv true) 63 xRoot wF1 wC1 (wV 1) wC1 wC1 (none, some 1) [1, 2] (wElems 1 2 2) _
      rfl rfl rfl rfl rfl (by rw [computeComponent_leaf _ _ _ (wV 2) _ rfl rfl rfl]; rfl) rfl

/-- the second fold sees the truncated count 1 in the first fold's slot: `2 = 1` fails -/
theorem xFold2_lim :
    computeFold (wEnv true) 63 xRoot xF2 [{ wC1 with foldCounts := [(1, some 1)] }] = .ok [] :=
  computeFold_single (wEnv true) 63 xRoot xF2 _ (wV 1) _ _ (none, none) [4, 8] (wElems 4 8 3) none
      rfl rfl rfl rfl rfl (by rw [computeComponent_leaf _ _ _ (wV 3) _ rfl rfl rfl]; rfl) rfl

theorem xFold2_nolim :
    computeFold (wEnv false) 63 xRoot xF2 [{ wC1 with foldCounts := [(1, some 2)] }] = .ok [wC3] :=
  computeFold_single (wEnv false) 63 xRoot xF2 _ (wV 1) _ _ (none, none) [4, 8] (wElems 4 8 3) (some wC3)
      rfl rfl rfl rfl rfl (by rw [computeComponent_leaf _ _ _ (wV 3) _ rfl rfl rfl]; rfl) rfl

theorem xRun_lim : interpret (wEnv true) xIR = .ok [] := by
  have h : computeComponent (wEnv true) 64 xRoot [Ctx.new (some 4)] = .ok [] := by
    rw [computeComponent]
    show ((enterVertex (wEnv true) xRoot (wV 1) [Ctx.new (some 4)]).bind fun ctxs1 =>
      (mergeStages [] [wF1, xF2] 2).bind fun stages => runStages (wEnv true) 63 xRoot stages [1] ctxs1) = _
    rw [show enterVertex (wEnv true) xRoot (wV 1) [Ctx.new (some 4)] = .ok [wC1] from rfl]
    simp only [mergeStages, List.map, R.bind_ok]
    rw [runStages, show checkVisited [1] wF1.fromVid wF1.toVid = .ok [2, 1] from rfl, R.bind_ok, xFold1 true,
      R.bind_ok, runStages, show checkVisited [2, 1] xF2.fromVid xF2.toVid = .ok [3, 2, 1] from rfl, R.bind_ok]
    simp only [if_true]
    rw [xFold2_lim, R.bind_ok, runStages]
  show (interpretFrom (wEnv true) xIR [4]) = _
  unfold interpretFrom
  show (computeComponent (wEnv true) 64 xRoot [Ctx.new (some 4)]).bind _ = _
  rw [h]; rfl

theorem xRun_nolim : interpret (wEnv false) xIR = .ok [[("m", .uint64 2), ("value", .int64 4)]] := by
  have h : computeComponent (wEnv false) 64 xRoot [Ctx.new (some 4)] = .ok [wC3] := by
    rw [computeComponent]
    show ((enterVertex (wEnv false) xRoot (wV 1) [Ctx.new (some 4)]).bind fun ctxs1 =>
      (mergeStages [] [wF1, xF2] 2).bind fun stages => runStages (wEnv false) 63 xRoot stages [1] ctxs1) = _
    rw [show enterVertex (wEnv false) xRoot (wV 1) [Ctx.new (some 4)] = .ok [wC1] from rfl]
    simp only [mergeStages, List.map, R.bind_ok]
    rw [runStages, show checkVisited [1] wF1.fromVid wF1.toVid = .ok [2, 1] from rfl, R.bind_ok, xFold1 false,
      R.bind_ok, runStages, show checkVisited [2, 1] xF2.fromVid xF2.toVid = .ok [3, 2, 1] from rfl, R.bind_ok]
    simp only [Bool.false_eq_true, if_false]
    rw [xFold2_nolim, R.bind_ok, runStages]
  show (interpretFrom (wEnv false) xIR [4]) = _
  unfold interpretFrom
  show (computeComponent (wEnv false) 64 xRoot [Ctx.new (some 4)]).bind _ = _
  rw [h]; rfl

/-! #### the former witness of F-29: `{ Four { value @output divisor @fold @transform(op:"count")
@filter(op:">=", value:["$one"]) { multiple @fold { value @output(name:"inner") } } } }`.
`component_has_outputs` now looks into the nested fold: the outer fold is not truncated. -/

def nComp3 : Component := .mk 3 [wV 3] [] [] [⟨"inner", 3, "value", wInt⟩]
def nF2 : Fold := .mk 2 2 3 "multiple" [] nComp3 [] [] []
def nComp2 : Component := .mk 2 [wV 2] [] [nF2] []
def nF1 : Fold := .mk 1 1 2 "divisor" [] nComp2 [] [] [wGe1]
def nRoot : Component := .mk 1 [wV 1] [] [nF1] [⟨"value", 1, "value", wInt⟩]
def nIR : IRQuery :=
  { rootName := "Four", rootParams := [], variables := [("one", ⟨"Int", [false]⟩)], rootComponent := nRoot }

theorem nLimits : foldLimits (wEnv true) nRoot nF1 = .ok (none, none) := rfl

/-- element `i` of the outer fold before / after its nested fold -/
def nD (i : Nat) : Ctx := { Ctx.new (some i) with vertices := [(2, some i)] }
def nD' (i n : Nat) (inner : List Value) : Ctx :=
  { nD i with foldCounts := [(2, some n)], foldedValues := [((2, "inner"), some (.list inner))] }

theorem nLeaf (lim : Bool) (c : Ctx) (ns : List VertexId) :
    computeComponent (wEnv lim) 62 nComp3 (foldStart c ns) =
      enterVertex (wEnv lim) nComp3 (wV 3) (foldStart c ns) :=
  computeComponent_leaf _ 61 nComp3 (wV 3) _ rfl rfl rfl

/-- the nested fold over the two elements of the outer fold: 1 has no multiples, 2 has 4 and 6 -/
theorem nInner (lim : Bool) :
    computeComponent (wEnv lim) 63 nComp2 (foldStart wC1 [1, 2]) =
      .ok [nD' 1 0 [], nD' 2 2 [.int64 4, .int64 6]] := by
  refine computeComponent_oneFold (wEnv lim) 62 nComp2 (wV 2) nF2 _ [nD 1, nD 2] _ rfl rfl rfl rfl rfl ?_
  refine computeFold_eval (wEnv lim) 62 nComp2 nF2 _ (wV 2) [nD 1, nD 2] [nD 1, nD 2] (none, none) _
    rfl rfl rfl (by cases lim <;> rfl) ?_
  have e1 : foldOne (wEnv lim) 62 nComp2 nF2 "Number" (none, none) (nD 1) = .ok (some (nD' 1 0 [])) :=
    foldOne_eval _ _ _ _ _ _ _ [] [] _ rfl (by show computeComponent (wEnv lim) 62 nComp3 _ = _; rw [nLeaf]; cases lim <;> rfl) (by cases lim <;> rfl)
  have e2 : foldOne (wEnv lim) 62 nComp2 nF2 "Number" (none, none) (nD 2) =
      .ok (some (nD' 2 2 [.int64 4, .int64 6])) :=
    foldOne_eval _ _ _ _ _ _ _ [4, 6] (wElems 4 6 3) _ rfl (by show computeComponent (wEnv lim) 62 nComp3 _ = _; rw [nLeaf]; cases lim <;> rfl) (by cases lim <;> rfl)
  show filterMapR (fun c => foldOne (wEnv lim) 62 nComp2 nF2 "Number" (none, none) c) [nD 1, nD 2] = _
  simp only [filterMapR, e1, e2]

def nOut (lists : List Value) (n : Nat) : Ctx :=
  { wC1 with foldCounts := [(1, some n)], foldedValues := [((2, "inner"), some (.list lists))] }

/-- the outer fold keeps both elements — and both nested lists — with and without the limits -/
theorem nOuter (lim : Bool) :
    computeFold (wEnv lim) 63 nRoot nF1 [wC1] =
      .ok [nOut [.list [], .list [.int64 4, .int64 6]] 2] := by
  cases lim
  · exact computeFold_single (wEnv false) 63 nRoot nF1 wC1 (wV 1) wC1 wC1 (none, none) [1, 2] _ _
      rfl rfl rfl rfl rfl (nInner false) rfl
  · exact computeFold_single (wEnv true) 63 nRoot nF1 wC1 (wV 1) wC1 wC1 (none, none) [1, 2] _ _
      rfl rfl rfl rfl rfl (nInner true) rfl

theorem nRun (lim : Bool) :
    interpret (wEnv lim) nIR =
      .ok [[("inner", .list [.list [], .list [.int64 4, .int64 6]]), ("value", .int64 4)]] := by
  have h := computeComponent_oneFold (wEnv lim) 63 nRoot (wV 1) nF1 [Ctx.new (some 4)] [wC1] _
    rfl rfl rfl rfl rfl (nOuter lim)
  show (interpretFrom (wEnv lim) nIR [4]) = _
  unfold interpretFrom
  show (computeComponent (wEnv lim) 64 nRoot [Ctx.new (some 4)]).bind _ = _
  rw [h]
  cases lim <;> rfl

/-! #### a query whose first fold *is* truncated: `{ Four { value @output divisor @fold
@transform(op:"count") @filter(op:">=", value:["$one"]) multiple @fold @transform(op:"count")
@output(name:"m") @filter(op:"<=", value:["$one"]) } }` (the second fold has two elements and is
dropped early by the max limit 1) -/

def gF2 : Fold := .mk 2 1 3 "multiple" [] (.mk 3 [wV 3] [] [] []) [] ["m"]
  [⟨.bin .lessThanOrEqual, .count, some (.var "one" ⟨"Int", [false]⟩)⟩]
def gF1 : Fold := .mk 1 1 2 "divisor" [] (.mk 2 [wV 2] [] [] []) [] [] [wGe1]
def gRoot : Component := .mk 1 [wV 1] [] [gF1, gF2] [⟨"value", 1, "value", wInt⟩]
def gIR : IRQuery :=
  { rootName := "Four", rootParams := [], variables := [("one", ⟨"Int", [false]⟩)], rootComponent := gRoot }

theorem mapR_length {α β : Type} {f : α → R β} {l : List α} {out : List β} (h : mapR f l = .ok out) :
    out.length = l.length := by
  induction l generalizing out with
  | nil => simp [mapR] at h; subst h; rfl
  | cons a as ih =>
    simp only [mapR] at h
    cases ha : f a with
    | ok b =>
      rw [ha] at h
      cases hr : mapR f as with
      | ok bs => rw [hr] at h; simp at h; subst h; simp [ih hr]
      | panic s => rw [hr] at h; simp at h
      | fuel => rw [hr] at h; simp at h
    | panic s => rw [ha] at h; simp at h
    | fuel => rw [ha] at h; simp at h

/-- a component that is a single vertex without coercion and filters keeps the number of contexts -/
theorem leaf_length (e : Env) (fuel : Nat) (vid : Vid) (l out : List Ctx)
    (h : computeComponent e fuel (.mk vid [wV vid] [] [] []) l = .ok out) : out.length = l.length := by
  cases fuel with
  | zero => simp [computeComponent] at h
  | succ k =>
    rw [computeComponent_leaf e k _ (wV vid) l (by simp [Component.vertex?, Component.vertices, Component.root, wV])
      rfl rfl] at h
    simp only [enterVertex, coerceIfNeeded, wV, applyLocalFilters, R.bind_ok] at h
    exact mapR_length h

theorem wAdapter_nbrs_small {eid : Eid} {t edge : Name} {ps : Params} {v : Option VertexId}
    {ns : List VertexId} (h : wAdapter.nbrs eid t edge ps v = .ok ns) : ns.length ≤ 2 := by
  simp only [wAdapter, R.ok.injEq] at h
  subst h
  repeat' split
  all_goals simp

theorem gFoldsOK : AllFoldsC (FoldOK (wEnv true)) gRoot := by
  refine ⟨⟨⟨_, rfl⟩, ?_⟩, trivial, ⟨⟨_, rfl⟩, ?_⟩, trivial, trivial⟩
  · intro fuel c ft ns elems hns hcomp
    have h1 := leaf_length _ fuel 2 _ _ hcomp
    have h2 := wAdapter_nbrs_small hns
    simp only [foldStart, List.length_map] at h1
    omega
  · intro fuel c ft ns elems hns hcomp
    have h1 := leaf_length _ fuel 3 _ _ hcomp
    have h2 := wAdapter_nbrs_small hns
    simp only [foldStart, List.length_map] at h1
    omega

theorem gGuard : countRefsWFC gRoot = true := by decide

theorem gTruncated : foldLimits (wEnv true) gRoot gF1 = .ok (none, some 1) ∧
    foldLimits (wEnv true) gRoot gF2 = .ok (some 1, none) := ⟨rfl, rfl⟩

/-- the former witnesses are well-formed queries (the theorem applies to them); the query with the
inconsistent reference is not -/
theorem wGuard : countRefsWFC wRoot = true ∧ countRefsWFC nRoot = true ∧ countRefsWFC xRoot = false := by
  decide

end TF.Engine
