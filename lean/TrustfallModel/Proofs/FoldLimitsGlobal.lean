/-
C22, part 4: the single-fold theorem `foldFinish_sim`, the `foldedValues` invariant for folds
without nested outputs, and the global simulation.
-/
import TrustfallModel.Proofs.FoldLimitsMain

namespace TF.Engine
open TF Filter

theorem keptElems_noLimits (a : Option VertexId) (computed : List Ctx) :
    keptElems a computed (none, none) = some (if a.isSome then some computed else none) := by
  cases a <;> rfl

theorem length_eq_of_map_eq {α β : Type} {f : α → β} {l l' : List α} (h : l.map f = l'.map f) :
    l.length = l'.length := by
  have := congrArg List.length h
  simpa using this

/-- **Single-fold theorem.**  For one context of a guarded component: what `compute_fold` makes of
it with the limits (`lim`, elements `computed'`) equals what it makes of it without them (elements
`computed`), up to the slots of the truncated folds (`norm`): the same verdict of the post-filters,
the same outputs. -/
theorem foldFinish_sim {env : Env} (hu : env.useLimits = true) {parent : Component} {g : Fold}
    (hgf : GuardFacts parent) (hg : g ∈ parent.folds)
    {lim : Option Nat × Option Nat} (hlim : foldLimits env parent g = .ok lim)
    {c c' : Ctx} (hc : c.norm (truncEids parent) false = c'.norm (truncEids parent) false)
    (hact : c.vertexAt? g.fromVid = some c.active)
    (T' : List Eid) {computed computed' : List Ctx}
    (hcomp : computed.map (Ctx.norm T' false) = computed'.map (Ctx.norm T' false))
    (hclear : g.minEligible parent = true → ∀ e ∈ computed, e.foldedValues = [])
    (hsmall : computed.length < 2 ^ 64)
    {r : Option Ctx} (h0 : foldFinish env.noLimits parent g (none, none) c computed = .ok r) :
    ∃ r', foldFinish env parent g lim c' computed' = .ok r' ∧
      r.map (Ctx.norm (truncEids parent) false) = r'.map (Ctx.norm (truncEids parent) false) := by
  have hv' : c'.vertexAt? g.fromVid = c.vertexAt? g.fromVid :=
    (congrArg (fun x : Ctx => x.vertexAt? g.fromVid) hc).symm
  have hact' : c'.active = c.active := (congrArg Ctx.active hc).symm
  have hlen : computed.length = computed'.length := length_eq_of_map_eq hcomp
  rw [foldFinish_eq, hact] at h0
  simp only [keptElems_noLimits] at h0
  rw [foldFinish_eq, hv', hact]
  simp only
  by_cases he : g.minEligible parent = true
  · -- the fold is truncated to `k` elements
    obtain ⟨k, rfl, hmin⟩ := foldLimits_eligible hu he hlim
    have hT := mem_truncEids_of_eligible hg he
    have he' := he
    simp only [Fold.minEligible, Bool.and_eq_true, Bool.not_eq_true', List.isEmpty_eq_false_iff,
      List.isEmpty_iff] at he'
    obtain ⟨⟨⟨⟨hne, _⟩, hcho⟩, hfo⟩, _⟩ := he'
    have hout : g.component.outputs = [] := (componentHasOutputs_false g.component hcho).1
    -- the slot of `g` is free in both contexts
    have hfree : c.foldCount? g.eid = none → c'.foldCount? g.eid = none := by
      intro hnone
      have h1 := norm_foldCount?_isSome (truncEids parent) false c g.eid
      have h2 := norm_foldCount?_isSome (truncEids parent) false c' g.eid
      rw [hc, h2, hnone] at h1
      cases hx : c'.foldCount? g.eid <;> simp_all
    cases ha : c.active with
    | none =>
      -- the fold does not exist for this context (missing `@optional` scope): no elements on
      -- either side, and the post-filters let the context pass
      rw [ha] at h0
      simp only [Option.isSome_none, Bool.false_eq_true, if_false] at h0
      simp only [keptElems, Option.isSome_none, Bool.false_eq_true, if_false]
      obtain ⟨hnone, c2, hc2, hslot, hact2, o, ho, hr⟩ := finishTail_ok h0
      simp only [Option.map_none] at hslot hc2
      have hnone' := hfree hnone
      have hc1 : ({ c with foldCounts := c.foldCounts ++ [(g.eid, none)] } : Ctx).norm
            (truncEids parent) false =
          ({ c' with foldCounts := c'.foldCounts ++ [(g.eid, none)] } : Ctx).norm
            (truncEids parent) false := by
        rw [norm_append_slot_none, norm_append_slot_none, hc]
      obtain ⟨c2', hc2', hn2⟩ := rel_of_comm (removeTags_norm (truncEids parent) false g.imports) hc1 hc2
      obtain ⟨f1, f2⟩ := removeTags_fields hc2'
      have hslot' : c2'.foldCount? g.eid = some none := by
        rw [foldCount?_of_foldCounts_eq f1, foldCount?_append_self _ hnone']
      have hact2' : c2'.active = none := by rw [f2]; show c'.active = none; rw [hact', ha]
      have hact2n : c2.active = none := by rw [hact2, ha]
      rw [applyPostFilters_noLimits,
        minFoldLimit_pass_nonexistent env parent g g.post k hmin c2 hslot hact2n] at ho
      simp only [R.ok.injEq] at ho
      subst ho
      obtain ⟨news, c4, hnews, h4, rfl⟩ := hr
      have hnil : foldOutputs env g none = .ok [] :=
        foldOutputs_nil env g none hfo hout (hgf.nested g hg he) (fun es hes => by cases hes)
      rw [foldOutputs_noLimits, hnil] at hnews
      simp only [R.ok.injEq] at hnews
      subst hnews
      obtain ⟨c4', h4', hn4⟩ := rel_of_comm (f := fun x => mergeFolded x [])
        (fun x => mergeFolded_norm (truncEids parent) x []) hn2 h4
      refine ⟨some c4', ?_, by simp [hn4]⟩
      simp only [finishTail, hnone', Option.isSome_none, Bool.false_eq_true, if_false,
        Option.map_none, hc2', R.bind_ok,
        minFoldLimit_pass_nonexistent env parent g g.post k hmin c2' hslot' hact2', hnil, h4']
    | some v =>
      rw [ha] at h0
      simp only [Option.isSome_some, if_true] at h0
      simp only [keptElems, Option.isSome_some, if_true, collectFoldElements, Option.map_some]
      obtain ⟨hnone, c2, hc2, hslot, hact2, o, ho, hr⟩ := finishTail_ok h0
      simp only [Option.map_some] at hslot hc2
      -- the context of the run with limits
      have hnone' := hfree hnone
      have hc1 : ({ c with foldCounts := c.foldCounts ++ [(g.eid, some computed.length)] } : Ctx).norm
            (truncEids parent) false =
          ({ c' with foldCounts := c'.foldCounts ++ [(g.eid, some (computed'.take k).length)] } : Ctx).norm
            (truncEids parent) false := by
        rw [norm_append_slot_mem hT, norm_append_slot_mem hT, hc]
      obtain ⟨c2', hc2', hn2⟩ := rel_of_comm (removeTags_norm (truncEids parent) false g.imports) hc1 hc2
      obtain ⟨f1, f2⟩ := removeTags_fields hc2'
      have hslot' : c2'.foldCount? g.eid = some (some (min computed.length k)) := by
        rw [foldCount?_of_foldCounts_eq f1, foldCount?_append_self _ hnone', List.length_take, hlen,
          Nat.min_comm]
      have hact2' : c2'.active = c2.active := by rw [f2, hact2, hact']
      obtain ⟨t, ht, hverdict⟩ := minFoldLimit_verdict env parent g g.post k hmin
      rw [applyPostFilters_noLimits, hverdict c2 computed.length hslot hsmall] at ho
      have ho' := hverdict c2' (min computed.length k) hslot' (by omega)
      have hdec : decide (t ≤ min computed.length k) = decide (t ≤ computed.length) :=
        decide_eq_decide.mpr (by omega)
      rw [hact2', hdec] at ho'
      have hfin : finishTail env parent g c' (some (computed'.take k)) =
          (applyPostFilters env parent g g.post c2').bind fun o =>
            match o with
            | some c3 => (foldOutputs env g (some (computed'.take k))).bind fun news =>
                (mergeFolded c3 news).bind fun c4 => .ok (some c4)
            | none => .ok none := by
        simp only [finishTail, hnone', Option.isSome_none, Bool.false_eq_true, if_false,
          Option.map_some, hc2', R.bind_ok]
        rfl
      rw [hfin, ho']
      simp only [R.ok.injEq] at ho
      cases hb : (c2.active.isNone || decide (t ≤ computed.length)) with
      | false =>
        rw [hb] at ho; simp only [Bool.false_eq_true, if_false] at ho
        subst ho
        simp only at hr; subst hr
        exact ⟨none, by simp, rfl⟩
      | true =>
        rw [hb] at ho; simp only [if_true] at ho
        subst ho
        obtain ⟨news, c4, hnews, h4, rfl⟩ := hr
        have hn0 : news = [] := by
          rw [foldOutputs_noLimits, foldOutputs_nil env g (some computed) hfo hout (hgf.nested g hg he)
            (fun es hes => by cases hes; exact hclear he)] at hnews
          simpa using hnews.symm
        subst hn0
        have hclear' : ∀ e ∈ computed'.take k, e.foldedValues = [] := fun e hmem =>
          clear_of_map_norm_eq hcomp (hclear he) e (List.mem_of_mem_take hmem)
        have hnews' := foldOutputs_nil env g (some (computed'.take k)) hfo hout (hgf.nested g hg he)
          (fun es hes => by cases hes; exact hclear')
        obtain ⟨c4', h4', hn4⟩ := rel_of_comm (f := fun x => mergeFolded x [])
          (fun x => mergeFolded_norm (truncEids parent) x []) hn2 h4
        refine ⟨some c4', ?_, by simp [hn4]⟩
        simp [hnews', h4']
  · -- no min limit: only the early drop of `collect_fold_elements` can differ
    have he' : g.minEligible parent = false := by simpa using he
    obtain ⟨hl2, hmax⟩ := foldLimits_not_eligible hu he' hlim
    have hT := not_mem_truncEids_of_not_eligible hg hgf.nodup he'
    -- the generic case: the same elements are kept
    have generic : ∀ elems elems' : Option (List Ctx),
        elems.map (List.map (Ctx.norm T' false)) = elems'.map (List.map (Ctx.norm T' false)) →
        finishTail env.noLimits parent g c elems = .ok r →
        ∃ r', finishTail env parent g c' elems' = .ok r' ∧
          r.map (Ctx.norm (truncEids parent) false) = r'.map (Ctx.norm (truncEids parent) false) := by
      intro elems elems' hel h
      have h1 := finishTail_norm (truncEids parent) T' env parent g c elems hT (hgf.post g hg)
      have h2 := finishTail_norm (truncEids parent) T' env parent g c' elems' hT (hgf.post g hg)
      rw [finishTail_noLimits] at h
      rw [hc, hel, h2, h] at h1
      cases hy : finishTail env parent g c' elems' with
      | ok r' => rw [hy] at h1; simp at h1; exact ⟨r', rfl, h1.symm⟩
      | panic s => rw [hy] at h1; simp at h1
      | fuel => rw [hy] at h1; simp at h1
    obtain ⟨maxL, minL⟩ := lim
    simp only at hl2 hmax
    subst hl2
    cases ha : c.active with
    | none =>
      rw [ha] at h0
      simp only [Option.isSome_none, Bool.false_eq_true, if_false] at h0
      simp only [keptElems, Option.isSome_none, Bool.false_eq_true, if_false]
      exact generic none none rfl h0
    | some v =>
      rw [ha] at h0
      simp only [Option.isSome_some, if_true] at h0
      simp only [keptElems, Option.isSome_some, if_true]
      cases maxL with
      | none =>
        simp only [collectFoldElements, Option.map_some]
        exact generic (some computed) (some computed') (by simp [hcomp]) h0
      | some m =>
        simp only [collectFoldElements]
        by_cases hgt : computed'.length > m
        · -- dropped early: the post-filters of the full run reject it as well (max_limit_sound)
          simp only [hgt, if_true, Option.map_none]
          obtain ⟨hnone, c2, hc2, hslot, hact2, o, ho, hr⟩ := finishTail_ok h0
          simp only [Option.map_some] at hslot
          have hrej := max_limit_sound_list env parent g g.post c2 computed.length m hmax hslot
            (by rw [hact2, ha]; rfl) (by omega) hsmall ⟨o, by rw [← applyPostFilters_noLimits]; exact ho⟩
          rw [applyPostFilters_noLimits, hrej] at ho
          simp only [R.ok.injEq] at ho
          subst ho
          simp only at hr
          subst hr
          exact ⟨none, rfl, rfl⟩
        · simp only [hgt, if_false, Option.map_some]
          exact generic (some computed) (some computed') (by simp [hcomp]) h0

/-! ### generic facts about the stage combinators -/

theorem mergeStages_folds {es : List IREdge} {fs : List Fold} {n : Nat} {st : List Stage}
    (h : mergeStages es fs n = .ok st) : ∀ g, Stage.fold g ∈ st → g ∈ fs := by
  induction n generalizing es fs st with
  | zero =>
    cases es with
    | nil => simp [mergeStages] at h; subst h; intro g hg; simpa using hg
    | cons e es =>
      cases fs with
      | nil => simp [mergeStages] at h; subst h; intro g hg; simp at hg
      | cons f fs => simp [mergeStages] at h
  | succ n ih =>
    cases es with
    | nil => simp [mergeStages] at h; subst h; intro g hg; simpa using hg
    | cons e es =>
      cases fs with
      | nil => simp [mergeStages] at h; subst h; intro g hg; simp at hg
      | cons f fs =>
        simp only [mergeStages] at h
        split at h
        · cases hr : mergeStages es (f :: fs) n with
          | ok st' =>
            rw [hr] at h; simp at h; subst h
            intro g hg
            simp only [List.mem_cons, reduceCtorEq, false_or] at hg
            exact ih hr g hg
          | panic s => rw [hr] at h; simp at h
          | fuel => rw [hr] at h; simp at h
        · split at h
          · cases hr : mergeStages (e :: es) fs n with
            | ok st' =>
              rw [hr] at h; simp at h; subst h
              intro g hg
              simp only [List.mem_cons, Stage.fold.injEq] at hg
              rcases hg with rfl | hg
              · simp
              · exact List.mem_cons_of_mem _ (ih hr g hg)
            | panic s => rw [hr] at h; simp at h
            | fuel => rw [hr] at h; simp at h
          · simp at h

theorem mapR_mem {α β : Type} {f : α → R β} {l : List α} {out : List β} (h : mapR f l = .ok out) :
    ∀ y ∈ out, ∃ x ∈ l, f x = .ok y := by
  induction l generalizing out with
  | nil => simp [mapR] at h; subst h; simp
  | cons a as ih =>
    simp only [mapR] at h
    cases ha : f a with
    | ok b =>
      rw [ha] at h
      cases hr : mapR f as with
      | ok bs =>
        rw [hr] at h; simp at h; subst h
        intro y hy
        rcases List.mem_cons.mp hy with rfl | hy
        · exact ⟨a, by simp, ha⟩
        · obtain ⟨x, hx, hfx⟩ := ih hr y hy
          exact ⟨x, by simp [hx], hfx⟩
      | panic s => rw [hr] at h; simp at h
      | fuel => rw [hr] at h; simp at h
    | panic s => rw [ha] at h; simp at h
    | fuel => rw [ha] at h; simp at h

theorem filterMapR_mem {α β : Type} {f : α → R (Option β)} {l : List α} {out : List β}
    (h : filterMapR f l = .ok out) : ∀ y ∈ out, ∃ x ∈ l, f x = .ok (some y) := by
  induction l generalizing out with
  | nil => simp [filterMapR] at h; subst h; simp
  | cons a as ih =>
    simp only [filterMapR] at h
    cases ha : f a with
    | ok b =>
      rw [ha] at h
      cases hr : filterMapR f as with
      | ok bs =>
        rw [hr] at h; simp at h; subst h
        intro y hy
        cases b with
        | none =>
          obtain ⟨x, hx, hfx⟩ := ih hr y hy
          exact ⟨x, by simp [hx], hfx⟩
        | some b' =>
          rcases List.mem_cons.mp hy with rfl | hy
          · exact ⟨a, by simp, ha⟩
          · obtain ⟨x, hx, hfx⟩ := ih hr y hy
            exact ⟨x, by simp [hx], hfx⟩
      | panic s => rw [hr] at h; simp at h
      | fuel => rw [hr] at h; simp at h
    | panic s => rw [ha] at h; simp at h
    | fuel => rw [ha] at h; simp at h

theorem filterMapR_rel {f f' : Ctx → R (Option Ctx)} {N : Ctx → Ctx} {l l' out : List Ctx}
    (hl : l.map N = l'.map N)
    (hp : ∀ c ∈ l, ∀ c', N c = N c' → ∀ r, f c = .ok r →
      ∃ r', f' c' = .ok r' ∧ r.map N = r'.map N)
    (h : filterMapR f l = .ok out) :
    ∃ out', filterMapR f' l' = .ok out' ∧ out.map N = out'.map N := by
  induction l generalizing l' out with
  | nil =>
    cases l' with
    | nil => simp [filterMapR] at h; subst h; exact ⟨[], rfl, rfl⟩
    | cons _ _ => simp at hl
  | cons a as ih =>
    cases l' with
    | nil => simp at hl
    | cons b bs =>
      simp only [List.map_cons, List.cons.injEq] at hl
      simp only [filterMapR] at h
      cases ha : f a with
      | ok y =>
        rw [ha] at h
        cases hr : filterMapR f as with
        | ok ys =>
          rw [hr] at h; simp at h; subst h
          obtain ⟨y', hy', hyy⟩ := hp a (by simp) b hl.1 y ha
          obtain ⟨ys', hys', hyys⟩ := ih hl.2 (fun c hc => hp c (by simp [hc])) hr
          refine ⟨_, by simp only [filterMapR, hy', hys']; rfl, ?_⟩
          cases y <;> cases y' <;> simp_all
        | panic s => rw [hr] at h; simp at h
        | fuel => rw [hr] at h; simp at h
      | panic s => rw [ha] at h; simp at h
      | fuel => rw [ha] at h; simp at h

/-- a commuting stage maps `norm`-equal inputs to `norm`-equal outputs -/
theorem Comm.rel {T : List Eid} {clr : Bool} {S : List Ctx → R (List Ctx)} (hS : Comm T clr S)
    {l l' out : List Ctx} (hl : l.map (Ctx.norm T clr) = l'.map (Ctx.norm T clr))
    (h : S l = .ok out) :
    ∃ out', S l' = .ok out' ∧ out.map (Ctx.norm T clr) = out'.map (Ctx.norm T clr) := by
  have h1 := hS l
  have h2 := hS l'
  rw [hl, h2, h] at h1
  cases hy : S l' with
  | ok y => rw [hy] at h1; simp at h1; exact ⟨y, rfl, h1.symm⟩
  | panic s => rw [hy] at h1; simp at h1
  | fuel => rw [hy] at h1; simp at h1

theorem activate_inv {c c' : Ctx} {vid : Vid} (h : c.activate vid = .ok c') :
    c'.vertexAt? vid = some c'.active := by
  unfold Ctx.activate at h
  split at h
  · rename_i v hv; simp at h; subst h; exact hv
  · simp at h

/-! ### folds without nested outputs leave `foldedValues` empty -/

def Clear (l : List Ctx) : Prop := ∀ c ∈ l, c.foldedValues = []

theorem normSlot_nil (p : Eid × Option Nat) : normSlot [] p = p := by
  simp [normSlot]

theorem norm_nil_true_of_clear {c : Ctx} (h : c.foldedValues = []) : c.norm [] true = c := by
  obtain ⟨a, vs, vals, su, fc, fv, it⟩ := c
  simp only at h; subst h
  have : List.map (normSlot []) fc = fc := by
    rw [show (normSlot [] : Eid × Option Nat → Eid × Option Nat) = id from funext normSlot_nil]; simp
  simp [Ctx.norm, this]

theorem map_norm_of_clear {l : List Ctx} (h : Clear l) : l.map (Ctx.norm [] true) = l := by
  induction l with
  | nil => rfl
  | cons a as ih =>
    simp only [List.map_cons, norm_nil_true_of_clear (h a (by simp)),
      ih fun c hc => h c (by simp [hc])]

theorem filterReads_nil (f : IRFilter) : filterReads [] f = false := by
  unfold filterReads
  split
  · rename_i r _; cases r <;> simp [refReads]
  · rfl

theorem refReads_nil (r : FieldRef) : refReads [] r = false := by
  cases r <;> simp [refReads]

theorem Comm.clear {S : List Ctx → R (List Ctx)} (hS : Comm [] true S) {l out : List Ctx}
    (hl : Clear l) (h : S l = .ok out) : Clear out := by
  have h1 := hS l
  rw [map_norm_of_clear hl, h] at h1
  simp only [R.map_ok, R.ok.injEq] at h1
  intro c hc
  rw [h1] at hc
  obtain ⟨c0, _, rfl⟩ := List.mem_map.mp hc
  rfl

theorem clear_of_comm {f : Ctx → R Ctx}
    (hf : ∀ x, f (x.norm [] true) = (f x).map (Ctx.norm [] true)) {c c' : Ctx}
    (hc : c.foldedValues = []) (h : f c = .ok c') : c'.foldedValues = [] := by
  have h1 := hf c
  rw [norm_nil_true_of_clear hc, h] at h1
  simp only [R.map_ok, R.ok.injEq] at h1
  rw [h1]; rfl

theorem applyPostFilters_some {env : Env} {parent : Component} {fold : Fold} {fs : List IRFilter}
    {c c' : Ctx} (h : applyPostFilters env parent fold fs c = .ok (some c')) : c' = c := by
  induction fs generalizing c with
  | nil => simp [applyPostFilters] at h; exact h.symm
  | cons f fs ih =>
    simp only [applyPostFilters, R.bind_eq_bind] at h
    obtain ⟨o, ho, h2⟩ := R.bind_eq_ok h
    cases o with
    | none => simp at h2
    | some c1 =>
      have := applyPostFilter_some ho
      subst this
      exact ih h2

theorem nestedKeysFolds_mem {fs : List Fold} (h : nestedKeysFolds fs = []) :
    ∀ g ∈ fs, g.fouts = [] ∧ g.component.outputs = [] ∧ nestedKeys g.component = [] := by
  induction fs with
  | nil => simp
  | cons f fs ih =>
    cases f with
    | mk a b c d e comp i o p =>
      simp only [nestedKeysFolds, List.append_eq_nil_iff, List.map_eq_nil_iff] at h
      intro g hg
      rcases List.mem_cons.mp hg with rfl | hg
      · exact ⟨h.1.1.1, h.1.1.2, h.1.2⟩
      · exact ih h.2 g hg

theorem nestedKeys_folds {comp : Component} (h : nestedKeys comp = []) :
    ∀ g ∈ comp.folds, g.fouts = [] ∧ g.component.outputs = [] ∧ nestedKeys g.component = [] := by
  cases comp with
  | mk r vs es folds outs =>
    simp only [nestedKeys] at h
    exact nestedKeysFolds_mem h

theorem keptElems_sub {a : Option VertexId} {computed : List Ctx} {lim : Option Nat × Option Nat}
    {es : List Ctx} (h : keptElems a computed lim = some (some es)) : ∀ x ∈ es, x ∈ computed := by
  unfold keptElems at h
  split at h
  · unfold collectFoldElements at h
    split at h
    · split at h
      · simp at h
      · simp at h; subst h; exact fun x hx => hx
    · split at h
      · simp at h; subst h; exact fun x hx => List.mem_of_mem_take hx
      · simp at h; subst h; exact fun x hx => hx
  · simp at h

theorem removeTags_foldedValues {rs : List FieldRef} {c c' : Ctx} (h : removeTags rs c = .ok c') :
    c'.foldedValues = c.foldedValues := by
  induction rs generalizing c with
  | nil => simp [removeTags] at h; subst h; rfl
  | cons r rs ih =>
    simp only [removeTags] at h
    obtain ⟨c1, h1, h2⟩ := R.bind_eq_ok h
    have : c1.foldedValues = c.foldedValues := by
      unfold Ctx.removeTag at h1
      split at h1
      · simp at h1; subst h1; rfl
      · simp at h1
    exact (ih h2).trans this

/-- one context through a fold without outputs, count outputs and nested outputs -/
theorem foldFinish_clear {e : Env} {parent : Component} {g : Fold} {lim : Option Nat × Option Nat}
    {c : Ctx} {computed : List Ctx} {c4 : Ctx}
    (hf : g.fouts = []) (ho : g.component.outputs = []) (hn : nestedKeys g.component = [])
    (hc : c.foldedValues = []) (hcomp : Clear computed)
    (h : foldFinish e parent g lim c computed = .ok (some c4)) : c4.foldedValues = [] := by
  rw [foldFinish_eq] at h
  split at h
  · simp at h
  · rename_i fromV _
    split at h
    · simp at h
    · rename_i elems hk
      obtain ⟨_, c2, hc2, _, _, o, hpost, hr⟩ := finishTail_ok h
      cases o with
      | none => simp at hr
      | some c3 =>
        obtain ⟨news, c4', hnews, h4, hr⟩ := hr
        simp only [Option.some.injEq] at hr; subst hr
        have h3 : c3 = c2 := applyPostFilters_some hpost
        subst h3
        have hnil : foldOutputs e g elems = .ok [] := by
          apply foldOutputs_nil e g elems hf ho hn
          intro es hes x hx
          subst hes
          exact hcomp x (keptElems_sub hk x hx)
        rw [hnil] at hnews
        simp only [R.ok.injEq] at hnews; subst hnews
        simp only [mergeFolded, List.any_nil, Bool.false_eq_true, if_false, R.ok.injEq] at h4
        subst h4
        simp only [List.append_nil]
        rw [removeTags_foldedValues hc2]; exact hc

theorem clear_foldStart (c : Ctx) (ns : List VertexId) : Clear (foldStart c ns) := by
  intro x hx
  simp only [foldStart, List.mem_map] at hx
  obtain ⟨n, _, rfl⟩ := hx
  rfl

theorem clear_component (e : Env) : ∀ (fuel : Nat) (comp : Component), nestedKeys comp = [] →
    ∀ (ctxs out : List Ctx), Clear ctxs → computeComponent e fuel comp ctxs = .ok out → Clear out := by
  intro fuel
  induction fuel with
  | zero => intro comp _ ctxs out _ h; simp [computeComponent] at h
  | succ fuel ih =>
    intro comp hn ctxs out hctx h
    rw [computeComponent] at h
    split at h
    · simp at h
    · rename_i rootV hroot
      obtain ⟨ctxs1, h1, h⟩ := R.bind_eq_ok h
      obtain ⟨stages, hst, h⟩ := R.bind_eq_ok h
      have hc1 : Clear ctxs1 :=
        (enterVertex_norm [] true e comp rootV fun f _ => filterReads_nil f).clear hctx h1
      have hfolds := mergeStages_folds hst
      -- the stages
      have stages_clear : ∀ (stages : List Stage), (∀ g, Stage.fold g ∈ stages → g ∈ comp.folds) →
          ∀ (visited : List Vid) (ctxs out : List Ctx), Clear ctxs →
          runStages e fuel comp stages visited ctxs = .ok out → Clear out := by
        intro stages
        induction stages with
        | nil => intro _ visited ctxs out hc h; simp [runStages] at h; subst h; exact hc
        | cons st rest ihs =>
          intro hmem visited ctxs out hc h
          cases st with
          | edge ed =>
            rw [runStages] at h
            obtain ⟨v', _, h⟩ := R.bind_eq_ok h
            obtain ⟨ctxs', he, h⟩ := R.bind_eq_ok h
            have hc' : Clear ctxs' :=
              (expandEdge_norm [] true e comp ed fun v _ f _ => filterReads_nil f).clear hc he
            exact ihs (fun g hg => hmem g (by simp [hg])) v' ctxs' out hc' h
          | fold g =>
            rw [runStages] at h
            obtain ⟨v', _, h⟩ := R.bind_eq_ok h
            obtain ⟨ctxs', hf, h⟩ := R.bind_eq_ok h
            refine ihs (fun g' hg' => hmem g' (by simp [hg'])) v' ctxs' out ?_ h
            have hg : g ∈ comp.folds := hmem g (by simp)
            obtain ⟨hfo, hou, hnk⟩ := nestedKeys_folds hn g hg
            rw [computeFold] at hf
            split at hf
            · simp at hf
            · rename_i fromV _
              obtain ⟨l1, hl1, hf⟩ := R.bind_eq_ok hf
              obtain ⟨l2, hl2, hf⟩ := R.bind_eq_ok hf
              obtain ⟨lim, _, hf⟩ := R.bind_eq_ok hf
              have hcl1 : Clear l1 :=
                (Comm.mapR (T := []) (clr := true) fun c =>
                  importTags_norm [] true e comp g.imports c fun r _ => refReads_nil r).clear hc hl1
              have hcl2 : Clear l2 :=
                (Comm.mapR (T := []) (clr := true) fun c => activate_norm [] true c g.fromVid).clear hcl1 hl2
              intro c4 hc4
              obtain ⟨c, hcmem, hone⟩ := filterMapR_mem hf c4 hc4
              rw [foldOne] at hone
              obtain ⟨ns, _, hone⟩ := R.bind_eq_ok hone
              obtain ⟨computed, hcomp, hone⟩ := R.bind_eq_ok hone
              have hcc : Clear computed := ih g.component hnk _ _ (clear_foldStart c ns) hcomp
              exact foldFinish_clear hfo hou hnk (hcl2 c hcmem) hcc hone
      exact stages_clear stages hfolds _ ctxs1 out hc1 h

end TF.Engine
