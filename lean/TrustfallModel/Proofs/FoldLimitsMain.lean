/-
C22, part 3: the guard `CountUnobserved`, the single-fold theorem `foldFinish_sim` and the global
simulation between `interpret env` and `interpret { env with useLimits := false }`.
-/
import TrustfallModel.Proofs.FoldLimitsSim

namespace TF.Engine
open TF Filter

/-- the reference semantics of C22: every fold fully materialised before filtering -/
abbrev Env.noLimits (env : Env) : Env := { env with useLimits := false }

/-! ### nothing but `foldLimits` looks at `useLimits` -/

section envIndep
set_option smartUnfolding false
variable (env : Env)
theorem expandEdge_noLimits (comp e ctxs) : expandEdge env.noLimits comp e ctxs = expandEdge env comp e ctxs := rfl
theorem enterVertex_noLimits (comp v ctxs) : enterVertex env.noLimits comp v ctxs = enterVertex env comp v ctxs := rfl
theorem importTags_noLimits (p i c) : importTags env.noLimits p i c = importTags env p i c := rfl
theorem applyPostFilters_noLimits (p f fs c) :
    applyPostFilters env.noLimits p f fs c = applyPostFilters env p f fs c := rfl
theorem foldOutputs_noLimits (f el) : foldOutputs env.noLimits f el = foldOutputs env f el := rfl
theorem constructRow_noLimits (comp c) : constructRow env.noLimits comp c = constructRow env comp c := rfl
theorem minFoldLimit_noLimits (fs acc) : minFoldLimit env.noLimits fs acc = minFoldLimit env fs acc := rfl
theorem maxFoldLimit_noLimits (fs acc) : maxFoldLimit env.noLimits fs acc = maxFoldLimit env fs acc := rfl
theorem foldLimits_noLimits (p f) : foldLimits env.noLimits p f = .ok (none, none) := rfl
end envIndep

/-! ### the guard -/

/-- `count >= $var` or `count > $var`: the post-filters `get_min_fold_count_limit` understands -/
def isMinFilter (f : IRFilter) : Bool :=
  match f.left, f.op, f.right with
  | .count, .bin .greaterThanOrEqual, some (.var _ _) => true
  | .count, .bin .greaterThan, some (.var _ _) => true
  | _, _, _ => false

/-- The fold passes the engine's eligibility test for the min shortcut as far as the fold itself
is concerned. -/
def Fold.minEligible (fold : Fold) : Bool :=
  !fold.post.isEmpty && fold.post.all isMinFilter && fold.component.outputs.isEmpty &&
    fold.fouts.isEmpty

/-- Eids of the folds of a component whose element lists may be truncated. -/
def truncEids (comp : Component) : List Eid := (comp.folds.filter Fold.minEligible).map Fold.eid

/-- The guard for one component: no filter anywhere in the component (vertex filters, post-filters
of its folds) and no import of its folds refers to the count of a min-eligible fold (F-23); a
min-eligible fold contains no fold with outputs (F-29); fold Eids are distinct. -/
def compGuard (comp : Component) : Bool :=
  let T := truncEids comp
  comp.vertices.all (fun v => v.filters.all fun f => !filterReads T f) &&
  comp.folds.all (fun g => g.post.all (fun f => !filterReads T f) &&
    g.imports.all (fun r => !refReads T r) &&
    (!g.minEligible || (nestedKeys g.component).isEmpty)) &&
  decide ((comp.folds.map Fold.eid).Nodup)

mutual
def countUnobservedC : Component → Bool
  | .mk r vs es folds outs => compGuard (.mk r vs es folds outs) && countUnobservedFs folds
def countUnobservedFs : List Fold → Bool
  | [] => true
  | (.mk _ _ _ _ _ comp _ _ _) :: fs => countUnobservedC comp && countUnobservedFs fs
end

theorem countUnobservedFs_mem {fs : List Fold} (h : countUnobservedFs fs = true) :
    ∀ g ∈ fs, countUnobservedC g.component = true := by
  induction fs with
  | nil => simp
  | cons f fs ih =>
    cases f with
    | mk a b c d e comp i o p =>
      simp only [countUnobservedFs, Bool.and_eq_true] at h
      intro g hg
      rcases List.mem_cons.mp hg with rfl | hg
      · exact h.1
      · exact ih h.2 g hg

theorem countUnobservedC_iff {comp : Component} (h : countUnobservedC comp = true) :
    compGuard comp = true ∧ ∀ g ∈ comp.folds, countUnobservedC g.component = true := by
  cases comp with
  | mk r vs es folds outs =>
    simp only [countUnobservedC, Bool.and_eq_true] at h
    exact ⟨h.1, countUnobservedFs_mem h.2⟩

/- A property of every fold of a query, at every nesting depth, together with its parent. -/
mutual
def AllFoldsC (P : Component → Fold → Prop) : Component → Prop
  | .mk r vs es folds outs => AllFoldsFs P (.mk r vs es folds outs) folds
def AllFoldsFs (P : Component → Fold → Prop) (parent : Component) : List Fold → Prop
  | [] => True
  | (.mk a b c d e comp i o p) :: fs =>
    P parent (.mk a b c d e comp i o p) ∧ AllFoldsC P comp ∧ AllFoldsFs P parent fs
end

theorem AllFoldsFs_mem {P : Component → Fold → Prop} {parent : Component} {fs : List Fold}
    (h : AllFoldsFs P parent fs) : ∀ g ∈ fs, P parent g ∧ AllFoldsC P g.component := by
  induction fs with
  | nil => simp
  | cons f fs ih =>
    cases f with
    | mk a b c d e comp i o p =>
      simp only [AllFoldsFs] at h
      intro g hg
      rcases List.mem_cons.mp hg with rfl | hg
      · exact ⟨h.1, h.2.1⟩
      · exact ih h.2.2 g hg

theorem AllFoldsC_mem {P : Component → Fold → Prop} {comp : Component} (h : AllFoldsC P comp) :
    ∀ g ∈ comp.folds, P comp g ∧ AllFoldsC P g.component := by
  cases comp with
  | mk r vs es folds outs =>
    simp only [AllFoldsC] at h
    exact AllFoldsFs_mem h

/-! ### which limits a fold gets -/

theorem isMinFilter_iff {f : IRFilter} (h : isMinFilter f = true) :
    f.left = .count ∧ (f.op = .bin .greaterThanOrEqual ∨ f.op = .bin .greaterThan) ∧
      ∃ n ty, f.right = some (.var n ty) := by
  unfold isMinFilter at h
  split at h
  · rename_i h1 h2 h3; exact ⟨h1, .inl h2, _, _, h3⟩
  · rename_i h1 h2 h3; exact ⟨h1, .inr h2, _, _, h3⟩
  · simp at h

theorem maxLimitOf_of_isMin (env : Env) {f : IRFilter} (h : isMinFilter f = true) :
    maxLimitOf env f = .ok none := by
  obtain ⟨h1, h2, n, ty, h3⟩ := isMinFilter_iff h
  rcases h2 with h2 | h2 <;> simp only [maxLimitOf, h1, h2, h3]

theorem maxFoldLimit_allMin (env : Env) {fs : List IRFilter} (h : fs.all isMinFilter = true) :
    maxFoldLimit env fs none = .ok none := by
  induction fs with
  | nil => rfl
  | cons f fs ih =>
    simp only [List.all_cons, Bool.and_eq_true] at h
    simp only [maxFoldLimit, R.bind_eq_bind, maxLimitOf_of_isMin env h.1, R.bind_ok]
    exact ih h.2

theorem minLimitOf_some_isMin {env : Env} {f : IRFilter} {k : Nat}
    (h : minLimitOf env f = .ok (some k)) : isMinFilter f = true := by
  unfold minLimitOf at h
  split at h
  · rename_i h1 h2 h3; simp only [isMinFilter, h1, h2, h3]
  · rename_i h1 h2 h3; simp only [isMinFilter, h1, h2, h3]
  · simp at h

theorem minLimitOf_isMin_ne_none {env : Env} {f : IRFilter} (hm : isMinFilter f = true)
    {o : Option Nat} (h : minLimitOf env f = .ok o) : o ≠ none := by
  obtain ⟨h1, h2, n, ty, h3⟩ := isMinFilter_iff hm
  rcases h2 with h2 | h2 <;> simp only [minLimitOf, h1, h2, h3, R.bind_eq_bind] at h
  all_goals
    obtain ⟨v, _, h⟩ := R.bind_eq_ok h
    obtain ⟨k, _, h⟩ := R.bind_eq_ok h
    simp at h; subst h; simp

theorem minFoldLimit_allMin_ne_none {env : Env} {fs : List IRFilter} {acc r : Option Nat}
    (hall : fs.all isMinFilter = true) (hne : fs ≠ [] ∨ acc ≠ none)
    (h : minFoldLimit env fs acc = .ok r) : r ≠ none := by
  induction fs generalizing acc with
  | nil =>
    simp [minFoldLimit] at h; subst h
    rcases hne with hne | hne
    · exact absurd rfl hne
    · exact hne
  | cons f fs ih =>
    simp only [List.all_cons, Bool.and_eq_true] at hall
    simp only [minFoldLimit, R.bind_eq_bind] at h
    obtain ⟨o, ho, h⟩ := R.bind_eq_ok h
    cases o with
    | none => exact absurd rfl (minLimitOf_isMin_ne_none hall.1 ho)
    | some k =>
      refine ih hall.2 (.inr ?_) h
      cases acc with
      | none => simp
      | some l => simp only; split <;> simp

theorem minFoldLimit_some_shape {env : Env} {fs : List IRFilter} {k : Nat}
    (h : minFoldLimit env fs none = .ok (some k)) : fs ≠ [] ∧ fs.all isMinFilter = true := by
  constructor
  · rintro rfl; simp [minFoldLimit] at h
  · rw [List.all_eq_true]
    intro f hf
    obtain ⟨kf, _, hk⟩ := (minFoldLimit_mem h).2 f hf
    exact minLimitOf_some_isMin hk

theorem effectiveMinLimit_some {env : Env} {parent : Component} {fold : Fold} {k : Nat}
    (h : effectiveMinLimit env parent fold = .ok (some k)) :
    fold.minEligible = true ∧ minFoldLimit env fold.post none = .ok (some k) := by
  simp only [effectiveMinLimit, R.bind_eq_bind] at h
  obtain ⟨o, ho, h⟩ := R.bind_eq_ok h
  cases o with
  | none => simp at h
  | some m =>
    simp only [R.pure_eq_ok, R.ok.injEq] at h
    split at h
    · rename_i hc
      simp only [Option.some.injEq] at h; subst h
      simp only [Bool.and_eq_true] at hc
      obtain ⟨hne, hall⟩ := minFoldLimit_some_shape ho
      refine ⟨?_, ho⟩
      simp only [Fold.minEligible, Bool.and_eq_true, hall, hc.1.1, hc.1.2, and_true]
      cases hp : fold.post with
      | nil => exact absurd hp hne
      | cons _ _ => rfl
    · simp at h

theorem foldLimits_parts {env : Env} (hu : env.useLimits = true) {parent : Component} {fold : Fold}
    {lim : Option Nat × Option Nat} (h : foldLimits env parent fold = .ok lim) :
    maxFoldLimit env fold.post none = .ok lim.1 ∧ effectiveMinLimit env parent fold = .ok lim.2 := by
  simp only [foldLimits, hu, if_true, R.bind_eq_bind] at h
  obtain ⟨a, ha, h⟩ := R.bind_eq_ok h
  obtain ⟨b, hb, h⟩ := R.bind_eq_ok h
  simp at h; subst h
  exact ⟨ha, hb⟩

/-! ### what the guard gives for one component -/

structure GuardFacts (parent : Component) : Prop where
  vertex : ∀ v ∈ parent.vertices, ∀ f ∈ v.filters, filterReads (truncEids parent) f = false
  post : ∀ g ∈ parent.folds, ∀ f ∈ g.post, filterReads (truncEids parent) f = false
  imports : ∀ g ∈ parent.folds, ∀ r ∈ g.imports, refReads (truncEids parent) r = false
  nested : ∀ g ∈ parent.folds, g.minEligible = true → nestedKeys g.component = []
  nodup : (parent.folds.map Fold.eid).Nodup

theorem compGuard_facts {parent : Component} (h : compGuard parent = true) : GuardFacts parent := by
  simp only [compGuard, Bool.and_eq_true, List.all_eq_true, Bool.not_eq_true', Bool.or_eq_true,
    decide_eq_true_eq, List.isEmpty_iff] at h
  obtain ⟨⟨hv, hf⟩, hnd⟩ := h
  refine ⟨hv, fun g hg => (hf g hg).1.1, fun g hg => (hf g hg).1.2, fun g hg he => ?_, hnd⟩
  rcases (hf g hg).2 with h' | h'
  · rw [he] at h'; simp at h'
  · exact h'

theorem inj_of_nodup_map {α β : Type} {f : α → β} {l : List α} (h : (l.map f).Nodup) {a b : α}
    (ha : a ∈ l) (hb : b ∈ l) (hab : f a = f b) : a = b := by
  induction l with
  | nil => simp at ha
  | cons x xs ih =>
    simp only [List.map_cons, List.nodup_cons, List.mem_map, not_exists, not_and] at h
    rcases List.mem_cons.mp ha with rfl | ha' <;> rcases List.mem_cons.mp hb with rfl | hb'
    · rfl
    · exact absurd hab.symm (h.1 b hb')
    · exact absurd hab (h.1 a ha')
    · exact ih h.2 ha' hb'

theorem mem_truncEids_of_eligible {parent : Component} {g : Fold} (hg : g ∈ parent.folds)
    (he : g.minEligible = true) : (truncEids parent).contains g.eid = true := by
  simp only [truncEids, List.contains_eq_mem, List.mem_map, List.mem_filter, decide_eq_true_eq]
  exact ⟨g, ⟨hg, he⟩, rfl⟩

theorem not_mem_truncEids_of_not_eligible {parent : Component} {g : Fold} (hg : g ∈ parent.folds)
    (hnd : (parent.folds.map Fold.eid).Nodup) (he : g.minEligible = false) :
    (truncEids parent).contains g.eid = false := by
  rw [Bool.eq_false_iff]
  intro hc
  simp only [truncEids, List.contains_eq_mem, List.mem_map, List.mem_filter, decide_eq_true_eq] at hc
  obtain ⟨g', ⟨hg', he'⟩, heq⟩ := hc
  have : g' = g := inj_of_nodup_map hnd hg' hg heq
  subst this
  rw [he] at he'; simp at he'

theorem hasTag_false_of_guard {parent : Component} {g : Fold} (hgf : GuardFacts parent)
    (hg : g ∈ parent.folds) (he : g.minEligible = true) : hasTagOnFoldCount parent g = false := by
  rw [Bool.eq_false_iff]
  intro h
  simp only [hasTagOnFoldCount, List.any_eq_true] at h
  obtain ⟨v, hv, f, hf, hm⟩ := h
  have hr := hgf.vertex v hv f hf
  split at hm
  · rename_i eid rv hright
    simp only [Bool.and_eq_true, beq_iff_eq] at hm
    simp only [filterReads, hright, refReads, hm.2, mem_truncEids_of_eligible hg he] at hr
    simp at hr
  · simp at hm

/-- The limits of a min-eligible fold of a guarded component: no max limit, min limit `k`. -/
theorem foldLimits_eligible {env : Env} (hu : env.useLimits = true) {parent : Component} {g : Fold}
    (hgf : GuardFacts parent) (hg : g ∈ parent.folds) (he : g.minEligible = true)
    {lim : Option Nat × Option Nat} (h : foldLimits env parent g = .ok lim) :
    ∃ k, lim = (none, some k) ∧ minFoldLimit env g.post none = .ok (some k) := by
  obtain ⟨hmax, hmin⟩ := foldLimits_parts hu h
  have he' := he
  simp only [Fold.minEligible, Bool.and_eq_true, Bool.not_eq_true', List.isEmpty_eq_false_iff] at he'
  obtain ⟨⟨⟨hne, hall⟩, hout⟩, hfo⟩ := he'
  rw [maxFoldLimit_allMin env hall] at hmax
  simp only [effectiveMinLimit, R.bind_eq_bind] at hmin
  obtain ⟨o, ho, hmin⟩ := R.bind_eq_ok hmin
  have hne' := minFoldLimit_allMin_ne_none hall (.inl hne) ho
  cases o with
  | none => exact absurd rfl hne'
  | some k =>
    simp only [hout, hfo, hasTag_false_of_guard hgf hg he, Bool.not_false, Bool.and_self, if_true,
      R.pure_eq_ok, R.ok.injEq] at hmin
    refine ⟨k, ?_, ho⟩
    cases lim; simp only [R.ok.injEq] at hmax; simp_all

theorem foldLimits_not_eligible {env : Env} (hu : env.useLimits = true) {parent : Component}
    {g : Fold} (he : g.minEligible = false) {lim : Option Nat × Option Nat}
    (h : foldLimits env parent g = .ok lim) :
    lim.2 = none ∧ maxFoldLimit env g.post none = .ok lim.1 := by
  obtain ⟨hmax, hmin⟩ := foldLimits_parts hu h
  refine ⟨?_, hmax⟩
  cases hl : lim.2 with
  | none => rfl
  | some k =>
    rw [hl] at hmin
    rw [(effectiveMinLimit_some hmin).1] at he; simp at he

/-! ### `foldFinish`, once the elements kept are known -/

/-- `foldFinish` after `collect_fold_elements`: slot insertion, removal of the imported tags,
post-filters, outputs. -/
def finishTail (e : Env) (parent : Component) (fold : Fold) (c : Ctx) (elems : Option (List Ctx)) :
    R (Option Ctx) :=
  if (c.foldCount? fold.eid).isSome then .panic "folded_contexts.insert_or_error(..).unwrap()"
  else
    (removeTags fold.imports
        { c with foldCounts := c.foldCounts ++ [(fold.eid, elems.map List.length)] }).bind fun c2 =>
    (applyPostFilters e parent fold fold.post c2).bind fun o =>
    match o with
    | some c3 =>
      (foldOutputs e fold elems).bind fun news => (mergeFolded c3 news).bind fun c4 => .ok (some c4)
    | none => .ok none

/-- the elements kept for one context -/
def keptElems (fromV : Option VertexId) (computed : List Ctx) (lim : Option Nat × Option Nat) :
    Option (Option (List Ctx)) :=
  if fromV.isSome then (collectFoldElements computed lim.1 lim.2).map some else some none

theorem foldFinish_eq (e : Env) (parent : Component) (fold : Fold) (lim : Option Nat × Option Nat)
    (c : Ctx) (computed : List Ctx) :
    foldFinish e parent fold lim c computed =
      match c.vertexAt? fold.fromVid with
      | none => .panic "context.vertices[&expanding_from_vid]"
      | some fromV =>
        match keptElems fromV computed lim with
        | none => .ok none
        | some elems => finishTail e parent fold c elems := by
  unfold foldFinish finishTail keptElems
  cases c.vertexAt? fold.fromVid with
  | none => rfl
  | some fromV =>
    simp only
    generalize (if fromV.isSome = true then Option.map some (collectFoldElements computed lim.1 lim.2)
      else some none) = eo
    cases eo with
    | none => rfl
    | some elems =>
      simp only
      split
      · rfl
      · simp only [R.bind_eq_bind, R.pure_eq_ok]
        congr 1

theorem finishTail_noLimits (env : Env) (parent : Component) (fold : Fold) (c : Ctx)
    (elems : Option (List Ctx)) :
    finishTail env.noLimits parent fold c elems = finishTail env parent fold c elems := by
  simp only [finishTail, applyPostFilters_noLimits, foldOutputs_noLimits]

/-- `finishTail` of a fold whose own slot is not normalised commutes with `norm` (on the context
and, with any other set of slots, on the elements). -/
theorem finishTail_norm (T T' : List Eid) (e : Env) (parent : Component) (fold : Fold) (c : Ctx)
    (elems : Option (List Ctx)) (hT : T.contains fold.eid = false)
    (hpost : ∀ f ∈ fold.post, filterReads T f = false) :
    finishTail e parent fold (c.norm T false) (elems.map (List.map (Ctx.norm T' false))) =
      (finishTail e parent fold c elems).map (Option.map (Ctx.norm T false)) := by
  simp only [finishTail, norm_foldCount?_isSome]
  split
  · rfl
  · have hc1 : ({ c.norm T false with foldCounts := (c.norm T false).foldCounts ++
          [(fold.eid, (elems.map (List.map (Ctx.norm T' false))).map List.length)] } : Ctx) =
        ({ c with foldCounts := c.foldCounts ++ [(fold.eid, elems.map List.length)] } : Ctx).norm T false := by
      have hlen : (elems.map (List.map (Ctx.norm T' false))).map List.length = elems.map List.length := by
        cases elems <;> simp
      simp only [Ctx.norm, List.map_append, List.map_cons, List.map_nil, normSlot, hT, hlen]
      rfl
    rw [hc1, removeTags_norm, R.map_bind, R.bind_map]
    congr 1; funext c2
    rw [applyPostFilters_norm T false e parent fold fold.post c2 hT hpost, R.map_bind, R.bind_map]
    congr 1; funext o
    cases o with
    | none => rfl
    | some c3 =>
      simp only [Option.map_some, foldOutputs_norm, R.bind_map]
      congr 1; funext news
      rw [mergeFolded_norm, R.map_bind]
      rfl

/-- A fold without outputs, count outputs and nested outputs contributes no `folded_values`, provided
its elements carry none. -/
theorem foldOutputs_nil (e : Env) (fold : Fold) (elems : Option (List Ctx))
    (hf : fold.fouts = []) (ho : fold.component.outputs = []) (hn : nestedKeys fold.component = [])
    (hclear : ∀ es, elems = some es → ∀ c ∈ es, c.foldedValues = []) :
    foldOutputs e fold elems = .ok [] := by
  cases elems with
  | none => simp [foldOutputs, hf, ho, hn]
  | some es =>
    cases es with
    | nil => simp [foldOutputs, hf, ho, hn]
    | cons e0 rest =>
      have h0 : e0.foldedValues = [] := hclear _ rfl e0 (by simp)
      simp [foldOutputs, hf, ho, h0, mapR]

/-! ### small facts used by the single-fold theorem -/

theorem removeTag_fields {c c' : Ctx} {k : TagKey} (h : c.removeTag k = .ok c') :
    c'.foldCounts = c.foldCounts ∧ c'.active = c.active := by
  unfold Ctx.removeTag at h
  split at h
  · simp at h; subst h; exact ⟨rfl, rfl⟩
  · simp at h

theorem removeTags_fields {rs : List FieldRef} {c c' : Ctx} (h : removeTags rs c = .ok c') :
    c'.foldCounts = c.foldCounts ∧ c'.active = c.active := by
  induction rs generalizing c with
  | nil => simp [removeTags] at h; subst h; exact ⟨rfl, rfl⟩
  | cons r rs ih =>
    simp only [removeTags] at h
    obtain ⟨c1, h1, h2⟩ := R.bind_eq_ok h
    obtain ⟨a1, a2⟩ := removeTag_fields h1
    obtain ⟨b1, b2⟩ := ih h2
    exact ⟨b1.trans a1, b2.trans a2⟩

theorem foldCount?_append_self {c : Ctx} {e : Eid} (x : Option Nat) (h : c.foldCount? e = none) :
    ({ c with foldCounts := c.foldCounts ++ [(e, x)] } : Ctx).foldCount? e = some x := by
  simp only [Ctx.foldCount?, Option.map_eq_none_iff] at h
  simp [Ctx.foldCount?, List.find?_append, h]

theorem foldCount?_of_foldCounts_eq {c c' : Ctx} (h : c'.foldCounts = c.foldCounts) (e : Eid) :
    c'.foldCount? e = c.foldCount? e := by
  simp only [Ctx.foldCount?, h]

/-- what a successful `finishTail` went through -/
theorem finishTail_ok {e : Env} {parent : Component} {g : Fold} {c : Ctx}
    {elems : Option (List Ctx)} {r : Option Ctx} (h : finishTail e parent g c elems = .ok r) :
    c.foldCount? g.eid = none ∧ ∃ c2,
      removeTags g.imports { c with foldCounts := c.foldCounts ++ [(g.eid, elems.map List.length)] }
        = .ok c2 ∧
      c2.foldCount? g.eid = some (elems.map List.length) ∧ c2.active = c.active ∧
      ∃ o, applyPostFilters e parent g g.post c2 = .ok o ∧
        match o with
        | none => r = none
        | some c3 => ∃ news c4, foldOutputs e g elems = .ok news ∧ mergeFolded c3 news = .ok c4 ∧
            r = some c4 := by
  unfold finishTail at h
  split at h
  · simp at h
  · rename_i hs
    have hnone : c.foldCount? g.eid = none := by
      cases hx : c.foldCount? g.eid <;> simp_all
    obtain ⟨c2, h2, h⟩ := R.bind_eq_ok h
    obtain ⟨o, ho, h⟩ := R.bind_eq_ok h
    obtain ⟨f1, f2⟩ := removeTags_fields h2
    refine ⟨hnone, c2, h2, ?_, f2, o, ho, ?_⟩
    · rw [foldCount?_of_foldCounts_eq f1]; exact foldCount?_append_self _ hnone
    · cases o with
      | none => simp at h; exact h.symm
      | some c3 =>
        simp only at h
        obtain ⟨news, hn, h⟩ := R.bind_eq_ok h
        obtain ⟨c4, h4, h⟩ := R.bind_eq_ok h
        simp at h
        exact ⟨news, c4, hn, h4, h.symm⟩

/-- a fold that does not exist for the context (`elems = none`) survives `finishTail` only without
post-filters (otherwise `unreachable!`, F-9) -/
theorem finishTail_none_post {e : Env} {parent : Component} {g : Fold} {c : Ctx} {r : Option Ctx}
    (h : finishTail e parent g c none = .ok r) : g.post = [] := by
  obtain ⟨_, c2, _, hslot, _, o, ho, _⟩ := finishTail_ok h
  cases hp : g.post with
  | nil => rfl
  | cons f fs =>
    rw [hp] at ho
    simp only [applyPostFilters, R.bind_eq_bind, applyPostFilter, hslot, Option.map_none] at ho
    simp at ho

/-- transfer of a commuting step along `norm`-equal inputs -/
theorem rel_of_comm {α : Type} {T : List Eid} {f : Ctx → R α} {m : α → α}
    (hf : ∀ x, f (x.norm T false) = (f x).map m) {x x' : Ctx}
    (hx : x.norm T false = x'.norm T false) {y : α} (h : f x = .ok y) :
    ∃ y', f x' = .ok y' ∧ m y = m y' := by
  have h1 := hf x
  have h2 := hf x'
  rw [hx, h2, h] at h1
  cases hy : f x' with
  | ok y' => rw [hy] at h1; simp at h1; exact ⟨y', rfl, h1.symm⟩
  | panic s => rw [hy] at h1; simp at h1
  | fuel => rw [hy] at h1; simp at h1

theorem clear_of_map_norm_eq {T' : List Eid} {l l' : List Ctx}
    (h : l.map (Ctx.norm T' false) = l'.map (Ctx.norm T' false))
    (hc : ∀ e ∈ l, e.foldedValues = []) : ∀ e ∈ l', e.foldedValues = [] := by
  induction l generalizing l' with
  | nil => cases l' <;> simp_all
  | cons a as ih =>
    cases l' with
    | nil => simp
    | cons b bs =>
      simp only [List.map_cons, List.cons.injEq] at h
      intro e he
      rcases List.mem_cons.mp he with rfl | he
      · have : (Ctx.norm T' false a).foldedValues = (Ctx.norm T' false e).foldedValues := by rw [h.1]
        exact this.symm.trans (hc a (by simp))
      · exact ih h.2 (fun x hx => hc x (by simp [hx])) e he

theorem norm_append_slot_mem {T : List Eid} {e : Eid} (hT : T.contains e = true) (c : Ctx)
    (x : Nat) :
    ({ c with foldCounts := c.foldCounts ++ [(e, some x)] } : Ctx).norm T false =
      { c.norm T false with foldCounts := (c.norm T false).foldCounts ++ [(e, some 0)] } := by
  have hT' : e ∈ T := by simpa using hT
  simp [Ctx.norm, normSlot, hT']

end TF.Engine
