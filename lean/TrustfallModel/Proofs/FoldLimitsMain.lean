/-
C22, part 3: the structural guard `CountRefsWF`, the single-fold theorem `foldFinish_sim` and the global
simulation between `interpret env` and `interpret { env with useLimits := false }`.
-/
import TrustfallModel.Proofs.FoldLimitsSim

namespace TF.Engine
open TF Filter

/-- the reference semantics of C22: every fold fully materialised before filtering -/
abbrev Env.noLimits (env : Env) : Env := { env with useLimits := false }

/-! ### nothing but `foldLimits` looks at `useLimits` -/

section envIndep
set_option smartUnfolding false
variable (env : Env)
theorem expandEdge_noLimits (comp e ctxs) : expandEdge env.noLimits comp e ctxs = expandEdge env comp e ctxs := rfl
theorem enterVertex_noLimits (comp v ctxs) : enterVertex env.noLimits comp v ctxs = enterVertex env comp v ctxs := rfl
theorem importTags_noLimits (p i c) : importTags env.noLimits p i c = importTags env p i c := rfl
theorem applyPostFilters_noLimits (p f fs c) :
    applyPostFilters env.noLimits p f fs c = applyPostFilters env p f fs c := rfl
theorem foldOutputs_noLimits (f el) : foldOutputs env.noLimits f el = foldOutputs env f el := rfl
theorem constructRow_noLimits (comp c) : constructRow env.noLimits comp c = constructRow env comp c := rfl
theorem minFoldLimit_noLimits (fs acc) : minFoldLimit env.noLimits fs acc = minFoldLimit env fs acc := rfl
theorem maxFoldLimit_noLimits (fs acc) : maxFoldLimit env.noLimits fs acc = maxFoldLimit env fs acc := rfl
theorem foldLimits_noLimits (p f) : foldLimits env.noLimits p f = .ok (none, none) := rfl
end envIndep

/-! ### the guard -/

/-- `count >= $var` or `count > $var`: the post-filters `get_min_fold_count_limit` understands -/
def isMinFilter (f : IRFilter) : Bool :=
  match f.left, f.op, f.right with
  | .count, .bin .greaterThanOrEqual, some (.var _ _) => true
  | .count, .bin .greaterThan, some (.var _ _) => true
  | _, _, _ => false

/-- The engine's eligibility test for the min shortcut, as far as it is static (the condition of
`effectiveMinLimit`, without the limit itself): the post-filters are non-empty and all `>=`/`>`
against variables; neither the fold's component nor any fold nested inside it has outputs
(`component_has_outputs`); no count output; the count's tag is used neither by a filter of a vertex
of the parent component nor by a fold of the parent component (imported into it, or the operand of
one of its post-filters) — `has_tag_on_fold_count`. -/
def Fold.minEligible (parent : Component) (fold : Fold) : Bool :=
  !fold.post.isEmpty && fold.post.all isMinFilter && !componentHasOutputs fold.component &&
    fold.fouts.isEmpty && !hasTagOnFoldCount parent fold

/-- Eids of the folds of a component whose element lists may be truncated. -/
def truncEids (comp : Component) : List Eid :=
  (comp.folds.filter (Fold.minEligible comp)).map Fold.eid

/-- A reference to the count of a fold of this component names that fold's root vertex: the
frontend builds `FoldSpecificField { fold_eid, fold_root_vid, .. }` from one fold, and the engine's
`has_tag_on_fold_count` compares both components while the lookup of the count goes by the Eid
alone. -/
def refWF (comp : Component) : FieldRef → Bool
  | .fcount eid rv => comp.folds.all fun g => !(g.eid == eid) || g.toVid == rv
  | .ctx _ _ _ => true

def filterRefWF (comp : Component) (f : IRFilter) : Bool :=
  match f.right with
  | some (.tag r) => refWF comp r
  | _ => true

/-- Structural well-formedness of one component, as far as the fold-count shortcuts rely on it:
every reference to a fold count (in a vertex filter, a post-filter or an import of the component)
is consistent (`refWF`), and the folds of the component have distinct Eids.  Nothing about the
*shape* of the query: every query the frontend compiles satisfies it. -/
def compGuard (comp : Component) : Bool :=
  comp.vertices.all (fun v => v.filters.all (filterRefWF comp)) &&
  comp.folds.all (fun g => g.post.all (filterRefWF comp) && g.imports.all (refWF comp)) &&
  decide ((comp.folds.map Fold.eid).Nodup)

mutual
def countRefsWFC : Component → Bool
  | .mk r vs es folds outs => compGuard (.mk r vs es folds outs) && countRefsWFFs folds
def countRefsWFFs : List Fold → Bool
  | [] => true
  | (.mk _ _ _ _ _ comp _ _ _) :: fs => countRefsWFC comp && countRefsWFFs fs
end

theorem countRefsWFFs_mem {fs : List Fold} (h : countRefsWFFs fs = true) :
    ∀ g ∈ fs, countRefsWFC g.component = true := by
  induction fs with
  | nil => simp
  | cons f fs ih =>
    cases f with
    | mk a b c d e comp i o p =>
      simp only [countRefsWFFs, Bool.and_eq_true] at h
      intro g hg
      rcases List.mem_cons.mp hg with rfl | hg
      · exact h.1
      · exact ih h.2 g hg

theorem countRefsWFC_iff {comp : Component} (h : countRefsWFC comp = true) :
    compGuard comp = true ∧ ∀ g ∈ comp.folds, countRefsWFC g.component = true := by
  cases comp with
  | mk r vs es folds outs =>
    simp only [countRefsWFC, Bool.and_eq_true] at h
    exact ⟨h.1, countRefsWFFs_mem h.2⟩

/- A property of every fold of a query, at every nesting depth, together with its parent. -/
mutual
def AllFoldsC (P : Component → Fold → Prop) : Component → Prop
  | .mk r vs es folds outs => AllFoldsFs P (.mk r vs es folds outs) folds
def AllFoldsFs (P : Component → Fold → Prop) (parent : Component) : List Fold → Prop
  | [] => True
  | (.mk a b c d e comp i o p) :: fs =>
    P parent (.mk a b c d e comp i o p) ∧ AllFoldsC P comp ∧ AllFoldsFs P parent fs
end

theorem AllFoldsFs_mem {P : Component → Fold → Prop} {parent : Component} {fs : List Fold}
    (h : AllFoldsFs P parent fs) : ∀ g ∈ fs, P parent g ∧ AllFoldsC P g.component := by
  induction fs with
  | nil => simp
  | cons f fs ih =>
    cases f with
    | mk a b c d e comp i o p =>
      simp only [AllFoldsFs] at h
      intro g hg
      rcases List.mem_cons.mp hg with rfl | hg
      · exact ⟨h.1, h.2.1⟩
      · exact ih h.2.2 g hg

theorem AllFoldsC_mem {P : Component → Fold → Prop} {comp : Component} (h : AllFoldsC P comp) :
    ∀ g ∈ comp.folds, P comp g ∧ AllFoldsC P g.component := by
  cases comp with
  | mk r vs es folds outs =>
    simp only [AllFoldsC] at h
    exact AllFoldsFs_mem h

/-! ### which limits a fold gets -/

theorem isMinFilter_iff {f : IRFilter} (h : isMinFilter f = true) :
    f.left = .count ∧ (f.op = .bin .greaterThanOrEqual ∨ f.op = .bin .greaterThan) ∧
      ∃ n ty, f.right = some (.var n ty) := by
  unfold isMinFilter at h
  split at h
  · rename_i h1 h2 h3; exact ⟨h1, .inl h2, _, _, h3⟩
  · rename_i h1 h2 h3; exact ⟨h1, .inr h2, _, _, h3⟩
  · simp at h

theorem maxLimitOf_of_isMin (env : Env) {f : IRFilter} (h : isMinFilter f = true) :
    maxLimitOf env f = .ok none := by
  obtain ⟨h1, h2, n, ty, h3⟩ := isMinFilter_iff h
  rcases h2 with h2 | h2 <;> simp only [maxLimitOf, h1, h2, h3]

theorem maxFoldLimit_allMin (env : Env) {fs : List IRFilter} (h : fs.all isMinFilter = true) :
    maxFoldLimit env fs none = .ok none := by
  induction fs with
  | nil => rfl
  | cons f fs ih =>
    simp only [List.all_cons, Bool.and_eq_true] at h
    simp only [maxFoldLimit, R.bind_eq_bind, maxLimitOf_of_isMin env h.1, R.bind_ok]
    exact ih h.2

theorem minLimitOf_some_isMin {env : Env} {f : IRFilter} {k : Nat}
    (h : minLimitOf env f = .ok (some k)) : isMinFilter f = true := by
  unfold minLimitOf at h
  split at h
  · rename_i h1 h2 h3; simp only [isMinFilter, h1, h2, h3]
  · rename_i h1 h2 h3; simp only [isMinFilter, h1, h2, h3]
  · simp at h

theorem minLimitOf_isMin_ne_none {env : Env} {f : IRFilter} (hm : isMinFilter f = true)
    {o : Option Nat} (h : minLimitOf env f = .ok o) : o ≠ none := by
  obtain ⟨h1, h2, n, ty, h3⟩ := isMinFilter_iff hm
  rcases h2 with h2 | h2 <;> simp only [minLimitOf, h1, h2, h3, R.bind_eq_bind] at h
  all_goals
    obtain ⟨v, _, h⟩ := R.bind_eq_ok h
    obtain ⟨k, _, h⟩ := R.bind_eq_ok h
    simp at h; subst h; simp

theorem minFoldLimit_allMin_ne_none {env : Env} {fs : List IRFilter} {acc r : Option Nat}
    (hall : fs.all isMinFilter = true) (hne : fs ≠ [] ∨ acc ≠ none)
    (h : minFoldLimit env fs acc = .ok r) : r ≠ none := by
  induction fs generalizing acc with
  | nil =>
    simp [minFoldLimit] at h; subst h
    rcases hne with hne | hne
    · exact absurd rfl hne
    · exact hne
  | cons f fs ih =>
    simp only [List.all_cons, Bool.and_eq_true] at hall
    simp only [minFoldLimit, R.bind_eq_bind] at h
    obtain ⟨o, ho, h⟩ := R.bind_eq_ok h
    cases o with
    | none => exact absurd rfl (minLimitOf_isMin_ne_none hall.1 ho)
    | some k =>
      refine ih hall.2 (.inr ?_) h
      cases acc with
      | none => simp
      | some l => simp only; split <;> simp

theorem minFoldLimit_some_shape {env : Env} {fs : List IRFilter} {k : Nat}
    (h : minFoldLimit env fs none = .ok (some k)) : fs ≠ [] ∧ fs.all isMinFilter = true := by
  constructor
  · rintro rfl; simp [minFoldLimit] at h
  · rw [List.all_eq_true]
    intro f hf
    obtain ⟨kf, _, hk⟩ := (minFoldLimit_mem h).2 f hf
    exact minLimitOf_some_isMin hk

theorem effectiveMinLimit_some {env : Env} {parent : Component} {fold : Fold} {k : Nat}
    (h : effectiveMinLimit env parent fold = .ok (some k)) :
    fold.minEligible parent = true ∧ minFoldLimit env fold.post none = .ok (some k) := by
  simp only [effectiveMinLimit, R.bind_eq_bind] at h
  obtain ⟨o, ho, h⟩ := R.bind_eq_ok h
  cases o with
  | none => simp at h
  | some m =>
    simp only [R.pure_eq_ok, R.ok.injEq] at h
    split at h
    · rename_i hc
      simp only [Option.some.injEq] at h; subst h
      simp only [Bool.and_eq_true] at hc
      obtain ⟨hne, hall⟩ := minFoldLimit_some_shape ho
      refine ⟨?_, ho⟩
      simp only [Fold.minEligible, Bool.and_eq_true, hall, hc.1.1, hc.1.2, hc.2, and_true]
      cases hp : fold.post with
      | nil => exact absurd hp hne
      | cons _ _ => rfl
    · simp at h

theorem foldLimits_parts {env : Env} (hu : env.useLimits = true) {parent : Component} {fold : Fold}
    {lim : Option Nat × Option Nat} (h : foldLimits env parent fold = .ok lim) :
    maxFoldLimit env fold.post none = .ok lim.1 ∧ effectiveMinLimit env parent fold = .ok lim.2 := by
  simp only [foldLimits, hu, if_true, R.bind_eq_bind] at h
  obtain ⟨a, ha, h⟩ := R.bind_eq_ok h
  obtain ⟨b, hb, h⟩ := R.bind_eq_ok h
  simp at h; subst h
  exact ⟨ha, hb⟩

/-! ### no outputs at any depth -/

mutual
theorem componentHasOutputs_false : (comp : Component) → componentHasOutputs comp = false →
    comp.outputs = [] ∧ nestedKeys comp = []
  | .mk _ _ _ folds outs, h => by
    simp only [componentHasOutputs, Bool.or_eq_false_iff, Bool.not_eq_false', List.isEmpty_iff] at h
    exact ⟨h.1, by simp only [nestedKeys]; exact foldsHaveOutputs_false folds h.2⟩
theorem foldsHaveOutputs_false : (fs : List Fold) → foldsHaveOutputs fs = false →
    nestedKeysFolds fs = []
  | [], _ => rfl
  | (.mk _ _ _ _ _ comp _ fouts _) :: fs, h => by
    simp only [foldsHaveOutputs, Bool.or_eq_false_iff, Bool.not_eq_false', List.isEmpty_iff] at h
    obtain ⟨⟨hfo, hc⟩, hrest⟩ := h
    obtain ⟨ho, hn⟩ := componentHasOutputs_false comp hc
    have ho' : comp.outputs = [] := ho
    simp only [nestedKeysFolds, hfo, ho', hn, foldsHaveOutputs_false fs hrest, List.map_nil,
      List.append_nil]
end

/-! ### what the guard gives for one component -/

structure GuardFacts (parent : Component) : Prop where
  vertex : ∀ v ∈ parent.vertices, ∀ f ∈ v.filters, filterReads (truncEids parent) f = false
  post : ∀ g ∈ parent.folds, ∀ f ∈ g.post, filterReads (truncEids parent) f = false
  imports : ∀ g ∈ parent.folds, ∀ r ∈ g.imports, refReads (truncEids parent) r = false
  nested : ∀ g ∈ parent.folds, g.minEligible parent = true → nestedKeys g.component = []
  nodup : (parent.folds.map Fold.eid).Nodup

/-- a well-formed reference that reads the slot of a truncated fold is the count tag of a fold that
passed the eligibility test -/
theorem refReads_elim {parent : Component} {r : FieldRef}
    (h : refReads (truncEids parent) r = true) (hwf : refWF parent r = true) :
    ∃ g ∈ parent.folds, g.minEligible parent = true ∧ isTagOnThisFoldCount g r = true := by
  cases r with
  | ctx v f t => simp [refReads] at h
  | fcount eid rv =>
    simp only [refReads, truncEids, List.contains_eq_mem, List.mem_map, List.mem_filter,
      decide_eq_true_eq] at h
    obtain ⟨g, ⟨hg, he⟩, heq⟩ := h
    simp only [refWF, List.all_eq_true, Bool.or_eq_true, Bool.not_eq_true', beq_eq_false_iff_ne,
      beq_iff_eq] at hwf
    refine ⟨g, hg, he, ?_⟩
    rcases hwf g hg with hne | htv
    · exact absurd heq hne
    · simp [isTagOnThisFoldCount, htv, heq]

theorem eligible_not_tagged {parent : Component} {g : Fold} (he : g.minEligible parent = true) :
    hasTagOnFoldCount parent g = false := by
  simp only [Fold.minEligible, Bool.and_eq_true, Bool.not_eq_true'] at he
  exact he.2

theorem compGuard_facts {parent : Component} (h : compGuard parent = true) : GuardFacts parent := by
  simp only [compGuard, Bool.and_eq_true, List.all_eq_true, decide_eq_true_eq] at h
  obtain ⟨⟨hv, hf⟩, hnd⟩ := h
  refine ⟨?_, ?_, ?_, ?_, hnd⟩
  · intro v hvm f hfm
    rw [Bool.eq_false_iff]
    intro hr
    have hwf := hv v hvm f hfm
    unfold filterReads at hr
    unfold filterRefWF at hwf
    split at hr
    · rename_i r hright
      simp only [hright] at hwf
      obtain ⟨g, hg, he, ht⟩ := refReads_elim hr hwf
      have hno := eligible_not_tagged he
      have : hasTagOnFoldCount parent g = true := by
        simp only [hasTagOnFoldCount, Bool.or_eq_true, List.any_eq_true]
        exact .inl ⟨v, hvm, f, hfm, by simp only [filterTagsFoldCount, hright, ht]⟩
      rw [this] at hno; simp at hno
    · simp at hr
  · intro g' hg' f hfm
    rw [Bool.eq_false_iff]
    intro hr
    have hwf := (hf g' hg').1 f hfm
    unfold filterReads at hr
    unfold filterRefWF at hwf
    split at hr
    · rename_i r hright
      simp only [hright] at hwf
      obtain ⟨g, hg, he, ht⟩ := refReads_elim hr hwf
      have hno := eligible_not_tagged he
      have : hasTagOnFoldCount parent g = true := by
        simp only [hasTagOnFoldCount, Bool.or_eq_true, List.any_eq_true]
        exact .inr ⟨g', hg', .inr ⟨f, hfm, by simp only [filterTagsFoldCount, hright, ht]⟩⟩
      rw [this] at hno; simp at hno
    · simp at hr
  · intro g' hg' r hrm
    rw [Bool.eq_false_iff]
    intro hr
    have hwf := (hf g' hg').2 r hrm
    obtain ⟨g, hg, he, ht⟩ := refReads_elim hr hwf
    have hno := eligible_not_tagged he
    have : hasTagOnFoldCount parent g = true := by
      simp only [hasTagOnFoldCount, Bool.or_eq_true, List.any_eq_true]
      exact .inr ⟨g', hg', .inl ⟨r, hrm, ht⟩⟩
    rw [this] at hno; simp at hno
  · intro g _ he
    simp only [Fold.minEligible, Bool.and_eq_true, Bool.not_eq_true'] at he
    exact (componentHasOutputs_false g.component he.1.1.2).2

theorem inj_of_nodup_map {α β : Type} {f : α → β} {l : List α} (h : (l.map f).Nodup) {a b : α}
    (ha : a ∈ l) (hb : b ∈ l) (hab : f a = f b) : a = b := by
  induction l with
  | nil => simp at ha
  | cons x xs ih =>
    simp only [List.map_cons, List.nodup_cons, List.mem_map, not_exists, not_and] at h
    rcases List.mem_cons.mp ha with rfl | ha' <;> rcases List.mem_cons.mp hb with rfl | hb'
    · rfl
    · exact absurd hab.symm (h.1 b hb')
    · exact absurd hab (h.1 a ha')
    · exact ih h.2 ha' hb'

theorem mem_truncEids_of_eligible {parent : Component} {g : Fold} (hg : g ∈ parent.folds)
    (he : g.minEligible parent = true) : (truncEids parent).contains g.eid = true := by
  simp only [truncEids, List.contains_eq_mem, List.mem_map, List.mem_filter, decide_eq_true_eq]
  exact ⟨g, ⟨hg, he⟩, rfl⟩

theorem not_mem_truncEids_of_not_eligible {parent : Component} {g : Fold} (hg : g ∈ parent.folds)
    (hnd : (parent.folds.map Fold.eid).Nodup) (he : g.minEligible parent = false) :
    (truncEids parent).contains g.eid = false := by
  rw [Bool.eq_false_iff]
  intro hc
  simp only [truncEids, List.contains_eq_mem, List.mem_map, List.mem_filter, decide_eq_true_eq] at hc
  obtain ⟨g', ⟨hg', he'⟩, heq⟩ := hc
  have : g' = g := inj_of_nodup_map hnd hg' hg heq
  subst this
  rw [he] at he'; simp at he'

/-- The limits of a min-eligible fold: no max limit, min limit `k`. -/
theorem foldLimits_eligible {env : Env} (hu : env.useLimits = true) {parent : Component} {g : Fold}
    (he : g.minEligible parent = true)
    {lim : Option Nat × Option Nat} (h : foldLimits env parent g = .ok lim) :
    ∃ k, lim = (none, some k) ∧ minFoldLimit env g.post none = .ok (some k) := by
  obtain ⟨hmax, hmin⟩ := foldLimits_parts hu h
  have he' := he
  simp only [Fold.minEligible, Bool.and_eq_true, Bool.not_eq_true', List.isEmpty_eq_false_iff] at he'
  obtain ⟨⟨⟨⟨hne, hall⟩, hout⟩, hfo⟩, htag⟩ := he'
  rw [maxFoldLimit_allMin env hall] at hmax
  simp only [effectiveMinLimit, R.bind_eq_bind] at hmin
  obtain ⟨o, ho, hmin⟩ := R.bind_eq_ok hmin
  have hne' := minFoldLimit_allMin_ne_none hall (.inl hne) ho
  cases o with
  | none => exact absurd rfl hne'
  | some k =>
    simp only [hout, hfo, htag, Bool.not_false, Bool.and_self, if_true,
      R.pure_eq_ok, R.ok.injEq] at hmin
    refine ⟨k, ?_, ho⟩
    cases lim; simp only [R.ok.injEq] at hmax; simp_all

theorem foldLimits_not_eligible {env : Env} (hu : env.useLimits = true) {parent : Component}
    {g : Fold} (he : g.minEligible parent = false) {lim : Option Nat × Option Nat}
    (h : foldLimits env parent g = .ok lim) :
    lim.2 = none ∧ maxFoldLimit env g.post none = .ok lim.1 := by
  obtain ⟨hmax, hmin⟩ := foldLimits_parts hu h
  refine ⟨?_, hmax⟩
  cases hl : lim.2 with
  | none => rfl
  | some k =>
    rw [hl] at hmin
    rw [(effectiveMinLimit_some hmin).1] at he; simp at he

/-! ### `foldFinish`, once the elements kept are known -/

/-- `foldFinish` after `collect_fold_elements`: slot insertion, removal of the imported tags,
post-filters, outputs. -/
def finishTail (e : Env) (parent : Component) (fold : Fold) (c : Ctx) (elems : Option (List Ctx)) :
    R (Option Ctx) :=
  if (c.foldCount? fold.eid).isSome then .panic "folded_contexts.insert_or_error(..).unwrap()"
  else
    (removeTags fold.imports
        { c with foldCounts := c.foldCounts ++ [(fold.eid, elems.map List.length)] }).bind fun c2 =>
    (applyPostFilters e parent fold fold.post c2).bind fun o =>
    match o with
    | some c3 =>
      (foldOutputs e fold elems).bind fun news => (mergeFolded c3 news).bind fun c4 => .ok (some c4)
    | none => .ok none

/-- the elements kept for one context -/
def keptElems (fromV : Option VertexId) (computed : List Ctx) (lim : Option Nat × Option Nat) :
    Option (Option (List Ctx)) :=
  if fromV.isSome then (collectFoldElements computed lim.1 lim.2).map some else some none

theorem foldFinish_eq (e : Env) (parent : Component) (fold : Fold) (lim : Option Nat × Option Nat)
    (c : Ctx) (computed : List Ctx) :
    foldFinish e parent fold lim c computed =
      match c.vertexAt? fold.fromVid with
      | none => .panic "context.vertices[&expanding_from_vid]"
      | some fromV =>
        match keptElems fromV computed lim with
        | none => .ok none
        | some elems => finishTail e parent fold c elems := by
  unfold foldFinish finishTail keptElems
  cases c.vertexAt? fold.fromVid with
  | none => rfl
  | some fromV =>
    simp only
    generalize (if fromV.isSome = true then Option.map some (collectFoldElements computed lim.1 lim.2)
      else some none) = eo
    cases eo with
    | none => rfl
    | some elems =>
      simp only
      split
      · rfl
      · simp only [R.bind_eq_bind, R.pure_eq_ok]
        congr 1

theorem finishTail_noLimits (env : Env) (parent : Component) (fold : Fold) (c : Ctx)
    (elems : Option (List Ctx)) :
    finishTail env.noLimits parent fold c elems = finishTail env parent fold c elems := by
  simp only [finishTail, applyPostFilters_noLimits, foldOutputs_noLimits]

/-- `finishTail` of a fold whose own slot is not normalised commutes with `norm` (on the context
and, with any other set of slots, on the elements). -/
theorem finishTail_norm (T T' : List Eid) (e : Env) (parent : Component) (fold : Fold) (c : Ctx)
    (elems : Option (List Ctx)) (hT : T.contains fold.eid = false)
    (hpost : ∀ f ∈ fold.post, filterReads T f = false) :
    finishTail e parent fold (c.norm T false) (elems.map (List.map (Ctx.norm T' false))) =
      (finishTail e parent fold c elems).map (Option.map (Ctx.norm T false)) := by
  simp only [finishTail, norm_foldCount?_isSome]
  split
  · rfl
  · have hc1 : ({ c.norm T false with foldCounts := (c.norm T false).foldCounts ++
          [(fold.eid, (elems.map (List.map (Ctx.norm T' false))).map List.length)] } : Ctx) =
        ({ c with foldCounts := c.foldCounts ++ [(fold.eid, elems.map List.length)] } : Ctx).norm T false := by
      have hlen : (elems.map (List.map (Ctx.norm T' false))).map List.length = elems.map List.length := by
        cases elems <;> simp
      simp only [Ctx.norm, List.map_append, List.map_cons, List.map_nil, normSlot, hT, hlen]
      rfl
    rw [hc1, removeTags_norm, R.map_bind, R.bind_map]
    congr 1; funext c2
    rw [applyPostFilters_norm T false e parent fold fold.post c2 hT hpost, R.map_bind, R.bind_map]
    congr 1; funext o
    cases o with
    | none => rfl
    | some c3 =>
      simp only [Option.map_some, foldOutputs_norm, R.bind_map]
      congr 1; funext news
      rw [mergeFolded_norm, R.map_bind]
      rfl

/-- A fold without outputs, count outputs and nested outputs contributes no `folded_values`, provided
its elements carry none. -/
theorem foldOutputs_nil (e : Env) (fold : Fold) (elems : Option (List Ctx))
    (hf : fold.fouts = []) (ho : fold.component.outputs = []) (hn : nestedKeys fold.component = [])
    (hclear : ∀ es, elems = some es → ∀ c ∈ es, c.foldedValues = []) :
    foldOutputs e fold elems = .ok [] := by
  cases elems with
  | none => simp [foldOutputs, hf, ho, hn]
  | some es =>
    cases es with
    | nil => simp [foldOutputs, hf, ho, hn]
    | cons e0 rest =>
      have h0 : e0.foldedValues = [] := hclear _ rfl e0 (by simp)
      simp [foldOutputs, hf, ho, h0, mapR]

/-! ### small facts used by the single-fold theorem -/

theorem removeTag_fields {c c' : Ctx} {k : TagKey} (h : c.removeTag k = .ok c') :
    c'.foldCounts = c.foldCounts ∧ c'.active = c.active := by
  unfold Ctx.removeTag at h
  split at h
  · simp at h; subst h; exact ⟨rfl, rfl⟩
  · simp at h

theorem removeTags_fields {rs : List FieldRef} {c c' : Ctx} (h : removeTags rs c = .ok c') :
    c'.foldCounts = c.foldCounts ∧ c'.active = c.active := by
  induction rs generalizing c with
  | nil => simp [removeTags] at h; subst h; exact ⟨rfl, rfl⟩
  | cons r rs ih =>
    simp only [removeTags] at h
    obtain ⟨c1, h1, h2⟩ := R.bind_eq_ok h
    obtain ⟨a1, a2⟩ := removeTag_fields h1
    obtain ⟨b1, b2⟩ := ih h2
    exact ⟨b1.trans a1, b2.trans a2⟩

theorem foldCount?_append_self {c : Ctx} {e : Eid} (x : Option Nat) (h : c.foldCount? e = none) :
    ({ c with foldCounts := c.foldCounts ++ [(e, x)] } : Ctx).foldCount? e = some x := by
  simp only [Ctx.foldCount?, Option.map_eq_none_iff] at h
  simp [Ctx.foldCount?, List.find?_append, h]

theorem foldCount?_of_foldCounts_eq {c c' : Ctx} (h : c'.foldCounts = c.foldCounts) (e : Eid) :
    c'.foldCount? e = c.foldCount? e := by
  simp only [Ctx.foldCount?, h]

/-- what a successful `finishTail` went through -/
theorem finishTail_ok {e : Env} {parent : Component} {g : Fold} {c : Ctx}
    {elems : Option (List Ctx)} {r : Option Ctx} (h : finishTail e parent g c elems = .ok r) :
    c.foldCount? g.eid = none ∧ ∃ c2,
      removeTags g.imports { c with foldCounts := c.foldCounts ++ [(g.eid, elems.map List.length)] }
        = .ok c2 ∧
      c2.foldCount? g.eid = some (elems.map List.length) ∧ c2.active = c.active ∧
      ∃ o, applyPostFilters e parent g g.post c2 = .ok o ∧
        match o with
        | none => r = none
        | some c3 => ∃ news c4, foldOutputs e g elems = .ok news ∧ mergeFolded c3 news = .ok c4 ∧
            r = some c4 := by
  unfold finishTail at h
  split at h
  · simp at h
  · rename_i hs
    have hnone : c.foldCount? g.eid = none := by
      cases hx : c.foldCount? g.eid <;> simp_all
    obtain ⟨c2, h2, h⟩ := R.bind_eq_ok h
    obtain ⟨o, ho, h⟩ := R.bind_eq_ok h
    obtain ⟨f1, f2⟩ := removeTags_fields h2
    refine ⟨hnone, c2, h2, ?_, f2, o, ho, ?_⟩
    · rw [foldCount?_of_foldCounts_eq f1]; exact foldCount?_append_self _ hnone
    · cases o with
      | none => simp at h; exact h.symm
      | some c3 =>
        simp only at h
        obtain ⟨news, hn, h⟩ := R.bind_eq_ok h
        obtain ⟨c4, h4, h⟩ := R.bind_eq_ok h
        simp at h
        exact ⟨news, c4, hn, h4, h.symm⟩

/-- transfer of a commuting step along `norm`-equal inputs -/
theorem rel_of_comm {α : Type} {T : List Eid} {f : Ctx → R α} {m : α → α}
    (hf : ∀ x, f (x.norm T false) = (f x).map m) {x x' : Ctx}
    (hx : x.norm T false = x'.norm T false) {y : α} (h : f x = .ok y) :
    ∃ y', f x' = .ok y' ∧ m y = m y' := by
  have h1 := hf x
  have h2 := hf x'
  rw [hx, h2, h] at h1
  cases hy : f x' with
  | ok y' => rw [hy] at h1; simp at h1; exact ⟨y', rfl, h1.symm⟩
  | panic s => rw [hy] at h1; simp at h1
  | fuel => rw [hy] at h1; simp at h1

theorem clear_of_map_norm_eq {T' : List Eid} {l l' : List Ctx}
    (h : l.map (Ctx.norm T' false) = l'.map (Ctx.norm T' false))
    (hc : ∀ e ∈ l, e.foldedValues = []) : ∀ e ∈ l', e.foldedValues = [] := by
  induction l generalizing l' with
  | nil => cases l' <;> simp_all
  | cons a as ih =>
    cases l' with
    | nil => simp
    | cons b bs =>
      simp only [List.map_cons, List.cons.injEq] at h
      intro e he
      rcases List.mem_cons.mp he with rfl | he
      · have : (Ctx.norm T' false a).foldedValues = (Ctx.norm T' false e).foldedValues := by rw [h.1]
        exact this.symm.trans (hc a (by simp))
      · exact ih h.2 (fun x hx => hc x (by simp [hx])) e he

theorem norm_append_slot_mem {T : List Eid} {e : Eid} (hT : T.contains e = true) (c : Ctx)
    (x : Nat) :
    ({ c with foldCounts := c.foldCounts ++ [(e, some x)] } : Ctx).norm T false =
      { c.norm T false with foldCounts := (c.norm T false).foldCounts ++ [(e, some 0)] } := by
  have hT' : e ∈ T := by simpa using hT
  simp [Ctx.norm, normSlot, hT']

theorem norm_append_slot_none {T : List Eid} (e : Eid) (c : Ctx) :
    ({ c with foldCounts := c.foldCounts ++ [(e, none)] } : Ctx).norm T false =
      { c.norm T false with foldCounts := (c.norm T false).foldCounts ++ [(e, none)] } := by
  have : normSlot T (e, none) = (e, none) := by
    unfold normSlot; split <;> rfl
  simp [Ctx.norm, this]

end TF.Engine
