/-
C22, part 2: the run with the fold-count limits simulates the run without them.

`Ctx.norm T clr` overwrites the fold-count slots whose Eid is in `T` (the folds truncated by the
min limit) with a fixed value and — when `clr` — empties `foldedValues`.  Every stage of the
interpreter that does not *read* such a slot commutes with `norm` (first half of this file); the
fold stage is where the two runs differ, and there the soundness lemmas of part 1 apply.
-/
import TrustfallModel.Proofs.FoldLimits

namespace TF.Engine
open TF Filter

/-! ### normalisation of the unobserved slots -/

def normSlot (T : List Eid) (p : Eid × Option Nat) : Eid × Option Nat :=
  if T.contains p.1 then (p.1, p.2.map fun _ => 0) else p

def Ctx.norm (T : List Eid) (clr : Bool) (c : Ctx) : Ctx :=
  { c with foldCounts := c.foldCounts.map (normSlot T),
           foldedValues := if clr then [] else c.foldedValues }

section norm
variable (T : List Eid) (clr : Bool)

@[simp] theorem normSlot_fst (p : Eid × Option Nat) : (normSlot T p).1 = p.1 := by
  unfold normSlot; split <;> rfl

@[simp] theorem norm_active (c : Ctx) : (c.norm T clr).active = c.active := rfl
@[simp] theorem norm_vertices (c : Ctx) : (c.norm T clr).vertices = c.vertices := rfl
@[simp] theorem norm_values (c : Ctx) : (c.norm T clr).values = c.values := rfl
@[simp] theorem norm_suspended (c : Ctx) : (c.norm T clr).suspended = c.suspended := rfl
@[simp] theorem norm_importedTags (c : Ctx) : (c.norm T clr).importedTags = c.importedTags := rfl
@[simp] theorem norm_vertexAt? (c : Ctx) (v : Vid) : (c.norm T clr).vertexAt? v = c.vertexAt? v := rfl
@[simp] theorem norm_tag? (c : Ctx) (k : TagKey) : (c.norm T clr).tag? k = c.tag? k := rfl

theorem find?_map_normSlot (l : List (Eid × Option Nat)) (e : Eid) :
    (l.map (normSlot T)).find? (·.1 == e) = (l.find? (·.1 == e)).map (normSlot T) := by
  induction l with
  | nil => rfl
  | cons p ps ih =>
    simp only [List.map_cons, List.find?_cons, normSlot_fst]
    cases p.1 == e <;> simp [ih]

theorem norm_foldCount? (c : Ctx) (e : Eid) :
    (c.norm T clr).foldCount? e =
      if T.contains e then (c.foldCount? e).map (fun o => o.map fun _ => 0) else c.foldCount? e := by
  simp only [Ctx.foldCount?, Ctx.norm, find?_map_normSlot, Option.map_map]
  cases h : c.foldCounts.find? (·.1 == e) with
  | none => simp
  | some p =>
    have hp : p.1 = e := by simpa using List.find?_some h
    simp only [Option.map_some, Function.comp, normSlot, hp]
    split <;> rfl

theorem norm_foldCount?_not_mem (c : Ctx) (e : Eid) (h : T.contains e = false) :
    (c.norm T clr).foldCount? e = c.foldCount? e := by
  rw [norm_foldCount?, h]; rfl

theorem norm_foldCount?_isSome (c : Ctx) (e : Eid) :
    ((c.norm T clr).foldCount? e).isSome = (c.foldCount? e).isSome := by
  rw [norm_foldCount?]; split <;> simp

/-! ### `Ctx` primitives commute with `norm` -/

theorem recordVertex_norm (c : Ctx) (vid : Vid) :
    (c.norm T clr).recordVertex vid = (c.recordVertex vid).map (Ctx.norm T clr) := by
  simp only [Ctx.recordVertex, norm_vertexAt?]
  split <;> rfl

theorem activate_norm (c : Ctx) (vid : Vid) :
    (c.norm T clr).activate vid = (c.activate vid).map (Ctx.norm T clr) := by
  simp only [Ctx.activate, norm_vertexAt?]
  split <;> rfl

theorem splitTo_norm (c : Ctx) (v : Option VertexId) :
    (c.norm T clr).splitTo v = (c.splitTo v).norm T clr := rfl

theorem ensureSuspended_norm (c : Ctx) :
    (c.norm T clr).ensureSuspended = c.ensureSuspended.norm T clr := by
  simp only [Ctx.ensureSuspended, norm_active]
  split <;> rfl

theorem ensureUnsuspended_norm (c : Ctx) :
    (c.norm T clr).ensureUnsuspended = c.ensureUnsuspended.map (Ctx.norm T clr) := by
  simp only [Ctx.ensureUnsuspended, norm_active, norm_suspended]
  split
  · rfl
  · split <;> rfl

theorem pushValue_norm (c : Ctx) (v : Value) :
    (c.norm T clr).pushValue v = (c.pushValue v).norm T clr := rfl

theorem popValue_norm (c : Ctx) :
    (c.norm T clr).popValue = c.popValue.map (fun p => (p.1, p.2.norm T clr)) := by
  simp only [Ctx.popValue, norm_values]
  split <;> rfl

theorem insertTag_norm (c : Ctx) (k : TagKey) (t : Tagged) :
    (c.norm T clr).insertTag k t = (c.insertTag k t).norm T clr := rfl

theorem removeTag_norm (c : Ctx) (k : TagKey) :
    (c.norm T clr).removeTag k = (c.removeTag k).map (Ctx.norm T clr) := by
  simp only [Ctx.removeTag, norm_tag?]
  split <;> rfl

/-! ### list combinators -/

theorem R.map_map {α β γ : Type} (x : R α) (f : α → β) (g : β → γ) : (x.map f).map g = x.map (g ∘ f) := by
  cases x <;> rfl

theorem R.bind_map {α β γ : Type} (x : R α) (f : α → R β) (g : β → γ) :
    (x.bind f).map g = x.bind fun a => (f a).map g := by
  cases x <;> rfl

theorem R.map_bind {α β γ : Type} (x : R α) (g : α → β) (f : β → R γ) :
    (x.map g).bind f = x.bind fun a => f (g a) := by
  cases x <;> rfl

theorem mapR_comm {α β α' β' : Type} (f : α → R β) (f' : α' → R β') (g : α → α') (g' : β → β')
    (h : ∀ a, f' (g a) = (f a).map g') (l : List α) :
    mapR f' (l.map g) = (mapR f l).map (List.map g') := by
  induction l with
  | nil => rfl
  | cons a as ih =>
    simp only [List.map_cons, mapR, h a, ih]
    cases f a <;> simp
    cases mapR f as <;> simp

theorem filterMapR_comm {α β α' β' : Type} (f : α → R (Option β)) (f' : α' → R (Option β'))
    (g : α → α') (g' : β → β') (h : ∀ a, f' (g a) = (f a).map (Option.map g')) (l : List α) :
    filterMapR f' (l.map g) = (filterMapR f l).map (List.map g') := by
  induction l with
  | nil => rfl
  | cons a as ih =>
    simp only [List.map_cons, filterMapR, h a, ih]
    cases f a <;> simp
    cases filterMapR f as <;> simp
    rename_i o _; cases o <;> simp

theorem flatMapR_comm {α β α' β' : Type} (f : α → R (List β)) (f' : α' → R (List β'))
    (g : α → α') (g' : β → β') (h : ∀ a, f' (g a) = (f a).map (List.map g')) (l : List α) :
    flatMapR f' (l.map g) = (flatMapR f l).map (List.map g') := by
  induction l with
  | nil => rfl
  | cons a as ih =>
    simp only [List.map_cons, flatMapR, h a, ih]
    cases f a <;> simp
    cases flatMapR f as <;> simp

/-- A stage commutes with `norm`. -/
def Comm (S : List Ctx → R (List Ctx)) : Prop :=
  ∀ l, S (l.map (Ctx.norm T clr)) = (S l).map (List.map (Ctx.norm T clr))

variable {T clr}

theorem Comm.bind {S₁ S₂ : List Ctx → R (List Ctx)} (h₁ : Comm T clr S₁) (h₂ : Comm T clr S₂) :
    Comm T clr (fun l => (S₁ l).bind S₂) := by
  intro l
  show (S₁ _).bind S₂ = ((S₁ l).bind S₂).map _
  rw [h₁ l, R.map_bind, R.bind_map]
  congr 1; funext a; exact h₂ a

theorem Comm.guard {γ : Type} (g : R γ) {S : γ → List Ctx → R (List Ctx)} (h : ∀ x, Comm T clr (S x)) :
    Comm T clr (fun l => g.bind fun x => S x l) := by
  intro l
  cases g with
  | ok x => exact h x l
  | panic s => rfl
  | fuel => rfl

theorem Comm.mapR {f : Ctx → R Ctx} (h : ∀ c, f (c.norm T clr) = (f c).map (Ctx.norm T clr)) :
    Comm T clr (mapR f) := fun l => mapR_comm f f _ _ h l

theorem Comm.filterMapR {f : Ctx → R (Option Ctx)}
    (h : ∀ c, f (c.norm T clr) = (f c).map (Option.map (Ctx.norm T clr))) :
    Comm T clr (filterMapR f) := fun l => filterMapR_comm f f _ _ h l

theorem Comm.flatMapR {f : Ctx → R (List Ctx)}
    (h : ∀ c, f (c.norm T clr) = (f c).map (List.map (Ctx.norm T clr))) :
    Comm T clr (flatMapR f) := fun l => flatMapR_comm f f _ _ h l

theorem Comm.ok : Comm T clr (fun l => R.ok l) := fun _ => rfl
theorem Comm.fail (r : R (List Ctx)) (h : ∀ x, r ≠ .ok x) : Comm T clr (fun _ => r) := by
  intro l; cases r with
  | ok x => exact absurd rfl (h x)
  | panic s => rfl
  | fuel => rfl

variable (T clr)

/-! ### filters -/

/-- the tag reference reads one of the normalised slots -/
def refReads : FieldRef → Bool
  | .fcount eid _ => T.contains eid
  | _ => false

def filterReads (f : IRFilter) : Bool :=
  match f.right with
  | some (.tag r) => refReads T r
  | _ => false

theorem tagValue_norm (env : Env) (comp : Component) (vid : Vid) (r : FieldRef) (c : Ctx)
    (h : refReads T r = false) :
    tagValue env comp vid r (c.norm T clr) = tagValue env comp vid r c := by
  cases r with
  | ctx v field ty => simp only [tagValue, norm_active, norm_vertexAt?, norm_tag?]
  | fcount eid rv =>
    simp only [refReads] at h
    simp only [tagValue, norm_tag?, norm_foldCount?_not_mem T clr c eid h]

theorem applyFilter_norm (env : Env) (comp : Component) (vid : Vid) (f : IRFilter)
    (h : filterReads T f = false) : Comm T clr (applyFilter env comp vid f) := by
  unfold applyFilter
  split
  · refine Comm.filterMapR fun c => ?_
    simp only [R.bind_eq_bind, popValue_norm, R.map_bind]
    cases c.popValue <;> simp
  · refine Comm.guard _ fun right => Comm.guard _ fun _ => Comm.filterMapR fun c => ?_
    simp only [R.bind_eq_bind, popValue_norm, R.map_bind]
    cases c.popValue <;> simp
    split
    · rfl
    · generalize R.ofOutcome _ (applyStatic _ _ _ _) = X
      cases X <;> simp
  · rename_i o r hop hr
    have hr' : refReads T r = false := by simpa [filterReads, hr] using h
    refine Comm.filterMapR fun c => ?_
    simp only [R.bind_eq_bind, tagValue_norm T clr env comp vid r c hr', popValue_norm, R.map_bind]
    cases tagValue env comp vid r c <;> simp
    cases c.popValue <;> simp
    split
    · rfl
    · split
      · rfl
      · generalize R.ofOutcome _ (applyTagged _ _ _ _) = X
        cases X <;> simp
  · exact Comm.fail _ (by simp)

/-! ### entering a vertex -/

theorem coerceIfNeeded_norm (env : Env) (v : IRVertex) : Comm T clr (coerceIfNeeded env v) := by
  unfold coerceIfNeeded
  split
  · exact Comm.ok
  · refine Comm.filterMapR fun c => ?_
    simp only [R.bind_eq_bind, norm_active]
    cases env.adapter.coerce v.vid _ v.typeName c.active <;> simp

theorem computeLocalField_norm (env : Env) (vid : Vid) (t field : Name) :
    Comm T clr (computeLocalField env vid t field) := by
  unfold computeLocalField
  refine Comm.mapR fun c => ?_
  simp only [R.bind_eq_bind, norm_active]
  cases env.adapter.prop vid t field c.active <;> rfl

theorem applyLocalFieldFilter_norm (env : Env) (comp : Component) (vid : Vid) (f : IRFilter)
    (h : filterReads T f = false) : Comm T clr (applyLocalFieldFilter env comp vid f) := by
  unfold applyLocalFieldFilter
  split
  · exact Comm.guard _ fun t => Comm.bind (computeLocalField_norm T clr env vid t _)
      (applyFilter_norm T clr env comp vid f h)
  · exact Comm.fail _ (by simp)

theorem applyLocalFilters_norm (env : Env) (comp : Component) (vid : Vid) (fs : List IRFilter)
    (h : ∀ f ∈ fs, filterReads T f = false) : Comm T clr (applyLocalFilters env comp vid fs) := by
  induction fs with
  | nil => exact Comm.ok
  | cons f fs ih =>
    exact Comm.bind (applyLocalFieldFilter_norm T clr env comp vid f (h f (by simp)))
      (ih fun g hg => h g (by simp [hg]))

theorem enterVertex_norm (env : Env) (comp : Component) (v : IRVertex)
    (h : ∀ f ∈ v.filters, filterReads T f = false) : Comm T clr (enterVertex env comp v) :=
  Comm.bind (coerceIfNeeded_norm T clr env v)
    (Comm.bind (applyLocalFilters_norm T clr env comp v.vid v.filters h)
      (Comm.mapR fun c => recordVertex_norm T clr c v.vid))

/-! ### edges -/

theorem expandOne_norm (c : Ctx) (ns : List VertexId) (opt : Bool) :
    expandOne (c.norm T clr) ns opt = (expandOne c ns opt).map (Ctx.norm T clr) := by
  simp only [expandOne, norm_active, List.map_append, List.map_map]
  congr 1
  split <;> simp_all [splitTo_norm]

theorem expandNonRecursive_norm (env : Env) (fromType : Name) (e : IREdge) :
    Comm T clr (expandNonRecursive env fromType e) := by
  unfold expandNonRecursive
  refine Comm.flatMapR fun c => ?_
  simp only [R.bind_eq_bind, activate_norm, R.map_bind]
  cases c.activate e.fromVid <;> simp
  rename_i c'
  cases env.adapter.nbrs e.eid fromType e.name e.params c'.active <;> simp [expandOne_norm]

/-! ### recursive edges: contexts with piggy-backed riders -/

mutual
def PCtx.norm : PCtx → PCtx
  | .mk c piggy => .mk (c.norm T clr) (PCtx.normList piggy)
def PCtx.normList : List PCtx → List PCtx
  | [] => []
  | p :: ps => PCtx.norm p :: PCtx.normList ps
end

theorem normList_eq_map (ps : List PCtx) : PCtx.normList T clr ps = ps.map (PCtx.norm T clr) := by
  induction ps with
  | nil => rfl
  | cons p ps ih => simp [PCtx.normList, ih]

mutual
theorem unpack_norm (p : PCtx) : unpack (p.norm T clr) = (unpack p).map (Ctx.norm T clr) := by
  cases p with
  | mk c piggy => simp only [PCtx.norm, unpack, List.map_append, List.map_cons, List.map_nil, unpackList_norm piggy]
theorem unpackList_norm (ps : List PCtx) :
    unpackList (PCtx.normList T clr ps) = (unpackList ps).map (Ctx.norm T clr) := by
  cases ps with
  | nil => rfl
  | cons p ps => simp only [PCtx.normList, unpackList, List.map_append, unpack_norm p, unpackList_norm ps]
end

theorem recExpandOne_norm (ns : List VertexId) (p : PCtx) :
    recExpandOne ns (p.norm T clr) = (recExpandOne ns p).map (PCtx.norm T clr) := by
  cases p with
  | mk c piggy =>
    cases ns with
    | nil => rfl
    | cons n rest =>
      simp only [PCtx.norm, recExpandOne, List.map_cons, List.map_map, PCtx.normList,
        ensureSuspended_norm, splitTo_norm]
      congr 1

theorem recExpandLevel_norm (env : Env) (e : IREdge) (ft : Name) (ps : List PCtx) :
    recExpandLevel env e ft (ps.map (PCtx.norm T clr)) =
      (recExpandLevel env e ft ps).map (List.map (PCtx.norm T clr)) := by
  unfold recExpandLevel
  refine flatMapR_comm _ _ _ _ (fun p => ?_) ps
  cases p with
  | mk c piggy =>
    simp only [PCtx.norm, norm_active, R.bind_eq_bind]
    cases env.adapter.nbrs e.eid ft e.name e.params c.active <;> simp
    rename_i ns
    have := recExpandOne_norm T clr ns (.mk c piggy)
    simpa [PCtx.norm] using this

theorem recCoerceLevel_norm (env : Env) (e : IREdge) (et ct : Name) (ps : List PCtx) :
    recCoerceLevel env e et ct (ps.map (PCtx.norm T clr)) =
      (recCoerceLevel env e et ct ps).map (List.map (PCtx.norm T clr)) := by
  unfold recCoerceLevel
  refine mapR_comm _ _ _ _ (fun p => ?_) ps
  cases p with
  | mk c piggy =>
    simp only [PCtx.norm, norm_active, R.bind_eq_bind]
    cases env.adapter.coerce e.fromVid et ct c.active <;> simp
    split <;> simp [PCtx.norm, ensureSuspended_norm]

theorem recLevels_norm (env : Env) (e : IREdge) (et rf : Name) (ct : Option Name) (k : Nat)
    (ps : List PCtx) :
    recLevels env e et rf ct k (ps.map (PCtx.norm T clr)) =
      (recLevels env e et rf ct k ps).map (List.map (PCtx.norm T clr)) := by
  induction k generalizing ps with
  | zero => rfl
  | succ k ih =>
    simp only [recLevels]
    cases ct with
    | none =>
      simp only [R.bind_ok, recExpandLevel_norm, R.map_bind, R.bind_map]
      congr 1; funext a; exact ih a
    | some t =>
      simp only [recCoerceLevel_norm, recExpandLevel_norm, R.map_bind, R.bind_map]
      congr 1; funext a; congr 1; funext b; exact ih b

theorem recInit_norm (e : IREdge) (c : Ctx) :
    recInit e (c.norm T clr) = (recInit e c).map (Ctx.norm T clr) := by
  obtain ⟨a, vs, vals, su, fc, fv, it⟩ := c
  cases a with
  | none => exact activate_norm T clr ⟨none, vs, vals, none :: su, fc, fv, it⟩ e.fromVid
  | some x => exact activate_norm T clr ⟨some x, vs, vals, su, fc, fv, it⟩ e.fromVid

theorem recFinish_norm (env : Env) (e : IREdge) (r : Recursive) (fromV toV : IRVertex) :
    Comm T clr (recFinish env e r fromV toV) := by
  intro init
  simp only [recFinish]
  have h0 : (init.map (Ctx.norm T clr)).map (fun c => PCtx.mk c []) =
      (init.map fun c => PCtx.mk c []).map (PCtx.norm T clr) := by
    simp [List.map_map, Function.comp_def, PCtx.norm, PCtx.normList]
  rw [h0, recExpandLevel_norm, R.map_bind, R.bind_map]
  congr 1; funext l1
  rw [recLevels_norm, R.map_bind, R.bind_map]
  congr 1; funext fin
  rw [← normList_eq_map, unpackList_norm]
  exact mapR_comm _ _ _ _ (ensureUnsuspended_norm T clr) _

theorem expandRecursive_norm (env : Env) (e : IREdge) (r : Recursive) (fromV toV : IRVertex) :
    Comm T clr (expandRecursive env e r fromV toV) :=
  Comm.bind (Comm.mapR (recInit_norm T clr e)) (recFinish_norm T clr env e r fromV toV)

theorem expandEdge_norm (env : Env) (comp : Component) (e : IREdge)
    (h : ∀ v ∈ comp.vertices, ∀ f ∈ v.filters, filterReads T f = false) :
    Comm T clr (expandEdge env comp e) := by
  unfold expandEdge
  split
  · rename_i fromV toV hf ht
    have hmem : toV ∈ comp.vertices := List.mem_of_find?_eq_some ht
    refine Comm.bind ?_ (enterVertex_norm T clr env comp toV (h toV hmem))
    cases e.recursive with
    | none => exact expandNonRecursive_norm T clr env _ e
    | some r => exact expandRecursive_norm T clr env e r fromV toV
  · exact Comm.fail _ (by simp)

/-! ### the fold stage: the parts that do not depend on the limits -/

theorem importTag_norm (env : Env) (parent : Component) (r : FieldRef) (c : Ctx)
    (h : refReads T r = false) :
    importTag env parent r (c.norm T clr) = (importTag env parent r c).map (Ctx.norm T clr) := by
  cases r with
  | ctx vid field ty =>
    simp only [importTag]
    split
    · rfl
    · simp only [R.bind_eq_bind, activate_norm, R.map_bind]
      cases c.activate vid <;> simp
      rename_i vx _ c'
      cases env.adapter.prop vid vx.typeName field c'.active <;> simp
      split <;> rfl
  | fcount eid rv =>
    simp only [refReads] at h
    simp only [importTag, norm_foldCount?_not_mem T clr c eid h]
    split <;> rfl

theorem importTags_norm (env : Env) (parent : Component) (rs : List FieldRef) (c : Ctx)
    (h : ∀ r ∈ rs, refReads T r = false) :
    importTags env parent rs (c.norm T clr) = (importTags env parent rs c).map (Ctx.norm T clr) := by
  induction rs generalizing c with
  | nil => rfl
  | cons r rs ih =>
    simp only [importTags, importTag_norm T clr env parent r c (h r (by simp)), R.map_bind, R.bind_map]
    congr 1; funext c'
    exact ih c' fun r' hr' => h r' (by simp [hr'])

theorem removeTags_norm (rs : List FieldRef) (c : Ctx) :
    removeTags rs (c.norm T clr) = (removeTags rs c).map (Ctx.norm T clr) := by
  induction rs generalizing c with
  | nil => rfl
  | cons r rs ih =>
    simp only [removeTags, removeTag_norm, R.map_bind, R.bind_map]
    congr 1; funext c'
    exact ih c'

/-- post-filters of a fold whose own slot is not normalised -/
theorem applyPostFilter_norm (env : Env) (parent : Component) (fold : Fold) (f : IRFilter) (c : Ctx)
    (hT : T.contains fold.eid = false) (hf : filterReads T f = false) :
    applyPostFilter env parent fold f (c.norm T clr) =
      (applyPostFilter env parent fold f c).map (Option.map (Ctx.norm T clr)) := by
  simp only [applyPostFilter, norm_foldCount?_not_mem T clr c fold.eid hT]
  split
  · rename_i n _
    have := applyFilter_norm T clr env parent fold.fromVid f hf [c.pushValue (.uint64 (UInt64.ofNat n))]
    simp only [List.map_cons, List.map_nil, ← pushValue_norm] at this
    simp only [R.bind_eq_bind, this, R.map_bind]
    cases applyFilter env parent fold.fromVid f [c.pushValue (.uint64 (UInt64.ofNat n))] <;> simp
    rename_i l; cases l <;> rfl
  · have := applyFilter_norm T clr env parent fold.fromVid f hf [c.pushValue .null]
    simp only [List.map_cons, List.map_nil, ← pushValue_norm] at this
    simp only [R.bind_eq_bind, this, R.map_bind]
    cases applyFilter env parent fold.fromVid f [c.pushValue .null] <;> simp
    rename_i l; cases l <;> rfl
  · rfl

theorem applyPostFilters_norm (env : Env) (parent : Component) (fold : Fold) (fs : List IRFilter)
    (c : Ctx) (hT : T.contains fold.eid = false) (hf : ∀ f ∈ fs, filterReads T f = false) :
    applyPostFilters env parent fold fs (c.norm T clr) =
      (applyPostFilters env parent fold fs c).map (Option.map (Ctx.norm T clr)) := by
  induction fs generalizing c with
  | nil => rfl
  | cons f fs ih =>
    simp only [applyPostFilters, R.bind_eq_bind,
      applyPostFilter_norm T clr env parent fold f c hT (hf f (by simp)), R.map_bind, R.bind_map]
    congr 1; funext o
    cases o with
    | none => rfl
    | some c' => exact ih c' fun g hg => hf g (by simp [hg])

end norm

/-! #### `foldedValues` is read by these: `clr = false` only -/

section keep
variable (T : List Eid)

theorem mergeFolded_norm (c : Ctx) (news : List ((Eid × Name) × Option Value)) :
    mergeFolded (c.norm T false) news = (mergeFolded c news).map (Ctx.norm T false) := by
  simp only [mergeFolded]
  show (if news.any (fun p => (lookupFolded c.foldedValues p.1).isSome) then _ else _) = _
  split <;> rfl

theorem mapR_map {α β γ : Type} (f : β → R γ) (g : α → β) (l : List α) :
    mapR f (l.map g) = mapR (fun a => f (g a)) l := by
  induction l with
  | nil => rfl
  | cons a as ih => simp only [List.map_cons, mapR, ih]

theorem foldOutputColumn_norm (env : Env) (comp : Component) (o : OutputDef) (es : List Ctx) :
    foldOutputColumn env comp o (es.map (Ctx.norm T false)) = foldOutputColumn env comp o es := by
  simp only [foldOutputColumn, mapR_map, norm_vertexAt?]

theorem foldOutputs_norm (env : Env) (fold : Fold) (elems : Option (List Ctx)) :
    foldOutputs env fold (elems.map (List.map (Ctx.norm T false))) = foldOutputs env fold elems := by
  cases elems with
  | none => rfl
  | some es =>
    cases es with
    | nil => rfl
    | cons e0 rest =>
      simp only [Option.map_some, List.map_cons, foldOutputs, List.length_cons, List.length_map]
      have hcol : ∀ o : OutputDef,
          foldOutputColumn env fold.component o (Ctx.norm T false e0 :: rest.map (Ctx.norm T false)) =
            foldOutputColumn env fold.component o (e0 :: rest) :=
        fun o => foldOutputColumn_norm T env fold.component o (e0 :: rest)
      have hfv : ∀ c : Ctx, (c.norm T false).foldedValues = c.foldedValues := fun _ => rfl
      have hfm : ∀ k : Eid × Name,
          (List.filterMap (fun c : Ctx => (lookupFolded c.foldedValues k).map fun ov => ov.getD Value.null)
              (Ctx.norm T false e0 :: rest.map (Ctx.norm T false))) =
            (List.filterMap (fun c : Ctx => (lookupFolded c.foldedValues k).map fun ov => ov.getD Value.null)
              (e0 :: rest)) := by
        intro k
        rw [← List.map_cons, List.filterMap_map]
        rfl
      simp only [hcol, hfv, hfm]

theorem constructRow_norm (env : Env) (comp : Component) (c : Ctx) :
    constructRow env comp (c.norm T false) = constructRow env comp c := rfl

end keep




end TF.Engine
