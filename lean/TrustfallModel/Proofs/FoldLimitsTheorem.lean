/-
C22, part 5: the global simulation — for a query with consistent fold-count references, the run with
the fold-count limits yields the rows of the run without them.
-/
import TrustfallModel.Proofs.FoldLimitsGlobal

namespace TF.Engine
open TF Filter

/-- The semantic side conditions for one fold: its limits can be computed (the count-filter
arguments are integers / lists of integers — argument validation), and it never has 2^64 or more
elements (`elements.len() as u64` is exact). -/
structure FoldOK (env : Env) (parent : Component) (g : Fold) : Prop where
  limits : ∃ lim, foldLimits env parent g = .ok lim
  small : ∀ (fuel : Nat) (c : Ctx) (fromType : Name) (ns : List VertexId) (elems : List Ctx),
    env.adapter.nbrs g.eid fromType g.name g.params c.active = .ok ns →
    computeComponent env.noLimits fuel g.component (foldStart c ns) = .ok elems →
    elems.length < 2 ^ 64

/-- `norm` with the truncated folds of a component -/
abbrev nrm (comp : Component) : Ctx → Ctx := Ctx.norm (truncEids comp) false

theorem mapR_activate_inv {vid : Vid} {l l2 : List Ctx}
    (h : mapR (fun c => c.activate vid) l = .ok l2) : ∀ c ∈ l2, c.vertexAt? vid = some c.active := by
  intro c hc
  obtain ⟨x, _, hx⟩ := mapR_mem h c hc
  exact activate_inv hx

theorem map_nrm_mem {N : Ctx → Ctx} {l l' : List Ctx} (h : l.map N = l'.map N)
    {P : Ctx → Prop} (hP : ∀ x y, N x = N y → P x → P y) (hl : ∀ c ∈ l, P c) : ∀ c ∈ l', P c := by
  induction l generalizing l' with
  | nil => cases l' <;> simp_all
  | cons a as ih =>
    cases l' with
    | nil => simp
    | cons b bs =>
      simp only [List.map_cons, List.cons.injEq] at h
      intro c hc
      rcases List.mem_cons.mp hc with rfl | hc
      · exact hP a c h.1 (hl a (by simp))
      · exact ih h.2 (fun x hx => hl x (by simp [hx])) c hc

theorem sim_component {env : Env} (hu : env.useLimits = true) :
    ∀ (fuel : Nat) (comp : Component), countRefsWFC comp = true → AllFoldsC (FoldOK env) comp →
    ∀ (ctxs ctxs' out : List Ctx), ctxs.map (nrm comp) = ctxs'.map (nrm comp) →
    computeComponent env.noLimits fuel comp ctxs = .ok out →
    ∃ out', computeComponent env fuel comp ctxs' = .ok out' ∧ out.map (nrm comp) = out'.map (nrm comp) := by
  intro fuel
  induction fuel with
  | zero => intro comp _ _ ctxs ctxs' out _ h; simp [computeComponent] at h
  | succ fuel ih =>
    intro comp hguard hok ctxs ctxs' out hctx h
    obtain ⟨hcg, hsub⟩ := countRefsWFC_iff hguard
    have hgf := compGuard_facts hcg
    have hfolds := AllFoldsC_mem hok
    rw [computeComponent] at h
    rw [computeComponent]
    split at h
    · simp at h
    · rename_i rootV hroot
      try simp only [hroot]
      obtain ⟨ctxs1, h1, h⟩ := R.bind_eq_ok h
      obtain ⟨stages, hst, h⟩ := R.bind_eq_ok h
      have hrootmem : rootV ∈ comp.vertices := List.mem_of_find?_eq_some hroot
      rw [enterVertex_noLimits] at h1
      obtain ⟨ctxs1', h1', hrel1⟩ :=
        (enterVertex_norm (truncEids comp) false env comp rootV (hgf.vertex rootV hrootmem)).rel hctx h1
      rw [h1', hst]
      simp only [R.bind_ok]
      have hstfolds := mergeStages_folds hst
      have stages_sim : ∀ (stages : List Stage), (∀ g, Stage.fold g ∈ stages → g ∈ comp.folds) →
          ∀ (visited : List Vid) (ctxs ctxs' out : List Ctx), ctxs.map (nrm comp) = ctxs'.map (nrm comp) →
          runStages env.noLimits fuel comp stages visited ctxs = .ok out →
          ∃ out', runStages env fuel comp stages visited ctxs' = .ok out' ∧
            out.map (nrm comp) = out'.map (nrm comp) := by
        intro stages
        induction stages with
        | nil =>
          intro _ visited ctxs ctxs' out hc h
          simp [runStages] at h; subst h
          exact ⟨ctxs', by simp [runStages], hc⟩
        | cons st rest ihs =>
          intro hmem visited ctxs ctxs' out hc h
          cases st with
          | edge ed =>
            rw [runStages] at h
            rw [runStages]
            obtain ⟨v', hv, h⟩ := R.bind_eq_ok h
            obtain ⟨ctxsE, he, h⟩ := R.bind_eq_ok h
            rw [expandEdge_noLimits] at he
            obtain ⟨ctxsE', he', hrelE⟩ :=
              (expandEdge_norm (truncEids comp) false env comp ed hgf.vertex).rel hc he
            rw [hv, he']
            simp only [R.bind_ok]
            exact ihs (fun g hg => hmem g (by simp [hg])) v' ctxsE ctxsE' out hrelE h
          | fold g =>
            rw [runStages] at h
            rw [runStages]
            obtain ⟨v', hv, h⟩ := R.bind_eq_ok h
            obtain ⟨ctxsF, hf, h⟩ := R.bind_eq_ok h
            rw [hv]
            simp only [R.bind_ok]
            have hg : g ∈ comp.folds := hmem g (by simp)
            obtain ⟨hgok, hgall⟩ := hfolds g hg
            obtain ⟨lim, hlim⟩ := hgok.limits
            -- the fold stage
            have fold_sim : ∃ ctxsF', computeFold env fuel comp g ctxs' = .ok ctxsF' ∧
                ctxsF.map (nrm comp) = ctxsF'.map (nrm comp) := by
              rw [computeFold] at hf
              rw [computeFold]
              split at hf
              · simp at hf
              · rename_i fromV hfrom
                try simp only [hfrom]
                obtain ⟨l1, hl1, hf⟩ := R.bind_eq_ok hf
                obtain ⟨l2, hl2, hf⟩ := R.bind_eq_ok hf
                obtain ⟨lim0, hlim0, hf⟩ := R.bind_eq_ok hf
                rw [foldLimits_noLimits] at hlim0
                simp only [R.ok.injEq] at hlim0; subst hlim0
                have himp : importTags env.noLimits comp g.imports = importTags env comp g.imports :=
                  funext fun c => importTags_noLimits env comp g.imports c
                rw [himp] at hl1
                obtain ⟨l1', hl1', hr1⟩ := (Comm.mapR (T := truncEids comp) (clr := false) fun c =>
                  importTags_norm (truncEids comp) false env comp g.imports c (hgf.imports g hg)).rel hc hl1
                obtain ⟨l2', hl2', hr2⟩ := (Comm.mapR (T := truncEids comp) (clr := false) fun c =>
                  activate_norm (truncEids comp) false c g.fromVid).rel hr1 hl2
                simp only [hl1', R.bind_ok, hl2', hlim]
                have hinv := mapR_activate_inv hl2
                refine filterMapR_rel hr2 ?_ hf
                intro c hcmem c' hcc r hone
                rw [foldOne] at hone
                rw [foldOne]
                obtain ⟨ns, hns, hone⟩ := R.bind_eq_ok hone
                obtain ⟨computed, hcomp, hone⟩ := R.bind_eq_ok hone
                have hact' : c'.active = c.active := (congrArg Ctx.active hcc).symm
                have htags : c'.importedTags = c.importedTags := (congrArg Ctx.importedTags hcc).symm
                have hstart : foldStart c' ns = foldStart c ns := by simp only [foldStart, htags]
                have hns' : env.adapter.nbrs g.eid fromV.typeName g.name g.params c'.active = .ok ns := by
                  rw [hact']; exact hns
                rw [hns']
                simp only [R.bind_ok, hstart]
                obtain ⟨computed', hcomp', hrelc⟩ :=
                  ih g.component (hsub g hg) hgall _ _ computed rfl hcomp
                rw [hcomp']
                simp only [R.bind_ok]
                refine foldFinish_sim hu hgf hg hlim hcc (hinv c hcmem) (truncEids g.component) hrelc ?_
                  (hgok.small fuel c fromV.typeName ns computed hns hcomp) hone
                intro he
                exact clear_component env.noLimits fuel g.component (hgf.nested g hg he) _ _
                  (clear_foldStart c ns) hcomp
            obtain ⟨ctxsF', hf', hrelF⟩ := fold_sim
            rw [hf']
            simp only [R.bind_ok]
            exact ihs (fun g' hg' => hmem g' (by simp [hg'])) v' ctxsF ctxsF' out hrelF h
      exact stages_sim stages hstfolds _ ctxs1 ctxs1' out hrel1 h

theorem noLimits_eq_self {env : Env} (h : env.useLimits = false) : env.noLimits = env := by
  cases env; simp_all [Env.noLimits]

theorem mapR_congr_norm {β : Type} {f : Ctx → R β} {N : Ctx → Ctx} (hf : ∀ c, f (N c) = f c)
    {l l' : List Ctx} (h : l.map N = l'.map N) : mapR f l = mapR f l' := by
  have e1 : mapR f (l.map N) = mapR f l := by rw [mapR_map]; simp only [hf]
  have e2 : mapR f (l'.map N) = mapR f l' := by rw [mapR_map]; simp only [hf]
  rw [← e1, h, e2]

/-- **Global simulation.**  For a query whose fold-count references are consistent (`countRefsWFC`)
and under the side conditions `FoldOK` for every fold of the query, a successful run of the reference semantics (no limits) is reproduced, row for row, by the
run with the fold-count limits. -/
theorem interpret_sim (env : Env) (ir : IRQuery)
    (hguard : countRefsWFC ir.rootComponent = true)
    (hok : AllFoldsC (FoldOK env) ir.rootComponent)
    {rows : List Row} (h : interpret env.noLimits ir = .ok rows) : interpret env ir = .ok rows := by
  cases hu : env.useLimits with
  | false => rw [noLimits_eq_self hu] at h; exact h
  | true =>
    unfold interpret at h ⊢
    obtain ⟨starts, hs, h⟩ := R.bind_eq_ok h
    have hs' : env.adapter.start ir.rootName ir.rootParams ir.rootComponent.root = .ok starts := hs
    rw [hs']
    simp only [R.bind_ok]
    unfold interpretFrom at h ⊢
    obtain ⟨out, hc, h⟩ := R.bind_eq_ok h
    obtain ⟨out', hc', hrel⟩ := sim_component hu (fuelFor ir) ir.rootComponent hguard hok _ _ out rfl hc
    rw [hc']
    simp only [R.bind_ok]
    have hfun : constructRow env.noLimits ir.rootComponent = constructRow env ir.rootComponent :=
      funext fun c => constructRow_noLimits env ir.rootComponent c
    rw [hfun] at h
    rw [← mapR_congr_norm (N := nrm ir.rootComponent)
      (fun c => constructRow_norm (truncEids ir.rootComponent) env ir.rootComponent c) hrel]
    exact h

/-! ### typed count-filter arguments make the limit computations total -/

def isIntValue (v : Value) : Bool := v.numVal.isSome

/-- What argument validation guarantees for the variable of a count filter: an integer for the
comparison operators, a list of integers for `one_of` (the inferred variable types are `Int!` and
`[Int!]!`). Filters the limit computations do not look at are unconstrained. -/
def countArgTyped (env : Env) (f : IRFilter) : Prop :=
  match f.left, f.op, f.right with
  | .count, .bin .oneOf, some (.var n _) =>
    ∃ vs, env.arg n = .ok (.list vs) ∧ ∀ v ∈ vs, isIntValue v = true
  | .count, .bin .equals, some (.var n _)
  | .count, .bin .lessThanOrEqual, some (.var n _)
  | .count, .bin .lessThan, some (.var n _)
  | .count, .bin .greaterThanOrEqual, some (.var n _)
  | .count, .bin .greaterThan, some (.var n _) => ∃ v, env.arg n = .ok v ∧ isIntValue v = true
  | _, _, _ => True

theorem usizeExpect_of_int {v : Value} (h : isIntValue v = true) : ∃ k, usizeExpect v = .ok k := by
  cases v <;> simp [isIntValue, Value.numVal] at h
  · exact ⟨_, rfl⟩
  · exact ⟨_, rfl⟩

theorem listMaxR_of_ints {vs : List Value} (h : ∀ v ∈ vs, isIntValue v = true) :
    ∃ r, listMaxR vs = .ok r := by
  induction vs with
  | nil => exact ⟨none, rfl⟩
  | cons v vs ih =>
    obtain ⟨k, hk⟩ := usizeExpect_of_int (h v (by simp))
    obtain ⟨r, hr⟩ := ih fun w hw => h w (by simp [hw])
    simp only [listMaxR, R.bind_eq_bind, hk, hr, R.bind_ok]
    cases r <;> exact ⟨_, rfl⟩

theorem maxLimitOf_total {env : Env} {f : IRFilter} (h : countArgTyped env f) :
    ∃ o, maxLimitOf env f = .ok o := by
  unfold maxLimitOf
  split
  · rename_i n _ h1 h2 h3
    simp only [countArgTyped, h1, h2, h3] at h
    obtain ⟨v, hv, hi⟩ := h
    obtain ⟨k, hk⟩ := usizeExpect_of_int hi
    exact ⟨some k, by simp [hv, hk]⟩
  · rename_i n _ h1 h2 h3
    simp only [countArgTyped, h1, h2, h3] at h
    obtain ⟨v, hv, hi⟩ := h
    obtain ⟨k, hk⟩ := usizeExpect_of_int hi
    exact ⟨some k, by simp [hv, hk]⟩
  · rename_i n _ h1 h2 h3
    simp only [countArgTyped, h1, h2, h3] at h
    obtain ⟨v, hv, hi⟩ := h
    obtain ⟨k, hk⟩ := usizeExpect_of_int hi
    exact ⟨some (k - 1), by simp [hv, hk]⟩
  · rename_i n _ h1 h2 h3
    simp only [countArgTyped, h1, h2, h3] at h
    obtain ⟨vs, hv, hi⟩ := h
    obtain ⟨r, hr⟩ := listMaxR_of_ints hi
    exact ⟨r, by simp [hv, hr]⟩
  · exact ⟨none, rfl⟩

theorem maxFoldLimit_total {env : Env} {fs : List IRFilter} (h : ∀ f ∈ fs, countArgTyped env f)
    (acc : Option Nat) : ∃ o, maxFoldLimit env fs acc = .ok o := by
  induction fs generalizing acc with
  | nil => exact ⟨acc, rfl⟩
  | cons f fs ih =>
    obtain ⟨o, ho⟩ := maxLimitOf_total (h f (by simp))
    simp only [maxFoldLimit, R.bind_eq_bind, ho, R.bind_ok]
    exact ih (fun g hg => h g (by simp [hg])) _

theorem minLimitOf_total {env : Env} {f : IRFilter} (h : countArgTyped env f) :
    ∃ o, minLimitOf env f = .ok o := by
  unfold minLimitOf
  split
  · rename_i n _ h1 h2 h3
    simp only [countArgTyped, h1, h2, h3] at h
    obtain ⟨v, hv, hi⟩ := h
    obtain ⟨k, hk⟩ := usizeExpect_of_int hi
    exact ⟨some k, by simp [hv, hk]⟩
  · rename_i n _ h1 h2 h3
    simp only [countArgTyped, h1, h2, h3] at h
    obtain ⟨v, hv, hi⟩ := h
    obtain ⟨k, hk⟩ := usizeExpect_of_int hi
    exact ⟨some (k + 1), by simp [hv, hk]⟩
  · exact ⟨none, rfl⟩

theorem minFoldLimit_total {env : Env} {fs : List IRFilter} (h : ∀ f ∈ fs, countArgTyped env f)
    (acc : Option Nat) : ∃ o, minFoldLimit env fs acc = .ok o := by
  induction fs generalizing acc with
  | nil => exact ⟨acc, rfl⟩
  | cons f fs ih =>
    obtain ⟨o, ho⟩ := minLimitOf_total (h f (by simp))
    simp only [minFoldLimit, R.bind_eq_bind, ho, R.bind_ok]
    cases o with
    | none => exact ⟨none, rfl⟩
    | some k => exact ih (fun g hg => h g (by simp [hg])) _

/-- With typed count-filter arguments `get_max/min_fold_count_limit` do not panic. -/
theorem foldLimits_total (env : Env) (parent : Component) (g : Fold)
    (h : ∀ f ∈ g.post, countArgTyped env f) : ∃ lim, foldLimits env parent g = .ok lim := by
  unfold foldLimits
  split
  · obtain ⟨a, ha⟩ := maxFoldLimit_total h none
    obtain ⟨b, hb⟩ := minFoldLimit_total h none
    simp only [R.bind_eq_bind, ha, R.bind_ok, effectiveMinLimit, hb]
    cases b <;> exact ⟨_, rfl⟩
  · exact ⟨_, rfl⟩

end TF.Engine
