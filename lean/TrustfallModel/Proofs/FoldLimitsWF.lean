/-
C22, part 6: every query the frontend compiles has consistent fold-count references.

`countRefsWFC` (the structural hypothesis of the global theorem of C22) follows from three clauses of
the well-formedness of compiled queries proved for C11 (`Model/IRWF.lean`): clause 1 (a fold with Eid
`e` enters vertex `e + 1`), clause 2 (every Eid occurs once) and clause 5 (every tag operand is
defined in the using component or imported by an enclosing fold; every import is defined in the
fold's parent component).  A reference `FoldSpecificField { fold_eid = e, fold_root_vid = r }` is
"defined" in a component only by a fold with Eid `e` and root `r`, hence `r = e + 1` for every
reference occurring anywhere in the query — and a fold of the using component with Eid `e` has the
root `e + 1 = r`.
-/
import TrustfallModel.Proofs.FrontendIndexed
import TrustfallModel.Proofs.FoldLimitsTheorem

namespace TF.Engine
open TF TF.Frontend

/-- the root recorded in a fold-count reference is the vertex right after the fold's Eid -/
def fcOK : FieldRef → Prop
  | .fcount e rv => rv = e + 1
  | .ctx _ _ _ => True

theorem wfNumberingF_mem {fs : List Fold} (h : wfNumberingF fs = true) :
    ∀ g ∈ fs, g.toVid = g.eid + 1 ∧ wfNumberingC g.component = true := by
  induction fs with
  | nil => simp
  | cons f fs ih =>
    cases f with
    | mk e a t n ps c i o p =>
      simp only [wfNumberingF, Bool.and_eq_true, beq_iff_eq] at h
      intro g hg
      rcases List.mem_cons.mp hg with rfl | hg
      · exact ⟨h.1.1, h.1.2⟩
      · exact ih h.2 g hg

theorem wfTagsF_mem {pvs : List IRVertex} {pfs : List Fold} {chain : List FieldRef} {fs : List Fold}
    (h : wfTagsF pvs pfs chain fs = true) :
    ∀ g ∈ fs, tagsOkAt pvs pfs chain g.toVid g.post = true ∧
      (∀ r ∈ g.imports, definedIn pvs pfs r = true) ∧
      wfTagsC (g.imports ++ chain) g.component = true := by
  induction fs with
  | nil => simp
  | cons f fs ih =>
    cases f with
    | mk e a t n ps c i o p =>
      simp only [wfTagsF, Bool.and_eq_true, List.all_eq_true, decide_eq_true_eq] at h
      intro g hg
      rcases List.mem_cons.mp hg with rfl | hg
      · exact ⟨h.1.1.1, fun r hr => (h.1.1.2 r hr).1, h.1.2⟩
      · exact ih h.2 g hg

theorem definedIn_fcOK {vs : List IRVertex} {fs : List Fold} {r : FieldRef}
    (hnum : ∀ g ∈ fs, g.toVid = g.eid + 1) (h : definedIn vs fs r = true) : fcOK r := by
  cases r with
  | ctx v f t => trivial
  | fcount e rv =>
    simp only [definedIn, List.any_eq_true, Bool.and_eq_true, beq_iff_eq] at h
    obtain ⟨g, hg, he, hr⟩ := h
    have := hnum g hg
    show rv = e + 1
    rw [← hr, ← he, this]

theorem refWF_of_fcOK {comp : Component} {r : FieldRef}
    (hnum : ∀ g ∈ comp.folds, g.toVid = g.eid + 1) (h : fcOK r) : refWF comp r = true := by
  cases r with
  | ctx v f t => rfl
  | fcount e rv =>
    simp only [refWF, List.all_eq_true, Bool.or_eq_true, Bool.not_eq_true', beq_eq_false_iff_ne,
      beq_iff_eq]
    intro g hg
    by_cases he : g.eid = e
    · right
      have : rv = e + 1 := h
      rw [hnum g hg, he, this]
    · exact .inl he

/-- the tag operands of filters that are in order (`tagsOkAt`) are `fcOK` -/
theorem tagsOkAt_fcOK {vs : List IRVertex} {fs : List Fold} {chain : List FieldRef} {uv : Vid}
    {filters : List IRFilter} (hnum : ∀ g ∈ fs, g.toVid = g.eid + 1)
    (hch : ∀ r ∈ chain, fcOK r) (h : tagsOkAt vs fs chain uv filters = true) :
    ∀ f ∈ filters, ∀ r, f.right = some (.tag r) → fcOK r := by
  intro f hf r hr
  simp only [tagsOkAt, List.all_eq_true, Bool.and_eq_true, Bool.or_eq_true] at h
  have hmem : r ∈ filters.flatMap filterTags := by
    simp only [List.mem_flatMap]
    exact ⟨f, hf, by simp [filterTags, hr]⟩
  rcases (h r hmem).2 with hd | hc
  · exact definedIn_fcOK hnum hd
  · exact hch r (refMem_iff.mp hc)

theorem filterRefWF_of {comp : Component} {f : IRFilter}
    (hnum : ∀ g ∈ comp.folds, g.toVid = g.eid + 1)
    (h : ∀ r, f.right = some (.tag r) → fcOK r) : filterRefWF comp f = true := by
  unfold filterRefWF
  split
  · rename_i r hr
    exact refWF_of_fcOK hnum (h r hr)
  · rfl

theorem foldEids_sublist (fs : List Fold) : (fs.map Fold.eid).Sublist (foldsEids fs) := by
  induction fs with
  | nil => exact List.Sublist.slnil
  | cons f fs ih =>
    cases f with
    | mk e a t n ps c i o p =>
      simp only [List.map_cons, foldsEids, Fold.eid]
      exact List.Sublist.cons_cons _ (ih.trans (List.sublist_append_right _ _))

theorem foldsEids_mem_sublist {fs : List Fold} {g : Fold} (hg : g ∈ fs) :
    (allEids g.component).Sublist (foldsEids fs) := by
  induction fs with
  | nil => simp at hg
  | cons f fs ih =>
    cases f with
    | mk e a t n ps c i o p =>
      simp only [foldsEids]
      rcases List.mem_cons.mp hg with rfl | hg
      · exact List.Sublist.cons _ (List.sublist_append_left _ _)
      · exact List.Sublist.cons _ ((ih hg).trans (List.sublist_append_right _ _))

mutual
theorem countRefsWFC_of_wf : (comp : Component) → (chain : List FieldRef) →
    (∀ r ∈ chain, fcOK r) → wfNumberingC comp = true → wfTagsC chain comp = true →
    (allEids comp).Nodup → countRefsWFC comp = true
  | .mk root vs es fs outs, chain, hch, hn, ht, hu => by
    simp only [wfNumberingC, Bool.and_eq_true] at hn
    simp only [wfTagsC, Bool.and_eq_true, List.all_eq_true] at ht
    have hnum : ∀ g ∈ fs, g.toVid = g.eid + 1 := fun g hg => (wfNumberingF_mem hn.2 g hg).1
    have huF : (foldsEids fs).Nodup := by
      simp only [allEids] at hu
      exact (List.nodup_append.mp hu).2.1
    have hF := wfTagsF_mem ht.2
    simp only [countRefsWFC, Bool.and_eq_true]
    refine ⟨?_, countRefsWFFs_of_wf fs fs vs fs chain hch hnum (fun g hg => hg) hn.2 huF hF⟩
    simp only [compGuard, Bool.and_eq_true, List.all_eq_true, decide_eq_true_eq]
    refine ⟨⟨?_, ?_⟩, ?_⟩
    · intro v hv f hf
      exact filterRefWF_of (comp := .mk root vs es fs outs) hnum
        (tagsOkAt_fcOK hnum hch (ht.1 v hv) f hf)
    · intro g hg
      obtain ⟨h1, h2, _⟩ := hF g hg
      refine ⟨?_, ?_⟩
      · intro f hf
        exact filterRefWF_of (comp := .mk root vs es fs outs) hnum (tagsOkAt_fcOK hnum hch h1 f hf)
      · intro r hr
        exact refWF_of_fcOK (comp := .mk root vs es fs outs) hnum (definedIn_fcOK hnum (h2 r hr))
    · exact huF.sublist (foldEids_sublist fs)
/-- the folds `l` (a part of the folds `pfs` of a component with vertices `pvs`) -/
theorem countRefsWFFs_of_wf : (l : List Fold) → (pfs : List Fold) → (pvs : List IRVertex) →
    (all : List Fold) → (chain : List FieldRef) → (∀ r ∈ chain, fcOK r) →
    (∀ g ∈ pfs, g.toVid = g.eid + 1) → (∀ g ∈ l, g ∈ all) → wfNumberingF all = true →
    (foldsEids all).Nodup →
    (∀ g ∈ all, tagsOkAt pvs pfs chain g.toVid g.post = true ∧
      (∀ r ∈ g.imports, definedIn pvs pfs r = true) ∧
      wfTagsC (g.imports ++ chain) g.component = true) →
    countRefsWFFs l = true
  | [], _, _, _, _, _, _, _, _, _, _ => rfl
  | (.mk e a t n ps c i o p) :: rest, pfs, pvs, all, chain, hch, hnum, hsub, hn, hu, hF => by
    simp only [countRefsWFFs, Bool.and_eq_true]
    have hg : Fold.mk e a t n ps c i o p ∈ all := hsub _ (by simp)
    obtain ⟨_, h2, h3⟩ := hF _ hg
    have hch' : ∀ r ∈ i ++ chain, fcOK r := by
      intro r hr
      rcases List.mem_append.mp hr with hr | hr
      · exact definedIn_fcOK hnum (h2 r hr)
      · exact hch r hr
    refine ⟨countRefsWFC_of_wf c (i ++ chain) hch' (wfNumberingF_mem hn _ hg).2 h3
        (hu.sublist (foldsEids_mem_sublist hg)),
      countRefsWFFs_of_wf rest pfs pvs all chain hch hnum
        (fun g hg' => hsub g (List.mem_cons_of_mem _ hg')) hn hu hF⟩
end

/-- Every query the (modelled) frontend compiles has consistent fold-count references. -/
theorem toIR_countRefsWF {S : SchemaView} {q : Spec.Query} {ir : IRQuery} (h : toIR S q = .ok ir) :
    countRefsWFC ir.rootComponent = true := by
  have h1 := (toIR_numbering_endpoints h).1
  have h2 := (toIR_unique h).1
  have h5 := (toIR_tags_imports h).1
  simp only [wfUnique, Bool.and_eq_true, natsDistinct_iff] at h2
  exact countRefsWFC_of_wf ir.rootComponent [] (by simp) h1 h5 h2.2

end TF.Engine
