/-
Helper lemmas for C10, frontend layer (1/3): the `Sat` predicate transformer, `filters.rs`,
the handler state invariant and every operation of `tags.rs` / `outputs.rs` / `util.rs`.
-/
import TrustfallModel.Model.FrontendCheck
import TrustfallModel.Proofs.QueryParse
namespace TF.FE

namespace Res
variable {ε α β : Type}

/-- `r` returns a value satisfying `Q`, or an error, or panics at a site in `K`. -/
def Sat (K : Site → Prop) (r : Res ε α) (Q : α → Prop) : Prop :=
  match r with
  | .ok a => Q a
  | .err _ => True
  | .panic s => K s

@[simp] theorem sat_ok {K : Site → Prop} {a : α} {Q : α → Prop} :
    Sat K (Res.ok a : Res ε α) Q ↔ Q a := Iff.rfl
@[simp] theorem sat_err {K : Site → Prop} {e : ε} {Q : α → Prop} :
    Sat K (Res.err e : Res ε α) Q ↔ True := Iff.rfl
@[simp] theorem sat_panic {K : Site → Prop} {s : Site} {Q : α → Prop} :
    Sat K (Res.panic s : Res ε α) Q ↔ K s := Iff.rfl

theorem Sat.bind {K : Site → Prop} {x : Res ε α} {f : α → Res ε β} {P : α → Prop} {Q : β → Prop}
    (hx : Sat K x P) (hf : ∀ a, P a → Sat K (f a) Q) : Sat K (x >>= f) Q := by
  cases x with
  | ok a => exact hf a hx
  | err e => trivial
  | panic s => exact hx

theorem Sat.mono {K : Site → Prop} {x : Res ε α} {P Q : α → Prop}
    (hx : Sat K x P) (h : ∀ a, P a → Q a) : Sat K x Q := by
  cases x with
  | ok a => exact h a hx
  | err e => trivial
  | panic s => exact hx

theorem Sat.monoK {K K' : Site → Prop} {x : Res ε α} {P : α → Prop}
    (hx : Sat K x P) (h : ∀ s, K s → K' s) : Sat K' x P := by
  cases x with
  | ok a => exact hx
  | err e => trivial
  | panic s => exact h s hx

theorem Sat.of_noPanic {K : Site → Prop} {x : Res ε α} (h : x.NoPanic) : Sat K x (fun _ => True) := by
  cases x with
  | ok a => trivial
  | err e => trivial
  | panic s => exact absurd rfl (h s)

/-- what `Sat` says about a concrete panic -/
theorem Sat.panic_site {K : Site → Prop} {x : Res ε α} {P : α → Prop} {s : Site}
    (hx : Sat K x P) (h : x = .panic s) : K s := by
  subst h; exact hx

theorem Sat.ok_val {K : Site → Prop} {x : Res ε α} {P : α → Prop} {a : α}
    (hx : Sat K x P) (h : x = .ok a) : P a := by
  subst h; exact hx
end Res

open Res

namespace FTy

theorem eqIgn_refl (t : FTy) : t.equalIgnoringNullability t = true := by
  simp [equalIgnoringNullability]

theorem eqIgn_withNullability (t : FTy) (n : Bool) :
    t.equalIgnoringNullability (t.withNullability n) = true := by
  simp [equalIgnoringNullability, withNullability]

theorem isOrderable_withNullability (t : FTy) (n : Bool) :
    (t.withNullability n).isOrderable = t.isOrderable := rfl

theorem newListType_asList {t t' : FTy} {n : Bool} (h : newListType t n = some t') :
    t'.asList = some t := by
  unfold newListType at h
  split at h
  · cases h
  · cases h; rfl

end FTy

/-- F-12 exactly: with a variable operand whose type was inferred from the property, the operand
check panics iff the operator is an ordering and the property's base type is not orderable. -/
theorem binaryOperandTypesValid_variable {op : BinOp} {left varType : FTy} {name : String}
    (hinf : inferVariableType left (.bin op) = .ok varType) :
    Sat (fun s => s = .asTagUnwrap ∧ op.cls = .ordering ∧ left.isOrderable = false)
      (binaryOperandTypesValid op left (.variable name varType) none) (fun _ => True) := by
  unfold inferVariableType at hinf
  unfold binaryOperandTypesValid
  simp only [ArgM.typed]
  cases hc : op.cls <;> simp only [hc] at hinf ⊢
  · cases hinf
    simp [FTy.eqIgn_refl]
  · cases hinf
    simp only [FTy.isOrderable_withNullability, FTy.eqIgn_withNullability]
    by_cases ho : left.isOrderable = true
    · simp [ho, Bind.bind, Res.bind, Sat]
    · simp [ho, tagMismatch, ArgM.asTag, Bind.bind, Res.bind, Sat]
  · split at hinf
    · rename_i inner hin
      cases hinf
      simp [hin, FTy.eqIgn_refl]
    · cases hinf
  · split at hinf
    · rename_i t ht
      cases hinf
      simp [FTy.newListType_asList ht, FTy.eqIgn_refl]
    · cases hinf
  · cases hinf
    simp [FTy.named, FTy.isList, Sat, Res.bind, Bind.bind]

/-- With a tag operand (and its name passed along) the operand check never panics. -/
theorem binaryOperandTypesValid_tag (op : BinOp) (left : FTy) (f : FieldRefM) (n : String) :
    (binaryOperandTypesValid op left (.tag f) (some n)).NoPanic := by
  intro s hs
  unfold binaryOperandTypesValid at hs
  simp only [tagMismatch, ArgM.asTag] at hs
  cases hc : op.cls <;> simp only [hc] at hs
  · split at hs <;> cases hs
  · repeat' split at hs
    all_goals simp [Bind.bind, Res.bind] at hs
  · split at hs
    · cases hs
    · split at hs <;> cases hs
  · split at hs
    · cases hs
    · split at hs <;> cases hs
  · repeat' split at hs
    all_goals simp [Bind.bind, Res.bind] at hs


/-- The invariant of the handler state that the `unwrap/expect/assert!/index` sites of `tags.rs`,
`outputs.rs` and `util.rs` rely on. -/
structure St.Inv (st : St) : Prop where
  /-- the component path is never empty (it starts as `[root]`, pops are matched by pushes) -/
  path_ne : st.path ≠ []
  /-- `component_imported_tags` is in lockstep with the component path: its keys are the path
  without the root component -/
  imported_keys : st.imported.map (·.1) = st.path.tail
  /-- every registered tag remembers a (non-empty) component path -/
  tags_path_ne : ∀ e ∈ st.tags, e.path ≠ []
  /-- `prefixes` only knows Vids that have been handed out -/
  prefixes_lt : ∀ p ∈ st.prefixes, p.1 < st.nextVid
  /-- every Vid on the scope stack has an entry in `prefixes` -/
  stack_prefixed : ∀ v ∈ st.vidStack, ∃ p ∈ st.prefixes, p.1 = v
  /-- there is an open component output map -/
  out_ne : st.outStack ≠ []

theorem pathIsParent_iff (a b : List Vid) :
    St.pathIsParent a b = true ↔ a.length ≤ b.length ∧ a = b.take a.length := by
  simp [St.pathIsParent]

theorem pathIsParent_lt {a b : List Vid} (h : St.pathIsParent a b = true) (hne : a ≠ b) :
    a.length < b.length := by
  rw [pathIsParent_iff] at h
  obtain ⟨hle, htake⟩ := h
  rcases Nat.lt_or_ge a.length b.length with hlt | hge
  · exact hlt
  · exfalso
    apply hne
    have : a.length = b.length := Nat.le_antisymm hle hge
    rw [this, List.take_length] at htake
    exact htake

theorem referenceTag_sat {st : St} (hinv : st.Inv) (name : String) (useVid : Vid) :
    Sat (fun _ => False) (st.referenceTag name useVid)
      (fun r => r.1.Inv ∧ r.1.path = st.path ∧ r.1.vidStack = st.vidStack ∧
        r.1.outStack = st.outStack ∧ r.1.nextVid = st.nextVid ∧ r.1.nextEid = st.nextEid ∧
        r.1.prefixes = st.prefixes ∧ r.1.tags = st.tags ∧ r.1.globalOutputs = st.globalOutputs) := by
  unfold St.referenceTag
  split
  · simp [hinv]
  · rename_i entry hfind
    have hmem := List.mem_of_find?_eq_some hfind
    split
    · rename_i hpar
      split
      · simp [hinv]
      · split
        · rename_i hne
          have hne' : entry.path ≠ st.path := by simpa using hne
          have hlt := pathIsParent_lt hpar hne'
          have hpos : entry.path.length ≠ 0 := by
            have := hinv.tags_path_ne entry hmem
            intro h0
            exact this (List.eq_nil_of_length_eq_zero h0)
          split
          · rename_i hnone
            rw [List.getElem?_eq_none_iff] at hnone
            exact absurd hlt (Nat.not_lt.mpr hnone)
          · rename_i importingRoot hroot
            split
            · rename_i h0
              have h0' : entry.path.length = 0 := by simpa using h0
              exact absurd h0' hpos
            · dsimp only
              have hkeys := hinv.imported_keys
              have hlen : st.imported.length = st.path.length - 1 := by
                have := congrArg List.length hkeys
                simpa using this
              split
              · rename_i hnone
                rw [List.getElem?_eq_none_iff] at hnone
                omega
              · rename_i root refs hslot
                have hroot' : root = importingRoot := by
                  have h1 : (st.imported.map (·.1))[entry.path.length - 1]? = some root := by
                    simp [List.getElem?_map, hslot]
                  rw [hkeys, List.getElem?_tail] at h1
                  have : entry.path.length - 1 + 1 = entry.path.length := by omega
                  rw [this, hroot] at h1
                  exact (Option.some.inj h1).symm
                split
                · rename_i hbad
                  simp at hbad
                  exact absurd hroot' hbad
                · refine ⟨?_, rfl, rfl, rfl, rfl, rfl, rfl, rfl, rfl⟩
                  constructor
                  · exact hinv.path_ne
                  · show (st.imported.set _ _).map (·.1) = st.path.tail
                    rw [← hkeys]
                    apply List.ext_getElem?
                    intro i
                    simp only [List.getElem?_map, List.getElem?_set]
                    split
                    · rename_i hi
                      subst hi
                      split
                      · simp [hslot]
                      · rename_i hge
                        have : st.imported[entry.path.length - 1]? = none := by
                          rw [List.getElem?_eq_none_iff]; omega
                        simp [this]
                    · rfl
                  · exact hinv.tags_path_ne
                  · exact hinv.prefixes_lt
                  · exact hinv.stack_prefixed
                  · exact hinv.out_ne
        · exact ⟨⟨hinv.path_ne, hinv.imported_keys, hinv.tags_path_ne, hinv.prefixes_lt,
            hinv.stack_prefixed, hinv.out_ne⟩, rfl, rfl, rfl, rfl, rfl, rfl, rfl, rfl⟩
    · simp [hinv]

end TF.FE
