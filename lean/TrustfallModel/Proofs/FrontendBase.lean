/-
Helper lemmas for C10, frontend layer (1/3): the `Sat` predicate transformer, `filters.rs`,
the handler state invariant and every operation of `tags.rs` / `outputs.rs` / `util.rs`.
-/
import TrustfallModel.Model.FrontendCheck
import TrustfallModel.Proofs.QueryParse
namespace TF.FE

namespace Res
variable {ε α β : Type}

/-- `r` returns a value satisfying `Q`, or an error, or panics at a site in `K`. -/
def Sat (K : Site → Prop) (r : Res ε α) (Q : α → Prop) : Prop :=
  match r with
  | .ok a => Q a
  | .err _ => True
  | .panic s => K s

@[simp] theorem sat_ok {K : Site → Prop} {a : α} {Q : α → Prop} :
    Sat K (Res.ok a : Res ε α) Q ↔ Q a := Iff.rfl
@[simp] theorem sat_err {K : Site → Prop} {e : ε} {Q : α → Prop} :
    Sat K (Res.err e : Res ε α) Q ↔ True := Iff.rfl
@[simp] theorem sat_panic {K : Site → Prop} {s : Site} {Q : α → Prop} :
    Sat K (Res.panic s : Res ε α) Q ↔ K s := Iff.rfl

theorem Sat.bind {K : Site → Prop} {x : Res ε α} {f : α → Res ε β} {P : α → Prop} {Q : β → Prop}
    (hx : Sat K x P) (hf : ∀ a, P a → Sat K (f a) Q) : Sat K (x >>= f) Q := by
  cases x with
  | ok a => exact hf a hx
  | err e => trivial
  | panic s => exact hx

theorem Sat.mono {K : Site → Prop} {x : Res ε α} {P Q : α → Prop}
    (hx : Sat K x P) (h : ∀ a, P a → Q a) : Sat K x Q := by
  cases x with
  | ok a => exact h a hx
  | err e => trivial
  | panic s => exact hx

theorem Sat.monoK {K K' : Site → Prop} {x : Res ε α} {P : α → Prop}
    (hx : Sat K x P) (h : ∀ s, K s → K' s) : Sat K' x P := by
  cases x with
  | ok a => exact hx
  | err e => trivial
  | panic s => exact h s hx

theorem Sat.of_noPanic {K : Site → Prop} {x : Res ε α} (h : x.NoPanic) : Sat K x (fun _ => True) := by
  cases x with
  | ok a => trivial
  | err e => trivial
  | panic s => exact absurd rfl (h s)

/-- what `Sat` says about a concrete panic -/
theorem Sat.panic_site {K : Site → Prop} {x : Res ε α} {P : α → Prop} {s : Site}
    (hx : Sat K x P) (h : x = .panic s) : K s := by
  subst h; exact hx

theorem Sat.ok_val {K : Site → Prop} {x : Res ε α} {P : α → Prop} {a : α}
    (hx : Sat K x P) (h : x = .ok a) : P a := by
  subst h; exact hx
end Res

open Res

namespace FTy

theorem eqIgn_refl (t : FTy) : t.equalIgnoringNullability t = true := by
  simp [equalIgnoringNullability]

theorem eqIgn_withNullability (t : FTy) (n : Bool) :
    t.equalIgnoringNullability (t.withNullability n) = true := by
  simp [equalIgnoringNullability, withNullability]

theorem isOrderable_withNullability (t : FTy) (n : Bool) :
    (t.withNullability n).isOrderable = t.isOrderable := rfl

theorem newListType_asList {t t' : FTy} {n : Bool} (h : newListType t n = some t') :
    t'.asList = some t := by
  unfold newListType at h
  split at h
  · cases h
  · cases h; rfl

end FTy

/-- With a variable operand whose type was inferred from the property, the operand check never
panics (before the fix of F-12 it did for an ordering operator on a non-orderable property): every
`as_tag().unwrap()` sits behind a type comparison that a variable's inferred type passes. -/
theorem binaryOperandTypesValid_variable {op : BinOp} {left varType : FTy} {name : String}
    (hinf : inferVariableType left (.bin op) = .ok varType) :
    Sat (fun _ => False)
      (binaryOperandTypesValid op left (.variable name varType) none) (fun _ => True) := by
  unfold inferVariableType at hinf
  unfold binaryOperandTypesValid
  simp only [ArgM.typed]
  cases hc : op.cls <;> simp only [hc] at hinf ⊢
  · cases hinf
    simp [FTy.eqIgn_refl]
  · cases hinf
    simp only [FTy.isOrderable_withNullability, FTy.eqIgn_withNullability]
    by_cases ho : left.isOrderable = true
    · simp [ho, Bind.bind, Res.bind, Sat]
    · simp [ho, ArgM.asTag, Bind.bind, Res.bind, Sat]
  · split at hinf
    · rename_i inner hin
      cases hinf
      simp [hin, FTy.eqIgn_refl]
    · cases hinf
  · split at hinf
    · rename_i t ht
      cases hinf
      simp [FTy.newListType_asList ht, FTy.eqIgn_refl]
    · cases hinf
  · cases hinf
    simp [FTy.named, FTy.isList, Sat, Res.bind, Bind.bind]

/-- With a tag operand (and its name passed along) the operand check never panics. -/
theorem binaryOperandTypesValid_tag (op : BinOp) (left : FTy) (f : FieldRefM) (n : String) :
    (binaryOperandTypesValid op left (.tag f) (some n)).NoPanic := by
  intro s hs
  unfold binaryOperandTypesValid at hs
  simp only [tagMismatch, ArgM.asTag] at hs
  cases hc : op.cls <;> simp only [hc] at hs
  · split at hs <;> cases hs
  · repeat' split at hs
    all_goals simp [Bind.bind, Res.bind] at hs
  · split at hs
    · cases hs
    · split at hs <;> cases hs
  · split at hs
    · cases hs
    · split at hs <;> cases hs
  · repeat' split at hs
    all_goals simp [Bind.bind, Res.bind] at hs


/-- The invariant of the handler state that the `unwrap/expect/assert!/index` sites of `tags.rs`,
`outputs.rs` and `util.rs` rely on. -/
structure St.Inv (st : St) : Prop where
  /-- the component path is never empty (it starts as `[root]`, pops are matched by pushes) -/
  path_ne : st.path ≠ []
  /-- `component_imported_tags` is in lockstep with the component path: its keys are the path
  without the root component -/
  imported_keys : st.imported.map (·.1) = st.path.tail
  /-- every registered tag remembers a (non-empty) component path -/
  tags_path_ne : ∀ e ∈ st.tags, e.path ≠ []
  /-- `prefixes` only knows Vids that have been handed out -/
  prefixes_lt : ∀ p ∈ st.prefixes, p.1 < st.nextVid
  /-- every Vid on the scope stack has an entry in `prefixes` -/
  stack_prefixed : ∀ v ∈ st.vidStack, ∃ p ∈ st.prefixes, p.1 = v

theorem pathIsParent_iff (a b : List Vid) :
    St.pathIsParent a b = true ↔ a.length ≤ b.length ∧ a = b.take a.length := by
  simp [St.pathIsParent]

theorem pathIsParent_lt {a b : List Vid} (h : St.pathIsParent a b = true) (hne : a ≠ b) :
    a.length < b.length := by
  rw [pathIsParent_iff] at h
  obtain ⟨hle, htake⟩ := h
  rcases Nat.lt_or_ge a.length b.length with hlt | hge
  · exact hlt
  · exfalso
    apply hne
    have : a.length = b.length := Nat.le_antisymm hle hge
    rw [this, List.take_length] at htake
    exact htake

theorem referenceTag_sat {st : St} (hinv : st.Inv) (name : String) (useVid : Vid) :
    Sat (fun _ => False) (st.referenceTag name useVid)
      (fun r => r.1.Inv ∧ r.1.path = st.path ∧ r.1.vidStack = st.vidStack ∧
        r.1.outStack = st.outStack ∧ r.1.nextVid = st.nextVid ∧ r.1.nextEid = st.nextEid ∧
        r.1.prefixes = st.prefixes ∧ r.1.tags = st.tags ∧ r.1.globalOutputs = st.globalOutputs) := by
  unfold St.referenceTag
  split
  · simp [hinv]
  · rename_i entry hfind
    have hmem := List.mem_of_find?_eq_some hfind
    split
    · rename_i hpar
      split
      · simp [hinv]
      · split
        · rename_i hne
          have hne' : entry.path ≠ st.path := by simpa using hne
          have hlt := pathIsParent_lt hpar hne'
          have hpos : entry.path.length ≠ 0 := by
            have := hinv.tags_path_ne entry hmem
            intro h0
            exact this (List.eq_nil_of_length_eq_zero h0)
          split
          · rename_i hnone
            rw [List.getElem?_eq_none_iff] at hnone
            exact absurd hlt (Nat.not_lt.mpr hnone)
          · rename_i importingRoot hroot
            split
            · rename_i h0
              have h0' : entry.path.length = 0 := by simpa using h0
              exact absurd h0' hpos
            · dsimp only
              have hkeys := hinv.imported_keys
              have hlen : st.imported.length = st.path.length - 1 := by
                have := congrArg List.length hkeys
                simpa using this
              split
              · rename_i hnone
                rw [List.getElem?_eq_none_iff] at hnone
                omega
              · rename_i root refs hslot
                have hroot' : root = importingRoot := by
                  have h1 : (st.imported.map (·.1))[entry.path.length - 1]? = some root := by
                    simp [List.getElem?_map, hslot]
                  rw [hkeys, List.getElem?_tail] at h1
                  have : entry.path.length - 1 + 1 = entry.path.length := by omega
                  rw [this, hroot] at h1
                  exact (Option.some.inj h1).symm
                split
                · rename_i hbad
                  simp at hbad
                  exact absurd hroot' hbad
                · refine ⟨?_, rfl, rfl, rfl, rfl, rfl, rfl, rfl, rfl⟩
                  constructor
                  · exact hinv.path_ne
                  · show (st.imported.set _ _).map (·.1) = st.path.tail
                    rw [← hkeys]
                    apply List.ext_getElem?
                    intro i
                    simp only [List.getElem?_map, List.getElem?_set]
                    split
                    · rename_i hi
                      subst hi
                      split
                      · simp [hslot]
                      · rename_i hge
                        have : st.imported[entry.path.length - 1]? = none := by
                          rw [List.getElem?_eq_none_iff]; omega
                        simp [this]
                    · rfl
                  · exact hinv.tags_path_ne
                  · exact hinv.prefixes_lt
                  · exact hinv.stack_prefixed
        · exact ⟨⟨hinv.path_ne, hinv.imported_keys, hinv.tags_path_ne, hinv.prefixes_lt,
            hinv.stack_prefixed⟩, rfl, rfl, rfl, rfl, rfl, rfl, rfl, rfl⟩
    · simp [hinv]


/-- Only the tag bookkeeping (`imported` contents, `used_tags`) may differ. -/
structure St.TagOnly (st st' : St) : Prop where
  path : st'.path = st.path
  vidStack : st'.vidStack = st.vidStack
  outStack : st'.outStack = st.outStack
  nextVid : st'.nextVid = st.nextVid
  nextEid : st'.nextEid = st.nextEid
  prefixes : st'.prefixes = st.prefixes
  tags : st'.tags = st.tags
  globalOutputs : st'.globalOutputs = st.globalOutputs

theorem St.TagOnly.refl (st : St) : St.TagOnly st st := ⟨rfl, rfl, rfl, rfl, rfl, rfl, rfl, rfl⟩

theorem St.TagOnly.trans {a b c : St} (h1 : St.TagOnly a b) (h2 : St.TagOnly b c) : St.TagOnly a c :=
  ⟨h2.path.trans h1.path, h2.vidStack.trans h1.vidStack, h2.outStack.trans h1.outStack,
   h2.nextVid.trans h1.nextVid, h2.nextEid.trans h1.nextEid, h2.prefixes.trans h1.prefixes,
   h2.tags.trans h1.tags, h2.globalOutputs.trans h1.globalOutputs⟩

theorem referenceTag_sat' {st : St} (hinv : st.Inv) (name : String) (useVid : Vid) :
    Sat (fun _ => False) (st.referenceTag name useVid) (fun r => r.1.Inv ∧ St.TagOnly st r.1) :=
  (referenceTag_sat hinv name useVid).mono fun _ h =>
    ⟨h.1, ⟨h.2.1, h.2.2.1, h.2.2.2.1, h.2.2.2.2.1, h.2.2.2.2.2.1, h.2.2.2.2.2.2.1,
      h.2.2.2.2.2.2.2.1, h.2.2.2.2.2.2.2.2⟩⟩

/-- The panic site of `make_filter_expr` that inputs can reach: N-6. -/
def FilterSite (s : Site) : Prop := s = .oneOfListDepth

theorem inferVariableType_sat (left : FTy) (op : BinOp) :
    Sat (fun s => s = .oneOfListDepth) (inferVariableType left (.bin op)) (fun _ => True) := by
  unfold inferVariableType
  cases hc : op.cls <;> simp only [hc]
  · trivial
  · trivial
  · split <;> trivial
  · split
    · trivial
    · exact rfl
  · trivial

theorem makeFilterExpr_sat {st : St} (hinv : st.Inv) (vid : Vid) (ty : FTy) (fd : FilterDirective) :
    Sat FilterSite (makeFilterExpr st vid ty fd) (fun r => r.1.Inv ∧ St.TagOnly st r.1) := by
  unfold makeFilterExpr
  split
  · split <;> exact ⟨hinv, St.TagOnly.refl _⟩
  · split <;> exact ⟨hinv, St.TagOnly.refl _⟩
  · rename_i op varName
    have hinf := inferVariableType_sat ty op
    cases hi : inferVariableType ty (.bin op) with
    | panic s =>
      rw [hi] at hinf
      exact hinf
    | err e => exact ⟨hinv, St.TagOnly.refl _⟩
    | ok varType =>
      simp only
      refine Sat.bind ((binaryOperandTypesValid_variable (name := varName) hi).monoK
        (fun s h => h.elim)) fun errs _ => ?_
      split <;> exact ⟨hinv, St.TagOnly.refl _⟩
  · rename_i op tagName
    refine Sat.bind ((referenceTag_sat' hinv tagName vid).monoK (fun _ h => h.elim)) fun r hr => ?_
    split
    · exact hr
    · exact hr
    · exact hr
    · rename_i entry _
      refine Sat.bind (Sat.of_noPanic (binaryOperandTypesValid_tag op ty entry.field tagName))
        fun errs _ => ?_
      split <;> exact hr

theorem filtersLoop_sat (vid : Vid) (ty : FTy) (fds : List FilterDirective) :
    ∀ (st : St) (errs : List FrontErr) (uses : List (String × FTy)), st.Inv →
    Sat FilterSite (filtersLoop vid ty st errs uses fds)
      (fun r => r.1.Inv ∧ St.TagOnly st r.1 ∧ ∃ more, r.2.1 = errs ++ more) := by
  induction fds with
  | nil => intro st errs uses hinv; exact ⟨hinv, St.TagOnly.refl _, [], by simp⟩
  | cons fd rest ih =>
    intro st errs uses hinv
    unfold filtersLoop
    refine Sat.bind (makeFilterExpr_sat hinv vid ty fd) fun r hr => ?_
    split
    · exact (ih _ errs _ hr.1).mono fun _ h => ⟨h.1, hr.2.trans h.2.1, h.2.2⟩
    · exact (ih _ errs _ hr.1).mono fun _ h => ⟨h.1, hr.2.trans h.2.1, h.2.2⟩
    · rename_i es _
      exact (ih _ (errs ++ es) _ hr.1).mono fun _ h =>
        ⟨h.1, hr.2.trans h.2.1, by obtain ⟨m, hm⟩ := h.2.2; exact ⟨es ++ m, by simp [hm]⟩⟩

theorem vertexFilters_sat (props : List PropRec) (vid : Vid) (todo : List PropRec)
    (hsub : ∀ p ∈ todo, p ∈ props) :
    ∀ (st : St) (errs : List FrontErr) (uses : List (String × FTy)), st.Inv →
    Sat FilterSite (vertexFilters props vid st errs uses todo)
      (fun r => r.1.Inv ∧ St.TagOnly st r.1 ∧ ∃ more, r.2.1 = errs ++ more) := by
  induction todo with
  | nil => intro st errs uses hinv; exact ⟨hinv, St.TagOnly.refl _, [], by simp⟩
  | cons p rest ih =>
    intro st errs uses hinv
    have ih' := ih (fun q hq => hsub q (List.mem_cons_of_mem _ hq))
    unfold vertexFilters
    split
    · exact ih' _ errs uses hinv
    · split
      · rename_i hnone
        -- `properties.get(&(vid, name)).unwrap()`: the key was taken from the map itself
        exfalso
        have hp := hsub p (List.mem_cons_self ..)
        rw [List.find?_eq_none] at hnone
        have := hnone p hp
        simp at this
      · rename_i q _
        refine Sat.bind (filtersLoop_sat vid q.ty _ _ errs uses hinv) fun r hr => ?_
        obtain ⟨m1, hm1⟩ := hr.2.2
        exact (ih' _ r.2.1 r.2.2 hr.1).mono fun _ h =>
          ⟨h.1, hr.2.1.trans h.2.1, by obtain ⟨m, hm⟩ := h.2.2; exact ⟨m1 ++ m, by simp [hm, hm1]⟩⟩

/-- The type name `make_vertex` gives a vertex when it succeeds. -/
def VertexRec.postType (v : VertexRec) : String := v.coercedTo.getD v.uncoercedType

theorem makeVertex_sat (S : SchemaView) (props : List PropRec) {st : St} (hinv : st.Inv)
    (v : VertexRec) :
    Sat FilterSite (makeVertex S props st v)
      (fun r => r.1.Inv ∧ St.TagOnly st r.1 ∧
        (∀ tn us, r.2 = .ok (tn, us) → tn = v.postType) ∧
        (∀ es, r.2 = .error es → es ≠ [])) := by
  unfold makeVertex
  unfold St.isComponentRoot
  split
  · rename_i hnone
    exact absurd (List.getLast?_eq_none_iff.mp hnone) hinv.path_ne
  · simp only [bind_ok]
    split
    · refine ⟨hinv, St.TagOnly.refl _, ?_, ?_⟩
      · intro tn us h; cases h
      · intro es h; cases h; simp
    · rename_i tn htn
      refine Sat.bind (vertexFilters_sat props v.vid props (fun _ h => h) _ _ [] hinv) fun r hr => ?_
      split
      · refine ⟨hr.1, hr.2.1, ?_, ?_⟩
        · intro tn' us h
          cases h
          unfold VertexRec.postType
          cases hc : v.coercedTo with
          | none => simp [hc] at htn; simp [htn]
          | some c =>
            simp [hc] at htn
            simp [htn.2]
        · intro es h; cases h
      · rename_i hne
        refine ⟨hr.1, hr.2.1, ?_, ?_⟩
        · intro tn' us h; cases h
        · intro es h
          cases h
          intro h0
          simp [h0] at hne

end TF.FE
