/-
Bridge from the frontend model to the engine hypotheses, assembly: for the IR of a query the
(modelled) frontend accepts,

* `WFq ir` holds unconditionally (`toIR_WFq`, Proofs/FrontendBridgeWFq.lean);
* `SchemaOK S ir` holds when the schema view satisfies `ValidSchemaCore S` (facts the real
  `Schema::parse` guarantees, plus pairwise distinct parameter names per edge) and the two sub-clauses
  of `SchemaOK` about the type a `@recurse` edge continues on hold for this query (`RecClausesOK`):
  - `recCoercionOKAll` — finding F-C21-1: for `coerce_to = Some t`, `t` implements the edge's endpoint
    type (the real frontend does not guarantee it);
  - `recDeclOKAll` — the continuation type declares the edge with parameters accepting the edge's
    completed tuple; it follows from `InheritedParamsSame S` (`toIR_SchemaOK'`), which `Schema::parse`
    does NOT guarantee (an implementing type may widen a parameter type:
    `SchemaBridge.widenedParam_not_SchemaOK'`).
  Both are vacuous for a query without `@recurse` (`recClausesOK_of_noRecurse`).
-/
import TrustfallModel.Proofs.FrontendBridgeWFq
import TrustfallModel.Proofs.FrontendBridgeSchema

namespace TF.Bridge
open TF TF.Engine TF.Frontend TF.SchemaBridge

/-- What remains of `SchemaOK` for a compiled query: the two sub-clauses about the type on which a
`@recurse` edge continues. -/
def RecClausesOK (S : SchemaView) (ir : IRQuery) : Bool :=
  recDeclOKAll S ir && recCoercionOKAll S ir

/-- Every query the (modelled) frontend accepts over a valid schema view is typed by the schema, up to
the two `@recurse` sub-clauses. -/
theorem toIR_SchemaOK_core {S : SchemaView} {q : Spec.Query} {ir : IRQuery}
    (hV : ValidSchemaCore S = true) (h : toIR S q = .ok ir) (hr : RecClausesOK S ir = true) :
    SchemaOK S ir = true := by
  simp only [RecClausesOK, Bool.and_eq_true] at hr
  apply SchemaOK_of_split _ hr.2
  rw [SchemaOK'_split, toIR_SchemaOK'' hV h, hr.1]
  rfl

/-- The two structural hypotheses of the engine theorems, for a compiled query. -/
theorem compiled_hyps {S : SchemaView} {q : Spec.Query} {ir : IRQuery}
    (hV : ValidSchemaCore S = true) (h : toIR S q = .ok ir) (hr : RecClausesOK S ir = true) :
    WFq ir = true ∧ SchemaOK S ir = true :=
  ⟨toIR_WFq h, toIR_SchemaOK_core hV h hr⟩

/-! ### queries without `@recurse` -/

mutual
theorem allComps_mono {p q : List FieldRef → Component → Bool}
    (hpq : ∀ chain c, p chain c = true → q chain c = true) :
    (c : Component) → (chain : List FieldRef) → allComps p chain c = true → allComps q chain c = true
  | .mk r vs es fs os, chain, h => by
    simp only [allComps, Bool.and_eq_true] at h ⊢
    exact ⟨hpq _ _ h.1, allCompsF_mono hpq fs chain h.2⟩
theorem allCompsF_mono {p q : List FieldRef → Component → Bool}
    (hpq : ∀ chain c, p chain c = true → q chain c = true) :
    (fs : List Fold) → (chain : List FieldRef) → allCompsF p chain fs = true →
      allCompsF q chain fs = true
  | [], _, _ => rfl
  | .mk e a t n ps c i o pp :: rest, chain, h => by
    simp only [allCompsF, Bool.and_eq_true] at h ⊢
    exact ⟨allComps_mono hpq c (i ++ chain) h.1, allCompsF_mono hpq rest chain h.2⟩
end

/-- no edge of any component is a `@recurse` edge -/
def noRecurse (ir : IRQuery) : Bool :=
  allComps (fun _ c => c.edges.all fun e => e.recursive.isNone) [] ir.rootComponent

theorem recClausesOK_of_noRecurse (S : SchemaView) {ir : IRQuery} (h : noRecurse ir = true) :
    RecClausesOK S ir = true := by
  simp only [RecClausesOK, Bool.and_eq_true]
  constructor
  · refine allComps_mono ?_ _ _ h
    intro chain c hc
    simp only [recDeclLocal, List.all_eq_true] at hc ⊢
    intro e he
    have := hc e he
    unfold recDeclOK
    cases hr : e.recursive with
    | none => split <;> rfl
    | some r => rw [hr] at this; cases this
  · refine allComps_mono ?_ _ _ h
    intro chain c hc
    simp only [recLocal, List.all_eq_true] at hc ⊢
    intro e he
    have := hc e he
    unfold recCoercionOK
    cases hr : e.recursive with
    | none => split <;> rfl
    | some r => rw [hr] at this; cases this

end TF.Bridge

#print axioms TF.Bridge.toIR_SchemaOK_core
#print axioms TF.Bridge.compiled_hyps
#print axioms TF.Bridge.recClausesOK_of_noRecurse
