/-
Bridge from the frontend model (`toIR`, C11) to the structural hypotheses of the hints theorems
(C05, C04): every compiled query has pairwise distinct Vids (`VidsDistinct`) and pairwise distinct
Eids (`EidsDistinct`).

`IRQuery.allVids ir` (Model/Hints.lean: the vertices of all components, components in pre-order) is
the same list as `allVids ir.rootComponent` (Model/IRWF.lean), whose distinctness is clause 2 of C11
(`toIR_unique`); likewise for Eids up to a permutation.
-/
import TrustfallModel.Proofs.FrontendIndexed
import TrustfallModel.Proofs.HintsPrune

namespace TF.Engine
open TF TF.Frontend

mutual
theorem subComps_vids : (c : Component) → (subComps c).flatMap Component.vids = allVids c
  | .mk r vs es fs o => by
    simp only [subComps, List.flatMap_cons, allVids, Component.vids, Component.vertices, vertexVids]
    rw [subCompsF_vids fs]
theorem subCompsF_vids : (fs : List Fold) → (subCompsF fs).flatMap Component.vids = foldsVids fs
  | [] => by simp [subCompsF, foldsVids]
  | .mk _ _ _ _ _ c _ _ _ :: rest => by
    simp only [subCompsF, List.flatMap_append, foldsVids]
    rw [subComps_vids c, subCompsF_vids rest]
end

/-- Every query the (modelled) frontend compiles has pairwise distinct Vids. -/
theorem toIR_VidsDistinct {S : SchemaView} {q : Spec.Query} {ir : IRQuery} (h : toIR S q = .ok ir) :
    VidsDistinct ir := by
  have h2 := (toIR_unique h).1
  simp only [wfUnique, Bool.and_eq_true, natsDistinct_iff] at h2
  unfold VidsDistinct IRQuery.allVids
  rw [subComps_vids]
  exact h2.1

mutual
theorem subComps_eids_count (x : Eid) : (c : Component) →
    ((subComps c).flatMap Component.eids).count x = (allEids c).count x
  | .mk r vs es fs o => by
    simp only [subComps, List.flatMap_cons, allEids, Component.eids, Component.edges,
      Component.folds, List.count_append]
    have := subCompsF_eids_count x fs
    have e : (fs.map fun f => f.eid) = fs.map Fold.eid := rfl
    rw [e]
    omega
theorem subCompsF_eids_count (x : Eid) : (fs : List Fold) →
    ((subCompsF fs).flatMap Component.eids).count x + (fs.map Fold.eid).count x =
      (foldsEids fs).count x
  | [] => by simp [subCompsF, foldsEids]
  | .mk e _ _ _ _ c _ _ _ :: rest => by
    simp only [subCompsF, List.flatMap_append, foldsEids, List.count_append, List.map_cons,
      List.count_cons]
    rw [subComps_eids_count x c]
    show _ + (_ + if (e == x) = true then 1 else 0) = _
    have := subCompsF_eids_count x rest
    omega
end

/-- Every query the (modelled) frontend compiles has pairwise distinct Eids. -/
theorem toIR_EidsDistinct {S : SchemaView} {q : Spec.Query} {ir : IRQuery} (h : toIR S q = .ok ir) :
    EidsDistinct ir := by
  have h2 := (toIR_unique h).1
  simp only [wfUnique, Bool.and_eq_true, natsDistinct_iff] at h2
  unfold EidsDistinct IRQuery.allEids
  rw [List.nodup_iff_count]
  intro x
  rw [subComps_eids_count]
  exact List.nodup_iff_count.mp h2.2 x

/-! ### a fold enters the root of its component -/

theorem wfEndpointsF_roots {parent : List Vid} {fs : List Fold} (h : wfEndpointsF parent fs = true) :
    ∀ f ∈ fs, f.toVid = f.component.root ∧ wfEndpointsC f.component = true := by
  induction fs with
  | nil => simp
  | cons g rest ih =>
    cases g with
    | mk e a t n ps c i o p =>
      simp only [wfEndpointsF, Bool.and_eq_true, beq_iff_eq] at h
      intro f hf
      rcases List.mem_cons.mp hf with rfl | hf
      · exact ⟨h.1.1.2, h.1.2⟩
      · exact ih h.2 f hf

mutual
theorem subComps_foldRoots : (c : Component) → wfEndpointsC c = true →
    ∀ c' ∈ subComps c, ∀ f ∈ c'.folds, f.toVid = f.component.root
  | .mk r vs es fs o, h => by
    simp only [wfEndpointsC, Bool.and_eq_true] at h
    have hr := wfEndpointsF_roots h.2
    intro c' hc'
    simp only [subComps, List.mem_cons] at hc'
    rcases hc' with rfl | hc'
    · intro f hf; exact (hr f hf).1
    · exact subCompsF_foldRoots fs (fun f hf => (hr f hf).2) c' hc'
theorem subCompsF_foldRoots : (fs : List Fold) → (∀ f ∈ fs, wfEndpointsC f.component = true) →
    ∀ c' ∈ subCompsF fs, ∀ f ∈ c'.folds, f.toVid = f.component.root
  | [], _ => by simp [subCompsF]
  | .mk e a t n ps c i o p :: rest, h => by
    intro c' hc'
    simp only [subCompsF, List.mem_append] at hc'
    rcases hc' with hc' | hc'
    · exact subComps_foldRoots c (h (.mk e a t n ps c i o p) (by simp)) c' hc'
    · exact subCompsF_foldRoots rest (fun f hf => h f (List.mem_cons_of_mem _ hf)) c' hc'
end

/-- In every component (at every depth) of a compiled query, a fold's `to_vid` is the root of the
fold's own component. -/
theorem toIR_foldRoots {S : SchemaView} {q : Spec.Query} {ir : IRQuery} (h : toIR S q = .ok ir) :
    ∀ c ∈ subComps ir.rootComponent, ∀ f ∈ c.folds, f.toVid = f.component.root :=
  subComps_foldRoots _ (toIR_numbering_endpoints h).2.1

end TF.Engine
