/-
Bridge frontend → `SchemaOK`: every query the frontend model `toIR` accepts is typed by the schema.

* `SchemaOK' S ir`        = `SchemaOK S ir` (`Proofs/InterpInvDefs.lean`) without the one sub-clause of
                            `edgeTyped` that the frontend does not guarantee (finding F-C21-1: for a
                            `@recurse` edge with `coerce_to = Some t`, `t` implements the edge's endpoint
                            type);
* `recCoercionOKAll S ir` = exactly that sub-clause, for every recursive edge of every component;
* `SchemaOK_split`        : `SchemaOK S ir = (SchemaOK' S ir && recCoercionOKAll S ir)`;
* `SchemaOK'' S ir`       = `SchemaOK'` without the other sub-clause about the type a recursion continues
                            on (`edgeDeclOK S (r.coerceTo.getD toV.preType) e.name toV.preType e.params`),
                            `recDeclOKAll S ir` = that sub-clause, `SchemaOK'_split`;
* `ValidSchemaCore S`     = decidable facts about the schema view alone that the real `Schema::parse`
                            guarantees (plus pairwise distinct parameter names per edge, as in the schema
                            hypothesis `validSchemaViewB` of C10: `Schema::parse` accepts an edge that
                            declares a parameter twice);
* `InheritedParamsSame S` = an edge shared with a strict supertype has the same parameter declarations
                            there.  NOT guaranteed by `Schema::parse` (an implementation may widen a
                            parameter type), and needed: `widenedParam_not_SchemaOK'` is a schema the
                            real `Schema::parse` accepts and a query the (real and modelled) frontend
                            accepts whose IR violates `recDeclOKAll` (a NEW FINDING, next to F-C21-1);
* `ValidSchema S`         = `ValidSchemaCore S && InheritedParamsSame S`;
* `toIR_SchemaOK''`       : `ValidSchemaCore S = true → toIR S q = .ok ir → SchemaOK'' S ir = true`;
* `toIR_SchemaOK'`        : `ValidSchema S = true → toIR S q = .ok ir → SchemaOK' S ir = true`
                            (`toIR_SchemaOK'_of`: with `RecDeclHyp S` instead of `InheritedParamsSame S`);
* `toIR_SchemaOK`         : `… → recCoercionOKAll S ir = true → SchemaOK S ir = true`.

Method: one induction over the successful runs of phase A (`fill_induct`), for an arbitrary assignment
`γ : Vid → Name` of types to vertex ids that agrees with the vertices the run creates (`Covers`): the
pieces of a component are typed under `γ` (`AccOK`), and every tag in the tag table carries the type the
schema gives to that property of the type `γ` gives to its vertex (`TagTy`).  `finish_typed` turns the
typed pieces into `soLocalR` of the finished component (vertex ids are pairwise distinct: `counted`);
at the top `γ` is read off the finished query (`gammaOf`).

Core Lean + Std only.
-/
import TrustfallModel.Proofs.InterpSpec4.StaticImports
import TrustfallModel.Proofs.InterpInvDefs

namespace TF.SchemaBridge
open TF TF.Engine TF.Spec TF.Frontend

/-! ### `SchemaOK'` and the split -/

/-- `edgeTyped` without the `coerce_to` sub-clause (F-C21-1). -/
def edgeTyped' (S : SchemaView) (comp : Component) (e : IREdge) : Bool :=
  match comp.vertex? e.fromVid, comp.vertex? e.toVid with
  | some fromV, some toV =>
    edgeDeclOK S fromV.typeName e.name toV.preType e.params &&
    (match e.recursive with
      | none => true
      | some r =>
        S.subOrEq toV.preType fromV.typeName &&
        edgeDeclOK S (r.coerceTo.getD toV.preType) e.name toV.preType e.params)
  | _, _ => false

/-- The sub-clause removed from `edgeTyped`: for a `@recurse` edge with `coerce_to = Some t`, `t`
implements the edge's endpoint type. -/
def recCoercionOK (S : SchemaView) (comp : Component) (e : IREdge) : Bool :=
  match comp.vertex? e.fromVid, comp.vertex? e.toVid with
  | some _, some toV =>
    (match e.recursive with
      | none => true
      | some r =>
        (match r.coerceTo with
          | some t => coercionOK S toV.preType t
          | none => true))
  | _, _ => true

def soLocal' (S : SchemaView) (_chain : List FieldRef) (comp : Component) : Bool :=
  comp.vertices.all (vertexTyped S comp) &&
  comp.edges.all (edgeTyped' S comp) &&
  comp.folds.all (foldTyped S comp) &&
  comp.outputs.all (outputTyped S comp)

def recLocal (S : SchemaView) (_chain : List FieldRef) (comp : Component) : Bool :=
  comp.edges.all (recCoercionOK S comp)

/-- `SchemaOK` without the F-C21-1 sub-clause. -/
def SchemaOK' (S : SchemaView) (ir : IRQuery) : Bool :=
  (match S.root? ir.rootName, ir.rootComponent.vertex? ir.rootComponent.root with
    | some ei, some rootV => ei.target == rootV.preType && paramsOK ei.params ir.rootParams
    | _, _ => false) &&
  allComps (soLocal' S) [] ir.rootComponent

/-- The F-C21-1 sub-clause for every recursive edge of every component. -/
def recCoercionOKAll (S : SchemaView) (ir : IRQuery) : Bool :=
  allComps (recLocal S) [] ir.rootComponent

theorem edgeTyped_split (S : SchemaView) (comp : Component) (e : IREdge) :
    edgeTyped S comp e = (edgeTyped' S comp e && recCoercionOK S comp e) := by
  unfold edgeTyped edgeTyped' recCoercionOK
  cases comp.vertex? e.fromVid <;> cases comp.vertex? e.toVid <;> try rfl
  cases e.recursive
  · simp
  · rename_i r
    rcases r with ⟨d, _ | c⟩ <;> simp [Bool.and_assoc]

theorem all_and {α : Type} (l : List α) (p q : α → Bool) :
    l.all (fun x => p x && q x) = (l.all p && l.all q) := by
  induction l with
  | nil => rfl
  | cons a l ih =>
    simp only [List.all_cons, ih]
    cases p a <;> cases q a <;> simp

theorem soLocal_split (S : SchemaView) (chain : List FieldRef) (comp : Component) :
    soLocal S chain comp = (soLocal' S chain comp && recLocal S chain comp) := by
  unfold soLocal soLocal' recLocal
  have : comp.edges.all (edgeTyped S comp) =
      (comp.edges.all (edgeTyped' S comp) && comp.edges.all (recCoercionOK S comp)) := by
    rw [← all_and]; congr 1; funext e; exact edgeTyped_split S comp e
  rw [this]
  cases comp.vertices.all (vertexTyped S comp) <;> cases comp.edges.all (edgeTyped' S comp) <;>
    cases comp.edges.all (recCoercionOK S comp) <;> cases comp.folds.all (foldTyped S comp) <;>
    cases comp.outputs.all (outputTyped S comp) <;> rfl

theorem allComps_and {p q r : List FieldRef → Component → Bool}
    (h : ∀ chain c, p chain c = (q chain c && r chain c)) :
    (∀ chain c, allComps p chain c = (allComps q chain c && allComps r chain c)) ∧
    (∀ chain fs, allCompsF p chain fs = (allCompsF q chain fs && allCompsF r chain fs)) := by
  apply allComps.mutual_induct
    (motive_1 := fun chain c => allComps p chain c = (allComps q chain c && allComps r chain c))
    (motive_2 := fun chain fs => allCompsF p chain fs = (allCompsF q chain fs && allCompsF r chain fs))
  · intro chain rt vs es fs os ih
    simp only [allComps, ih, h]
    cases q chain (.mk rt vs es fs os) <;> cases r chain (.mk rt vs es fs os) <;>
      cases allCompsF q chain fs <;> cases allCompsF r chain fs <;> rfl
  · intro chain; simp [allCompsF]
  · intro chain e f t n ps c imports fouts post rest ih1 ih2
    simp only [allCompsF, ih1, ih2]
    cases allComps q (imports ++ chain) c <;> cases allComps r (imports ++ chain) c <;>
      cases allCompsF q chain rest <;> cases allCompsF r chain rest <;> rfl

/-- `SchemaOK` is `SchemaOK'` plus the F-C21-1 sub-clause. -/
theorem SchemaOK_split (S : SchemaView) (ir : IRQuery) :
    SchemaOK S ir = (SchemaOK' S ir && recCoercionOKAll S ir) := by
  unfold SchemaOK SchemaOK' recCoercionOKAll
  rw [(allComps_and (soLocal_split S)).1, Bool.and_assoc]
  rfl

theorem SchemaOK_of_split {S : SchemaView} {ir : IRQuery} (h1 : SchemaOK' S ir = true)
    (h2 : recCoercionOKAll S ir = true) : SchemaOK S ir = true := by
  rw [SchemaOK_split, h1, h2]; rfl

/-! ### the second split: the `edgeDeclOK` clause on the type a recursion continues on

`edgeTypedR b`: for `b = true` it is `edgeTyped'`; for `b = false` the clause
`edgeDeclOK S (r.coerceTo.getD toV.preType) e.name toV.preType e.params` of a recursive edge is dropped
as well (it needs a schema fact that `Schema::parse` does not guarantee, see `InheritedParamsSame`). -/

def edgeTypedR (b : Bool) (S : SchemaView) (comp : Component) (e : IREdge) : Bool :=
  match comp.vertex? e.fromVid, comp.vertex? e.toVid with
  | some fromV, some toV =>
    edgeDeclOK S fromV.typeName e.name toV.preType e.params &&
    (match e.recursive with
      | none => true
      | some r =>
        S.subOrEq toV.preType fromV.typeName &&
        (!b || edgeDeclOK S (r.coerceTo.getD toV.preType) e.name toV.preType e.params))
  | _, _ => false

/-- the clause dropped by `edgeTypedR false` -/
def recDeclOK (S : SchemaView) (comp : Component) (e : IREdge) : Bool :=
  match comp.vertex? e.fromVid, comp.vertex? e.toVid with
  | some _, some toV =>
    (match e.recursive with
      | none => true
      | some r => edgeDeclOK S (r.coerceTo.getD toV.preType) e.name toV.preType e.params)
  | _, _ => true

def soLocalR (b : Bool) (S : SchemaView) (_chain : List FieldRef) (comp : Component) : Bool :=
  comp.vertices.all (vertexTyped S comp) &&
  comp.edges.all (edgeTypedR b S comp) &&
  comp.folds.all (foldTyped S comp) &&
  comp.outputs.all (outputTyped S comp)

def recDeclLocal (S : SchemaView) (_chain : List FieldRef) (comp : Component) : Bool :=
  comp.edges.all (recDeclOK S comp)

def SchemaOKR (b : Bool) (S : SchemaView) (ir : IRQuery) : Bool :=
  (match S.root? ir.rootName, ir.rootComponent.vertex? ir.rootComponent.root with
    | some ei, some rootV => ei.target == rootV.preType && paramsOK ei.params ir.rootParams
    | _, _ => false) &&
  allComps (soLocalR b S) [] ir.rootComponent

/-- `SchemaOK'` without the clause "the type a recursion continues on declares the edge with
parameters accepting the edge's tuple". -/
def SchemaOK'' (S : SchemaView) (ir : IRQuery) : Bool := SchemaOKR false S ir

/-- that clause, for every recursive edge of every component -/
def recDeclOKAll (S : SchemaView) (ir : IRQuery) : Bool :=
  allComps (recDeclLocal S) [] ir.rootComponent

theorem edgeTypedR_true (S : SchemaView) (comp : Component) (e : IREdge) :
    edgeTypedR true S comp e = edgeTyped' S comp e := by
  unfold edgeTypedR edgeTyped'
  cases comp.vertex? e.fromVid <;> cases comp.vertex? e.toVid <;> rfl

theorem soLocalR_true (S : SchemaView) : soLocalR true S = soLocal' S := by
  funext chain comp
  unfold soLocalR soLocal'
  have : edgeTypedR true S comp = edgeTyped' S comp := funext (edgeTypedR_true S comp)
  rw [this]

theorem SchemaOKR_true (S : SchemaView) (ir : IRQuery) : SchemaOKR true S ir = SchemaOK' S ir := by
  unfold SchemaOKR SchemaOK'
  rw [soLocalR_true]

theorem edgeTyped'_split (S : SchemaView) (comp : Component) (e : IREdge) :
    edgeTyped' S comp e = (edgeTypedR false S comp e && recDeclOK S comp e) := by
  unfold edgeTyped' edgeTypedR recDeclOK
  cases comp.vertex? e.fromVid <;> cases comp.vertex? e.toVid <;> try rfl
  cases e.recursive
  · simp
  · simp [Bool.and_assoc]

theorem soLocal'_split (S : SchemaView) (chain : List FieldRef) (comp : Component) :
    soLocal' S chain comp = (soLocalR false S chain comp && recDeclLocal S chain comp) := by
  unfold soLocal' soLocalR recDeclLocal
  have : comp.edges.all (edgeTyped' S comp) =
      (comp.edges.all (edgeTypedR false S comp) && comp.edges.all (recDeclOK S comp)) := by
    rw [← all_and]; congr 1; funext e; exact edgeTyped'_split S comp e
  rw [this]
  cases comp.vertices.all (vertexTyped S comp) <;> cases comp.edges.all (edgeTypedR false S comp) <;>
    cases comp.edges.all (recDeclOK S comp) <;> cases comp.folds.all (foldTyped S comp) <;>
    cases comp.outputs.all (outputTyped S comp) <;> rfl

/-- `SchemaOK'` is `SchemaOK''` plus the continuation-type clause of recursive edges. -/
theorem SchemaOK'_split (S : SchemaView) (ir : IRQuery) :
    SchemaOK' S ir = (SchemaOK'' S ir && recDeclOKAll S ir) := by
  unfold SchemaOK' SchemaOK'' SchemaOKR recDeclOKAll
  rw [(allComps_and (soLocal'_split S)).1, Bool.and_assoc]

/-! ### `ValidSchema` -/

/-- One declared edge parameter: its type has at least one nullability level (what `parseTy` /
`Type::from_type` guarantee; needed because a parameter without default that the query omits is
completed with `null`, which is valid only for a type with a nullable top level — `QTy.nullable` of
a type without levels is `true` but no value is valid for it), and its default value — which
`declaredParams` (as `make_edge_parameters`) does not re-check — is valid for the declared type once
read as the frontend reads literals (`InvalidDefaultValueForFieldParameter` of the real schema
validation). -/
def paramDeclOK (d : ParamDecl) : Bool :=
  !d.ty.nulls.isEmpty &&
  (match d.dflt with
    | some v => validQ d.ty (normLiteral v)
    | none => true)

/-- The parameter declarations of one edge: names pairwise distinct (`paramsOK` looks a declaration up
by name with `find?`, `declaredParams` walks the declaration list: with a name declared twice with two
types the second declaration's default is checked against the first declaration's type; `Schema::parse`
itself accepts such an edge, the C10 schema hypothesis `validSchemaViewB` excludes it in the same way),
each declaration in order. -/
def edgeParamsOK (e : EdgeInfo) : Bool :=
  namesDistinct (e.params.map (·.name)) && e.params.all paramDeclOK

/-- every declaration of `a` occurs (same name, same type) in `b` -/
def sigSub (a b : List ParamDecl) : Bool :=
  a.all fun d => b.any fun d' => d'.name == d.name && decide (d'.ty = d.ty)

/-- An edge a type shares with one of its strict supertypes has the same parameter declarations
(names and types, in any order) on both. -/
def inheritedSame (S : SchemaView) (ti : TypeInfo) : Bool :=
  ti.edges.all fun e => ti.supers.all fun s =>
    match S.edge? s e.name with
    | some se => sigSub e.params se.params && sigSub se.params e.params
    | none => true

/-- What `Schema::parse` guarantees (with distinct parameter names) and the clauses of `SchemaOK''`
need:
* root edges: `edgeParamsOK` (for `paramsOK ei.params ir.rootParams` in the root clause of `SchemaOK`);
* type edges: `edgeParamsOK` (for `paramsOK` inside `edgeDeclOK` in `edgeTyped` and `foldTyped`);
* property types have at least one nullability level (`outputTyped`: `!o.ty.nulls.isEmpty`).
Nothing about the schema is needed for `vertexTyped` (types, coercions, filter operand types),
`importTyped`, `localRefTyOK`, `S.subOrEq` of recursive edges: they follow from the frontend's own
checks. -/
def ValidSchemaCore (S : SchemaView) : Bool :=
  S.roots.all edgeParamsOK &&
  S.types.all (fun ti => ti.edges.all edgeParamsOK && ti.props.all (fun p => !p.2.nulls.isEmpty))

/-- Needed for the clause `edgeDeclOK S (r.coerceTo.getD toV.preType) e.name toV.preType e.params` of a
recursive edge in the cases 4a / 4c of `get_recurse_implicit_coercion`: there the edge is looked up on a
strict supertype of the source type, and must accept the parameter tuple completed from the SOURCE
type's declaration.  NOT guaranteed by the real `Schema::parse`, which allows an implementing type to
WIDEN a parameter type (`InvalidTypeNarrowingOfInheritedFieldParameter` is the only check): see the
witness `widenedParam_not_SchemaOK'` below. -/
def InheritedParamsSame (S : SchemaView) : Bool := S.types.all (inheritedSame S)

def ValidSchema (S : SchemaView) : Bool := ValidSchemaCore S && InheritedParamsSame S

/-! ### value validity: `Type::is_valid_value = Some(true)` implies the relation `validQ` -/

mutual
theorem validValue_true : (nulls : List Bool) → (base : Name) → (v : Value) →
    QTy.validValue nulls base v = some true → validNulls nulls base v = true
  | [], _, _, h => by simp [QTy.validValue] at h
  | n :: rest, base, v, h => by
    cases v with
    | list items =>
      simp only [QTy.validValue] at h
      split at h
      · simp at h
      · rename_i hr
        simp only [validNulls, Bool.and_eq_true, Bool.not_eq_true']
        exact ⟨by simpa using hr, validValues_true rest base items h⟩
    | enum s => simp [QTy.validValue] at h
    | _ => simpa [QTy.validValue, validNulls] using h
theorem validValues_true : (nulls : List Bool) → (base : Name) → (l : List Value) →
    QTy.validValues nulls base l = some true → validNullsList nulls base l = true
  | _, _, [], _ => by simp [validNullsList]
  | nulls, base, x :: xs, h => by
    simp only [QTy.validValues] at h
    split at h
    · rename_i hx
      simp only [validNullsList, Bool.and_eq_true]
      exact ⟨validValue_true nulls base x hx, validValues_true nulls base xs h⟩
    · rename_i hne
      exact absurd h hne
end

theorem validQ_of_isValidValue {t : QTy} {v : Value} (h : t.isValidValue v = some true) :
    validQ t v = true := validValue_true _ _ _ h

/-! ### edge parameters -/

theorem mem_insertParam {kv x : Name × Value} {l : Params} :
    x ∈ insertParam kv l ↔ x = kv ∨ x ∈ l := by
  induction l with
  | nil => simp [insertParam]
  | cons a l ih =>
    simp only [insertParam]
    split
    · simp
    · simp only [List.mem_cons, ih]
      constructor
      · rintro (h | h | h)
        · exact Or.inr (Or.inl h)
        · exact Or.inl h
        · exact Or.inr (Or.inr h)
      · rintro (h | h | h)
        · exact Or.inr (Or.inl h)
        · exact Or.inl h
        · exact Or.inr (Or.inr h)

/-- the tuple contains exactly the declared parameters, each with a value valid for its type -/
def ParamsSpec (decl : List ParamDecl) (ps : Params) : Prop :=
  (∀ d ∈ decl, ∃ v, (d.name, v) ∈ ps) ∧
  (∀ p ∈ ps, ∃ d ∈ decl, p.1 = d.name ∧ validQ d.ty p.2 = true)

theorem declaredParams_spec {explicit : Params} {decl : List ParamDecl} {ps : Params}
    (hok : ∀ d ∈ decl, paramDeclOK d = true)
    (h : declaredParams explicit decl = .ok ps) : ParamsSpec decl ps := by
  induction decl generalizing ps with
  | nil => simp [declaredParams] at h; subst h; exact ⟨by simp, by simp⟩
  | cons d rest ih =>
    have hd := hok d (List.mem_cons_self ..)
    simp only [paramDeclOK, Bool.and_eq_true, Bool.not_eq_true'] at hd
    rw [declaredParams] at h
    have key : ∃ v ps', validQ d.ty v = true ∧ declaredParams explicit rest = .ok ps' ∧
        ps = insertParam (d.name, v) ps' := by
      split at h
      · simp only [] at h
        split at h
        · rename_i hvv
          simp only [bind_ok, pure_ok] at h
          obtain ⟨v, rfl, ps', hps, rfl⟩ := h
          exact ⟨_, ps', validQ_of_isValidValue hvv, hps, rfl⟩
        · simp [bind, Except.bind] at h
        · simp [bind, Except.bind] at h
      · split at h
        · rename_i w hw
          simp only [bind_ok, pure_ok] at h
          obtain ⟨v, rfl, ps', hps, rfl⟩ := h
          have := hd.2
          rw [hw] at this
          exact ⟨_, ps', this, hps, rfl⟩
        · split at h
          · rename_i hn
            simp only [bind_ok, pure_ok] at h
            obtain ⟨v, rfl, ps', hps, rfl⟩ := h
            refine ⟨_, ps', ?_, hps, rfl⟩
            have h1 := hd.1
            unfold QTy.nullable at hn
            unfold validQ
            cases hnl : d.ty.nulls with
            | nil => rw [hnl] at h1; simp at h1
            | cons a r => rw [hnl] at hn; simpa [validNulls] using hn
          · simp [bind, Except.bind] at h
    obtain ⟨v, ps', hval, hps, rfl⟩ := key
    obtain ⟨i1, i2⟩ := ih (fun d hd => hok d (List.mem_cons_of_mem _ hd)) hps
    constructor
    · intro d' hd'
      rcases List.mem_cons.mp hd' with rfl | hd'
      · exact ⟨v, mem_insertParam.mpr (Or.inl rfl)⟩
      · obtain ⟨w, hw⟩ := i1 d' hd'
        exact ⟨w, mem_insertParam.mpr (Or.inr hw)⟩
    · intro p hp
      rcases mem_insertParam.mp hp with rfl | hp
      · exact ⟨d, List.mem_cons_self .., rfl, hval⟩
      · obtain ⟨d', hd', h1, h2⟩ := i2 p hp
        exact ⟨d', List.mem_cons_of_mem _ hd', h1, h2⟩

theorem find?_name_of_mem {l : List ParamDecl} (hd : namesDistinct (l.map (·.name)) = true)
    {d : ParamDecl} (hm : d ∈ l) : l.find? (·.name == d.name) = some d := by
  induction l with
  | nil => cases hm
  | cons a l ih =>
    simp only [List.map_cons, namesDistinct, Bool.and_eq_true, Bool.not_eq_true',
      List.contains_eq_mem, decide_eq_false_iff_not] at hd
    rcases List.mem_cons.mp hm with rfl | hm'
    · simp
    · have : (a.name == d.name) = false := by
        rw [Bool.eq_false_iff]
        intro he
        have : a.name = d.name := by simpa using he
        exact hd.1 (this ▸ List.mem_map.mpr ⟨d, hm', rfl⟩)
      rw [List.find?_cons, this]
      exact ih hd.2 hm'

theorem paramsOK_of_spec {decl : List ParamDecl} {ps : Params}
    (hd : namesDistinct (decl.map (·.name)) = true) (h : ParamsSpec decl ps) :
    paramsOK decl ps = true := by
  obtain ⟨h1, h2⟩ := h
  unfold paramsOK
  simp only [Bool.and_eq_true, List.all_eq_true, List.any_eq_true]
  constructor
  · intro d hdm
    obtain ⟨v, hv⟩ := h1 d hdm
    exact ⟨_, hv, by simp⟩
  · intro p hp
    obtain ⟨d, hdm, hn, hv⟩ := h2 p hp
    rw [hn, find?_name_of_mem hd hdm]
    exact hv

theorem spec_of_paramsOK {decl : List ParamDecl} {ps : Params} (h : paramsOK decl ps = true) :
    ParamsSpec decl ps := by
  unfold paramsOK at h
  simp only [Bool.and_eq_true, List.all_eq_true, List.any_eq_true] at h
  obtain ⟨h1, h2⟩ := h
  constructor
  · intro d hd
    obtain ⟨p, hp, hn⟩ := h1 d hd
    have : p.1 = d.name := by simpa using hn
    exact ⟨p.2, by rw [← this]; exact hp⟩
  · intro p hp
    have := h2 p hp
    split at this
    · rename_i d hf
      have hn := List.find?_some hf
      exact ⟨d, List.mem_of_find?_eq_some hf, (by simpa using hn : d.name = p.1).symm, this⟩
    · simp at this

/-- `make_edge_parameters` yields a tuple `paramsOK` accepts. -/
theorem paramsOK_of_complete {e : EdgeInfo} {explicit ps : Params} (he : edgeParamsOK e = true)
    (h : Frontend.completeParams e.params explicit = .ok ps) : paramsOK e.params ps = true := by
  unfold Frontend.completeParams at h
  simp only [bind_ok, pure_ok, check_ok] at h
  obtain ⟨_, _, ps', hps, _, _, rfl⟩ := h
  simp only [edgeParamsOK, Bool.and_eq_true, List.all_eq_true] at he
  exact paramsOK_of_spec he.1 (declaredParams_spec he.2 hps)

theorem sigSub_mem {a b : List ParamDecl} (h : sigSub a b = true) {d : ParamDecl} (hd : d ∈ a) :
    ∃ d' ∈ b, d'.name = d.name ∧ d'.ty = d.ty := by
  simp only [sigSub, List.all_eq_true, List.any_eq_true, Bool.and_eq_true, beq_iff_eq,
    decide_eq_true_eq] at h
  exact h d hd

/-- the same tuple is accepted by a declaration list with the same (name, type) pairs -/
theorem paramsOK_transfer {a b : List ParamDecl} {ps : Params}
    (hb : namesDistinct (b.map (·.name)) = true) (hab : sigSub a b = true) (hba : sigSub b a = true)
    (h : paramsOK a ps = true) : paramsOK b ps = true := by
  obtain ⟨h1, h2⟩ := spec_of_paramsOK h
  refine paramsOK_of_spec hb ⟨?_, ?_⟩
  · intro d' hd'
    obtain ⟨d, hd, hn, _⟩ := sigSub_mem hba hd'
    obtain ⟨v, hv⟩ := h1 d hd
    exact ⟨v, by rw [← hn]; exact hv⟩
  · intro p hp
    obtain ⟨d, hd, hn, hv⟩ := h2 p hp
    obtain ⟨d', hd', hn', ht'⟩ := sigSub_mem hab hd
    exact ⟨d', hd', by rw [hn, hn'], by rw [ht']; exact hv⟩

/-! ### schema lookups -/

theorem edge?_inv {S : SchemaView} {t n : Name} {ed : EdgeInfo} (h : S.edge? t n = some ed) :
    ∃ ti, S.type? t = some ti ∧ ti ∈ S.types ∧ ed ∈ ti.edges ∧ ed.name = n := by
  unfold SchemaView.edge? at h
  split at h
  · rename_i ti hti
    exact ⟨ti, hti, List.mem_of_find?_eq_some hti, List.mem_of_find?_eq_some h,
      by simpa using List.find?_some h⟩
  · simp at h

theorem isVertexType_of_edge? {S : SchemaView} {t n : Name} {ed : EdgeInfo}
    (h : S.edge? t n = some ed) : S.isVertexType t = true := by
  obtain ⟨ti, hti, _⟩ := edge?_inv h
  simp [SchemaView.isVertexType, hti]

theorem edge_paramsOK {S : SchemaView} (hV : ValidSchemaCore S = true) {t n : Name} {ed : EdgeInfo}
    (h : S.edge? t n = some ed) : edgeParamsOK ed = true := by
  obtain ⟨ti, _, hm, he, _⟩ := edge?_inv h
  simp only [ValidSchemaCore, Bool.and_eq_true, List.all_eq_true] at hV
  exact (hV.2 ti hm).1 ed he

theorem root_paramsOK {S : SchemaView} (hV : ValidSchemaCore S = true) {n : Name} {ed : EdgeInfo}
    (h : S.root? n = some ed) : edgeParamsOK ed = true := by
  simp only [ValidSchemaCore, Bool.and_eq_true, List.all_eq_true] at hV
  exact hV.1 ed (List.mem_of_find?_eq_some h)

theorem edgeDeclOK_of {S : SchemaView} {t n : Name} {ed : EdgeInfo} {ps : Params}
    (h : S.edge? t n = some ed) (hp : paramsOK ed.params ps = true) :
    edgeDeclOK S t n ed.target ps = true := by
  simp [edgeDeclOK, isVertexType_of_edge? h, h, hp]

theorem propTy_nulls {S : SchemaView} (hV : ValidSchemaCore S = true) {t p : Name} {ty : QTy}
    (h : S.propTy? t p = some ty) : ty.nulls.isEmpty = false := by
  unfold SchemaView.propTy? at h
  split at h
  · simp only [Option.some.injEq] at h; subst h; rfl
  · split at h
    · rename_i ti hti
      simp only [Option.map_eq_some_iff] at h
      obtain ⟨pr, hf, rfl⟩ := h
      simp only [ValidSchemaCore, Bool.and_eq_true, List.all_eq_true, Bool.not_eq_true'] at hV
      exact (hV.2 ti (List.mem_of_find?_eq_some hti)).2 pr (List.mem_of_find?_eq_some hf)
    · simp at h

/-! ### coercions -/

theorem coerce_spec {S : SchemaView} {pre : Name} {c : Option Name} {post : Name}
    (h : coerce S pre c = .ok post) :
    S.isVertexType post = true ∧ (∀ x, c = some x → coercionOK S pre post = true) ∧
      (c = none → post = pre) := by
  cases c with
  | none =>
    simp only [coerce, bind_ok, pure_ok, check_ok] at h
    obtain ⟨_, h1, rfl⟩ := h
    exact ⟨h1, by simp, fun _ => rfl⟩
  | some x =>
    simp only [coerce, bind_ok, pure_ok, check_ok, orErr_ok] at h
    obtain ⟨pt, hpt, _, hif, ct, hct, _, hsup, rfl⟩ := h
    refine ⟨by simp [SchemaView.isVertexType, hct], ?_, by simp⟩
    intro y _
    simp [coercionOK, SchemaView.isIface, hpt, hif, SchemaView.isVertexType, hct,
      SchemaView.supersOf]
    simpa using hsup

/-! ### recursion -/

theorem recurse_subOrEq {S : SchemaView} {source : Name} {ed : EdgeInfo} {c : Option Name}
    (h : recurseCoercion S source ed = .ok c) : S.subOrEq ed.target source = true := by
  unfold recurseCoercion at h
  simp only [] at h
  split at h
  · split at h <;> simp at h
  · rename_i hs
    cases hh : S.isSubtype ed.target source
    · simp [hh] at hs
    · simp only [SchemaView.isSubtype, Bool.and_eq_true] at hh
      exact hh.2

/-- What the second `edgeDeclOK` clause of a recursive edge needs: the edge looked up on the type the
recursion continues on accepts the parameter tuple completed from the source type's declaration. -/
def RecDeclHyp (S : SchemaView) : Prop :=
  ∀ ty n ed ps c, S.edge? ty n = some ed → paramsOK ed.params ps = true →
    recurseCoercion S ty ed = .ok c → edgeDeclOK S (c.getD ed.target) n ed.target ps = true

theorem edgeOrigins_mem {S : SchemaView} {source n a : Name} (h : S.edgeOrigins source n = [a]) :
    a = source ∨ a ∈ S.supersOf source := by
  have hm : a ∈ S.edgeOrigins source n := by rw [h]; simp
  unfold SchemaView.edgeOrigins at hm
  have := (List.mem_filter.mp hm).1
  simpa using this

theorem inherited_transfer {S : SchemaView} (hV : ValidSchema S = true) {ty n s : Name}
    {ed se : EdgeInfo} {ps : Params} (h : S.edge? ty n = some ed) (hs : s ∈ S.supersOf ty)
    (hse : S.edge? s n = some se) (hp : paramsOK ed.params ps = true) :
    paramsOK se.params ps = true := by
  obtain ⟨ti, hti, hm, he, hn⟩ := edge?_inv h
  simp only [ValidSchema, Bool.and_eq_true] at hV
  have hI := hV.2
  simp only [InheritedParamsSame, List.all_eq_true, inheritedSame] at hI
  have hs' : s ∈ ti.supers := by simpa [SchemaView.supersOf, hti] using hs
  have := hI ti hm ed he s hs'
  rw [hn, hse] at this
  simp only [Bool.and_eq_true] at this
  have hse' := edge_paramsOK hV.1 hse
  simp only [edgeParamsOK, Bool.and_eq_true] at hse'
  exact paramsOK_transfer hse'.1 this.1 this.2 hp

theorem recDeclHyp_of_valid {S : SchemaView} (hV : ValidSchema S = true) : RecDeclHyp S := by
  intro ty n ed ps c he hp hr
  obtain ⟨ti, hti, hm, hem, hn⟩ := edge?_inv he
  have hsub := recurse_subOrEq hr
  unfold recurseCoercion at hr
  simp only [] at hr
  split at hr
  · split at hr <;> simp at hr
  · split at hr
    · -- case 3: the edge points back to the source type
      rename_i heq
      simp only [Except.ok.injEq] at hr
      subst hr
      have heq' : ty = ed.target := by simpa using heq
      have := edgeDeclOK_of he hp
      rw [heq'] at this
      simpa using this
    · rename_i hne
      have hsup : ed.target ∈ S.supersOf ty := by
        simp only [SchemaView.subOrEq, Bool.or_eq_true, beq_iff_eq, List.contains_eq_mem,
          decide_eq_true_eq] at hsub
        rcases hsub with h | h
        · exact absurd (by simpa using h.symm) hne
        · exact h
      split at hr
      · -- case 4a: the endpoint type has the edge itself
        rename_i de hde
        split at hr
        · rename_i htd
          simp only [Except.ok.injEq] at hr
          subst hr
          rw [hn] at hde
          have hp' := inherited_transfer hV he hsup hde hp
          have := edgeDeclOK_of hde hp'
          have htd' : de.target = ed.target := by simpa using htd
          rw [htd'] at this
          simpa using this
        · simp at hr
      · split at hr
        · -- case 4c: the edge comes from one ancestor of the source type
          rename_i anc horig
          split at hr
          · rename_i ae hae
            split at hr
            · rename_i hta
              simp only [Except.ok.injEq] at hr
              subst hr
              rw [hn] at hae horig
              have hta' : ae.target = ed.target := by simpa using hta
              rcases edgeOrigins_mem horig with rfl | hanc
              · rw [he] at hae
                simp only [Option.some.injEq] at hae
                subst hae
                simpa using edgeDeclOK_of he hp
              · have hp' := inherited_transfer hV he hanc hae hp
                have := edgeDeclOK_of hae hp'
                rw [hta'] at this
                simpa using this
            · simp at hr
          · simp at hr
        · simp at hr

/-! ### tags and filters

`γ : Vid → Name` is the type of every vertex of the whole query (a parameter of the induction over
phase A: the vertices are not known in advance, so the invariants are stated for every `γ` that agrees
with the vertices the run creates — `Covers`). -/

theorem qty_beq_refl (a : QTy) : (a == a) = true := by
  obtain ⟨b, n⟩ := a
  simp only [BEq.beq, instBEqQTy.beq, Bool.and_eq_true, decide_eq_true_eq]
  refine ⟨trivial, ?_⟩
  show (n == n) = true
  simp

theorem optqty_beq_refl (a : QTy) : ((some a : Option QTy) == some a) = true := by
  show (a == a) = true
  exact qty_beq_refl a

/-- the tagged field has the type the schema gives to that property of the vertex' type -/
def RefTy (S : SchemaView) (γ : Vid → Name) : FieldRef → Prop
  | .ctx u n t => S.propTy? (γ u) n = some t
  | .fcount _ _ => True

/-- invariant of the tag table -/
def TagTy (S : SchemaView) (γ : Vid → Name) (T : List TagEntry) : Prop := ∀ e ∈ T, RefTy S γ e.field

/-- operand types of one resolved filter whose left operand has type `lt` -/
def FilterOK (S : SchemaView) (γ : Vid → Name) (lt : QTy) (f : IRFilter) : Prop :=
  match f.op, f.right with
  | .bin o, some (.var _ vt) => inferredOK lt o vt = true ∧ binTypesValid lt vt o = true
  | .bin o, some (.tag r) => RefTy S γ r ∧ binTypesValid lt (Engine.fieldRefTy r) o = true
  | _, _ => True

theorem fieldRefTy_eq (r : FieldRef) : Frontend.fieldRefTy r = Engine.fieldRefTy r := by
  cases r <;> rfl

theorem resolveFilter_typed {S : SchemaView} {γ : Vid → Name} {path vid pf st f ev st'}
    (hT : TagTy S γ st.tags) (h : resolveFilter path vid pf st = .ok (f, ev, st')) :
    f.left = pf.left ∧ FilterOK S γ pf.leftTy f := by
  unfold resolveFilter at h
  split at h
  · simp only [bind_ok, pure_ok] at h
    obtain ⟨_, _, h⟩ := h
    simp at h; obtain ⟨rfl, _, _⟩ := h
    exact ⟨rfl, by simp [FilterOK]⟩
  · simp only [bind_ok, pure_ok, check_ok] at h
    obtain ⟨vt, hvt, _, hb, h⟩ := h
    simp at h; obtain ⟨rfl, _, _⟩ := h
    refine ⟨rfl, ?_⟩
    simp only [FilterOK]
    exact ⟨by simp [inferredOK, hvt, qty_beq_refl], hb⟩
  · simp only [bind_ok, pure_ok, check_ok] at h
    obtain ⟨⟨r, ev1, st1⟩, h1, _, hb, h⟩ := h
    simp at h; obtain ⟨rfl, _, _⟩ := h
    obtain ⟨e, hf, _, _, rfl, _, _⟩ := refTag_inv h1
    refine ⟨rfl, ?_⟩
    simp only [FilterOK]
    exact ⟨hT e (mem_of_find? hf), by rw [← fieldRefTy_eq]; exact hb⟩
  · simp at h

theorem resolveFilters_typed {S : SchemaView} {γ : Vid → Name} {path vid l st fs evs st'}
    (hT : TagTy S γ st.tags) (h : resolveFilters path vid l st = .ok (fs, evs, st')) :
    ∀ f ∈ fs, ∃ pf ∈ l, f.left = pf.left ∧ FilterOK S γ pf.leftTy f := by
  induction l generalizing st fs evs with
  | nil => simp [resolveFilters] at h; obtain ⟨rfl, _, _⟩ := h; simp
  | cons pf rest ih =>
    rw [resolveFilters] at h
    simp only [bind_ok, pure_ok] at h
    obtain ⟨⟨f, ev1, st1⟩, h1, ⟨fs2, ev2, st2⟩, h2, h3⟩ := h
    simp at h3
    obtain ⟨rfl, _, rfl⟩ := h3
    dsimp only at h2
    have ht : st1.tags = st.tags := (resolveFilter_core h1).2.2.symm
    intro g hg
    rcases List.mem_cons.mp hg with rfl | hg
    · exact ⟨pf, List.mem_cons_self .., resolveFilter_typed hT h1⟩
    · obtain ⟨pf', hpf', hh⟩ := ih (by rw [ht]; exact hT) h2 g hg
      exact ⟨pf', List.mem_cons_of_mem _ hpf', hh⟩

/-- a vertex record of phase A and the vertex phase B makes of it -/
def VRel (S : SchemaView) (γ : Vid → Name) (r : VertexRec) (x : IRVertex) : Prop :=
  x.vid = r.vid ∧ x.typeName = r.typeName ∧ x.coercedFrom = r.coercedFrom ∧
  ∀ f ∈ x.filters, ∃ pf ∈ r.pending, f.left = pf.left ∧ FilterOK S γ pf.leftTy f

theorem makeVertices_typed {S : SchemaView} {γ : Vid → Name} {path l st vs ev st'}
    (hT : TagTy S γ st.tags) (h : makeVertices path l st = .ok (vs, ev, st')) :
    (∀ x ∈ vs, ∃ r ∈ l, VRel S γ r x) ∧ (∀ r ∈ l, ∃ x ∈ vs, VRel S γ r x) := by
  induction l generalizing st vs ev with
  | nil => simp [makeVertices] at h; obtain ⟨rfl, _, _⟩ := h; simp
  | cons v rest ih =>
    rw [makeVertices] at h
    simp only [bind_ok, pure_ok, makeVertex] at h
    obtain ⟨⟨x, ev1, st1⟩, ⟨⟨fs, ev0, st0⟩, h0, hx⟩, ⟨xs, ev2, st2⟩, h2, h3⟩ := h
    simp at h3 hx h2
    obtain ⟨rfl, _, rfl⟩ := h3
    obtain ⟨rfl, _, rfl⟩ := hx
    have ht : st0.tags = st.tags := (resolveFilters_core h0).2.2.symm
    obtain ⟨i1, i2⟩ := ih (by rw [ht]; exact hT) h2
    have hv : VRel S γ v ⟨v.vid, v.typeName, v.coercedFrom, fs⟩ :=
      ⟨rfl, rfl, rfl, resolveFilters_typed hT h0⟩
    constructor
    · intro y hy
      rcases List.mem_cons.mp hy with rfl | hy
      · exact ⟨v, List.mem_cons_self .., hv⟩
      · obtain ⟨r, hr, hh⟩ := i1 y hy
        exact ⟨r, List.mem_cons_of_mem _ hr, hh⟩
    · intro r hr
      rcases List.mem_cons.mp hr with rfl | hr
      · exact ⟨_, List.mem_cons_self .., hv⟩
      · obtain ⟨y, hy, hh⟩ := i2 r hr
        exact ⟨y, List.mem_cons_of_mem _ hy, hh⟩

theorem find?_vid_iff {vs : List IRVertex} (hnd : (vs.map (·.vid)).Nodup) {u : Vid} {x : IRVertex} :
    vs.find? (·.vid == u) = some x ↔ x ∈ vs ∧ x.vid = u := by
  constructor
  · intro h
    exact ⟨List.mem_of_find?_eq_some h, by simpa using List.find?_some h⟩
  · rintro ⟨hm, rfl⟩
    induction vs with
    | nil => cases hm
    | cons a vs ih =>
      simp only [List.map_cons, List.nodup_cons] at hnd
      rcases List.mem_cons.mp hm with rfl | hm'
      · simp
      · have : (a.vid == x.vid) = false := by
          rw [Bool.eq_false_iff]
          intro he
          have : a.vid = x.vid := by simpa using he
          exact hnd.1 (this ▸ List.mem_map.mpr ⟨x, hm', rfl⟩)
        rw [List.find?_cons, this]
        exact ih hnd.2 hm'

/-! ### the typing invariant of the pieces of a component -/

/-- pre-coercion type of a vertex record -/
def preOf (r : VertexRec) : Name := r.coercedFrom.getD r.typeName

def VertOK (S : SchemaView) (r : VertexRec) : Prop :=
  S.isVertexType r.typeName = true ∧
  (∀ ft, r.coercedFrom = some ft → coercionOK S ft r.typeName = true) ∧
  ∀ pf ∈ r.pending, ∃ n, pf.left = .loc n pf.leftTy ∧ S.propTy? r.typeName n = some pf.leftTy

def EdgeOK (b : Bool) (S : SchemaView) (γ : Vid → Name) (verts : List VertexRec) (e : IREdge) : Prop :=
  ∃ r ∈ verts, r.vid = e.toVid ∧ edgeDeclOK S (γ e.fromVid) e.name (preOf r) e.params = true ∧
    (∀ rc, e.recursive = some rc → S.subOrEq (preOf r) (γ e.fromVid) = true ∧
      (b = true → edgeDeclOK S (rc.coerceTo.getD (preOf r)) e.name (preOf r) e.params = true))

def FoldOK (b : Bool) (S : SchemaView) (γ : Vid → Name) (f : Fold) : Prop :=
  (∃ rootV, f.component.vertex? f.component.root = some rootV ∧
    edgeDeclOK S (γ f.fromVid) f.name rootV.preType f.params = true) ∧
  (∀ r ∈ f.imports, RefTy S γ r) ∧
  (∀ pf ∈ f.post, FilterOK S γ ⟨"Int", [false]⟩ pf) ∧
  (∀ chain, allComps (soLocalR b S) chain f.component = true)

def OutOK (S : SchemaView) (γ : Vid → Name) (vid : Vid) (verts : List VertexRec) (o : OutputDef) :
    Prop :=
  (o.vid = vid ∨ o.vid ∈ verts.map (·.vid)) ∧ S.propTy? (γ o.vid) o.field = some o.ty ∧
    o.ty.nulls.isEmpty = false

structure AccOK (b : Bool) (S : SchemaView) (γ : Vid → Name) (vid : Vid) (acc : Acc) : Prop where
  verts : ∀ r ∈ acc.verts, VertOK S r
  edges : ∀ e ∈ acc.edges, EdgeOK b S γ acc.verts e
  folds : ∀ f ∈ acc.folds, FoldOK b S γ f
  outs : ∀ o ∈ acc.outs, OutOK S γ vid acc.verts o

theorem EdgeOK.mono {bb : Bool} {S : SchemaView} {γ : Vid → Name} {a b : List VertexRec} {e : IREdge}
    (hab : ∀ r ∈ a, r ∈ b) (h : EdgeOK bb S γ a e) : EdgeOK bb S γ b e := by
  obtain ⟨r, hr, h1⟩ := h
  exact ⟨r, hab r hr, h1⟩

theorem OutOK.mono {S : SchemaView} {γ : Vid → Name} {vid : Vid} {a b : List VertexRec}
    {o : OutputDef} (hab : ∀ r ∈ a, r ∈ b) (h : OutOK S γ vid a o) : OutOK S γ vid b o := by
  obtain ⟨h1, h2⟩ := h
  refine ⟨h1.imp id ?_, h2⟩
  intro hm
  obtain ⟨r, hr, hv⟩ := List.mem_map.mp hm
  exact List.mem_map.mpr ⟨r, hab r hr, hv⟩

theorem AccOK.append {bb : Bool} {S : SchemaView} {γ : Vid → Name} {vid : Vid} {a b : Acc}
    (ha : AccOK bb S γ vid a) (hb : AccOK bb S γ vid b) : AccOK bb S γ vid (a ++ b) := by
  refine ⟨?_, ?_, ?_, ?_⟩
  · intro r hr
    simp only [Acc.append_verts, List.mem_append] at hr
    exact hr.elim (ha.verts r) (hb.verts r)
  · intro e he
    simp only [Acc.append_edges, List.mem_append] at he
    simp only [Acc.append_verts]
    rcases he with he | he
    · exact (ha.edges e he).mono (fun r hr => List.mem_append_left _ hr)
    · exact (hb.edges e he).mono (fun r hr => List.mem_append_right _ hr)
  · intro f hf
    simp only [Acc.append_folds, List.mem_append] at hf
    exact hf.elim (ha.folds f) (hb.folds f)
  · intro o ho
    simp only [Acc.append_outs, List.mem_append] at ho
    simp only [Acc.append_verts]
    rcases ho with ho | ho
    · exact (ha.outs o ho).mono (fun r hr => List.mem_append_left _ hr)
    · exact (hb.outs o ho).mono (fun r hr => List.mem_append_right _ hr)

/-- a new edge in front of pieces that contain its target vertex -/
theorem AccOK.consEdge {bb : Bool} {S : SchemaView} {γ : Vid → Name} {vid : Vid} {acc : Acc}
    {e : IREdge} (he : EdgeOK bb S γ acc.verts e) (h : AccOK bb S γ vid acc) :
    AccOK bb S γ vid ({ edges := [e] } ++ acc) := by
  refine ⟨?_, ?_, ?_, ?_⟩
  · intro r hr
    simp only [Acc.append_verts, List.nil_append] at hr
    exact h.verts r hr
  · intro e' he'
    simp only [Acc.append_edges, List.cons_append, List.nil_append, List.mem_cons] at he'
    simp only [Acc.append_verts, List.nil_append]
    rcases he' with rfl | he'
    · exact he
    · exact h.edges e' he'
  · intro f hf
    simp only [Acc.append_folds, List.nil_append] at hf
    exact h.folds f hf
  · intro o ho
    simp only [Acc.append_outs, List.nil_append] at ho
    simp only [Acc.append_verts, List.nil_append]
    exact h.outs o ho

/-- pieces hanging below another vertex `w` of the same component: re-root at `vid` -/
theorem AccOK.reroot {bb : Bool} {S : SchemaView} {γ : Vid → Name} {vid w : Vid} {acc : Acc}
    (hw : w ∈ acc.verts.map (·.vid)) (h : AccOK bb S γ w acc) : AccOK bb S γ vid acc := by
  refine ⟨h.verts, h.edges, h.folds, ?_⟩
  intro o ho
  obtain ⟨h1, h2⟩ := h.outs o ho
  refine ⟨Or.inr ?_, h2⟩
  rcases h1 with h1 | h1
  · exact h1 ▸ hw
  · exact h1

/-! ### finishing a component -/

theorem localRef_of {S : SchemaView} {γ : Vid → Name} {comp : Component} {curType : Name} {cur : Vid}
    {r : FieldRef} (hcur : γ cur = curType) (hvs : ∀ x ∈ comp.vertices, γ x.vid = x.typeName)
    (h : RefTy S γ r) : localRefTyOK S comp curType cur r = true := by
  cases r with
  | fcount e rt => rfl
  | ctx u n t =>
    simp only [RefTy] at h
    simp only [localRefTyOK]
    split
    · rename_i huc
      have : u = cur := by simpa using huc
      rw [← hcur, ← this, h]; exact optqty_beq_refl t
    · split
      · rename_i vx hvx
        unfold Component.vertex? at hvx
        have hm := List.mem_of_find?_eq_some hvx
        have hv : vx.vid = u := by simpa using List.find?_some hvx
        rw [← hvs vx hm, hv, h]; exact optqty_beq_refl t
      · rfl

theorem filterTyped_of_ok {S : SchemaView} {γ : Vid → Name} {comp : Component} {curType : Name}
    {cur : Vid} {lt : QTy} {f : IRFilter} (hcur : γ cur = curType)
    (hvs : ∀ x ∈ comp.vertices, γ x.vid = x.typeName) (h : FilterOK S γ lt f) :
    filterTyped S comp curType cur lt f = true := by
  rcases f with ⟨op, left, right⟩
  cases op with
  | un o => simp [filterTyped]
  | bin o =>
    cases right with
    | none => simp [filterTyped]
    | some a =>
      cases a with
      | var n vt =>
        simp only [FilterOK] at h
        simp only [filterTyped, Bool.and_eq_true]
        exact h
      | tag r =>
        simp only [FilterOK] at h
        simp only [filterTyped, Bool.and_eq_true]
        exact ⟨localRef_of hcur hvs h.1, h.2⟩

theorem allCompsF_of {p : List FieldRef → Component → Bool} {fs : List Fold}
    (h : ∀ f ∈ fs, ∀ chain, allComps p chain f.component = true) (chain : List FieldRef) :
    allCompsF p chain fs = true := by
  induction fs with
  | nil => rfl
  | cons f rest ih =>
    cases f with
    | mk e a b n ps c imports fo post =>
      simp only [allCompsF, Bool.and_eq_true]
      exact ⟨h _ (List.mem_cons_self ..) _, ih (fun f hf => h f (List.mem_cons_of_mem _ hf))⟩

theorem wfEndpointsF_mem {pvs : List Vid} {fs : List Fold} (h : wfEndpointsF pvs fs = true) :
    ∀ f ∈ fs, f.fromVid ∈ pvs := by
  induction fs with
  | nil => simp
  | cons f rest ih =>
    cases f with
    | mk e a b n ps c imports fo post =>
      simp only [wfEndpointsF, Bool.and_eq_true, List.contains_eq_mem, decide_eq_true_eq] at h
      intro g hg
      rcases List.mem_cons.mp hg with rfl | hg
      · exact h.1.1.1.2
      · exact ih h.2 g hg

theorem mem_insertOutput' {o x : OutputDef} {l : List OutputDef} :
    x ∈ insertOutput o l → x = o ∨ x ∈ l := by
  induction l with
  | nil => simp [insertOutput]
  | cons a l ih =>
    simp only [insertOutput]
    split
    · simp
    · simp only [List.mem_cons]
      rintro (h | h)
      · exact Or.inr (Or.inl h)
      · exact (ih h).imp id Or.inr

theorem mem_sortOutputs' {x : OutputDef} {l : List OutputDef} (h : x ∈ sortOutputs l) : x ∈ l := by
  induction l with
  | nil => simp [sortOutputs] at h
  | cons a l ih =>
    simp only [sortOutputs, List.foldr_cons] at h
    rcases mem_insertOutput' h with rfl | h
    · exact List.mem_cons_self ..
    · exact List.mem_cons_of_mem _ (ih h)

theorem finish_typed {b : Bool} {S : SchemaView} {γ : Vid → Name} {path : List Vid} {root : Vid}
    {acc : Acc} {st st' : St} {comp : Component} {evs : List ImportEvent}
    (hok : AccOK b S γ root acc)
    (hnd : (acc.verts.map (·.vid)).Nodup)
    (hcov : ∀ r ∈ acc.verts, γ r.vid = r.typeName)
    (hT : TagTy S γ st.tags)
    (hfin : finishComponent path root acc st = .ok (comp, evs, st'))
    (hend : wfEndpointsC comp = true) (himp : wfImportsC comp = true) :
    (∀ chain, allComps (soLocalR b S) chain comp = true) ∧
    (∀ r ∈ acc.verts, ∃ x, comp.vertex? r.vid = some x ∧ x.typeName = r.typeName ∧
      x.coercedFrom = r.coercedFrom) := by
  obtain ⟨vs, ev, hmk, rfl, _⟩ := finishComponent_inv hfin
  obtain ⟨_, hvids⟩ := makeVertices_inv hmk
  obtain ⟨m1, m2⟩ := makeVertices_typed hT hmk
  have hndv : (vs.map (·.vid)).Nodup := by rw [hvids]; exact hnd
  generalize hcomp : Component.mk root vs acc.edges acc.folds (sortOutputs acc.outs) = comp at *
  have cv : comp.vertices = vs := by rw [← hcomp]; rfl
  have ce : comp.edges = acc.edges := by rw [← hcomp]; rfl
  have cf : comp.folds = acc.folds := by rw [← hcomp]; rfl
  have co : comp.outputs = sortOutputs acc.outs := by rw [← hcomp]; rfl
  have vx_iff : ∀ u x, comp.vertex? u = some x ↔ x ∈ vs ∧ x.vid = u := by
    intro u x; unfold Component.vertex?; rw [cv]; exact find?_vid_iff hndv
  have look : ∀ r ∈ acc.verts, ∃ x, comp.vertex? r.vid = some x ∧ VRel S γ r x := by
    intro r hr
    obtain ⟨x, hx, hrel⟩ := m2 r hr
    exact ⟨x, (vx_iff _ _).mpr ⟨hx, hrel.1⟩, hrel⟩
  have lookV : ∀ u ∈ vs.map (·.vid), ∃ x, comp.vertex? u = some x ∧ x ∈ vs := by
    intro u hu
    obtain ⟨x, hx, rfl⟩ := List.mem_map.mp hu
    exact ⟨x, (vx_iff _ _).mpr ⟨hx, rfl⟩, hx⟩
  have hγ : ∀ x ∈ vs, γ x.vid = x.typeName := by
    intro x hx; obtain ⟨r, hr, h1, h2, _⟩ := m1 x hx; rw [h1, h2]; exact hcov r hr
  have hγ' : ∀ u x, comp.vertex? u = some x → γ u = x.typeName := by
    intro u x hx
    obtain ⟨hm, rfl⟩ := (vx_iff _ _).mp hx
    exact hγ x hm
  have hγc : ∀ x ∈ comp.vertices, γ x.vid = x.typeName := by rw [cv]; exact hγ
  have hvok : ∀ x ∈ vs, S.isVertexType x.typeName = true := by
    intro x hx; obtain ⟨r, hr, _, h2, _⟩ := m1 x hx; rw [h2]; exact (hok.verts r hr).1
  have hend' := hend
  rw [← hcomp] at hend' himp
  simp only [wfEndpointsC, Bool.and_eq_true, List.all_eq_true, List.contains_eq_mem,
    decide_eq_true_eq, vertexVids] at hend'
  obtain ⟨⟨hrootm, hedges⟩, hfolds⟩ := hend'
  have hfoldsm := wfEndpointsF_mem hfolds
  simp only [wfImportsC, wfImportsF_iff] at himp
  refine ⟨fun chain => ?_, fun r hr => ?_⟩
  · rw [← hcomp]
    simp only [allComps, Bool.and_eq_true]
    refine ⟨?_, allCompsF_of (fun f hf => (hok.folds f hf).2.2.2) chain⟩
    rw [hcomp]
    simp only [soLocalR, Bool.and_eq_true, List.all_eq_true]
    refine ⟨⟨⟨?_, ?_⟩, ?_⟩, ?_⟩
    · -- vertices
      intro x hx
      rw [cv] at hx
      obtain ⟨r, hr, h1, h2, h3, h4⟩ := m1 x hx
      obtain ⟨v1, v2, v3⟩ := hok.verts r hr
      simp only [vertexTyped, Bool.and_eq_true, List.all_eq_true]
      refine ⟨⟨by rw [h2]; exact v1, ?_⟩, ?_⟩
      · rw [h3, h2]
        cases hc : r.coercedFrom with
        | none => rfl
        | some ft => exact v2 ft hc
      · intro f hf
        obtain ⟨pf, hpf, hl, hfo⟩ := h4 f hf
        obtain ⟨n, hn, hp⟩ := v3 pf hpf
        simp only [vertexFilterTyped, hl, hn, Bool.and_eq_true]
        refine ⟨by rw [h2, hp]; exact optqty_beq_refl _, ?_⟩
        exact filterTyped_of_ok (hγ x hx) hγc hfo
    · -- edges
      intro e he
      rw [ce] at he
      obtain ⟨⟨_, hfm⟩, _⟩ := hedges e he
      obtain ⟨fromV, hfromV, _⟩ := lookV _ hfm
      obtain ⟨r, hr, hrv, hdecl, hrec⟩ := hok.edges e he
      obtain ⟨toV, htoV, hrel⟩ := look r hr
      rw [hrv] at htoV
      have hpre : toV.preType = preOf r := by
        simp only [IRVertex.preType, preOf, hrel.2.1, hrel.2.2.1]
      have hft := hγ' _ _ hfromV
      simp only [edgeTypedR, hfromV, htoV, Bool.and_eq_true]
      refine ⟨by rw [← hft, hpre]; exact hdecl, ?_⟩
      cases hrc : e.recursive with
      | none => rfl
      | some rc =>
        obtain ⟨a, hb⟩ := hrec rc hrc
        simp only [Bool.and_eq_true, Bool.or_eq_true, Bool.not_eq_true']
        refine ⟨by rw [← hft, hpre]; exact a, ?_⟩
        cases b with
        | false => exact Or.inl rfl
        | true => exact Or.inr (by rw [hpre]; exact hb rfl)
    · -- folds
      intro f hf
      rw [cf] at hf
      obtain ⟨fromV, hfromV, _⟩ := lookV _ (hfoldsm f hf)
      obtain ⟨⟨rootV, hrootV, hdecl⟩, himps, hpost, _⟩ := hok.folds f hf
      have hft := hγ' _ _ hfromV
      simp only [foldTyped, hfromV, hrootV, Bool.and_eq_true, List.all_eq_true]
      refine ⟨⟨by rw [← hft]; exact hdecl, ?_⟩, ?_⟩
      · intro r hr
        cases r with
        | fcount e rt => rfl
        | ctx u n t =>
          have hdef := ((himp f hf).1 _ hr).2
          rw [definedIn_ctx] at hdef
          obtain ⟨vx, hvx, hvm⟩ := lookV _ hdef
          have := himps _ hr
          simp only [RefTy] at this
          simp only [importTyped, hvx, Bool.and_eq_true]
          refine ⟨hvok vx hvm, ?_⟩
          rw [← hγ' _ _ hvx, this]; exact optqty_beq_refl t
      · intro pf hpf
        exact filterTyped_of_ok hft hγc (hpost pf hpf)
    · -- outputs
      intro o ho
      rw [co] at ho
      obtain ⟨h1, h2, h3⟩ := hok.outs o (mem_sortOutputs' ho)
      have hm : o.vid ∈ vs.map (·.vid) := by
        rcases h1 with h1 | h1
        · rw [h1]; exact hrootm
        · rw [hvids]; exact h1
      obtain ⟨vx, hvx, _⟩ := lookV _ hm
      simp only [outputTyped, hvx, Bool.and_eq_true, Bool.not_eq_true']
      refine ⟨?_, h3⟩
      rw [← hγ' _ _ hvx, h2]; exact optqty_beq_refl _
  · obtain ⟨x, hx, hrel⟩ := look r hr
    exact ⟨x, hx, hrel.2.1, hrel.2.2.1⟩

/-! ### the vertex types of a whole component tree -/

mutual
/-- every `(vid, type)` of a component and its sub-components -/
def allVT : Component → List (Vid × Name)
  | .mk _ vs _ fs _ => vs.map (fun v => (v.vid, v.typeName)) ++ foldsVT fs
def foldsVT : List Fold → List (Vid × Name)
  | [] => []
  | .mk _ _ _ _ _ c _ _ _ :: rest => allVT c ++ foldsVT rest
end

def accVT (a : Acc) : List (Vid × Name) :=
  a.verts.map (fun r => (r.vid, r.typeName)) ++ foldsVT a.folds

/-- `γ` agrees with the types of all vertices in the pieces `acc` (sub-components included) -/
def Covers (γ : Vid → Name) (acc : Acc) : Prop := ∀ p ∈ accVT acc, γ p.1 = p.2

theorem foldsVT_append (a b : List Fold) : foldsVT (a ++ b) = foldsVT a ++ foldsVT b := by
  induction a with
  | nil => simp [foldsVT]
  | cons f rest ih => cases f; simp [foldsVT, ih]

theorem mem_accVT_append {a b : Acc} {p : Vid × Name} :
    p ∈ accVT (a ++ b) ↔ p ∈ accVT a ∨ p ∈ accVT b := by
  simp only [accVT, Acc.append_verts, Acc.append_folds, foldsVT_append, List.map_append,
    List.mem_append]
  constructor
  · rintro ((h | h) | (h | h))
    · exact Or.inl (Or.inl h)
    · exact Or.inr (Or.inl h)
    · exact Or.inl (Or.inr h)
    · exact Or.inr (Or.inr h)
  · rintro ((h | h) | (h | h))
    · exact Or.inl (Or.inl h)
    · exact Or.inr (Or.inl h)
    · exact Or.inl (Or.inr h)
    · exact Or.inr (Or.inr h)

theorem Covers.left {γ : Vid → Name} {a b : Acc} (h : Covers γ (a ++ b)) : Covers γ a :=
  fun p hp => h p (mem_accVT_append.mpr (Or.inl hp))

theorem Covers.right {γ : Vid → Name} {a b : Acc} (h : Covers γ (a ++ b)) : Covers γ b :=
  fun p hp => h p (mem_accVT_append.mpr (Or.inr hp))

theorem Covers.verts {γ : Vid → Name} {a : Acc} (h : Covers γ a) :
    ∀ r ∈ a.verts, γ r.vid = r.typeName := by
  intro r hr
  exact h (r.vid, r.typeName) (List.mem_append_left _ (List.mem_map.mpr ⟨r, hr, rfl⟩))

theorem makeVertices_vt {path l st vs ev st'} (h : makeVertices path l st = .ok (vs, ev, st')) :
    vs.map (fun v => (v.vid, v.typeName)) = l.map (fun r => (r.vid, r.typeName)) := by
  induction l generalizing st vs ev with
  | nil => simp [makeVertices] at h; obtain ⟨rfl, _, _⟩ := h; rfl
  | cons v rest ih =>
    rw [makeVertices] at h
    simp only [bind_ok, pure_ok, makeVertex] at h
    obtain ⟨⟨x, ev1, st1⟩, ⟨⟨fs, ev0, st0⟩, h0, hx⟩, ⟨xs, ev2, st2⟩, h2, h3⟩ := h
    simp at h3 hx h2
    obtain ⟨rfl, _, rfl⟩ := h3
    obtain ⟨rfl, _, rfl⟩ := hx
    simp [ih h2]

theorem allVT_finish {path root acc st comp evs st'}
    (h : finishComponent path root acc st = .ok (comp, evs, st')) : allVT comp = accVT acc := by
  obtain ⟨vs, ev, h1, rfl, _⟩ := finishComponent_inv h
  simp [allVT, accVT, makeVertices_vt h1]

theorem map_fst_allVT :
    (∀ c, (allVT c).map (·.1) = allVids c) ∧ (∀ fs, (foldsVT fs).map (·.1) = foldsVids fs) := by
  apply allVT.mutual_induct
    (motive_1 := fun c => (allVT c).map (·.1) = allVids c)
    (motive_2 := fun fs => (foldsVT fs).map (·.1) = foldsVids fs)
  · intro rt vs es fs os ih
    simp [allVT, allVids, vertexVids, ih]
  · simp [foldsVT, foldsVids]
  · intro e a b n ps c imports fo post rest ih1 ih2
    simp [foldsVT, foldsVids, ih1, ih2]

theorem accVT_fold (f : Fold) (ev : List ImportEvent) :
    accVT { folds := [f], events := ev } = allVT f.component := by
  cases f; simp [accVT, foldsVT, Fold.component]

/-- the type assignment read off a list of `(vid, type)` pairs -/
def gammaOf (l : List (Vid × Name)) (u : Vid) : Name :=
  match l.find? (·.1 == u) with
  | some p => p.2
  | none => ""

theorem gammaOf_covers {l : List (Vid × Name)} (h : (l.map (·.1)).Nodup) :
    ∀ p ∈ l, gammaOf l p.1 = p.2 := by
  induction l with
  | nil => simp
  | cons a l ih =>
    simp only [List.map_cons, List.nodup_cons] at h
    intro p hp
    rcases List.mem_cons.mp hp with rfl | hp'
    · simp [gammaOf]
    · have hne : (a.1 == p.1) = false := by
        rw [Bool.eq_false_iff]
        intro he
        have : a.1 = p.1 := by simpa using he
        exact h.1 (this ▸ List.mem_map.mpr ⟨p, hp', rfl⟩)
      have := ih h.2 p hp'
      simp only [gammaOf, List.find?_cons, hne] at this ⊢
      exact this

theorem nodup_accVids {vid : Vid} {v e v' e' : Nat} {acc : Acc} (c : CountedN vid v e v' e' acc)
    (hv : vid < v) : (accVids acc).Nodup := by
  rw [List.nodup_iff_count]
  intro x
  rw [c.vids]
  unfold inRange
  split <;> split <;> nomega

theorem nodup_verts {acc : Acc} (h : (accVids acc).Nodup) : (acc.verts.map (·.vid)).Nodup :=
  List.Nodup.sublist (List.sublist_append_left _ _) h

/-! ### what phase A collects -/

theorem mem_filterDirs {n : Name} {ty : QTy} {dirs : List Dir} {pf : PendingFilter}
    (h : pf ∈ filterDirs n ty dirs) : pf.left = .loc n ty ∧ pf.leftTy = ty := by
  induction dirs with
  | nil => simp [filterDirs] at h
  | cons d rest ih =>
    cases d with
    | filter op arg =>
      simp only [filterDirs, List.mem_cons] at h
      rcases h with rfl | h
      · exact ⟨rfl, rfl⟩
      · exact ih h
    | tag t => exact ih (by simpa [filterDirs] using h)
    | output o => exact ih (by simpa [filterDirs] using h)

theorem mem_nodeFilters {S : SchemaView} {ty : Name} {fields : List QField} {pf : PendingFilter}
    (h : pf ∈ nodeFilters S ty fields) :
    ∃ n, pf.left = .loc n pf.leftTy ∧ S.propTy? ty n = some pf.leftTy := by
  simp only [nodeFilters, List.mem_flatMap] at h
  obtain ⟨n, _, hn⟩ := h
  split at hn
  · rename_i pty hp
    obtain ⟨h1, h2⟩ := mem_filterDirs hn
    exact ⟨n, by rw [h1, h2], by rw [h2]; exact hp⟩
  · simp at hn

theorem mem_outputDirs {vid : Vid} {n : Name} {ty : QTy} {dirs : List Dir} {o : OutputDef}
    (h : o ∈ outputDirs vid n ty dirs) : o.vid = vid ∧ o.field = n ∧ o.ty = ty := by
  induction dirs with
  | nil => simp [outputDirs] at h
  | cons d rest ih =>
    cases d with
    | output x =>
      simp only [outputDirs, List.mem_cons] at h
      rcases h with rfl | h
      · exact ⟨rfl, rfl, rfl⟩
      · exact ih h
    | tag t => exact ih (by simpa [outputDirs] using h)
    | filter op arg => exact ih (by simpa [outputDirs] using h)

theorem mem_countFilters {fds : List FDir} {pf : PendingFilter} (h : pf ∈ countFilters fds) :
    pf.leftTy = ⟨"Int", [false]⟩ := by
  induction fds with
  | nil => simp [countFilters] at h
  | cons d rest ih =>
    cases d with
    | countFilter op arg =>
      simp only [countFilters, List.mem_cons] at h
      rcases h with rfl | h
      · rfl
      · exact ih h
    | countTag t => exact ih (by simpa [countFilters] using h)
    | countOutput o => exact ih (by simpa [countFilters] using h)

theorem recursiveOf_inv {S : SchemaView} {ty : Name} {ed : EdgeInfo} {kind : Kind} {rc : Recursive}
    (h : recursiveOf S ty ed kind = .ok (some rc)) :
    ∃ c, recurseCoercion S ty ed = .ok c ∧ rc.coerceTo = c := by
  cases kind with
  | recurse d =>
    simp only [recursiveOf, bind_ok, pure_ok, check_ok] at h
    obtain ⟨_, _, c, hc, h⟩ := h
    simp only [Option.some.injEq] at h
    exact ⟨c, hc, by rw [← h]⟩
  | plain => simp [recursiveOf] at h
  | optional => simp [recursiveOf] at h
  | fold fds => simp [recursiveOf] at h

/-! ### the induction over phase A -/

open TF.InterpSpec in
theorem typed_spec (b : Bool) (S : SchemaView) (hV : ValidSchemaCore S = true)
    (hrec : b = true → RecDeclHyp S) :
    (∀ path vid pre node st acc st', fillNode S path vid pre node st = .ok (acc, st') →
      TagPre path vid st → ∀ γ : Vid → Name, Covers γ acc → TagTy S γ st.tags →
      (∃ r ∈ acc.verts, r.vid = vid ∧ preOf r = pre) ∧ TagTy S γ st'.tags ∧ AccOK b S γ vid acc) ∧
    (∀ path vid ty fields st acc st', fillFields S path vid ty fields st = .ok (acc, st') →
      TagPre path vid st → ∀ γ : Vid → Name, γ vid = ty → Covers γ acc → TagTy S γ st.tags →
      TagTy S γ st'.tags ∧ AccOK b S γ vid acc) := by
  apply fill_induct S
    (P1 := fun path vid pre _ st acc st' => TagPre path vid st → ∀ γ : Vid → Name, Covers γ acc →
      TagTy S γ st.tags →
      (∃ r ∈ acc.verts, r.vid = vid ∧ preOf r = pre) ∧ TagTy S γ st'.tags ∧ AccOK b S γ vid acc)
    (P2 := fun path vid ty _ st acc st' => TagPre path vid st → ∀ γ : Vid → Name, γ vid = ty →
      Covers γ acc → TagTy S γ st.tags → TagTy S γ st'.tags ∧ AccOK b S γ vid acc)
  · -- node
    intro path vid pre coerceTo fields st post acc1 st' hco _ ih hpre γ hcov hT
    obtain ⟨c1, c2, c3⟩ := coerce_spec hco
    have hγ : γ vid = post :=
      hcov.left.verts ⟨vid, post, coerceTo.map fun _ => pre, nodeFilters S post fields⟩
        (List.mem_singleton.mpr rfl)
    obtain ⟨hT', ok1⟩ := ih hpre γ hγ hcov.right hT
    refine ⟨⟨⟨vid, post, coerceTo.map fun _ => pre, nodeFilters S post fields⟩, by simp, rfl, ?_⟩,
      hT', AccOK.append ⟨?_, ?_, ?_, ?_⟩ ok1⟩
    · cases coerceTo with
      | none => simpa [preOf] using c3 rfl
      | some c => simp [preOf]
    · intro r hr
      have hr' : r = ⟨vid, post, coerceTo.map fun _ => pre, nodeFilters S post fields⟩ :=
        List.mem_singleton.mp hr
      subst hr'
      refine ⟨c1, ?_, fun pf hpf => mem_nodeFilters hpf⟩
      intro ft hft
      cases coerceTo with
      | none => simp at hft
      | some c =>
        simp only [Option.map_some, Option.some.injEq] at hft
        subst hft
        exact c2 c rfl
    · intro e he; cases he
    · intro f hf; cases hf
    · intro o ho; cases ho
  · -- nil
    intro path vid ty st _ γ _ _ hT
    exact ⟨hT, ⟨(fun _ h => by cases h), (fun _ h => by cases h), (fun _ h => by cases h),
      (fun _ h => by cases h)⟩⟩
  · -- prop
    intro path vid ty n dirs rest st pty st1 acc1 st' hpty h2 h3 ih hpre γ hγ hcov hT
    obtain ⟨hv1, he1, _, ht1⟩ := registerTags_inv h2
    have hreg : ∀ e ∈ (tagDirs vid n pty dirs).map (fun (x : Name × FieldRef) =>
        (⟨x.1, x.2, path⟩ : TagEntry)), e.path = path ∧ e.field = .ctx vid n pty := by
      intro e he
      simp only [List.mem_map] at he
      obtain ⟨x, hx, rfl⟩ := he
      exact ⟨rfl, mem_tagDirs hx⟩
    have hb1 : TagsBounded st1 := by
      refine tagsBounded_append hpre.bounded ht1 (by nomega) (by nomega) ?_
      intro e he
      obtain ⟨hp, hf⟩ := hreg e he
      refine ⟨?_, ?_, ?_⟩
      · rw [hf]; simp only [definedAt]; have := hpre.vlt; nomega
      · intro x r hx; rw [hf] at hx; cases hx
      · intro x hx; rw [hp] at hx; have := hpre.pathB x hx; nomega
    have hpre1 : TagPre path vid st1 :=
      tagPre_of hpre hb1 (by nomega) (by have := hpre.sync; nomega)
    have hT1 : TagTy S γ st1.tags := by
      intro e he
      rw [ht1, List.mem_append] at he
      rcases he with he | he
      · exact hT e he
      · obtain ⟨_, hf⟩ := hreg e he
        rw [hf]; simp only [RefTy]; rw [hγ]; exact hpty
    obtain ⟨hT', ok1⟩ := ih hpre1 γ hγ hcov.right hT1
    refine ⟨hT', AccOK.append ⟨(fun _ h => by cases h), (fun _ h => by cases h),
      (fun _ h => by cases h), ?_⟩ ok1⟩
    intro o ho
    obtain ⟨o1, o2, o3⟩ := mem_outputDirs ho
    exact ⟨Or.inl o1, by rw [o1, hγ, o2, o3]; exact hpty, by rw [o3]; exact propTy_nulls hV hpty⟩
  · -- fold
    intro path vid ty n params fds child rest st ed ps accIn st2 comp evs st3 post evPost st4 st5
      accR st' h1 h2 h3 h4 h5 h6 h7 ihC ihR hpre γ hγ hcov hT
    have cC := (counted S).1 _ _ _ _ _ _ _ h3
    have cR := (counted S).2 _ _ _ _ _ _ _ h7
    have b1 : st.bump.nextVid = st.nextVid + 1 := rfl
    have b2 : st.bump.nextEid = st.nextEid + 1 := rfl
    have b3 : st.bump.tags = st.tags := rfl
    have cC0 := cC
    rw [b1, b2] at cC
    have hCv := cC.vmono; have hCe := cC.emono; have hCs := cC.sync
    have hRv := cR.vmono; have hRe := cR.emono
    have hvlt := hpre.vlt; have hsync := hpre.sync
    have preC : TagPre (path ++ [st.nextVid]) st.nextVid st.bump := by
      refine ⟨by rw [b1]; nomega, by rw [b1, b2]; nomega,
        hpre.bounded.mono b3 (by rw [b1]; nomega) (by rw [b2]; nomega), ?_⟩
      intro x hx
      rw [List.mem_append, List.mem_singleton] at hx
      rcases hx with hx | rfl
      · have := hpre.pathB x hx; rw [b1]; nomega
      · rw [b1]; nomega
    obtain ⟨hinC, tC⟩ := (tags_spec S).1 _ _ _ _ _ _ _ h3 preC
    obtain ⟨newC, htC, hnC⟩ := tC.new
    have hold : ∀ e ∈ st.bump.tags, e.path ≠ path ++ [st.nextVid] ∧ definedAt e.field < st.nextVid ∧
        ∀ x r, e.field = .fcount x r → x < st.bump.nextEid := by
      intro e he
      rw [b3] at he
      refine ⟨?_, hpre.bounded.defAt e he, ?_⟩
      · intro hp
        have := hpre.bounded.pathB e he st.nextVid (by rw [hp]; simp)
        nomega
      · intro x r hx; have := hpre.bounded.eidB e he x r hx; rw [b2]; nomega
    have cs := compSpec_of_finish hinC htC hnC hold (by rw [b1, b2]; exact cC)
      (by rw [b1]; nomega) tC.certs tC.uses h4
    obtain ⟨_, _, hcore23⟩ := allVids_finish h4
    have hcore34 := resolveFilters_core h5
    obtain ⟨hv5, he5, _, ht5⟩ := registerTags_inv h6
    have ht2 : st2.tags = st.tags ++ newC := by rw [htC, b3]
    have ht3 : st3.tags = st.tags ++ newC := by rw [← hcore23.2.2, ht2]
    have ht4 : st4.tags = st.tags ++ newC := by rw [← hcore34.2.2, ht3]
    have hreg : ∀ e ∈ (countTags st.nextEid st.nextVid fds).map (fun (x : Name × FieldRef) =>
        (⟨x.1, x.2, path⟩ : TagEntry)), e.path = path ∧ e.field = .fcount st.nextEid st.nextVid := by
      intro e he
      simp only [List.mem_map] at he
      obtain ⟨x, hx, rfl⟩ := he
      exact ⟨rfl, mem_countTags hx⟩
    have e23v := hcore23.1; have e23e := hcore23.2.1
    have e34v := hcore34.1; have e34e := hcore34.2.1
    have bnd2 : TagsBounded st2 := tC.bounded preC.bounded (by rw [b1]; nomega) (by rw [b2]; nomega)
    have bnd4 : TagsBounded st4 :=
      bnd2.mono (by rw [ht4, ht2]) (by nomega) (by nomega)
    have bnd5 : TagsBounded st5 := by
      refine tagsBounded_append bnd4 ht5 (by nomega) (by nomega) ?_
      intro e he
      obtain ⟨hp, hf⟩ := hreg e he
      refine ⟨?_, ?_, ?_⟩
      · rw [hf]; simp only [definedAt]; nomega
      · intro x r hx; rw [hf] at hx; cases hx; nomega
      · intro x hx; rw [hp] at hx; have := hpre.pathB x hx; nomega
    have preR : TagPre path vid st5 := tagPre_of hpre bnd5 (by nomega) (by nomega)
    -- coverage
    have hcovIn : Covers γ accIn := by
      intro p hp
      apply hcov.left p
      rw [accVT_fold]
      show p ∈ allVT comp
      rw [allVT_finish h4]; exact hp
    -- the folded component
    obtain ⟨⟨rr, hrr, hrv, hrp⟩, hT2, okIn⟩ := ihC preC γ hcovIn (by rw [b3]; exact hT)
    have hT3 : TagTy S γ st3.tags := by rw [← hcore23.2.2]; exact hT2
    have hndIn := nodup_verts (nodup_accVids cC0 (by rw [b1]; nomega))
    obtain ⟨hinS, hshS⟩ := (shaped S).1 _ _ _ _ _ _ _ h3 (by rw [b1, b2]; nomega) (by rw [b1]; nomega)
    obtain ⟨_, _, hendC, hrootC⟩ := shaped_finish hinS hshS h4
    obtain ⟨hall, hlook⟩ := finish_typed okIn hndIn hcovIn.verts hT2 h4 hendC cs.U4
    obtain ⟨rootV, hrootV, hrt, hrc⟩ := hlook rr hrr
    have hrootPre : rootV.preType = ed.target := by
      simp only [IRVertex.preType, hrt, hrc]; exact hrp
    have hps := paramsOK_of_complete (edge_paramsOK hV h1) h2
    have hT5 : TagTy S γ st5.tags := by
      intro e he
      rw [ht5, List.mem_append] at he
      rcases he with he | he
      · rw [ht4, ← ht3] at he; exact hT3 e he
      · obtain ⟨_, hf⟩ := hreg e he
        rw [hf]; trivial
    obtain ⟨hT', okR⟩ := ihR preR γ hγ hcov.right hT5
    refine ⟨hT', AccOK.append ⟨(fun _ h => by cases h), (fun _ h => by cases h), ?_,
      (fun _ h => by cases h)⟩ okR⟩
    intro f hf
    have hf' : f = mkFold path vid st n ps comp evs fds post := List.mem_singleton.mp hf
    subst hf'
    refine ⟨⟨rootV, ?_, ?_⟩, ?_, ?_, hall⟩
    · show comp.vertex? comp.root = some rootV
      rw [hrootC, ← hrv]; exact hrootV
    · show edgeDeclOK S (γ vid) n rootV.preType ps = true
      rw [hγ, hrootPre]; exact edgeDeclOK_of h1 hps
    · intro r hr
      have hr' : r ∈ importsAt path.length evs := hr
      rw [mem_importsAt] at hr'
      obtain ⟨_, _, e, he, hfe, _, _⟩ := cs.U2 _ hr'
      have := hT3 e he
      rw [hfe] at this
      exact this
    · intro pf hpf
      have hpf' : pf ∈ post := hpf
      obtain ⟨pf0, hpf0, _, hok⟩ := resolveFilters_typed hT3 h5 pf hpf'
      rw [mem_countFilters hpf0] at hok
      exact hok
  · -- plain / optional / recursive edge
    intro path vid ty n params kind child rest st ed ps r accC st2 accR st' _ h1 h2 hr h4 h5 ihC ihR
      hpre γ hγ hcov hT
    have cC := (counted S).1 _ _ _ _ _ _ _ h4
    have cR := (counted S).2 _ _ _ _ _ _ _ h5
    have b1 : st.bump.nextVid = st.nextVid + 1 := rfl
    have b2 : st.bump.nextEid = st.nextEid + 1 := rfl
    have b3 : st.bump.tags = st.tags := rfl
    rw [b1, b2] at cC
    have hCv := cC.vmono; have hCe := cC.emono; have hCs := cC.sync
    have hRv := cR.vmono; have hRe := cR.emono
    have hvlt := hpre.vlt; have hsync := hpre.sync
    have preC : TagPre path st.nextVid st.bump :=
      ⟨by rw [b1]; nomega, by rw [b1, b2]; nomega,
        hpre.bounded.mono b3 (by rw [b1]; nomega) (by rw [b2]; nomega),
        fun x hx => by have := hpre.pathB x hx; rw [b1]; nomega⟩
    obtain ⟨hinC, tC⟩ := (tags_spec S).1 _ _ _ _ _ _ _ h4 preC
    have bnd2 : TagsBounded st2 := tC.bounded preC.bounded (by rw [b1]; nomega) (by rw [b2]; nomega)
    have preR : TagPre path vid st2 := tagPre_of hpre bnd2 (by nomega) (by nomega)
    have hcovC : Covers γ accC := hcov.left.right
    obtain ⟨⟨rr, hrr, hrv, hrp⟩, hT2, okC⟩ := ihC preC γ hcovC (by rw [b3]; exact hT)
    obtain ⟨hT', okR⟩ := ihR preR γ hγ hcov.right hT2
    have hps := paramsOK_of_complete (edge_paramsOK hV h1) h2
    refine ⟨hT', AccOK.append (AccOK.consEdge ?_ (okC.reroot hinC)) okR⟩
    refine ⟨rr, hrr, hrv, ?_, ?_⟩
    · show edgeDeclOK S (γ vid) n (preOf rr) ps = true
      rw [hγ, hrp]; exact edgeDeclOK_of h1 hps
    · intro rc hrc
      have hrc' : r = some rc := hrc
      subst hrc'
      obtain ⟨c, hc, hcc⟩ := recursiveOf_inv hr
      constructor
      · show S.subOrEq (preOf rr) (γ vid) = true
        rw [hγ, hrp]; exact recurse_subOrEq hc
      · intro hb
        show edgeDeclOK S (rc.coerceTo.getD (preOf rr)) n (preOf rr) ps = true
        rw [hrp, hcc]; exact hrec hb ty n ed ps c h1 hps hc

/-! ### the whole frontend -/

/-- The bridge for both variants: `b = false` needs `ValidSchemaCore S` only; `b = true` needs in
addition the one schema fact that `Schema::parse` does NOT guarantee, isolated as `RecDeclHyp S`. -/
theorem toIR_SchemaOKR {b : Bool} {S : SchemaView} {q : Spec.Query} {ir : IRQuery}
    (hV : ValidSchemaCore S = true) (hrec : b = true → RecDeclHyp S) (h : toIR S q = .ok ir) :
    SchemaOKR b S ir = true := by
  obtain ⟨root, rootParams, acc, st1, comp, evs, st2, vars, hr1, hr2, h3, h4, _, _, _, rfl⟩ :=
    toIR_inv h
  have i1 : St.init.nextVid = 2 := rfl
  have i2 : St.init.nextEid = 1 := rfl
  have i3 : St.init.tags = [] := rfl
  have pre : TagPre [1] 1 St.init := by
    refine ⟨by rw [i1]; decide, by rw [i1, i2], ⟨?_, ?_, ?_⟩, ?_⟩
    · intro e he; rw [i3] at he; simp at he
    · intro e he; rw [i3] at he; simp at he
    · intro e he; rw [i3] at he; simp at he
    · intro x hx; simp only [List.mem_singleton] at hx; rw [hx, i1]; decide
  obtain ⟨hin, p⟩ := (tags_spec S).1 _ _ _ _ _ _ _ h3 pre
  obtain ⟨new, ht, hn⟩ := p.new
  have cnt := (counted S).1 _ _ _ _ _ _ _ h3
  have cs := compSpec_of_finish hin ht hn (by intro e he; rw [i3] at he; simp at he) cnt
    (by rw [i1]; decide) p.certs p.uses h4
  have hnd := nodup_accVids cnt (by rw [i1]; decide)
  have hcov : Covers (gammaOf (accVT acc)) acc := by
    apply gammaOf_covers
    rw [← allVT_finish h4, map_fst_allVT.1, (allVids_finish h4).1]
    exact hnd
  obtain ⟨⟨rr, hrr, hrv, hrp⟩, hT1, ok⟩ := (typed_spec b S hV hrec).1 _ _ _ _ _ _ _ h3 pre _ hcov
    (by intro e he; rw [i3] at he; cases he)
  obtain ⟨hinS, hshS⟩ := (shaped S).1 _ _ _ _ _ _ _ h3 rfl (by decide)
  obtain ⟨_, _, hend, hroot⟩ := shaped_finish hinS hshS h4
  obtain ⟨hall, hlook⟩ := finish_typed ok (nodup_verts hnd) hcov.verts hT1 h4 hend cs.U4
  obtain ⟨rootV, hrootV, hrt, hrc⟩ := hlook rr hrr
  simp only [SchemaOKR, Bool.and_eq_true]
  refine ⟨?_, hall []⟩
  show (match S.root? q.rootEdge, comp.vertex? comp.root with
    | some ei, some rootV => ei.target == rootV.preType && paramsOK ei.params rootParams
    | _, _ => false) = true
  rw [hr1, hroot, ← hrv, hrootV]
  simp only [Bool.and_eq_true, beq_iff_eq]
  refine ⟨?_, paramsOK_of_complete (root_paramsOK hV hr1) hr2⟩
  simp only [IRVertex.preType, hrt, hrc]
  exact hrp.symm

/-- **Under what `Schema::parse` guarantees**, every query the frontend model accepts is typed by the
schema up to the two sub-clauses about the type a recursion continues on (`coerce_to` implements the
endpoint type: F-C21-1; that type declares the edge with parameters accepting the tuple: see
`widenedParam_not_SchemaOK'`). -/
theorem toIR_SchemaOK'' {S : SchemaView} {q : Spec.Query} {ir : IRQuery}
    (hV : ValidSchemaCore S = true) (h : toIR S q = .ok ir) : SchemaOK'' S ir = true :=
  toIR_SchemaOKR hV (fun hb => by cases hb) h

/-- The bridge to `SchemaOK'`, with the schema fact `Schema::parse` does not guarantee as the
explicit hypothesis `RecDeclHyp S` (it follows from `InheritedParamsSame S`: `recDeclHyp_of_valid`). -/
theorem toIR_SchemaOK'_of {S : SchemaView} {q : Spec.Query} {ir : IRQuery}
    (hV : ValidSchemaCore S = true) (hrec : RecDeclHyp S) (h : toIR S q = .ok ir) :
    SchemaOK' S ir = true := by
  rw [← SchemaOKR_true]
  exact toIR_SchemaOKR hV (fun _ => hrec) h

/-- **Every query the frontend model accepts is typed by the schema** (up to the sub-clause of
F-C21-1, which is false for the frontend). -/
theorem toIR_SchemaOK' {S : SchemaView} {q : Spec.Query} {ir : IRQuery} :
    ValidSchema S = true → toIR S q = .ok ir → SchemaOK' S ir = true := by
  intro hV h
  have hV' := hV
  simp only [ValidSchema, Bool.and_eq_true] at hV'
  exact toIR_SchemaOK'_of hV'.1 (recDeclHyp_of_valid hV) h

/-- The full `SchemaOK` follows once the F-C21-1 sub-clause is known for the query at hand. -/
theorem toIR_SchemaOK {S : SchemaView} {q : Spec.Query} {ir : IRQuery}
    (hV : ValidSchema S = true) (h : toIR S q = .ok ir) (hc : recCoercionOKAll S ir = true) :
    SchemaOK S ir = true :=
  SchemaOK_of_split (toIR_SchemaOK' hV h) hc

/-! ### the inherited-parameter clause is needed, and `Schema::parse` does not guarantee it

`interface A { e(x: Int!): [A] }`, `type B implements A { e(x: Int): [A] }` is accepted by the real
`Schema::parse` (an implementation may WIDEN a parameter type; only
`InvalidTypeNarrowingOfInheritedFieldParameter` is checked).  For `b { e @recurse(depth: 2) { .. } }`
the frontend completes the omitted `x` from `B`'s declaration (`x = null`), `get_recurse_implicit_coercion`
is in case 4a (`coerce_to = None`: from depth 2 on the edge is expanded on `A`), and `A.e` declares
`x: Int!` — so the clause `edgeDeclOK S (r.coerceTo.getD toV.preType) e.name toV.preType e.params` of
`edgeTyped` is false for the compiled query, although every clause of `ValidSchemaCore` holds. -/

def widenedSchema : SchemaView :=
  { types := [
      { name := "A", isIface := true, supers := [], props := [],
        edges := [⟨"e", "A", ⟨"A", [true, true]⟩, [⟨"x", ⟨"Int", [false]⟩, none⟩]⟩] },
      { name := "B", isIface := false, supers := ["A"], props := [],
        edges := [⟨"e", "A", ⟨"A", [true, true]⟩, [⟨"x", ⟨"Int", [true]⟩, none⟩]⟩] }],
    roots := [⟨"b", "B", ⟨"B", [true, true]⟩, []⟩] }

def widenedQuery : Spec.Query :=
  ⟨"b", [], .mk none [.edge "e" [] (.recurse 2) (.mk none [.prop "__typename" [.output "t"]])]⟩

/-- The witness: all of `ValidSchemaCore` holds, `InheritedParamsSame` fails, the frontend accepts the
query, the result satisfies `SchemaOK''` and the F-C21-1 clause, and violates exactly the
continuation-type clause (`recDeclOKAll`), hence `SchemaOK'`.  (The real frontend compiles the same
IR for this schema and query: `(e 1 1 2 e (params (x n)) 0 (rec 2 -))`.) -/
theorem widenedParam_not_SchemaOK' :
    ValidSchemaCore widenedSchema = true ∧ InheritedParamsSame widenedSchema = false ∧
    (match toIR widenedSchema widenedQuery with
      | .ok ir => SchemaOK'' widenedSchema ir && recCoercionOKAll widenedSchema ir &&
          !recDeclOKAll widenedSchema ir && !SchemaOK' widenedSchema ir
      | .error _ => false) = true := by
  decide +kernel

/-! ### non-vacuity: a schema with `ValidSchema`, and an accepted query with a recursion through a
supertype (case 4a), a fold with an imported tag, a count filter and a defaulted parameter -/

def demoSchema : SchemaView :=
  { types := [
      { name := "A", isIface := true, supers := [], props := [("name", ⟨"String", [true]⟩)],
        edges := [⟨"e", "A", ⟨"A", [true, true]⟩, [⟨"x", ⟨"Int", [false]⟩, some (.int64 3)⟩]⟩] },
      { name := "B", isIface := false, supers := ["A"],
        props := [("name", ⟨"String", [true]⟩), ("n", ⟨"Int", [true]⟩)],
        edges := [⟨"e", "A", ⟨"A", [true, true]⟩, [⟨"x", ⟨"Int", [false]⟩, some (.int64 3)⟩]⟩,
                  ⟨"kids", "B", ⟨"B", [true, true]⟩, []⟩] }],
    roots := [⟨"b", "B", ⟨"B", [true, true]⟩, [⟨"lim", ⟨"Int", [true]⟩, none⟩]⟩] }

def demoQuery : Spec.Query :=
  ⟨"b", [], .mk none [
    .prop "name" [.tag "t", .output "o1"],
    .edge "e" [] (.recurse 2) (.mk none [.prop "name" [.output "o2"]]),
    .edge "kids" [] (.fold [.countFilter (.bin .greaterThan) (.var "v"), .countOutput "c"])
      (.mk none [.prop "name" [.filter (.bin .equals) (.tag "t")]])]⟩

example :
    ValidSchema demoSchema = true ∧
    (match toIR demoSchema demoQuery with
      | .ok ir => SchemaOK' demoSchema ir && recCoercionOKAll demoSchema ir && SchemaOK demoSchema ir
      | .error _ => false) = true := by
  decide +kernel

end TF.SchemaBridge

#print axioms TF.SchemaBridge.SchemaOK_split
#print axioms TF.SchemaBridge.SchemaOK'_split
#print axioms TF.SchemaBridge.toIR_SchemaOK''
#print axioms TF.SchemaBridge.toIR_SchemaOK'_of
#print axioms TF.SchemaBridge.toIR_SchemaOK'
#print axioms TF.SchemaBridge.toIR_SchemaOK
#print axioms TF.SchemaBridge.recDeclHyp_of_valid
#print axioms TF.SchemaBridge.widenedParam_not_SchemaOK'
