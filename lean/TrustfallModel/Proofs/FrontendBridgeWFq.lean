/-
Bridge from the frontend model to the engine hypotheses, part 2: every query the (modelled) frontend
accepts satisfies `WFq` (`Proofs/InterpInvDefs.lean`), the structural well-formedness under which
the engine theorems of C09 / C13 / C21 are proved.

`toIR_WFq : toIR S q = .ok ir → WFq ir = true` — no hypothesis on the schema view is needed.

Sources of the per-component facts (`Facts`, part 1):
* clauses 1, 2, 4, 5, 7 of C11 (`toIR_numbering_endpoints`, `toIR_unique`, `toIR_tags_imports`,
  `toIR_vars`) and `toIR_outputs_ok`;
* `importsOKC_of_toIR` (Proofs/InterpSpec4/StaticImports.lean): a fold imports every tag once per
  key, none under a key an enclosing fold imports, and not its own count;
* a new induction over phase A (`ord_spec`): the edge and fold lists of a component are in Eid
  order (so the engine's Eid-ordered merge is the DFS-ordered stage list), the vertices of a component
  are its root followed by the destinations of its edges, filters have the shape `make_filter_expr`
  gives them, and the DFS shape (`dfs`: between a vertex and a later child of it only descendants of
  the vertex are expanded), from which the walk's condition on `@recurse` edges follows.
-/
import TrustfallModel.Proofs.FrontendBridgeWalk

namespace TF.Bridge
open TF TF.Engine TF.Frontend TF.InterpSpec TF.Spec

/-! ### what the new induction provides, per component -/

structure Ord (c : Component) (ss : List Stage) : Prop where
  sorted : (ss.map stEid).Pairwise (· < ·)
  edges : ss.filterMap Stage.edge? = c.edges
  folds : ss.filterMap Stage.fold? = c.folds
  verts : c.vertices.map (·.vid) = c.root :: c.edges.map (·.toVid)
  vshape : ∀ v ∈ c.vertices, ∀ f ∈ v.filters, FilterShape false f
  pshape : ∀ g ∈ c.folds, ∀ f ∈ g.post, FilterShape true f

mutual
def OrdC : Component → Prop
  | .mk r vs es fs os => (∃ ss, Ord (.mk r vs es fs os) ss ∧ Dfs (.mk r vs es fs os) ss) ∧ OrdF fs
def OrdF : List Fold → Prop
  | [] => True
  | .mk _ _ _ _ _ c _ _ _ :: rest => OrdC c ∧ OrdF rest
end

theorem OrdF_mem {fs : List Fold} (h : OrdF fs) {g : Fold} (hg : g ∈ fs) : OrdC g.component := by
  induction fs with
  | nil => cases hg
  | cons f rest ih =>
    cases f
    simp only [OrdF] at h
    rcases List.mem_cons.1 hg with rfl | hg
    · exact h.1
    · exact ih h.2 hg

theorem OrdF_of_mem {fs : List Fold} (h : ∀ g ∈ fs, OrdC g.component) : OrdF fs := by
  induction fs with
  | nil => trivial
  | cons f rest ih =>
    cases f with
    | mk e a t n ps c i o p =>
      simp only [OrdF]
      exact ⟨h (.mk e a t n ps c i o p) (List.mem_cons_self ..),
        ih fun g hg => h g (List.mem_cons_of_mem _ hg)⟩

theorem OrdF_append {a b : List Fold} (ha : OrdF a) (hb : OrdF b) : OrdF (a ++ b) :=
  OrdF_of_mem fun g hg => by
    rcases List.mem_append.1 hg with hg | hg
    · exact OrdF_mem ha hg
    · exact OrdF_mem hb hg

/-! ### the new induction over phase A -/

theorem resolveFilter_shape {path vid pf st f ev st'}
    (h : resolveFilter path vid pf st = .ok (f, ev, st')) :
    f.left = pf.left ∧ ∀ o, f.op = .bin o → f.right ≠ none := by
  unfold resolveFilter at h
  split at h
  · simp only [bind_ok, pure_ok] at h
    obtain ⟨_, _, h⟩ := h
    simp only [Prod.mk.injEq] at h
    rw [← h.1]
    exact ⟨rfl, fun o ho => by cases ho⟩
  · simp only [bind_ok, pure_ok] at h
    obtain ⟨_, _, _, _, h⟩ := h
    simp only [Prod.mk.injEq] at h
    rw [← h.1]
    exact ⟨rfl, fun o _ => by simp⟩
  · simp only [bind_ok, pure_ok] at h
    obtain ⟨⟨r, ev1, st1⟩, _, _, _, h⟩ := h
    simp only [Prod.mk.injEq] at h
    rw [← h.1]
    exact ⟨rfl, fun o _ => by simp⟩
  · simp at h

theorem resolveFilters_shape {path vid l st fs ev st'}
    (h : resolveFilters path vid l st = .ok (fs, ev, st')) :
    ∀ f ∈ fs, ∃ pf ∈ l, f.left = pf.left ∧ ∀ o, f.op = .bin o → f.right ≠ none := by
  induction l generalizing st fs ev with
  | nil => simp [resolveFilters] at h; obtain ⟨rfl, _, _⟩ := h; simp
  | cons pf rest ih =>
    rw [resolveFilters] at h
    simp only [bind_ok, pure_ok] at h
    obtain ⟨⟨f, ev1, st1⟩, h1, ⟨fs2, ev2, st2⟩, h2, h3⟩ := h
    simp only [Prod.mk.injEq] at h3
    obtain ⟨rfl, _, rfl⟩ := h3
    intro g hg
    rcases List.mem_cons.1 hg with rfl | hg
    · exact ⟨pf, List.mem_cons_self .., resolveFilter_shape h1⟩
    · obtain ⟨pf', hpf', hh⟩ := ih h2 g hg
      exact ⟨pf', List.mem_cons_of_mem _ hpf', hh⟩

theorem makeVertices_shape {path l st vs ev st'} (h : makeVertices path l st = .ok (vs, ev, st')) :
    ∀ V ∈ vs, ∃ v ∈ l, ∀ f ∈ V.filters, ∃ pf ∈ v.pending,
      f.left = pf.left ∧ ∀ o, f.op = .bin o → f.right ≠ none := by
  induction l generalizing st vs ev with
  | nil => simp [makeVertices] at h; obtain ⟨rfl, _, _⟩ := h; simp
  | cons v rest ih =>
    rw [makeVertices] at h
    simp only [bind_ok, pure_ok, makeVertex] at h
    obtain ⟨⟨x, ev1, st1⟩, ⟨⟨fs, ev0, st0⟩, h0, hx⟩, ⟨xs, ev2, st2⟩, h2, h3⟩ := h
    simp only [Prod.mk.injEq] at h3 hx
    obtain ⟨rfl, _, rfl⟩ := h3
    obtain ⟨rfl, _, rfl⟩ := hx
    intro V hV
    rcases List.mem_cons.1 hV with rfl | hV
    · refine ⟨v, List.mem_cons_self .., ?_⟩
      exact resolveFilters_shape h0
    · obtain ⟨v', hv', hh⟩ := ih h2 V hV
      exact ⟨v', List.mem_cons_of_mem _ hv', hh⟩

/-- What a run of phase A at vertex `vid`, with Eid counter from `e0` to `e1`, contributes to the
component under construction (`hd = [vid]` for `fillNode`, which also places the vertex itself). -/
structure OrdAcc (vid : Vid) (e0 e1 : Nat) (acc : Acc) (ss : List Stage) (hd : List Vid) : Prop where
  sorted : (ss.map stEid).Pairwise (· < ·)
  bounds : ∀ s ∈ ss, e0 ≤ stEid s ∧ stEid s < e1
  edges : ss.filterMap Stage.edge? = acc.edges
  folds : ss.filterMap Stage.fold? = acc.folds
  verts : acc.verts.map (·.vid) = hd ++ acc.edges.map (·.toVid)
  pend : ∀ v ∈ acc.verts, ∀ pf ∈ v.pending, ∃ n t, pf.left = .loc n t
  pshape : ∀ g ∈ acc.folds, ∀ f ∈ g.post, FilterShape true f
  ordF : OrdF acc.folds
  toEq : ∀ s ∈ ss, stTo s = stEid s + 1
  src : ∀ s ∈ ss, Desc acc.edges vid (stFrom s) ∧ (stFrom s = vid ∨ e0 < stFrom s)
  dfs : ∀ x ∈ ss, ∀ y ∈ ss, stFrom x < stTo y → stTo y < stTo x →
    Desc acc.edges (stFrom x) (stFrom y)

theorem OrdAcc.nil (vid : Vid) (e0 : Nat) : OrdAcc vid e0 e0 {} [] [] :=
  ⟨List.Pairwise.nil, by simp, rfl, rfl, rfl, (fun v hv => absurd hv List.not_mem_nil),
    (fun g hg => absurd hg List.not_mem_nil), trivial, by simp, by simp, by simp⟩

theorem OrdAcc.append {vid : Vid} {e0 e1 e2 : Nat} {a b : Acc} {sa sb : List Stage}
    (ha : OrdAcc vid e0 e1 a sa []) (hb : OrdAcc vid e1 e2 b sb []) (h01 : e0 ≤ e1) (h12 : e1 ≤ e2)
    (_hvid : vid ≤ e0) : OrdAcc vid e0 e2 (a ++ b) (sa ++ sb) [] := by
  have hsubA : ∀ e ∈ a.edges, e ∈ (a ++ b).edges := fun e he => by
    simp only [Acc.append_edges, List.mem_append]; exact Or.inl he
  have hsubB : ∀ e ∈ b.edges, e ∈ (a ++ b).edges := fun e he => by
    simp only [Acc.append_edges, List.mem_append]; exact Or.inr he
  refine ⟨?_, ?_, ?_, ?_, ?_, ?_, ?_, ?_, ?_, ?_, ?_⟩
  · rw [List.map_append, List.pairwise_append]
    refine ⟨ha.sorted, hb.sorted, ?_⟩
    intro x hx y hy
    obtain ⟨s, hs, rfl⟩ := List.mem_map.1 hx
    obtain ⟨t, ht, rfl⟩ := List.mem_map.1 hy
    have := (ha.bounds s hs).2; have := (hb.bounds t ht).1
    nomega
  · intro s hs
    rcases List.mem_append.1 hs with hs | hs
    · have := ha.bounds s hs; nomega
    · have := hb.bounds s hs; nomega
  · rw [List.filterMap_append, ha.edges, hb.edges]; rfl
  · rw [List.filterMap_append, ha.folds, hb.folds]; rfl
  · simp only [Acc.append_verts, Acc.append_edges, List.map_append, ha.verts, hb.verts,
      List.nil_append]
  · intro v hv
    simp only [Acc.append_verts, List.mem_append] at hv
    rcases hv with hv | hv
    · exact ha.pend v hv
    · exact hb.pend v hv
  · intro g hg
    simp only [Acc.append_folds, List.mem_append] at hg
    rcases hg with hg | hg
    · exact ha.pshape g hg
    · exact hb.pshape g hg
  · exact OrdF_append ha.ordF hb.ordF
  · intro s hs
    rcases List.mem_append.1 hs with hs | hs
    · exact ha.toEq s hs
    · exact hb.toEq s hs
  · intro s hs
    rcases List.mem_append.1 hs with hs | hs
    · exact ⟨(ha.src s hs).1.mono hsubA, (ha.src s hs).2⟩
    · refine ⟨(hb.src s hs).1.mono hsubB, (hb.src s hs).2.imp id ?_⟩
      intro h; nomega
  · intro x hx y hy h1 h2
    rcases List.mem_append.1 hx with hx | hx <;> rcases List.mem_append.1 hy with hy | hy
    · exact (ha.dfs x hx y hy h1 h2).mono hsubA
    · exfalso
      have := ha.toEq x hx; have := hb.toEq y hy
      have := (ha.bounds x hx).2; have := (hb.bounds y hy).1
      nomega
    · have := ha.toEq y hy
      have := (ha.bounds y hy).2
      rcases (hb.src x hx).2 with hv | hv
      · rw [hv]; exact (ha.src y hy).1.mono hsubA
      · exfalso; nomega
    · exact (hb.dfs x hx y hy h1 h2).mono hsubB

/-- a new edge `vid → w` in front of the pieces collected at and below `w` -/
theorem OrdAcc.consEdge {vid w : Vid} {e0 e1 : Nat} {acc : Acc} {ss : List Stage} {e : IREdge}
    (h : OrdAcc w (e0 + 1) e1 acc ss [w]) (he : e.eid = e0) (hf : e.fromVid = vid)
    (ht : e.toVid = w) (hw : w = e0 + 1) (_hvid : vid ≤ e0) (h01 : e0 + 1 ≤ e1) :
    OrdAcc vid e0 e1 ({ edges := [e] } ++ acc) (.edge e :: ss) [] := by
  have hed : ({ edges := [e] } ++ acc : Acc).edges = e :: acc.edges := rfl
  have hsub : ∀ e' ∈ acc.edges, e' ∈ ({ edges := [e] } ++ acc : Acc).edges := fun e' he' => by
    rw [hed]; exact List.mem_cons_of_mem _ he'
  have hstep : Desc ({ edges := [e] } ++ acc : Acc).edges vid w :=
    .step e (by rw [hed]; exact List.mem_cons_self ..) ht (by rw [hf]; exact .refl)
  refine ⟨?_, ?_, ?_, ?_, ?_, ?_, ?_, ?_, ?_, ?_, ?_⟩
  · rw [List.map_cons, List.pairwise_cons]
    refine ⟨?_, h.sorted⟩
    intro x hx
    obtain ⟨s, hs, rfl⟩ := List.mem_map.1 hx
    have := (h.bounds s hs).1
    show e.eid < stEid s
    nomega
  · intro s hs
    rcases List.mem_cons.1 hs with rfl | hs
    · simp only [stEid]; nomega
    · have := h.bounds s hs; nomega
  · rw [filterMap_edge?_cons_edge, h.edges]; rfl
  · rw [filterMap_fold?_cons_edge, h.folds]; rfl
  · have hvs : ({ edges := [e] } ++ acc : Acc).verts = acc.verts := rfl
    rw [hvs, hed, h.verts]
    simp [ht]
  · intro v hv
    exact h.pend v (by simpa using hv)
  · intro g hg
    exact h.pshape g (by simpa using hg)
  · exact h.ordF
  · intro s hs
    rcases List.mem_cons.1 hs with rfl | hs
    · simp only [stTo, stEid]; nomega
    · exact h.toEq s hs
  · intro s hs
    rcases List.mem_cons.1 hs with rfl | hs
    · simp only [stFrom]; rw [hf]; exact ⟨.refl, Or.inl rfl⟩
    · refine ⟨hstep.trans ((h.src s hs).1.mono hsub), Or.inr ?_⟩
      rcases (h.src s hs).2 with hh | hh <;> nomega
  · intro x hx y hy h1 h2
    rcases List.mem_cons.1 hx with rfl | hx <;> rcases List.mem_cons.1 hy with rfl | hy
    · exfalso; nomega
    · exfalso
      have := h.toEq y hy; have := (h.bounds y hy).1
      have h2' : stTo y < e.toVid := h2
      nomega
    · exfalso
      have h1' : stFrom x < e.toVid := h1
      rcases (h.src x hx).2 with hh | hh <;> nomega
    · exact (h.dfs x hx y hy h1 h2).mono hsub

theorem countFilters_left {fds : List FDir} : ∀ pf ∈ countFilters fds, pf.left = .count := by
  induction fds with
  | nil => simp [countFilters]
  | cons d rest ih =>
    cases d <;> simp only [countFilters] <;> try exact ih
    intro pf hpf
    rcases List.mem_cons.1 hpf with rfl | hpf
    · rfl
    · exact ih pf hpf

theorem filterDirs_left {n : Name} {ty : QTy} {dirs : List Dir} :
    ∀ pf ∈ filterDirs n ty dirs, pf.left = .loc n ty := by
  induction dirs with
  | nil => simp [filterDirs]
  | cons d rest ih =>
    cases d <;> simp only [filterDirs] <;> try exact ih
    intro pf hpf
    rcases List.mem_cons.1 hpf with rfl | hpf
    · rfl
    · exact ih pf hpf

theorem nodeFilters_left {S : SchemaView} {ty : Name} {fields : List QField} :
    ∀ pf ∈ nodeFilters S ty fields, ∃ n t, pf.left = .loc n t := by
  intro pf hpf
  simp only [nodeFilters, List.mem_flatMap] at hpf
  obtain ⟨n, _, hpf⟩ := hpf
  split at hpf
  · exact ⟨_, _, filterDirs_left pf hpf⟩
  · cases hpf

/-- the finished component -/
theorem ordC_of_finish {path : List Vid} {root : Vid} {e0 e1 : Nat} {acc : Acc} {ss : List Stage}
    {st st' : St} {comp : Component} {evs : List ImportEvent}
    (h : OrdAcc root e0 e1 acc ss [root])
    (hfin : finishComponent path root acc st = .ok (comp, evs, st')) : OrdC comp := by
  obtain ⟨vs, ev, h1, rfl, _⟩ := finishComponent_inv hfin
  have hv := (makeVertices_inv h1).2
  simp only [OrdC]
  refine ⟨⟨ss, ⟨h.sorted, h.edges, h.folds, ?_, ?_, h.pshape⟩, h.dfs⟩, h.ordF⟩
  · show vs.map (·.vid) = root :: acc.edges.map (·.toVid)
    rw [hv, h.verts]; rfl
  · intro V hV f hf
    obtain ⟨v, hvm, hh⟩ := makeVertices_shape h1 V hV
    obtain ⟨pf, hpf, hl, hr⟩ := hh f hf
    obtain ⟨n, t, hpl⟩ := h.pend v hvm pf hpf
    refine ⟨?_, hr⟩
    rw [hl, hpl]; rfl

theorem ord_spec (S : SchemaView) :
    (∀ path vid pre node st acc st', fillNode S path vid pre node st = .ok (acc, st') →
      st.nextVid = st.nextEid + 1 → vid < st.nextVid →
      ∃ ss, OrdAcc vid st.nextEid st'.nextEid acc ss [vid]) ∧
    (∀ path vid ty fields st acc st', fillFields S path vid ty fields st = .ok (acc, st') →
      st.nextVid = st.nextEid + 1 → vid < st.nextVid →
      ∃ ss, OrdAcc vid st.nextEid st'.nextEid acc ss []) := by
  apply fill_induct S
    (P1 := fun _ vid _ _ st acc st' => st.nextVid = st.nextEid + 1 → vid < st.nextVid →
      ∃ ss, OrdAcc vid st.nextEid st'.nextEid acc ss [vid])
    (P2 := fun _ vid _ _ st acc st' => st.nextVid = st.nextEid + 1 → vid < st.nextVid →
      ∃ ss, OrdAcc vid st.nextEid st'.nextEid acc ss [])
  · -- node
    intro path vid pre coerceTo fields st post acc1 st' _ _ ih h0 hv
    obtain ⟨ss, o⟩ := ih h0 hv
    refine ⟨ss, o.sorted, o.bounds, o.edges, o.folds, ?_, ?_, o.pshape, o.ordF, o.toEq, o.src, o.dfs⟩
    · show (_ :: acc1.verts).map (·.vid) = [vid] ++ acc1.edges.map (·.toVid)
      rw [List.map_cons, o.verts]; rfl
    · intro v hvm
      have hvm' : v ∈ (⟨vid, post, coerceTo.map fun _ => pre, nodeFilters S post fields⟩ : VertexRec)
          :: acc1.verts := hvm
      rcases List.mem_cons.1 hvm' with rfl | hvm'
      · exact nodeFilters_left
      · exact o.pend v hvm'
  · -- nil
    intro path vid ty st _ _
    exact ⟨[], OrdAcc.nil vid _⟩
  · -- prop
    intro path vid ty n dirs rest st pty st1 acc1 st' _ h2 _ ih h0 hv
    obtain ⟨e1, e2, _, _⟩ := registerTags_inv h2
    obtain ⟨ss, o⟩ := ih (by nomega) (by nomega)
    rw [e2] at o
    exact ⟨ss, o.sorted, o.bounds, o.edges, o.folds, o.verts, o.pend, o.pshape, o.ordF, o.toEq, o.src,
      o.dfs⟩
  · -- fold
    intro path vid ty n params fds child rest st ed ps accIn st2 comp evs st3 post evPost st4 st5
      accR st' _ _ h3 h4 h5 h6 h7 ihC ihR h0 hv
    have cC := (counted S).1 _ _ _ _ _ _ _ h3
    have cR := (counted S).2 _ _ _ _ _ _ _ h7
    have b1 : st.bump.nextVid = st.nextVid + 1 := rfl
    have b2 : st.bump.nextEid = st.nextEid + 1 := rfl
    rw [b1, b2] at cC
    obtain ⟨ssC, oC⟩ := ihC (by rw [b1, b2]; nomega) (by rw [b1]; nomega)
    rw [b2] at oC
    obtain ⟨_, _, hcore⟩ := allVids_finish h4
    have c34 := resolveFilters_core h5
    obtain ⟨hv5, he5, _, _⟩ := registerTags_inv h6
    have := cC.sync; have := cC.vmono; have := cC.emono; have := cR.emono
    have e25 : st5.nextEid = st2.nextEid := by rw [he5, ← c34.2.1, ← hcore.2.1]
    have v25 : st5.nextVid = st2.nextVid := by rw [hv5, ← c34.1, ← hcore.1]
    obtain ⟨ssR, oR⟩ := ihR (by nomega) (by nomega)
    rw [e25] at oR
    have hC : OrdC comp := ordC_of_finish oC h4
    have hpost := resolveFilters_shape h5
    have oF : OrdAcc vid st.nextEid st2.nextEid
        { folds := [mkFold path vid st n ps comp evs fds post],
          events := importsAbove path.length evs ++ evPost }
        [.fold (mkFold path vid st n ps comp evs fds post)] [] := by
      refine ⟨by simp, ?_, rfl, rfl, rfl, (fun v hv => absurd hv List.not_mem_nil), ?_, ?_, ?_, ?_, ?_⟩
      · intro s hs
        rw [List.mem_singleton] at hs; subst hs
        simp only [stEid, mkFold, Fold.eid]; nomega
      · intro g hg f hf
        rw [List.mem_singleton] at hg; subst hg
        obtain ⟨pf, hpf, hl, hr⟩ := hpost f hf
        refine ⟨?_, hr⟩
        rw [hl, countFilters_left pf hpf]
      · show OrdF [mkFold path vid st n ps comp evs fds post]
        simp only [mkFold, OrdF]; exact ⟨hC, trivial⟩
      · intro s hs
        rw [List.mem_singleton] at hs; subst hs
        simp only [stTo, stEid, mkFold, Fold.toVid, Fold.eid]; exact h0
      · intro s hs
        rw [List.mem_singleton] at hs; subst hs
        exact ⟨.refl, Or.inl rfl⟩
      · intro x hx y hy h1 h2
        rw [List.mem_singleton] at hx hy; subst hx; subst hy
        exfalso; nomega
    exact ⟨_, oF.append oR (by nomega) (by nomega) (by nomega)⟩
  · -- plain / optional / recursive edge
    intro path vid ty n params kind child rest st ed ps r accC st2 accR st' _ _ _ _ h4 h5 ihC ihR h0 hv
    have cC := (counted S).1 _ _ _ _ _ _ _ h4
    have cR := (counted S).2 _ _ _ _ _ _ _ h5
    have b1 : st.bump.nextVid = st.nextVid + 1 := rfl
    have b2 : st.bump.nextEid = st.nextEid + 1 := rfl
    rw [b1, b2] at cC
    obtain ⟨ssC, oC⟩ := ihC (by rw [b1, b2]; nomega) (by rw [b1]; nomega)
    rw [b2] at oC
    have := cC.sync; have := cC.vmono; have := cC.emono; have := cR.emono
    obtain ⟨ssR, oR⟩ := ihR (by nomega) (by nomega)
    have oE := OrdAcc.consEdge (vid := vid) (e0 := st.nextEid)
      (e := ⟨st.nextEid, vid, st.nextVid, n, ps, isOptionalKind kind, r⟩)
      (by rw [show st.nextVid = st.nextEid + 1 from h0] at oC; exact oC) rfl rfl h0 rfl
      (by nomega) (by nomega)
    exact ⟨_, oE.append oR (by nomega) (by nomega) (by nomega)⟩

/-- The root component of a compiled query, and every component below it, is in DFS order. -/
theorem toIR_ordC {S : SchemaView} {q : Spec.Query} {ir : IRQuery} (h : toIR S q = .ok ir) :
    OrdC ir.rootComponent := by
  obtain ⟨root, rootParams, acc, st1, comp, evs, st2, vars, _, _, h3, h4, _, _, _, rfl⟩ := toIR_inv h
  obtain ⟨ss, o⟩ := (ord_spec S).1 _ _ _ _ _ _ _ h3 rfl (by decide)
  exact ordC_of_finish o h4

/-! ### the facts of part 1, hereditarily -/

mutual
def FactsC (vars : List (Name × QTy)) (chain : List FieldRef) : Component → Prop
  | .mk r vs es fs os => (∃ ss, Facts vars chain (.mk r vs es fs os) ss) ∧ FactsF vars chain fs
def FactsF (vars : List (Name × QTy)) (chain : List FieldRef) : List Fold → Prop
  | [] => True
  | .mk _ _ _ _ _ c imports _ _ :: rest => FactsC vars (imports ++ chain) c ∧ FactsF vars chain rest
end

mutual
theorem allComps_of_FactsC (vars : List (Name × QTy)) : (c : Component) → (chain : List FieldRef) →
    FactsC vars chain c → allComps (wfLocal vars) chain c = true
  | .mk r vs es fs os, chain, h => by
    simp only [FactsC] at h
    obtain ⟨⟨ss, F⟩, hF⟩ := h
    simp only [allComps, Bool.and_eq_true]
    exact ⟨F.wfLocal, allCompsF_of_FactsF vars fs chain hF⟩
theorem allCompsF_of_FactsF (vars : List (Name × QTy)) : (fs : List Fold) → (chain : List FieldRef) →
    FactsF vars chain fs → allCompsF (wfLocal vars) chain fs = true
  | [], _, _ => rfl
  | .mk e a t n ps c i o p :: rest, chain, h => by
    simp only [FactsF] at h
    simp only [allCompsF, Bool.and_eq_true]
    exact ⟨allComps_of_FactsC vars c (i ++ chain) h.1, allCompsF_of_FactsF vars rest chain h.2⟩
end

/-! ### extraction from the Boolean clauses of C11 -/

theorem wfNumberingF_mem' {fs : List Fold} (h : wfNumberingF fs = true) :
    ∀ g ∈ fs, g.toVid = g.eid + 1 ∧ wfNumberingC g.component = true := by
  induction fs with
  | nil => simp
  | cons f fs ih =>
    cases f with
    | mk e a t n ps c i o p =>
      simp only [wfNumberingF, Bool.and_eq_true, beq_iff_eq] at h
      intro g hg
      rcases List.mem_cons.mp hg with rfl | hg
      · exact ⟨h.1.1, h.1.2⟩
      · exact ih h.2 g hg

theorem wfEndpointsF_mem' {parent : List Vid} {fs : List Fold} (h : wfEndpointsF parent fs = true) :
    ∀ g ∈ fs, g.fromVid < g.toVid ∧ g.fromVid ∈ parent ∧ g.toVid = g.component.root ∧
      wfEndpointsC g.component = true := by
  induction fs with
  | nil => simp
  | cons f fs ih =>
    cases f with
    | mk e a t n ps c i o p =>
      simp only [wfEndpointsF, Bool.and_eq_true, beq_iff_eq, decide_eq_true_eq,
        List.contains_eq_mem] at h
      intro g hg
      rcases List.mem_cons.mp hg with rfl | hg
      · exact ⟨h.1.1.1.1, h.1.1.1.2, h.1.1.2, h.1.2⟩
      · exact ih h.2 g hg

theorem wfVarsF_mem' {vars : List (Name × QTy)} {fs : List Fold} (h : wfVarsF vars fs = true) :
    ∀ g ∈ fs, varsOk vars g.post = true ∧ wfVarsC vars g.component = true := by
  induction fs with
  | nil => simp
  | cons f fs ih =>
    cases f with
    | mk e a t n ps c i o p =>
      simp only [wfVarsF, Bool.and_eq_true] at h
      intro g hg
      rcases List.mem_cons.mp hg with rfl | hg
      · exact ⟨h.1.1, h.1.2⟩
      · exact ih h.2 g hg

theorem wfOutputsF_mem' {fs : List Fold} (h : wfOutputsF fs = true) :
    ∀ g ∈ fs, wfOutputsC g.component = true := by
  induction fs with
  | nil => simp
  | cons f fs ih =>
    cases f with
    | mk e a t n ps c i o p =>
      simp only [wfOutputsF, Bool.and_eq_true] at h
      intro g hg
      rcases List.mem_cons.mp hg with rfl | hg
      · exact h.1
      · exact ih h.2 g hg

theorem foldsVids_mem_sublist {fs : List Fold} {g : Fold} (hg : g ∈ fs) :
    (allVids g.component).Sublist (foldsVids fs) := by
  induction fs with
  | nil => simp at hg
  | cons f fs ih =>
    cases f with
    | mk e a t n ps c i o p =>
      simp only [foldsVids]
      rcases List.mem_cons.mp hg with rfl | hg
      · exact List.sublist_append_left _ _
      · exact (ih hg).trans (List.sublist_append_right _ _)

theorem foldsOutputNames_mem_sublist {fs : List Fold} {g : Fold} (hg : g ∈ fs) :
    (outputNames g.component).Sublist (foldsOutputNames fs) := by
  induction fs with
  | nil => simp at hg
  | cons f fs ih =>
    cases f with
    | mk e a t n ps c i o p =>
      simp only [foldsOutputNames]
      rcases List.mem_cons.mp hg with rfl | hg
      · exact (List.sublist_append_right _ _).trans (List.sublist_append_left _ _)
      · exact (ih hg).trans (List.sublist_append_right _ _)

mutual
theorem keysOfFold_names_C : (c : Component) →
    (c.folds.flatMap keysOfFold).map (·.2) = foldsOutputNames c.folds
  | .mk _ _ _ fs _ => keysOfFold_names_F fs
theorem keysOfFold_names_F : (fs : List Fold) →
    (fs.flatMap keysOfFold).map (·.2) = foldsOutputNames fs
  | [] => rfl
  | .mk e a t n ps c i o p :: rest => by
    rw [List.flatMap_cons, List.map_append, keysOfFold_names_F rest]
    simp only [foldsOutputNames, keysOfFold, Fold.fouts, Fold.eid, Fold.component, List.map_append,
      List.map_map, nestedKeys_eq]
    rw [keysOfFold_names_C c]
    cases c with
    | mk r vs es fs os =>
      simp [outputNames, Component.outputs, Component.folds, Function.comp_def]
end

theorem definedIn_fcOK {vs : List IRVertex} {fs : List Fold} {r : FieldRef}
    (hnum : ∀ g ∈ fs, g.toVid = g.eid + 1) (h : definedIn vs fs r = true) : fcOK r := by
  cases r with
  | ctx v f t => trivial
  | fcount e rv =>
    simp only [definedIn, List.any_eq_true, Bool.and_eq_true, beq_iff_eq] at h
    obtain ⟨g, hg, he, hr⟩ := h
    have := hnum g hg
    show rv = e + 1
    rw [← hr, ← he, this]

/-! ### assembling the facts -/

/-- Everything known about a component of a compiled query and the chain of imports above it. -/
structure Hyp (vars : List (Name × QTy)) (chain : List FieldRef) (c : Component) : Prop where
  ord : OrdC c
  num : wfNumberingC c = true
  endp : wfEndpointsC c = true
  vids : (allVids c).Nodup
  tags : wfTagsC chain c = true
  imps : importsOKC (chain.map FieldRef.key) c = true
  chainOK : ∀ r ∈ chain, fcOK r
  vrs : wfVarsC vars c = true
  outs : wfOutputsC c = true
  names : (outputNames c).Nodup

theorem Hyp.facts {vars : List (Name × QTy)} {chain : List FieldRef} {r : Vid} {vs : List IRVertex}
    {es : List IREdge} {fs : List Fold} {os : List OutputDef}
    (H : Hyp vars chain (.mk r vs es fs os)) :
    (∃ ss, Facts vars chain (.mk r vs es fs os) ss) ∧
      ∀ g ∈ fs, Hyp vars (g.imports ++ chain) g.component := by
  obtain ⟨hord, hnum, hend, hvids, htags, himps, hchain, hvars, houts, hnames⟩ := H
  simp only [OrdC] at hord
  obtain ⟨⟨ss, O, hdfs⟩, hordF⟩ := hord
  simp only [wfNumberingC, Bool.and_eq_true, List.all_eq_true, beq_iff_eq] at hnum
  simp only [wfEndpointsC, Bool.and_eq_true, List.all_eq_true, decide_eq_true_eq,
    List.contains_eq_mem] at hend
  simp only [allVids] at hvids
  simp only [wfTagsC, Bool.and_eq_true, List.all_eq_true, tagsOkAt_iff, wfTagsF_iff] at htags
  simp only [importsOKC] at himps
  simp only [wfVarsC, Bool.and_eq_true, List.all_eq_true] at hvars
  simp only [wfOutputsC, Bool.and_eq_true, List.all_eq_true, List.contains_eq_mem,
    decide_eq_true_eq] at houts
  simp only [outputNames] at hnames
  have hnumF := wfNumberingF_mem' hnum.2
  have hendF := wfEndpointsF_mem' hend.2
  have hvarsF := wfVarsF_mem' hvars.2
  have hnd := List.nodup_append.1 hvids
  have hmemE : ∀ {e : IREdge}, Stage.edge e ∈ ss → e ∈ es := by
    intro e he
    have : e ∈ ss.filterMap Stage.edge? := List.mem_filterMap.2 ⟨_, he, rfl⟩
    rw [O.edges] at this; exact this
  have hmemF : ∀ {f : Fold}, Stage.fold f ∈ ss → f ∈ fs := by
    intro f hf
    have : f ∈ ss.filterMap Stage.fold? := List.mem_filterMap.2 ⟨_, hf, rfl⟩
    rw [O.folds] at this; exact this
  have hnumG : ∀ g ∈ fs, g.toVid = g.eid + 1 := fun g hg => (hnumF g hg).1
  constructor
  · have sh : Shape (.mk r vs es fs os) ss := by
      refine ⟨O.sorted, O.edges, O.folds, O.verts, hnd.1, ?_, ?_, O.vshape, O.pshape⟩
      · -- stages
        intro s hs
        cases s with
        | edge e =>
          have he := hmemE hs
          obtain ⟨⟨h1, h2⟩, h3⟩ := hend.1.2 e he
          exact ⟨hnum.1 e he, h1, h2⟩
        | fold f =>
          have hf := hmemF hs
          obtain ⟨h1, h2, _, _⟩ := hendF f hf
          exact ⟨hnumG f hf, h1, h2⟩
      · -- a fold's destination is not a vertex of the parent
        intro f hf hm
        obtain ⟨_, _, h3, h4⟩ := hendF f hf
        have hroot : f.toVid ∈ allVids f.component := by
          rw [h3]
          cases hc : f.component with
          | mk r' vs' es' fs' os' =>
            rw [hc] at h4
            simp only [wfEndpointsC, Bool.and_eq_true, List.contains_eq_mem, decide_eq_true_eq] at h4
            simp only [allVids, Component.root, List.mem_append]
            exact Or.inl h4.1.1
        exact hnd.2.2 _ hm _ (mem_foldsVids hf hroot) rfl
    refine ⟨ss, ⟨sh, ⟨?_, ?_, ?_⟩, ⟨?_, ?_⟩, ⟨?_, ?_⟩, recFact_of_dfs sh hdfs⟩⟩
    · -- tag operands of vertex filters
      intro v hv f hf rr hr
      have := htags.1 v hv rr (by simp only [List.mem_flatMap]; exact ⟨f, hf, by simp [filterTags, hr]⟩)
      refine ⟨this.1, this.2, ?_⟩
      rcases this.2 with hd | hc
      · exact definedIn_fcOK hnumG hd
      · exact hchain rr hc
    · -- tag operands of post-filters
      intro g hg f hf rr hr
      have := (htags.2 g hg).1 rr (by simp only [List.mem_flatMap]; exact ⟨f, hf, by simp [filterTags, hr]⟩)
      refine ⟨this.1, this.2, ?_⟩
      rcases this.2 with hd | hc
      · exact definedIn_fcOK hnumG hd
      · exact hchain rr hc
    · -- imports
      intro g hg
      obtain ⟨k1, k2, _⟩ := importsOKF_mem himps hg
      refine ⟨k1, ?_⟩
      intro rr hrr
      obtain ⟨d1, d2⟩ := (htags.2 g hg).2.1 rr hrr
      exact ⟨d1, d2, (k2 rr hrr).1, (k2 rr hrr).2⟩
    · exact hvars.1
    · intro g hg; exact (hvarsF g hg).1
    · exact houts.1
    · show (os.map (·.name) ++ (fs.flatMap keysOfFold).map (·.2)).Nodup
      rw [keysOfFold_names_F]; exact hnames
  · intro g hg
    obtain ⟨k1, k2, k3⟩ := importsOKF_mem himps hg
    refine ⟨OrdF_mem hordF hg, (hnumF g hg).2, (hendF g hg).2.2.2,
      hnd.2.1.sublist (foldsVids_mem_sublist hg), (htags.2 g hg).2.2, ?_, ?_, (hvarsF g hg).2,
      wfOutputsF_mem' houts.2 g hg, ?_⟩
    · rw [List.map_append]; exact k3
    · intro rr hrr
      rcases List.mem_append.1 hrr with hrr | hrr
      · exact definedIn_fcOK hnumG ((htags.2 g hg).2.1 rr hrr).1
      · exact hchain rr hrr
    · exact (List.nodup_append.1 hnames).2.1.sublist (foldsOutputNames_mem_sublist hg)

mutual
theorem factsC_of (vars : List (Name × QTy)) : (c : Component) → (chain : List FieldRef) →
    Hyp vars chain c → FactsC vars chain c
  | .mk r vs es fs os, chain, H => by
    simp only [FactsC]
    exact ⟨H.facts.1, factsF_of vars fs chain H.facts.2⟩
theorem factsF_of (vars : List (Name × QTy)) : (l : List Fold) → (chain : List FieldRef) →
    (∀ g ∈ l, Hyp vars (g.imports ++ chain) g.component) → FactsF vars chain l
  | [], _, _ => trivial
  | .mk e a t n ps c i o p :: rest, chain, h => by
    simp only [FactsF]
    exact ⟨factsC_of vars c (i ++ chain) (h (.mk e a t n ps c i o p) (List.mem_cons_self ..)),
      factsF_of vars rest chain fun g hg => h g (List.mem_cons_of_mem _ hg)⟩
end

/-- `WFq` of a compiled query, given the facts of the new induction (`OrdC`). -/
theorem WFq_of_ord {S : SchemaView} {q : Spec.Query} {ir : IRQuery} (h : toIR S q = .ok ir)
    (hord : OrdC ir.rootComponent) : WFq ir = true := by
  have h14 := toIR_numbering_endpoints h
  have h2 := (toIR_unique h).1
  have h5 := (toIR_tags_imports h).1
  have h7 := toIR_vars h
  have ho := toIR_outputs_ok h
  have hi := importsOKC_of_toIR h
  simp only [wfUnique, Bool.and_eq_true, natsDistinct_iff] at h2
  simp only [outputsOk, Bool.and_eq_true, namesDistinct_iff] at ho
  unfold WFq
  apply allComps_of_FactsC
  apply factsC_of
  exact ⟨hord, h14.1, h14.2.1, h2.1, h5, hi, by simp, h7, ho.1, ho.2⟩

/-- **Every query the (modelled) frontend accepts is structurally well-formed as the engine relies
on it.**  No hypothesis on the schema view is needed. -/
theorem toIR_WFq {S : SchemaView} {q : Spec.Query} {ir : IRQuery} (h : toIR S q = .ok ir) :
    WFq ir = true :=
  WFq_of_ord h (toIR_ordC h)

end TF.Bridge

#print axioms TF.Bridge.toIR_WFq
