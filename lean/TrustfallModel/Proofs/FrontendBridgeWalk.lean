/-
Bridge from the frontend model to the engine hypotheses, part 1 (IR level): the execution-order walk
`wfLocal` of one component (`Proofs/InterpInvDefs.lean`) follows from per-component facts stated
without the walk:

* `Shape c ss`     `ss` is the Eid-sorted stage list of `c`; the vertices of `c` are its root followed by
                   the destinations of its edges; destinations are numbered `eid + 1`; sources are earlier
                   vertices of `c`; filters have the shape `make_filter_expr` gives them;
* `TagFacts chain c`  every tag operand is defined not later than its use, in `c` or in the import
                   chain; every import of a fold is defined in `c` before the fold, once per key, under a
                   key no enclosing fold imports, and is not the fold's own count;
* variables are declared with a compatible type, outputs are read at vertices of `c`, output names
  (fold keys included) are pairwise distinct;
* `RecFact c ss`   when a `@recurse` edge is expanded, the active vertex is a descendant-or-self of the
                   edge's source (proved from the DFS shape in part 2).
-/
import TrustfallModel.Proofs.FrontendIndexed
import TrustfallModel.Proofs.InterpSpec4.StaticImports
import TrustfallModel.Proofs.InterpInvLists

namespace TF.Bridge
open TF TF.Engine TF.Frontend TF.InterpSpec

/-! ### small helpers -/

def stTo : Stage → Vid
  | .edge e => e.toVid
  | .fold f => f.toVid

def stFrom : Stage → Vid
  | .edge e => e.fromVid
  | .fold f => f.fromVid

theorem stEdge?_eq : stEdge? = Stage.edge? := by funext s; cases s <;> rfl
theorem stFold?_eq : stFold? = Stage.fold? := by funext s; cases s <;> rfl

theorem QTy.beq_refl (t : QTy) : (t == t) = true := by
  obtain ⟨b, n⟩ := t
  simp only [BEq.beq, instBEqQTy.beq, decide_true, Bool.true_and]
  exact beq_self_eq_true n

theorem fieldRefEq_refl (r : FieldRef) : Engine.fieldRefEq r r = true := by
  cases r <;> simp [Engine.fieldRefEq, QTy.beq_refl]

theorem refMem_of_mem {r : FieldRef} {l : List FieldRef} (h : r ∈ l) : Engine.refMem r l = true := by
  simp only [Engine.refMem, List.any_eq_true]
  exact ⟨r, h, fieldRefEq_refl r⟩

/-- the root recorded in a fold-count reference is the vertex right after the fold's Eid -/
def fcOK : FieldRef → Prop
  | .fcount e rv => rv = e + 1
  | .ctx _ _ _ => True

/-- the shape `make_filter_expr` gives a filter -/
def FilterShape (isPost : Bool) (f : IRFilter) : Prop :=
  (match f.left with
    | .loc _ _ => !isPost
    | .count => isPost) = true ∧
  ∀ o, f.op = .bin o → f.right ≠ none

/-! ### the facts -/

structure Shape (c : Component) (ss : List Stage) : Prop where
  sorted : (ss.map stEid).Pairwise (· < ·)
  edges : ss.filterMap Stage.edge? = c.edges
  folds : ss.filterMap Stage.fold? = c.folds
  verts : c.vertices.map (·.vid) = c.root :: c.edges.map (·.toVid)
  vnodup : (c.vertices.map (·.vid)).Nodup
  stg : ∀ s ∈ ss, stTo s = stEid s + 1 ∧ stFrom s < stTo s ∧ stFrom s ∈ c.vertices.map (·.vid)
  foldTo : ∀ f ∈ c.folds, f.toVid ∉ c.vertices.map (·.vid)
  vshape : ∀ v ∈ c.vertices, ∀ f ∈ v.filters, FilterShape false f
  pshape : ∀ g ∈ c.folds, ∀ f ∈ g.post, FilterShape true f

/-- a tag operand used at vertex `useVid` -/
def TagOK (chain : List FieldRef) (c : Component) (useVid : Vid) (r : FieldRef) : Prop :=
  definedAt r ≤ useVid ∧ (definedIn c.vertices c.folds r = true ∨ r ∈ chain) ∧ fcOK r

structure TagFacts (chain : List FieldRef) (c : Component) : Prop where
  vtags : ∀ v ∈ c.vertices, ∀ f ∈ v.filters, ∀ r, f.right = some (.tag r) → TagOK chain c v.vid r
  ptags : ∀ g ∈ c.folds, ∀ f ∈ g.post, ∀ r, f.right = some (.tag r) → TagOK chain c g.toVid r
  imps : ∀ g ∈ c.folds, (g.imports.map FieldRef.key).Nodup ∧
    ∀ r ∈ g.imports, definedIn c.vertices c.folds r = true ∧ definedAt r ≤ g.toVid ∧
      r.key ∉ chain.map FieldRef.key ∧ r.key ≠ .fcount g.eid

structure VarFacts (vars : List (Name × QTy)) (c : Component) : Prop where
  vvars : ∀ v ∈ c.vertices, varsOk vars v.filters = true
  pvars : ∀ g ∈ c.folds, varsOk vars g.post = true

structure OutFacts (c : Component) : Prop where
  outs : ∀ o ∈ c.outputs, o.vid ∈ c.vertices.map (·.vid)
  names : (c.outputs.map (·.name) ++ (c.folds.flatMap keysOfFold).map (·.2)).Nodup

/-- the walk's condition on `@recurse` edges -/
def RecFact (c : Component) (ss : List Stage) : Prop :=
  ∀ p e rest, ss = p ++ Stage.edge e :: rest → e.recursive.isSome = true →
    ancOrSelf ((WState.init c.root).run p).edgesDone e.fromVid
      ((WState.init c.root).run p).edgesDone.length ((WState.init c.root).run p).active = true

/-! ### the state of the walk after a prefix of the stages -/

theorem run_append (st : WState) (a b : List Stage) : st.run (a ++ b) = (st.run a).run b := by
  simp [WState.run, List.foldl_append]

theorem run_cons (st : WState) (s : Stage) (l : List Stage) : st.run (s :: l) = (st.after s).run l := rfl

theorem mem_run_visited (st : WState) (p : List Stage) (x : Vid) :
    x ∈ (st.run p).visited ↔ x ∈ st.visited ∨ x ∈ p.map stTo := by
  induction p generalizing st with
  | nil => simp [WState.run]
  | cons s rest ih =>
    rw [run_cons, ih]
    obtain ⟨r, vis, fd, ed, a⟩ := st
    cases s <;> simp only [WState.after, WState.afterEdge, WState.afterFold, stTo, List.mem_cons,
      List.map_cons] <;> constructor <;> intro h
    · rcases h with (h | h) | h
      · exact Or.inr (Or.inl h)
      · exact Or.inl h
      · exact Or.inr (Or.inr h)
    · rcases h with h | h | h
      · exact Or.inl (Or.inr h)
      · exact Or.inl (Or.inl h)
      · exact Or.inr h
    · rcases h with (h | h) | h
      · exact Or.inr (Or.inl h)
      · exact Or.inl h
      · exact Or.inr (Or.inr h)
    · rcases h with h | h | h
      · exact Or.inl (Or.inr h)
      · exact Or.inl (Or.inl h)
      · exact Or.inr h

theorem init_recorded (root : Vid) (p : List Stage) :
    ((WState.init root).run p).recorded = root :: (p.filterMap Stage.edge?).map (·.toVid) := by
  rw [run_recorded]; rfl

theorem init_foldsDone (root : Vid) (p : List Stage) :
    ((WState.init root).run p).foldsDone = p.filterMap Stage.fold? := by
  rw [run_foldsDone]; rfl

theorem init_edgesDone (root : Vid) (p : List Stage) :
    ((WState.init root).run p).edgesDone = p.filterMap Stage.edge? := by
  rw [run_edgesDone]; rfl

theorem mem_init_visited (root : Vid) (p : List Stage) (x : Vid) :
    x ∈ ((WState.init root).run p).visited ↔ x = root ∨ x ∈ p.map stTo := by
  rw [mem_run_visited]; simp [WState.init]

/-! ### consequences of `Shape` -/

section shape
variable {c : Component} {ss : List Stage} (sh : Shape c ss)
include sh

theorem Shape.mem_edge {e : IREdge} : Stage.edge e ∈ ss ↔ e ∈ c.edges := by
  rw [← sh.edges, List.mem_filterMap]
  constructor
  · intro h; exact ⟨_, h, rfl⟩
  · rintro ⟨s, hs, he⟩; cases s <;> simp at he; subst he; exact hs

theorem Shape.mem_fold {f : Fold} : Stage.fold f ∈ ss ↔ f ∈ c.folds := by
  rw [← sh.folds, List.mem_filterMap]
  constructor
  · intro h; exact ⟨_, h, rfl⟩
  · rintro ⟨s, hs, he⟩; cases s <;> simp at he; subst he; exact hs

theorem Shape.vertex_cases {v : Vid} (h : v ∈ c.vertices.map (·.vid)) :
    v = c.root ∨ ∃ e ∈ c.edges, e.toVid = v := by
  rw [sh.verts] at h
  simp only [List.mem_cons, List.mem_map] at h
  exact h

theorem Shape.root_mem : c.root ∈ c.vertices.map (·.vid) := by
  rw [sh.verts]; simp

theorem Shape.toVid_mem {e : IREdge} (he : e ∈ c.edges) : e.toVid ∈ c.vertices.map (·.vid) := by
  rw [sh.verts]; simp only [List.mem_cons, List.mem_map]; exact Or.inr ⟨e, he, rfl⟩

/-- the root is the smallest vertex of the component -/
theorem Shape.root_le : ∀ (n : Nat) (v : Vid), v ≤ n → v ∈ c.vertices.map (·.vid) → c.root ≤ v := by
  intro n
  induction n with
  | zero =>
    intro v hv hm
    rcases sh.vertex_cases hm with rfl | ⟨e, he, rfl⟩
    · exact Nat.le_refl _
    · have := (sh.stg _ (sh.mem_edge.2 he)).2.1
      simp only [stFrom, stTo] at this
      nomega
  | succ n ih =>
    intro v hv hm
    rcases sh.vertex_cases hm with rfl | ⟨e, he, rfl⟩
    · exact Nat.le_refl _
    · obtain ⟨_, h2, h3⟩ := sh.stg _ (sh.mem_edge.2 he)
      simp only [stFrom, stTo] at h2 h3
      have := ih e.fromVid (by nomega) h3
      nomega

theorem Shape.root_lt_to {s : Stage} (hs : s ∈ ss) : c.root < stTo s := by
  obtain ⟨_, h2, h3⟩ := sh.stg s hs
  have := sh.root_le _ _ (Nat.le_refl _) h3
  nomega

/-- positions: in `ss = p ++ s :: rest`, everything in `p` has a smaller Eid than `s`, everything in
`rest` a larger one -/
theorem Shape.split_lt {p rest : List Stage} {s : Stage} (h : ss = p ++ s :: rest) :
    (∀ x ∈ p, stEid x < stEid s) ∧ (∀ y ∈ rest, stEid s < stEid y) := by
  have hs := sh.sorted
  rw [h, List.map_append, List.map_cons, List.pairwise_append] at hs
  obtain ⟨_, h2, h3⟩ := hs
  rw [List.pairwise_cons] at h2
  refine ⟨fun x hx => h3 _ (List.mem_map.2 ⟨x, hx, rfl⟩) _ (List.mem_cons_self ..), ?_⟩
  intro y hy
  exact h2.1 _ (List.mem_map.2 ⟨y, hy, rfl⟩)

theorem Shape.to_eq {s : Stage} (hs : s ∈ ss) : stTo s = stEid s + 1 := (sh.stg s hs).1

/-- a vertex of the component smaller than the destination of the current stage is recorded -/
theorem Shape.recorded_before {p rest : List Stage} {s : Stage} (h : ss = p ++ s :: rest) {v : Vid}
    (hm : v ∈ c.vertices.map (·.vid)) (hlt : v < stTo s) :
    v ∈ ((WState.init c.root).run p).recorded := by
  rw [init_recorded]
  rcases sh.vertex_cases hm with rfl | ⟨e, he, rfl⟩
  · simp
  · have hes := sh.mem_edge.2 he
    obtain ⟨_, hr⟩ := sh.split_lt h
    have hsin : s ∈ ss := by rw [h]; simp
    have t1 := sh.to_eq hes
    have t2 := sh.to_eq hsin
    simp only [stTo, stEid] at t1
    rw [h, List.mem_append, List.mem_cons] at hes
    rcases hes with hes | hes | hes
    · simp only [List.mem_cons, List.mem_map, List.mem_filterMap]
      exact Or.inr ⟨e, ⟨_, hes, rfl⟩, rfl⟩
    · subst hes; simp only [stTo] at hlt; nomega
    · have h5 : stEid s < e.eid := hr _ hes
      nomega

omit sh in
theorem Shape.vertex?_isSome {v : Vid} (hm : v ∈ c.vertices.map (·.vid)) :
    (c.vertex? v).isSome = true := by
  apply vertex?_of_mem_vids
  simpa [vertexVids] using hm

omit sh in
theorem Shape.vertex?_mem {v : Vid} {V : IRVertex} (h : c.vertex? v = some V) :
    V ∈ c.vertices ∧ V.vid = v := by
  unfold Component.vertex? at h
  exact ⟨List.mem_of_find?_eq_some h, by simpa using List.find?_some h⟩

omit sh in
theorem Shape.vertex?_none {v : Vid} (h : c.vertex? v = none) : v ∉ c.vertices.map (·.vid) := by
  intro hm
  have := Shape.vertex?_isSome (c := c) hm
  rw [h] at this; cases this

end shape

/-! ### filters -/

theorem varsOk_mem {vars : List (Name × QTy)} {fs : List IRFilter} (h : varsOk vars fs = true)
    {f : IRFilter} (hf : f ∈ fs) {n : Name} {ty : QTy} (hr : f.right = some (.var n ty)) :
    ∃ p, vars.find? (·.1 == n) = some p ∧ ty.isScalarOnlySubtype p.2 = true := by
  simp only [varsOk, List.all_eq_true, List.mem_flatMap] at h
  have h' := h (n, ty) ⟨f, hf, by simp [filterVars, hr]⟩
  simp only at h'
  cases hfd : vars.find? (·.1 == n) with
  | none => rw [hfd] at h'; simp at h'
  | some p => rw [hfd] at h'; exact ⟨p, rfl, by simpa using h'⟩

theorem tagWf_of {chain : List FieldRef} {c : Component} (recorded : List Vid) (done : List Eid)
    (cur B : Vid) {r : FieldRef}
    (hto : ∀ g ∈ c.folds, g.toVid = g.eid + 1)
    (hrec : ∀ v ∈ c.vertices.map (·.vid), v ≤ B → v = cur ∨ v ∈ recorded)
    (hdone : ∀ g ∈ c.folds, g.toVid ≤ B → g.eid ∈ done)
    (hr : TagOK chain c B r) : tagWf c chain recorded done cur r = true := by
  obtain ⟨hle, hdef, hfc⟩ := hr
  cases r with
  | ctx vid f ty =>
    simp only [definedAt] at hle
    simp only [tagWf, Bool.or_eq_true, beq_iff_eq]
    by_cases hc : vid = cur
    · exact Or.inl hc
    · right
      cases hv : c.vertex? vid with
      | none =>
        simp only
        rcases hdef with hd | hd
        · exfalso
          simp only [definedIn, vertexVids, List.contains_eq_mem, decide_eq_true_eq] at hd
          exact Shape.vertex?_none hv hd
        · exact refMem_of_mem hd
      | some V =>
        simp only [List.contains_eq_mem, decide_eq_true_eq]
        obtain ⟨hV, hVv⟩ := Shape.vertex?_mem hv
        have hm : vid ∈ c.vertices.map (·.vid) := List.mem_map.2 ⟨V, hV, hVv⟩
        rcases hrec vid hm hle with h | h
        · exact absurd h hc
        · exact h
  | fcount eid rv =>
    simp only [definedAt] at hle
    have hrv : rv = eid + 1 := hfc
    simp only [tagWf]
    split
    · rename_i hany
      simp only [List.any_eq_true, beq_iff_eq] at hany
      obtain ⟨g, hg, hge⟩ := hany
      simp only [List.contains_eq_mem, decide_eq_true_eq]
      have := hdone g hg (by rw [hto g hg, hge, ← hrv]; exact hle)
      rw [hge] at this; exact this
    · rename_i hany
      rcases hdef with hd | hd
      · exfalso
        apply hany
        simp only [definedIn, List.any_eq_true, Bool.and_eq_true, beq_iff_eq] at hd
        obtain ⟨g, hg, hge, _⟩ := hd
        simp only [List.any_eq_true, beq_iff_eq]
        exact ⟨g, hg, hge⟩
      · exact refMem_of_mem hd

theorem filterWf_of {vars : List (Name × QTy)} {chain : List FieldRef} {c : Component}
    {recorded : List Vid} {done : List Eid} {cur : Vid} {isPost : Bool} {f : IRFilter}
    (hs : FilterShape isPost f)
    (hv : ∀ n ty, f.right = some (.var n ty) →
      ∃ p, vars.find? (·.1 == n) = some p ∧ ty.isScalarOnlySubtype p.2 = true)
    (ht : ∀ r, f.right = some (.tag r) → tagWf c chain recorded done cur r = true) :
    filterWf vars c chain recorded done cur isPost f = true := by
  obtain ⟨h1, h2⟩ := hs
  simp only [filterWf, Bool.and_eq_true]
  refine ⟨h1, ?_⟩
  cases hop : f.op with
  | un o => simp
  | bin o =>
    cases hr : f.right with
    | none => exact absurd hr (h2 o hop)
    | some a =>
      cases a with
      | var n ty =>
        obtain ⟨p, hp, hsub⟩ := hv n ty hr
        simp only [hp]
        exact hsub
      | tag r => simpa using ht r hr

/-! ### the walk -/

structure Facts (vars : List (Name × QTy)) (chain : List FieldRef) (c : Component)
    (ss : List Stage) : Prop where
  sh : Shape c ss
  tg : TagFacts chain c
  vr : VarFacts vars c
  ot : OutFacts c
  rc : RecFact c ss

section walk
variable {vars : List (Name × QTy)} {chain : List FieldRef} {c : Component} {ss : List Stage}
  (F : Facts vars chain c ss)
include F

theorem Facts.foldTo_eq {g : Fold} (hg : g ∈ c.folds) : g.toVid = g.eid + 1 :=
  F.sh.to_eq (F.sh.mem_fold.2 hg)

theorem Facts.vertexFilters_ok {V : IRVertex} (hV : V ∈ c.vertices) (recorded : List Vid)
    (done : List Eid)
    (hrec : ∀ v ∈ c.vertices.map (·.vid), v ≤ V.vid → v = V.vid ∨ v ∈ recorded)
    (hdone : ∀ g ∈ c.folds, g.toVid ≤ V.vid → g.eid ∈ done) :
    V.filters.all (filterWf vars c chain recorded done V.vid false) = true := by
  rw [List.all_eq_true]
  intro f hf
  refine filterWf_of (F.sh.vshape V hV f hf) (fun n ty hr => varsOk_mem (F.vr.vvars V hV) hf hr) ?_
  intro r hr
  exact tagWf_of recorded done V.vid V.vid (fun g hg => F.foldTo_eq hg) hrec hdone
    (F.tg.vtags V hV f hf r hr)

theorem Facts.postFilters_ok {g : Fold} (hg : g ∈ c.folds) (recorded : List Vid)
    (done : List Eid)
    (hrec : ∀ v ∈ c.vertices.map (·.vid), v ≤ g.toVid → v = g.fromVid ∨ v ∈ recorded)
    (hdone : ∀ g' ∈ c.folds, g'.toVid ≤ g.toVid → g'.eid ∈ done) :
    g.post.all (filterWf vars c chain recorded done g.fromVid true) = true := by
  rw [List.all_eq_true]
  intro f hf
  refine filterWf_of (F.sh.pshape g hg f hf) (fun n ty hr => varsOk_mem (F.vr.pvars g hg) hf hr) ?_
  intro r hr
  exact tagWf_of recorded done g.fromVid g.toVid (fun g hg => F.foldTo_eq hg) hrec hdone
    (F.tg.ptags g hg f hf r hr)

/-- folds with a destination not beyond the current stage's are done -/
theorem Facts.folds_before {p rest : List Stage} {s : Stage} (h : ss = p ++ s :: rest) {g : Fold}
    (hg : g ∈ c.folds) (hle : g.toVid ≤ stTo s) : Stage.fold g ∈ p ∨ Stage.fold g = s := by
  have hgs := F.sh.mem_fold.2 hg
  have hsin : s ∈ ss := by rw [h]; simp
  have t1 := F.sh.to_eq hgs
  have t2 := F.sh.to_eq hsin
  simp only [stTo, stEid] at t1
  rw [h, List.mem_append, List.mem_cons] at hgs
  rcases hgs with hgs | hgs | hgs
  · exact Or.inl hgs
  · exact Or.inr hgs
  · have h5 : stEid s < g.eid := (F.sh.split_lt h).2 _ hgs
    exfalso; nomega

theorem Facts.stage_basic {p rest : List Stage} {s : Stage} (h : ss = p ++ s :: rest) :
    let st := (WState.init c.root).run p
    st.visited.contains (stFrom s) = true ∧ st.visited.contains (stTo s) = false ∧
      (stFrom s == stTo s) = false ∧ st.recorded.contains (stFrom s) = true ∧
      st.recorded.contains (stTo s) = false ∧ (c.vertex? (stFrom s)).isSome = true := by
  intro st
  have hsin : s ∈ ss := by rw [h]; simp
  obtain ⟨t1, t2, t3⟩ := F.sh.stg s hsin
  have hrec : stFrom s ∈ st.recorded := F.sh.recorded_before h t3 t2
  have hroot := F.sh.root_lt_to hsin
  have hp := (F.sh.split_lt h).1
  have hnotp : ∀ x ∈ p, stTo x ≠ stTo s := by
    intro x hx
    have hxin : x ∈ ss := by rw [h]; simp [hx]
    have := F.sh.to_eq hxin
    have := hp x hx
    nomega
  refine ⟨?_, ?_, ?_, ?_, ?_, Shape.vertex?_isSome t3⟩
  · simp only [List.contains_eq_mem, decide_eq_true_eq]
    rw [mem_init_visited]
    rw [init_recorded] at hrec
    simp only [List.mem_cons, List.mem_map, List.mem_filterMap] at hrec
    rcases hrec with hrec | ⟨e, ⟨x, hx, hxe⟩, he⟩
    · exact Or.inl hrec
    · right
      cases x <;> simp at hxe
      subst hxe
      exact List.mem_map.2 ⟨_, hx, he⟩
  · simp only [List.contains_eq_mem, decide_eq_false_iff_not]
    rw [mem_init_visited]
    rintro (hc | hc)
    · nomega
    · obtain ⟨x, hx, hxe⟩ := List.mem_map.1 hc
      exact hnotp x hx hxe
  · simp only [beq_eq_false_iff_ne, ne_eq]; nomega
  · simpa using hrec
  · simp only [List.contains_eq_mem, decide_eq_false_iff_not]
    rw [init_recorded]
    simp only [List.mem_cons, List.mem_map, List.mem_filterMap]
    rintro (hc | ⟨e, ⟨x, hx, hxe⟩, he⟩)
    · nomega
    · cases x <;> simp at hxe
      subst hxe
      exact hnotp _ hx he

theorem Facts.stageWf_edge {p rest : List Stage} {e : IREdge} (h : ss = p ++ Stage.edge e :: rest) :
    stageWf vars c chain ((WState.init c.root).run p) (.edge e) = true := by
  obtain ⟨b1, b2, b3, b4, b5, b6⟩ := F.stage_basic h
  simp only [stFrom, stTo] at b1 b2 b3 b4 b5 b6
  have hsin : Stage.edge e ∈ ss := by rw [h]; simp
  have he : e ∈ c.edges := F.sh.mem_edge.1 hsin
  simp only [stageWf, Bool.and_eq_true, b1, b2, b3, b4, b5, b6, Bool.not_false, true_and]
  constructor
  · have hm := F.sh.toVid_mem he
    cases hv : c.vertex? e.toVid with
    | none => exact absurd hm (Shape.vertex?_none hv)
    | some V =>
      obtain ⟨hV, hVv⟩ := Shape.vertex?_mem hv
      simp only
      apply F.vertexFilters_ok hV
      · intro v hvm hle
        rw [hVv] at hle ⊢
        by_cases hc : v = e.toVid
        · exact Or.inl hc
        · exact Or.inr (F.sh.recorded_before h hvm (by simp only [stTo]; nomega))
      · intro g hg hle
        rw [hVv] at hle
        rw [init_foldsDone]
        rcases F.folds_before h hg (by simpa [stTo] using hle) with hgp | hgp
        · simp only [List.mem_map, List.mem_filterMap]
          exact ⟨g, ⟨_, hgp, rfl⟩, rfl⟩
        · cases hgp
  · cases hr : e.recursive with
    | none => rfl
    | some r => exact F.rc p e rest h (by rw [hr]; rfl)

omit F in
theorem tagKeysDistinct_of_nodup {l : List FieldRef} (h : (l.map FieldRef.key).Nodup) :
    tagKeysDistinct l = true := by
  induction l with
  | nil => rfl
  | cons r rest ih =>
    rw [List.map_cons, List.nodup_cons] at h
    simp only [tagKeysDistinct, Bool.and_eq_true, Bool.not_eq_true', List.any_eq_false,
      beq_iff_eq]
    refine ⟨?_, ih h.2⟩
    intro x hx hk
    exact h.1 (List.mem_map.2 ⟨x, hx, hk⟩)

theorem Facts.stageWf_fold {p rest : List Stage} {f : Fold} (h : ss = p ++ Stage.fold f :: rest) :
    stageWf vars c chain ((WState.init c.root).run p) (.fold f) = true := by
  obtain ⟨b1, b2, b3, b4, _, b6⟩ := F.stage_basic h
  simp only [stFrom, stTo] at b1 b2 b3 b4 b6
  have hsin : Stage.fold f ∈ ss := by rw [h]; simp
  have hf : f ∈ c.folds := F.sh.mem_fold.1 hsin
  have hp := (F.sh.split_lt h).1
  obtain ⟨hnd, himp⟩ := F.tg.imps f hf
  simp only [stageWf, Bool.and_eq_true, b1, b2, b3, b4, b6, Bool.not_false, true_and]
  refine ⟨⟨⟨⟨?_, ?_⟩, tagKeysDistinct_of_nodup hnd⟩, ?_⟩, ?_⟩
  · -- the fold's Eid is fresh
    simp only [Bool.not_eq_true', List.contains_eq_mem, decide_eq_false_iff_not]
    rw [init_foldsDone]
    simp only [List.mem_map, List.mem_filterMap]
    rintro ⟨g, ⟨x, hx, hxg⟩, hge⟩
    cases x <;> simp at hxg
    subst hxg
    have := hp _ hx
    simp only [stEid] at this
    nomega
  · -- imports
    rw [List.all_eq_true]
    intro r hr
    obtain ⟨hdef, hle, hch, hown⟩ := himp r hr
    cases r with
    | ctx vid fld ty =>
      simp only [definedIn, vertexVids, List.contains_eq_mem, decide_eq_true_eq] at hdef
      simp only [definedAt] at hle
      have hne : vid ≠ f.toVid := fun hc => F.sh.foldTo f hf (hc ▸ hdef)
      simp only [importWf, Bool.and_eq_true, Shape.vertex?_isSome hdef, true_and,
        Bool.not_eq_true', List.any_eq_false, beq_iff_eq, List.contains_eq_mem, decide_eq_true_eq]
      refine ⟨F.sh.recorded_before h hdef (by simp only [stTo]; nomega), ?_⟩
      intro x hx hk
      exact hch (List.mem_map.2 ⟨x, hx, hk⟩)
    | fcount eid rv =>
      simp only [definedIn, List.any_eq_true, Bool.and_eq_true, beq_iff_eq] at hdef
      obtain ⟨g, hg, hge, hgr⟩ := hdef
      simp only [definedAt] at hle
      simp only [importWf, Bool.and_eq_true, Bool.not_eq_true', List.any_eq_false, beq_iff_eq,
        List.contains_eq_mem, decide_eq_true_eq]
      refine ⟨?_, ?_⟩
      · rw [init_foldsDone]
        rcases F.folds_before h hg (by simp only [stTo]; rw [hgr]; exact hle) with hgp | hgp
        · simp only [List.mem_map, List.mem_filterMap]
          exact ⟨g, ⟨_, hgp, rfl⟩, hge⟩
        · exfalso
          injection hgp with hgf
          apply hown
          simp only [FieldRef.key]
          rw [← hge, hgf]
      · intro x hx hk
        exact hch (List.mem_map.2 ⟨x, hx, hk⟩)
  · -- post-filters
    apply F.postFilters_ok hf
    · intro v hvm hle
      have hne : v ≠ f.toVid := fun hc => F.sh.foldTo f hf (hc ▸ hvm)
      exact Or.inr (F.sh.recorded_before h hvm (by simp only [stTo]; nomega))
    · intro g hg hle
      rw [init_foldsDone]
      simp only [List.mem_append, List.mem_map, List.mem_filterMap, List.mem_singleton]
      rcases F.folds_before h hg (by simpa [stTo] using hle) with hgp | hgp
      · exact Or.inl ⟨g, ⟨_, hgp, rfl⟩, rfl⟩
      · injection hgp with hgf
        exact Or.inr (by rw [hgf])
  · -- fresh `folded_values` keys
    rw [List.all_eq_true]
    intro k hk
    simp only [Bool.not_eq_true', List.any_eq_false]
    intro k' hk' hkk
    simp only [Engine.keyEq, Bool.and_eq_true, beq_iff_eq] at hkk
    rw [init_foldsDone] at hk'
    have hnames := (List.nodup_append.1 F.ot.names).2.1
    have hfolds : c.folds = p.filterMap Stage.fold? ++ f :: rest.filterMap Stage.fold? := by
      rw [← F.sh.folds, h]; simp
    rw [hfolds, List.flatMap_append, List.flatMap_cons, List.map_append, List.map_append] at hnames
    have := (List.nodup_append.1 hnames).2.2 k'.2 (List.mem_map.2 ⟨k', hk', rfl⟩) k.2
      (List.mem_append_left _ (List.mem_map.2 ⟨k, hk, rfl⟩))
    exact this hkk.2.symm

theorem Facts.stagesWf_suffix : ∀ (rest p : List Stage), ss = p ++ rest →
    stagesWf vars c chain rest ((WState.init c.root).run p) = true
  | [], _, _ => rfl
  | s :: rest, p, h => by
    simp only [stagesWf, Bool.and_eq_true]
    constructor
    · cases s with
      | edge e => exact F.stageWf_edge h
      | fold f => exact F.stageWf_fold h
    · have : ((WState.init c.root).run p).after s = (WState.init c.root).run (p ++ [s]) := by
        rw [run_append]; rfl
      rw [this]
      exact Facts.stagesWf_suffix rest (p ++ [s]) (by rw [h]; simp)

theorem Facts.stagesOf_eq : stagesOf c = some ss := by
  unfold stagesOf
  have h := mergeStages_of_sorted ss (c.edges.length + c.folds.length) F.sh.sorted (by
    rw [← F.sh.edges, ← F.sh.folds, ← stEdge?_eq, ← stFold?_eq, length_filterMap_split]
    exact Nat.le_refl _)
  rw [stEdge?_eq, stFold?_eq, F.sh.edges, F.sh.folds] at h
  rw [h]

/-- The walk of one component. -/
theorem Facts.wfLocal : wfLocal vars chain c = true := by
  have hroot := F.sh.root_mem
  unfold Engine.wfLocal
  rw [F.stagesOf_eq]
  cases hv : c.vertex? c.root with
  | none => exact absurd hroot (Shape.vertex?_none hv)
  | some V =>
    obtain ⟨hV, hVv⟩ := Shape.vertex?_mem hv
    simp only [Bool.and_eq_true]
    refine ⟨⟨?_, F.stagesWf_suffix ss [] rfl⟩, ?_, ?_⟩
    · apply F.vertexFilters_ok hV
      · intro v hvm hle
        rw [hVv] at hle ⊢
        have := F.sh.root_le _ _ (Nat.le_refl _) hvm
        exact Or.inl (by nomega)
      · intro g hg hle
        exfalso
        rw [hVv] at hle
        have := F.sh.root_lt_to (F.sh.mem_fold.2 hg)
        simp only [stTo] at this
        nomega
    · rw [List.all_eq_true]
      intro o ho
      have hm := F.ot.outs o ho
      simp only [Bool.and_eq_true, Shape.vertex?_isSome hm, true_and, List.contains_eq_mem,
        decide_eq_true_eq]
      rw [init_recorded, F.sh.edges, ← F.sh.verts]
      exact hm
    · rw [distinctNames_iff, init_foldsDone, F.sh.folds]
      exact F.ot.names

end walk

/-! ### the condition on `@recurse` edges from the DFS shape -/

/-- `a` is `F` or a descendant of `F` along the edges `E` -/
inductive Desc (E : List IREdge) (F : Vid) : Vid → Prop
  | refl : Desc E F F
  | step {a : Vid} (e : IREdge) (he : e ∈ E) (hto : e.toVid = a) (h : Desc E F e.fromVid) : Desc E F a

/-- Between a vertex and a later child of it, only descendants of the vertex are expanded. -/
def Dfs (c : Component) (ss : List Stage) : Prop :=
  ∀ x ∈ ss, ∀ y ∈ ss, stFrom x < stTo y → stTo y < stTo x → Desc c.edges (stFrom x) (stFrom y)

theorem Desc.mono {E E' : List IREdge} {F a : Vid} (h : Desc E F a) (hsub : ∀ e ∈ E, e ∈ E') :
    Desc E' F a := by
  induction h with
  | refl => exact .refl
  | step e he hto _ ih => exact .step e (hsub e he) hto ih

theorem Desc.trans {E : List IREdge} {F G a : Vid} (h1 : Desc E F G) (h2 : Desc E G a) :
    Desc E F a := by
  induction h2 with
  | refl => exact h1
  | step e he hto _ ih => exact .step e he hto ih

theorem Desc.restrict {E E' : List IREdge} {F a : Vid} (h : Desc E F a)
    (hlt : ∀ e ∈ E, e.fromVid < e.toVid) (hsub : ∀ e ∈ E, e.toVid ≤ a → e ∈ E') :
    Desc E' F a := by
  induction h with
  | refl => exact .refl
  | step e he hto _ ih =>
    refine .step e (hsub e he (by nomega)) hto (ih ?_)
    intro e' he' hle
    have := hlt e he
    exact hsub e' he' (by nomega)

def cnt (E : List IREdge) (a : Vid) : Nat := E.countP fun e => decide (e.toVid ≤ a)

theorem cnt_le_length (E : List IREdge) (a : Vid) : cnt E a ≤ E.length := List.countP_le_length

theorem cnt_mono (E : List IREdge) {a b : Vid} (h : b ≤ a) : cnt E b ≤ cnt E a := by
  induction E with
  | nil => simp [cnt]
  | cons x xs ih =>
    simp only [cnt, List.countP_cons] at ih ⊢
    by_cases hx : x.toVid ≤ b
    · have : x.toVid ≤ a := by nomega
      simp only [hx, this, decide_true, if_true]; omega
    · simp only [hx, decide_false, Bool.false_eq_true, if_false]; split <;> omega

theorem cnt_lt (E : List IREdge) {e : IREdge} (he : e ∈ E) (hlt : e.fromVid < e.toVid) :
    cnt E e.fromVid < cnt E e.toVid := by
  induction E with
  | nil => cases he
  | cons x xs ih =>
    have hm := cnt_mono xs (Nat.le_of_lt hlt)
    simp only [cnt, List.countP_cons] at ih hm ⊢
    rcases List.mem_cons.1 he with rfl | he
    · have h1 : ¬ e.toVid ≤ e.fromVid := by nomega
      simp only [h1, decide_false, Bool.false_eq_true, if_false, Nat.le_refl, decide_true, if_true]
      omega
    · have := ih he
      by_cases hx : x.toVid ≤ e.fromVid
      · have : x.toVid ≤ e.toVid := by nomega
        simp only [hx, this, decide_true, if_true]; omega
      · simp only [hx, decide_false, Bool.false_eq_true, if_false]; split <;> omega

theorem ancOrSelf_self (E : List IREdge) (F : Vid) (k : Nat) : ancOrSelf E F k F = true := by
  cases k <;> simp [ancOrSelf]

theorem ancOrSelf_mono {E : List IREdge} {F : Vid} : ∀ {k k' : Nat} {a : Vid}, k ≤ k' →
    ancOrSelf E F k a = true → ancOrSelf E F k' a = true
  | 0, 0, _, _, h => h
  | 0, k' + 1, a, _, h => by
    simp only [ancOrSelf] at h
    simp only [ancOrSelf, h, Bool.true_or]
  | k + 1, 0, _, hk, _ => by omega
  | k + 1, k' + 1, a, hk, h => by
    simp only [ancOrSelf, Bool.or_eq_true, List.any_eq_true, Bool.and_eq_true] at h ⊢
    rcases h with h | ⟨e, he, h1, h2⟩
    · exact Or.inl h
    · exact Or.inr ⟨e, he, h1, ancOrSelf_mono (by omega) h2⟩

theorem ancOrSelf_of_desc {E : List IREdge} {F a : Vid} (hlt : ∀ e ∈ E, e.fromVid < e.toVid)
    (h : Desc E F a) : ancOrSelf E F (cnt E a) a = true := by
  induction h with
  | refl => exact ancOrSelf_self _ _ _
  | step e he hto _ ih =>
    subst hto
    have h1 := cnt_lt E he (hlt e he)
    obtain ⟨k, hk⟩ : ∃ k, cnt E e.toVid = k + 1 := ⟨cnt E e.toVid - 1, by omega⟩
    rw [hk]
    simp only [ancOrSelf, Bool.or_eq_true, List.any_eq_true, Bool.and_eq_true, beq_iff_eq]
    exact Or.inr ⟨e, he, rfl, ancOrSelf_mono (by omega) ih⟩

/-- the vertex a stage leaves active -/
def actOf : Stage → Vid
  | .edge e => e.toVid
  | .fold f => f.fromVid

theorem run_concat_active (st : WState) (p : List Stage) (y : Stage) :
    (st.run (p ++ [y])).active = actOf y := by
  rw [run_append]
  cases y <;> rfl

theorem list_nil_or_concat {α : Type} (l : List α) : l = [] ∨ ∃ l' b, l = l' ++ [b] := by
  induction l with
  | nil => exact Or.inl rfl
  | cons a rest ih =>
    right
    rcases ih with rfl | ⟨l', b, rfl⟩
    · exact ⟨[], a, rfl⟩
    · exact ⟨a :: l', b, rfl⟩

theorem mem_init_recorded {root : Vid} {p : List Stage} {v : Vid}
    (hv : v ∈ ((WState.init root).run p).recorded) :
    v = root ∨ ∃ e', Stage.edge e' ∈ p ∧ e'.toVid = v := by
  rw [init_recorded] at hv
  simp only [List.mem_cons, List.mem_map, List.mem_filterMap] at hv
  rcases hv with hv | ⟨e', ⟨x, hx, hxe⟩, he'⟩
  · exact Or.inl hv
  · right
    cases x with
    | edge ex =>
      simp only [Stage.edge?_edge, Option.some.injEq] at hxe
      exact ⟨ex, hx, by rw [hxe]; exact he'⟩
    | fold fx => simp at hxe

theorem recFact_of_dfs {c : Component} {ss : List Stage} (sh : Shape c ss) (d : Dfs c ss) :
    RecFact c ss := by
  intro p e rest h _
  have hsin : Stage.edge e ∈ ss := by rw [h]; simp
  have he : e ∈ c.edges := sh.mem_edge.1 hsin
  obtain ⟨t1, t2, t3⟩ := sh.stg _ hsin
  simp only [stFrom, stTo, stEid] at t1 t2 t3
  have hurec := sh.recorded_before h t3 (by simpa [stTo] using t2)
  have hlt : ∀ e' ∈ c.edges, e'.fromVid < e'.toVid := fun e' he' =>
    (sh.stg _ (sh.mem_edge.2 he')).2.1
  rw [init_edgesDone]
  rcases list_nil_or_concat p with rfl | ⟨p', y, rfl⟩
  · have : e.fromVid = c.root := by
      rw [init_recorded] at hurec; simpa using hurec
    simp only [List.filterMap_nil, List.length_nil, ancOrSelf, WState.run, List.foldl_nil,
      WState.init, beq_iff_eq]
    exact this.symm
  · rw [run_concat_active]
    have hyin : y ∈ ss := by rw [h]; simp
    have hylt : stEid y < e.eid := (sh.split_lt h).1 y (by simp)
    obtain ⟨u1, u2, u3⟩ := sh.stg y hyin
    have hyto : stTo y < e.toVid := by nomega
    -- the active vertex is a descendant-or-self of the source
    have h' : ss = p' ++ y :: (Stage.edge e :: rest) := by rw [h]; simp
    have hpre : ∀ x ∈ p', stEid x < stEid y := (sh.split_lt h').1
    have hdesc : Desc c.edges e.fromVid (actOf y) := by
      have hroot := sh.root_lt_to hyin
      -- every recorded vertex is the root or the destination of an earlier edge
      have hbound : e.fromVid = c.root ∨ (∃ e', Stage.edge e' ∈ p' ∧ e'.toVid = e.fromVid) ∨
          ∃ ey, y = Stage.edge ey ∧ ey.toVid = e.fromVid := by
        rcases mem_init_recorded hurec with hr | ⟨e', hx, he'⟩
        · exact Or.inl hr
        · rcases List.mem_append.1 hx with hx | hx
          · exact Or.inr (Or.inl ⟨e', hx, he'⟩)
          · simp only [List.mem_singleton] at hx
            exact Or.inr (Or.inr ⟨e', hx.symm, he'⟩)
      have hsmall : ∀ e', Stage.edge e' ∈ p' → e'.toVid < stTo y := by
        intro e' hx
        have hx' : Stage.edge e' ∈ ss := by rw [h']; simp [hx]
        have := sh.to_eq hx'
        have := hpre _ hx
        simp only [stTo, stEid] at *
        nomega
      cases y with
      | edge ey =>
        simp only [actOf, stTo, stFrom, stEid] at *
        have hey : ey ∈ c.edges := sh.mem_edge.1 hyin
        have hle : e.fromVid ≤ ey.toVid := by
          rcases hbound with hr | ⟨e', hx, he'⟩ | ⟨ey', hy', he'⟩
          · nomega
          · have := hsmall e' hx; nomega
          · injection hy' with hy'; rw [hy']; exact Nat.le_of_eq he'.symm
        by_cases heq : e.fromVid = ey.toVid
        · rw [heq]; exact .refl
        · have := d _ hsin _ hyin (by simp only [stFrom, stTo]; nomega) (by simpa [stTo] using hyto)
          simp only [stFrom] at this
          exact .step ey hey rfl this
      | fold fy =>
        simp only [actOf, stTo, stFrom, stEid] at *
        have hlt' : e.fromVid < fy.toVid := by
          rcases hbound with hr | ⟨e', hx, he'⟩ | ⟨ey', hy', he'⟩
          · nomega
          · have := hsmall e' hx; nomega
          · cases hy'
        have := d _ hsin _ hyin (by simpa [stFrom, stTo] using hlt') (by simpa [stTo] using hyto)
        simpa [stFrom] using this
    have hact : actOf y ≤ stTo y := by
      cases y with
      | edge ey => exact Nat.le_refl _
      | fold fy => simp only [actOf, stTo, stFrom] at *; nomega
    -- only edges already expanded are on the way
    have hres : Desc ((p' ++ [y]).filterMap Stage.edge?) e.fromVid (actOf y) := by
      refine hdesc.restrict hlt ?_
      intro e'' he'' hle
      have hes := sh.mem_edge.2 he''
      have hto'' := sh.to_eq hes
      simp only [stTo, stEid] at hto''
      rw [h, List.mem_append, List.mem_cons] at hes
      rcases hes with hes | hes | hes
      · exact List.mem_filterMap.2 ⟨_, hes, rfl⟩
      · injection hes with hes; subst hes; exfalso; nomega
      · have h5 : stEid (Stage.edge e) < e''.eid := (sh.split_lt h).2 _ hes
        simp only [stEid] at h5
        exfalso; nomega
    have hlt2 : ∀ e' ∈ (p' ++ [y]).filterMap Stage.edge?, e'.fromVid < e'.toVid := by
      intro e' he'
      obtain ⟨x, hx, hxe⟩ := List.mem_filterMap.1 he'
      cases x with
      | fold fx => simp at hxe
      | edge ex =>
        simp only [Stage.edge?_edge, Option.some.injEq] at hxe
        subst hxe
        exact hlt ex (sh.mem_edge.1 (by rw [h]; exact List.mem_append_left _ hx))
    exact ancOrSelf_mono (cnt_le_length _ _) (ancOrSelf_of_desc hlt2 hres)

end TF.Bridge
