/-
Helper lemmas for C10, frontend layer (2/3): the schema-view hypothesis, `make_edge_parameters`,
`get_recurse_implicit_coercion`, the `make_vertex` / edge loops, `make_query_component`'s second
half (`componentPost`), and the operations of `OutputHandler` / `ComponentPath`.
-/
import TrustfallModel.Proofs.FrontendBase
namespace TF.FE
open Res

/-- What the frontend relies on about a schema that `Schema::new` accepted (each item names the
check of `schema/mod.rs` that establishes it):
* every field's base type is a built-in scalar or a vertex type
  (`check_type_and_property_and_edge_invariants`, else `UnknownPropertyOrEdgeType`);
* no vertex type and no field is called `__typename` (`ReservedTypeName`, `ReservedFieldName`);
* the parameter names of a field are distinct — checked by `Schema::new` since the repair of N-5 /
  F-C10-5 (`DuplicateFieldParameterDefinition`; `Proofs/FrontendSchemaParse.lean`:
  `parse_accepts_paramsDistinct`); `paramDuplicate_witness` shows what happens without it (before
  the repair it was an assumption about the schema that `Schema::new` did not establish);
* the query type is a vertex type and all its fields are edges
  (`check_root_query_type_invariants`, `PropertyFieldOnRootQueryType`);
* every field of every type has a single origin, and the origin type has the field
  (`get_field_origins` + `check_ambiguous_field_origins`). -/
structure ValidSchemaView (S : SchemaView) : Prop where
  fieldTypes : ∀ t ∈ S.types, ∀ f ∈ t.fields,
    isBuiltinScalar f.ty.base = true ∨ S.isVertexType f.ty.base = true
  typenameFree : S.isVertexType TYPENAME = false
  fieldNames : ∀ t ∈ S.types, ∀ f ∈ t.fields, f.name ≠ TYPENAME
  paramsDistinct : ∀ t ∈ S.types, ∀ f ∈ t.fields, (f.params.map (·.name)).Nodup
  queryType : S.isVertexType S.queryType = true
  rootEdges : ∀ t ∈ S.types, t.name = S.queryType → ∀ f ∈ t.fields, S.isVertexType f.ty.base = true
  origins : ∀ t ∈ S.types, ∀ f ∈ t.fields,
    ∃ a, S.originOf S.types.length t.name f.name = [a] ∧ (S.field a f.name).isSome = true

theorem validSchemaViewB_sound {S : SchemaView} (h : validSchemaViewB S = true) :
    ValidSchemaView S := by
  unfold validSchemaViewB at h
  simp only [Bool.and_eq_true, List.all_eq_true, Bool.or_eq_true, decide_eq_true_eq,
    Bool.not_eq_eq_eq_not, Bool.not_true, bne_iff_ne, ne_eq] at h
  obtain ⟨⟨hall, htn⟩, hq⟩ := h
  refine ⟨?_, htn, ?_, ?_, hq, ?_, ?_⟩
  · intro t ht f hf; exact (hall t ht f hf).1.1.1.1
  · intro t ht f hf; exact (hall t ht f hf).1.1.1.2
  · intro t ht f hf; exact (hall t ht f hf).1.1.2
  · intro t ht hname f hf
    rcases (hall t ht f hf).2 with h | h
    · exact absurd hname (by simpa using h)
    · exact h
  · intro t ht f hf
    have := (hall t ht f hf).1.2
    split at this
    · rename_i a heq; exact ⟨a, heq, this⟩
    · cases this

/-- `S.field T name = some fd` unpacked. -/
theorem field_eq_some {S : SchemaView} {T name : String} {fd : FieldDef}
    (h : S.field T name = some fd) :
    ∃ t, S.vertexType T = some t ∧ t ∈ S.types ∧ t.name = T ∧
      t.fields.find? (fun f => f.name == name) = some fd ∧ fd ∈ t.fields ∧ fd.name = name := by
  unfold SchemaView.field at h
  split at h
  · rename_i t ht
    refine ⟨t, ht, ?_, ?_, h, List.mem_of_find?_eq_some h, ?_⟩
    · exact List.mem_of_find?_eq_some ht
    · have := List.find?_some ht; simpa using this
    · have := List.find?_some h; simpa using this
  · cases h

/-! ### `make_edge_parameters` -/

/- History: until the repair of N-2 / F-C10-2 `is_valid_value` hit `unimplemented!` on an enum literal
(`FTy.isValidValue … = none`), this section defined `FV.hasEnum` / `argsHaveEnum` ("some argument of
the field contains an enum literal"), proved `isValidValue_none : t.isValidValue v = none → v.hasEnum`
and showed that `make_edge_parameters` panics only at `.enumArgument` and only then (`EnumSite`); a
Boolean flag carried "an enum literal occurs below" up to `compile_enumArgument`.  The type check is
total now, so `make_edge_parameters` has no reachable panic site at all. -/

theorem edgeParametersLoop_sat (specified : List (String × FV)) (params : List ParamDef) :
    ∀ (names : List String) (errs : List FrontErr),
      (params.map (·.name)).Nodup → (∀ p ∈ params, p.name ∉ names) →
      Sat (fun _ => False) (edgeParametersLoop specified params names errs)
        (fun _ => True) := by
  induction params with
  | nil => intro names errs _ _; trivial
  | cons p rest ih =>
    intro names errs hnd hnot
    have hnd' : (rest.map (·.name)).Nodup := (List.nodup_cons.mp hnd).2
    have hp : p.name ∉ rest.map (·.name) := (List.nodup_cons.mp hnd).1
    unfold edgeParametersLoop
    refine Sat.bind (P := fun _ => True) ?_ fun r _ => ?_
    · split
      · split <;> trivial
      · split <;> trivial
    · split
      · split
        · rename_i hc
          exfalso
          exact hnot p (List.mem_cons_self ..) (by simpa using hc)
        · refine ih _ _ hnd' ?_
          intro q hq hmem
          rcases List.mem_append.mp hmem with h | h
          · exact hnot q (List.mem_cons_of_mem _ hq) h
          · simp at h
            exact hp (h ▸ List.mem_map_of_mem (f := (·.name)) hq)
      · exact ih _ _ hnd' fun q hq => hnot q (List.mem_cons_of_mem _ hq)

theorem makeEdgeParameters_sat (edgeDef : FieldDef) (specified : List (String × FV))
    (hnd : (edgeDef.params.map (·.name)).Nodup) :
    Sat (fun _ => False) (makeEdgeParameters edgeDef specified) (fun _ => True) := by
  unfold makeEdgeParameters
  exact Sat.bind (edgeParametersLoop_sat specified edgeDef.params [] [] hnd (by simp))
    fun _ _ => trivial

/-! ### `get_recurse_implicit_coercion` -/

theorem getRecurseImplicitCoercion_noPanic {S : SchemaView} (hS : ValidSchemaView S)
    {sourceType : String} {edgeDef : FieldDef} (h : S.field sourceType edgeDef.name = some edgeDef) :
    (getRecurseImplicitCoercion S sourceType edgeDef).NoPanic := by
  obtain ⟨t, _, ht, htn, _, hfd, _⟩ := field_eq_some h
  obtain ⟨a, horigin, hfield⟩ := hS.origins t ht edgeDef hfd
  rw [htn] at horigin
  intro s hs
  unfold getRecurseImplicitCoercion at hs
  dsimp only at hs
  split at hs
  · split at hs <;> cases hs
  · split at hs
    · cases hs
    · split at hs
      · split at hs <;> cases hs
      · rw [horigin] at hs
        simp only at hs
        split at hs
        · rename_i hnone
          rw [hnone] at hfield
          cases hfield
        · split at hs <;> cases hs

/-- `get_edge_definition_from_schema` finds what `schema.fields` has. -/
theorem getEdgeDefinition_of_field {S : SchemaView} {T name : String} {fd : FieldDef}
    (h : S.field T name = some fd) (site : Site) : getEdgeDefinition S T name site = .ok fd := by
  obtain ⟨t, ht, _, _, hfind, _, _⟩ := field_eq_some h
  simp [getEdgeDefinition, getVertexFieldDefinitions, ht, hfind]

/-! ### the loops of `make_query_component` -/

/-- The sites inputs can reach inside a component: those of the filters (N-6; F-12 is repaired).
(N-2, the enum-valued edge argument, was one more until its repair.) -/
def CompSite (s : Site) : Prop := FilterSite s

theorem verticesLoop_sat (S : SchemaView) (props : List PropRec) (vs : List VertexRec) :
    ∀ (st : St) (errs : List FrontErr) (done : List (Vid × String)) (uses : List (String × FTy)),
      st.Inv → (done.map (·.1) ++ vs.map (·.vid)).Nodup →
      Sat FilterSite (verticesLoop S props st errs done uses vs)
        (fun r => r.1.Inv ∧ St.TagOnly st r.1 ∧ ∃ more, r.2.1 = errs ++ more ∧
          (more = [] → r.2.2.1 = done ++ vs.map (fun v => (v.vid, v.postType)))) := by
  induction vs with
  | nil =>
    intro st errs done uses hinv _
    exact ⟨hinv, St.TagOnly.refl _, [], by simp, by simp⟩
  | cons v rest ih =>
    intro st errs done uses hinv hnd
    unfold verticesLoop
    refine Sat.bind (makeVertex_sat S props hinv v) fun r hr => ?_
    split
    · rename_i tn us hok
      have htn := hr.2.2.1 tn us hok
      split
      · rename_i hany
        exfalso
        simp only [List.map_cons] at hnd
        have := List.nodup_append.mp hnd
        simp only [List.any_eq_true, beq_iff_eq] at hany
        obtain ⟨d, hd, hdv⟩ := hany
        exact this.2.2 d.1 (List.mem_map_of_mem (f := (·.1)) hd) v.vid (List.mem_cons_self ..) hdv
      · have hnd' : ((done ++ [(v.vid, tn)]).map (·.1) ++ rest.map (·.vid)).Nodup := by
          simpa [List.append_assoc] using hnd
        refine (ih _ errs _ _ hr.1 hnd').mono fun r' h => ⟨h.1, hr.2.1.trans h.2.1, ?_⟩
        obtain ⟨more, hm, hdone⟩ := h.2.2
        refine ⟨more, hm, fun h0 => ?_⟩
        rw [hdone h0, htn]
        simp
    · rename_i es herr
      have hes := hr.2.2.2 es herr
      have hnd' : (done.map (·.1) ++ rest.map (·.vid)).Nodup := by
        simp only [List.map_cons] at hnd
        have := List.nodup_append.mp hnd
        refine List.nodup_append.mpr ⟨this.1, (List.nodup_cons.mp this.2.1).2, ?_⟩
        intro a ha b hb
        exact this.2.2 a ha b (List.mem_cons_of_mem _ hb)
      refine (ih _ (errs ++ es) _ _ hr.1 hnd').mono fun r' h => ⟨h.1, hr.2.1.trans h.2.1, ?_⟩
      obtain ⟨more, hm, _⟩ := h.2.2
      refine ⟨es ++ more, by simp [hm], fun h0 => ?_⟩
      exfalso
      exact hes (List.append_eq_nil_iff.mp h0).1

/-- What `make_query_component`'s edge loop needs to know about a recorded edge: its source
vertex is among the component's vertices, and that vertex's type has the edge. -/
def EdgeOk (S : SchemaView) (irVertices : List (Vid × String)) (e : EdgeRec) : Prop :=
  ∃ T fd, irVertices.find? (·.1 == e.fromVid) = some (e.fromVid, T) ∧
    S.field T e.conn.name = some fd

theorem edgesLoop_sat {S : SchemaView} (hS : ValidSchemaView S) (irVertices : List (Vid × String))
    (es : List EdgeRec) :
    ∀ (errs : List FrontErr), (∀ e ∈ es, EdgeOk S irVertices e) →
      Sat (fun _ => False) (edgesLoop S irVertices errs es) (fun _ => True) := by
  induction es with
  | nil => intro errs _; trivial
  | cons e rest ih =>
    intro errs hok
    obtain ⟨T, fd, hfind, hfield⟩ := hok e (List.mem_cons_self ..)
    obtain ⟨t, _, ht, _, _, hfd, hname⟩ := field_eq_some hfield
    unfold edgesLoop
    rw [hfind]
    simp only [getEdgeDefinition_of_field hfield, bind_ok]
    refine Sat.bind (makeEdgeParameters_sat fd _ (hS.paramsDistinct t ht fd hfd)) fun _ _ => ?_
    refine Sat.bind (P := fun _ => True) ?_ fun _ _ =>
      (ih _ fun e' he' => hok e' (List.mem_cons_of_mem _ he'))
    split
    · trivial
    · refine Sat.of_noPanic (getRecurseImplicitCoercion_noPanic hS ?_)
      rw [hname]; exact hfield


/-! ### `OutputHandler`, `ComponentPath`, `TagHandler` operations -/

/-- How the handler state may have evolved over a sub-traversal; `exact` says that it reported
no error, in which case the component path and the output-map stack are back where they were
(after an error inside a `@fold` they keep the stale entries that `make_fold`'s `?` left). -/
structure St.Step (st st' : St) (exact : Prop) : Prop where
  inv : st'.Inv
  vidStack : st'.vidStack = st.vidStack
  nextVid : st.nextVid ≤ st'.nextVid
  nextEid : st.nextEid ≤ st'.nextEid
  path : ∃ ext, st'.path = st.path ++ ext ∧ (exact → ext = [])
  outLen : st.outStack.length ≤ st'.outStack.length
  outLenExact : exact → st'.outStack.length = st.outStack.length
  prefixes : ∀ p ∈ st.prefixes, p ∈ st'.prefixes

theorem St.Step.refl {st : St} (h : st.Inv) (p : Prop) : St.Step st st p :=
  ⟨h, rfl, Nat.le_refl _, Nat.le_refl _, ⟨[], by simp, fun _ => rfl⟩, Nat.le_refl _, fun _ => rfl,
   fun _ h => h⟩

theorem St.Step.trans {a b c : St} {p q r : Prop} (h1 : St.Step a b p) (h2 : St.Step b c q)
    (hr : r → p ∧ q) : St.Step a c r := by
  obtain ⟨e1, hp1, hx1⟩ := h1.path
  obtain ⟨e2, hp2, hx2⟩ := h2.path
  refine ⟨h2.inv, h2.vidStack.trans h1.vidStack, Nat.le_trans h1.nextVid h2.nextVid,
    Nat.le_trans h1.nextEid h2.nextEid, ⟨e1 ++ e2, by rw [hp2, hp1, List.append_assoc], ?_⟩,
    Nat.le_trans h1.outLen h2.outLen, ?_, fun x hx => h2.prefixes x (h1.prefixes x hx)⟩
  · intro h; rw [hx1 (hr h).1, hx2 (hr h).2]; rfl
  · intro h; rw [h2.outLenExact (hr h).2, h1.outLenExact (hr h).1]

theorem St.Step.weaken {a b : St} {p q : Prop} (h : St.Step a b p) (hq : q → p) : St.Step a b q :=
  ⟨h.inv, h.vidStack, h.nextVid, h.nextEid,
   (by obtain ⟨e, he, hx⟩ := h.path; exact ⟨e, he, fun x => hx (hq x)⟩),
   h.outLen, fun x => h.outLenExact (hq x), h.prefixes⟩

theorem St.Step.of_tagOnly {a b : St} (hinv : b.Inv) (h : St.TagOnly a b) (p : Prop) :
    St.Step a b p :=
  ⟨hinv, h.vidStack, Nat.le_of_eq h.nextVid.symm, Nat.le_of_eq h.nextEid.symm,
   ⟨[], by simp [h.path], fun _ => rfl⟩, Nat.le_of_eq (by rw [h.outStack]),
   fun _ => by rw [h.outStack], fun x hx => by rw [h.prefixes]; exact hx⟩

theorem registerTag_inv {st : St} (h : st.Inv) (name : String) (f : FieldRefM) :
    (st.registerTag name f).1.Inv ∧ St.Step st (st.registerTag name f).1 True ∧
    (st.registerTag name f).1.globalOutputs = st.globalOutputs ∧
    (st.registerTag name f).1.outStack = st.outStack := by
  unfold St.registerTag
  split
  · exact ⟨h, St.Step.refl h _, rfl, rfl⟩
  · have hinv : St.Inv { st with tags := st.tags ++ [⟨name, f, st.path⟩] } :=
      ⟨h.path_ne, h.imported_keys, by
        intro e he
        rcases List.mem_append.mp he with he | he
        · exact h.tags_path_ne e he
        · simp at he; subst he; exact h.path_ne,
       h.prefixes_lt, h.stack_prefixed⟩
    exact ⟨hinv, ⟨hinv, rfl, Nat.le_refl _, Nat.le_refl _, ⟨[], by simp, fun _ => rfl⟩,
      Nat.le_refl _, fun _ => rfl, fun _ hx => hx⟩, rfl, rfl⟩

theorem outputPrefix_noPanic (prefixes : List (Vid × Option String)) (stack : List Vid)
    (h : ∀ v ∈ stack, ∃ p ∈ prefixes, p.1 = v) : (St.outputPrefix prefixes stack).NoPanic := by
  induction stack with
  | nil => simp [St.outputPrefix]
  | cons v rest ih =>
    unfold St.outputPrefix
    split
    · rename_i hnone
      exfalso
      obtain ⟨p, hp, hpv⟩ := h v (List.mem_cons_self ..)
      rw [List.find?_eq_none] at hnone
      exact hnone p hp (by simp [hpv])
    · exact noPanic_bind (ih fun w hw => h w (List.mem_cons_of_mem _ hw)) fun _ _ => by simp

/-- The top of `component_outputs_stack`: the output map of the component being built. -/
def St.topMap (st : St) : List (String × FieldRefM) := st.outStack.getLast?.getD []

/-- Between `st` and `st'` only the top output map changed, and every entry added to it refers
to a field satisfying `P`. -/
def TopNew (st st' : St) (P : FieldRefM → Prop) : Prop :=
  st'.outStack.dropLast = st.outStack.dropLast ∧ ∀ o ∈ st'.topMap, o ∈ st.topMap ∨ P o.2

theorem TopNew.of_eq {st st' : St} (h : st'.outStack = st.outStack) (P : FieldRefM → Prop) :
    TopNew st st' P := ⟨by rw [h], fun o ho => Or.inl (by simpa [St.topMap, h] using ho)⟩

theorem TopNew.refl (st : St) (P : FieldRefM → Prop) : TopNew st st P := TopNew.of_eq rfl P

theorem TopNew.trans {a b c : St} {P Q R : FieldRefM → Prop} (h1 : TopNew a b P) (h2 : TopNew b c Q)
    (hp : ∀ f, P f → R f) (hq : ∀ f, Q f → R f) : TopNew a c R := by
  refine ⟨h2.1.trans h1.1, fun o ho => ?_⟩
  rcases h2.2 o ho with h | h
  · rcases h1.2 o h with h' | h'
    · exact Or.inl h'
    · exact Or.inr (hp _ h')
  · exact Or.inr (hq _ h)

/-- The effect of registering one output. -/
structure St.Registered (st st' : St) (ref : FieldRefM) : Prop where
  inv : st'.Inv
  step : St.Step st st' True
  outLen : st'.outStack.length = st.outStack.length
  outputs : ∃ n, st'.globalOutputs = st.globalOutputs ++ [(n, ref)]
  top : TopNew st st' (· = ref)

theorem registerOutput_sat {st : St} (h : st.Inv) (hout : 0 < st.outStack.length) (name : String)
    (ref : FieldRefM) :
    Sat (fun _ => False) (st.registerOutput name ref) (fun st' => St.Registered st st' ref) := by
  unfold St.registerOutput
  split
  · rename_i hnone
    rw [List.getLast?_eq_none_iff] at hnone
    simp [hnone] at hout
  · rename_i top _
    have hlen : (st.outStack.dropLast ++ [top ++ [(name, ref)]]).length = st.outStack.length := by
      simp; omega
    have hinv : St.Inv { st with outStack := st.outStack.dropLast ++ [top ++ [(name, ref)]],
                                 globalOutputs := st.globalOutputs ++ [(name, ref)] } :=
      ⟨h.path_ne, h.imported_keys, h.tags_path_ne, h.prefixes_lt, h.stack_prefixed⟩
    refine ⟨hinv, ⟨hinv, rfl, Nat.le_refl _, Nat.le_refl _, ⟨[], by simp, fun _ => rfl⟩,
      Nat.le_of_eq hlen.symm, fun _ => hlen, fun _ hx => hx⟩, hlen, ⟨name, rfl⟩, ?_, ?_⟩
    · show (st.outStack.dropLast ++ [top ++ [(name, ref)]]).dropLast = st.outStack.dropLast
      simp
    · intro o ho
      have htop : st.topMap = top := by
        rename_i htop'
        simp [St.topMap, htop']
      have : o ∈ top ++ [(name, ref)] := by
        simpa [St.topMap] using ho
      rcases List.mem_append.mp this with h | h
      · exact Or.inl (htop ▸ h)
      · simp at h; subst h; exact Or.inr rfl

theorem registerLocalOutput_sat {st : St} (h : st.Inv) (hout : 0 < st.outStack.length)
    (localName suffix : String) (ref : FieldRefM) :
    Sat (fun _ => False) (st.registerLocalOutput localName suffix ref)
      (fun r => St.Registered st r.1 ref) := by
  unfold St.registerLocalOutput
  refine Sat.bind (Sat.of_noPanic (outputPrefix_noPanic _ _ h.stack_prefixed)) fun pfx _ => ?_
  exact Sat.bind (registerOutput_sat h hout _ ref) fun st' hst' => hst'

theorem St.Registered.trans_step {a b c : St} {r : FieldRefM} {p : Prop}
    (h1 : St.Registered a b r) (h2 : St.Step b c p) : St.Step a c p :=
  St.Step.trans h1.step h2 (fun x => ⟨trivial, x⟩)

theorem beginNestedScope_sat {st : St} (h : st.Inv) (v : Vid) (pfx : Option String)
    (hv : v < st.nextVid) (hfresh : ∀ p ∈ st.prefixes, p.1 < v) :
    ∃ st', st.beginNestedScope v pfx = .ok st' ∧ st'.Inv ∧ st'.vidStack = st.vidStack ++ [v] ∧
      st'.prefixes = st.prefixes ++ [(v, pfx)] ∧ st'.path = st.path ∧ st'.outStack = st.outStack ∧
      st'.nextVid = st.nextVid ∧ st'.nextEid = st.nextEid ∧
      st'.globalOutputs = st.globalOutputs ∧ st'.imported = st.imported ∧ st'.tags = st.tags := by
  unfold St.beginNestedScope
  have hnot : st.prefixes.any (·.1 == v) = false := by
    rw [List.any_eq_false]
    intro p hp
    intro heq
    have h1 := hfresh p hp
    have h2 : p.1 = v := by simpa using heq
    exact absurd h2 (Nat.ne_of_lt h1)
  rw [hnot]
  refine ⟨_, rfl, ⟨h.path_ne, h.imported_keys, h.tags_path_ne, ?_, ?_⟩, rfl, rfl, rfl, rfl, rfl,
    rfl, rfl, rfl, rfl⟩
  · intro p hp
    rcases List.mem_append.mp hp with hp | hp
    · exact h.prefixes_lt p hp
    · simp at hp; subst hp; exact hv
  · intro w hw
    rcases List.mem_append.mp hw with hw | hw
    · obtain ⟨p, hp, hpw⟩ := h.stack_prefixed w hw
      exact ⟨p, List.mem_append_left _ hp, hpw⟩
    · simp at hw; subst hw
      exact ⟨(w, pfx), List.mem_append_right _ (by simp), rfl⟩

theorem endNestedScope_ok {st : St} (h : st.Inv) {base : List Vid} {v : Vid}
    (hs : st.vidStack = base ++ [v]) (hbase : ∀ w ∈ base, ∃ p ∈ st.prefixes, p.1 = w) :
    ∃ st', st.endNestedScope v = .ok st' ∧ st'.Inv ∧ st'.vidStack = base ∧
      st'.prefixes = st.prefixes ∧ st'.path = st.path ∧ st'.outStack = st.outStack ∧
      st'.nextVid = st.nextVid ∧ st'.nextEid = st.nextEid ∧
      st'.globalOutputs = st.globalOutputs := by
  unfold St.endNestedScope
  simp only [hs, List.getLast?_append, List.getLast?_singleton, Option.some_or]
  simp only [bne_self_eq_false, Bool.false_eq_true, ↓reduceIte, List.dropLast_concat]
  exact ⟨_, rfl, ⟨h.path_ne, h.imported_keys, h.tags_path_ne, h.prefixes_lt, hbase⟩, rfl, rfl, rfl,
    rfl, rfl, rfl, rfl⟩

theorem foldEnter_inv {st : St} (h : st.Inv) (v : Vid) :
    (foldEnter st v).Inv ∧ (foldEnter st v).path = st.path ++ [v] ∧
    (foldEnter st v).outStack = st.outStack ++ [[]] ∧ (foldEnter st v).vidStack = st.vidStack ∧
    (foldEnter st v).nextVid = st.nextVid ∧ (foldEnter st v).nextEid = st.nextEid ∧
    (foldEnter st v).prefixes = st.prefixes ∧ (foldEnter st v).globalOutputs = st.globalOutputs := by
  refine ⟨⟨?_, ?_, h.tags_path_ne, h.prefixes_lt, h.stack_prefixed⟩, rfl, rfl, rfl, rfl, rfl, rfl,
    rfl⟩
  · simp [foldEnter, St.pathPush, St.tagsBeginSubcomponent, St.outputsBeginSubcomponent]
  · show (st.imported ++ [(v, [])]).map (fun (x : Vid × List FieldRefM) => x.1) = (st.path ++ [v]).tail
    rw [List.map_append, h.imported_keys]
    cases hp : st.path with
    | nil => exact absurd hp h.path_ne
    | cons a rest => simp

/-- `component_path.pop(v)` followed by `tags.end_subcomponent(v)` (mod.rs:1097–1098) when the
path ends with `v`. -/
theorem popFold_ok {st : St} (h : st.Inv) {base : List Vid} {v : Vid} (hp : st.path = base ++ [v])
    (hb : base ≠ []) :
    ∃ st1 st2 ext, st.pathPop v = .ok st1 ∧ st1.tagsEndSubcomponent v = .ok (st2, ext) ∧
      st2.Inv ∧ st2.path = base ∧ st2.vidStack = st.vidStack ∧ st2.outStack = st.outStack ∧
      st2.nextVid = st.nextVid ∧ st2.nextEid = st.nextEid ∧ st2.prefixes = st.prefixes ∧
      st2.globalOutputs = st.globalOutputs := by
  have hkeys := h.imported_keys
  rw [hp] at hkeys
  have htail : (base ++ [v]).tail = base.tail ++ [v] := by
    cases base with
    | nil => exact absurd rfl hb
    | cons a rest => simp
  rw [htail] at hkeys
  -- the last imported entry is keyed by `v`
  have hlast : ∃ init refs, st.imported = init ++ [(v, refs)] ∧ init.map (·.1) = base.tail := by
    cases hi : st.imported.reverse with
    | nil =>
      have : st.imported = [] := by simpa using hi
      rw [this] at hkeys; simp at hkeys
    | cons x xs =>
      have himp : st.imported = xs.reverse ++ [x] := by
        have := congrArg List.reverse hi; simpa using this
      rw [himp, List.map_append] at hkeys
      have := List.append_inj' hkeys (by simp)
      obtain ⟨h1, h2⟩ := this
      simp at h2
      exact ⟨xs.reverse, x.2, by rw [himp]; congr 2; exact Prod.ext h2 rfl, h1⟩
  obtain ⟨init, refs, himp, hinit⟩ := hlast
  refine ⟨{ st with path := base }, { st with path := base, imported := init }, refs, ?_, ?_,
    ⟨hb, hinit, h.tags_path_ne, h.prefixes_lt, h.stack_prefixed⟩, rfl, rfl, rfl, rfl, rfl, rfl, rfl⟩
  · unfold St.pathPop
    simp [hp]
  · unfold St.tagsEndSubcomponent
    simp [himp]

end TF.FE
