/-
Helper lemmas for C10, frontend layer (2/3): the schema-view hypothesis, `make_edge_parameters`,
`get_recurse_implicit_coercion`, the `make_vertex` / edge loops, `make_query_component`'s second
half (`componentPost`), and the operations of `OutputHandler` / `ComponentPath`.
-/
import TrustfallModel.Proofs.FrontendBase
namespace TF.FE
open Res

/-- What the frontend relies on about a schema that `Schema::new` accepted (each item names the
check of `schema/mod.rs` that establishes it):
* every field's base type is a built-in scalar or a vertex type
  (`check_type_and_property_and_edge_invariants`, else `UnknownPropertyOrEdgeType`);
* no vertex type is called `__typename` (`ReservedTypeName`);
* the parameter names of a field are distinct — **not checked by `Schema::new`** (N-5): it is an
  assumption about the schema, and `paramDuplicate_witness` shows what happens without it;
* the query type is a vertex type and all its fields are edges
  (`check_root_query_type_invariants`, `PropertyFieldOnRootQueryType`);
* every field of every type has a single origin, and the origin type has the field
  (`get_field_origins` + `check_ambiguous_field_origins`). -/
structure ValidSchemaView (S : SchemaView) : Prop where
  fieldTypes : ∀ t ∈ S.types, ∀ f ∈ t.fields,
    isBuiltinScalar f.ty.base = true ∨ S.isVertexType f.ty.base = true
  typenameFree : S.isVertexType TYPENAME = false
  paramsDistinct : ∀ t ∈ S.types, ∀ f ∈ t.fields, (f.params.map (·.name)).Nodup
  queryType : S.isVertexType S.queryType = true
  rootEdges : ∀ t ∈ S.types, t.name = S.queryType → ∀ f ∈ t.fields, S.isVertexType f.ty.base = true
  origins : ∀ t ∈ S.types, ∀ f ∈ t.fields,
    ∃ a, S.originOf S.types.length t.name f.name = [a] ∧ (S.field a f.name).isSome = true

/-- The executable form of `ValidSchemaView` (used by the driver's `view-valid` request and by
`decide` on concrete schemas). -/
def validSchemaViewB (S : SchemaView) : Bool :=
  S.types.all (fun t => t.fields.all (fun f =>
    (isBuiltinScalar f.ty.base || S.isVertexType f.ty.base) &&
    decide (f.params.map (·.name)).Nodup &&
    (match S.originOf S.types.length t.name f.name with
     | [a] => (S.field a f.name).isSome
     | _ => false) &&
    (t.name != S.queryType || S.isVertexType f.ty.base))) &&
  !S.isVertexType TYPENAME && S.isVertexType S.queryType

theorem validSchemaViewB_sound {S : SchemaView} (h : validSchemaViewB S = true) :
    ValidSchemaView S := by
  unfold validSchemaViewB at h
  simp only [Bool.and_eq_true, List.all_eq_true, Bool.or_eq_true, decide_eq_true_eq,
    Bool.not_eq_eq_eq_not, Bool.not_true, bne_iff_ne, ne_eq] at h
  obtain ⟨⟨hall, htn⟩, hq⟩ := h
  refine ⟨?_, htn, ?_, hq, ?_, ?_⟩
  · intro t ht f hf; exact (hall t ht f hf).1.1.1
  · intro t ht f hf; exact (hall t ht f hf).1.1.2
  · intro t ht hname f hf
    rcases (hall t ht f hf).2 with h | h
    · exact absurd hname (by simpa using h)
    · exact h
  · intro t ht f hf
    have := (hall t ht f hf).1.2
    split at this
    · rename_i a heq; exact ⟨a, heq, this⟩
    · cases this

/-- `S.field T name = some fd` unpacked. -/
theorem field_eq_some {S : SchemaView} {T name : String} {fd : FieldDef}
    (h : S.field T name = some fd) :
    ∃ t, S.vertexType T = some t ∧ t ∈ S.types ∧ t.name = T ∧
      t.fields.find? (fun f => f.name == name) = some fd ∧ fd ∈ t.fields ∧ fd.name = name := by
  unfold SchemaView.field at h
  split at h
  · rename_i t ht
    refine ⟨t, ht, ?_, ?_, h, List.mem_of_find?_eq_some h, ?_⟩
    · exact List.mem_of_find?_eq_some ht
    · have := List.find?_some ht; simpa using this
    · have := List.find?_some h; simpa using this
  · cases h

/-! ### `make_edge_parameters` -/

theorem edgeParametersLoop_sat (specified : List (String × FV)) (params : List ParamDef) :
    ∀ (names : List String) (errs : List FrontErr),
      (params.map (·.name)).Nodup → (∀ p ∈ params, p.name ∉ names) →
      Sat (fun s => s = .enumArgument) (edgeParametersLoop specified params names errs)
        (fun _ => True) := by
  induction params with
  | nil => intro names errs _ _; trivial
  | cons p rest ih =>
    intro names errs hnd hnot
    have hnd' : (rest.map (·.name)).Nodup := (List.nodup_cons.mp hnd).2
    have hp : p.name ∉ rest.map (·.name) := (List.nodup_cons.mp hnd).1
    unfold edgeParametersLoop
    refine Sat.bind (P := fun _ => True) ?_ fun r _ => ?_
      split
      · split <;> trivial
      · split
        · exact rfl
        · trivial
        · trivial
    · split
      · split
        · rename_i hc
          exfalso
          exact hnot p (List.mem_cons_self ..) (by simpa using hc)
        · refine ih _ _ hnd' ?_
          intro q hq hmem
          rcases List.mem_append.mp hmem with h | h
          · exact hnot q (List.mem_cons_of_mem _ hq) h
          · simp at h
            exact hp (h ▸ List.mem_map_of_mem (f := (·.name)) hq)
      · exact ih _ _ hnd' fun q hq => hnot q (List.mem_cons_of_mem _ hq)

theorem makeEdgeParameters_sat (edgeDef : FieldDef) (specified : List (String × FV))
    (hnd : (edgeDef.params.map (·.name)).Nodup) :
    Sat (fun s => s = .enumArgument) (makeEdgeParameters edgeDef specified) (fun _ => True) := by
  unfold makeEdgeParameters
  exact Sat.bind (edgeParametersLoop_sat specified edgeDef.params [] [] hnd (by simp))
    fun _ _ => trivial

/-! ### `get_recurse_implicit_coercion` -/

theorem getRecurseImplicitCoercion_noPanic {S : SchemaView} (hS : ValidSchemaView S)
    {sourceType : String} {edgeDef : FieldDef} (h : S.field sourceType edgeDef.name = some edgeDef) :
    (getRecurseImplicitCoercion S sourceType edgeDef).NoPanic := by
  obtain ⟨t, _, ht, htn, _, hfd, _⟩ := field_eq_some h
  obtain ⟨a, horigin, hfield⟩ := hS.origins t ht edgeDef hfd
  rw [htn] at horigin
  intro s hs
  unfold getRecurseImplicitCoercion at hs
  dsimp only at hs
  split at hs
  · split at hs <;> cases hs
  · split at hs
    · cases hs
    · split at hs
      · split at hs <;> cases hs
      · rw [horigin] at hs
        simp only at hs
        split at hs
        · rename_i hnone
          rw [hnone] at hfield
          cases hfield
        · split at hs <;> cases hs

/-- `get_edge_definition_from_schema` finds what `schema.fields` has. -/
theorem getEdgeDefinition_of_field {S : SchemaView} {T name : String} {fd : FieldDef}
    (h : S.field T name = some fd) (site : Site) : getEdgeDefinition S T name site = .ok fd := by
  obtain ⟨t, ht, _, _, hfind, _, _⟩ := field_eq_some h
  simp [getEdgeDefinition, getVertexFieldDefinitions, ht, hfind]

/-! ### the loops of `make_query_component` -/

/-- The sites inputs can reach inside a component: F-12, N-6 (filters), N-2 (edge arguments). -/
def CompSite (s : Site) : Prop := FilterSite s ∨ s = .enumArgument

theorem verticesLoop_sat (S : SchemaView) (props : List PropRec) (vs : List VertexRec) :
    ∀ (st : St) (errs : List FrontErr) (done : List (Vid × String)) (uses : List (String × FTy)),
      st.Inv → (done.map (·.1) ++ vs.map (·.vid)).Nodup →
      Sat FilterSite (verticesLoop S props st errs done uses vs)
        (fun r => r.1.Inv ∧ St.TagOnly st r.1 ∧ ∃ more, r.2.1 = errs ++ more ∧
          (more = [] → r.2.2.1 = done ++ vs.map (fun v => (v.vid, v.postType)))) := by
  induction vs with
  | nil =>
    intro st errs done uses hinv _
    exact ⟨hinv, St.TagOnly.refl _, [], by simp, by simp⟩
  | cons v rest ih =>
    intro st errs done uses hinv hnd
    unfold verticesLoop
    refine Sat.bind (makeVertex_sat S props hinv v) fun r hr => ?_
    split
    · rename_i tn us hok
      have htn := hr.2.2.1 tn us hok
      split
      · rename_i hany
        exfalso
        simp only [List.map_cons] at hnd
        have := List.nodup_append.mp hnd
        simp only [List.any_eq_true, beq_iff_eq] at hany
        obtain ⟨d, hd, hdv⟩ := hany
        exact this.2.2 d.1 (List.mem_map_of_mem (f := (·.1)) hd) v.vid (List.mem_cons_self ..) hdv
      · have hnd' : ((done ++ [(v.vid, tn)]).map (·.1) ++ rest.map (·.vid)).Nodup := by
          simpa [List.append_assoc] using hnd
        refine (ih _ errs _ _ hr.1 hnd').mono fun r' h => ⟨h.1, hr.2.1.trans h.2.1, ?_⟩
        obtain ⟨more, hm, hdone⟩ := h.2.2
        refine ⟨more, hm, fun h0 => ?_⟩
        rw [hdone h0, htn]
        simp
    · rename_i es herr
      have hes := hr.2.2.2 es herr
      have hnd' : (done.map (·.1) ++ rest.map (·.vid)).Nodup := by
        simp only [List.map_cons] at hnd
        have := List.nodup_append.mp hnd
        refine List.nodup_append.mpr ⟨this.1, (List.nodup_cons.mp this.2.1).2, ?_⟩
        intro a ha b hb
        exact this.2.2 a ha b (List.mem_cons_of_mem _ hb)
      refine (ih _ (errs ++ es) _ _ hr.1 hnd').mono fun r' h => ⟨h.1, hr.2.1.trans h.2.1, ?_⟩
      obtain ⟨more, hm, _⟩ := h.2.2
      refine ⟨es ++ more, by simp [hm], fun h0 => ?_⟩
      exfalso
      exact hes (List.append_eq_nil_iff.mp h0).1

/-- What `make_query_component`'s edge loop needs to know about a recorded edge: its source
vertex is among the component's vertices, and that vertex's type has the edge. -/
def EdgeOk (S : SchemaView) (irVertices : List (Vid × String)) (e : EdgeRec) : Prop :=
  ∃ T fd, irVertices.find? (·.1 == e.fromVid) = some (e.fromVid, T) ∧
    S.field T e.conn.name = some fd

theorem edgesLoop_sat {S : SchemaView} (hS : ValidSchemaView S) (irVertices : List (Vid × String))
    (es : List EdgeRec) :
    ∀ (errs : List FrontErr), (∀ e ∈ es, EdgeOk S irVertices e) →
      Sat (fun s => s = .enumArgument) (edgesLoop S irVertices errs es) (fun _ => True) := by
  induction es with
  | nil => intro errs _; trivial
  | cons e rest ih =>
    intro errs hok
    obtain ⟨T, fd, hfind, hfield⟩ := hok e (List.mem_cons_self ..)
    obtain ⟨t, _, ht, _, _, hfd, hname⟩ := field_eq_some hfield
    unfold edgesLoop
    rw [hfind]
    simp only [getEdgeDefinition_of_field hfield, bind_ok]
    refine Sat.bind (makeEdgeParameters_sat fd _ (hS.paramsDistinct t ht fd hfd)) fun _ _ => ?_
    refine Sat.bind (P := fun _ => True) ?_ fun _ _ => ih _ fun e' he' => hok e' (List.mem_cons_of_mem _ he')
    split
    · trivial
    · refine Sat.of_noPanic (getRecurseImplicitCoercion_noPanic hS ?_)
      rw [hname]; exact hfield

end TF.FE
