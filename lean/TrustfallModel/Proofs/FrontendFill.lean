/-
Helper lemmas for C10, frontend layer (3/3): `make_query_component`, `make_fold`, the property
branch, and the induction over the query tree (`fill_in_vertex_data`).
-/
import TrustfallModel.Proofs.FrontendComp
namespace TF.FE
open Res

/-- All Vids of a component under construction: its own vertices and those of its finished folds. -/
def cdVids (cd : CD) : List Vid := cd.vertices.map (·.vid) ++ collectVidsFolds cd.folds

/-- `get_field_name_and_type_from_schema`'s type for a property of a vertex of type `T`. -/
def propType (S : SchemaView) (T name : String) : Option FTy :=
  if name == TYPENAME then some (FTy.named "String" false) else (S.field T name).map (·.ty)

/-- Invariant of the maps local to one `make_query_component` call. -/
structure CD.Inv (S : SchemaView) (st : St) (cd : CD) : Prop where
  nodup : (cd.vertices.map (·.vid)).Nodup
  vidsLt : ∀ v ∈ cd.vertices, v.vid < st.nextVid
  eidsLt : ∀ e ∈ cd.edges, e.eid < st.nextEid
  edgesOk : ∀ e ∈ cd.edges, ∃ v ∈ cd.vertices, v.vid = e.fromVid ∧
    ∃ fd, S.field v.postType e.conn.name = some fd
  propsOk : ∀ p ∈ cd.props, ∃ v ∈ cd.vertices, v.vid = p.vid ∧
    propType S v.postType p.name = some p.ty

theorem find?_of_nodup_key {α : Type} (key : α → Vid) (l : List α) (hnd : (l.map key).Nodup)
    {a : α} (ha : a ∈ l) : l.find? (fun x => key x == key a) = some a := by
  induction l with
  | nil => cases ha
  | cons x rest ih =>
    simp only [List.map_cons, List.nodup_cons] at hnd
    rcases List.mem_cons.mp ha with h | h
    · subst h; simp
    · have hne : key x ≠ key a := by
        intro heq
        exact hnd.1 (heq ▸ List.mem_map_of_mem (f := key) h)
      simp only [List.find?_cons]
      have : (key x == key a) = false := by simpa using hne
      rw [this]
      exact ih hnd.2 h

/-- The sites inputs can reach inside `make_query_component`: N-6.  (Until the repair of N-2 /
F-C10-2 also `.enumArgument`, under a flag `r` "some recorded edge has an enum literal among its
arguments" — `EdgesFlag`.) -/
def PostSite (s : Site) : Prop := CompSite s

theorem componentPost_sat {S : SchemaView} (hS : ValidSchemaView S) {st : St} {cd : CD}
    (hinv : st.Inv) (hout : 0 < st.outStack.length) (hcd : CD.Inv S st cd)
    (fillErrs : List FrontErr)
    (htop : fillErrs = [] → ∀ o ∈ st.topMap, o.2.vid ∈ cdVids cd) :
    Sat PostSite (componentPost S st cd fillErrs) (fun r =>
      r.1.Inv ∧ r.1.path = st.path ∧ r.1.vidStack = st.vidStack ∧ r.1.nextVid = st.nextVid ∧
      r.1.nextEid = st.nextEid ∧ r.1.prefixes = st.prefixes ∧ r.1.globalOutputs = st.globalOutputs ∧
      st.outStack.length ≤ r.1.outStack.length + 1 ∧
      (∀ es, r.2 = .error es → es ≠ []) ∧
      (∀ comp, r.2 = .ok comp → fillErrs = [] ∧ r.1.outStack.length + 1 = st.outStack.length ∧
        r.1.outStack = st.outStack.dropLast ∧ collectVids comp = cdVids cd)) := by
  unfold componentPost
  have hnd : (([] : List (Vid × String)).map (·.1) ++ cd.vertices.map (·.vid)).Nodup := by
    simpa using hcd.nodup
  refine Sat.bind (verticesLoop_sat S cd.props cd.vertices st fillErrs [] [] hinv hnd) fun r hr => ?_
  obtain ⟨hrinv, htag, more, hmore, hdone⟩ := hr
  split
  · rename_i hne
    refine ⟨hrinv, htag.path, htag.vidStack, htag.nextVid, htag.nextEid, htag.prefixes,
      htag.globalOutputs, by rw [htag.outStack]; omega, ?_, ?_⟩
    · intro es h; cases h
      intro h0; simp [h0] at hne
    · intro comp h; cases h
  · rename_i hempty
    have hnil : r.2.1 = [] := by simpa using hempty
    rw [hnil] at hmore
    have hfill : fillErrs = [] := (List.append_eq_nil_iff.mp hmore.symm).1
    have hmore0 : more = [] := (List.append_eq_nil_iff.mp hmore.symm).2
    have hir := hdone hmore0
    simp only [List.nil_append] at hir
    -- every recorded edge starts at a compiled vertex whose type has the edge
    have hedges : ∀ e ∈ cd.edges, EdgeOk S r.2.2.1 e := by
      intro e he
      obtain ⟨v, hv, hvid, fd, hfd⟩ := hcd.edgesOk e he
      refine ⟨v.postType, fd, ?_, hfd⟩
      rw [hir, List.find?_map]
      have := find?_of_nodup_key (·.vid) cd.vertices hcd.nodup hv
      have hcomp : ((fun x : Vid × String => x.1 == e.fromVid) ∘ fun v : VertexRec => (v.vid, v.postType))
          = fun x => x.vid == v.vid := by
        funext x; simp [hvid]
      rw [hcomp, this]
      simp [hvid]
    refine Sat.bind ((edgesLoop_sat hS r.2.2.1 cd.edges [] hedges).monoK (fun s h => h.elim))
      fun edgeErrs _ => ?_
    split
    · rename_i hne
      refine ⟨hrinv, htag.path, htag.vidStack, htag.nextVid, htag.nextEid, htag.prefixes,
        htag.globalOutputs, by rw [htag.outStack]; omega, ?_, ?_⟩
      · intro es h; cases h
        intro h0; simp [h0] at hne
      · intro comp h; cases h
    · unfold St.outputsEndSubcomponent
      split
      · rename_i hnone
        rw [List.getLast?_eq_none_iff, htag.outStack] at hnone
        rw [hnone] at hout
        exact absurd hout (by simp)
      · rename_i top htopeq
        simp only [bind_ok]
        have hinv2 : St.Inv { r.1 with outStack := r.1.outStack.dropLast } :=
          ⟨hrinv.path_ne, hrinv.imported_keys, hrinv.tags_path_ne, hrinv.prefixes_lt,
           hrinv.stack_prefixed⟩
        have hlen : (r.1.outStack.dropLast).length + 1 = st.outStack.length := by
          rw [List.length_dropLast, htag.outStack]; omega
        split
        · split
          · refine ⟨hinv2, htag.path, htag.vidStack, htag.nextVid, htag.nextEid, htag.prefixes,
              htag.globalOutputs, by simp only []; omega, ?_, ?_⟩
            · intro es h; cases h; simp
            · intro comp h; cases h
          · rename_i hall
            -- `ir_vertices[&vid]` cannot fail: every output of this component's map refers to one
            -- of its vertices or to a vertex of one of its folds
            exfalso
            apply hall
            rw [List.all_eq_true]
            intro f hf
            unfold duplicateRefs at hf
            obtain ⟨o, ho, rfl⟩ := List.mem_map.mp hf
            have ho' : o ∈ st.topMap := by
              have : st.topMap = top := by
                simp [St.topMap, ← htag.outStack, htopeq]
              rw [this]; exact (List.mem_filter.mp ho).1
            have hv := htop hfill o ho'
            simp only [cdVids, List.mem_append] at hv
            simp only [Bool.or_eq_true, List.any_eq_true, beq_iff_eq, List.contains_eq_mem,
              decide_eq_true_eq]
            rcases hv with h | h
            · left
              obtain ⟨v, hv', hvv⟩ := List.mem_map.mp h
              exact ⟨(v.vid, v.postType), by rw [hir]; exact List.mem_map_of_mem hv', hvv⟩
            · right; exact h
        · refine ⟨hinv2, htag.path, htag.vidStack, htag.nextVid, htag.nextEid, htag.prefixes,
            htag.globalOutputs, by simp only []; omega, ?_, ?_⟩
          · intro es h; cases h
          · intro comp h
            cases h
            refine ⟨hfill, hlen, by rw [htag.outStack], ?_⟩
            simp [collectVids, cdVids, hir]


/-- Every output registered between `st` and `st'` refers to a field satisfying `P`. -/
def OutNew (st st' : St) (P : FieldRefM → Prop) : Prop :=
  ∀ o ∈ st'.globalOutputs, o ∈ st.globalOutputs ∨ P o.2

theorem OutNew.refl (st : St) (P : FieldRefM → Prop) : OutNew st st P := fun _ h => Or.inl h

theorem OutNew.of_eq {st st' : St} (h : st'.globalOutputs = st.globalOutputs) (P : FieldRefM → Prop) :
    OutNew st st' P := fun o ho => Or.inl (h ▸ ho)

theorem OutNew.trans {a b c : St} {P Q R : FieldRefM → Prop} (h1 : OutNew a b P) (h2 : OutNew b c Q)
    (hp : ∀ f, P f → R f) (hq : ∀ f, Q f → R f) : OutNew a c R := by
  intro o ho
  rcases h2 o ho with h | h
  · rcases h1 o h with h' | h'
    · exact Or.inl h'
    · exact Or.inr (hp _ h')
  · exact Or.inr (hq _ h)

theorem OutNew.of_registered {st st' : St} {ref : FieldRefM} (h : St.Registered st st' ref) :
    OutNew st st' (· = ref) := by
  obtain ⟨n, hn⟩ := h.outputs
  intro o ho
  rw [hn] at ho
  rcases List.mem_append.mp ho with h | h
  · exact Or.inl h
  · simp at h; subst h; exact Or.inr rfl

theorem foldOutputs_sat (field : FieldRefM) (localName : String) (outs : List OutputDirective) :
    ∀ (st : St) (errs : List FrontErr) (names : List String), st.Inv → 0 < st.outStack.length →
    Sat (fun _ => False) (foldOutputs field localName st errs names outs)
      (fun r => St.Step st r.1 True ∧ r.1.outStack.length = st.outStack.length ∧
        OutNew st r.1 (· = field) ∧ TopNew st r.1 (· = field) ∧ ∃ more, r.2.1 = errs ++ more) := by
  induction outs with
  | nil =>
    intro st errs names hinv _
    exact ⟨St.Step.refl hinv _, rfl, OutNew.refl _ _, TopNew.refl _ _, [], by simp⟩
  | cons o rest ih =>
    intro st errs names hinv hout
    unfold foldOutputs
    refine Sat.bind (P := fun r => St.Registered st r.1 field) ?_ fun r hr => ?_
    · split
      · exact Sat.bind (registerOutput_sat hinv hout _ field) fun st' h => h
      · exact registerLocalOutput_sat hinv hout _ _ field
    · have hout' : 0 < r.1.outStack.length := by rw [hr.outLen]; exact hout
      split
      · refine (ih r.1 _ names hr.inv hout').mono fun r' h => ⟨?_, ?_, ?_, ?_, ?_⟩
        · exact hr.trans_step h.1
        · rw [h.2.1, hr.outLen]
        · exact (OutNew.of_registered hr).trans h.2.2.1 (fun _ x => x) (fun _ x => x)
        · exact hr.top.trans h.2.2.2.1 (fun _ x => x) (fun _ x => x)
        · obtain ⟨m, hm⟩ := h.2.2.2.2
          exact ⟨FrontErr.MultipleOutputsWithSameName :: m, by simp [hm]⟩
      · refine (ih r.1 errs _ hr.inv hout').mono fun r' h => ⟨?_, ?_, ?_, ?_, h.2.2.2.2⟩
        · exact hr.trans_step h.1
        · rw [h.2.1, hr.outLen]
        · exact (OutNew.of_registered hr).trans h.2.2.1 (fun _ x => x) (fun _ x => x)
        · exact hr.top.trans h.2.2.2.1 (fun _ x => x) (fun _ x => x)

theorem foldTags_spec (field : FieldRefM) (ts : List TagDirective) :
    ∀ (st : St) (errs : List FrontErr), st.Inv →
      St.Step st (foldTags field st errs ts).1 True ∧
      (foldTags field st errs ts).1.outStack = st.outStack ∧
      (foldTags field st errs ts).1.globalOutputs = st.globalOutputs ∧
      ∃ more, (foldTags field st errs ts).2 = errs ++ more := by
  induction ts with
  | nil => intro st errs hinv; exact ⟨St.Step.refl hinv _, rfl, rfl, [], by simp [foldTags]⟩
  | cons t rest ih =>
    intro st errs hinv
    unfold foldTags
    split
    · rename_i tagName _
      obtain ⟨hinv', hstep, hg, ho⟩ := registerTag_inv hinv tagName field
      dsimp only
      cases hb : (st.registerTag tagName field).2
      · obtain ⟨h1, h2, h3, m, hm⟩ := ih _ (errs ++ [.MultipleTagsWithSameName]) hinv'
        simp only [Bool.false_eq_true, ↓reduceIte]
        exact ⟨hstep.trans h1 (fun x => ⟨x, x⟩), h2.trans ho, h3.trans hg,
          FrontErr.MultipleTagsWithSameName :: m, by simp [hm]⟩
      · obtain ⟨h1, h2, h3, m, hm⟩ := ih _ errs hinv'
        simp only [↓reduceIte]
        exact ⟨hstep.trans h1 (fun x => ⟨x, x⟩), h2.trans ho, h3.trans hg, m, hm⟩
    · obtain ⟨h1, h2, h3, m, hm⟩ := ih st (errs ++ [.ExplicitTagNameRequired]) hinv
      exact ⟨h1, h2, h3, FrontErr.ExplicitTagNameRequired :: m, by simp [hm]⟩

/-- Does the fold group carry a re-transform (`@fold @transform … @transform`)? -/
def FoldGroup.hasRetr (fg : FoldGroup) : Bool :=
  match fg.transform with
  | some tg => tg.retransform.isSome
  | none => false

/-- The sites inputs can reach in the `@transform` part of `make_fold`: F-12/N-6, and F-7 when
(`r`) the group has a re-transform. -/
def FoldSite (r : Bool) (s : Site) : Prop := FilterSite s ∨ (s = .retransform ∧ r = true)

theorem foldTransform_sat {st : St} (hinv : st.Inv) (hout : 0 < st.outStack.length)
    (tg : TransformGroup) (foldEid : Eid) (startVid : Vid) (subName : String)
    (subAlias : Option String) (e0 : List FrontErr) :
    Sat (FoldSite tg.retransform.isSome) (foldTransform st tg foldEid startVid subName subAlias e0)
      (fun r => St.Step st r.1 True ∧ r.1.outStack.length = st.outStack.length ∧
        OutNew st r.1 (fun f => f.vid = startVid) ∧ TopNew st r.1 (fun f => f.vid = startVid) ∧
        ∃ more, r.2.1 = e0 ++ more) := by
  unfold foldTransform
  split
  · rename_i hr
    exact Or.inr ⟨rfl, hr⟩
  · refine Sat.bind ((filtersLoop_sat startVid _ tg.filters st e0 [] hinv).monoK
      (fun _ h => Or.inl h)) fun rf hrf => ?_
    obtain ⟨hinv1, htag1, m1, hm1⟩ := hrf
    have hout1 : 0 < rf.1.outStack.length := by rw [htag1.outStack]; exact hout
    refine Sat.bind ((foldOutputs_sat (.foldCount foldEid startVid) _ tg.outputs rf.1 rf.2.1 []
      hinv1 hout1).monoK (fun _ h => h.elim)) fun ro hro => ?_
    obtain ⟨hstep2, hlen2, hnew2, htop2, m2, hm2⟩ := hro
    obtain ⟨hstep3, hout3, hglob3, m3, hm3⟩ :=
      foldTags_spec (.foldCount foldEid startVid) tg.tags ro.1 ro.2.1 hstep2.inv
    refine ⟨?_, ?_, ?_, ?_, ?_⟩
    · exact ((St.Step.of_tagOnly hinv1 htag1 True).trans hstep2 (fun x => ⟨x, x⟩)).trans hstep3
        (fun x => ⟨x, x⟩)
    · show (foldTags _ ro.1 ro.2.1 tg.tags).1.outStack.length = _
      rw [hout3, hlen2, htag1.outStack]
    · have h1 : OutNew st rf.1 (fun f => f.vid = startVid) := OutNew.of_eq htag1.globalOutputs _
      have h3 : OutNew ro.1 (foldTags (.foldCount foldEid startVid) ro.1 ro.2.1 tg.tags).1
          (fun f => f.vid = startVid) := OutNew.of_eq hglob3 _
      refine (h1.trans hnew2 (fun _ x => x) ?_).trans h3 (fun _ x => x) (fun _ x => x)
      intro f hf; subst hf; rfl
    · have h1 : TopNew st rf.1 (fun f => f.vid = startVid) := TopNew.of_eq htag1.outStack _
      have h3 : TopNew ro.1 (foldTags (.foldCount foldEid startVid) ro.1 ro.2.1 tg.tags).1
          (fun f => f.vid = startVid) := TopNew.of_eq hout3 _
      refine (h1.trans htop2 (fun _ x => x) ?_).trans h3 (fun _ x => x) (fun _ x => x)
      intro f hf; subst hf; rfl
    · exact ⟨m1 ++ m2 ++ m3, by
        show (foldTags _ ro.1 ro.2.1 tg.tags).2 = _
        rw [hm3, hm2, hm1]; simp⟩

theorem foldPost_sat {st : St} (hinv : st.Inv) (hout : 0 < st.outStack.length) {base : List Vid}
    {startVid : Vid} (hp : st.path = base ++ [startVid]) (hb : base ≠ []) (fg : FoldGroup)
    (foldEid : Eid) (subName : String) (subAlias : Option String) (subHasOutput : Bool)
    (comp : CompIR) :
    Sat (FoldSite fg.hasRetr) (foldPost st fg foldEid startVid subName subAlias subHasOutput comp)
      (fun r => r.1.Inv ∧ r.1.path = base ∧ r.1.vidStack = st.vidStack ∧
        r.1.outStack.length = st.outStack.length ∧ st.nextVid ≤ r.1.nextVid ∧
        st.nextEid ≤ r.1.nextEid ∧ (∀ p ∈ st.prefixes, p ∈ r.1.prefixes) ∧
        OutNew st r.1 (fun f => f.vid = startVid) ∧ TopNew st r.1 (fun f => f.vid = startVid) ∧
        (∀ es, r.2 = .error es → es ≠ []) ∧ (∀ fold, r.2 = .ok fold → fold.2.2 = comp)) := by
  obtain ⟨st1, st2, ext, h1, h2, hinv2, hpath2, hvs2, hos2, hnv2, hne2, hpf2, hgo2⟩ :=
    popFold_ok hinv hp hb
  unfold foldPost
  rw [h1]
  simp only [bind_ok, h2]
  have hout2 : 0 < st2.outStack.length := by rw [hos2]; exact hout
  split
  · have hcommon : st2.Inv ∧ st2.path = base ∧ st2.vidStack = st.vidStack ∧
        st2.outStack.length = st.outStack.length ∧ st.nextVid ≤ st2.nextVid ∧
        st.nextEid ≤ st2.nextEid ∧ (∀ p ∈ st.prefixes, p ∈ st2.prefixes) ∧
        OutNew st st2 (fun f => f.vid = startVid) ∧ TopNew st st2 (fun f => f.vid = startVid) :=
      ⟨hinv2, hpath2, hvs2, by rw [hos2], by rw [hnv2]; exact Nat.le_refl _,
        by rw [hne2]; exact Nat.le_refl _, fun p h => by rw [hpf2]; exact h, OutNew.of_eq hgo2 _,
        TopNew.of_eq hos2 _⟩
    cases subHasOutput
    · simp only [Bool.false_eq_true, ↓reduceIte, List.isEmpty_nil]
      refine ⟨hcommon.1, hcommon.2.1, hcommon.2.2.1, hcommon.2.2.2.1, hcommon.2.2.2.2.1,
        hcommon.2.2.2.2.2.1, hcommon.2.2.2.2.2.2.1, hcommon.2.2.2.2.2.2.2.1,
        hcommon.2.2.2.2.2.2.2.2, ?_, ?_⟩
      · intro es h; cases h
      · intro fold h; cases h; rfl
    · simp only [↓reduceIte, List.isEmpty_cons, Bool.false_eq_true]
      refine ⟨hcommon.1, hcommon.2.1, hcommon.2.2.1, hcommon.2.2.2.1, hcommon.2.2.2.2.1,
        hcommon.2.2.2.2.2.1, hcommon.2.2.2.2.2.2.1, hcommon.2.2.2.2.2.2.2.1,
        hcommon.2.2.2.2.2.2.2.2, ?_, ?_⟩
      · intro es h; cases h; simp
      · intro fold h; cases h
  · rename_i tg htg
    have hretr : fg.hasRetr = tg.retransform.isSome := by simp [FoldGroup.hasRetr, htg]
    rw [hretr]
    refine Sat.bind (foldTransform_sat hinv2 hout2 tg foldEid startVid subName subAlias _)
      fun t ht => ?_
    obtain ⟨hstep, hlen, hnew, htopt, m, hm⟩ := ht
    obtain ⟨ext', hext, hexact⟩ := hstep.path
    have hpath : t.1.path = base := by
      rw [hext, hexact trivial, hpath2]; simp
    have hcommon : t.1.Inv ∧ t.1.path = base ∧ t.1.vidStack = st.vidStack ∧
        t.1.outStack.length = st.outStack.length ∧ st.nextVid ≤ t.1.nextVid ∧
        st.nextEid ≤ t.1.nextEid ∧ (∀ p ∈ st.prefixes, p ∈ t.1.prefixes) ∧
        OutNew st t.1 (fun f => f.vid = startVid) ∧ TopNew st t.1 (fun f => f.vid = startVid) :=
      ⟨hstep.inv, hpath, hstep.vidStack.trans hvs2, by rw [hlen, hos2],
       by rw [← hnv2]; exact hstep.nextVid, by rw [← hne2]; exact hstep.nextEid,
       fun p h => hstep.prefixes p (by rw [hpf2]; exact h),
       (OutNew.of_eq hgo2 (fun f => f.vid = startVid)).trans hnew (fun _ x => x) (fun _ x => x),
       (TopNew.of_eq hos2 (fun f => f.vid = startVid)).trans htopt (fun _ x => x) (fun _ x => x)⟩
    split
    · refine ⟨hcommon.1, hcommon.2.1, hcommon.2.2.1, hcommon.2.2.2.1, hcommon.2.2.2.2.1,
        hcommon.2.2.2.2.2.1, hcommon.2.2.2.2.2.2.1, hcommon.2.2.2.2.2.2.2.1,
        hcommon.2.2.2.2.2.2.2.2, ?_, ?_⟩
      · intro es h; cases h
      · intro fold h; cases h; rfl
    · rename_i hne
      refine ⟨hcommon.1, hcommon.2.1, hcommon.2.2.1, hcommon.2.2.2.1, hcommon.2.2.2.2.1,
        hcommon.2.2.2.2.2.1, hcommon.2.2.2.2.2.2.1, hcommon.2.2.2.2.2.2.2.1,
        hcommon.2.2.2.2.2.2.2.2, ?_, ?_⟩
      · intro es h; cases h
        intro h0; simp [h0] at hne
      · intro fold h; cases h


/-! ### the property branch of `fill_in_vertex_data` -/

theorem registerPropertyOutputs_sat (ref : FieldRefM) (localName : String)
    (outs : List OutputDirective) :
    ∀ (st : St), st.Inv → 0 < st.outStack.length →
    Sat (fun _ => False) (registerPropertyOutputs ref localName st outs)
      (fun st' => St.Step st st' True ∧ st'.outStack.length = st.outStack.length ∧
        OutNew st st' (· = ref) ∧ TopNew st st' (· = ref)) := by
  induction outs with
  | nil => intro st hinv _; exact ⟨St.Step.refl hinv _, rfl, OutNew.refl _ _, TopNew.refl _ _⟩
  | cons o rest ih =>
    intro st hinv hout
    unfold registerPropertyOutputs
    refine Sat.bind (P := fun st' => St.Registered st st' ref) ?_ fun st' hr => ?_
    · split
      · exact registerOutput_sat hinv hout _ ref
      · exact Sat.bind (registerLocalOutput_sat hinv hout _ _ ref) fun r h => h
    · have hout' : 0 < st'.outStack.length := by rw [hr.outLen]; exact hout
      refine (ih st' hr.inv hout').mono fun st'' h => ⟨hr.trans_step h.1, ?_, ?_, ?_⟩
      · rw [h.2.1, hr.outLen]
      · exact (OutNew.of_registered hr).trans h.2.2.1 (fun _ x => x) (fun _ x => x)
      · exact hr.top.trans h.2.2.2 (fun _ x => x) (fun _ x => x)

theorem registerPropertyTags_spec (ref : FieldRefM) (dflt : String) (ts : List TagDirective) :
    ∀ (st : St) (errs : List FrontErr), st.Inv →
      St.Step st (registerPropertyTags ref dflt st errs ts).1 True ∧
      (registerPropertyTags ref dflt st errs ts).1.outStack = st.outStack ∧
      (registerPropertyTags ref dflt st errs ts).1.globalOutputs = st.globalOutputs := by
  induction ts with
  | nil => intro st errs hinv; exact ⟨St.Step.refl hinv _, rfl, rfl⟩
  | cons t rest ih =>
    intro st errs hinv
    unfold registerPropertyTags
    obtain ⟨hinv', hstep, hg, ho⟩ := registerTag_inv hinv (t.name.getD dflt) ref
    obtain ⟨h1, h2, h3⟩ := ih _ (if (st.registerTag (t.name.getD dflt) ref).2 = true then errs
      else errs ++ [.MultipleTagsWithSameName]) hinv'
    exact ⟨hstep.trans h1 (fun x => ⟨x, x⟩), h2.trans ho, h3.trans hg⟩

theorem recordProperty_sat {S : SchemaView} {st : St} {cd : CD} (hcd : CD.Inv S st cd) {cur : Vid}
    {postType fieldName : String} {ty : FTy}
    (hcur : ∃ v ∈ cd.vertices, v.vid = cur ∧ v.postType = postType)
    (hty : propType S postType fieldName = some ty) (subFilters : List FilterDirective) :
    Sat (fun _ => False) (recordProperty cd.props cur fieldName ty subFilters)
      (fun props => ∀ p ∈ props, ∃ v ∈ cd.vertices, v.vid = p.vid ∧
        propType S v.postType p.name = some p.ty) := by
  obtain ⟨v, hv, hvid, hpost⟩ := hcur
  unfold recordProperty
  split
  · rename_i prior hfind
    have hmem := List.mem_of_find?_eq_some hfind
    have hkey := List.find?_some hfind
    simp only [Bool.and_eq_true, beq_iff_eq] at hkey
    obtain ⟨v', hv', hvid', hpt'⟩ := hcd.propsOk prior hmem
    have hvv : v' = v := by
      have h1 := find?_of_nodup_key (·.vid) cd.vertices hcd.nodup hv'
      have h2 := find?_of_nodup_key (·.vid) cd.vertices hcd.nodup hv
      have : v'.vid = v.vid := by rw [hvid', hkey.1, hvid]
      rw [this] at h1
      rw [h1] at h2
      exact Option.some.inj h2
    subst hvv
    split
    · rename_i hbad
      exfalso
      rw [hpost, hkey.2, hty] at hpt'
      have : prior.ty = ty := (Option.some.inj hpt').symm
      simp [hkey.2, this] at hbad
    · intro p hp
      rw [List.mem_map] at hp
      obtain ⟨q, hq, hqp⟩ := hp
      split at hqp
      · subst hqp; exact hcd.propsOk q hq
      · subst hqp; exact hcd.propsOk q hq
  · intro p hp
    rcases List.mem_append.mp hp with hp | hp
    · exact hcd.propsOk p hp
    · simp at hp; subst hp
      exact ⟨v, hv, hvid, by rw [hpost]; exact hty⟩

theorem fillProperty_sat {S : SchemaView} {st : St} {cd : CD} (hinv : st.Inv)
    (hout : 0 < st.outStack.length) (hcd : CD.Inv S st cd) {cur : Vid}
    {postType fieldName : String} {ty : FTy}
    (hcur : ∃ v ∈ cd.vertices, v.vid = cur ∧ v.postType = postType)
    (hty : propType S postType fieldName = some ty) (conn : FieldConnection) (subName : String)
    (subAlias : Option String) (subFilters : List FilterDirective)
    (subOutputs : List OutputDirective) (subTags : List TagDirective) :
    Sat (fun _ => False)
      (fillProperty cur conn subName subAlias subFilters subOutputs subTags fieldName ty st cd)
      (fun r => St.Step st r.1 True ∧ r.1.outStack.length = st.outStack.length ∧
        CD.Inv S r.1 r.2.1 ∧ r.2.1.vertices = cd.vertices ∧ r.2.1.edges = cd.edges ∧
        r.2.1.folds = cd.folds ∧ OutNew st r.1 (fun f => f.vid = cur) ∧
        TopNew st r.1 (fun f => f.vid = cur)) := by
  unfold fillProperty
  dsimp only
  refine Sat.bind (recordProperty_sat hcd hcur hty subFilters) fun props hprops => ?_
  refine Sat.bind (registerPropertyOutputs_sat (.context cur subName ty) _ subOutputs st hinv hout)
    fun st1 h1 => ?_
  obtain ⟨hstep1, hlen1, hnew1, htop1⟩ := h1
  obtain ⟨hstep2, hout2, hglob2⟩ :=
    registerPropertyTags_spec (.context cur subName ty) (subAlias.getD subName) subTags st1 []
      hstep1.inv
  have hstep := hstep1.trans hstep2 (fun x => (⟨x, x⟩ : True ∧ True))
  refine ⟨hstep, by rw [hout2, hlen1], ?_, rfl, rfl, rfl, ?_, ?_⟩
  · exact ⟨hcd.nodup, fun v hv => Nat.lt_of_lt_of_le (hcd.vidsLt v hv) hstep.nextVid,
      fun e he => Nat.lt_of_lt_of_le (hcd.eidsLt e he) hstep.nextEid, hcd.edgesOk, hprops⟩
  · have h3 : OutNew st1 (registerPropertyTags (.context cur subName ty) (subAlias.getD subName) st1
        [] subTags).1 (fun f => f.vid = cur) := OutNew.of_eq hglob2 _
    refine (hnew1.trans h3 ?_ (fun _ x => x) : OutNew st _ (fun f => f.vid = cur))
    intro f hf; subst hf; rfl
  · have h3 : TopNew st1 (registerPropertyTags (.context cur subName ty) (subAlias.getD subName) st1
        [] subTags).1 (fun f => f.vid = cur) := TopNew.of_eq hout2 _
    refine (htop1.trans h3 ?_ (fun _ x => x) : TopNew st _ (fun f => f.vid = cur))
    intro f hf; subst hf; rfl

end TF.FE
