/-
`IndexedQuery::try_from` (model: `indexedOk`) accepts every well-formed query whose outputs are in
order, and in particular every query the frontend model compiles: the `unwrap()` in
`frontend::parse` is safe.
-/
import TrustfallModel.Proofs.FrontendTags
namespace TF.Frontend
open TF TF.Engine TF.Spec

/-! ### `IndexedQuery::try_from` accepts well-formed queries -/

theorem natsDistinct_iff {l : List Nat} : natsDistinct l = true ↔ l.Nodup := by
  induction l with
  | nil => simp [natsDistinct]
  | cons a l ih => simp [natsDistinct, ih, List.nodup_cons]

theorem namesDistinct_iff {l : List Name} : namesDistinct l = true ↔ l.Nodup := by
  induction l with
  | nil => simp [namesDistinct]
  | cons a l ih => simp [namesDistinct, ih, List.nodup_cons]

theorem seeVertices_ok (vars : List (Name × QTy)) :
    ∀ (vs : List IRVertex) (s : Seen), (vertexVids vs).Nodup → (∀ x ∈ vertexVids vs, x ∉ s.vids) →
      (∀ v ∈ vs, varsOk vars v.filters = true) →
      ∃ s', seeVertices vars vs s = some s' ∧ (∀ x, x ∈ s'.vids ↔ x ∈ vertexVids vs ∨ x ∈ s.vids) ∧
        s'.eids = s.eids ∧ s'.outs = s.outs := by
  intro vs
  induction vs with
  | nil => intro s _ _ _; exact ⟨s, rfl, by simp [vertexVids], rfl, rfl⟩
  | cons v rest ih =>
    intro s hnd hdis hvars
    simp only [vertexVids, List.map_cons, List.nodup_cons] at hnd
    have h1 : v.vid ∉ s.vids := hdis v.vid (by simp [vertexVids])
    have h2 : varsOk vars v.filters = true := hvars v (by simp)
    obtain ⟨s', hs', hv, he, ho⟩ := ih { s with vids := v.vid :: s.vids } hnd.2
      (by
        intro x hx
        simp only [List.mem_cons, not_or]
        refine ⟨?_, hdis x (by simp only [vertexVids, List.map_cons, List.mem_cons]; exact Or.inr hx)⟩
        rintro rfl; exact hnd.1 hx)
      (fun w hw => hvars w (by simp [hw]))
    refine ⟨s', ?_, ?_, he, ho⟩
    · simp [seeVertices, h1, h2, hs']
    · intro x; rw [hv]; simp only [vertexVids, List.map_cons, List.mem_cons]
      constructor
      · rintro (h | h | h)
        · exact Or.inl (Or.inr h)
        · exact Or.inl (Or.inl h)
        · exact Or.inr h
      · rintro ((h | h) | h)
        · exact Or.inr (Or.inl h)
        · exact Or.inl h
        · exact Or.inr (Or.inr h)

theorem seeOutputs_ok (own : List Vid) :
    ∀ (os : List OutputDef) (s : Seen), (os.map (·.name)).Nodup →
      (∀ x ∈ os.map (·.name), x ∉ s.outs) → (∀ o ∈ os, o.vid ∈ own) →
      ∃ s', seeOutputs own os s = some s' ∧ (∀ x, x ∈ s'.outs ↔ x ∈ os.map (·.name) ∨ x ∈ s.outs) ∧
        s'.vids = s.vids ∧ s'.eids = s.eids := by
  intro os
  induction os with
  | nil => intro s _ _ _; exact ⟨s, rfl, by simp, rfl, rfl⟩
  | cons o rest ih =>
    intro s hnd hdis hown
    simp only [List.map_cons, List.nodup_cons] at hnd
    have h1 : o.vid ∈ own := hown o (by simp)
    have h2 : o.name ∉ s.outs := hdis o.name (by simp)
    obtain ⟨s', hs', ho, hv, he⟩ := ih { s with outs := o.name :: s.outs } hnd.2
      (by
        intro x hx
        simp only [List.mem_cons, not_or]
        refine ⟨?_, hdis x (by simp only [List.map_cons, List.mem_cons]; exact Or.inr hx)⟩
        rintro rfl; exact hnd.1 hx)
      (fun w hw => hown w (by simp [hw]))
    refine ⟨s', ?_, ?_, hv, he⟩
    · simp [seeOutputs, h1, h2, hs']
    · intro x; rw [ho]; simp only [List.map_cons, List.mem_cons]
      constructor
      · rintro (h | h | h)
        · exact Or.inl (Or.inr h)
        · exact Or.inl (Or.inl h)
        · exact Or.inr h
      · rintro ((h | h) | h)
        · exact Or.inr (Or.inl h)
        · exact Or.inl h
        · exact Or.inr (Or.inr h)

theorem seeEdges_ok (own : List Vid) :
    ∀ (es : List IREdge) (s : Seen), (es.map (·.eid)).Nodup →
      (∀ x ∈ es.map (·.eid), x ∉ s.eids) →
      (∀ e ∈ es, e.toVid = e.eid + 1 ∧ e.fromVid ∈ own ∧ e.toVid ∈ own) →
      ∃ s', seeEdges own es s = some s' ∧ (∀ x, x ∈ s'.eids ↔ x ∈ es.map (·.eid) ∨ x ∈ s.eids) ∧
        s'.vids = s.vids ∧ s'.outs = s.outs := by
  intro es
  induction es with
  | nil => intro s _ _ _; exact ⟨s, rfl, by simp, rfl, rfl⟩
  | cons e rest ih =>
    intro s hnd hdis hown
    simp only [List.map_cons, List.nodup_cons] at hnd
    obtain ⟨g1, g2, g3⟩ := hown e (by simp)
    have h0 : (e.eid + 1 != e.toVid) = false := by simp [g1]
    have h1 : e.fromVid ∈ own := g2
    have h2 : e.toVid ∈ own := g3
    have h3 : e.eid ∉ s.eids := hdis e.eid (by simp)
    obtain ⟨s', hs', he, hv, ho⟩ := ih { s with eids := e.eid :: s.eids } hnd.2
      (by
        intro x hx
        simp only [List.mem_cons, not_or]
        refine ⟨?_, hdis x (by simp only [List.map_cons, List.mem_cons]; exact Or.inr hx)⟩
        rintro rfl; exact hnd.1 hx)
      (fun w hw => hown w (by simp [hw]))
    refine ⟨s', ?_, ?_, hv, ho⟩
    · simp [seeEdges, h0, h1, h2, h3, hs']
    · intro x; rw [he]; simp only [List.map_cons, List.mem_cons]
      constructor
      · rintro (h | h | h)
        · exact Or.inl (Or.inr h)
        · exact Or.inl (Or.inl h)
        · exact Or.inr h
      · rintro ((h | h) | h)
        · exact Or.inr (Or.inl h)
        · exact Or.inl h
        · exact Or.inr (Or.inr h)

theorem seeNames_ok :
    ∀ (ns : List Name) (s : Seen), ns.Nodup → (∀ x ∈ ns, x ∉ s.outs) →
      ∃ s', seeNames ns s = some s' ∧ (∀ x, x ∈ s'.outs ↔ x ∈ ns ∨ x ∈ s.outs) ∧
        s'.vids = s.vids ∧ s'.eids = s.eids := by
  intro ns
  induction ns with
  | nil => intro s _ _; exact ⟨s, rfl, by simp, rfl, rfl⟩
  | cons n rest ih =>
    intro s hnd hdis
    simp only [List.nodup_cons] at hnd
    have h2 : n ∉ s.outs := hdis n (by simp)
    obtain ⟨s', hs', ho, hv, he⟩ := ih { s with outs := n :: s.outs } hnd.2
      (by
        intro x hx
        simp only [List.mem_cons, not_or]
        refine ⟨?_, hdis x (by simp only [List.mem_cons]; exact Or.inr hx)⟩
        rintro rfl; exact hnd.1 hx)
    refine ⟨s', ?_, ?_, hv, he⟩
    · simp [seeNames, h2, hs']
    · intro x; rw [ho]; simp only [List.mem_cons]
      constructor
      · rintro (h | h | h)
        · exact Or.inl (Or.inr h)
        · exact Or.inl (Or.inl h)
        · exact Or.inr h
      · rintro ((h | h) | h)
        · exact Or.inr (Or.inl h)
        · exact Or.inl h
        · exact Or.inr (Or.inr h)


/-- the local conditions `add_data_from_component` checks, at every depth -/
def LocalOk (vars : List (Name × QTy)) (c : Component) : Prop :=
  wfNumberingC c = true ∧ wfEndpointsC c = true ∧ wfVarsC vars c = true ∧ wfOutputsC c = true

def LocalOkF (vars : List (Name × QTy)) (own : List Vid) (fs : List Fold) : Prop :=
  wfNumberingF fs = true ∧ wfEndpointsF own fs = true ∧ wfVarsF vars fs = true ∧
    wfOutputsF fs = true

theorem allVids_mk (r : Vid) (vs : List IRVertex) (es : List IREdge) (fs : List Fold)
    (os : List OutputDef) : allVids (.mk r vs es fs os) = vertexVids vs ++ foldsVids fs := by
  simp [allVids]
theorem allEids_mk (r : Vid) (vs : List IRVertex) (es : List IREdge) (fs : List Fold)
    (os : List OutputDef) : allEids (.mk r vs es fs os) = es.map (·.eid) ++ foldsEids fs := by
  simp [allEids]
theorem outputNames_mk (r : Vid) (vs : List IRVertex) (es : List IREdge) (fs : List Fold)
    (os : List OutputDef) :
    outputNames (.mk r vs es fs os) = os.map (·.name) ++ foldsOutputNames fs := by
  simp [outputNames]

theorem seeComponent_ok (vars : List (Name × QTy)) :
    (∀ c, ∀ s : Seen, LocalOk vars c → (allVids c).Nodup → (allEids c).Nodup →
      (outputNames c).Nodup → (∀ x ∈ allVids c, x ∉ s.vids) → (∀ x ∈ allEids c, x ∉ s.eids) →
      (∀ x ∈ outputNames c, x ∉ s.outs) →
      ∃ s', seeComponent vars c s = some s' ∧
        (∀ x, x ∈ s'.vids ↔ x ∈ allVids c ∨ x ∈ s.vids) ∧
        (∀ x, x ∈ s'.eids ↔ x ∈ allEids c ∨ x ∈ s.eids) ∧
        (∀ x, x ∈ s'.outs ↔ x ∈ outputNames c ∨ x ∈ s.outs)) ∧
    (∀ fs, ∀ (own : List Vid) (s : Seen), LocalOkF vars own fs → (foldsVids fs).Nodup →
      (foldsEids fs).Nodup → (foldsOutputNames fs).Nodup → (∀ x ∈ foldsVids fs, x ∉ s.vids) →
      (∀ x ∈ foldsEids fs, x ∉ s.eids) → (∀ x ∈ foldsOutputNames fs, x ∉ s.outs) →
      ∃ s', seeFolds vars own fs s = some s' ∧
        (∀ x, x ∈ s'.vids ↔ x ∈ foldsVids fs ∨ x ∈ s.vids) ∧
        (∀ x, x ∈ s'.eids ↔ x ∈ foldsEids fs ∨ x ∈ s.eids) ∧
        (∀ x, x ∈ s'.outs ↔ x ∈ foldsOutputNames fs ∨ x ∈ s.outs)) := by
  apply wfVarsC.mutual_induct
  · -- component
    intro root vs es fs os ih s hloc hnv hne hno hdv hde hdo
    obtain ⟨l1, l2, l3, l4⟩ := hloc
    rw [allVids_mk] at hnv hdv
    rw [allEids_mk] at hne hde
    rw [outputNames_mk] at hno hdo
    simp only [wfNumberingC, Bool.and_eq_true, List.all_eq_true, beq_iff_eq] at l1
    simp only [wfEndpointsC, Bool.and_eq_true, List.all_eq_true, decide_eq_true_eq,
      List.contains_eq_mem] at l2
    simp only [wfVarsC, Bool.and_eq_true, List.all_eq_true] at l3
    simp only [wfOutputsC, Bool.and_eq_true, List.all_eq_true, List.contains_eq_mem,
      decide_eq_true_eq] at l4
    rw [List.nodup_append] at hnv hne hno
    obtain ⟨s1, e1, v1, ee1, o1⟩ := seeVertices_ok vars vs s hnv.1
      (fun x hx => hdv x (List.mem_append_left _ hx)) l3.1
    obtain ⟨s2, e2, o2, v2, ee2⟩ := seeOutputs_ok (vertexVids vs) os s1 hno.1
      (fun x hx => by rw [o1]; exact hdo x (List.mem_append_left _ hx)) l4.1
    obtain ⟨s3, e3, ee3, v3, o3⟩ := seeEdges_ok (vertexVids vs) es s2 hne.1
      (fun x hx => by rw [ee2, ee1]; exact hde x (List.mem_append_left _ hx))
      (fun e he => ⟨l1.1 e he, (l2.1.2 e he).1.2, (l2.1.2 e he).2⟩)
    obtain ⟨s4, e4, v4, ee4, o4⟩ := ih (vertexVids vs) s3 ⟨l1.2, l2.2, l3.2, l4.2⟩ hnv.2.1 hne.2.1
      hno.2.1
      (by
        intro x hx
        rw [v3, v2, v1]
        rintro (h | h)
        · exact hnv.2.2 x h x hx rfl
        · exact hdv x (List.mem_append_right _ hx) h)
      (by
        intro x hx
        rw [ee3, ee2, ee1]
        rintro (h | h)
        · exact hne.2.2 x h x hx rfl
        · exact hde x (List.mem_append_right _ hx) h)
      (by
        intro x hx
        rw [o3, o2, o1]
        rintro (h | h)
        · exact hno.2.2 x h x hx rfl
        · exact hdo x (List.mem_append_right _ hx) h)
    refine ⟨s4, ?_, ?_, ?_, ?_⟩
    · have hr : root ∈ vertexVids vs := l2.1.1
      simp [seeComponent, hr, e1, e2, e3, e4]
    · intro x; rw [allVids_mk, v4, v3, v2, v1, List.mem_append]
      constructor
      · rintro (h | h | h)
        · exact Or.inl (Or.inr h)
        · exact Or.inl (Or.inl h)
        · exact Or.inr h
      · rintro ((h | h) | h)
        · exact Or.inr (Or.inl h)
        · exact Or.inl h
        · exact Or.inr (Or.inr h)
    · intro x; rw [allEids_mk, ee4, ee3, ee2, ee1, List.mem_append]
      constructor
      · rintro (h | h | h)
        · exact Or.inl (Or.inr h)
        · exact Or.inl (Or.inl h)
        · exact Or.inr h
      · rintro ((h | h) | h)
        · exact Or.inr (Or.inl h)
        · exact Or.inl h
        · exact Or.inr (Or.inr h)
    · intro x; rw [outputNames_mk, o4, o3, o2, o1, List.mem_append]
      constructor
      · rintro (h | h | h)
        · exact Or.inl (Or.inr h)
        · exact Or.inl (Or.inl h)
        · exact Or.inr h
      · rintro ((h | h) | h)
        · exact Or.inr (Or.inl h)
        · exact Or.inl h
        · exact Or.inr (Or.inr h)
  · -- no folds
    intro own s _ _ _ _ _ _ _
    exact ⟨s, rfl, by simp [foldsVids], by simp [foldsEids], by simp [foldsOutputNames]⟩
  · -- a fold, then the others
    intro e f t n ps c imports fouts post rest ihc ihr own s hloc hnv hne hno hdv hde hdo
    obtain ⟨l1, l2, l3, l4⟩ := hloc
    simp only [wfNumberingF, Bool.and_eq_true, beq_iff_eq] at l1
    simp only [wfEndpointsF, Bool.and_eq_true, decide_eq_true_eq, List.contains_eq_mem,
      beq_iff_eq] at l2
    simp only [wfVarsF, Bool.and_eq_true] at l3
    simp only [wfOutputsF, Bool.and_eq_true] at l4
    have hfv : foldsVids (Fold.mk e f t n ps c imports fouts post :: rest) =
        allVids c ++ foldsVids rest := by simp [foldsVids]
    have hfe : foldsEids (Fold.mk e f t n ps c imports fouts post :: rest) =
        (e :: allEids c) ++ foldsEids rest := by simp [foldsEids]
    have hfo : foldsOutputNames (Fold.mk e f t n ps c imports fouts post :: rest) =
        (fouts ++ outputNames c) ++ foldsOutputNames rest := by simp [foldsOutputNames]
    rw [hfv] at hnv hdv
    rw [hfe] at hne hde
    rw [hfo] at hno hdo
    rw [List.nodup_append] at hnv hne hno
    obtain ⟨hne1, hne2, hne3⟩ := hne
    rw [List.nodup_cons] at hne1
    obtain ⟨hno1, hno2, hno3⟩ := hno
    rw [List.nodup_append] at hno1
    -- the fold's own outputs
    obtain ⟨s1, e1, o1, v1, ee1⟩ := seeNames_ok fouts { s with eids := e :: s.eids } hno1.1
      (fun x hx => hdo x (List.mem_append_left _ (List.mem_append_left _ hx)))
    -- its component
    obtain ⟨s2, e2, v2, ee2, o2⟩ := ihc s1 ⟨l1.1.2, l2.1.2, l3.1.2, l4.1⟩ hnv.1 hne1.2 hno1.2.1
      (by
        intro x hx
        rw [v1]
        exact hdv x (List.mem_append_left _ hx))
      (by
        intro x hx
        rw [ee1]
        simp only [List.mem_cons, not_or]
        refine ⟨?_, hde x (List.mem_append_left _ (List.mem_cons_of_mem _ hx))⟩
        rintro rfl; exact hne1.1 hx)
      (by
        intro x hx
        rw [o1]
        rintro (h | h)
        · exact hno1.2.2 x h x hx rfl
        · exact hdo x (List.mem_append_left _ (List.mem_append_right _ hx)) h)
    -- the other folds
    obtain ⟨s3, e3, v3, ee3, o3⟩ := ihr own s2 ⟨l1.2, l2.2, l3.2, l4.2⟩ hnv.2.1 hne2 hno2
      (by
        intro x hx
        rw [v2, v1]
        rintro (h | h)
        · exact hnv.2.2 x h x hx rfl
        · exact hdv x (List.mem_append_right _ hx) h)
      (by
        intro x hx
        rw [ee2, ee1]
        simp only [List.mem_cons]
        rintro (h | h | h)
        · exact hne3 x (List.mem_cons_of_mem _ h) x hx rfl
        · exact hne3 e (List.mem_cons_self) x hx h.symm
        · exact hde x (List.mem_append_right _ hx) h)
      (by
        intro x hx
        rw [o2, o1]
        rintro (h | h | h)
        · exact hno3 x (List.mem_append_right _ h) x hx rfl
        · exact hno3 x (List.mem_append_left _ h) x hx rfl
        · exact hdo x (List.mem_append_right _ hx) h)
    refine ⟨s3, ?_, ?_, ?_, ?_⟩
    · have h0 : (e + 1 != t) = false := by simp [l1.1.1]
      have h1 : f ∈ own := l2.1.1.1.2
      have h2 : (t != c.root) = false := by simp [l2.1.1.2]
      have h3 : e ∉ s.eids := hde e (List.mem_append_left _ List.mem_cons_self)
      simp [seeFolds, h0, h1, h2, h3, e1, e2, e3]
    · intro x; rw [hfv, v3, v2, v1, List.mem_append]
      constructor
      · rintro (h | h | h)
        · exact Or.inl (Or.inr h)
        · exact Or.inl (Or.inl h)
        · exact Or.inr h
      · rintro ((h | h) | h)
        · exact Or.inr (Or.inl h)
        · exact Or.inl h
        · exact Or.inr (Or.inr h)
    · intro x; rw [hfe, ee3, ee2, ee1]
      simp only [List.mem_append, List.mem_cons]
      constructor
      · rintro (h | h | h | h)
        · exact Or.inl (Or.inr h)
        · exact Or.inl (Or.inl (Or.inr h))
        · exact Or.inl (Or.inl (Or.inl h))
        · exact Or.inr h
      · rintro (((h | h) | h) | h)
        · exact Or.inr (Or.inr (Or.inl h))
        · exact Or.inr (Or.inl h)
        · exact Or.inl h
        · exact Or.inr (Or.inr (Or.inr h))
    · intro x; rw [hfo, o3, o2, o1]
      simp only [List.mem_append]
      constructor
      · rintro (h | h | h | h)
        · exact Or.inl (Or.inr h)
        · exact Or.inl (Or.inl (Or.inr h))
        · exact Or.inl (Or.inl (Or.inl h))
        · exact Or.inr h
      · rintro (((h | h) | h) | h)
        · exact Or.inr (Or.inr (Or.inl h))
        · exact Or.inr (Or.inl h)
        · exact Or.inl h
        · exact Or.inr (Or.inr (Or.inr h))


end TF.Frontend
