/-
`IndexedQuery::try_from` (model: `indexedOk`) accepts every well-formed query whose outputs are in
order, and in particular every query the frontend model compiles: the `unwrap()` in
`frontend::parse` is safe.
-/
import TrustfallModel.Proofs.FrontendTags
namespace TF.Frontend
open TF TF.Engine TF.Spec

/-! ### `IndexedQuery::try_from` accepts well-formed queries -/

theorem natsDistinct_iff {l : List Nat} : natsDistinct l = true ↔ l.Nodup := by
  induction l with
  | nil => simp [natsDistinct]
  | cons a l ih => simp [natsDistinct, ih, List.nodup_cons]

theorem namesDistinct_iff {l : List Name} : namesDistinct l = true ↔ l.Nodup := by
  induction l with
  | nil => simp [namesDistinct]
  | cons a l ih => simp [namesDistinct, ih, List.nodup_cons]

theorem seeVertices_ok (vars : List (Name × QTy)) :
    ∀ (vs : List IRVertex) (s : Seen), (vertexVids vs).Nodup → (∀ x ∈ vertexVids vs, x ∉ s.vids) →
      (∀ v ∈ vs, varsOk vars v.filters = true) →
      ∃ s', seeVertices vars vs s = some s' ∧ (∀ x, x ∈ s'.vids ↔ x ∈ vertexVids vs ∨ x ∈ s.vids) ∧
        s'.eids = s.eids ∧ s'.outs = s.outs := by
  intro vs
  induction vs with
  | nil => intro s _ _ _; exact ⟨s, rfl, by simp [vertexVids], rfl, rfl⟩
  | cons v rest ih =>
    intro s hnd hdis hvars
    simp only [vertexVids, List.map_cons, List.nodup_cons] at hnd
    have h1 : v.vid ∉ s.vids := hdis v.vid (by simp [vertexVids])
    have h2 : varsOk vars v.filters = true := hvars v (by simp)
    obtain ⟨s', hs', hv, he, ho⟩ := ih { s with vids := v.vid :: s.vids } hnd.2
      (by
        intro x hx
        simp only [List.mem_cons, not_or]
        refine ⟨?_, hdis x (by simp only [vertexVids, List.map_cons, List.mem_cons]; exact Or.inr hx)⟩
        rintro rfl; exact hnd.1 hx)
      (fun w hw => hvars w (by simp [hw]))
    refine ⟨s', ?_, ?_, he, ho⟩
    · simp [seeVertices, h1, h2, hs']
    · intro x; rw [hv]; simp only [vertexVids, List.map_cons, List.mem_cons]
      constructor
      · rintro (h | h | h)
        · exact Or.inl (Or.inr h)
        · exact Or.inl (Or.inl h)
        · exact Or.inr h
      · rintro ((h | h) | h)
        · exact Or.inr (Or.inl h)
        · exact Or.inl h
        · exact Or.inr (Or.inr h)

theorem seeOutputs_ok (own : List Vid) :
    ∀ (os : List OutputDef) (s : Seen), (os.map (·.name)).Nodup →
      (∀ x ∈ os.map (·.name), x ∉ s.outs) → (∀ o ∈ os, o.vid ∈ own) →
      ∃ s', seeOutputs own os s = some s' ∧ (∀ x, x ∈ s'.outs ↔ x ∈ os.map (·.name) ∨ x ∈ s.outs) ∧
        s'.vids = s.vids ∧ s'.eids = s.eids := by
  intro os
  induction os with
  | nil => intro s _ _ _; exact ⟨s, rfl, by simp, rfl, rfl⟩
  | cons o rest ih =>
    intro s hnd hdis hown
    simp only [List.map_cons, List.nodup_cons] at hnd
    have h1 : o.vid ∈ own := hown o (by simp)
    have h2 : o.name ∉ s.outs := hdis o.name (by simp)
    obtain ⟨s', hs', ho, hv, he⟩ := ih { s with outs := o.name :: s.outs } hnd.2
      (by
        intro x hx
        simp only [List.mem_cons, not_or]
        refine ⟨?_, hdis x (by simp only [List.map_cons, List.mem_cons]; exact Or.inr hx)⟩
        rintro rfl; exact hnd.1 hx)
      (fun w hw => hown w (by simp [hw]))
    refine ⟨s', ?_, ?_, hv, he⟩
    · simp [seeOutputs, h1, h2, hs']
    · intro x; rw [ho]; simp only [List.map_cons, List.mem_cons]
      constructor
      · rintro (h | h | h)
        · exact Or.inl (Or.inr h)
        · exact Or.inl (Or.inl h)
        · exact Or.inr h
      · rintro ((h | h) | h)
        · exact Or.inr (Or.inl h)
        · exact Or.inl h
        · exact Or.inr (Or.inr h)

theorem seeEdges_ok (own : List Vid) :
    ∀ (es : List IREdge) (s : Seen), (es.map (·.eid)).Nodup →
      (∀ x ∈ es.map (·.eid), x ∉ s.eids) →
      (∀ e ∈ es, e.toVid = e.eid + 1 ∧ e.fromVid ∈ own ∧ e.toVid ∈ own) →
      ∃ s', seeEdges own es s = some s' ∧ (∀ x, x ∈ s'.eids ↔ x ∈ es.map (·.eid) ∨ x ∈ s.eids) ∧
        s'.vids = s.vids ∧ s'.outs = s.outs := by
  intro es
  induction es with
  | nil => intro s _ _ _; exact ⟨s, rfl, by simp, rfl, rfl⟩
  | cons e rest ih =>
    intro s hnd hdis hown
    simp only [List.map_cons, List.nodup_cons] at hnd
    obtain ⟨g1, g2, g3⟩ := hown e (by simp)
    have h0 : (e.eid + 1 != e.toVid) = false := by simp [g1]
    have h1 : e.fromVid ∈ own := g2
    have h2 : e.toVid ∈ own := g3
    have h3 : e.eid ∉ s.eids := hdis e.eid (by simp)
    obtain ⟨s', hs', he, hv, ho⟩ := ih { s with eids := e.eid :: s.eids } hnd.2
      (by
        intro x hx
        simp only [List.mem_cons, not_or]
        refine ⟨?_, hdis x (by simp only [List.map_cons, List.mem_cons]; exact Or.inr hx)⟩
        rintro rfl; exact hnd.1 hx)
      (fun w hw => hown w (by simp [hw]))
    refine ⟨s', ?_, ?_, hv, ho⟩
    · simp [seeEdges, h0, h1, h2, h3, hs']
    · intro x; rw [he]; simp only [List.map_cons, List.mem_cons]
      constructor
      · rintro (h | h | h)
        · exact Or.inl (Or.inr h)
        · exact Or.inl (Or.inl h)
        · exact Or.inr h
      · rintro ((h | h) | h)
        · exact Or.inr (Or.inl h)
        · exact Or.inl h
        · exact Or.inr (Or.inr h)

theorem seeNames_ok :
    ∀ (ns : List Name) (s : Seen), ns.Nodup → (∀ x ∈ ns, x ∉ s.outs) →
      ∃ s', seeNames ns s = some s' ∧ (∀ x, x ∈ s'.outs ↔ x ∈ ns ∨ x ∈ s.outs) ∧
        s'.vids = s.vids ∧ s'.eids = s.eids := by
  intro ns
  induction ns with
  | nil => intro s _ _; exact ⟨s, rfl, by simp, rfl, rfl⟩
  | cons n rest ih =>
    intro s hnd hdis
    simp only [List.nodup_cons] at hnd
    have h2 : n ∉ s.outs := hdis n (by simp)
    obtain ⟨s', hs', ho, hv, he⟩ := ih { s with outs := n :: s.outs } hnd.2
      (by
        intro x hx
        simp only [List.mem_cons, not_or]
        refine ⟨?_, hdis x (by simp only [List.mem_cons]; exact Or.inr hx)⟩
        rintro rfl; exact hnd.1 hx)
    refine ⟨s', ?_, ?_, hv, he⟩
    · simp [seeNames, h2, hs']
    · intro x; rw [ho]; simp only [List.mem_cons]
      constructor
      · rintro (h | h | h)
        · exact Or.inl (Or.inr h)
        · exact Or.inl (Or.inl h)
        · exact Or.inr h
      · rintro ((h | h) | h)
        · exact Or.inr (Or.inl h)
        · exact Or.inl h
        · exact Or.inr (Or.inr h)


/-- the local conditions `add_data_from_component` checks, at every depth -/
def LocalOk (vars : List (Name × QTy)) (c : Component) : Prop :=
  wfNumberingC c = true ∧ wfEndpointsC c = true ∧ wfVarsC vars c = true ∧ wfOutputsC c = true

def LocalOkF (vars : List (Name × QTy)) (own : List Vid) (fs : List Fold) : Prop :=
  wfNumberingF fs = true ∧ wfEndpointsF own fs = true ∧ wfVarsF vars fs = true ∧
    wfOutputsF fs = true

theorem allVids_mk (r : Vid) (vs : List IRVertex) (es : List IREdge) (fs : List Fold)
    (os : List OutputDef) : allVids (.mk r vs es fs os) = vertexVids vs ++ foldsVids fs := by
  simp [allVids]
theorem allEids_mk (r : Vid) (vs : List IRVertex) (es : List IREdge) (fs : List Fold)
    (os : List OutputDef) : allEids (.mk r vs es fs os) = es.map (·.eid) ++ foldsEids fs := by
  simp [allEids]
theorem outputNames_mk (r : Vid) (vs : List IRVertex) (es : List IREdge) (fs : List Fold)
    (os : List OutputDef) :
    outputNames (.mk r vs es fs os) = os.map (·.name) ++ foldsOutputNames fs := by
  simp [outputNames]

theorem seeComponent_ok (vars : List (Name × QTy)) :
    (∀ c, ∀ s : Seen, LocalOk vars c → (allVids c).Nodup → (allEids c).Nodup →
      (outputNames c).Nodup → (∀ x ∈ allVids c, x ∉ s.vids) → (∀ x ∈ allEids c, x ∉ s.eids) →
      (∀ x ∈ outputNames c, x ∉ s.outs) →
      ∃ s', seeComponent vars c s = some s' ∧
        (∀ x, x ∈ s'.vids ↔ x ∈ allVids c ∨ x ∈ s.vids) ∧
        (∀ x, x ∈ s'.eids ↔ x ∈ allEids c ∨ x ∈ s.eids) ∧
        (∀ x, x ∈ s'.outs ↔ x ∈ outputNames c ∨ x ∈ s.outs)) ∧
    (∀ fs, ∀ (own : List Vid) (s : Seen), LocalOkF vars own fs → (foldsVids fs).Nodup →
      (foldsEids fs).Nodup → (foldsOutputNames fs).Nodup → (∀ x ∈ foldsVids fs, x ∉ s.vids) →
      (∀ x ∈ foldsEids fs, x ∉ s.eids) → (∀ x ∈ foldsOutputNames fs, x ∉ s.outs) →
      ∃ s', seeFolds vars own fs s = some s' ∧
        (∀ x, x ∈ s'.vids ↔ x ∈ foldsVids fs ∨ x ∈ s.vids) ∧
        (∀ x, x ∈ s'.eids ↔ x ∈ foldsEids fs ∨ x ∈ s.eids) ∧
        (∀ x, x ∈ s'.outs ↔ x ∈ foldsOutputNames fs ∨ x ∈ s.outs)) := by
  apply wfVarsC.mutual_induct
  · -- component
    intro root vs es fs os ih s hloc hnv hne hno hdv hde hdo
    obtain ⟨l1, l2, l3, l4⟩ := hloc
    rw [allVids_mk] at hnv hdv
    rw [allEids_mk] at hne hde
    rw [outputNames_mk] at hno hdo
    simp only [wfNumberingC, Bool.and_eq_true, List.all_eq_true, beq_iff_eq] at l1
    simp only [wfEndpointsC, Bool.and_eq_true, List.all_eq_true, decide_eq_true_eq,
      List.contains_eq_mem] at l2
    simp only [wfVarsC, Bool.and_eq_true, List.all_eq_true] at l3
    simp only [wfOutputsC, Bool.and_eq_true, List.all_eq_true, List.contains_eq_mem,
      decide_eq_true_eq] at l4
    rw [List.nodup_append] at hnv hne hno
    obtain ⟨s1, e1, v1, ee1, o1⟩ := seeVertices_ok vars vs s hnv.1
      (fun x hx => hdv x (List.mem_append_left _ hx)) l3.1
    obtain ⟨s2, e2, o2, v2, ee2⟩ := seeOutputs_ok (vertexVids vs) os s1 hno.1
      (fun x hx => by rw [o1]; exact hdo x (List.mem_append_left _ hx)) l4.1
    obtain ⟨s3, e3, ee3, v3, o3⟩ := seeEdges_ok (vertexVids vs) es s2 hne.1
      (fun x hx => by rw [ee2, ee1]; exact hde x (List.mem_append_left _ hx))
      (fun e he => ⟨l1.1 e he, (l2.1.2 e he).1.2, (l2.1.2 e he).2⟩)
    obtain ⟨s4, e4, v4, ee4, o4⟩ := ih (vertexVids vs) s3 ⟨l1.2, l2.2, l3.2, l4.2⟩ hnv.2.1 hne.2.1
      hno.2.1
      (by
        intro x hx
        rw [v3, v2, v1]
        rintro (h | h)
        · exact hnv.2.2 x h x hx rfl
        · exact hdv x (List.mem_append_right _ hx) h)
      (by
        intro x hx
        rw [ee3, ee2, ee1]
        rintro (h | h)
        · exact hne.2.2 x h x hx rfl
        · exact hde x (List.mem_append_right _ hx) h)
      (by
        intro x hx
        rw [o3, o2, o1]
        rintro (h | h)
        · exact hno.2.2 x h x hx rfl
        · exact hdo x (List.mem_append_right _ hx) h)
    refine ⟨s4, ?_, ?_, ?_, ?_⟩
    · have hr : root ∈ vertexVids vs := l2.1.1
      simp [seeComponent, hr, e1, e2, e3, e4]
    · intro x; rw [allVids_mk, v4, v3, v2, v1, List.mem_append]
      constructor
      · rintro (h | h | h)
        · exact Or.inl (Or.inr h)
        · exact Or.inl (Or.inl h)
        · exact Or.inr h
      · rintro ((h | h) | h)
        · exact Or.inr (Or.inl h)
        · exact Or.inl h
        · exact Or.inr (Or.inr h)
    · intro x; rw [allEids_mk, ee4, ee3, ee2, ee1, List.mem_append]
      constructor
      · rintro (h | h | h)
        · exact Or.inl (Or.inr h)
        · exact Or.inl (Or.inl h)
        · exact Or.inr h
      · rintro ((h | h) | h)
        · exact Or.inr (Or.inl h)
        · exact Or.inl h
        · exact Or.inr (Or.inr h)
    · intro x; rw [outputNames_mk, o4, o3, o2, o1, List.mem_append]
      constructor
      · rintro (h | h | h)
        · exact Or.inl (Or.inr h)
        · exact Or.inl (Or.inl h)
        · exact Or.inr h
      · rintro ((h | h) | h)
        · exact Or.inr (Or.inl h)
        · exact Or.inl h
        · exact Or.inr (Or.inr h)
  · -- no folds
    intro own s _ _ _ _ _ _ _
    exact ⟨s, rfl, by simp [foldsVids], by simp [foldsEids], by simp [foldsOutputNames]⟩
  · -- a fold, then the others
    intro e f t n ps c imports fouts post rest ihc ihr own s hloc hnv hne hno hdv hde hdo
    obtain ⟨l1, l2, l3, l4⟩ := hloc
    simp only [wfNumberingF, Bool.and_eq_true, beq_iff_eq] at l1
    simp only [wfEndpointsF, Bool.and_eq_true, decide_eq_true_eq, List.contains_eq_mem,
      beq_iff_eq] at l2
    simp only [wfVarsF, Bool.and_eq_true] at l3
    simp only [wfOutputsF, Bool.and_eq_true] at l4
    have hfv : foldsVids (Fold.mk e f t n ps c imports fouts post :: rest) =
        allVids c ++ foldsVids rest := by simp [foldsVids]
    have hfe : foldsEids (Fold.mk e f t n ps c imports fouts post :: rest) =
        (e :: allEids c) ++ foldsEids rest := by simp [foldsEids]
    have hfo : foldsOutputNames (Fold.mk e f t n ps c imports fouts post :: rest) =
        (fouts ++ outputNames c) ++ foldsOutputNames rest := by simp [foldsOutputNames]
    rw [hfv] at hnv hdv
    rw [hfe] at hne hde
    rw [hfo] at hno hdo
    rw [List.nodup_append] at hnv hne hno
    obtain ⟨hne1, hne2, hne3⟩ := hne
    rw [List.nodup_cons] at hne1
    obtain ⟨hno1, hno2, hno3⟩ := hno
    rw [List.nodup_append] at hno1
    -- the fold's own outputs
    obtain ⟨s1, e1, o1, v1, ee1⟩ := seeNames_ok fouts { s with eids := e :: s.eids } hno1.1
      (fun x hx => hdo x (List.mem_append_left _ (List.mem_append_left _ hx)))
    -- its component
    obtain ⟨s2, e2, v2, ee2, o2⟩ := ihc s1 ⟨l1.1.2, l2.1.2, l3.1.2, l4.1⟩ hnv.1 hne1.2 hno1.2.1
      (by
        intro x hx
        rw [v1]
        exact hdv x (List.mem_append_left _ hx))
      (by
        intro x hx
        rw [ee1]
        simp only [List.mem_cons, not_or]
        refine ⟨?_, hde x (List.mem_append_left _ (List.mem_cons_of_mem _ hx))⟩
        rintro rfl; exact hne1.1 hx)
      (by
        intro x hx
        rw [o1]
        rintro (h | h)
        · exact hno1.2.2 x h x hx rfl
        · exact hdo x (List.mem_append_left _ (List.mem_append_right _ hx)) h)
    -- the other folds
    obtain ⟨s3, e3, v3, ee3, o3⟩ := ihr own s2 ⟨l1.2, l2.2, l3.2, l4.2⟩ hnv.2.1 hne2 hno2
      (by
        intro x hx
        rw [v2, v1]
        rintro (h | h)
        · exact hnv.2.2 x h x hx rfl
        · exact hdv x (List.mem_append_right _ hx) h)
      (by
        intro x hx
        rw [ee2, ee1]
        simp only [List.mem_cons]
        rintro (h | h | h)
        · exact hne3 x (List.mem_cons_of_mem _ h) x hx rfl
        · exact hne3 e (List.mem_cons_self) x hx h.symm
        · exact hde x (List.mem_append_right _ hx) h)
      (by
        intro x hx
        rw [o2, o1]
        rintro (h | h | h)
        · exact hno3 x (List.mem_append_right _ h) x hx rfl
        · exact hno3 x (List.mem_append_left _ h) x hx rfl
        · exact hdo x (List.mem_append_right _ hx) h)
    refine ⟨s3, ?_, ?_, ?_, ?_⟩
    · have h0 : (e + 1 != t) = false := by simp [l1.1.1]
      have h1 : f ∈ own := l2.1.1.1.2
      have h2 : (t != c.root) = false := by simp [l2.1.1.2]
      have h3 : e ∉ s.eids := hde e (List.mem_append_left _ List.mem_cons_self)
      simp [seeFolds, h0, h1, h2, h3, e1, e2, e3]
    · intro x; rw [hfv, v3, v2, v1, List.mem_append]
      constructor
      · rintro (h | h | h)
        · exact Or.inl (Or.inr h)
        · exact Or.inl (Or.inl h)
        · exact Or.inr h
      · rintro ((h | h) | h)
        · exact Or.inr (Or.inl h)
        · exact Or.inl h
        · exact Or.inr (Or.inr h)
    · intro x; rw [hfe, ee3, ee2, ee1]
      simp only [List.mem_append, List.mem_cons]
      constructor
      · rintro (h | h | h | h)
        · exact Or.inl (Or.inr h)
        · exact Or.inl (Or.inl (Or.inr h))
        · exact Or.inl (Or.inl (Or.inl h))
        · exact Or.inr h
      · rintro (((h | h) | h) | h)
        · exact Or.inr (Or.inr (Or.inl h))
        · exact Or.inr (Or.inl h)
        · exact Or.inl h
        · exact Or.inr (Or.inr (Or.inr h))
    · intro x; rw [hfo, o3, o2, o1]
      simp only [List.mem_append]
      constructor
      · rintro (h | h | h | h)
        · exact Or.inl (Or.inr h)
        · exact Or.inl (Or.inl (Or.inr h))
        · exact Or.inl (Or.inl (Or.inl h))
        · exact Or.inr h
      · rintro (((h | h) | h) | h)
        · exact Or.inr (Or.inr (Or.inl h))
        · exact Or.inr (Or.inl h)
        · exact Or.inl h
        · exact Or.inr (Or.inr (Or.inr h))


/-! ### outputs of compiled queries -/

theorem mem_insertOutput {o x : OutputDef} {l : List OutputDef} :
    x ∈ insertOutput o l ↔ x = o ∨ x ∈ l := by
  induction l with
  | nil => simp [insertOutput]
  | cons y rest ih =>
    simp only [insertOutput]
    split
    · simp
    · simp only [List.mem_cons, ih]
      constructor
      · rintro (h | h | h)
        · exact Or.inr (Or.inl h)
        · exact Or.inl h
        · exact Or.inr (Or.inr h)
      · rintro (h | h | h)
        · exact Or.inr (Or.inl h)
        · exact Or.inl h
        · exact Or.inr (Or.inr h)

theorem mem_sortOutputs {x : OutputDef} {l : List OutputDef} : x ∈ sortOutputs l ↔ x ∈ l := by
  induction l with
  | nil => simp [sortOutputs]
  | cons y rest ih =>
    simp only [sortOutputs, List.foldr_cons] at ih ⊢
    rw [mem_insertOutput, ih]; simp

theorem count_insertOutput (o : OutputDef) (l : List OutputDef) (x : Name) :
    ((insertOutput o l).map (·.name)).count x = ([o.name].count x) + (l.map (·.name)).count x := by
  induction l with
  | nil => simp [insertOutput]
  | cons y rest ih =>
    simp only [insertOutput]
    split
    · simp [List.count_cons]; omega
    · simp only [List.map_cons, List.count_cons, ih]
      simp only [List.count_nil]
      omega

theorem count_sortOutputs (l : List OutputDef) (x : Name) :
    ((sortOutputs l).map (·.name)).count x = (l.map (·.name)).count x := by
  induction l with
  | nil => simp [sortOutputs]
  | cons y rest ih =>
    simp only [sortOutputs, List.foldr_cons] at ih ⊢
    rw [count_insertOutput, ih]
    simp [List.count_cons]; omega

theorem count_insertName (n : Name) (l : List Name) (x : Name) :
    (insertName n l).count x ≤ [n].count x + l.count x := by
  induction l with
  | nil => simp [insertName]
  | cons y rest ih =>
    simp only [insertName]
    split
    · simp [List.count_cons]; omega
    · split
      · simp [List.count_cons]
      · simp only [List.count_cons] at ih ⊢
        simp only [List.count_nil] at ih ⊢
        omega

theorem count_countOutputs (fds : List FDir) (x : Name) :
    (countOutputs fds).count x ≤ (countOutputNames fds).count x := by
  induction fds with
  | nil => simp [countOutputs, countOutputNames]
  | cons d rest ih =>
    cases d with
    | countOutput o =>
      simp only [countOutputs, countOutputNames]
      have := count_insertName o (countOutputs rest) x
      simp only [List.count_cons, List.count_nil] at this ⊢
      omega
    | countTag t => simpa [countOutputs, countOutputNames] using ih
    | countFilter op arg => simpa [countOutputs, countOutputNames] using ih

theorem outputDirs_names (vid : Vid) (n : Name) (ty : QTy) (dirs : List Dir) :
    (outputDirs vid n ty dirs).map (·.name) =
      dirs.filterMap fun d => match d with | .output o => some o | _ => none := by
  induction dirs with
  | nil => simp [outputDirs]
  | cons d rest ih => cases d <;> simp [outputDirs, ih]

theorem outputDirs_vid {vid : Vid} {n : Name} {ty : QTy} {dirs : List Dir} {o : OutputDef}
    (h : o ∈ outputDirs vid n ty dirs) : o.vid = vid := by
  induction dirs with
  | nil => simp [outputDirs] at h
  | cons d rest ih =>
    cases d with
    | output x =>
      simp only [outputDirs, List.mem_cons] at h
      rcases h with rfl | h
      · rfl
      · exact ih h
    | filter op arg => exact ih (by simpa [outputDirs] using h)
    | tag t => exact ih (by simpa [outputDirs] using h)

theorem foldsOutputNames_append (a b : List Fold) :
    foldsOutputNames (a ++ b) = foldsOutputNames a ++ foldsOutputNames b := by
  induction a with
  | nil => simp [foldsOutputNames]
  | cons f rest ih => cases f; simp [foldsOutputNames, ih]

theorem wfOutputsF_append (a b : List Fold) :
    wfOutputsF (a ++ b) = (wfOutputsF a && wfOutputsF b) := by
  induction a with
  | nil => simp [wfOutputsF]
  | cons f rest ih => cases f; simp [wfOutputsF, ih, Bool.and_assoc]

/-- all output names in the pieces of a component under construction -/
def accOutNames (a : Acc) : List Name := a.outs.map (·.name) ++ foldsOutputNames a.folds

theorem accOutNames_append_count (a b : Acc) (x : Name) :
    (accOutNames (a ++ b)).count x = (accOutNames a).count x + (accOutNames b).count x := by
  simp [accOutNames, foldsOutputNames_append, List.count_append]; omega

/-- outputs collected at (and below) vertex `vid` are read at vertices of the component -/
structure OutsOk (vid : Vid) (acc : Acc) : Prop where
  own : ∀ o ∈ acc.outs, o.vid = vid ∨ o.vid ∈ acc.verts.map (·.vid)
  folds : wfOutputsF acc.folds = true

theorem OutsOk.append {vid : Vid} {a b : Acc} (ha : OutsOk vid a) (hb : OutsOk vid b) :
    OutsOk vid (a ++ b) := by
  refine ⟨?_, by simp [wfOutputsF_append, ha.folds, hb.folds]⟩
  intro o ho
  simp only [Acc.append_outs, List.mem_append] at ho
  simp only [Acc.append_verts, List.map_append, List.mem_append]
  rcases ho with ho | ho
  · exact (ha.own o ho).imp id Or.inl
  · exact (hb.own o ho).imp id Or.inr

theorem OutsOk.reroot {vid w : Vid} {acc : Acc} (hw : w ∈ acc.verts.map (·.vid))
    (h : OutsOk w acc) : OutsOk vid acc := by
  refine ⟨?_, h.folds⟩
  intro o ho
  rcases h.own o ho with h1 | h1
  · exact Or.inr (h1 ▸ hw)
  · exact Or.inr h1


theorem finish_outputs {path root acc st comp evs st'}
    (h : finishComponent path root acc st = .ok (comp, evs, st'))
    (hroot : root ∈ acc.verts.map (·.vid)) (ho : OutsOk root acc) :
    wfOutputsC comp = true ∧ ∀ x, (outputNames comp).count x = (accOutNames acc).count x := by
  obtain ⟨vs, ev, h1, rfl, _⟩ := finishComponent_inv h
  have hv := (makeVertices_inv h1).2
  constructor
  · simp only [wfOutputsC, Bool.and_eq_true, List.all_eq_true, List.contains_eq_mem,
      decide_eq_true_eq, vertexVids, hv]
    refine ⟨?_, ho.folds⟩
    intro o hom
    rcases ho.own o (mem_sortOutputs.mp hom) with h1 | h1
    · exact h1 ▸ hroot
    · exact h1
  · intro x
    simp only [outputNames, accOutNames, List.count_append, count_sortOutputs]

theorem fieldsOutputNames_edge {n : Name} {params : Params} {kind : Kind} {child : QNode}
    {rest : List QField} (hk : ∀ fds, kind = .fold fds → False) :
    fieldsOutputNames (.edge n params kind child :: rest) =
      treeOutputNames child ++ fieldsOutputNames rest := by
  cases kind with
  | fold fds => exact absurd rfl (hk fds)
  | plain => simp [fieldsOutputNames]
  | optional => simp [fieldsOutputNames]
  | recurse d => simp [fieldsOutputNames]

theorem fieldsOutputNames_prop (vid : Vid) (ty : QTy) (n : Name) (dirs : List Dir)
    (rest : List QField) :
    fieldsOutputNames (.prop n dirs :: rest) =
      (outputDirs vid n ty dirs).map (·.name) ++ fieldsOutputNames rest := by
  simp only [fieldsOutputNames]
  congr 1
  induction dirs with
  | nil => simp [outputDirs]
  | cons d ds ih => cases d <;> simp [outputDirs, ih]

theorem outs_spec (S : SchemaView) :
    (∀ path vid pre node st acc st', fillNode S path vid pre node st = .ok (acc, st') →
      vid ∈ acc.verts.map (·.vid) ∧ OutsOk vid acc ∧
        ∀ x, (accOutNames acc).count x ≤ (treeOutputNames node).count x) ∧
    (∀ path vid ty fields st acc st', fillFields S path vid ty fields st = .ok (acc, st') →
      OutsOk vid acc ∧ ∀ x, (accOutNames acc).count x ≤ (fieldsOutputNames fields).count x) := by
  apply fill_induct S
    (P1 := fun _ vid _ node _ acc _ => vid ∈ acc.verts.map (·.vid) ∧ OutsOk vid acc ∧
      ∀ x, (accOutNames acc).count x ≤ (treeOutputNames node).count x)
    (P2 := fun _ vid _ fields _ acc _ => OutsOk vid acc ∧
      ∀ x, (accOutNames acc).count x ≤ (fieldsOutputNames fields).count x)
  · -- node
    intro path vid pre coerceTo fields st post acc1 st' _ _ ih
    refine ⟨by simp, OutsOk.append ⟨by simp, rfl⟩ ih.1, ?_⟩
    intro x
    rw [accOutNames_append_count]
    have := ih.2 x
    simp only [treeOutputNames]
    simp [accOutNames, foldsOutputNames] at this ⊢
    exact this
  · -- nil
    intro path vid ty st
    exact ⟨⟨by simp, rfl⟩, by intro x; simp [accOutNames, foldsOutputNames, fieldsOutputNames]⟩
  · -- prop
    intro path vid ty n dirs rest st pty st1 acc1 st' _ _ _ ih
    refine ⟨OutsOk.append ⟨?_, rfl⟩ ih.1, ?_⟩
    · intro o ho
      exact Or.inl (outputDirs_vid ho)
    · intro x
      rw [accOutNames_append_count]
      have := ih.2 x
      rw [fieldsOutputNames_prop vid pty]
      simp only [List.count_append]
      simp only [accOutNames, foldsOutputNames, List.append_nil] at this ⊢
      omega
  · -- fold
    intro path vid ty n params fds child rest st ed ps accIn st2 comp evs st3 post evPost st4 st5
      accR st' _ _ _ h4 _ _ _ ihC ihR
    obtain ⟨f1, f2⟩ := finish_outputs h4 ihC.1 ihC.2.1
    refine ⟨OutsOk.append ⟨by simp, ?_⟩ ihR.1, ?_⟩
    · simp [mkFold, wfOutputsF, f1]
    · intro x
      rw [accOutNames_append_count]
      have h1 := ihR.2 x
      have h2 := ihC.2.2 x
      have h3 := count_countOutputs fds x
      have h4' := f2 x
      simp only [fieldsOutputNames, List.count_append]
      simp only [accOutNames, mkFold, foldsOutputNames, List.map_nil, List.nil_append,
        List.append_nil, List.count_append] at h1 h2 h4' ⊢
      omega
  · -- other edges
    intro path vid ty n params kind child rest st ed ps r accC st2 accR st' hk _ _ _ _ _ ihC ihR
    refine ⟨OutsOk.append (OutsOk.append ⟨by simp, rfl⟩ (OutsOk.reroot ihC.1 ihC.2.1)) ihR.1, ?_⟩
    intro x
    rw [accOutNames_append_count, accOutNames_append_count, fieldsOutputNames_edge hk]
    have h1 := ihR.2 x
    have h2 := ihC.2.2 x
    simp only [List.count_append]
    simp only [accOutNames, foldsOutputNames, List.map_nil, List.nil_append, List.count_nil] at h1 h2 ⊢
    omega


/-- `IndexedQuery::try_from` succeeds on every well-formed query whose outputs are read at
vertices of their own component and have distinct names. -/
theorem indexed_ok_of_wf {q : IRQuery} (hwf : WF q = true) (ho : outputsOk q = true) :
    indexedOk q = true := by
  simp only [WF, Bool.and_eq_true] at hwf
  obtain ⟨⟨⟨⟨⟨⟨⟨w1, w2⟩, _⟩, w4⟩, _⟩, _⟩, w7⟩, _⟩ := hwf
  simp only [wfUnique, Bool.and_eq_true, natsDistinct_iff] at w2
  simp only [outputsOk, Bool.and_eq_true, namesDistinct_iff] at ho
  obtain ⟨s', hs, _⟩ := (seeComponent_ok q.variables).1 q.rootComponent {} ⟨w1, w4, w7, ho.1⟩
    w2.1 w2.2 ho.2 (by intro x _; simp) (by intro x _; simp) (by intro x _; simp)
  simp [indexedOk, hs]

theorem toIR_outputs_ok {S : SchemaView} {q : Query} {ir : IRQuery} (h : toIR S q = .ok ir) :
    outputsOk ir = true := by
  obtain ⟨root, rootParams, acc, st1, comp, evs, st2, vars, _, _, h3, h4, _, _, h7, rfl⟩ := toIR_inv h
  obtain ⟨hin, hok, hcnt⟩ := (outs_spec S).1 _ _ _ _ _ _ _ h3
  obtain ⟨f1, f2⟩ := finish_outputs h4 hin hok
  simp only [outputsOk, Bool.and_eq_true]
  refine ⟨f1, ?_⟩
  rw [namesDistinct_iff] at h7 ⊢
  rw [List.nodup_iff_count] at h7 ⊢
  intro x
  have := hcnt x
  have := h7 x
  have := f2 x
  show (outputNames comp).count x ≤ 1
  omega

/-- The `unwrap()` in `frontend::parse` is safe: `IndexedQuery::try_from` accepts every compiled
query. -/
theorem toIR_indexed_ok' {S : SchemaView} {q : Query} {ir : IRQuery} (h : toIR S q = .ok ir)
    (hwf : WF ir = true) : indexedOk ir = true :=
  indexed_ok_of_wf hwf (toIR_outputs_ok h)


end TF.Frontend
