/-
C10, frontend layer: the induction over the query tree (`fill_in_vertex_data` with the folds it
builds on the way).
-/
import TrustfallModel.Proofs.FrontendMain
namespace TF.FE
open Res

theorem propType_typename (S : SchemaView) (T : String) :
    propType S T TYPENAME = some (FTy.named "String" false) := by
  simp [propType]

theorem propType_field {S : SchemaView} {T name : String} {fd : FieldDef}
    (h : S.field T name = some fd) (hne : name ≠ TYPENAME) : propType S T name = some fd.ty := by
  simp [propType, hne, h]

/-- Does the connection carry `@fold @transform … @transform`? -/
def FieldConnection.hasRetr (c : FieldConnection) : Bool :=
  match c.fold with
  | some fg => fg.hasRetr
  | none => false

mutual
/-- Does some field below the node carry `@fold @transform … @transform` (F-7's trigger)? -/
def hasRetrNode : FieldNode → Bool
  | .mk _ _ _ _ _ _ conns _ => hasRetrConns conns
def hasRetrConns : List (FieldConnection × FieldNode) → Bool
  | [] => false
  | (c, n) :: rest => c.hasRetr || hasRetrNode n || hasRetrConns rest
end

/- (History: `hasEnumNode` / `hasEnumConns`, "some field below has an enum literal among its
arguments" — N-2's trigger — were defined here and threaded through the two theorems below as a second
flag until the repair of N-2 / F-C10-2.) -/

mutual
theorem fillNode_sat {S : SchemaView} (hS : ValidSchemaView S) :
    ∀ (node : FieldNode) (cur : Vid) (pre post : String) (st : St) (cd : CD),
      st.Inv → 0 < st.outStack.length → CD.Inv S st cd → (∀ v ∈ cd.vertices, v.vid ≠ cur) →
      cur < st.nextVid → S.isVertexType post = true → node.coercedTo.getD pre = post →
      ValidNode S post node →
      Sat (FillSite (hasRetrNode node)) (fillNode S cur pre post node st cd)
        (fun r => FillPost S st cd r.1 r.2.1 (r.2.2 = []) ∧
          cur ∈ r.2.1.vertices.map (·.vid))
  | .mk name alias coercedTo filters outputs tags conns tg, cur, pre, post, st, cd,
    hinv, hout, hcd, hfresh, hlt, hvt, hpost, hvalid => by
    unfold fillNode
    have hany : cd.vertices.any (fun v => v.vid == cur) = false := by
      rw [List.any_eq_false]
      intro v hv
      simpa using hfresh v hv
    rw [hany]
    simp only [Bool.false_eq_true, ↓reduceIte]
    obtain ⟨t, ht⟩ := Option.isSome_iff_exists.mp hvt
    have hdef : getVertexFieldDefinitions S post = .ok t.fields := by
      simp [getVertexFieldDefinitions, ht]
    rw [hdef]
    simp only [bind_ok]
    -- the component data with the new vertex
    let rec0 : VertexRec :=
      ⟨cur, pre, name, coercedTo, !filters.isEmpty, !outputs.isEmpty, !tags.isEmpty⟩
    have hrec_post : rec0.postType = post := by
      simpa [VertexRec.postType, FieldNode.coercedTo] using hpost
    have hcd1 : CD.Inv S st { cd with vertices := cd.vertices ++ [rec0] } := by
      refine ⟨?_, ?_, hcd.eidsLt, ?_, ?_⟩
      · simp only [List.map_append, List.map_cons, List.map_nil]
        refine List.nodup_append.mpr ⟨hcd.nodup, by simp, ?_⟩
        intro a ha b hb
        simp at hb
        obtain ⟨v, hv, hva⟩ := List.mem_map.mp ha
        rw [hb, ← hva]
        exact hfresh v hv
      · intro v hv
        rcases List.mem_append.mp hv with h | h
        · exact hcd.vidsLt v h
        · simp at h; subst h; exact hlt
      · intro e he
        obtain ⟨v, hv, h⟩ := hcd.edgesOk e he
        exact ⟨v, List.mem_append_left _ hv, h⟩
      · intro p hp
        obtain ⟨v, hv, h⟩ := hcd.propsOk p hp
        exact ⟨v, List.mem_append_left _ hv, h⟩
    have hcur : ∃ v0 ∈ (cd.vertices ++ [rec0]), v0.vid = cur ∧ v0.postType = post :=
      ⟨rec0, List.mem_append_right _ (by simp), rfl, hrec_post⟩
    have hconns : ValidConns S post conns := by simpa [ValidNode] using hvalid
    refine ((fillConnections_sat hS conns cur post t.fields st
      { cd with vertices := cd.vertices ++ [rec0] } [] hinv hout hcd1 hcur ⟨t, ht, rfl⟩
      hconns).monoK (fun _ h => h.mono (by simp [hasRetrNode]))).mono
      fun r hr => ?_
    obtain ⟨more, hmore, hpost'⟩ := hr
    have hiff : r.2.2 = [] → more = [] := by intro h; simpa [hmore] using h
    refine ⟨⟨hpost'.step.weaken hiff, hpost'.cdInv, ?_, ?_, fun h => hpost'.outs (hiff h),
      fun h => (by simpa using hpost'.tops (hiff h))⟩, ?_⟩
    · intro v hv; exact hpost'.verts v (List.mem_append_left _ hv)
    · intro x hx
      apply hpost'.vids
      simp only [cdVids, List.map_append, List.mem_append] at hx ⊢
      rcases hx with h | h
      · exact Or.inl (Or.inl h)
      · exact Or.inr h
    · exact List.mem_map.mpr ⟨rec0, hpost'.verts rec0 (List.mem_append_right _ (by simp)), rfl⟩
theorem fillConnections_sat {S : SchemaView} (hS : ValidSchemaView S) :
    ∀ (l : List (FieldConnection × FieldNode)) (cur : Vid) (postType : String)
      (defined : List FieldDef) (st : St) (cd : CD) (errs : List FrontErr),
      st.Inv → 0 < st.outStack.length → CD.Inv S st cd →
      (∃ v0 ∈ cd.vertices, v0.vid = cur ∧ v0.postType = postType) →
      (∃ t, S.vertexType postType = some t ∧ defined = t.fields) → ValidConns S postType l →
      Sat (FillSite (hasRetrConns l))
        (fillConnections S cur postType defined l st cd errs)
        (fun r => ∃ more, r.2.2 = errs ++ more ∧
          FillPost S st cd r.1 r.2.1 (more = []))
  | [], cur, postType, defined, st, cd, errs, hinv, _, hcd, _, _, _ => by
    unfold fillConnections
    exact ⟨[], by simp, FillPost.refl hinv hcd _⟩
  | (conn, sub) :: rest, cur, postType, defined, st, cd, errs, hinv, hout, hcd, hcur, hdef,
    hvalid => by
    rw [validConns_cons] at hvalid
    obtain ⟨⟨hcn, hca, hchild⟩, hrest⟩ := hvalid
    obtain ⟨t, ht, hdefined⟩ := hdef
    -- the continuation: the remaining connections
    have hk : ∀ (st3 : St) (cd3 : CD) (e : List FrontErr), st3.Inv → 0 < st3.outStack.length →
        CD.Inv S st3 cd3 → (∃ v0 ∈ cd3.vertices, v0.vid = cur ∧ v0.postType = postType) →
        Sat (FillSite (hasRetrConns ((conn, sub) :: rest)))
          (fillConnections S cur postType defined rest st3 cd3 (errs ++ e))
          (fun r => ∃ more, r.2.2 = (errs ++ e) ++ more ∧
            FillPost S st3 cd3 r.1 r.2.1 (more = [])) :=
      fun st3 cd3 e h3 ho3 hc3 hcur3 =>
        ((fillConnections_sat hS rest cur postType defined st3 cd3 (errs ++ e) h3 ho3 hc3 hcur3
          ⟨t, ht, hdefined⟩ hrest).monoK (fun _ h => h.mono (by
            intro h'; simp [hasRetrConns, h'])))
    unfold fillConnections
    by_cases htn : sub.name = TYPENAME
    · -- `__typename`: a property
      have hinfo : getFieldNameAndType defined sub.name sub.coercedTo =
          .ok (TYPENAME, TYPENAME, TYPENAME, FTy.named "String" false) := by
        simp [getFieldNameAndType, htn]
      rw [hinfo]
      simp only [bind_ok, hS.typenameFree, Bool.false_eq_true, ↓reduceIte]
      have hcond : (isBuiltinScalar TYPENAME || S.scalars.contains TYPENAME || TYPENAME == TYPENAME)
          = true := by simp
      rw [hcond]
      simp only [↓reduceIte]
      refine Sat.bind ((fillProperty_sat hinv hout hcd hcur (propType_typename S postType) conn
        sub.name sub.alias sub.filters sub.outputs sub.tags).monoK (fun _ h => h.elim))
        fun r hr => ?_
      obtain ⟨hstep, hlen, hcdr, hvr, her, hfr, hnew, htopn⟩ := hr
      have hcurvid : ∀ f : FieldRefM, f.vid = cur → f.vid ∈ cdVids r.2.1 := by
        intro f hf
        obtain ⟨v0, hv0, hv0c, _⟩ := hcur
        simp only [cdVids, hvr, List.mem_append]
        left
        rw [hf, ← hv0c]
        exact List.mem_map_of_mem (f := (·.vid)) hv0
      have hpost1 : FillPost S st cd r.1 r.2.1 True := by
        refine ⟨hstep, hcdr, fun v hv => by rw [hvr]; exact hv, ?_, fun _ => ?_, fun _ => ?_⟩
        · intro x hx; simpa [cdVids, hvr, hfr] using hx
        · exact hnew.trans (OutNew.refl _ _) hcurvid (fun _ h => h)
        · exact htopn.trans (TopNew.refl _ _) hcurvid (fun _ h => h)
      have hout' : 0 < r.1.outStack.length := by rw [hlen]; exact hout
      have hcur' : ∃ v0 ∈ r.2.1.vertices, v0.vid = cur ∧ v0.postType = postType := by
        rw [hvr]; exact hcur
      refine (hk r.1 r.2.1 r.2.2 hstep.inv hout' hcdr hcur').mono fun r' hr' => ?_
      obtain ⟨more, hmore, hpost2⟩ := hr'
      refine ⟨r.2.2 ++ more, by rw [hmore, List.append_assoc], ?_⟩
      exact hpost1.trans hpost2 (fun h => ⟨trivial, (List.append_eq_nil_iff.mp h).2⟩)
    · -- a field of the schema
      rcases hchild with h | ⟨fd, hfield, hco⟩
      · exact absurd h htn
      obtain ⟨t', ht', htmem, _, hfind, hfdmem, hfdname⟩ := field_eq_some hfield
      have htt : t' = t := by rw [ht] at ht'; exact (Option.some.inj ht').symm
      rw [htt] at htmem hfind hfdmem
      have hinfo : getFieldNameAndType defined sub.name sub.coercedTo =
          .ok (fd.name, fd.ty.base, sub.coercedTo.getD fd.ty.base, fd.ty) := by
        have : (sub.name == TYPENAME) = false := by simpa using htn
        simp [getFieldNameAndType, this, hdefined, hfind]
      rw [hinfo]
      simp only [bind_ok]
      by_cases hedge : S.isVertexType (sub.coercedTo.getD fd.ty.base) = true
      · -- an edge
        rw [if_pos hedge]
        have hsubvalid : ValidNode S (sub.coercedTo.getD fd.ty.base) sub := by
          cases hc : sub.coercedTo with
          | none => simp only [hc] at hco; simpa using hco
          | some c' => simp only [hc] at hco; simpa using hco.2
        -- allocate ids, open the scope
        have hinv0 : St.Inv { st with nextVid := st.nextVid + 1, nextEid := st.nextEid + 1 } :=
          ⟨hinv.path_ne, hinv.imported_keys, hinv.tags_path_ne,
           fun p hp => Nat.lt_succ_of_lt (hinv.prefixes_lt p hp), hinv.stack_prefixed⟩
        obtain ⟨st1, hbegin, h1inv, h1vs, h1pf, h1path, h1out, h1nv, h1ne, h1go, _, _⟩ :=
          beginNestedScope_sat hinv0 st.nextVid sub.alias (Nat.lt_succ_self _)
            (fun p hp => hinv.prefixes_lt p hp)
        rw [hbegin]
        simp only [bind_ok]
        have h1nv' : st1.nextVid = st.nextVid + 1 := h1nv
        have h1ne' : st1.nextEid = st.nextEid + 1 := h1ne
        have h1out' : 0 < st1.outStack.length := by rw [h1out]; exact hout
        have hcd_st1 : CD.Inv S st1 cd :=
          hcd.mono (by rw [h1nv']; exact Nat.le_succ _) (by rw [h1ne']; exact Nat.le_succ _)
        have hconn_field : S.field postType conn.name = some fd := by rw [hcn]; exact hfield
        obtain ⟨v0, hv0, hv0c, hv0p⟩ := hcur
        -- the edge's own processing
        have hinner : ∃ cdIn, (∀ x ∈ cd.vertices, x ∈ cdIn.vertices) ∧
            (∀ x ∈ cdVids cd, x ∈ cdVids cdIn) ∧
            Sat (FillSite (hasRetrConns ((conn, sub) :: rest)))
              (match conn.fold with
               | some fg =>
                 let e1 := (if conn.optional then [FrontErr.UnsupportedDirectiveOnFoldedEdge] else []) ++
                   (if conn.recurse.isSome then [FrontErr.UnsupportedDirectiveOnFoldedEdge] else [])
                 getEdgeDefinition S postType conn.name .edgeLookup >>= fun edgeDef =>
                 makeEdgeParameters edgeDef conn.arguments >>= fun paramErrs =>
                 if !paramErrs.isEmpty then .ok (st1, cd, e1 ++ paramErrs)
                 else
                   fillNode S st.nextVid fd.ty.base (sub.coercedTo.getD fd.ty.base) sub
                     (foldEnter st1 st.nextVid) CD.empty >>=
                   foldAfterFill S fg st.nextEid st.nextVid sub.name sub.alias
                     (!sub.outputs.isEmpty) cd e1
               | none =>
                 if cd.edges.any (·.eid == st.nextEid) then .panic .edgeInsert
                 else
                   fillNode S st.nextVid fd.ty.base (sub.coercedTo.getD fd.ty.base) sub st1
                     { cd with edges := cd.edges ++ [⟨st.nextEid, cur, st.nextVid, conn⟩] })
              (fun r => FillPost S st1 cdIn r.1 r.2.1
                (r.2.2 = [])) := by
          cases hf : conn.fold with
          | some fg =>
            refine ⟨cd, fun _ h => h, fun _ h => h, ?_⟩
            simp only
            rw [getEdgeDefinition_of_field hconn_field]
            simp only [bind_ok]
            have hsubretr : ∀ {s : Site}, FillSite (hasRetrNode sub) s →
                FillSite (hasRetrConns ((conn, sub) :: rest)) s :=
              fun h => h.mono (by intro h'; simp [hasRetrConns, h'])
            have hfgretr : ∀ {s : Site}, FillSite fg.hasRetr s →
                FillSite (hasRetrConns ((conn, sub) :: rest)) s :=
              fun h => h.mono (by
                intro h'; simp [hasRetrConns, FieldConnection.hasRetr, hf, h'])
            refine Sat.bind ((makeEdgeParameters_sat fd _ (hS.paramsDistinct t htmem fd hfdmem)).monoK
              (fun _ h => h.elim))
              fun paramErrs _ => ?_
            split
            · rename_i hne
              have hfalse : ¬ ((if conn.optional = true then [FrontErr.UnsupportedDirectiveOnFoldedEdge] else []) ++
                  (if conn.recurse.isSome = true then [FrontErr.UnsupportedDirectiveOnFoldedEdge] else []) ++
                  paramErrs = []) := by
                intro h
                have : paramErrs = [] := (List.append_eq_nil_iff.mp h).2
                simp [this] at hne
              exact ⟨St.Step.refl h1inv _, hcd_st1, fun _ h => h, fun _ h => h,
                fun h => absurd h hfalse, fun h => absurd h hfalse⟩
            · obtain ⟨hfe_inv, hfe_path, hfe_out, hfe_vs, hfe_nv, hfe_ne, hfe_pf, hfe_go⟩ :=
                foldEnter_inv h1inv st.nextVid
              have hfe_outlen : 0 < (foldEnter st1 st.nextVid).outStack.length := by
                rw [hfe_out]; simp
              have hempty : CD.Inv S (foldEnter st1 st.nextVid) CD.empty :=
                ⟨by simp [CD.empty], by simp [CD.empty], by simp [CD.empty], by simp [CD.empty],
                 by simp [CD.empty]⟩
              refine Sat.bind ((fillNode_sat hS sub st.nextVid fd.ty.base _ _ CD.empty hfe_inv
                hfe_outlen hempty (by simp [CD.empty]) (by rw [hfe_nv, h1nv']; exact Nat.lt_succ_self _)
                hedge rfl hsubvalid).monoK (fun _ h => hsubretr h)) fun r hr => ?_
              exact (foldAfterFill_sat hS h1inv h1out' hcd_st1 st.nextVid fg st.nextEid sub.name
                sub.alias _ _ r hr.1 hr.2).monoK (fun _ h => hfgretr h)
          | none =>
            refine ⟨{ cd with edges := cd.edges ++ [⟨st.nextEid, cur, st.nextVid, conn⟩] },
              fun _ h => h, fun _ h => h, ?_⟩
            simp only
            have hany : cd.edges.any (fun e => e.eid == st.nextEid) = false := by
              rw [List.any_eq_false]
              intro e he
              have hlt := hcd.eidsLt e he
              simp only [beq_iff_eq]
              exact Nat.ne_of_lt hlt
            rw [hany]
            simp only [Bool.false_eq_true, ↓reduceIte]
            have hcd2 : CD.Inv S st1
                { cd with edges := cd.edges ++ [⟨st.nextEid, cur, st.nextVid, conn⟩] } := by
              refine ⟨hcd_st1.nodup, hcd_st1.vidsLt, ?_, ?_, hcd_st1.propsOk⟩
              · intro e he
                rcases List.mem_append.mp he with h | h
                · exact hcd_st1.eidsLt e h
                · simp at h; subst h; rw [h1ne']; exact Nat.lt_succ_self _
              · intro e he
                rcases List.mem_append.mp he with h | h
                · exact hcd_st1.edgesOk e h
                · simp at h; subst h
                  exact ⟨v0, hv0, hv0c, fd, by rw [hv0p]; exact hconn_field⟩
            refine ((fillNode_sat hS sub st.nextVid fd.ty.base _ st1 _ h1inv h1out' hcd2 ?_
              (by rw [h1nv']; exact Nat.lt_succ_self _) hedge rfl hsubvalid).monoK
              (fun _ h => h.mono (by intro h'; simp [hasRetrConns, h']))).mono
              fun r hr => hr.1
            intro v hv
            exact Nat.ne_of_lt (hcd.vidsLt v hv)
        obtain ⟨cdIn, hverts, hvids, hsat⟩ := hinner
        exact edgeTail_sat hinv hout h1inv h1vs (fun p hp => by rw [h1pf]; exact List.mem_append_left _ hp)
          h1path h1out (by rw [h1nv']; exact Nat.le_succ _) (by rw [h1ne']; exact Nat.le_succ _) h1go
          hverts hvids ⟨v0, hv0, hv0c, hv0p⟩ _ hsat
          (fun st3 cd3 e => fillConnections S cur postType defined rest st3 cd3 e) errs hk
      · -- a property
        rw [if_neg hedge]
        have hco_none : sub.coercedTo = none := by
          cases hc : sub.coercedTo with
          | none => rfl
          | some c' =>
            simp only [hc] at hco
            exact absurd (by simpa [hc] using hco.1) hedge
        have hbase : sub.coercedTo.getD fd.ty.base = fd.ty.base := by simp [hco_none]
        have hbuiltin : isBuiltinScalar fd.ty.base = true := by
          rcases hS.fieldTypes t htmem fd hfdmem with h | h
          · exact h
          · rw [hbase] at hedge; exact absurd h hedge
        have hcond : (isBuiltinScalar (sub.coercedTo.getD fd.ty.base) ||
            S.scalars.contains (sub.coercedTo.getD fd.ty.base) || fd.name == TYPENAME) = true := by
          rw [hbase, hbuiltin]; simp
        rw [if_pos hcond]
        have hty : propType S postType fd.name = some fd.ty := by
          rw [hfdname]; exact propType_field hfield htn
        refine Sat.bind ((fillProperty_sat hinv hout hcd hcur hty conn sub.name sub.alias sub.filters
          sub.outputs sub.tags).monoK (fun _ h => h.elim)) fun r hr => ?_
        obtain ⟨hstep, hlen, hcdr, hvr, her, hfr, hnew, htopn⟩ := hr
        have hcurvid : ∀ f : FieldRefM, f.vid = cur → f.vid ∈ cdVids r.2.1 := by
          intro f hf
          obtain ⟨v0, hv0, hv0c, _⟩ := hcur
          simp only [cdVids, hvr, List.mem_append]
          left
          rw [hf, ← hv0c]
          exact List.mem_map_of_mem (f := (·.vid)) hv0
        have hpost1 : FillPost S st cd r.1 r.2.1 True := by
          refine ⟨hstep, hcdr, fun v hv => by rw [hvr]; exact hv, ?_, fun _ => ?_, fun _ => ?_⟩
          · intro x hx; simpa [cdVids, hvr, hfr] using hx
          · exact hnew.trans (OutNew.refl _ _) hcurvid (fun _ h => h)
          · exact htopn.trans (TopNew.refl _ _) hcurvid (fun _ h => h)
        have hout' : 0 < r.1.outStack.length := by rw [hlen]; exact hout
        have hcur' : ∃ v0 ∈ r.2.1.vertices, v0.vid = cur ∧ v0.postType = postType := by
          rw [hvr]; exact hcur
        refine (hk r.1 r.2.1 r.2.2 hstep.inv hout' hcdr hcur').mono fun r' hr' => ?_
        obtain ⟨more, hmore, hpost2⟩ := hr'
        refine ⟨r.2.2 ++ more, by rw [hmore, List.append_assoc], ?_⟩
        exact hpost1.trans hpost2 (fun h => ⟨trivial, (List.append_eq_nil_iff.mp h).2⟩)
end

end TF.FE
