/-
Helper lemmas for C10, frontend layer: what validation establishes (`ValidNode`), `make_fold`
around the recursive call, and the induction over the query tree.
-/
import TrustfallModel.Proofs.FrontendFill
namespace TF.FE
open Res

mutual
/-- What `validate_field` established about the selections below a field whose (post-coercion)
type is `T`: connection and node agree, and every selected field is `__typename` or a field of
`T`, coerced (if at all) to an existing vertex type, with its own selections valid below it. -/
def ValidNode (S : SchemaView) (T : String) : FieldNode → Prop
  | .mk _ _ _ _ _ _ conns _ => ValidConns S T conns
def ValidConns (S : SchemaView) (T : String) : List (FieldConnection × FieldNode) → Prop
  | [] => True
  | (c, n) :: rest =>
    (c.name = n.name ∧ c.alias = n.alias ∧
      (n.name = TYPENAME ∨
       ∃ fd, S.field T n.name = some fd ∧
         match n.coercedTo with
         | some c' => S.isVertexType c' = true ∧ ValidNode S c' n
         | none => ValidNode S fd.ty.base n)) ∧
    ValidConns S T rest
end

/-- The statement of `ValidConns` for one connection. -/
def ValidChild (S : SchemaView) (T : String) (c : FieldConnection) (n : FieldNode) : Prop :=
  c.name = n.name ∧ c.alias = n.alias ∧
    (n.name = TYPENAME ∨
     ∃ fd, S.field T n.name = some fd ∧
       match n.coercedTo with
       | some c' => S.isVertexType c' = true ∧ ValidNode S c' n
       | none => ValidNode S fd.ty.base n)

theorem validConns_cons {S : SchemaView} {T : String} {c : FieldConnection} {n : FieldNode}
    {rest : List (FieldConnection × FieldNode)} :
    ValidConns S T ((c, n) :: rest) ↔ ValidChild S T c n ∧ ValidConns S T rest := by
  simp [ValidConns, ValidChild]

theorem validNode_iff {S : SchemaView} {T : String} (n : FieldNode) :
    ValidNode S T n ↔ ValidConns S T n.connections := by
  cases n; simp [ValidNode, FieldNode.connections]

mutual
theorem validateField_valid (S : SchemaView) :
    ∀ (n : FieldNode) (T : String) (len : Nat) (c : FieldConnection) (len' : Nat),
      validateField S T len c n = .ok len' → ValidChild S T c n
  | .mk name alias coercedTo f o t conns tg, T, len, c, len', h => by
    unfold validateField at h
    split at h
    · cases h
    · rename_i hca
      have hca' : c.name = name ∧ c.alias = alias := by simpa using hca
      refine ⟨hca'.1, hca'.2, ?_⟩
      split at h
      · rename_i htn
        left; simpa [FieldNode.name] using htn
      · split at h
        · cases h
        · rename_i fieldDef hfield
          right
          refine ⟨fieldDef, hfield, ?_⟩
          simp only [FieldNode.coercedTo]
          rw [bind_eq_ok] at h
          obtain ⟨tl, htl, h⟩ := h
          rw [bind_eq_ok] at h
          obtain ⟨len2, hconns, _⟩ := h
          cases hco : coercedTo with
          | none =>
            simp only [hco] at htl
            cases htl
            simp only [ValidNode]
            exact validateConnections_valid S conns _ _ _ hconns
          | some coerced =>
            simp only [hco] at htl
            split at htl
            · cases htl
            · split at htl
              · cases htl
              · split at htl
                · rename_i postDef hpost
                  split at htl
                  · cases htl
                  · cases htl
                    refine ⟨by simp [SchemaView.isVertexType, hpost], ?_⟩
                    simp only [ValidNode]
                    exact validateConnections_valid S conns _ _ _ hconns
                · cases htl
theorem validateConnections_valid (S : SchemaView) :
    ∀ (l : List (FieldConnection × FieldNode)) (T : String) (len len' : Nat),
      validateConnections S T len l = .ok len' → ValidConns S T l
  | [], _, _, _, _ => by simp [ValidConns]
  | (c, n) :: rest, T, len, len', h => by
    unfold validateConnections at h
    rw [bind_eq_ok] at h
    obtain ⟨len1, h1, h2⟩ := h
    rw [validConns_cons]
    exact ⟨validateField_valid S n T len c len1 h1, validateConnections_valid S rest T len1 len' h2⟩
end

/-- Post-condition of the traversal functions relative to their entry state `(st, cd)`;
`noErr` = "no error was reported". -/
structure FillPost (S : SchemaView) (st : St) (cd : CD) (st' : St) (cd' : CD)
    (noErr : Prop) : Prop where
  step : St.Step st st' noErr
  cdInv : CD.Inv S st' cd'
  verts : ∀ v ∈ cd.vertices, v ∈ cd'.vertices
  vids : ∀ x ∈ cdVids cd, x ∈ cdVids cd'
  outs : noErr → OutNew st st' (fun f => f.vid ∈ cdVids cd')
  /-- without errors only the current component's output map changed, by entries that refer to
  vertices of the component or of its folds -/
  tops : noErr → TopNew st st' (fun f => f.vid ∈ cdVids cd')

/-- The sites inputs can reach during the traversal: N-6 (filters); F-7 when (`r`) the part of the
query being traversed contains a `@fold @transform … @transform`.  (Until the repair of N-2 /
F-C10-2 there was a second flag `re`, "it contains an enum literal among the arguments of a field",
for the site `.enumArgument`, with a bookkeeping field `FillPost.flag`.) -/
def FillSite (r : Bool) (s : Site) : Prop := PostSite s ∨ (s = .retransform ∧ r = true)

theorem FillSite.mono {r r' : Bool} {s : Site} (h : FillSite r s)
    (hr : r = true → r' = true) : FillSite r' s := by
  rcases h with h | ⟨h1, h2⟩
  · exact Or.inl h
  · exact Or.inr ⟨h1, hr h2⟩

theorem collectVidsFolds_append (a b : List FoldIR) :
    collectVidsFolds (a ++ b) = collectVidsFolds a ++ collectVidsFolds b := by
  induction a with
  | nil => simp [collectVidsFolds]
  | cons x rest ih =>
    obtain ⟨u, n, c⟩ := x
    simp [collectVidsFolds, ih]

theorem CD.Inv.mono {S : SchemaView} {st st' : St} {cd : CD} (h : CD.Inv S st cd)
    (hv : st.nextVid ≤ st'.nextVid) (he : st.nextEid ≤ st'.nextEid) : CD.Inv S st' cd :=
  ⟨h.nodup, fun v hv' => Nat.lt_of_lt_of_le (h.vidsLt v hv') hv,
   fun e he' => Nat.lt_of_lt_of_le (h.eidsLt e he') he, h.edgesOk, h.propsOk⟩

theorem foldAfterFill_sat {S : SchemaView} (hS : ValidSchemaView S) {st1 : St} {cd : CD}
    (hinv1 : st1.Inv) (hout1' : 0 < st1.outStack.length) (hcd : CD.Inv S st1 cd) (startVid : Vid)
    (fg : FoldGroup) (foldEid : Eid)
    (subName : String) (subAlias : Option String) (subHasOutput : Bool) (e1 : List FrontErr)
    (r : St × CD × List FrontErr)
    (hr : FillPost S (foldEnter st1 startVid) CD.empty r.1 r.2.1 (r.2.2 = []))
    (hroot : startVid ∈ r.2.1.vertices.map (·.vid)) :
    Sat (FillSite fg.hasRetr)
      (foldAfterFill S fg foldEid startVid subName subAlias subHasOutput cd e1 r)
      (fun r' => FillPost S st1 cd r'.1 r'.2.1 (r'.2.2 = [])) := by
  obtain ⟨hfe_inv, hfe_path, hfe_out, hfe_vs, hfe_nv, hfe_ne, hfe_pf, hfe_go⟩ :=
    foldEnter_inv hinv1 startVid
  have hstep := hr.step
  obtain ⟨ext, hext, hexact⟩ := hstep.path
  have hlen_fe : (foldEnter st1 startVid).outStack.length = st1.outStack.length + 1 := by
    rw [hfe_out]; simp
  have hlen_r : st1.outStack.length + 1 ≤ r.1.outStack.length := by
    rw [← hlen_fe]; exact hstep.outLen
  have hout_r : 0 < r.1.outStack.length := by omega
  unfold foldAfterFill
  have htopc : r.2.2 = [] → ∀ o ∈ r.1.topMap, o.2.vid ∈ cdVids r.2.1 := by
    intro h0 o ho
    rcases (hr.tops h0).2 o ho with h | h
    · simp [St.topMap, hfe_out] at h
    · exact h
  refine Sat.bind ((componentPost_sat hS hstep.inv hout_r hr.cdInv r.2.2 htopc).monoK
    (fun _ h => Or.inl h)) fun c hc => ?_
  obtain ⟨hc_inv, hc_path, hc_vs, hc_nv, hc_ne, hc_pf, hc_go, hc_len, hc_err, hc_ok⟩ := hc
  have hnv : st1.nextVid ≤ c.1.nextVid := by rw [hc_nv, ← hfe_nv]; exact hstep.nextVid
  have hne : st1.nextEid ≤ c.1.nextEid := by rw [hc_ne, ← hfe_ne]; exact hstep.nextEid
  have hpf : ∀ p ∈ st1.prefixes, p ∈ c.1.prefixes := by
    intro p hp; rw [hc_pf]; exact hstep.prefixes p (by rw [hfe_pf]; exact hp)
  have hvs : c.1.vidStack = st1.vidStack := by rw [hc_vs, hstep.vidStack, hfe_vs]
  split
  · rename_i es herr
    have hes := hc_err es herr
    have hne_errs : ¬ (e1 ++ es = []) := fun h => hes (List.append_eq_nil_iff.mp h).2
    refine ⟨⟨hc_inv, hvs, hnv, hne, ⟨[startVid] ++ ext, ?_, fun h => absurd h hne_errs⟩, ?_,
      fun h => absurd h hne_errs, hpf⟩, hcd.mono hnv hne, fun _ h => h, fun _ h => h,
      fun h => absurd h hne_errs, fun h => absurd h hne_errs⟩
    · rw [hc_path, hext, hfe_path, List.append_assoc]
    · show st1.outStack.length ≤ c.1.outStack.length
      omega
  · rename_i comp hok
    obtain ⟨hfill, hlen, hc_out, hvids⟩ := hc_ok comp hok
    have hc_out1 : c.1.outStack = st1.outStack := by
      rw [hc_out, (hr.tops hfill).1, hfe_out]; simp
    have hext0 : ext = [] := hexact hfill
    have hpath_c : c.1.path = st1.path ++ [startVid] := by
      rw [hc_path, hext, hext0, hfe_path]; simp
    have hlen_r' : r.1.outStack.length = st1.outStack.length + 1 := by
      rw [hstep.outLenExact hfill, hlen_fe]
    have hlen_c : c.1.outStack.length = st1.outStack.length := by omega
    have hout1 : 0 < st1.outStack.length := hout1'
    have hout_c : 0 < c.1.outStack.length := by omega
    refine Sat.bind ((foldPost_sat hc_inv hout_c hpath_c hinv1.path_ne fg foldEid subName subAlias
      subHasOutput comp).monoK (fun s h => ?_)) fun f hf => ?_
    · rcases h with h | h
      · exact Or.inl h
      · exact Or.inr h
    obtain ⟨hf_inv, hf_path, hf_vs, hf_len, hf_nv, hf_ne, hf_pf, hf_new, hf_top, hf_err, hf_ok⟩ := hf
    have hstepf : ∀ p : Prop, St.Step st1 f.1 p := fun p =>
      ⟨hf_inv, hf_vs.trans hvs, Nat.le_trans hnv hf_nv, Nat.le_trans hne hf_ne,
       ⟨[], by simp [hf_path], fun _ => rfl⟩, by rw [hf_len, hlen_c]; exact Nat.le_refl _,
       fun _ => by rw [hf_len, hlen_c], fun p hp => hf_pf p (hpf p hp)⟩
    split
    · rename_i es herr
      have hes := hf_err es herr
      have hne_errs : ¬ (e1 ++ es = []) := fun h => hes (List.append_eq_nil_iff.mp h).2
      exact ⟨hstepf _, hcd.mono (Nat.le_trans hnv hf_nv) (Nat.le_trans hne hf_ne), fun _ h => h,
        fun _ h => h, fun h => absurd h hne_errs, fun h => absurd h hne_errs⟩
    · rename_i fold hfold
      have hcomp := hf_ok fold hfold
      have hsub : ∀ x ∈ cdVids r.2.1, x ∈ cdVids { cd with folds := cd.folds ++ [fold] } := by
        intro x hx
        rw [← hvids] at hx
        obtain ⟨u, n, c'⟩ := fold
        simp only at hcomp
        subst hcomp
        simp only [cdVids, collectVidsFolds_append, collectVidsFolds, List.append_nil,
          List.mem_append]
        right; right; exact hx
      refine ⟨hstepf _, ?_, fun _ h => h, ?_, ?_, ?_⟩
      · exact ⟨hcd.nodup, fun v hv => Nat.lt_of_lt_of_le (hcd.vidsLt v hv)
          (Nat.le_trans hnv hf_nv), fun e he => Nat.lt_of_lt_of_le (hcd.eidsLt e he)
          (Nat.le_trans hne hf_ne), hcd.edgesOk, hcd.propsOk⟩
      · intro x hx
        simp only [cdVids, collectVidsFolds_append, List.mem_append] at hx ⊢
        rcases hx with h | h
        · exact Or.inl h
        · exact Or.inr (Or.inl h)
      · intro _
        have h1 : OutNew st1 (foldEnter st1 startVid)
            (fun f => f.vid ∈ cdVids { cd with folds := cd.folds ++ [fold] }) :=
          OutNew.of_eq hfe_go _
        have h2 := hr.outs hfill
        have h3 : OutNew r.1 c.1 (fun f => f.vid ∈ cdVids { cd with folds := cd.folds ++ [fold] }) :=
          OutNew.of_eq hc_go _
        refine ((h1.trans h2 (fun _ x => x) (fun f hf' => hsub _ hf')).trans h3 (fun _ x => x)
          (fun _ x => x)).trans hf_new (fun _ x => x) ?_
        intro f' hf'
        rw [hf']
        apply hsub
        simp only [cdVids, List.mem_append]
        exact Or.inl hroot
      · intro _
        have h1 : TopNew st1 c.1 (fun f => f.vid ∈ cdVids { cd with folds := cd.folds ++ [fold] }) :=
          TopNew.of_eq hc_out1 _
        refine h1.trans hf_top (fun _ x => x) ?_
        intro f' hf'
        rw [hf']
        apply hsub
        simp only [cdVids, List.mem_append]
        exact Or.inl hroot


theorem FillPost.weaken {S : SchemaView} {st st' : St} {cd cd' : CD} {p q : Prop}
    (h : FillPost S st cd st' cd' p) (hq : q → p) : FillPost S st cd st' cd' q :=
  ⟨h.step.weaken hq, h.cdInv, h.verts, h.vids, fun x => h.outs (hq x),
   fun x => h.tops (hq x)⟩

theorem FillPost.trans {S : SchemaView} {a b c : St} {cda cdb cdc : CD} {p q r : Prop}
    (h1 : FillPost S a cda b cdb p) (h2 : FillPost S b cdb c cdc q) (hr : r → p ∧ q) :
    FillPost S a cda c cdc r :=
  ⟨h1.step.trans h2.step hr, h2.cdInv, fun v hv => h2.verts v (h1.verts v hv),
   fun x hx => h2.vids x (h1.vids x hx),
   fun x => (h1.outs (hr x).1).trans (h2.outs (hr x).2) (fun _ hf => h2.vids _ hf) (fun _ hf => hf),
   fun x => (h1.tops (hr x).1).trans (h2.tops (hr x).2) (fun _ hf => h2.vids _ hf) (fun _ hf => hf)⟩

theorem FillPost.refl {S : SchemaView} {st : St} {cd : CD} (hinv : st.Inv)
    (hcd : CD.Inv S st cd) (p : Prop) : FillPost S st cd st cd p :=
  ⟨St.Step.refl hinv p, hcd, fun _ h => h, fun _ h => h, fun _ => OutNew.refl _ _,
   fun _ => TopNew.refl _ _⟩

/-- The tail of the edge branch of `fill_in_vertex_data`: `end_nested_scope`, then the remaining
connections (`k`). `st1` is the state after `begin_nested_scope(v)`, `cdIn` the component data the
edge's own processing (`inner`) started from. -/
theorem edgeTail_sat {S : SchemaView} {st st1 : St} {cd cdIn : CD} {v : Vid} {cur : Vid}
    {postType : String} (hinv : st.Inv) (hout : 0 < st.outStack.length)
    (h1inv : st1.Inv) (h1vs : st1.vidStack = st.vidStack ++ [v])
    (h1pf : ∀ p ∈ st.prefixes, p ∈ st1.prefixes) (h1path : st1.path = st.path)
    (h1out : st1.outStack = st.outStack) (h1nv : st.nextVid ≤ st1.nextVid)
    (h1ne : st.nextEid ≤ st1.nextEid) (h1go : st1.globalOutputs = st.globalOutputs)
    (hverts : ∀ x ∈ cd.vertices, x ∈ cdIn.vertices) (hvids : ∀ x ∈ cdVids cd, x ∈ cdVids cdIn)
    (hcur : ∃ v0 ∈ cd.vertices, v0.vid = cur ∧ v0.postType = postType)
    {K : Site → Prop} (inner : FRes (St × CD × List FrontErr))
    (hinner : Sat K inner (fun r => FillPost S st1 cdIn r.1 r.2.1 (r.2.2 = [])))
    (k : St → CD → List FrontErr → FRes (St × CD × List FrontErr)) (errs : List FrontErr)
    (hk : ∀ (st3 : St) (cd3 : CD) (e : List FrontErr), st3.Inv → 0 < st3.outStack.length →
      CD.Inv S st3 cd3 → (∃ v0 ∈ cd3.vertices, v0.vid = cur ∧ v0.postType = postType) →
      Sat K (k st3 cd3 (errs ++ e))
        (fun r => ∃ more, r.2.2 = (errs ++ e) ++ more ∧ FillPost S st3 cd3 r.1 r.2.1 (more = []))) :
    Sat K (inner >>= fun r => r.1.endNestedScope v >>= fun st3 => k st3 r.2.1 (errs ++ r.2.2))
      (fun r => ∃ more, r.2.2 = errs ++ more ∧ FillPost S st cd r.1 r.2.1 (more = [])) := by
  refine Sat.bind hinner fun r hr => ?_
  have hstep := hr.step
  have hvs' : r.1.vidStack = st.vidStack ++ [v] := by rw [hstep.vidStack, h1vs]
  have hbase : ∀ w ∈ st.vidStack, ∃ p ∈ r.1.prefixes, p.1 = w := by
    intro w hw
    obtain ⟨p, hp, hpw⟩ := hinv.stack_prefixed w hw
    exact ⟨p, hstep.prefixes p (h1pf p hp), hpw⟩
  obtain ⟨st3, hend, h3inv, h3vs, h3pf, h3path, h3out, h3nv, h3ne, h3go⟩ :=
    endNestedScope_ok hstep.inv hvs' hbase
  rw [hend]
  simp only [bind_ok]
  obtain ⟨ext, hext, hexact⟩ := hstep.path
  -- the edge as a whole, seen from `st`
  have hpost1 : FillPost S st cd st3 r.2.1 (r.2.2 = []) := by
    refine ⟨⟨h3inv, h3vs, ?_, ?_, ⟨ext, by rw [h3path, hext, h1path], hexact⟩, ?_, ?_, ?_⟩, ?_,
      fun x hx => hr.verts x (hverts x hx), fun x hx => hr.vids x (hvids x hx), ?_, ?_⟩
    · rw [h3nv]; exact Nat.le_trans h1nv hstep.nextVid
    · rw [h3ne]; exact Nat.le_trans h1ne hstep.nextEid
    · rw [h3out, ← h1out]; exact hstep.outLen
    · intro h; rw [h3out, hstep.outLenExact h, h1out]
    · intro p hp; rw [h3pf]; exact hstep.prefixes p (h1pf p hp)
    · exact hr.cdInv.mono (Nat.le_of_eq h3nv.symm) (Nat.le_of_eq h3ne.symm)
    · intro h
      have := hr.outs h
      intro o ho
      rw [h3go] at ho
      rcases this o ho with h' | h'
      · left; rw [← h1go]; exact h'
      · right; exact h'
    · intro h
      have := hr.tops h
      refine ⟨by rw [h3out, this.1, h1out], fun o ho => ?_⟩
      have ho' : o ∈ r.1.topMap := by simpa [St.topMap, h3out] using ho
      rcases this.2 o ho' with h' | h'
      · left; simpa [St.topMap, h1out] using h'
      · right; exact h'
  have hout3 : 0 < st3.outStack.length := by
    rw [h3out]; exact Nat.lt_of_lt_of_le (by rw [h1out]; exact hout) hstep.outLen
  have hcur3 : ∃ v0 ∈ r.2.1.vertices, v0.vid = cur ∧ v0.postType = postType := by
    obtain ⟨v0, hv0, h⟩ := hcur
    exact ⟨v0, hr.verts v0 (hverts v0 hv0), h⟩
  refine (hk st3 r.2.1 r.2.2 h3inv hout3 hpost1.cdInv hcur3).mono fun r' hr' => ?_
  obtain ⟨more, hmore, hpost2⟩ := hr'
  refine ⟨r.2.2 ++ more, by rw [hmore, List.append_assoc], ?_⟩
  exact hpost1.trans hpost2 (fun h => List.append_eq_nil_iff.mp h)

end TF.FE
