/-
C10 ↔ C19: the clause `paramsDistinct` of the frontend's schema hypothesis `ValidSchemaView` is
something `Schema::parse` GUARANTEES since the repair of F-C10-5.

The frontend model works on a schema *view* (`TF.FE.SchemaView`, read off the SDL by the harness);
schema validation is modelled on abstract schema *documents* (`TF.SchemaDoc`).  `viewOfSchema` reads the
view off the validated `Schema` value the same way (vertex types with implements / fields / parameters /
has-default, custom scalar names, query type; a type's shape is translated level by level), and
`parse_accepts_paramsDistinct` transports `TF.SchemaDoc.new_ok_paramsNodup`: for EVERY document — no
guard — the view of an accepted schema has distinct parameter names per field.

The other clauses of `ValidSchemaView` (field types known, no `__typename`, query type defined with
edges only, single field origins) are what `check_type_and_property_and_edge_invariants`,
`check_root_query_type_invariants`, `get_field_origins` + `check_ambiguous_field_origins` establish
(`TF.C19.schema_accepts_iff` states them on documents as `ValidSchema`); their transport to the view —
in particular `SchemaView.originOf` (fuel recursion) against `OriginOf` (inductive) — is NOT proved
here: for those clauses `ValidSchemaView` stays a hypothesis checked per schema by the harness
(`view-valid`).
-/
import TrustfallModel.Proofs.SchemaOrigins
import TrustfallModel.Proofs.FrontendComp

namespace TF.FE

/-- `Type::from_type` on the shape: base name, nullability of the outermost level, then of each
element level outside-in. -/
def ftyOfPTy : TF.SchemaDoc.PTy → FTy
  | .named n nonNull => ⟨n, !nonNull, []⟩
  | .list inner nonNull =>
    let r := ftyOfPTy inner
    ⟨r.base, !nonNull, r.outer :: r.inner⟩

/-- The frontend's view of a validated schema. -/
def viewOfSchema (s : TF.SchemaDoc.Schema) : SchemaView where
  queryType := s.queryType.name
  scalars := s.scalars
  types := s.vertexTypes.map fun t =>
    { name := t.name, isInterface := t.isInterface, implements := t.implements,
      fields := t.fields.map fun f =>
        { name := f.name, ty := ftyOfPTy f.ty,
          params := f.args.map fun a => { name := a.name, ty := ftyOfPTy a.ty, hasDefault := a.default.isSome } } }

/-- **`Schema::parse` accepts ⇒ `ValidSchemaView.paramsDistinct`** (every document, no guard). -/
theorem parse_accepts_paramsDistinct {doc : TF.SchemaDoc.Doc} {s : TF.SchemaDoc.Schema}
    (h : TF.SchemaDoc.Schema.new doc = .ok (.ok s)) :
    ∀ t ∈ (viewOfSchema s).types, ∀ f ∈ t.fields, (f.params.map (·.name)).Nodup := by
  intro t ht f hf
  simp only [viewOfSchema, List.mem_map] at ht
  obtain ⟨t0, ht0, rfl⟩ := ht
  simp only [List.mem_map] at hf
  obtain ⟨f0, hf0, rfl⟩ := hf
  have := TF.SchemaDoc.new_ok_paramsNodup h t0 ht0 f0 hf0
  simpa [List.map_map, Function.comp_def] using this

end TF.FE
