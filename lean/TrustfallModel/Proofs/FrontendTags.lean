/-
Clauses 5 and 6 of C11 (tags are defined before their uses; imported tags are exactly the tags used
inside a fold and defined in its parent component) for the frontend model `toIR`.
-/
import TrustfallModel.Proofs.FrontendWF
namespace TF.Frontend
open TF TF.Engine TF.Spec

/-! ### `FieldRef` equality, prefixes -/

theorem fieldRefEq_iff {a b : FieldRef} : IRWF.fieldRefEq a b = true ↔ a = b := by
  cases a <;> cases b <;> simp [IRWF.fieldRefEq, and_assoc]

theorem refMem_iff {r : FieldRef} {l : List FieldRef} : IRWF.refMem r l = true ↔ r ∈ l := by
  simp only [IRWF.refMem, List.any_eq_true, fieldRefEq_iff]
  constructor
  · rintro ⟨x, hx, rfl⟩; exact hx
  · intro h; exact ⟨r, h, rfl⟩

theorem isPrefix_iff {p q : List Vid} : isPrefix p q = true ↔ p <+: q := by
  induction p generalizing q with
  | nil => simp [isPrefix]
  | cons a p ih =>
    cases q with
    | nil => simp [isPrefix]
    | cons b q => simp [isPrefix, ih, List.cons_prefix_cons]

/-! ### what resolving filters does with the tag table -/

/-- The tag operand `r`, used at vertex `uv` of the component with path `P`, was resolved from a
registered tag that is visible there; it is either local to the component or reported in `evs`. -/
def Resolved (tags : List TagEntry) (P : List Vid) (uv : Vid) (evs : List ImportEvent)
    (r : FieldRef) : Prop :=
  ∃ e ∈ tags, e.field = r ∧ e.path <+: P ∧ definedAt r ≤ uv ∧
    (e.path.length = P.length ∨ (e.path.length, r) ∈ evs)

/-- The import event `ev` was raised by a tag operand among `used`, resolved from a tag defined in
a strictly enclosing component. -/
def Raised (tags : List TagEntry) (P : List Vid) (used : List FieldRef) (ev : ImportEvent) : Prop :=
  ∃ e ∈ tags, ev = (e.path.length, e.field) ∧ e.path <+: P ∧ e.path.length < P.length ∧
    e.field ∈ used

theorem Resolved.mono {tags P uv evs evs' r} (h : Resolved tags P uv evs r)
    (hsub : ∀ ev ∈ evs, ev ∈ evs') : Resolved tags P uv evs' r := by
  obtain ⟨e, he, h1, h2, h3, h4⟩ := h
  exact ⟨e, he, h1, h2, h3, h4.imp id (hsub _)⟩

theorem Raised.mono {tags P used used' ev} (h : Raised tags P used ev)
    (hsub : ∀ r ∈ used, r ∈ used') : Raised tags P used' ev := by
  obtain ⟨e, he, h1, h2, h3, h4⟩ := h
  exact ⟨e, he, h1, h2, h3, hsub _ h4⟩

theorem mem_of_find? {α : Type} {p : α → Bool} {l : List α} {a : α} (h : l.find? p = some a) :
    a ∈ l := List.mem_of_find?_eq_some h

theorem resolveFilter_spec {path vid pf st f ev st'}
    (h : resolveFilter path vid pf st = .ok (f, ev, st')) :
    (∀ r ∈ filterTags f, Resolved st.tags path vid ev r) ∧
    (∀ x ∈ ev, Raised st.tags path (filterTags f) x) := by
  unfold resolveFilter at h
  split at h
  · simp only [bind_ok, pure_ok] at h
    obtain ⟨_, _, h⟩ := h
    simp at h; obtain ⟨rfl, rfl, _⟩ := h
    simp [filterTags]
  · simp only [bind_ok, pure_ok] at h
    obtain ⟨_, _, _, _, h⟩ := h
    simp at h; obtain ⟨rfl, rfl, _⟩ := h
    simp [filterTags]
  · simp only [bind_ok, pure_ok] at h
    obtain ⟨⟨r, ev1, st1⟩, h1, _, _, h⟩ := h
    simp at h; obtain ⟨rfl, rfl, _⟩ := h
    obtain ⟨e, hf, hp, hd, rfl, rfl, _⟩ := refTag_inv h1
    have hmem := mem_of_find? hf
    have hp' := isPrefix_iff.mp hp
    simp only [filterTags, List.mem_singleton]
    constructor
    · rintro r rfl
      refine ⟨e, hmem, rfl, hp', hd, ?_⟩
      by_cases hl : e.path.length = path.length
      · exact Or.inl hl
      · right; simp [hl]
    · intro x hx
      by_cases hl : e.path.length = path.length
      · simp [hl] at hx
      · simp only [hl, if_false, List.mem_singleton] at hx
        subst hx
        refine ⟨e, hmem, rfl, hp', ?_, List.mem_singleton.mpr rfl⟩
        have := hp'.length_le
        omega
  · simp at h

theorem resolveFilters_spec {path vid l st fs evs st'}
    (h : resolveFilters path vid l st = .ok (fs, evs, st')) :
    (∀ r ∈ fs.flatMap filterTags, Resolved st.tags path vid evs r) ∧
    (∀ x ∈ evs, Raised st.tags path (fs.flatMap filterTags) x) := by
  induction l generalizing st fs evs with
  | nil => simp [resolveFilters] at h; obtain ⟨rfl, rfl, _⟩ := h; simp
  | cons pf rest ih =>
    rw [resolveFilters] at h
    simp only [bind_ok, pure_ok] at h
    obtain ⟨⟨f, ev1, st1⟩, h1, ⟨fs2, ev2, st2⟩, h2, h3⟩ := h
    simp at h3
    obtain ⟨rfl, rfl, rfl⟩ := h3
    obtain ⟨a1, a2⟩ := resolveFilter_spec h1
    obtain ⟨b1, b2⟩ := ih h2
    have ht : st1.tags = st.tags := (resolveFilter_core h1).2.2.symm
    rw [ht] at b1 b2
    simp only [List.flatMap_cons, List.mem_append]
    constructor
    · rintro r (hr | hr)
      · exact (a1 r hr).mono (fun x hx => List.mem_append_left _ hx)
      · exact (b1 r hr).mono (fun x hx => List.mem_append_right _ hx)
    · rintro x (hx | hx)
      · exact (a2 x hx).mono (fun r hr => List.mem_append_left _ hr)
      · exact (b2 x hx).mono (fun r hr => List.mem_append_right _ hr)

/-- the tag operands of the filters of a list of vertices -/
def vertsTags (vs : List IRVertex) : List FieldRef := vs.flatMap fun v => v.filters.flatMap filterTags

theorem makeVertices_spec {path l st vs evs st'}
    (h : makeVertices path l st = .ok (vs, evs, st')) :
    (∀ v ∈ vs, ∀ r ∈ v.filters.flatMap filterTags, Resolved st.tags path v.vid evs r) ∧
    (∀ x ∈ evs, Raised st.tags path (vertsTags vs) x) := by
  induction l generalizing st vs evs with
  | nil => simp [makeVertices] at h; obtain ⟨rfl, rfl, _⟩ := h; simp
  | cons v rest ih =>
    rw [makeVertices] at h
    simp only [bind_ok, pure_ok, makeVertex] at h
    obtain ⟨⟨x, ev1, st1⟩, ⟨⟨fs, ev0, st0⟩, h0, hx⟩, ⟨xs, ev2, st2⟩, h2, h3⟩ := h
    simp at h3 hx h2
    obtain ⟨rfl, rfl, rfl⟩ := h3
    obtain ⟨rfl, rfl, rfl⟩ := hx
    obtain ⟨a1, a2⟩ := resolveFilters_spec h0
    obtain ⟨b1, b2⟩ := ih h2
    have ht : st0.tags = st.tags := (resolveFilters_core h0).2.2.symm
    rw [ht] at b1 b2
    constructor
    · intro w hw r hr
      simp only [List.mem_cons] at hw
      rcases hw with rfl | hw
      · exact (a1 r hr).mono (fun x hx => List.mem_append_left _ hx)
      · exact (b1 w hw r hr).mono (fun x hx => List.mem_append_right _ hx)
    · intro x hx
      simp only [List.mem_append] at hx
      simp only [vertsTags, List.flatMap_cons]
      rcases hx with hx | hx
      · exact (a2 x hx).mono (fun r hr => List.mem_append_left _ hr)
      · exact (b2 x hx).mono (fun r hr => List.mem_append_right _ hr)


/-! ### definitions for the tag-table invariants -/

/-- `r` is defined at vertex `vid`, at a vertex collected in `acc`, or by a fold collected in `acc` -/
def DefAcc (vid : Vid) (acc : Acc) : FieldRef → Prop
  | .ctx u _ _ => u = vid ∨ u ∈ acc.verts.map (·.vid)
  | .fcount e root => ∃ f ∈ acc.folds, f.eid = e ∧ f.toVid = root

/-- `r` is defined strictly inside the fold `f` -/
def DefInside (f : Fold) : FieldRef → Prop
  | .ctx u _ _ => u ∈ allVids f.component
  | .fcount e _ => e ∈ allEids f.component

/-- every registered tag lies below the id counters -/
structure TagsBounded (st : St) : Prop where
  defAt : ∀ e ∈ st.tags, definedAt e.field < st.nextVid
  eidB : ∀ e ∈ st.tags, ∀ x r, e.field = .fcount x r → x < st.nextEid
  pathB : ∀ e ∈ st.tags, ∀ x ∈ e.path, x < st.nextVid

/-- What is known about a tag registered during a run of phase A at vertex `vid` of the component
with path `P`, from counters `(v0, e0)` to `(v1, e1)`, with pieces `acc`. -/
structure NewTag (P : List Vid) (vid : Vid) (v0 e0 v1 e1 : Nat) (acc : Acc) (e : TagEntry) : Prop where
  pre : P <+: e.path
  lo : definedAt e.field = vid ∨ v0 ≤ definedAt e.field
  hi : definedAt e.field < v1
  eid : ∀ x r, e.field = .fcount x r → e0 ≤ x ∧ x < e1
  pathB : ∀ x ∈ e.path, x < v1
  cls : (e.path = P ∧ DefAcc vid acc e.field) ∨
    (P.length < e.path.length ∧ ∃ f ∈ acc.folds, DefInside f e.field)

/-- `a`'s vertices and folds are among `b`'s -/
def Acc.le (a b : Acc) : Prop :=
  (∀ x ∈ a.verts.map (·.vid), x ∈ b.verts.map (·.vid)) ∧ (∀ f ∈ a.folds, f ∈ b.folds)

theorem Acc.le_append_left (a b : Acc) : Acc.le a (a ++ b) :=
  ⟨fun x hx => by simp only [Acc.append_verts, List.map_append, List.mem_append]; exact Or.inl hx,
   fun f hf => by simp only [Acc.append_folds, List.mem_append]; exact Or.inl hf⟩

theorem Acc.le_append_right (a b : Acc) : Acc.le b (a ++ b) :=
  ⟨fun x hx => by simp only [Acc.append_verts, List.map_append, List.mem_append]; exact Or.inr hx,
   fun f hf => by simp only [Acc.append_folds, List.mem_append]; exact Or.inr hf⟩

theorem Acc.le_trans {a b c : Acc} (h1 : Acc.le a b) (h2 : Acc.le b c) : Acc.le a c :=
  ⟨fun x hx => h2.1 x (h1.1 x hx), fun f hf => h2.2 f (h1.2 f hf)⟩

theorem DefAcc.mono {vid : Vid} {a b : Acc} {r : FieldRef} (hle : Acc.le a b) (h : DefAcc vid a r) :
    DefAcc vid b r := by
  cases r with
  | ctx u n t => exact h.imp id (hle.1 u)
  | fcount e root => obtain ⟨f, hf, h1⟩ := h; exact ⟨f, hle.2 f hf, h1⟩

/-- re-rooting: a tag defined at the child vertex `w` (which is among `b`'s vertices) -/
theorem DefAcc.reroot {vid w : Vid} {a b : Acc} {r : FieldRef} (hle : Acc.le a b)
    (hw : w ∈ b.verts.map (·.vid)) (h : DefAcc w a r) : DefAcc vid b r := by
  cases r with
  | ctx u n t =>
    rcases h with rfl | h
    · exact Or.inr hw
    · exact Or.inr (hle.1 u h)
  | fcount e root => obtain ⟨f, hf, h1⟩ := h; exact ⟨f, hle.2 f hf, h1⟩

theorem NewTag.weaken {P vid v0 e0 v1 e1 acc e v0' e0' v1' e1' acc'}
    (h : NewTag P vid v0 e0 v1 e1 acc e) (hle : Acc.le acc acc')
    (h1 : v0' ≤ v0) (h2 : e0' ≤ e0) (h3 : v1 ≤ v1') (h4 : e1 ≤ e1') :
    NewTag P vid v0' e0' v1' e1' acc' e := by
  refine ⟨h.pre, h.lo.imp id (by nomega), by have := h.hi; nomega, ?_, ?_, ?_⟩
  · intro x r hx; have := h.eid x r hx; nomega
  · intro x hx; have := h.pathB x hx; nomega
  · rcases h.cls with ⟨hp, hd⟩ | ⟨hl, f, hf, hd⟩
    · exact Or.inl ⟨hp, hd.mono hle⟩
    · exact Or.inr ⟨hl, f, hle.2 f hf, hd⟩

/-- a tag registered below the child vertex `w = v0` of `vid` (same component) -/
theorem NewTag.ofChild {P vid w e0 v1 e1 acc e v1' e1' acc'}
    (h : NewTag P w (w + 1) (e0 + 1) v1 e1 acc e) (hle : Acc.le acc acc')
    (hw : w ∈ acc'.verts.map (·.vid)) (h3 : v1 ≤ v1') (h4 : e1 ≤ e1') :
    NewTag P vid w e0 v1' e1' acc' e := by
  refine ⟨h.pre, ?_, by have := h.hi; nomega, ?_, ?_, ?_⟩
  · rcases h.lo with h | h
    · exact Or.inr (by nomega)
    · exact Or.inr (by nomega)
  · intro x r hx; have := h.eid x r hx; nomega
  · intro x hx; have := h.pathB x hx; nomega
  · rcases h.cls with ⟨hp, hd⟩ | ⟨hl, f, hf, hd⟩
    · exact Or.inl ⟨hp, hd.reroot hle hw⟩
    · exact Or.inr ⟨hl, f, hle.2 f hf, hd⟩

theorem TagsBounded.mono {st st' : St} (h : TagsBounded st) (ht : st'.tags = st.tags)
    (hv : st.nextVid ≤ st'.nextVid) (he : st.nextEid ≤ st'.nextEid) : TagsBounded st' := by
  refine ⟨?_, ?_, ?_⟩
  · intro e hm; rw [ht] at hm; have := h.defAt e hm; nomega
  · intro e hm x r hx; rw [ht] at hm; have := h.eidB e hm x r hx; nomega
  · intro e hm x hx; rw [ht] at hm; have := h.pathB e hm x hx; nomega

theorem TagsBounded.extend {st st' : St} {P vid acc new} (h : TagsBounded st)
    (ht : st'.tags = st.tags ++ new)
    (hn : ∀ e ∈ new, NewTag P vid st.nextVid st.nextEid st'.nextVid st'.nextEid acc e)
    (hv : st.nextVid ≤ st'.nextVid) (he : st.nextEid ≤ st'.nextEid) : TagsBounded st' := by
  refine ⟨?_, ?_, ?_⟩
  · intro e hm; rw [ht, List.mem_append] at hm
    rcases hm with hm | hm
    · have := h.defAt e hm; nomega
    · exact (hn e hm).hi
  · intro e hm x r hx; rw [ht, List.mem_append] at hm
    rcases hm with hm | hm
    · have := h.eidB e hm x r hx; nomega
    · exact ((hn e hm).eid x r hx).2
  · intro e hm x hx; rw [ht, List.mem_append] at hm
    rcases hm with hm | hm
    · have := h.pathB e hm x hx; nomega
    · exact (hn e hm).pathB x hx

/-! ### list lemmas about the component tree -/

theorem foldsTagsUsed_append (a b : List Fold) :
    foldsTagsUsed (a ++ b) = foldsTagsUsed a ++ foldsTagsUsed b := by
  induction a with
  | nil => simp [foldsTagsUsed]
  | cons f rest ih => cases f; simp [foldsTagsUsed, ih]

theorem mem_foldsVids {fs : List Fold} {f : Fold} {x : Vid} (hf : f ∈ fs)
    (hx : x ∈ allVids f.component) : x ∈ foldsVids fs := by
  induction fs with
  | nil => simp at hf
  | cons g rest ih =>
    cases g
    simp only [foldsVids, List.mem_append]
    rcases List.mem_cons.mp hf with rfl | hf
    · exact Or.inl hx
    · exact Or.inr (ih hf)

theorem mem_foldsEids {fs : List Fold} {f : Fold} {x : Eid} (hf : f ∈ fs)
    (hx : x ∈ allEids f.component) : x ∈ foldsEids fs := by
  induction fs with
  | nil => simp at hf
  | cons g rest ih =>
    cases g
    simp only [foldsEids, List.mem_cons, List.mem_append]
    rcases List.mem_cons.mp hf with rfl | hf
    · exact Or.inl (Or.inr hx)
    · exact Or.inr (ih hf)

theorem eid_mem_foldsEids {fs : List Fold} {f : Fold} (hf : f ∈ fs) : f.eid ∈ foldsEids fs := by
  induction fs with
  | nil => simp at hf
  | cons g rest ih =>
    cases g
    simp only [foldsEids, List.mem_cons, List.mem_append]
    rcases List.mem_cons.mp hf with rfl | hf
    · exact Or.inl (Or.inl rfl)
    · exact Or.inr (ih hf)

/-- a fold's own Eid and an Eid inside some fold's component are two occurrences -/
theorem count_foldsEids_two {fs : List Fold} {f g : Fold} {x : Eid} (hf : f ∈ fs) (hg : g ∈ fs)
    (hfx : f.eid = x) (hgx : x ∈ allEids g.component) : 2 ≤ (foldsEids fs).count x := by
  induction fs with
  | nil => simp at hf
  | cons h rest ih =>
    cases h with
    | mk e a b c d comp i o p =>
    simp only [foldsEids, List.count_cons, List.count_append]
    rcases List.mem_cons.mp hf with rfl | hf' <;> rcases List.mem_cons.mp hg with rfl | hg'
    · have : 0 < (allEids comp).count x := List.count_pos_iff.mpr hgx
      simp only [Fold.eid] at hfx
      simp [hfx]; nomega
    · have : 0 < (foldsEids rest).count x := List.count_pos_iff.mpr (mem_foldsEids hg' hgx)
      simp only [Fold.eid] at hfx
      simp [hfx]; nomega
    · have : 0 < (allEids comp).count x := List.count_pos_iff.mpr hgx
      have : 0 < (foldsEids rest).count x := List.count_pos_iff.mpr (hfx ▸ eid_mem_foldsEids hf')
      nomega
    · have := ih hf' hg'
      nomega

theorem sameFieldRef_iff {a b : FieldRef} : sameFieldRef a b = true ↔ a = b := by
  cases a <;> cases b <;> simp [sameFieldRef, and_assoc]

theorem pushImport_eq (slot : List FieldRef) (r : FieldRef) [Decidable (r ∈ slot)] :
    pushImport slot r = if r ∈ slot then slot else slot ++ [r] := by
  have : slot.any (sameFieldRef r) = true ↔ r ∈ slot := by
    simp only [List.any_eq_true, sameFieldRef_iff]
    constructor
    · rintro ⟨x, hx, rfl⟩; exact hx
    · intro h; exact ⟨r, h, rfl⟩
  unfold pushImport
  by_cases h : r ∈ slot
  · rw [if_pos (this.mpr h), if_pos h]
  · rw [if_neg (fun hc => h (this.mp hc)), if_neg h]

theorem mem_foldl_pushImport {l acc : List FieldRef} {r : FieldRef} :
    r ∈ l.foldl pushImport acc ↔ r ∈ acc ∨ r ∈ l := by
  classical
  induction l generalizing acc with
  | nil => simp
  | cons x xs ih =>
    rw [List.foldl_cons, ih, pushImport_eq]
    by_cases hx : x ∈ acc
    · rw [if_pos hx]
      constructor
      · rintro (h | h)
        · exact .inl h
        · exact .inr (List.mem_cons_of_mem _ h)
      · rintro (h | h)
        · exact .inl h
        · rcases List.mem_cons.mp h with rfl | h
          · exact .inl hx
          · exact .inr h
    · rw [if_neg hx]
      simp only [List.mem_append, List.mem_cons, List.not_mem_nil, or_false]
      constructor
      · rintro ((h | h) | h)
        · exact .inl h
        · exact .inr (.inl h)
        · exact .inr (.inr h)
      · rintro (h | h | h)
        · exact .inl (.inl h)
        · exact .inl (.inr h)
        · exact .inr h

theorem nodup_foldl_pushImport {l acc : List FieldRef} (h : acc.Nodup) :
    (l.foldl pushImport acc).Nodup := by
  classical
  induction l generalizing acc with
  | nil => exact h
  | cons x xs ih =>
    rw [List.foldl_cons]
    apply ih
    rw [pushImport_eq]
    by_cases hx : x ∈ acc
    · rw [if_pos hx]; exact h
    · rw [if_neg hx]
      rw [List.nodup_append]
      refine ⟨h, by simp, ?_⟩
      intro a ha b hb
      simp only [List.mem_singleton] at hb
      subst hb
      rintro rfl
      exact hx ha

/-- the imported tags of a fold are pairwise distinct (fix of F-10) -/
theorem nodup_importsAt (k : Nat) (evs : List ImportEvent) : (importsAt k evs).Nodup :=
  nodup_foldl_pushImport List.nodup_nil

theorem mem_importsAt {k : Nat} {evs : List ImportEvent} {r : FieldRef} :
    r ∈ importsAt k evs ↔ (k, r) ∈ evs := by
  simp only [importsAt, mem_foldl_pushImport, List.not_mem_nil, false_or, List.mem_filterMap]
  constructor
  · rintro ⟨⟨i, r'⟩, hm, h⟩
    simp only at h
    split at h
    · rename_i hik
      simp only [Option.some.injEq] at h
      have : i = k := by simpa using hik
      subst this; subst h; exact hm
    · simp at h
  · intro h
    exact ⟨(k, r), h, by simp⟩

theorem mem_importsAbove {k : Nat} {evs : List ImportEvent} {ev : ImportEvent} :
    ev ∈ importsAbove k evs ↔ ev ∈ evs ∧ ev.1 ≠ k := by
  obtain ⟨i, r⟩ := ev
  simp [importsAbove, List.mem_filter]


/-! ### certificates -/

/-- What phase A knows about a finished fold `f` of the component with path `P` while that
component is still under construction (`T`: the tag table, `EV`: the import events passed up so
far). "Defined in the parent component" is expressed through the tag table: a tag entry whose path
is exactly `P`. -/
structure FoldCert (P : List Vid) (T : List TagEntry) (EV : List ImportEvent) (f : Fold) : Prop where
  impUsed : ∀ r ∈ f.imports, r ∈ tagsUsed f.component ∧ definedAt r < f.toVid ∧
    ∃ e ∈ T, e.path = P ∧ e.field = r
  usedImp : ∀ r ∈ tagsUsed f.component, ∃ e ∈ T, e.field = r ∧ (e.path = P → r ∈ f.imports)
  inner6 : wfImportsC f.component = true
  inner5 : ∀ chain, (∀ ev ∈ EV, ev.2 ∈ chain) → wfTagsC (f.imports ++ chain) f.component = true
  post5 : ∀ r ∈ f.post.flatMap filterTags, definedAt r ≤ f.toVid ∧
    ∃ e ∈ T, e.field = r ∧ (e.path = P ∨ (e.path.length, r) ∈ EV)

theorem FoldCert.mono {P T EV f T' EV'} (h : FoldCert P T EV f) (hT : ∀ e ∈ T, e ∈ T')
    (hE : ∀ ev ∈ EV, ev ∈ EV') : FoldCert P T' EV' f := by
  refine ⟨?_, ?_, h.inner6, ?_, ?_⟩
  · intro r hr
    obtain ⟨h1, h2, e, he, h3⟩ := h.impUsed r hr
    exact ⟨h1, h2, e, hT e he, h3⟩
  · intro r hr
    obtain ⟨e, he, h3⟩ := h.usedImp r hr
    exact ⟨e, hT e he, h3⟩
  · intro chain hc
    exact h.inner5 chain (fun ev hev => hc ev (hE ev hev))
  · intro r hr
    obtain ⟨h1, e, he, h2, h3⟩ := h.post5 r hr
    exact ⟨h1, e, hT e he, h2, h3.imp id (hE _)⟩

/-- What the enclosing component needs to know about the tags used inside the folds collected so
far and about the import events passed up. -/
structure UsesUp (P : List Vid) (T : List TagEntry) (acc : Acc) : Prop where
  u1 : ∀ r ∈ foldsTagsUsed acc.folds, ∃ e ∈ T, e.field = r ∧
    (P <+: e.path ∨ (e.path <+: P ∧ e.path.length < P.length ∧ (e.path.length, r) ∈ acc.events))
  u2 : ∀ ev ∈ acc.events, ev.1 < P.length ∧ ev.2 ∈ foldsTagsUsed acc.folds ∧
    ∃ e ∈ T, e.field = ev.2 ∧ e.path.length = ev.1 ∧ e.path <+: P

theorem UsesUp.append {P T a b} (ha : UsesUp P T a) (hb : UsesUp P T b) : UsesUp P T (a ++ b) := by
  refine ⟨?_, ?_⟩
  · intro r hr
    simp only [Acc.append_folds, foldsTagsUsed_append, List.mem_append] at hr
    simp only [Acc.append_events, List.mem_append]
    rcases hr with hr | hr
    · obtain ⟨e, he, h1, h2⟩ := ha.u1 r hr
      exact ⟨e, he, h1, h2.imp id (fun ⟨x, y, z⟩ => ⟨x, y, Or.inl z⟩)⟩
    · obtain ⟨e, he, h1, h2⟩ := hb.u1 r hr
      exact ⟨e, he, h1, h2.imp id (fun ⟨x, y, z⟩ => ⟨x, y, Or.inr z⟩)⟩
  · intro ev hev
    simp only [Acc.append_events, List.mem_append] at hev
    simp only [Acc.append_folds, foldsTagsUsed_append, List.mem_append]
    rcases hev with hev | hev
    · obtain ⟨h1, h2, h3⟩ := ha.u2 ev hev
      exact ⟨h1, Or.inl h2, h3⟩
    · obtain ⟨h1, h2, h3⟩ := hb.u2 ev hev
      exact ⟨h1, Or.inr h2, h3⟩

theorem UsesUp.mono {P T T' a} (h : UsesUp P T a) (hT : ∀ e ∈ T, e ∈ T') : UsesUp P T' a := by
  refine ⟨?_, ?_⟩
  · intro r hr
    obtain ⟨e, he, h1⟩ := h.u1 r hr
    exact ⟨e, hT e he, h1⟩
  · intro ev hev
    obtain ⟨h1, h2, e, he, h3⟩ := h.u2 ev hev
    exact ⟨h1, h2, e, hT e he, h3⟩

theorem UsesUp.trivial {P T} {a : Acc} (hf : a.folds = []) (he : a.events = []) : UsesUp P T a := by
  refine ⟨?_, ?_⟩
  · intro r hr; rw [hf] at hr; simp [foldsTagsUsed] at hr
  · intro ev hev; rw [he] at hev; simp at hev

/-- What is known about a finished component with path `Pc`, its tag table `T` and the import
events `evs` it passes up. -/
structure CompSpec (Pc : List Vid) (T : List TagEntry) (comp : Component)
    (evs : List ImportEvent) : Prop where
  U1 : ∀ r ∈ tagsUsed comp, ∃ e ∈ T, e.field = r ∧
    (Pc <+: e.path ∨ (e.path <+: Pc ∧ e.path.length < Pc.length ∧ (e.path.length, r) ∈ evs))
  U2 : ∀ ev ∈ evs, ev.1 < Pc.length ∧ ev.2 ∈ tagsUsed comp ∧
    ∃ e ∈ T, e.field = ev.2 ∧ e.path.length = ev.1 ∧ e.path <+: Pc
  U3 : ∀ chain, (∀ ev ∈ evs, ev.2 ∈ chain) → wfTagsC chain comp = true
  U4 : wfImportsC comp = true

/-! ### the Boolean clauses, fold by fold -/

theorem wfImportsF_iff {pvs pfs} {l : List Fold} :
    wfImportsF pvs pfs l = true ↔ ∀ f ∈ l,
      (∀ r ∈ f.imports, r ∈ tagsUsed f.component ∧ definedIn pvs pfs r = true) ∧
      (∀ r ∈ tagsUsed f.component, definedIn pvs pfs r = true → r ∈ f.imports) ∧
      wfImportsC f.component = true := by
  induction l with
  | nil => simp [wfImportsF]
  | cons f rest ih =>
    cases f
    simp only [wfImportsF, Bool.and_eq_true, List.all_eq_true, refMem_iff, Bool.or_eq_true,
      Bool.not_eq_true', ih, List.mem_cons, forall_eq_or_imp, Fold.imports, Fold.component]
    constructor
    · rintro ⟨⟨⟨h1, h2⟩, h3⟩, h4⟩
      refine ⟨⟨h1, ?_, h3⟩, h4⟩
      intro r hr hd
      rcases h2 r hr with h | h
      · rw [hd] at h; simp at h
      · exact h
    · rintro ⟨⟨h1, h2, h3⟩, h4⟩
      refine ⟨⟨⟨h1, ?_⟩, h3⟩, h4⟩
      intro r hr
      cases hd : definedIn pvs pfs r
      · exact Or.inl rfl
      · exact Or.inr (h2 r hr hd)

theorem tagsOkAt_iff {vs fs chain uv filters} :
    tagsOkAt vs fs chain uv filters = true ↔ ∀ r ∈ filters.flatMap filterTags,
      definedAt r ≤ uv ∧ (definedIn vs fs r = true ∨ r ∈ chain) := by
  simp only [tagsOkAt, List.all_eq_true, Bool.and_eq_true, decide_eq_true_eq, Bool.or_eq_true,
    refMem_iff]

theorem wfTagsF_iff {pvs pfs chain} {l : List Fold} :
    wfTagsF pvs pfs chain l = true ↔ ∀ f ∈ l,
      (∀ r ∈ f.post.flatMap filterTags, definedAt r ≤ f.toVid ∧
        (definedIn pvs pfs r = true ∨ r ∈ chain)) ∧
      (∀ r ∈ f.imports, definedIn pvs pfs r = true ∧ definedAt r ≤ f.toVid) ∧
      wfTagsC (f.imports ++ chain) f.component = true := by
  induction l with
  | nil => simp [wfTagsF]
  | cons f rest ih =>
    cases f
    simp only [wfTagsF, Bool.and_eq_true, tagsOkAt_iff, List.all_eq_true, decide_eq_true_eq, ih,
      List.mem_cons, forall_eq_or_imp, Fold.imports, Fold.component, Fold.post, Fold.toVid]
    constructor
    · rintro ⟨⟨⟨h1, h2⟩, h3⟩, h4⟩; exact ⟨⟨h1, h2, h3⟩, h4⟩
    · rintro ⟨⟨h1, h2, h3⟩, h4⟩; exact ⟨⟨⟨h1, h2⟩, h3⟩, h4⟩


/-! ### finishing a component -/

theorem definedIn_ctx {vs : List IRVertex} {fs : List Fold} {u : Vid} {n : Name} {t : QTy} :
    definedIn vs fs (.ctx u n t) = true ↔ u ∈ vs.map (·.vid) := by
  simp [definedIn, vertexVids]

theorem definedIn_fcount {vs : List IRVertex} {fs : List Fold} {x : Eid} {root : Vid} :
    definedIn vs fs (.fcount x root) = true ↔ ∃ f ∈ fs, f.eid = x ∧ f.toVid = root := by
  simp [definedIn]

/-- "the tag entry's path is the component's path" and "the tagged field is defined in the
component" coincide on the tag table of a finished component. -/
theorem defined_iff_path {Pc : List Vid} {v : Vid} {acc : Acc} {st0 st2 : St} {new : List TagEntry}
    {vs : List IRVertex}
    (hvs : vs.map (·.vid) = acc.verts.map (·.vid))
    (hv : v ∈ acc.verts.map (·.vid))
    (htags : st2.tags = st0.tags ++ new)
    (hnew : ∀ e ∈ new, NewTag Pc v st0.nextVid st0.nextEid st2.nextVid st2.nextEid acc e)
    (hold : ∀ e ∈ st0.tags, e.path ≠ Pc ∧ definedAt e.field < v ∧
      ∀ x r, e.field = .fcount x r → x < st0.nextEid)
    (hcnt : CountedN v st0.nextVid st0.nextEid st2.nextVid st2.nextEid acc)
    (hvlt : v < st0.nextVid) :
    ∀ e ∈ st2.tags, (e.path = Pc ↔ definedIn vs acc.folds e.field = true) := by
  intro e he
  rw [htags, List.mem_append] at he
  rcases he with he | he
  · -- an old entry: neither
    obtain ⟨h1, h2, h3⟩ := hold e he
    constructor
    · intro h; exact absurd h h1
    · intro hd
      exfalso
      cases hf : e.field with
      | ctx u n t =>
        rw [hf, definedIn_ctx, hvs] at hd
        rw [hf] at h2
        simp only [definedAt] at h2
        have hc := hcnt.vids u
        have : 0 < (accVids acc).count u :=
          List.count_pos_iff.mpr (by simp only [accVids, List.mem_append]; exact Or.inl hd)
        have hne : ¬ u = v := by nomega
        simp only [hne, if_false, inRange] at hc
        split at hc <;> nomega
      | fcount x root =>
        rw [hf, definedIn_fcount] at hd
        obtain ⟨f, hfm, hfe, _⟩ := hd
        have hx := h3 x root hf
        have hc := hcnt.eids x
        have : 0 < (accEids acc).count x :=
          List.count_pos_iff.mpr (by
            simp only [accEids, List.mem_append]; exact Or.inr (hfe ▸ eid_mem_foldsEids hfm))
        simp only [inRange] at hc
        split at hc <;> nomega
  · -- a new entry
    have hn := hnew e he
    rcases hn.cls with ⟨hp, hd⟩ | ⟨hl, f, hfm, hd⟩
    · refine ⟨fun _ => ?_, fun _ => hp⟩
      cases hf : e.field with
      | ctx u n t =>
        rw [hf] at hd
        rw [definedIn_ctx, hvs]
        rcases hd with rfl | hd
        · exact hv
        · exact hd
      | fcount x root =>
        rw [hf] at hd
        rw [definedIn_fcount]
        exact hd
    · constructor
      · intro hp; rw [hp] at hl; exact absurd hl (Nat.lt_irrefl _)
      · intro hdi
        exfalso
        cases hf : e.field with
        | ctx u n t =>
          rw [hf] at hd hdi
          rw [definedIn_ctx, hvs] at hdi
          simp only [DefInside] at hd
          have hc := hcnt.vids u
          have h1 : 0 < (acc.verts.map (·.vid)).count u := List.count_pos_iff.mpr hdi
          have h2 : 0 < (foldsVids acc.folds).count u :=
            List.count_pos_iff.mpr (mem_foldsVids hfm hd)
          simp only [accVids, List.count_append] at hc
          simp only [inRange] at hc
          split at hc <;> split at hc <;> nomega
        | fcount x root =>
          rw [hf] at hd hdi
          rw [definedIn_fcount] at hdi
          obtain ⟨g, hgm, hge, _⟩ := hdi
          simp only [DefInside] at hd
          have h2 := count_foldsEids_two hgm hfm hge hd
          have hc := hcnt.eids x
          simp only [accEids, List.count_append] at hc
          simp only [inRange] at hc
          split at hc <;> nomega


theorem tagsUsed_mk (root : Vid) (vs : List IRVertex) (es : List IREdge) (fs : List Fold)
    (os : List OutputDef) : tagsUsed (.mk root vs es fs os) = vertsTags vs ++ foldsTagsUsed fs := rfl

theorem compSpec_of_finish {Pc : List Vid} {v : Vid} {acc : Acc} {st0 st2 st3 : St}
    {new : List TagEntry} {comp : Component} {evs : List ImportEvent}
    (hv : v ∈ acc.verts.map (·.vid))
    (htags : st2.tags = st0.tags ++ new)
    (hnew : ∀ e ∈ new, NewTag Pc v st0.nextVid st0.nextEid st2.nextVid st2.nextEid acc e)
    (hold : ∀ e ∈ st0.tags, e.path ≠ Pc ∧ definedAt e.field < v ∧
      ∀ x r, e.field = .fcount x r → x < st0.nextEid)
    (hcnt : CountedN v st0.nextVid st0.nextEid st2.nextVid st2.nextEid acc)
    (hvlt : v < st0.nextVid)
    (hcert : ∀ f ∈ acc.folds, FoldCert Pc st2.tags acc.events f)
    (huses : UsesUp Pc st2.tags acc)
    (hfin : finishComponent Pc v acc st2 = .ok (comp, evs, st3)) :
    CompSpec Pc st3.tags comp evs := by
  obtain ⟨vs, evB, hmk, rfl, rfl⟩ := finishComponent_inv hfin
  obtain ⟨hcore, hvs⟩ := makeVertices_inv hmk
  obtain ⟨hres, hraise⟩ := makeVertices_spec hmk
  have hT : st3.tags = st2.tags := hcore.2.2.symm
  rw [hT]
  have hdef := defined_iff_path hvs hv htags hnew hold hcnt hvlt
  refine ⟨?_, ?_, ?_, ?_⟩
  · -- U1
    intro r hr
    rw [tagsUsed_mk, List.mem_append] at hr
    rcases hr with hr | hr
    · simp only [vertsTags, List.mem_flatMap] at hr
      obtain ⟨w, hw, f, hf, hrf⟩ := hr
      obtain ⟨e, he, h1, h2, _, h4⟩ := hres w hw r (List.mem_flatMap.mpr ⟨f, hf, hrf⟩)
      refine ⟨e, he, h1, ?_⟩
      by_cases hl : e.path.length = Pc.length
      · left; rw [h2.eq_of_length hl]; exact List.prefix_refl _
      · right
        refine ⟨h2, by have := h2.length_le; omega, ?_⟩
        rcases h4 with h4 | h4
        · exact absurd h4 hl
        · exact List.mem_append_right _ h4
    · obtain ⟨e, he, h1, h2⟩ := huses.u1 r hr
      exact ⟨e, he, h1, h2.imp id (fun ⟨a, b, c⟩ => ⟨a, b, List.mem_append_left _ c⟩)⟩
  · -- U2
    intro ev hev
    rw [List.mem_append] at hev
    rw [tagsUsed_mk]
    rcases hev with hev | hev
    · obtain ⟨h1, h2, h3⟩ := huses.u2 ev hev
      exact ⟨h1, List.mem_append_right _ h2, h3⟩
    · obtain ⟨e, he, rfl, h2, h3, h4⟩ := hraise ev hev
      exact ⟨h3, List.mem_append_left _ h4, e, he, rfl, rfl, h2⟩
  · -- U3
    intro chain hchain
    simp only [wfTagsC, Bool.and_eq_true, List.all_eq_true, tagsOkAt_iff, wfTagsF_iff]
    constructor
    · intro w hw r hr
      obtain ⟨e, he, h1, h2, h3, h4⟩ := hres w hw r hr
      refine ⟨h3, ?_⟩
      by_cases hl : e.path.length = Pc.length
      · left; rw [← h1]; exact (hdef e he).mp (h2.eq_of_length hl)
      · right
        rcases h4 with h4 | h4
        · exact absurd h4 hl
        · exact hchain _ (List.mem_append_right _ h4)
    · intro f hf
      have c := hcert f hf
      refine ⟨?_, ?_, ?_⟩
      · intro r hr
        obtain ⟨h1, e, he, h2, h3⟩ := c.post5 r hr
        refine ⟨h1, ?_⟩
        rcases h3 with h3 | h3
        · left; rw [← h2]; exact (hdef e he).mp h3
        · right; exact hchain _ (List.mem_append_left _ h3)
      · intro r hr
        obtain ⟨_, h2, e, he, h3, h4⟩ := c.impUsed r hr
        refine ⟨?_, Nat.le_of_lt h2⟩
        rw [← h4]; exact (hdef e he).mp h3
      · exact c.inner5 chain (fun ev hev => hchain ev (List.mem_append_left _ hev))
  · -- U4
    simp only [wfImportsC, wfImportsF_iff]
    intro f hf
    have c := hcert f hf
    refine ⟨?_, ?_, c.inner6⟩
    · intro r hr
      obtain ⟨h1, _, e, he, h3, h4⟩ := c.impUsed r hr
      refine ⟨h1, ?_⟩
      rw [← h4]; exact (hdef e he).mp h3
    · intro r hr hd
      obtain ⟨e, he, h1, h2⟩ := c.usedImp r hr
      apply h2
      rw [← h1] at hd
      exact (hdef e he).mpr hd


/-! ### the induction -/

theorem mem_tagDirs {vid : Vid} {n : Name} {ty : QTy} {dirs : List Dir} {x : Name × FieldRef}
    (h : x ∈ tagDirs vid n ty dirs) : x.2 = .ctx vid n ty := by
  induction dirs with
  | nil => simp [tagDirs] at h
  | cons d rest ih =>
    cases d with
    | tag t =>
      simp only [tagDirs, List.mem_cons] at h
      rcases h with rfl | h
      · rfl
      · exact ih h
    | filter op arg => exact ih (by simpa [tagDirs] using h)
    | output o => exact ih (by simpa [tagDirs] using h)

theorem mem_countTags {e : Eid} {root : Vid} {fds : List FDir} {x : Name × FieldRef}
    (h : x ∈ countTags e root fds) : x.2 = .fcount e root := by
  induction fds with
  | nil => simp [countTags] at h
  | cons d rest ih =>
    cases d with
    | countTag t =>
      simp only [countTags, List.mem_cons] at h
      rcases h with rfl | h
      · rfl
      · exact ih h
    | countOutput o => exact ih (by simpa [countTags] using h)
    | countFilter op arg => exact ih (by simpa [countTags] using h)

/-- preconditions of a run of phase A at vertex `vid` of the component with path `P` -/
structure TagPre (P : List Vid) (vid : Vid) (st : St) : Prop where
  vlt : vid < st.nextVid
  sync : st.nextVid = st.nextEid + 1
  bounded : TagsBounded st
  pathB : ∀ x ∈ P, x < st.nextVid

/-- what a successful run of phase A establishes -/
structure TagPost (P : List Vid) (vid : Vid) (st st' : St) (acc : Acc) : Prop where
  new : ∃ new, st'.tags = st.tags ++ new ∧
    ∀ e ∈ new, NewTag P vid st.nextVid st.nextEid st'.nextVid st'.nextEid acc e
  certs : ∀ f ∈ acc.folds, FoldCert P st'.tags acc.events f
  uses : UsesUp P st'.tags acc

theorem TagPost.bounded {P vid st st' acc} (h : TagPost P vid st st' acc) (hb : TagsBounded st)
    (hv : st.nextVid ≤ st'.nextVid) (he : st.nextEid ≤ st'.nextEid) : TagsBounded st' := by
  obtain ⟨new, h1, h2⟩ := h.new
  exact hb.extend h1 h2 hv he

theorem tags_sub_of_append {a b c : List TagEntry} (h : a = b ++ c) : ∀ e ∈ b, e ∈ a := by
  intro e he; rw [h]; exact List.mem_append_left _ he


theorem tags_spec (S : SchemaView) :
    (∀ path vid pre node st acc st', fillNode S path vid pre node st = .ok (acc, st') →
      TagPre path vid st → vid ∈ acc.verts.map (·.vid) ∧ TagPost path vid st st' acc) ∧
    (∀ path vid ty fields st acc st', fillFields S path vid ty fields st = .ok (acc, st') →
      TagPre path vid st → TagPost path vid st st' acc) := by
  apply fill_induct S
    (P1 := fun path vid _ _ st acc st' => TagPre path vid st →
      vid ∈ acc.verts.map (·.vid) ∧ TagPost path vid st st' acc)
    (P2 := fun path vid _ _ st acc st' => TagPre path vid st → TagPost path vid st st' acc)
  · -- node
    intro path vid pre coerceTo fields st post acc1 st' _ _ ih hpre
    have p := ih hpre
    refine ⟨by simp, ?_, ?_, ?_⟩
    · obtain ⟨new, h1, h2⟩ := p.new
      exact ⟨new, h1, fun e he => (h2 e he).weaken (Acc.le_append_right _ _)
        (Nat.le_refl _) (Nat.le_refl _) (Nat.le_refl _) (Nat.le_refl _)⟩
    · intro f hf
      simp only [Acc.append_folds, List.nil_append] at hf
      exact (p.certs f hf).mono (fun e he => he) (fun ev hev => hev)
    · exact UsesUp.append (UsesUp.trivial rfl rfl) p.uses
  · -- nil
    intro path vid ty st _
    refine ⟨⟨[], by simp, by simp⟩, ?_, UsesUp.trivial rfl rfl⟩
    intro f hf; simp at hf
  · -- prop
    intro path vid ty n dirs rest st pty st1 acc1 st' _ h2 h3 ih hpre
    obtain ⟨hv1, he1, _, ht1⟩ := registerTags_inv h2
    have c := (counted S).2 _ _ _ _ _ _ _ h3
    have hvm := c.vmono; have hem := c.emono
    -- the tags registered here
    have hreg : ∀ e ∈ (tagDirs vid n pty dirs).map (fun (x : Name × FieldRef) =>
        (⟨x.1, x.2, path⟩ : TagEntry)), e.path = path ∧ e.field = .ctx vid n pty := by
      intro e he
      simp only [List.mem_map] at he
      obtain ⟨x, hx, rfl⟩ := he
      exact ⟨rfl, mem_tagDirs hx⟩
    have hpre1 : TagPre path vid st1 := by
      refine ⟨by have := hpre.vlt; nomega, by have := hpre.sync; nomega, ?_, ?_⟩
      · refine ⟨?_, ?_, ?_⟩
        · intro e he
          rw [ht1, List.mem_append] at he
          rcases he with he | he
          · have := hpre.bounded.defAt e he; nomega
          · obtain ⟨_, hf⟩ := hreg e he
            rw [hf]; simp only [definedAt]; have := hpre.vlt; nomega
        · intro e he x r hx
          rw [ht1, List.mem_append] at he
          rcases he with he | he
          · have := hpre.bounded.eidB e he x r hx; nomega
          · obtain ⟨_, hf⟩ := hreg e he
            rw [hf] at hx; cases hx
        · intro e he x hx
          rw [ht1, List.mem_append] at he
          rcases he with he | he
          · have := hpre.bounded.pathB e he x hx; nomega
          · obtain ⟨hp, _⟩ := hreg e he
            rw [hp] at hx; have := hpre.pathB x hx; nomega
      · intro x hx; have := hpre.pathB x hx; nomega
    have p := ih hpre1
    obtain ⟨new, hn1, hn2⟩ := p.new
    refine ⟨⟨(tagDirs vid n pty dirs).map (fun (x : Name × FieldRef) =>
        (⟨x.1, x.2, path⟩ : TagEntry)) ++ new, by rw [hn1, ht1, List.append_assoc], ?_⟩, ?_, ?_⟩
    · intro e he
      rw [List.mem_append] at he
      rcases he with he | he
      · obtain ⟨hp, hf⟩ := hreg e he
        refine ⟨by rw [hp]; exact List.prefix_refl _, ?_, ?_, ?_, ?_, ?_⟩
        · left; rw [hf]; rfl
        · rw [hf]; simp only [definedAt]; have := hpre.vlt; nomega
        · intro x r hx; rw [hf] at hx; cases hx
        · intro x hx; rw [hp] at hx; have := hpre.pathB x hx; nomega
        · left; refine ⟨hp, ?_⟩; rw [hf]; exact Or.inl rfl
      · have := (hn2 e he).weaken (Acc.le_append_right ({ outs := outputDirs vid n pty dirs }) acc1)
          (Nat.le_of_eq hv1.symm) (Nat.le_of_eq he1.symm) (Nat.le_refl _) (Nat.le_refl _)
        exact this
    · intro f hf
      simp only [Acc.append_folds, List.nil_append] at hf
      exact (p.certs f hf).mono (fun e he => he) (fun ev hev => hev)
    · exact UsesUp.append (UsesUp.trivial rfl rfl) p.uses
  · -- fold
    intro path vid ty n params fds child rest st ed ps accIn st2 comp evs st3 post evPost st4 st5
      accR st' _ _ h3 h4 h5 h6 h7 ihC ihR hpre
    have cC := (counted S).1 _ _ _ _ _ _ _ h3
    have cR := (counted S).2 _ _ _ _ _ _ _ h7
    have b1 : st.bump.nextVid = st.nextVid + 1 := rfl
    have b2 : st.bump.nextEid = st.nextEid + 1 := rfl
    have b3 : st.bump.tags = st.tags := rfl
    rw [b1, b2] at cC
    have hCv := cC.vmono; have hCe := cC.emono; have hCs := cC.sync
    have hRv := cR.vmono; have hRe := cR.emono
    have hvlt := hpre.vlt; have hsync := hpre.sync
    -- the folded component
    have preC : TagPre (path ++ [st.nextVid]) st.nextVid st.bump := by
      refine ⟨by rw [b1]; nomega, by rw [b1, b2]; nomega,
        hpre.bounded.mono b3 (by rw [b1]; nomega) (by rw [b2]; nomega), ?_⟩
      intro x hx
      rw [List.mem_append, List.mem_singleton] at hx
      rcases hx with hx | rfl
      · have := hpre.pathB x hx; rw [b1]; nomega
      · rw [b1]; nomega
    obtain ⟨hinC, pC⟩ := ihC preC
    obtain ⟨newC, htC, hnC⟩ := pC.new
    have hold : ∀ e ∈ st.bump.tags, e.path ≠ path ++ [st.nextVid] ∧ definedAt e.field < st.nextVid ∧
        ∀ x r, e.field = .fcount x r → x < st.bump.nextEid := by
      intro e he
      rw [b3] at he
      refine ⟨?_, hpre.bounded.defAt e he, ?_⟩
      · intro hp
        have := hpre.bounded.pathB e he st.nextVid (by rw [hp]; simp)
        nomega
      · intro x r hx; have := hpre.bounded.eidB e he x r hx; rw [b2]; nomega
    have cs := compSpec_of_finish hinC htC hnC hold (by rw [b1, b2]; exact cC)
      (by rw [b1]; nomega) pC.certs pC.uses h4
    obtain ⟨hvs, hes, hcore23⟩ := allVids_finish h4
    have hcore34 := resolveFilters_core h5
    obtain ⟨hres, hraise⟩ := resolveFilters_spec h5
    obtain ⟨hv5, he5, _, ht5⟩ := registerTags_inv h6
    have ht3 : st3.tags = st.tags ++ newC := by rw [← hcore23.2.2, htC, b3]
    have ht4 : st4.tags = st.tags ++ newC := by rw [← hcore34.2.2, ht3]
    rw [b1, b2] at hnC
    have hreg : ∀ e ∈ (countTags st.nextEid st.nextVid fds).map (fun (x : Name × FieldRef) =>
        (⟨x.1, x.2, path⟩ : TagEntry)), e.path = path ∧ e.field = .fcount st.nextEid st.nextVid := by
      intro e he
      simp only [List.mem_map] at he
      obtain ⟨x, hx, rfl⟩ := he
      exact ⟨rfl, mem_countTags hx⟩
    have e23v := hcore23.1; have e23e := hcore23.2.1
    have e34v := hcore34.1; have e34e := hcore34.2.1
    have bnd2 : TagsBounded st2 := pC.bounded preC.bounded (by rw [b1]; nomega) (by rw [b2]; nomega)
    have bnd5 : TagsBounded st5 := by
      refine ⟨?_, ?_, ?_⟩
      · intro e he
        rw [ht5, List.mem_append] at he
        rcases he with he | he
        · rw [ht4, ← b3, ← htC] at he
          have := bnd2.defAt e he; nomega
        · obtain ⟨_, hf⟩ := hreg e he
          rw [hf]; simp only [definedAt]; nomega
      · intro e he x r hx
        rw [ht5, List.mem_append] at he
        rcases he with he | he
        · rw [ht4, ← b3, ← htC] at he
          have := bnd2.eidB e he x r hx; nomega
        · obtain ⟨_, hf⟩ := hreg e he
          rw [hf] at hx; cases hx; nomega
      · intro e he x hx
        rw [ht5, List.mem_append] at he
        rcases he with he | he
        · rw [ht4, ← b3, ← htC] at he
          have := bnd2.pathB e he x hx; nomega
        · obtain ⟨hp, _⟩ := hreg e he
          rw [hp] at hx; have := hpre.pathB x hx; nomega
    have preR : TagPre path vid st5 :=
      ⟨by nomega, by nomega, bnd5, fun x hx => by have := hpre.pathB x hx; nomega⟩
    have pR := ihR preR
    obtain ⟨newR, htR, hnR⟩ := pR.new
    -- names
    let fold := mkFold path vid st n ps comp evs fds post
    have hfe : fold.eid = st.nextEid := rfl
    have hft : fold.toVid = st.nextVid := rfl
    have hfc : fold.component = comp := rfl
    have hfi : fold.imports = importsAt path.length evs := rfl
    have hfp : fold.post = post := rfl
    have hT3 : ∀ e ∈ st3.tags, e ∈ st'.tags := by
      intro e he
      rw [htR, ht5, ht4, ← ht3]
      exact List.mem_append_left _ (List.mem_append_left _ he)
    have hPf : path <+: path ++ [st.nextVid] := List.prefix_append _ _
    have hlen : (path ++ [st.nextVid]).length = path.length + 1 := by simp
    have hregs : ∀ e ∈ (countTags st.nextEid st.nextVid fds).map (fun (x : Name × FieldRef) =>
        (⟨x.1, x.2, path⟩ : TagEntry)), e ∈ st'.tags := by
      intro e he; rw [htR, ht5]; exact List.mem_append_left _ (List.mem_append_right _ he)
    have hused : foldsTagsUsed [fold] = post.flatMap filterTags ++ tagsUsed comp ++ [] := rfl
    refine ⟨⟨newC ++ (countTags st.nextEid st.nextVid fds).map (fun (x : Name × FieldRef) =>
        (⟨x.1, x.2, path⟩ : TagEntry)) ++ newR, ?_, ?_⟩, ?_, ?_⟩
    · rw [htR, ht5, ht4]; simp only [List.append_assoc]
    · -- the new tags
      intro e he
      rw [List.mem_append, List.mem_append] at he
      rcases he with (he | he) | he
      · have hn := hnC e he
        have hlo := hn.lo; have hhi := hn.hi
        refine ⟨hPf.trans hn.pre, Or.inr (by rcases hlo with h | h <;> nomega), by nomega, ?_, ?_,
          Or.inr ⟨by have := hn.pre.length_le; rw [hlen] at this; omega, fold, by simp [fold], ?_⟩⟩
        · intro x r hx; have := hn.eid x r hx; nomega
        · intro x hx; have := hn.pathB x hx; nomega
        · rcases hn.cls with ⟨_, hd⟩ | ⟨_, f', hf', hd⟩
          · cases hf : e.field with
            | ctx u nm t =>
              rw [hf] at hd
              show u ∈ allVids comp
              rw [hvs]; simp only [accVids, List.mem_append]
              rcases hd with rfl | hd
              · exact Or.inl hinC
              · exact Or.inl hd
            | fcount x r =>
              rw [hf] at hd
              obtain ⟨g, hg, hge, _⟩ := hd
              show x ∈ allEids comp
              rw [hes]; simp only [accEids, List.mem_append]
              exact Or.inr (hge ▸ eid_mem_foldsEids hg)
          · cases hf : e.field with
            | ctx u nm t =>
              rw [hf] at hd
              show u ∈ allVids comp
              rw [hvs]; simp only [accVids, List.mem_append]
              exact Or.inr (mem_foldsVids hf' hd)
            | fcount x r =>
              rw [hf] at hd
              show x ∈ allEids comp
              rw [hes]; simp only [accEids, List.mem_append]
              exact Or.inr (mem_foldsEids hf' hd)
      · obtain ⟨hp, hf⟩ := hreg e he
        refine ⟨by rw [hp]; exact List.prefix_refl _, Or.inr ?_, ?_, ?_, ?_, Or.inl ⟨hp, ?_⟩⟩
        · rw [hf]; simp only [definedAt]; nomega
        · rw [hf]; simp only [definedAt]; nomega
        · intro x r hx; rw [hf] at hx; cases hx; constructor <;> nomega
        · intro x hx; rw [hp] at hx; have := hpre.pathB x hx; nomega
        · rw [hf]; exact ⟨fold, by simp [fold], rfl, rfl⟩
      · exact (hnR e he).weaken (Acc.le_append_right _ accR) (by nomega) (by nomega)
          (Nat.le_refl _) (Nat.le_refl _)
    · -- the certificates
      intro f hf
      simp only [Acc.append_folds, List.cons_append, List.nil_append, List.mem_cons] at hf
      rcases hf with rfl | hf
      · refine ⟨?_, ?_, cs.U4, ?_, ?_⟩
        · intro r hr
          rw [hfi, mem_importsAt] at hr
          obtain ⟨_, h2, e, he, h3, h4, h5⟩ := cs.U2 _ hr
          simp only at h2 h3 h4
          have hpe : e.path = path :=
            (List.prefix_of_prefix_length_le h5 hPf (by omega)).eq_of_length h4
          refine ⟨h2, ?_, e, hT3 e he, hpe, h3⟩
          rw [ht3, List.mem_append] at he
          rcases he with he | he
          · rw [← h3, hft]; exact hpre.bounded.defAt e he
          · have := (hnC e he).pre.length_le
            rw [hlen, h4] at this; omega
        · intro r hr
          obtain ⟨e, he, h1, h2⟩ := cs.U1 r hr
          refine ⟨e, hT3 e he, h1, fun hp => ?_⟩
          rw [hfi, mem_importsAt]
          rcases h2 with h2 | ⟨_, _, h2⟩
          · have := h2.length_le; rw [hp, hlen] at this; omega
          · rw [hp] at h2; exact h2
        · intro chain hc
          apply cs.U3
          intro ev hev
          rw [List.mem_append]
          by_cases hk : ev.1 = path.length
          · left; rw [hfi, mem_importsAt, ← hk]; exact hev
          · right
            apply hc
            simp only [Acc.append_events, List.mem_append]
            exact Or.inl (Or.inl (mem_importsAbove.mpr ⟨hev, hk⟩))
        · intro r hr
          obtain ⟨e, he, h1, h2, h3, h4⟩ := hres r hr
          refine ⟨h3, e, hT3 e he, h1, ?_⟩
          by_cases hl : e.path.length = path.length
          · exact Or.inl (h2.eq_of_length hl)
          · right
            rcases h4 with h4 | h4
            · exact absurd h4 hl
            · simp only [Acc.append_events, List.mem_append]
              exact Or.inl (Or.inr h4)
      · exact (pR.certs f hf).mono (fun e he => he)
          (fun ev hev => by simp only [Acc.append_events, List.mem_append]; exact Or.inr hev)
    · -- what the enclosing component needs
      refine UsesUp.append ⟨?_, ?_⟩ pR.uses
      · intro r hr
        change r ∈ foldsTagsUsed [fold] at hr
        rw [hused, List.append_nil, List.mem_append] at hr
        rcases hr with hr | hr
        · obtain ⟨e, he, h1, h2, _, h4⟩ := hres r hr
          refine ⟨e, hT3 e he, h1, ?_⟩
          by_cases hl : e.path.length = path.length
          · left; rw [h2.eq_of_length hl]; exact List.prefix_refl _
          · right
            refine ⟨h2, by have := h2.length_le; omega, ?_⟩
            rcases h4 with h4 | h4
            · exact absurd h4 hl
            · exact List.mem_append_right _ h4
        · obtain ⟨e, he, h1, h2⟩ := cs.U1 r hr
          refine ⟨e, hT3 e he, h1, ?_⟩
          rcases h2 with h2 | ⟨hp', hlt, hev⟩
          · exact Or.inl (hPf.trans h2)
          · by_cases hl : e.path.length = path.length
            · left
              rw [(List.prefix_of_prefix_length_le hp' hPf (by omega)).eq_of_length hl]
              exact List.prefix_refl _
            · right
              rw [hlen] at hlt
              refine ⟨List.prefix_of_prefix_length_le hp' hPf (by omega), by omega, ?_⟩
              exact List.mem_append_left _ (mem_importsAbove.mpr ⟨hev, hl⟩)
      · intro ev hev
        change ev ∈ importsAbove path.length evs ++ evPost at hev
        change _ ∧ ev.2 ∈ foldsTagsUsed [fold] ∧ _
        rw [hused, List.append_nil]
        rw [List.mem_append] at hev
        rcases hev with hev | hev
        · obtain ⟨hev, hne⟩ := mem_importsAbove.mp hev
          obtain ⟨h1, h2, e, he, h3, h4, h5⟩ := cs.U2 ev hev
          rw [hlen] at h1
          exact ⟨by omega, List.mem_append_right _ h2, e, hT3 e he, h3, h4,
            List.prefix_of_prefix_length_le h5 hPf (by omega)⟩
        · obtain ⟨e, he, rfl, h2, h3, h4⟩ := hraise ev hev
          exact ⟨h3, List.mem_append_left _ h4, e, hT3 e he, rfl, rfl, h2⟩
  · -- plain / optional / recursive edge
    intro path vid ty n params kind child rest st ed ps r accC st2 accR st' _ _ _ _ h4 h5 ihC ihR hpre
    have cC := (counted S).1 _ _ _ _ _ _ _ h4
    have cR := (counted S).2 _ _ _ _ _ _ _ h5
    have b1 : st.bump.nextVid = st.nextVid + 1 := rfl
    have b2 : st.bump.nextEid = st.nextEid + 1 := rfl
    have b3 : st.bump.tags = st.tags := rfl
    rw [b1, b2] at cC
    have hCv := cC.vmono; have hCe := cC.emono; have hCs := cC.sync
    have hRv := cR.vmono; have hRe := cR.emono
    have hvlt := hpre.vlt; have hsync := hpre.sync
    have preC : TagPre path st.nextVid st.bump :=
      ⟨by rw [b1]; nomega, by rw [b1, b2]; nomega,
        hpre.bounded.mono b3 (by rw [b1]; nomega) (by rw [b2]; nomega),
        fun x hx => by have := hpre.pathB x hx; rw [b1]; nomega⟩
    obtain ⟨hinC, pC⟩ := ihC preC
    obtain ⟨newC, htC, hnC⟩ := pC.new
    rw [b1, b2] at hnC
    rw [b3] at htC
    have bnd2 : TagsBounded st2 := pC.bounded preC.bounded (by rw [b1]; nomega) (by rw [b2]; nomega)
    have preR : TagPre path vid st2 :=
      ⟨by nomega, by nomega, bnd2, fun x hx => by have := hpre.pathB x hx; nomega⟩
    have pR := ihR preR
    obtain ⟨newR, htR, hnR⟩ := pR.new
    have le1 : Acc.le accC
        (({ edges := [⟨st.nextEid, vid, st.nextVid, n, ps, isOptionalKind kind, r⟩] } : Acc) ++ accC ++
          accR) :=
      Acc.le_trans (Acc.le_append_right _ accC) (Acc.le_append_left _ accR)
    refine ⟨⟨newC ++ newR, by rw [htR, htC, List.append_assoc], ?_⟩, ?_, ?_⟩
    · intro e he
      rw [List.mem_append] at he
      rcases he with he | he
      · exact (hnC e he).ofChild le1 (le1.1 _ hinC) hRv hRe
      · exact (hnR e he).weaken (Acc.le_append_right _ accR) (by nomega) (by nomega)
          (Nat.le_refl _) (Nat.le_refl _)
    · intro f hf
      simp only [Acc.append_folds, List.nil_append, List.mem_append] at hf
      rcases hf with hf | hf
      · exact (pC.certs f hf).mono (tags_sub_of_append htR)
          (fun ev hev => by simp only [Acc.append_events, List.mem_append]; exact Or.inl (Or.inr hev))
      · exact (pR.certs f hf).mono (fun e he => he)
          (fun ev hev => by simp only [Acc.append_events, List.mem_append]; exact Or.inr hev)
    · exact UsesUp.append (UsesUp.append (UsesUp.trivial rfl rfl)
        (pC.uses.mono (tags_sub_of_append htR))) pR.uses

/-- clauses 5 and 6 -/
theorem toIR_tags_imports {S : SchemaView} {q : Query} {ir : IRQuery} (h : toIR S q = .ok ir) :
    wfTagsC [] ir.rootComponent = true ∧ wfImportsC ir.rootComponent = true := by
  obtain ⟨root, rootParams, acc, st1, comp, evs, st2, vars, _, _, h3, h4, _, _, _, rfl⟩ := toIR_inv h
  have i1 : St.init.nextVid = 2 := rfl
  have i2 : St.init.nextEid = 1 := rfl
  have i3 : St.init.tags = [] := rfl
  have pre : TagPre [1] 1 St.init := by
    refine ⟨by rw [i1]; decide, by rw [i1, i2], ⟨?_, ?_, ?_⟩, ?_⟩
    · intro e he; rw [i3] at he; simp at he
    · intro e he; rw [i3] at he; simp at he
    · intro e he; rw [i3] at he; simp at he
    · intro x hx; simp only [List.mem_singleton] at hx; rw [hx, i1]; decide
  obtain ⟨hin, p⟩ := (tags_spec S).1 _ _ _ _ _ _ _ h3 pre
  obtain ⟨new, ht, hn⟩ := p.new
  have cnt := (counted S).1 _ _ _ _ _ _ _ h3
  have cs := compSpec_of_finish hin ht hn (by intro e he; rw [i3] at he; simp at he) cnt
    (by rw [i1]; decide) p.certs p.uses h4
  refine ⟨?_, cs.U4⟩
  apply cs.U3
  intro ev hev
  exfalso
  obtain ⟨h1, _, e, he, _, h4', _⟩ := cs.U2 ev hev
  have hcore := (allVids_finish h4).2.2
  rw [← hcore.2.2, ht, i3, List.nil_append] at he
  have := (hn e he).pre.length_le
  simp only [List.length_singleton] at this h1
  omega


/-! ### clause 6, second half: a fold imports every tag once (repair of F-10) -/

theorem refsDistinct_iff {l : List FieldRef} : refsDistinct l = true ↔ l.Nodup := by
  induction l with
  | nil => simp [refsDistinct]
  | cons r rest ih =>
    simp only [refsDistinct, Bool.and_eq_true, Bool.not_eq_true', List.nodup_cons, ih]
    constructor
    · rintro ⟨h1, h2⟩
      refine ⟨fun hm => ?_, h2⟩
      rw [← refMem_iff, h1] at hm; simp at hm
    · rintro ⟨h1, h2⟩
      refine ⟨?_, h2⟩
      rw [Bool.eq_false_iff]
      intro hm
      exact h1 (refMem_iff.mp hm)

theorem wfImportsDistinctF_append (a b : List Fold) :
    wfImportsDistinctF (a ++ b) = (wfImportsDistinctF a && wfImportsDistinctF b) := by
  induction a with
  | nil => simp [wfImportsDistinctF]
  | cons f fs ih => cases f; simp [wfImportsDistinctF, ih, Bool.and_assoc]

theorem imports_distinct (S : SchemaView) :
    (∀ path vid pre node st acc st', fillNode S path vid pre node st = .ok (acc, st') →
      wfImportsDistinctF acc.folds = true) ∧
    (∀ path vid ty fields st acc st', fillFields S path vid ty fields st = .ok (acc, st') →
      wfImportsDistinctF acc.folds = true) := by
  apply fill_induct S
    (P1 := fun _ _ _ _ _ acc _ => wfImportsDistinctF acc.folds = true)
    (P2 := fun _ _ _ _ _ acc _ => wfImportsDistinctF acc.folds = true)
  · intro path vid pre coerceTo fields st post acc1 st' _ _ ih
    simpa [wfImportsDistinctF_append, wfImportsDistinctF] using ih
  · intro path vid ty st
    rfl
  · intro path vid ty n dirs rest st pty st1 acc1 st' _ _ _ ih
    simpa [wfImportsDistinctF_append, wfImportsDistinctF] using ih
  · intro path vid ty n params fds child rest st ed ps accIn st2 comp evs st3 post evPost st4 st5
      accR st' _ _ _ h4 _ _ _ ihC ihR
    obtain ⟨vs, ev, _, rfl, _⟩ := finishComponent_inv h4
    simp only [Acc.append_folds, wfImportsDistinctF_append, Bool.and_eq_true]
    refine ⟨?_, ihR⟩
    simp only [mkFold, wfImportsDistinctF, wfImportsDistinctC, Bool.and_eq_true, and_true]
    exact ⟨refsDistinct_iff.mpr (nodup_importsAt _ _), ihC⟩
  · intro path vid ty n params kind child rest st ed ps r accC st2 accR st' _ _ _ _ _ _ ihC ihR
    simp only [Acc.append_folds, wfImportsDistinctF_append, Bool.and_eq_true]
    exact ⟨⟨rfl, ihC⟩, ihR⟩

/-- every fold of a compiled query, at every depth, imports pairwise distinct tags -/
theorem toIR_imports_distinct {S : SchemaView} {q : Query} {ir : IRQuery} (h : toIR S q = .ok ir) :
    wfImportsDistinctC ir.rootComponent = true := by
  obtain ⟨root, rootParams, acc, st1, comp, evs, st2, vars, _, _, h3, h4, _, _, _, rfl⟩ := toIR_inv h
  obtain ⟨vs, ev, _, rfl, _⟩ := finishComponent_inv h4
  simp only [wfImportsDistinctC]
  exact (imports_distinct S).1 _ _ _ _ _ _ _ h3

end TF.Frontend
