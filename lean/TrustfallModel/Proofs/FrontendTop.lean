/-
C10, frontend layer: the parse layer's output is well-formed (connection and node of a field
agree), `validate_query_against_schema` panics only at F-8, and `make_ir_for_query` followed by the
`IndexedQuery` conversion panics only at the sites listed in `KnownSite`.
-/
import TrustfallModel.Proofs.FrontendInduction
namespace TF.FE
open Res

mutual
/-- Every `(FieldConnection, FieldNode)` pair below a node describes the same field. -/
def WFNode : FieldNode → Prop
  | .mk _ _ _ _ _ _ conns _ => WFConns conns
def WFConns : List (FieldConnection × FieldNode) → Prop
  | [] => True
  | (c, n) :: rest => (c.name = n.name ∧ c.alias = n.alias ∧ WFNode n) ∧ WFConns rest
end

theorem makeFieldConnection_head {h : FieldHead} {c : FieldConnection}
    (hc : makeFieldConnection h = .ok c) : c.name = h.name ∧ c.alias = h.alias := by
  unfold makeFieldConnection at hc
  simp only [bind_eq_ok] at hc
  obtain ⟨_, _, _, _, _, _, _, _, hc⟩ := hc
  simp at hc
  subst hc
  exact ⟨rfl, rfl⟩

theorem assembleNode_ok {h : FieldHead} {co : Option String}
    {conns : PRes (List (FieldConnection × FieldNode))} {n : FieldNode}
    (hn : assembleNode h co conns = .ok n) :
    ∃ cs, conns = .ok cs ∧ n.name = h.name ∧ n.alias = h.alias ∧ n.connections = cs := by
  unfold assembleNode at hn
  simp only [bind_eq_ok] at hn
  obtain ⟨ds, _, cs, hcs, hn⟩ := hn
  simp at hn
  subst hn
  exact ⟨cs, hcs, rfl, rfl, rfl⟩

theorem wfNode_of_connections {n : FieldNode} (h : WFConns n.connections) : WFNode n := by
  cases n; simpa [WFNode, FieldNode.connections] using h

theorem selectionGuard_not_ok {sels : List Selection} {r : PRes FieldNode} {n : FieldNode}
    (h : selectionGuard sels = some r) : r ≠ .ok n := by
  unfold selectionGuard at h
  split at h
  · cases h; intro h'; cases h'
  · split at h
    · split at h <;> (cases h; intro h'; cases h')
    · cases h

mutual
theorem makeConnection_wf : ∀ (s : Selection) (c : FieldConnection) (n : FieldNode),
    makeConnection s = .ok (c, n) → c.name = n.name ∧ c.alias = n.alias ∧ WFNode n
  | .spread _ _, c, n, h => by simp [makeConnection] at h
  | .inline _ _ _, c, n, h => by simp [makeConnection] at h
  | .field hd sels, c, n, h => by
    unfold makeConnection at h
    simp only [bind_eq_ok] at h
    obtain ⟨edge, hedge, vertex, hvertex, h⟩ := h
    simp at h
    obtain ⟨rfl, rfl⟩ := h
    obtain ⟨he1, he2⟩ := makeFieldConnection_head hedge
    split at hvertex
    · rename_i tc d inner
      obtain ⟨cs, hcs, hn1, hn2, hn3⟩ := assembleNode_ok hvertex
      refine ⟨by rw [he1, hn1], by rw [he2, hn2], wfNode_of_connections ?_⟩
      rw [hn3]
      exact makeConnections_wf inner cs hcs
    · split at hvertex
      · rename_i r hr
        exact absurd hvertex (selectionGuard_not_ok hr)
      · obtain ⟨cs, hcs, hn1, hn2, hn3⟩ := assembleNode_ok hvertex
        refine ⟨by rw [he1, hn1], by rw [he2, hn2], wfNode_of_connections ?_⟩
        rw [hn3]
        exact makeConnections_wf sels cs hcs
theorem makeConnections_wf : ∀ (l : List Selection) (cs : List (FieldConnection × FieldNode)),
    makeConnections l = .ok cs → WFConns cs
  | [], cs, h => by
    simp [makeConnections] at h; subst h; simp [WFConns]
  | s :: rest, cs, h => by
    unfold makeConnections at h
    simp only [bind_eq_ok] at h
    obtain ⟨c, hc, more, hmore, h⟩ := h
    simp at h
    subst h
    obtain ⟨c1, n1⟩ := c
    simp only [WFConns]
    exact ⟨makeConnection_wf s c1 n1 hc, makeConnections_wf rest more hmore⟩
end

theorem makeFieldNode_wf {h : FieldHead} {sels : List Selection} {n : FieldNode}
    (hn : makeFieldNode h sels = .ok n) : n.name = h.name ∧ n.alias = h.alias ∧ WFNode n := by
  unfold makeFieldNode at hn
  split at hn
  · obtain ⟨cs, hcs, hn1, hn2, hn3⟩ := assembleNode_ok hn
    exact ⟨hn1, hn2, wfNode_of_connections (by rw [hn3]; exact makeConnections_wf _ cs hcs)⟩
  · split at hn
    · rename_i r hr
      exact absurd hn (selectionGuard_not_ok hr)
    · obtain ⟨cs, hcs, hn1, hn2, hn3⟩ := assembleNode_ok hn
      exact ⟨hn1, hn2, wfNode_of_connections (by rw [hn3]; exact makeConnections_wf _ cs hcs)⟩

/-- The query `parse_document` returns is well-formed. -/
theorem parseDocument_wf {doc : Doc} {q : Query} (h : parseDocument doc = .ok q) :
    q.rootConnection.name = q.rootField.name ∧ q.rootConnection.alias = q.rootField.alias ∧
    WFNode q.rootField := by
  unfold parseDocument at h
  rw [bind_eq_ok] at h
  obtain ⟨⟨hd, sels⟩, _, h⟩ := h
  dsimp only at h
  split at h
  · cases h
  · simp only [bind_eq_ok] at h
    obtain ⟨c, hc, _, _, _, _, _, _, n, hn, h⟩ := h
    simp at h
    subst h
    obtain ⟨h1, h2⟩ := makeFieldConnection_head hc
    obtain ⟨h3, h4, h5⟩ := makeFieldNode_wf hn
    exact ⟨by rw [h1, h3], by rw [h2, h4], h5⟩

/-! ### `validate_query_against_schema` -/

mutual
theorem validateField_sat (S : SchemaView) :
    ∀ (n : FieldNode) (T : String) (len : Nat) (c : FieldConnection),
      c.name = n.name → c.alias = n.alias → WFNode n →
      Sat (fun _ => False) (validateField S T len c n) (fun len' => len' = len)
  | .mk name alias coercedTo f o t conns tg, T, len, c, hcn, hca, hwf => by
    have hwf' : WFConns conns := by simpa [WFNode] using hwf
    unfold validateField
    have hagree : (c.name == name && c.alias == alias) = true := by
      simp [FieldNode.name, FieldNode.alias] at hcn hca; simp [hcn, hca]
    rw [hagree]
    simp only [Bool.not_true, Bool.false_eq_true, ↓reduceIte]
    split
    · split <;> simp
    · split
      · trivial
      · rename_i fieldDef _
        cases hco : coercedTo with
        | none =>
          simp only [bind_ok]
          refine Sat.bind (validateConnections_sat S conns _ (len + 1) hwf') fun len2 h2 => ?_
          subst h2
          simp
        | some coerced =>
          simp only
          split
          · trivial
          · split
            · trivial
            · split
              · split
                · trivial
                · simp only [bind_ok]
                  refine Sat.bind (validateConnections_sat S conns _ (len + 2) hwf') fun len2 h2 => ?_
                  subst h2
                  have : ¬ (len + 2 < 2) := by omega
                  simp [this]
              · trivial
theorem validateConnections_sat (S : SchemaView) :
    ∀ (l : List (FieldConnection × FieldNode)) (T : String) (len : Nat), WFConns l →
      Sat (fun _ => False) (validateConnections S T len l) (fun len' => len' = len)
  | [], _, _, _ => by simp [validateConnections]
  | (c, n) :: rest, T, len, hwf => by
    simp only [WFConns] at hwf
    unfold validateConnections
    refine Sat.bind (validateField_sat S n T len c hwf.1.1 hwf.1.2.1 hwf.1.2.2) fun len1 h1 => ?_
    subst h1
    exact validateConnections_sat S rest T len1 hwf.2
end


/-! ### `make_ir_for_query` and `frontend::parse` -/

/-- The panic sites that inputs can reach (each with its witness in `Props/C10.lean`):
N-6 (F-C10-6), N-4 (F-C10-4).  (N-2 / F-C10-2, `.enumArgument`, was the third until its repair.) -/
def KnownSite (s : Site) : Prop :=
  s = .oneOfListDepth ∨ s = .outputListDepth

instance (s : Site) : Decidable (KnownSite s) := by unfold KnownSite; infer_instance

theorem KnownSite.of_fill {r : Bool} {s : Site} (h : FillSite r s) (hr : r = false) :
    KnownSite s := by
  unfold KnownSite
  rcases h with (h | ⟨_, h⟩)
  · exact Or.inl h
  · rw [hr] at h; cases h

theorem sat_lift {α : Type} {K : Site → Prop} {x : FRes α} {Q : α → Prop} (h : Sat K x Q) :
    Sat K (FRes.lift x) Q := by
  cases x <;> exact h

/-! ### the parse layer never builds a re-transform (fix of F-7) -/

theorem transformGroupLoop_noRetr (l : List PDir) :
    ∀ outs tags filts g left, transformGroupLoop outs tags filts l = .ok (g, left) →
      g.retransform = none := by
  induction l with
  | nil =>
    intro o t f g left h
    simp [transformGroupLoop] at h
    rw [← h.1]; rfl
  | cons x rest ih =>
    intro o t f g left h
    cases x <;> simp only [transformGroupLoop] at h
    case filter x => exact ih _ _ _ _ _ h
    case output x => exact ih _ _ _ _ _ h
    case tag x => exact ih _ _ _ _ _ h
    all_goals cases h

theorem makeFoldGroup_noRetr {l : List PDir} {fg : FoldGroup} (h : makeFoldGroup l = .ok fg) :
    fg.hasRetr = false := by
  unfold makeFoldGroup at h
  split at h
  · cases h; rfl
  · simp only [bind_eq_ok] at h
    obtain ⟨r, hr, h⟩ := h
    simp at h
    subst h
    obtain ⟨g, left⟩ := r
    have := transformGroupLoop_noRetr _ _ _ _ _ _ hr
    simp [FoldGroup.hasRetr, this]
  · cases h
  · cases h

theorem makeFieldConnection_noRetr {h : FieldHead} {c : FieldConnection}
    (hc : makeFieldConnection h = .ok c) : c.hasRetr = false := by
  unfold makeFieldConnection at hc
  simp only [bind_eq_ok] at hc
  obtain ⟨_, _, _, _, st, _, fold, hfold, hc⟩ := hc
  simp at hc
  subst hc
  unfold foldGroupAfter at hfold
  split at hfold
  · cases hfold; rfl
  · simp only [bind_eq_ok] at hfold
    obtain ⟨g, hg, hfold⟩ := hfold
    simp at hfold
    subst hfold
    simpa [FieldConnection.hasRetr] using makeFoldGroup_noRetr hg

theorem hasRetrNode_of_connections {n : FieldNode} (h : hasRetrConns n.connections = false) :
    hasRetrNode n = false := by
  cases n; simpa [hasRetrNode, FieldNode.connections] using h

mutual
theorem makeConnection_noRetr : ∀ (s : Selection) (c : FieldConnection) (n : FieldNode),
    makeConnection s = .ok (c, n) → c.hasRetr = false ∧ hasRetrNode n = false
  | .spread _ _, c, n, h => by simp [makeConnection] at h
  | .inline _ _ _, c, n, h => by simp [makeConnection] at h
  | .field hd sels, c, n, h => by
    unfold makeConnection at h
    simp only [bind_eq_ok] at h
    obtain ⟨edge, hedge, vertex, hvertex, h⟩ := h
    simp at h
    obtain ⟨rfl, rfl⟩ := h
    refine ⟨makeFieldConnection_noRetr hedge, ?_⟩
    split at hvertex
    · rename_i tc d inner
      obtain ⟨cs, hcs, _, _, hn3⟩ := assembleNode_ok hvertex
      exact hasRetrNode_of_connections (by rw [hn3]; exact makeConnections_noRetr inner cs hcs)
    · split at hvertex
      · rename_i r hr
        exact absurd hvertex (selectionGuard_not_ok hr)
      · obtain ⟨cs, hcs, _, _, hn3⟩ := assembleNode_ok hvertex
        exact hasRetrNode_of_connections (by rw [hn3]; exact makeConnections_noRetr sels cs hcs)
theorem makeConnections_noRetr : ∀ (l : List Selection) (cs : List (FieldConnection × FieldNode)),
    makeConnections l = .ok cs → hasRetrConns cs = false
  | [], cs, h => by
    simp [makeConnections] at h; subst h; simp [hasRetrConns]
  | s :: rest, cs, h => by
    unfold makeConnections at h
    simp only [bind_eq_ok] at h
    obtain ⟨c, hc, more, hmore, h⟩ := h
    simp at h
    subst h
    obtain ⟨c1, n1⟩ := c
    obtain ⟨h1, h2⟩ := makeConnection_noRetr s c1 n1 hc
    simp [hasRetrConns, h1, h2, makeConnections_noRetr rest more hmore]
end

theorem makeFieldNode_noRetr {h : FieldHead} {sels : List Selection} {n : FieldNode}
    (hn : makeFieldNode h sels = .ok n) : hasRetrNode n = false := by
  unfold makeFieldNode at hn
  split at hn
  · obtain ⟨cs, hcs, _, _, hn3⟩ := assembleNode_ok hn
    exact hasRetrNode_of_connections (by rw [hn3]; exact makeConnections_noRetr _ cs hcs)
  · split at hn
    · rename_i r hr
      exact absurd hn (selectionGuard_not_ok hr)
    · obtain ⟨cs, hcs, _, _, hn3⟩ := assembleNode_ok hn
      exact hasRetrNode_of_connections (by rw [hn3]; exact makeConnections_noRetr _ cs hcs)

/-- The query `parse_document` returns contains no `@fold @transform … @transform`: the
`unimplemented!` of mod.rs:1111 (F-7) cannot be reached any more. -/
theorem parseDocument_noRetr {doc : Doc} {q : Query} (h : parseDocument doc = .ok q) :
    hasRetrNode q.rootField = false := by
  unfold parseDocument at h
  rw [bind_eq_ok] at h
  obtain ⟨⟨hd, sels⟩, _, h⟩ := h
  dsimp only at h
  split at h
  · cases h
  · simp only [bind_eq_ok] at h
    obtain ⟨c, _, _, _, _, _, _, _, n, hn, h⟩ := h
    simp at h
    subst h
    exact makeFieldNode_noRetr hn

theorem errorsInto_sat {K : Site → Prop} {es : List FrontErr} (h : es ≠ []) :
    Sat K (errorsInto es) (fun _ => True) := by
  unfold errorsInto
  have : es.isEmpty = false := by simpa using h
  rw [this]
  trivial

theorem duplicateRefs_subset (outs : List (String × FieldRefM)) :
    ∀ f ∈ duplicateRefs outs, ∃ o ∈ outs, o.2 = f := by
  intro f hf
  unfold duplicateRefs at hf
  obtain ⟨o, ho, rfl⟩ := List.mem_map.mp hf
  exact ⟨o, (List.mem_filter.mp ho).1, rfl⟩

theorem makeIrForQuery_sat {S : SchemaView} (hS : ValidSchemaView S) {q : Query}
    (hwf : q.rootConnection.name = q.rootField.name ∧ q.rootConnection.alias = q.rootField.alias ∧
      WFNode q.rootField) (hnoretr : hasRetrNode q.rootField = false) :
    Sat KnownSite (makeIrForQuery S q) (fun _ => True) := by
  unfold makeIrForQuery
  have hval := validateField_sat S q.rootField S.queryType 0 q.rootConnection hwf.1 hwf.2.1 hwf.2.2
  unfold validateQuery
  by_cases htn : q.rootField.name = TYPENAME
  · -- `__typename` as the root field is refused by validation (fix of F-C10-1)
    have : (q.rootField.name == TYPENAME) = true := by simpa using htn
    rw [if_pos this]
    trivial
  have htn' : (q.rootField.name == TYPENAME) = false := by simpa using htn
  rw [if_neg (by simp [htn'])]
  cases hv : validateField S S.queryType 0 q.rootConnection q.rootField with
  | panic s =>
    rw [hv] at hval
    exact hval.elim
  | err e => simp only [bind_err]; trivial
  | ok len =>
    simp only [bind_ok]
    have hchild := validateField_valid S q.rootField S.queryType 0 q.rootConnection len hv
    obtain ⟨qt, hqt⟩ := Option.isSome_iff_exists.mp hS.queryType
    have hqtmem : qt ∈ S.types := List.mem_of_find?_eq_some hqt
    have hqtname : qt.name = S.queryType := by simpa using List.find?_some hqt
    have hdef : getVertexFieldDefinitions S S.queryType = .ok qt.fields := by
      simp [getVertexFieldDefinitions, hqt]
    rw [hdef]
    simp only [FRes.lift, bind_ok]
    rcases hchild.2.2 with h | ⟨fd, hfield, hco⟩
    · exact absurd h htn
    obtain ⟨t', ht', _, _, hfind, hfdmem, hfdname⟩ := field_eq_some hfield
    have htt : t' = qt := by rw [hqt] at ht'; exact (Option.some.inj ht').symm
    rw [htt] at hfind hfdmem
    have hinfo : getFieldNameAndType qt.fields q.rootField.name q.rootField.coercedTo =
        .ok (fd.name, fd.ty.base, q.rootField.coercedTo.getD fd.ty.base, fd.ty) := by
      simp [getFieldNameAndType, htn', hfind]
    rw [hinfo]
    simp only [bind_ok]
    have hfield' : S.field S.queryType fd.name = some fd := by rw [hfdname]; exact hfield
    rw [getEdgeDefinition_of_field hfield']
    simp only [FRes.lift, bind_ok]
    refine Sat.bind (sat_lift ((makeEdgeParameters_sat fd q.rootConnection.arguments
      (hS.paramsDistinct qt hqtmem fd hfdmem)).monoK
      (fun s h => h.elim)))
      fun paramErrs _ => ?_
    -- the root component
    have hpostvt : S.isVertexType (q.rootField.coercedTo.getD fd.ty.base) = true := by
      cases hc : q.rootField.coercedTo with
      | none => simpa using hS.rootEdges qt hqtmem hqtname fd hfdmem
      | some c' => simp only [hc] at hco; simpa using hco.1
    have hsubvalid : ValidNode S (q.rootField.coercedTo.getD fd.ty.base) q.rootField := by
      cases hc : q.rootField.coercedTo with
      | none => simp only [hc] at hco; simpa using hco
      | some c' => simp only [hc] at hco; simpa using hco.2
    let st1 : St := (⟨2, 1, [1], [], [], [], [], [], [], []⟩ : St).outputsBeginSubcomponent
    have hinv1 : st1.Inv :=
      ⟨by simp [st1, St.outputsBeginSubcomponent], by simp [st1, St.outputsBeginSubcomponent],
       by simp [st1, St.outputsBeginSubcomponent], by simp [st1, St.outputsBeginSubcomponent],
       by simp [st1, St.outputsBeginSubcomponent]⟩
    have hout1 : 0 < st1.outStack.length := by simp [st1, St.outputsBeginSubcomponent]
    have hempty : CD.Inv S st1 CD.empty :=
      ⟨by simp [CD.empty], by simp [CD.empty], by simp [CD.empty], by simp [CD.empty],
       by simp [CD.empty]⟩
    refine Sat.bind (sat_lift ((fillNode_sat hS q.rootField 1 fd.ty.base _ st1 CD.empty hinv1 hout1
      hempty (by simp [CD.empty]) (by simp [st1, St.outputsBeginSubcomponent]) hpostvt rfl
      hsubvalid).monoK (fun _ h => KnownSite.of_fill h hnoretr)))
      fun r hr => ?_
    obtain ⟨hpost, _⟩ := hr
    have hout_r : 0 < r.1.outStack.length := Nat.lt_of_lt_of_le hout1 hpost.step.outLen
    have htopc : r.2.2 = [] → ∀ o ∈ r.1.topMap, o.2.vid ∈ cdVids r.2.1 := by
      intro h0 o ho
      rcases (hpost.tops h0).2 o ho with h | h
      · simp [St.topMap, st1, St.outputsBeginSubcomponent] at h
      · exact h
    refine Sat.bind (sat_lift ((componentPost_sat hS hpost.step.inv hout_r hpost.cdInv r.2.2
      htopc).monoK
      (fun _ h => KnownSite.of_fill (r := false) (Or.inl h) rfl)))
      fun c hc => ?_
    obtain ⟨_, _, hc_vs, _, _, _, hc_go, _, hc_err, hc_ok⟩ := hc
    split
    · rename_i es herr
      exact errorsInto_sat (fun h => hc_err es herr (List.append_eq_nil_iff.mp h).2)
    · rename_i comp hok
      obtain ⟨hfill, hlen, _, hvids⟩ := hc_ok comp hok
      -- `output_handler.finish()`: both stacks are empty again
      have hvs : c.1.vidStack = [] := by
        rw [hc_vs, hpost.step.vidStack]; simp [st1, St.outputsBeginSubcomponent]
      have hos : c.1.outStack = [] := by
        have h1 := hpost.step.outLenExact hfill
        have h2 : st1.outStack.length = 1 := by simp [st1, St.outputsBeginSubcomponent]
        exact List.eq_nil_of_length_eq_zero (by omega)
      have hfin : (!(c.1.vidStack.isEmpty && c.1.outStack.isEmpty)) = false := by
        simp [hvs, hos]
      rw [hfin]
      simp only [Bool.false_eq_true, ↓reduceIte]
      refine Sat.bind (P := fun _ => True) ?_ fun dupErrs _ => ?_
      · split
        · split
          · trivial
          · rename_i hall
            exfalso
            apply hall
            rw [List.all_eq_true]
            intro f hf
            obtain ⟨o, ho, hof⟩ := duplicateRefs_subset _ f hf
            have hnew := hpost.outs hfill
            rw [hc_go] at ho
            rcases hnew o ho with h | h
            · simp [st1, St.outputsBeginSubcomponent] at h
            · rw [hvids, ← hof]
              simpa using h
        · trivial
      · generalize (_ ++ dupErrs : List FrontErr) = errors
        by_cases hE : errors = []
        · subst hE
          simp only [List.isEmpty_nil, Bool.not_true, Bool.false_eq_true, ↓reduceIte]
          split
          · trivial
          · exact Or.inr rfl
        · have : (!errors.isEmpty) = true := by simpa using hE
          rw [if_pos this]
          exact errorsInto_sat hE

/-- Every panic of the modelled `frontend::parse` (parse layer, frontend, `IndexedQuery`
conversion), against a schema satisfying `ValidSchemaView`, is at a site of `KnownSite` or at
one of the two parse-layer sites that need a document the text grammar cannot produce. -/
theorem compile_panic_known {S : SchemaView} (hS : ValidSchemaView S) {doc : Doc} {s : Site}
    (hpanic : compile S doc = .panic s) :
    KnownSite s ∨ s = .opsMultipleEmpty ∨ s = .rootItemsIndex := by
  unfold compile at hpanic
  cases hp : parseDocument doc with
  | panic s' =>
    rw [hp] at hpanic
    cases hpanic
    have := tryGetQueryRoot_panic (parseDocument_panic hp)
    rcases this.2 with ⟨h, _⟩ | ⟨h, _⟩
    · exact Or.inr (Or.inl h)
    · exact Or.inr (Or.inr h)
  | err e => rw [hp] at hpanic; cases hpanic
  | ok q =>
    rw [hp] at hpanic
    exact Or.inl ((makeIrForQuery_sat hS (parseDocument_wf hp)
      (parseDocument_noRetr hp)).panic_site hpanic)

/-- The site of N-2 / F-C10-2 (`unimplemented!` on an enum-valued edge argument) is unreachable
after its repair — on every document, producible by the text parser or not.  (History: the theorem
here was `compile_enumArgument`: the site fires only if some field has an enum literal among its
arguments.) -/
theorem compile_not_enumArgument {S : SchemaView} (hS : ValidSchemaView S) {doc : Doc} :
    compile S doc ≠ .panic .enumArgument := by
  intro hpanic
  rcases compile_panic_known hS hpanic with h | h | h
  · unfold KnownSite at h
    rcases h with h | h <;> cases h
  · cases h
  · cases h

end TF.FE
