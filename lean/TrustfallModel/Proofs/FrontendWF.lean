/-
Lemmas about the frontend model `toIR` (`Model/Frontend.lean`) for property C11: inversion lemmas
for every step of the construction, the id-counter invariants (every Vid/Eid is handed out once,
in order), and the clause-by-clause well-formedness of the result.
-/
import TrustfallModel.Model.IRWF
namespace TF.Frontend
open TF TF.Engine TF.Spec

/-! ### the `Except` monad -/

theorem bind_ok {α β : Type} {a : M α} {f : α → M β} {r : β} :
    (a >>= f) = .ok r ↔ ∃ x, a = .ok x ∧ f x = .ok r := by
  cases a <;> simp [bind, Except.bind]

theorem pure_ok {α : Type} {a r : α} : (pure a : M α) = .ok r ↔ a = r := by
  simp [pure, Except.pure]

theorem check_ok {c : Bool} {e : FrontendErr} {u : Unit} : check c e = .ok u ↔ c = true := by
  unfold check; cases c <;> simp

theorem orErr_ok {α : Type} {o : Option α} {e : FrontendErr} {a : α} :
    orErr o e = .ok a ↔ o = some a := by
  unfold orErr; cases o <;> simp

/-- same counters and same tag table (phase B only marks tags as used) -/
def St.core (a b : St) : Prop :=
  (a.nextVid : Nat) = b.nextVid ∧ (a.nextEid : Nat) = b.nextEid ∧ a.tags = b.tags

theorem St.core_refl (a : St) : St.core a a := ⟨rfl, rfl, rfl⟩
theorem St.core_trans {a b c : St} (h1 : St.core a b) (h2 : St.core b c) : St.core a c :=
  ⟨h1.1.trans h2.1, h1.2.1.trans h2.2.1, h1.2.2.trans h2.2.2⟩

theorem registerTag_inv {path name field st st'} (h : registerTag path name field st = .ok st') :
    st.tags.any (·.name == name) = false ∧ st' = { st with tags := st.tags ++ [⟨name, field, path⟩] } := by
  unfold registerTag at h
  split at h <;> simp_all

theorem registerTags_inv {path l st st'} (h : registerTags path l st = .ok st') :
    (st'.nextVid : Nat) = st.nextVid ∧ (st'.nextEid : Nat) = st.nextEid ∧ st'.used = st.used ∧
    st'.tags = st.tags ++ l.map fun x => (⟨x.1, x.2, path⟩ : TagEntry) := by
  induction l generalizing st with
  | nil => simp [registerTags] at h; subst h; simp
  | cons x rest ih =>
    obtain ⟨n, f⟩ := x
    rw [registerTags] at h
    simp only [bind_ok] at h
    obtain ⟨st1, h1, h2⟩ := h
    have := registerTag_inv h1
    have ih' := ih h2
    rw [this.2] at ih'
    simp at ih'
    simp [ih']

theorem refTag_inv {name usePath useVid st r ev st'} (h : refTag name usePath useVid st = .ok (r, ev, st')) :
    ∃ e, st.tags.find? (·.name == name) = some e ∧ isPrefix e.path usePath = true ∧
      definedAt e.field ≤ useVid ∧ r = e.field ∧
      ev = (if e.path.length = usePath.length then [] else [(e.path.length, e.field)]) ∧
      st' = { st with used := name :: st.used } := by
  unfold refTag at h
  split at h
  · simp at h
  · rename_i e he
    split at h
    · rename_i hp
      split at h
      · simp at h
      · rename_i hd
        simp at h
        exact ⟨e, he, hp, Nat.le_of_not_lt hd, h.1.symm, h.2.1.symm, h.2.2.symm⟩
    · simp at h

theorem resolveFilter_core {path vid pf st f ev st'} (h : resolveFilter path vid pf st = .ok (f, ev, st')) :
    St.core st st' := by
  unfold resolveFilter at h
  split at h
  · simp only [bind_ok, pure_ok] at h
    obtain ⟨_, _, h⟩ := h
    simp at h; rw [← h.2.2]; exact St.core_refl _
  · simp only [bind_ok, pure_ok] at h
    obtain ⟨_, _, _, _, h⟩ := h
    simp at h; rw [← h.2.2]; exact St.core_refl _
  · simp only [bind_ok, pure_ok] at h
    obtain ⟨⟨r, ev1, st1⟩, h1, _, _, h⟩ := h
    simp at h
    obtain ⟨e, _, _, _, _, _, hst⟩ := refTag_inv h1
    rw [← h.2.2, hst]; exact ⟨rfl, rfl, rfl⟩
  · simp at h

theorem resolveFilters_core {path vid l st fs ev st'} (h : resolveFilters path vid l st = .ok (fs, ev, st')) :
    St.core st st' := by
  induction l generalizing st fs ev with
  | nil => simp [resolveFilters] at h; rw [h.2.2]; exact St.core_refl _
  | cons pf rest ih =>
    rw [resolveFilters] at h
    simp only [bind_ok, pure_ok] at h
    obtain ⟨⟨f, ev1, st1⟩, h1, ⟨fs2, ev2, st2⟩, h2, h3⟩ := h
    simp at h3
    obtain ⟨_, _, rfl⟩ := h3
    exact St.core_trans (resolveFilter_core h1) (ih h2)

theorem makeVertices_inv {path l st vs ev st'} (h : makeVertices path l st = .ok (vs, ev, st')) :
    St.core st st' ∧ vs.map (·.vid) = l.map (·.vid) := by
  induction l generalizing st vs ev with
  | nil => simp [makeVertices] at h; obtain ⟨rfl, _, rfl⟩ := h; exact ⟨St.core_refl _, rfl⟩
  | cons v rest ih =>
    rw [makeVertices] at h
    simp only [bind_ok, pure_ok, makeVertex] at h
    obtain ⟨⟨x, ev1, st1⟩, ⟨⟨fs, ev0, st0⟩, h0, hx⟩, ⟨xs, ev2, st2⟩, h2, h3⟩ := h
    simp at h3 hx h2
    obtain ⟨rfl, _, rfl⟩ := h3
    obtain ⟨rfl, _, rfl⟩ := hx
    have := ih h2
    refine ⟨St.core_trans (resolveFilters_core h0) this.1, ?_⟩
    simp [this.2]

theorem finishComponent_inv {path root acc st comp evs st'}
    (h : finishComponent path root acc st = .ok (comp, evs, st')) :
    ∃ vs ev, makeVertices path acc.verts st = .ok (vs, ev, st') ∧
      comp = .mk root vs acc.edges acc.folds (sortOutputs acc.outs) ∧ evs = acc.events ++ ev := by
  unfold finishComponent at h
  simp only [bind_ok, pure_ok] at h
  obtain ⟨⟨vs, ev, st1⟩, h1, h2⟩ := h
  simp at h2
  exact ⟨vs, ev, by rw [h1, h2.2.2], h2.1.symm, h2.2.1.symm⟩


/-! ### inversion of phase A -/

def St.bump (st : St) : St := { st with nextVid := st.nextVid + 1, nextEid := st.nextEid + 1 }

theorem alloc_eq (st : St) : st.alloc = (st.nextVid, st.nextEid, st.bump) := rfl

theorem fillFields_prop_inv {S path vid ty n dirs rest st acc st'}
    (h : fillFields S path vid ty (.prop n dirs :: rest) st = .ok (acc, st')) :
    ∃ pty st1 acc1, S.propTy? ty n = some pty ∧
      registerTags path (tagDirs vid n pty dirs) st = .ok st1 ∧
      fillFields S path vid ty rest st1 = .ok (acc1, st') ∧
      acc = { outs := outputDirs vid n pty dirs } ++ acc1 := by
  rw [fillFields] at h
  simp only [bind_ok, pure_ok, orErr_ok] at h
  obtain ⟨pty, h1, st1, h2, ⟨acc1, st2⟩, h3, h4⟩ := h
  simp at h4
  exact ⟨pty, st1, acc1, h1, h2, by rw [h3, h4.2], h4.1.symm⟩

theorem fillFields_fold_inv {S path vid ty n params fds child rest st acc st'}
    (h : fillFields S path vid ty (.edge n params (.fold fds) child :: rest) st = .ok (acc, st')) :
    ∃ ed ps accIn st2 comp evs st3 post evPost st4 st5 accR,
      S.edge? ty n = some ed ∧ completeParams ed.params params = .ok ps ∧
      fillNode S (path ++ [st.nextVid]) st.nextVid ed.target child st.bump = .ok (accIn, st2) ∧
      finishComponent (path ++ [st.nextVid]) st.nextVid accIn st2 = .ok (comp, evs, st3) ∧
      resolveFilters path st.nextVid (countFilters fds) st3 = .ok (post, evPost, st4) ∧
      registerTags path (countTags st.nextEid st.nextVid fds) st4 = .ok st5 ∧
      fillFields S path vid ty rest st5 = .ok (accR, st') ∧
      acc = { folds := [Fold.mk st.nextEid vid st.nextVid n ps comp (importsAt path.length evs)
                (countOutputs fds) post],
              events := importsAbove path.length evs ++ evPost } ++ accR := by
  rw [fillFields] at h
  simp only [alloc_eq, bind_ok, pure_ok, orErr_ok] at h
  obtain ⟨ed, h1, ps, h2, ⟨accIn, st2⟩, h3, ⟨comp, evs, st3⟩, h4, ⟨post, evPost, st4⟩, h5, st5, h6,
    ⟨accR, st6⟩, h7, h8⟩ := h
  simp at h8
  exact ⟨ed, ps, accIn, st2, comp, evs, st3, post, evPost, st4, st5, accR, h1, h2, h3, h4, h5, h6,
    by rw [h7, h8.2], h8.1.symm⟩

theorem fillFields_edge_inv {S path vid ty n params kind child rest st acc st'}
    (hk : ∀ fds, kind = .fold fds → False)
    (h : fillFields S path vid ty (.edge n params kind child :: rest) st = .ok (acc, st')) :
    ∃ ed ps r accC st2 accR,
      S.edge? ty n = some ed ∧ completeParams ed.params params = .ok ps ∧
      recursiveOf S ty ed kind = .ok r ∧
      fillNode S path st.nextVid ed.target child st.bump = .ok (accC, st2) ∧
      fillFields S path vid ty rest st2 = .ok (accR, st') ∧
      acc = { edges := [⟨st.nextEid, vid, st.nextVid, n, ps, isOptionalKind kind, r⟩] } ++ accC ++ accR := by
  rw [fillFields.eq_4 _ _ _ _ _ _ _ _ _ _ hk] at h
  simp only [alloc_eq, bind_ok, pure_ok, orErr_ok] at h
  obtain ⟨ed, h1, ps, h2, r, h3, ⟨accC, st2⟩, h4, ⟨accR, st3⟩, h5, h6⟩ := h
  simp at h6
  exact ⟨ed, ps, r, accC, st2, accR, h1, h2, h3, h4, by rw [h5, h6.2], h6.1.symm⟩


theorem fillNode_inv {S path vid pre coerceTo fields st acc st'} 
    (h : fillNode S path vid pre (.mk coerceTo fields) st = .ok (acc, st')) :
    ∃ post acc1, coerce S pre coerceTo = .ok post ∧
      fillFields S path vid post fields st = .ok (acc1, st') ∧
      acc = { verts := [⟨vid, post, coerceTo.map fun _ => pre, nodeFilters S post fields⟩] } ++ acc1 := by
  rw [fillNode] at h
  simp only [bind_ok, pure_ok] at h
  obtain ⟨post, h1, ⟨acc1, st1⟩, h2, h3⟩ := h
  simp at h3
  exact ⟨post, acc1, h1, by rw [h2, h3.2], h3.1.symm⟩

/-! ### `Acc` -/

@[simp] theorem Acc.append_verts (a b : Acc) : (a ++ b).verts = a.verts ++ b.verts := rfl
@[simp] theorem Acc.append_edges (a b : Acc) : (a ++ b).edges = a.edges ++ b.edges := rfl
@[simp] theorem Acc.append_folds (a b : Acc) : (a ++ b).folds = a.folds ++ b.folds := rfl
@[simp] theorem Acc.append_outs (a b : Acc) : (a ++ b).outs = a.outs ++ b.outs := rfl
@[simp] theorem Acc.append_events (a b : Acc) : (a ++ b).events = a.events ++ b.events := rfl

theorem foldsVids_append (a b : List Fold) : foldsVids (a ++ b) = foldsVids a ++ foldsVids b := by
  induction a with
  | nil => simp [foldsVids]
  | cons f rest ih => cases f; simp [foldsVids, ih]

theorem foldsEids_append (a b : List Fold) : foldsEids (a ++ b) = foldsEids a ++ foldsEids b := by
  induction a with
  | nil => simp [foldsEids]
  | cons f rest ih => cases f; simp [foldsEids, ih]

/-- all Vids in the pieces of a component under construction (own vertices and sub-components) -/
def accVids (a : Acc) : List Vid := a.verts.map (·.vid) ++ foldsVids a.folds
/-- all Eids in the pieces of a component under construction -/
def accEids (a : Acc) : List Eid := a.edges.map (·.eid) ++ foldsEids a.folds

theorem accVids_append_count (a b : Acc) (x : Vid) :
    (accVids (a ++ b)).count x = (accVids a).count x + (accVids b).count x := by
  simp [accVids, foldsVids_append, List.count_append]; omega

theorem accEids_append_count (a b : Acc) (x : Eid) :
    (accEids (a ++ b)).count x = (accEids a).count x + (accEids b).count x := by
  simp [accEids, foldsEids_append, List.count_append]; omega

theorem accVids_append_length (a b : Acc) :
    (accVids (a ++ b)).length = (accVids a).length + (accVids b).length := by
  simp [accVids, foldsVids_append]; omega

theorem accEids_append_length (a b : Acc) :
    (accEids (a ++ b)).length = (accEids a).length + (accEids b).length := by
  simp [accEids, foldsEids_append]; omega

/-- indicator of the half-open interval `[lo, hi)` -/
def inRange (lo hi x : Nat) : Nat := if lo ≤ x ∧ x < hi then 1 else 0

theorem inRange_split {a b c x : Nat} (h1 : a ≤ b) (h2 : b ≤ c) :
    inRange a b x + inRange b c x = inRange a c x := by
  unfold inRange; split <;> split <;> split <;> omega

theorem inRange_cons {a b x : Nat} (h : a + 1 ≤ b) :
    (if x = a then 1 else 0) + inRange (a + 1) b x = inRange a b x := by
  unfold inRange; split <;> split <;> split <;> omega

theorem inRange_single (a x : Nat) : inRange a (a + 1) x = if x = a then 1 else 0 := by
  unfold inRange; split <;> split <;> omega

/-- What `fillFields` does to the id counters `(v, e) ↦ (v', e')`: both advance by the same
amount, and the ids it put into the pieces are exactly the ones it consumed, each once. -/
structure Counted (v e v' e' : Nat) (acc : Acc) : Prop where
  vmono : v ≤ v'
  emono : e ≤ e'
  sync : v' + e = v + e'
  vids : ∀ x, (accVids acc).count x = inRange v v' x
  eids : ∀ x, (accEids acc).count x = inRange e e' x
  elen : (accEids acc).length + e = e'

/-- The same for `fillNode`, which also places the vertex `vid` it was called for. -/
structure CountedN (vid : Vid) (v e v' e' : Nat) (acc : Acc) : Prop where
  vmono : v ≤ v'
  emono : e ≤ e'
  sync : v' + e = v + e'
  vids : ∀ x, (accVids acc).count x = (if x = vid then 1 else 0) + inRange v v' x
  eids : ∀ x, (accEids acc).count x = inRange e e' x
  elen : (accEids acc).length + e = e'

@[simp] theorem accVids_verts (l : List VertexRec) : accVids { verts := l } = l.map (·.vid) := by
  simp [accVids, foldsVids]
@[simp] theorem accEids_verts (l : List VertexRec) : accEids { verts := l } = [] := by
  simp [accEids, foldsEids]
@[simp] theorem accVids_outs (l : List OutputDef) : accVids { outs := l } = [] := by
  simp [accVids, foldsVids]
@[simp] theorem accEids_outs (l : List OutputDef) : accEids { outs := l } = [] := by
  simp [accEids, foldsEids]
@[simp] theorem accVids_edges (l : List IREdge) : accVids { edges := l } = [] := by
  simp [accVids, foldsVids]
@[simp] theorem accEids_edges (l : List IREdge) : accEids { edges := l } = l.map (·.eid) := by
  simp [accEids, foldsEids]
@[simp] theorem accVids_fold (f : Fold) (ev : List ImportEvent) :
    accVids { folds := [f], events := ev } = allVids f.component := by
  cases f; simp [accVids, foldsVids, Fold.component]
@[simp] theorem accEids_fold (f : Fold) (ev : List ImportEvent) :
    accEids { folds := [f], events := ev } = f.eid :: allEids f.component := by
  cases f; simp [accEids, foldsEids, Fold.component, Fold.eid]

theorem allVids_finish {path root acc st comp evs st'}
    (h : finishComponent path root acc st = .ok (comp, evs, st')) :
    allVids comp = accVids acc ∧ allEids comp = accEids acc ∧ St.core st st' := by
  obtain ⟨vs, ev, h1, rfl, _⟩ := finishComponent_inv h
  have := makeVertices_inv h1
  simp [allVids, allEids, accVids, accEids, vertexVids, this.2, this.1]

variable (S : SchemaView)

theorem counted :
    (∀ path vid pre node st acc st', fillNode S path vid pre node st = .ok (acc, st') →
      CountedN vid st.nextVid st.nextEid st'.nextVid st'.nextEid acc) ∧
    (∀ path vid ty fields st acc st', fillFields S path vid ty fields st = .ok (acc, st') →
      Counted st.nextVid st.nextEid st'.nextVid st'.nextEid acc) := by
  apply fillNode.mutual_induct
    (motive_1 := fun path vid pre node st => ∀ acc st',
      fillNode S path vid pre node st = .ok (acc, st') →
        CountedN vid st.nextVid st.nextEid st'.nextVid st'.nextEid acc)
    (motive_2 := fun path vid ty fields st => ∀ acc st',
      fillFields S path vid ty fields st = .ok (acc, st') →
        Counted st.nextVid st.nextEid st'.nextVid st'.nextEid acc)
  · -- node
    intro path vid pre coerceTo fields st ih acc st' h
    obtain ⟨post, acc1, _, h2, rfl⟩ := fillNode_inv h
    have c := ih post acc1 st' h2
    refine ⟨c.vmono, c.emono, c.sync, ?_, ?_, ?_⟩
    · intro x; rw [accVids_append_count, c.vids]; simp [List.count_cons]
      by_cases hx : x = vid
      · simp [hx]
      · have : ¬ vid = x := fun h => hx h.symm
        simp [hx, this]
    · intro x; rw [accEids_append_count, c.eids]; simp
    · rw [accEids_append_length]; simp; exact c.elen
  · -- nil
    intro path vid ty st acc st' h
    simp [fillFields] at h
    obtain ⟨rfl, rfl⟩ := h
    refine ⟨Nat.le_refl _, Nat.le_refl _, rfl, ?_, ?_, ?_⟩ <;>
      simp [accVids, accEids, foldsVids, foldsEids, inRange] <;> omega
  · -- prop
    intro path vid ty n dirs rest st ih acc st' h
    obtain ⟨pty, st1, acc1, _, h2, h3, rfl⟩ := fillFields_prop_inv h
    have c := ih st1 acc1 st' h3
    obtain ⟨hv, he, _, _⟩ := registerTags_inv h2
    rw [hv, he] at c
    refine ⟨c.vmono, c.emono, c.sync, ?_, ?_, ?_⟩
    · intro x; rw [accVids_append_count, c.vids]; simp
    · intro x; rw [accEids_append_count, c.eids]; simp
    · rw [accEids_append_length]; simp; exact c.elen
  · -- fold
    intro path vid ty n params fds child rest st v e st1 hal ihC ihR acc st' h
    obtain ⟨ed, ps, accIn, st2, comp, evs, st3, post, evPost, st4, st5, accR, _, _, h3, h4, h5, h6, h7,
      rfl⟩ := fillFields_fold_inv h
    have cC := ihC ed
    simp only [alloc_eq] at hal
    obtain ⟨rfl, rfl, rfl⟩ := Prod.mk.inj hal |>.imp id Prod.mk.inj
    have cC := ihC ed accIn st2 h3
    obtain ⟨hv, he, hcore⟩ := allVids_finish h4
    have c34 := resolveFilters_core h5
    obtain ⟨hv5, he5, _, _⟩ := registerTags_inv h6
    have cR := ihR st5 accR st' h7
    rw [hv5, he5, ← c34.1, ← c34.2.1, ← hcore.1, ← hcore.2.1] at cR
    have b1 : st.bump.nextVid = st.nextVid + 1 := rfl
    have b2 : st.bump.nextEid = st.nextEid + 1 := rfl
    rw [b1, b2] at cC
    have := cC.vmono; have := cC.emono; have := cC.sync
    have := cR.vmono; have := cR.emono; have := cR.sync
    refine ⟨by omega, by omega, by omega, ?_, ?_, ?_⟩
    · intro x
      rw [accVids_append_count, cR.vids, accVids_fold]
      simp only [Fold.component]
      rw [hv, cC.vids, inRange_cons (by omega), inRange_split (by omega) (by omega)]
    · intro x
      rw [accEids_append_count, cR.eids, accEids_fold]
      simp only [Fold.component, Fold.eid, List.count_cons]
      rw [he, cC.eids]
      have : (if (st.nextEid == x) = true then 1 else 0) = if x = st.nextEid then 1 else 0 := by
        by_cases hx : x = st.nextEid
        · simp [hx]
        · have : ¬ st.nextEid = x := fun h => hx h.symm
          simp [hx, this]
      rw [this, Nat.add_comm (inRange _ _ _), inRange_cons (by omega), inRange_split (by omega) (by omega)]
    · rw [accEids_append_length, accEids_fold]
      simp only [Fold.component, Fold.eid, List.length_cons]
      rw [he]
      have := cC.elen; have := cR.elen
      omega
  · -- plain / optional / recursive edge
    intro path vid ty n params kind child rest st hk v e st1 hal ihC ihR acc st' h
    obtain ⟨ed, ps, r, accC, st2, accR, _, _, _, h4, h5, rfl⟩ := fillFields_edge_inv hk h
    have cC := ihC ed
    simp only [alloc_eq] at hal
    obtain ⟨rfl, rfl, rfl⟩ := Prod.mk.inj hal |>.imp id Prod.mk.inj
    have cC := ihC ed accC st2 h4
    have cR := ihR st2 accR st' h5
    have b1 : st.bump.nextVid = st.nextVid + 1 := rfl
    have b2 : st.bump.nextEid = st.nextEid + 1 := rfl
    rw [b1, b2] at cC
    have := cC.vmono; have := cC.emono; have := cC.sync
    have := cR.vmono; have := cR.emono; have := cR.sync
    refine ⟨by omega, by omega, by omega, ?_, ?_, ?_⟩
    · intro x
      rw [accVids_append_count, accVids_append_count, cR.vids, cC.vids]
      simp only [accVids_edges, List.count_nil, Nat.zero_add]
      rw [inRange_cons (by omega), inRange_split (by omega) (by omega)]
    · intro x
      rw [accEids_append_count, accEids_append_count, cR.eids, cC.eids]
      simp only [accEids_edges, List.map_cons, List.map_nil, List.count_cons, List.count_nil, Nat.zero_add]
      have : (if (st.nextEid == x) = true then 1 else 0) = if x = st.nextEid then 1 else 0 := by
        by_cases hx : x = st.nextEid
        · simp [hx]
        · have : ¬ st.nextEid = x := fun h => hx h.symm
          simp [hx, this]
      rw [this, inRange_cons (by omega), inRange_split (by omega) (by omega)]
    · rw [accEids_append_length, accEids_append_length]
      simp only [accEids_edges, List.map_cons, List.map_nil, List.length_cons, List.length_nil]
      have := cC.elen; have := cR.elen
      omega

/-! ### induction over successful runs -/

/-- The fold a `@fold` edge produces. -/
def mkFold (path : List Vid) (vid : Vid) (st : St) (n : Name) (ps : Params) (comp : Component)
    (evs : List ImportEvent) (fds : List FDir) (post : List IRFilter) : Fold :=
  Fold.mk st.nextEid vid st.nextVid n ps comp (importsAt path.length evs) (countOutputs fds) post

/-- Induction over successful runs of phase A: to prove `P1` of every successful `fillNode` run and
`P2` of every successful `fillFields` run it suffices to treat the five steps, each with all the
intermediate results at hand. -/
theorem fill_induct (S : SchemaView)
    {P1 : List Vid → Vid → Name → QNode → St → Acc → St → Prop}
    {P2 : List Vid → Vid → Name → List QField → St → Acc → St → Prop}
    (node : ∀ path vid pre coerceTo fields st post acc1 st',
      coerce S pre coerceTo = .ok post →
      fillFields S path vid post fields st = .ok (acc1, st') →
      P2 path vid post fields st acc1 st' →
      P1 path vid pre (.mk coerceTo fields) st
        ({ verts := [⟨vid, post, coerceTo.map fun _ => pre, nodeFilters S post fields⟩] } ++ acc1) st')
    (nil : ∀ path vid ty st, P2 path vid ty [] st {} st)
    (prop : ∀ path vid ty n dirs rest st pty st1 acc1 st',
      S.propTy? ty n = some pty →
      registerTags path (tagDirs vid n pty dirs) st = .ok st1 →
      fillFields S path vid ty rest st1 = .ok (acc1, st') →
      P2 path vid ty rest st1 acc1 st' →
      P2 path vid ty (.prop n dirs :: rest) st ({ outs := outputDirs vid n pty dirs } ++ acc1) st')
    (fold : ∀ path vid ty n params fds child rest st ed ps accIn st2 comp evs st3 post evPost st4 st5
      accR st',
      S.edge? ty n = some ed → completeParams ed.params params = .ok ps →
      fillNode S (path ++ [st.nextVid]) st.nextVid ed.target child st.bump = .ok (accIn, st2) →
      finishComponent (path ++ [st.nextVid]) st.nextVid accIn st2 = .ok (comp, evs, st3) →
      resolveFilters path st.nextVid (countFilters fds) st3 = .ok (post, evPost, st4) →
      registerTags path (countTags st.nextEid st.nextVid fds) st4 = .ok st5 →
      fillFields S path vid ty rest st5 = .ok (accR, st') →
      P1 (path ++ [st.nextVid]) st.nextVid ed.target child st.bump accIn st2 →
      P2 path vid ty rest st5 accR st' →
      P2 path vid ty (.edge n params (.fold fds) child :: rest) st
        ({ folds := [mkFold path vid st n ps comp evs fds post],
           events := importsAbove path.length evs ++ evPost } ++ accR) st')
    (edge : ∀ path vid ty n params kind child rest st ed ps r accC st2 accR st',
      (∀ fds, kind = .fold fds → False) →
      S.edge? ty n = some ed → completeParams ed.params params = .ok ps →
      recursiveOf S ty ed kind = .ok r →
      fillNode S path st.nextVid ed.target child st.bump = .ok (accC, st2) →
      fillFields S path vid ty rest st2 = .ok (accR, st') →
      P1 path st.nextVid ed.target child st.bump accC st2 →
      P2 path vid ty rest st2 accR st' →
      P2 path vid ty (.edge n params kind child :: rest) st
        ({ edges := [⟨st.nextEid, vid, st.nextVid, n, ps, isOptionalKind kind, r⟩] } ++ accC ++ accR)
        st') :
    (∀ path vid pre node st acc st', fillNode S path vid pre node st = .ok (acc, st') →
      P1 path vid pre node st acc st') ∧
    (∀ path vid ty fields st acc st', fillFields S path vid ty fields st = .ok (acc, st') →
      P2 path vid ty fields st acc st') := by
  apply fillNode.mutual_induct
    (motive_1 := fun path vid pre node st => ∀ acc st',
      fillNode S path vid pre node st = .ok (acc, st') → P1 path vid pre node st acc st')
    (motive_2 := fun path vid ty fields st => ∀ acc st',
      fillFields S path vid ty fields st = .ok (acc, st') → P2 path vid ty fields st acc st')
  · intro path vid pre coerceTo fields st ih acc st' h
    obtain ⟨post, acc1, h1, h2, rfl⟩ := fillNode_inv h
    exact node _ _ _ _ _ _ _ _ _ h1 h2 (ih post acc1 st' h2)
  · intro path vid ty st acc st' h
    simp [fillFields] at h
    obtain ⟨rfl, rfl⟩ := h
    exact nil _ _ _ _
  · intro path vid ty n dirs rest st ih acc st' h
    obtain ⟨pty, st1, acc1, h1, h2, h3, rfl⟩ := fillFields_prop_inv h
    exact prop _ _ _ _ _ _ _ _ _ _ _ h1 h2 h3 (ih st1 acc1 st' h3)
  · intro path vid ty n params fds child rest st v e st1 hal ihC ihR acc st' h
    obtain ⟨ed, ps, accIn, st2, comp, evs, st3, post, evPost, st4, st5, accR, h1, h2, h3, h4, h5, h6,
      h7, rfl⟩ := fillFields_fold_inv h
    simp only [alloc_eq] at hal
    obtain ⟨rfl, rfl, rfl⟩ := Prod.mk.inj hal |>.imp id Prod.mk.inj
    exact fold _ _ _ _ _ _ _ _ _ _ _ _ _ _ _ _ _ _ _ _ _ _ h1 h2 h3 h4 h5 h6 h7
      (ihC ed accIn st2 h3) (ihR st5 accR st' h7)
  · intro path vid ty n params kind child rest st hk v e st1 hal ihC ihR acc st' h
    obtain ⟨ed, ps, r, accC, st2, accR, h1, h2, h3, h4, h5, rfl⟩ := fillFields_edge_inv hk h
    simp only [alloc_eq] at hal
    obtain ⟨rfl, rfl, rfl⟩ := Prod.mk.inj hal |>.imp id Prod.mk.inj
    exact edge _ _ _ _ _ _ _ _ _ _ _ _ _ _ _ _ hk h1 h2 h3 h4 h5
      (ihC ed accC st2 h4) (ihR st2 accR st' h5)


/-- `omega` after unfolding the `Vid`/`Eid` abbreviations (facts stated at those types are
otherwise invisible to it). -/
macro "nomega" : tactic => `(tactic| ((try simp only [Vid, Eid] at *); omega))

/-! ### list predicates of `IRWF` -/

theorem natsDistinct_of_count {l : List Nat} (h : ∀ x, l.count x ≤ 1) : natsDistinct l = true := by
  induction l with
  | nil => rfl
  | cons n rest ih =>
    simp only [natsDistinct, Bool.and_eq_true, Bool.not_eq_true', List.contains_eq_mem,
      decide_eq_false_iff_not]
    constructor
    · intro hm
      have := h n
      simp at this
      have : 0 < rest.count n := List.count_pos_iff.mpr hm
      omega
    · apply ih
      intro x
      have := h x
      simp [List.count_cons] at this
      omega

theorem isInterval_of_count {lo hi : Nat} {l : List Nat}
    (hc : ∀ x, l.count x = inRange lo hi x) (hl : l.length + lo = hi) : isInterval lo l = true := by
  simp only [isInterval, Bool.and_eq_true, List.all_eq_true, decide_eq_true_eq]
  constructor
  · apply natsDistinct_of_count
    intro x; rw [hc]; unfold inRange; split <;> omega
  · intro x hx
    have : 0 < l.count x := List.count_pos_iff.mpr hx
    rw [hc] at this
    unfold inRange at this
    split at this
    · omega
    · omega

theorem wfNumberingF_append (a b : List Fold) :
    wfNumberingF (a ++ b) = (wfNumberingF a && wfNumberingF b) := by
  induction a with
  | nil => simp [wfNumberingF]
  | cons f rest ih => cases f; simp [wfNumberingF, ih, Bool.and_assoc]

theorem wfIntervalsF_append (a b : List Fold) :
    wfIntervalsF (a ++ b) = (wfIntervalsF a && wfIntervalsF b) := by
  induction a with
  | nil => simp [wfIntervalsF]
  | cons f rest ih => cases f; simp [wfIntervalsF, ih, Bool.and_assoc]

theorem wfEndpointsF_append (p : List Vid) (a b : List Fold) :
    wfEndpointsF p (a ++ b) = (wfEndpointsF p a && wfEndpointsF p b) := by
  induction a with
  | nil => simp [wfEndpointsF]
  | cons f rest ih => cases f; simp [wfEndpointsF, ih, Bool.and_assoc]

theorem wfEndpointsF_mono {p q : List Vid} (hpq : ∀ x, x ∈ p → x ∈ q) {l : List Fold}
    (h : wfEndpointsF p l = true) : wfEndpointsF q l = true := by
  induction l with
  | nil => rfl
  | cons f rest ih =>
    cases f
    simp only [wfEndpointsF, Bool.and_eq_true, decide_eq_true_eq, List.contains_eq_mem] at h ⊢
    exact ⟨⟨⟨⟨h.1.1.1.1, hpq _ h.1.1.1.2⟩, h.1.1.2⟩, h.1.2⟩, ih h.2⟩


/-! ### clauses 1, 3, 4: numbering, intervals, endpoints -/

/-- Local structural well-formedness of the pieces collected at (and below) vertex `vid`. -/
structure Shaped (vid : Vid) (acc : Acc) : Prop where
  edges : ∀ e ∈ acc.edges, e.toVid = e.eid + 1 ∧ e.fromVid < e.toVid ∧
    (e.fromVid = vid ∨ e.fromVid ∈ acc.verts.map (·.vid)) ∧ e.toVid ∈ acc.verts.map (·.vid)
  foldsNum : wfNumberingF acc.folds = true
  foldsInt : wfIntervalsF acc.folds = true
  foldsEnd : wfEndpointsF (vid :: acc.verts.map (·.vid)) acc.folds = true

theorem Shaped.append {vid : Vid} {a b : Acc} (ha : Shaped vid a) (hb : Shaped vid b) :
    Shaped vid (a ++ b) := by
  refine ⟨?_, ?_, ?_, ?_⟩
  · intro e he
    simp only [Acc.append_edges, List.mem_append] at he
    simp only [Acc.append_verts, List.map_append, List.mem_append]
    rcases he with he | he
    · obtain ⟨h1, h2, h3, h4⟩ := ha.edges e he
      exact ⟨h1, h2, h3.imp id Or.inl, Or.inl h4⟩
    · obtain ⟨h1, h2, h3, h4⟩ := hb.edges e he
      exact ⟨h1, h2, h3.imp id Or.inr, Or.inr h4⟩
  · simp [wfNumberingF_append, ha.foldsNum, hb.foldsNum]
  · simp [wfIntervalsF_append, ha.foldsInt, hb.foldsInt]
  · simp only [Acc.append_folds, Acc.append_verts, wfEndpointsF_append, Bool.and_eq_true]
    refine ⟨wfEndpointsF_mono ?_ ha.foldsEnd, wfEndpointsF_mono ?_ hb.foldsEnd⟩
    · intro x hx
      simp only [List.mem_cons, List.map_append, List.mem_append] at hx ⊢
      rcases hx with hx | hx
      · exact Or.inl hx
      · exact Or.inr (Or.inl hx)
    · intro x hx
      simp only [List.mem_cons, List.map_append, List.mem_append] at hx ⊢
      rcases hx with hx | hx
      · exact Or.inl hx
      · exact Or.inr (Or.inr hx)

/-- pieces hanging below another vertex `w` of the same component: re-root at `vid` -/
theorem Shaped.reroot {vid w : Vid} {acc : Acc} (hw : w ∈ acc.verts.map (·.vid))
    (h : Shaped w acc) : Shaped vid acc := by
  refine ⟨?_, h.foldsNum, h.foldsInt, ?_⟩
  · intro e he
    obtain ⟨h1, h2, h3, h4⟩ := h.edges e he
    refine ⟨h1, h2, ?_, h4⟩
    rcases h3 with h3 | h3
    · exact Or.inr (h3 ▸ hw)
    · exact Or.inr h3
  · refine wfEndpointsF_mono ?_ h.foldsEnd
    intro x hx
    simp only [List.mem_cons] at hx ⊢
    rcases hx with rfl | hx
    · exact Or.inr hw
    · exact Or.inr hx

/-- a new edge `vid → w` in front of the pieces hanging below `w` -/
theorem Shaped.consEdge {vid w : Vid} {acc : Acc} {e : IREdge} (hw : w ∈ acc.verts.map (·.vid))
    (h : Shaped w acc) (h1 : e.toVid = e.eid + 1) (h2 : e.fromVid = vid) (h3 : e.toVid = w)
    (h4 : vid < w) : Shaped vid ({ edges := [e] } ++ acc) := by
  have hr := Shaped.reroot (vid := vid) hw h
  refine ⟨?_, ?_, ?_, ?_⟩
  · intro e' he'
    simp only [Acc.append_edges, List.cons_append, List.nil_append, List.mem_cons] at he'
    rcases he' with rfl | he'
    · refine ⟨h1, by rw [h2, h3]; exact h4, Or.inl h2, ?_⟩
      rw [h3]; exact hw
    · exact hr.edges e' he'
  · exact hr.foldsNum
  · exact hr.foldsInt
  · exact hr.foldsEnd

/-- A finished component built from shaped pieces satisfies clauses 1, 3, 4. -/
theorem shaped_finish {path root acc st comp evs st'} (hroot : root ∈ acc.verts.map (·.vid))
    (hs : Shaped root acc) (h : finishComponent path root acc st = .ok (comp, evs, st')) :
    wfNumberingC comp = true ∧ wfIntervalsC comp = true ∧ wfEndpointsC comp = true ∧
      comp.root = root := by
  obtain ⟨vs, ev, h1, rfl, _⟩ := finishComponent_inv h
  have hv := (makeVertices_inv h1).2
  refine ⟨?_, hs.foldsInt, ?_, rfl⟩
  · simp only [wfNumberingC, Bool.and_eq_true, List.all_eq_true, beq_iff_eq]
    exact ⟨fun e he => (hs.edges e he).1, hs.foldsNum⟩
  · simp only [wfEndpointsC, vertexVids, hv, Bool.and_eq_true, List.all_eq_true,
      List.contains_eq_mem, decide_eq_true_eq]
    refine ⟨⟨hroot, ?_⟩, ?_⟩
    · intro e he
      obtain ⟨_, h2, h3, h4⟩ := hs.edges e he
      refine ⟨⟨h2, ?_⟩, h4⟩
      rcases h3 with h3 | h3
      · exact h3 ▸ hroot
      · exact h3
    · refine wfEndpointsF_mono ?_ hs.foldsEnd
      intro x hx
      simp only [List.mem_cons] at hx
      rcases hx with rfl | hx
      · exact hroot
      · exact hx

theorem shaped (S : SchemaView) :
    (∀ path vid pre node st acc st', fillNode S path vid pre node st = .ok (acc, st') →
      st.nextVid = st.nextEid + 1 → vid < st.nextVid →
      vid ∈ acc.verts.map (·.vid) ∧ Shaped vid acc) ∧
    (∀ path vid ty fields st acc st', fillFields S path vid ty fields st = .ok (acc, st') →
      st.nextVid = st.nextEid + 1 → vid < st.nextVid → Shaped vid acc) := by
  apply fill_induct S
    (P1 := fun _ vid _ _ st acc _ => st.nextVid = st.nextEid + 1 → vid < st.nextVid →
      vid ∈ acc.verts.map (·.vid) ∧ Shaped vid acc)
    (P2 := fun _ vid _ _ st acc _ => st.nextVid = st.nextEid + 1 → vid < st.nextVid → Shaped vid acc)
  · -- node
    intro path vid pre coerceTo fields st post acc1 st' _ _ ih h0 hv
    refine ⟨by simp, Shaped.append ?_ (ih h0 hv)⟩
    exact ⟨by simp, rfl, rfl, rfl⟩
  · -- nil
    intro path vid ty st _ _
    exact ⟨by simp, rfl, rfl, rfl⟩
  · -- prop
    intro path vid ty n dirs rest st pty st1 acc1 st' _ h2 _ ih h0 hv
    obtain ⟨e1, e2, _, _⟩ := registerTags_inv h2
    refine Shaped.append ⟨by simp, rfl, rfl, rfl⟩ (ih (by nomega) (by nomega))
  · -- fold
    intro path vid ty n params fds child rest st ed ps accIn st2 comp evs st3 post evPost st4 st5
      accR st' _ _ h3 h4 h5 h6 h7 ihC ihR h0 hv
    have cC := (counted S).1 _ _ _ _ _ _ _ h3
    have b1 : st.bump.nextVid = st.nextVid + 1 := rfl
    have b2 : st.bump.nextEid = st.nextEid + 1 := rfl
    rw [b1, b2] at cC
    obtain ⟨hin, hsh⟩ := ihC (by rw [b1, b2]; nomega) (by rw [b1]; nomega)
    obtain ⟨hvs, hes, hcore⟩ := allVids_finish h4
    have c34 := resolveFilters_core h5
    obtain ⟨hv5, he5, _, _⟩ := registerTags_inv h6
    have := cC.sync; have := cC.vmono
    have hR := ihR (by rw [hv5, he5, ← c34.1, ← c34.2.1, ← hcore.1, ← hcore.2.1]; nomega)
      (by rw [hv5, ← c34.1, ← hcore.1]; nomega)
    obtain ⟨f1, f2, f3, f4⟩ := shaped_finish hin hsh h4
    refine Shaped.append ⟨by simp, ?_, ?_, ?_⟩ hR
    · simp [mkFold, wfNumberingF, f1, h0]
    · simp only [mkFold, wfIntervalsF, f2, Bool.and_true]
      exact isInterval_of_count (by intro x; rw [hes]; exact cC.eids x) (by rw [hes]; exact cC.elen)
    · simp [mkFold, wfEndpointsF, f3, f4, hv]
  · -- other edges
    intro path vid ty n params kind child rest st ed ps r accC st2 accR st' _ _ _ _ h4 h5 ihC ihR h0 hv
    have cC := (counted S).1 _ _ _ _ _ _ _ h4
    have b1 : st.bump.nextVid = st.nextVid + 1 := rfl
    have b2 : st.bump.nextEid = st.nextEid + 1 := rfl
    rw [b1, b2] at cC
    obtain ⟨hin, hsh⟩ := ihC (by rw [b1, b2]; nomega) (by rw [b1]; nomega)
    have := cC.sync; have := cC.vmono
    have hR := ihR (by nomega) (by nomega)
    exact Shaped.append (Shaped.consEdge hin hsh h0 rfl rfl hv) hR

/-! ### the whole frontend -/

theorem toIR_inv {S : SchemaView} {q : Query} {ir : IRQuery} (h : toIR S q = .ok ir) :
    ∃ root rootParams acc st1 comp evs st2 vars,
      S.root? q.rootEdge = some root ∧
      completeParams root.params q.rootParams = .ok rootParams ∧
      fillNode S [1] 1 root.target q.root St.init = .ok (acc, st1) ∧
      finishComponent [1] 1 acc st1 = .ok (comp, evs, st2) ∧
      addVars [] (varUses comp) = .ok vars ∧
      (st2.tags.all fun t => st2.used.contains t.name) = true ∧
      namesDistinct (treeOutputNames q.root) = true ∧
      ir = ⟨q.rootEdge, rootParams, vars, comp⟩ := by
  unfold toIR at h
  simp only [bind_ok, pure_ok, orErr_ok, check_ok] at h
  obtain ⟨root, h1, rootParams, h2, ⟨acc, st1⟩, h3, ⟨comp, evs, st2⟩, h4, vars, h5, _, h6, _, h7, h8⟩ := h
  exact ⟨root, rootParams, acc, st1, comp, evs, st2, vars, h1, h2, h3, h4, h5, h6, h7, h8.symm⟩

/-- clauses 1 and 4 -/
theorem toIR_numbering_endpoints {S : SchemaView} {q : Query} {ir : IRQuery}
    (h : toIR S q = .ok ir) :
    wfNumberingC ir.rootComponent = true ∧ wfEndpointsC ir.rootComponent = true ∧
      wfIntervalsC ir.rootComponent = true := by
  obtain ⟨root, rootParams, acc, st1, comp, evs, st2, vars, _, _, h3, h4, _, _, _, rfl⟩ := toIR_inv h
  obtain ⟨hin, hsh⟩ := (shaped S).1 _ _ _ _ _ _ _ h3 rfl (by decide)
  obtain ⟨f1, f2, f3, _⟩ := shaped_finish hin hsh h4
  exact ⟨f1, f3, f2⟩

/-- clause 2, and the top-level part of clause 3 -/
theorem toIR_unique {S : SchemaView} {q : Query} {ir : IRQuery} (h : toIR S q = .ok ir) :
    wfUnique ir.rootComponent = true ∧ isInterval 1 (allEids ir.rootComponent) = true := by
  obtain ⟨root, rootParams, acc, st1, comp, evs, st2, vars, _, _, h3, h4, _, _, _, rfl⟩ := toIR_inv h
  have c := (counted S).1 _ _ _ _ _ _ _ h3
  obtain ⟨hv, he, _⟩ := allVids_finish h4
  have i1 : St.init.nextVid = 2 := rfl
  have i2 : St.init.nextEid = 1 := rfl
  rw [i1, i2] at c
  refine ⟨?_, ?_⟩
  · simp only [wfUnique, Bool.and_eq_true]
    refine ⟨natsDistinct_of_count ?_, natsDistinct_of_count ?_⟩
    · intro x; show (allVids comp).count x ≤ 1; rw [hv, c.vids]
      by_cases hx : x = 1
      · subst hx; simp [inRange]
      · simp only [hx, if_false]; unfold inRange; split <;> omega
    · intro x; show (allEids comp).count x ≤ 1; rw [he, c.eids]; unfold inRange; split <;> omega
  · show isInterval 1 (allEids comp) = true
    rw [he]
    exact isInterval_of_count c.eids c.elen


/-! ### clause 7: variables -/

theorem levelsOk_refl (l : List Bool) : QTy.levelsOk l l = true := by
  induction l with
  | nil => rfl
  | cons a l ih => cases a <;> simp [QTy.levelsOk, ih]

theorem levelsOk_trans {a b c : List Bool} (h1 : QTy.levelsOk a b = true)
    (h2 : QTy.levelsOk b c = true) : QTy.levelsOk a c = true := by
  induction a generalizing b c with
  | nil => cases b <;> cases c <;> simp_all [QTy.levelsOk]
  | cons x a ih =>
    cases b with
    | nil => simp [QTy.levelsOk] at h1
    | cons y b =>
      cases c with
      | nil => simp [QTy.levelsOk] at h2
      | cons z c =>
        simp only [QTy.levelsOk, Bool.and_eq_true] at h1 h2 ⊢
        refine ⟨?_, ih h1.2 h2.2⟩
        cases x <;> cases y <;> cases z <;> simp_all

theorem levelsOk_and_left {a b : List Bool} (h : a.length = b.length) :
    QTy.levelsOk a (List.zipWith (· && ·) a b) = true := by
  induction a generalizing b with
  | nil => cases b <;> simp_all [QTy.levelsOk]
  | cons x a ih =>
    cases b with
    | nil => simp at h
    | cons y b =>
      simp only [List.zipWith_cons_cons, QTy.levelsOk, Bool.and_eq_true]
      exact ⟨by cases x <;> cases y <;> rfl, ih (by simpa using h)⟩

theorem levelsOk_and_right {a b : List Bool} (h : a.length = b.length) :
    QTy.levelsOk b (List.zipWith (· && ·) a b) = true := by
  induction a generalizing b with
  | nil => cases b <;> simp_all [QTy.levelsOk]
  | cons x a ih =>
    cases b with
    | nil => simp at h
    | cons y b =>
      simp only [List.zipWith_cons_cons, QTy.levelsOk, Bool.and_eq_true]
      exact ⟨by cases x <;> cases y <;> rfl, ih (by simpa using h)⟩

theorem subtype_refl (t : QTy) : t.isScalarOnlySubtype t = true := by
  simp [QTy.isScalarOnlySubtype, levelsOk_refl]

theorem subtype_trans {a b c : QTy} (h1 : a.isScalarOnlySubtype b = true)
    (h2 : b.isScalarOnlySubtype c = true) : a.isScalarOnlySubtype c = true := by
  simp only [QTy.isScalarOnlySubtype, Bool.and_eq_true, beq_iff_eq] at h1 h2 ⊢
  exact ⟨h1.1.trans h2.1, levelsOk_trans h1.2 h2.2⟩

/-- `intersect` yields a scalar-only subtype of both operands. -/
theorem intersect_subtype {a b i : QTy} (h : a.intersect b = some i) :
    a.isScalarOnlySubtype i = true ∧ b.isScalarOnlySubtype i = true := by
  unfold QTy.intersect at h
  split at h
  · rename_i he
    simp only [QTy.eqIgnoringNullability, Bool.and_eq_true, beq_iff_eq] at he
    simp only [Option.some.injEq] at h
    subst h
    simp only [QTy.isScalarOnlySubtype, Bool.and_eq_true, beq_iff_eq]
    exact ⟨⟨trivial, levelsOk_and_left he.2⟩, ⟨he.1.symm, levelsOk_and_right he.2⟩⟩
  · simp at h

/-- the query-level type recorded for `n` is compatible with a use at type `t` -/
def varOk (vars : List (Name × QTy)) (u : Name × QTy) : Bool :=
  match vars.find? (·.1 == u.1) with
  | some (_, q) => u.2.isScalarOnlySubtype q
  | none => false

theorem find_updateVar_self {n : Name} {i : QTy} {vars : List (Name × QTy)} {u : Name × QTy}
    (h : vars.find? (·.1 == n) = some u) :
    ∃ m, (updateVar n i vars).find? (·.1 == n) = some (m, i) := by
  induction vars with
  | nil => simp at h
  | cons x rest ih =>
    obtain ⟨m, w⟩ := x
    simp only [updateVar]
    by_cases hm : (m == n) = true
    · simp [hm]
    · have hm' : (m == n) = false := by simpa using hm
      simp only [hm', List.find?_cons] at h
      simp only [hm', Bool.false_eq_true, if_false, List.find?_cons]
      exact ih h

theorem find_updateVar_other {n k : Name} {i : QTy} {vars : List (Name × QTy)} (hk : (k == n) = false) :
    (updateVar n i vars).find? (·.1 == k) = vars.find? (·.1 == k) := by
  induction vars with
  | nil => rfl
  | cons x rest ih =>
    obtain ⟨m, w⟩ := x
    simp only [updateVar]
    by_cases hm : (m == n) = true
    · have hmn : m = n := by simpa using hm
      have : (m == k) = false := by
        rw [hmn]
        cases hnk : (n == k)
        · rfl
        · have : n = k := by simpa using hnk
          rw [this] at hk; simp at hk
      simp [hm, this]
    · simp only [hm, Bool.false_eq_true, if_false, List.find?_cons]
      split
      · rfl
      · exact ih

theorem find_insertVar_self {n : Name} {t : QTy} {vars : List (Name × QTy)}
    (h : vars.find? (·.1 == n) = none) :
    (insertVar n t vars).find? (·.1 == n) = some (n, t) := by
  induction vars with
  | nil => simp [insertVar]
  | cons x rest ih =>
    obtain ⟨m, w⟩ := x
    simp only [List.find?_cons] at h
    split at h
    · simp at h
    · rename_i hm
      simp only [insertVar]
      split
      · simp
      · simp only [List.find?_cons, hm]
        exact ih h

theorem find_insertVar_other {n k : Name} {t : QTy} {vars : List (Name × QTy)} (hk : (n == k) = false) :
    (insertVar n t vars).find? (·.1 == k) = vars.find? (·.1 == k) := by
  induction vars with
  | nil => simp [insertVar, hk]
  | cons x rest ih =>
    obtain ⟨m, w⟩ := x
    simp only [insertVar]
    split
    · simp [List.find?_cons, hk]
    · simp only [List.find?_cons]
      split
      · rfl
      · exact ih

/-- One step keeps every earlier use compatible and makes the new use compatible. -/
theorem addVar_ok {vars vars' : List (Name × QTy)} {n : Name} {t : QTy}
    (h : addVar vars n t = .ok vars') :
    varOk vars' (n, t) = true ∧ ∀ u, varOk vars u = true → varOk vars' u = true := by
  unfold addVar at h
  split at h
  · rename_i m q hf
    split at h
    · rename_i i hi
      simp only [Except.ok.injEq] at h
      subst h
      obtain ⟨s1, s2⟩ := intersect_subtype hi
      constructor
      · obtain ⟨m', hm'⟩ := find_updateVar_self (i := i) hf
        simp [varOk, hm', s2]
      · intro u hu
        by_cases hk : (u.1 == n) = true
        · have hun : u.1 = n := by simpa using hk
          obtain ⟨m', hm'⟩ := find_updateVar_self (i := i) hf
          simp only [varOk, hun, hf] at hu
          simp only [varOk, hun, hm']
          exact subtype_trans hu s1
        · have hk' : (u.1 == n) = false := by simpa using hk
          simp only [varOk, find_updateVar_other hk'] at hu ⊢
          exact hu
    · simp at h
  · rename_i hf
    simp only [Except.ok.injEq] at h
    subst h
    constructor
    · simp [varOk, find_insertVar_self hf, subtype_refl]
    · intro u hu
      by_cases hk : (n == u.1) = true
      · have hun : n = u.1 := by simpa using hk
        simp [varOk, ← hun, hf] at hu
      · have hk' : (n == u.1) = false := by simpa using hk
        simp only [varOk, find_insertVar_other hk'] at hu ⊢
        exact hu

theorem addVars_ok {uses vars vars' : List (Name × QTy)} (h : addVars vars uses = .ok vars') :
    (∀ u, varOk vars u = true → varOk vars' u = true) ∧ ∀ u ∈ uses, varOk vars' u = true := by
  induction uses generalizing vars with
  | nil => simp [addVars] at h; subst h; simp
  | cons x rest ih =>
    obtain ⟨n, t⟩ := x
    rw [addVars] at h
    simp only [bind_ok] at h
    obtain ⟨vars1, h1, h2⟩ := h
    obtain ⟨a1, a2⟩ := addVar_ok h1
    obtain ⟨b1, b2⟩ := ih h2
    refine ⟨fun u hu => b1 u (a2 u hu), ?_⟩
    intro u hu
    simp only [List.mem_cons] at hu
    rcases hu with rfl | hu
    · exact b1 _ a1
    · exact b2 u hu

theorem varsOk_iff (vars : List (Name × QTy)) (fs : List IRFilter) :
    varsOk vars fs = (fs.flatMap filterVarUse).all (varOk vars) := by
  unfold varsOk
  congr 1


theorem wfVars_of_uses (vars : List (Name × QTy)) :
    (∀ c, (∀ u ∈ varUses c, varOk vars u = true) → wfVarsC vars c = true) ∧
    (∀ fs, (∀ u ∈ postVarUses fs, varOk vars u = true) →
      (∀ u ∈ foldsVarUses fs, varOk vars u = true) → wfVarsF vars fs = true) := by
  apply wfVarsC.mutual_induct
  · intro root vs es fs os ih h
    simp only [varUses, List.mem_append] at h
    simp only [wfVarsC, Bool.and_eq_true, List.all_eq_true]
    refine ⟨?_, ih (fun u hu => h u (Or.inl (Or.inr hu))) (fun u hu => h u (Or.inr hu))⟩
    intro v hv
    rw [varsOk_iff, List.all_eq_true]
    intro u hu
    apply h u
    refine Or.inl (Or.inl ?_)
    simp only [List.mem_flatMap]
    exact ⟨v, hv, List.mem_flatMap.mp hu⟩
  · intro _ _; rfl
  · intro e f t n ps c imports fouts post rest ihc ihr h1 h2
    simp only [postVarUses, foldsVarUses, List.mem_append] at h1 h2
    simp only [wfVarsF, Bool.and_eq_true]
    refine ⟨⟨?_, ihc (fun u hu => h2 u (Or.inl hu))⟩,
      ihr (fun u hu => h1 u (Or.inr hu)) (fun u hu => h2 u (Or.inr hu))⟩
    rw [varsOk_iff, List.all_eq_true]
    exact fun u hu => h1 u (Or.inl hu)

/-- clause 7 -/
theorem toIR_vars {S : SchemaView} {q : Query} {ir : IRQuery} (h : toIR S q = .ok ir) :
    wfVarsC ir.variables ir.rootComponent = true := by
  obtain ⟨root, rootParams, acc, st1, comp, evs, st2, vars, _, _, _, _, h5, _, _, rfl⟩ := toIR_inv h
  exact (wfVars_of_uses vars).1 comp (addVars_ok h5).2


end TF.Frontend
