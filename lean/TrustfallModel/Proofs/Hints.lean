/-
Helper lemmas for C05 (`Props/C05.lean`).

(A) `interpret_checked`: the interpreter calls `adapter.prop` only on the static call sites
`propSites ir` — running it under an adapter that refuses every other `(vid, property)` changes
nothing.  Proved function by function over `Model/Interp.lean`.
(B) `sites_required`: every call site is in the required-properties list of its vertex, for queries
with distinct Vids (since the repair of finding F-3 this includes the sites that come from imported
tags / post-filter tag operands, `importedSites`).
-/
import TrustfallModel.Model.Hints
import TrustfallModel.Proofs.InterpHom

namespace TF.Engine
open TF

/-! ### the checked environment -/

def Env.checked (env : Env) (p : Vid → Name → Bool) : Env :=
  { env with adapter := env.adapter.checkProps p }

section checked
variable (env : Env) (p : Vid → Name → Bool)

@[simp] theorem Env.checked_args : (env.checked p).args = env.args := rfl
@[simp] theorem Env.checked_regex : (env.checked p).regex = env.regex := rfl
@[simp] theorem Env.checked_useLimits : (env.checked p).useLimits = env.useLimits := rfl
@[simp] theorem Env.checked_arg (n : Name) : (env.checked p).arg n = env.arg n := rfl
@[simp] theorem Env.checked_nbrs : (env.checked p).adapter.nbrs = env.adapter.nbrs := rfl
@[simp] theorem Env.checked_coerce : (env.checked p).adapter.coerce = env.adapter.coerce := rfl
@[simp] theorem Env.checked_start : (env.checked p).adapter.start = env.adapter.start := rfl

theorem Env.checked_prop {vid : Vid} {f : Name} (h : p vid f = true) (t : Name) (v : Option VertexId) :
    (env.checked p).adapter.prop vid t f v = env.adapter.prop vid t f v := by
  simp [Env.checked, Adapter.checkProps, h]

end checked

/-! ### (A) function by function

Stated for two environments that agree on everything the function at hand consults (`AgreeP`: the
arguments, the regex engine, the fold-limit switch, `resolve_coercion`, and `resolve_property` on the
pairs admitted by `p`); lemmas about functions that call `resolve_neighbors` additionally assume
that the two `nbrs` agree. -/

/-- `env'` answers like `env` wherever the interpreter looks, except possibly `start` / `nbrs`, and
`prop` outside `p`. -/
structure AgreeP (p : Vid → Name → Bool) (env env' : Env) : Prop where
  args : env'.args = env.args
  regex : env'.regex = env.regex
  useLimits : env'.useLimits = env.useLimits
  coerce : env'.adapter.coerce = env.adapter.coerce
  prop : ∀ {vid : Vid} {f : Name}, p vid f = true → ∀ (t : Name) (v : Option VertexId),
    env'.adapter.prop vid t f v = env.adapter.prop vid t f v

theorem AgreeP.arg {p : Vid → Name → Bool} {env env' : Env} (h : AgreeP p env env') (n : Name) :
    env'.arg n = env.arg n := by
  simp only [Env.arg, h.args]

theorem AgreeP.checked (env : Env) (p : Vid → Name → Bool) : AgreeP p env (env.checked p) :=
  ⟨rfl, rfl, rfl, rfl, fun h t v => Env.checked_prop env p h t v⟩

/-! generic helpers -/

theorem vertexSites_spec {p : Vid → Name → Bool} (comp : Component) (v : IRVertex)
    (h : ∀ s ∈ vertexSites comp v, p s.1 s.2 = true) :
    ∀ f ∈ v.filters, (∀ n t, f.left = .loc n t → p v.vid n = true) ∧
      ∀ s ∈ tagSites comp v.vid f, p s.1 s.2 = true := by
  intro f hf
  constructor
  · intro n t hleft
    apply h (v.vid, n)
    simp only [vertexSites, List.mem_flatMap]
    exact ⟨f, hf, by simp [hleft]⟩
  · intro s hs
    apply h s
    simp only [vertexSites, List.mem_flatMap]
    exact ⟨f, hf, by simp [hs]⟩


theorem mapR_congr {α β : Type} {f g : α → R β} {l : List α} (h : ∀ x ∈ l, f x = g x) :
    mapR f l = mapR g l := by
  induction l with
  | nil => rfl
  | cons x xs ih =>
    simp only [mapR, h x (by simp), ih (fun y hy => h y (by simp [hy]))]


theorem filterMapR_congr {α β : Type} {f g : α → R (Option β)} {l : List α} (h : ∀ x ∈ l, f x = g x) :
    filterMapR f l = filterMapR g l := by
  induction l with
  | nil => rfl
  | cons x xs ih =>
    simp only [filterMapR, h x (by simp), ih (fun y hy => h y (by simp [hy]))]


theorem outputSites_spec {p : Vid → Name → Bool} (comp : Component) (h : ∀ s ∈ outputSites comp, p s.1 s.2 = true) :
    ∀ o ∈ comp.outputs, (comp.vertex? o.vid).isSome → p o.vid o.field = true := by
  intro o ho hv
  apply h (o.vid, o.field)
  simp only [outputSites, List.mem_flatMap]
  exact ⟨o, ho, by simp [hv]⟩


theorem mem_subComps_self (c : Component) : c ∈ subComps c := by
  cases c; simp [subComps]


theorem mem_subCompsF {x : Component} {fs : List Fold} :
    x ∈ subCompsF fs ↔ ∃ f ∈ fs, x ∈ subComps f.component := by
  induction fs with
  | nil => simp [subCompsF]
  | cons f fs ih =>
    cases f
    simp only [subCompsF, List.mem_append, ih, List.mem_cons, exists_eq_or_imp, Fold.component]


theorem subComps_of_fold {c x : Component} {f : Fold} (hf : f ∈ c.folds)
    (hx : x ∈ subComps f.component) : x ∈ subComps c := by
  cases c with
  | mk r vs es fs o =>
    simp only [subComps, List.mem_cons]
    exact Or.inr (mem_subCompsF.mpr ⟨f, hf, hx⟩)


theorem mergeStages_folds (es : List IREdge) (fs : List Fold) (n : Nat) (st : List Stage)
    (h : mergeStages es fs n = .ok st) : ∀ f, Stage.fold f ∈ st → f ∈ fs := by
  induction n generalizing es fs st with
  | zero =>
    cases es with
    | nil => simp only [mergeStages] at h; cases h; intro f hf; simpa using hf
    | cons e es =>
      cases fs with
      | nil => simp only [mergeStages] at h; cases h; intro f hf; simp at hf
      | cons f fs => simp [mergeStages] at h
  | succ n ih =>
    cases es with
    | nil => simp only [mergeStages] at h; cases h; intro f hf; simpa using hf
    | cons e es =>
      cases fs with
      | nil => simp only [mergeStages] at h; cases h; intro f hf; simp at hf
      | cons f fs =>
        simp only [mergeStages] at h
        split at h
        · cases hm : mergeStages es (f :: fs) n with
          | ok st' =>
            rw [hm] at h; simp only [R.map] at h; cases h
            intro g hg
            simp only [List.mem_cons, reduceCtorEq, false_or] at hg
            exact ih es (f :: fs) st' hm g hg
          | panic s => rw [hm] at h; simp [R.map] at h
          | fuel => rw [hm] at h; simp [R.map] at h
        · split at h
          · cases hm : mergeStages (e :: es) fs n with
            | ok st' =>
              rw [hm] at h; simp only [R.map] at h; cases h
              intro g hg
              simp only [List.mem_cons, Stage.fold.injEq] at hg
              rcases hg with hg | hg
              · subst hg; simp
              · exact List.mem_cons_of_mem _ (ih (e :: es) fs st' hm g hg)
            | panic s => rw [hm] at h; simp [R.map] at h
            | fuel => rw [hm] at h; simp [R.map] at h
          · simp at h


/-- every call site of `comp` and of the components nested in it is admitted -/
def SitesOk (p : Vid → Name → Bool) (comp : Component) : Prop :=
  ∀ c ∈ subComps comp, ∀ s ∈ localSites c, p s.1 s.2 = true


theorem SitesOk.fold {p : Vid → Name → Bool} {comp : Component} {f : Fold} (h : SitesOk p comp)
    (hf : f ∈ comp.folds) : SitesOk p f.component :=
  fun c hc => h c (subComps_of_fold hf hc)


theorem SitesOk.vertex {p : Vid → Name → Bool} {comp : Component} (h : SitesOk p comp) :
    ∀ v ∈ comp.vertices, ∀ s ∈ vertexSites comp v, p s.1 s.2 = true := by
  intro v hv s hs
  apply h comp (mem_subComps_self comp) s
  simp only [localSites, List.mem_append, List.mem_flatMap]
  exact Or.inl ⟨v, hv, hs⟩


theorem SitesOk.foldSites {p : Vid → Name → Bool} {comp : Component} {f : Fold} (h : SitesOk p comp)
    (hf : f ∈ comp.folds) : ∀ s ∈ foldSites comp f, p s.1 s.2 = true := by
  intro s hs
  apply h comp (mem_subComps_self comp) s
  simp only [localSites, List.mem_append, List.mem_flatMap]
  exact Or.inr ⟨f, hf, hs⟩


section A
variable {env env' : Env} {p : Vid → Name → Bool} (hA : AgreeP p env env')
include hA

theorem computeLocalField_agree {vid : Vid} {field : Name} (h : p vid field = true) (t : Name)
    (ctxs : List Ctx) :
    computeLocalField env' vid t field ctxs = computeLocalField env vid t field ctxs := by
  simp only [computeLocalField, hA.prop h]


theorem tagValue_agree (comp : Component) (cur : Vid) (r : FieldRef) (c : Ctx)
    (h : ∀ s ∈ refSites comp cur r, p s.1 s.2 = true) :
    tagValue env' comp cur r c = tagValue env comp cur r c := by
  cases r with
  | fcount e rv => rfl
  | ctx vid field ty =>
    simp only [refSites] at h
    simp only [tagValue]
    split
    · rename_i hv
      have hv' : vid = cur := by simpa using hv
      subst hv'
      cases hx : comp.vertex? vid with
      | none => simp [Component.typeOf, hx]; rfl
      | some vx =>
        have h' : p vid field = true := by simpa [hx] using h
        simp only [hA.prop h']
    · rename_i hv
      cases hx : comp.vertex? vid with
      | none => rfl
      | some vx =>
        have h' : p vid field = true := by simpa [hx] using h
        simp only [hA.prop h']


theorem applyFilter_agree (comp : Component) (cur : Vid) (f : IRFilter) (ctxs : List Ctx)
    (h : ∀ s ∈ tagSites comp cur f, p s.1 s.2 = true) :
    applyFilter env' comp cur f ctxs = applyFilter env comp cur f ctxs := by
  obtain ⟨op, left, right⟩ := f
  cases op with
  | un o => rfl
  | bin o =>
    cases right with
    | none => rfl
    | some a =>
      cases a with
      | var n t => simp only [applyFilter, hA.arg, hA.regex]
      | tag r =>
        simp only [tagSites] at h
        simp only [applyFilter, tagValue_agree hA comp cur r _ h, hA.regex]


theorem applyLocalFieldFilter_agree (comp : Component) (vid : Vid) (f : IRFilter) (ctxs : List Ctx)
    (hl : ∀ n t, f.left = .loc n t → p vid n = true)
    (h : ∀ s ∈ tagSites comp vid f, p s.1 s.2 = true) :
    applyLocalFieldFilter env' comp vid f ctxs = applyLocalFieldFilter env comp vid f ctxs := by
  unfold applyLocalFieldFilter
  split
  · rename_i n t hleft
    have hp := hl n t hleft
    simp only [computeLocalField_agree hA hp]
    congr 1; funext t; congr 1; funext l
    exact applyFilter_agree hA comp vid f l h
  · rfl


theorem applyLocalFilters_agree (comp : Component) (vid : Vid) (fs : List IRFilter) (ctxs : List Ctx)
    (h : ∀ f ∈ fs, (∀ n t, f.left = .loc n t → p vid n = true) ∧
      ∀ s ∈ tagSites comp vid f, p s.1 s.2 = true) :
    applyLocalFilters env' comp vid fs ctxs = applyLocalFilters env comp vid fs ctxs := by
  induction fs generalizing ctxs with
  | nil => rfl
  | cons f fs ih =>
    simp only [applyLocalFilters]
    rw [applyLocalFieldFilter_agree hA comp vid f ctxs (h f (by simp)).1 (h f (by simp)).2]
    congr 1; funext l
    exact ih l (fun g hg => h g (by simp [hg]))


theorem enterVertex_agree (comp : Component) (v : IRVertex) (ctxs : List Ctx)
    (h : ∀ s ∈ vertexSites comp v, p s.1 s.2 = true) :
    enterVertex env' comp v ctxs = enterVertex env comp v ctxs := by
  unfold enterVertex
  have hc : coerceIfNeeded env' v ctxs = coerceIfNeeded env v ctxs := by
    simp only [coerceIfNeeded, hA.coerce]
  rw [hc]
  congr 1; funext l
  rw [applyLocalFilters_agree hA comp v.vid v.filters l (vertexSites_spec comp v h)]


theorem recLevels_agree (e : IREdge) (hn : ∀ t v, env'.adapter.nbrs e.eid t e.name e.params v = env.adapter.nbrs e.eid t e.name e.params v)
    (et rf : Name) (ct : Option Name) (k : Nat) (ps : List PCtx) :
    recLevels env' e et rf ct k ps = recLevels env e et rf ct k ps := by
  induction k generalizing ps with
  | zero => rfl
  | succ k ih =>
    simp only [recLevels]
    have h1 : ∀ l, recExpandLevel env' e rf l = recExpandLevel env e rf l := fun _ => by
      simp only [recExpandLevel, hn]
    have h2 : ∀ t l, recCoerceLevel env' e et t l = recCoerceLevel env e et t l := fun _ _ => by
      simp only [recCoerceLevel, hA.coerce]
    cases ct with
    | none => simp only [h1]; congr 1; funext l; congr 1; funext l2; exact ih l2
    | some t => simp only [h1, h2]; congr 1; funext l; congr 1; funext l2; exact ih l2


theorem expandRecursive_agree (e : IREdge) (hn : ∀ t v, env'.adapter.nbrs e.eid t e.name e.params v = env.adapter.nbrs e.eid t e.name e.params v)
    (r : Recursive) (fromV toV : IRVertex) (ctxs : List Ctx) :
    expandRecursive env' e r fromV toV ctxs = expandRecursive env e r fromV toV ctxs := by
  unfold expandRecursive recFinish
  have h1 : ∀ t l, recExpandLevel env' e t l = recExpandLevel env e t l := fun _ _ => by
    simp only [recExpandLevel, hn]
  simp only [h1, recLevels_agree hA e hn]


theorem expandEdge_agree (comp : Component) (e : IREdge) (hn : ∀ t v, env'.adapter.nbrs e.eid t e.name e.params v = env.adapter.nbrs e.eid t e.name e.params v)
    (ctxs : List Ctx)
    (h : ∀ v ∈ comp.vertices, ∀ s ∈ vertexSites comp v, p s.1 s.2 = true) :
    expandEdge env' comp e ctxs = expandEdge env comp e ctxs := by
  unfold expandEdge
  split
  · rename_i fromV toV hf ht
    have hmem : toV ∈ comp.vertices := List.mem_of_find?_eq_some ht
    have h1 : ∀ l, enterVertex env' comp toV l = enterVertex env comp toV l :=
      fun l => enterVertex_agree hA comp toV l (h toV hmem)
    have h3 : (enterVertex env' comp toV) = (enterVertex env comp toV) := funext h1
    rw [h3]
    cases e.recursive with
    | none => simp only [expandNonRecursive, hn]
    | some r => simp only [expandRecursive_agree hA e hn r fromV toV ctxs]
  · rfl


theorem maxFoldLimit_agree (fs : List IRFilter) (acc : Option Nat) :
    maxFoldLimit env' fs acc = maxFoldLimit env fs acc := by
  induction fs generalizing acc with
  | nil => rfl
  | cons f fs ih =>
    have h1 : maxLimitOf env' f = maxLimitOf env f := by
      unfold maxLimitOf; simp only [hA.arg]
    simp only [maxFoldLimit, h1, ih]


theorem minFoldLimit_agree (fs : List IRFilter) (acc : Option Nat) :
    minFoldLimit env' fs acc = minFoldLimit env fs acc := by
  induction fs generalizing acc with
  | nil => rfl
  | cons f fs ih =>
    have h1 : minLimitOf env' f = minLimitOf env f := by
      unfold minLimitOf; simp only [hA.arg]
    simp only [minFoldLimit, h1, ih]


theorem foldLimits_agree (parent : Component) (fold : Fold) :
    foldLimits env' parent fold = foldLimits env parent fold := by
  simp only [foldLimits, effectiveMinLimit, maxFoldLimit_agree hA, minFoldLimit_agree hA, hA.useLimits]


theorem importTag_agree (parent : Component) (r : FieldRef) (c : Ctx)
    (h : ∀ s ∈ importSites parent r, p s.1 s.2 = true) :
    importTag env' parent r c = importTag env parent r c := by
  cases r with
  | fcount e rv => rfl
  | ctx vid field ty =>
    simp only [importTag]
    cases hx : parent.vertex? vid with
    | none => rfl
    | some vx =>
      have h' : p vid field = true := by simpa [importSites, hx] using h
      simp only [hA.prop h']


theorem importTags_agree (parent : Component) (rs : List FieldRef) (c : Ctx)
    (h : ∀ s ∈ rs.flatMap (importSites parent), p s.1 s.2 = true) :
    importTags env' parent rs c = importTags env parent rs c := by
  induction rs generalizing c with
  | nil => rfl
  | cons r rs ih =>
    simp only [importTags]
    rw [importTag_agree hA parent r c (fun s hs => h s (by simp [hs]))]
    congr 1; funext c'
    exact ih c' (fun s hs => h s (by simp only [List.flatMap_cons, List.mem_append]; exact Or.inr hs))


theorem applyPostFilter_agree (parent : Component) (fold : Fold) (f : IRFilter) (c : Ctx)
    (h : ∀ s ∈ tagSites parent fold.fromVid f, p s.1 s.2 = true) :
    applyPostFilter env' parent fold f c = applyPostFilter env parent fold f c := by
  unfold applyPostFilter
  split
  · simp only [applyFilter_agree hA parent fold.fromVid f _ h]
  · simp only [applyFilter_agree hA parent fold.fromVid f _ h]
  · rfl


theorem applyPostFilters_agree (parent : Component) (fold : Fold) (fs : List IRFilter) (c : Ctx)
    (h : ∀ s ∈ fs.flatMap (tagSites parent fold.fromVid), p s.1 s.2 = true) :
    applyPostFilters env' parent fold fs c = applyPostFilters env parent fold fs c := by
  induction fs generalizing c with
  | nil => rfl
  | cons f fs ih =>
    simp only [applyPostFilters]
    rw [applyPostFilter_agree hA parent fold f c (fun s hs => h s (by simp [hs]))]
    have : ∀ c', applyPostFilters env' parent fold fs c' = applyPostFilters env parent fold fs c' :=
      fun c' => ih c' (fun s hs => h s (by simp only [List.flatMap_cons, List.mem_append]; exact Or.inr hs))
    simp only [this]


theorem foldOutputColumn_agree (comp : Component) (o : OutputDef) (es : List Ctx)
    (h : (comp.vertex? o.vid).isSome → p o.vid o.field = true) :
    foldOutputColumn env' comp o es = foldOutputColumn env comp o es := by
  simp only [foldOutputColumn, Component.typeOf]
  cases hx : comp.vertex? o.vid with
  | none => rfl
  | some vx => simp only [hA.prop (h (by simp [hx]))]


theorem foldOutputs_agree (fold : Fold) (elems : Option (List Ctx))
    (h : ∀ s ∈ outputSites fold.component, p s.1 s.2 = true) :
    foldOutputs env' fold elems = foldOutputs env fold elems := by
  unfold foldOutputs
  split
  · have : ∀ es, mapR (fun (o : OutputDef) => do
        let vals ← foldOutputColumn env' fold.component o es
        pure ((fold.eid, o.name), some (Value.list vals))) fold.component.outputs =
      mapR (fun (o : OutputDef) => do
        let vals ← foldOutputColumn env fold.component o es
        pure ((fold.eid, o.name), some (Value.list vals))) fold.component.outputs := by
      intro es
      apply mapR_congr
      intro o ho
      rw [foldOutputColumn_agree hA fold.component o es (outputSites_spec fold.component h o ho)]
    simp only [this]
  · rfl


theorem foldFinish_agree (parent : Component) (fold : Fold) (lim : Option Nat × Option Nat)
    (c : Ctx) (computed : List Ctx)
    (h : ∀ s ∈ foldSites parent fold, p s.1 s.2 = true) :
    foldFinish env' parent fold lim c computed = foldFinish env parent fold lim c computed := by
  have hpost : ∀ c', applyPostFilters env' parent fold fold.post c' =
      applyPostFilters env parent fold fold.post c' := fun c' =>
    applyPostFilters_agree hA parent fold fold.post c'
      (fun s hs => h s (by simp only [foldSites, List.mem_append]; exact Or.inl (Or.inr hs)))
  have hout : ∀ e, foldOutputs env' fold e = foldOutputs env fold e := fun e =>
    foldOutputs_agree hA fold e
      (fun s hs => h s (by simp only [foldSites, List.mem_append]; exact Or.inr hs))
  simp only [foldFinish, hpost, hout]


theorem computeFold_agree (hn : env'.adapter.nbrs = env.adapter.nbrs) (fuel : Nat) (parent : Component) (fold : Fold) (ctxs : List Ctx)
    (ih : ∀ ctxs, computeComponent env' fuel fold.component ctxs =
      computeComponent env fuel fold.component ctxs)
    (h : ∀ s ∈ foldSites parent fold, p s.1 s.2 = true) :
    computeFold env' fuel parent fold ctxs = computeFold env fuel parent fold ctxs := by
  rw [computeFold.eq_1, computeFold.eq_1]
  cases parent.vertex? fold.fromVid with
  | none => rfl
  | some fromV =>
    have h1 : ∀ c, importTags env' parent fold.imports c = importTags env parent fold.imports c :=
      fun c => importTags_agree hA parent fold.imports c
        (fun s hs => h s (by simp only [foldSites, List.mem_append]; exact Or.inl (Or.inl hs)))
    have h2 : ∀ lim c, foldOne env' fuel parent fold fromV.typeName lim c =
        foldOne env fuel parent fold fromV.typeName lim c := by
      intro lim c
      rw [foldOne.eq_1, foldOne.eq_1]
      simp only [hn, ih]
      congr 1; funext ns; congr 1; funext computed
      exact foldFinish_agree hA parent fold lim c computed h
    have h1' : importTags env' parent fold.imports = importTags env parent fold.imports := funext h1
    simp only [h1', h2, foldLimits_agree hA]


theorem runStages_agree (hn : env'.adapter.nbrs = env.adapter.nbrs) (fuel : Nat) (comp : Component) (stages : List Stage) (visited : List Vid)
    (ctxs : List Ctx)
    (ih : ∀ f ∈ comp.folds, ∀ ctxs, computeComponent env' fuel f.component ctxs =
      computeComponent env fuel f.component ctxs)
    (hst : ∀ f, Stage.fold f ∈ stages → f ∈ comp.folds)
    (h : SitesOk p comp) :
    runStages env' fuel comp stages visited ctxs = runStages env fuel comp stages visited ctxs := by
  induction stages generalizing visited ctxs with
  | nil => rw [runStages.eq_1, runStages.eq_1]
  | cons st rest ihs =>
    have hrest : ∀ f, Stage.fold f ∈ rest → f ∈ comp.folds := fun f hf => hst f (List.mem_cons_of_mem _ hf)
    cases st with
    | edge e =>
      rw [runStages.eq_2, runStages.eq_2]
      congr 1; funext visited'
      rw [expandEdge_agree hA comp e (fun t v => by rw [hn]) ctxs h.vertex]
      congr 1; funext ctxs'
      exact ihs visited' ctxs' hrest
    | fold f =>
      rw [runStages.eq_3, runStages.eq_3]
      have hf : f ∈ comp.folds := hst f (by simp)
      congr 1; funext visited'
      rw [computeFold_agree hA hn fuel comp f ctxs (ih f hf) (h.foldSites hf)]
      congr 1; funext ctxs'
      exact ihs visited' ctxs' hrest


theorem computeComponent_agree (hn : env'.adapter.nbrs = env.adapter.nbrs) (fuel : Nat) (comp : Component) (ctxs : List Ctx) (h : SitesOk p comp) :
    computeComponent env' fuel comp ctxs = computeComponent env fuel comp ctxs := by
  induction fuel generalizing comp ctxs with
  | zero => rw [computeComponent.eq_1, computeComponent.eq_1]
  | succ fuel ih =>
    rw [computeComponent.eq_2, computeComponent.eq_2]
    cases hr : comp.vertex? comp.root with
    | none => rfl
    | some rootV =>
      have hmem : rootV ∈ comp.vertices := List.mem_of_find?_eq_some hr
      simp only []
      rw [enterVertex_agree hA comp rootV ctxs (h.vertex rootV hmem)]
      congr 1; funext ctxs1
      cases hm : mergeStages comp.edges comp.folds (comp.edges.length + comp.folds.length) with
      | ok stages =>
        simp only [R.bind_ok]
        exact runStages_agree hA hn fuel comp stages [comp.root] ctxs1
          (fun f hf ctxs => ih f.component ctxs (h.fold hf))
          (mergeStages_folds _ _ _ _ hm) h
      | panic s => rfl
      | fuel => rfl


theorem constructRow_agree (comp : Component) (c : Ctx)
    (h : ∀ s ∈ outputSites comp, p s.1 s.2 = true) :
    constructRow env' comp c = constructRow env comp c := by
  unfold constructRow
  congr 1
  apply mapR_congr
  intro o ho
  cases c.vertexAt? o.vid with
  | none => rfl
  | some v =>
    simp only [Component.typeOf]
    cases hx : comp.vertex? o.vid with
    | none => rfl
    | some vx =>
      simp only [hA.prop (outputSites_spec comp h o ho (by simp [hx]))]


/-- (A) The interpreter calls `resolve_property` only on the static call sites. -/
theorem interpret_agree (hn : env'.adapter.nbrs = env.adapter.nbrs)
    (hs' : env'.adapter.start = env.adapter.start) (ir : IRQuery) (h : ∀ s ∈ propSites ir, p s.1 s.2 = true) :
    interpret env' ir = interpret env ir := by
  have hs : SitesOk p ir.rootComponent := fun c hc s hs =>
    h s (by simp only [propSites, List.mem_append, List.mem_flatMap]; exact Or.inr ⟨c, hc, hs⟩)
  have ho : ∀ s ∈ outputSites ir.rootComponent, p s.1 s.2 = true := fun s hs =>
    h s (by simp only [propSites, List.mem_append]; exact Or.inl hs)
  unfold interpret interpretFrom
  simp only [hs', computeComponent_agree hA hn _ _ _ hs]
  have : (constructRow env' ir.rootComponent) = (constructRow env ir.rootComponent) :=
    funext fun c => constructRow_agree hA ir.rootComponent c ho
  rw [this]



end A

/-- (A) The interpreter calls `resolve_property` only on the static call sites. -/
theorem interpret_checked (env : Env) (p : Vid → Name → Bool) (ir : IRQuery)
    (h : ∀ s ∈ propSites ir, p s.1 s.2 = true) :
    interpret (env.checked p) ir = interpret env ir :=
  interpret_agree (AgreeP.checked env p) rfl rfl ir h

/-! ### (B) the static statement -/

theorem mem_dedupNames {x : Name} {l : List Name} : x ∈ dedupNames l ↔ x ∈ l := by
  induction l with
  | nil => simp [dedupNames]
  | cons y ys ih =>
    simp only [dedupNames, List.mem_cons, List.mem_filter, ih]
    constructor
    · rintro (h | ⟨h, _⟩)
      · exact Or.inl h
      · exact Or.inr h
    · intro h
      by_cases hxy : x = y
      · exact Or.inl hxy
      · rcases h with h | h
        · exact Or.inl h
        · exact Or.inr ⟨h, by simpa using hxy⟩

/-- No Vid occurs twice in the query (`IndexedQuery::try_from` refuses anything else; inside one
component the vertices are a `BTreeMap` keyed by Vid). -/
def VidsDistinct (ir : IRQuery) : Prop := (IRQuery.allVids ir).Nodup

instance (ir : IRQuery) : Decidable (VidsDistinct ir) := inferInstanceAs (Decidable (List.Nodup _))

theorem find_of_nodup {vs : List IRVertex} {v : IRVertex} (hn : (vs.map (·.vid)).Nodup) (hv : v ∈ vs) :
    vs.find? (·.vid == v.vid) = some v := by
  induction vs with
  | nil => simp at hv
  | cons w ws ih =>
    simp only [List.map_cons, List.nodup_cons, List.mem_map, not_exists, not_and] at hn
    rcases List.mem_cons.mp hv with h | h
    · subst h; simp
    · have hne : ¬ (w.vid = v.vid) := fun heq => hn.1 v h heq.symm
      have hb : (w.vid == v.vid) = false := by simpa using hne
      simp only [List.find?_cons, hb]
      exact ih hn.2 h

theorem find_none_of_not_mem {vs : List IRVertex} {vid : Vid} (h : vid ∉ vs.map (·.vid)) :
    vs.find? (·.vid == vid) = none := by
  simp only [List.find?_eq_none, beq_iff_eq]
  intro w hw heq
  exact h (by simp only [List.mem_map]; exact ⟨w, hw, heq⟩)

theorem locateIn_of_nodup {l : List Component} {c : Component} {v : IRVertex}
    (hn : (l.flatMap Component.vids).Nodup) (hc : c ∈ l) (hv : v ∈ c.vertices) :
    locateIn v.vid l = some (c, v) := by
  induction l with
  | nil => simp at hc
  | cons c0 rest ih =>
    simp only [List.flatMap_cons, List.nodup_append] at hn
    obtain ⟨h0, hr, hdis⟩ := hn
    rcases List.mem_cons.mp hc with h | h
    · subst h
      have : c.vertex? v.vid = some v := find_of_nodup h0 hv
      simp [locateIn, this]
    · have hin : v.vid ∈ rest.flatMap Component.vids := by
        simp only [List.mem_flatMap]
        exact ⟨c, h, by simp only [Component.vids, List.mem_map]; exact ⟨v, hv, rfl⟩⟩
      have hnot : v.vid ∉ c0.vertices.map (·.vid) := fun hmem => hdis _ hmem _ hin rfl
      have : c0.vertex? v.vid = none := find_none_of_not_mem hnot
      simp only [locateIn, this]
      exact ih hr h

theorem locate_of_distinct {ir : IRQuery} (hd : VidsDistinct ir) {c : Component} {v : IRVertex}
    (hc : c ∈ subComps ir.rootComponent) (hv : v ∈ c.vertices) : locate ir v.vid = some (c, v) :=
  locateIn_of_nodup hd hc hv

mutual
theorem subComps_trans_C : ∀ (a : Component) {b c : Component}, b ∈ subComps a → c ∈ subComps b →
    c ∈ subComps a
  | .mk r vs es fs o, b, c, hb, hc => by
    simp only [subComps, List.mem_cons] at hb
    rcases hb with hb | hb
    · subst hb; exact hc
    · simp only [subComps, List.mem_cons]
      exact Or.inr (subComps_trans_F fs hb hc)
theorem subComps_trans_F : ∀ (fs : List Fold) {b c : Component}, b ∈ subCompsF fs → c ∈ subComps b →
    c ∈ subCompsF fs
  | [], b, c, hb, _ => by simp [subCompsF] at hb
  | .mk _ _ _ _ _ comp _ _ _ :: rest, b, c, hb, hc => by
    simp only [subCompsF, List.mem_append] at hb ⊢
    rcases hb with hb | hb
    · exact Or.inl (subComps_trans_C comp hb hc)
    · exact Or.inr (subComps_trans_F rest hb hc)
end

theorem subComps_trans {a b c : Component} (hb : b ∈ subComps a) (hc : c ∈ subComps b) :
    c ∈ subComps a := subComps_trans_C a hb hc

theorem vertex?_spec {c : Component} {vid : Vid} {v : IRVertex} (h : c.vertex? vid = some v) :
    v ∈ c.vertices ∧ v.vid = vid := by
  refine ⟨List.mem_of_find?_eq_some h, ?_⟩
  have := List.find?_some h
  simpa using this

theorem requiredOk_of {ir : IRQuery} {c : Component} {v : IRVertex} {n : Name}
    (hl : locate ir v.vid = some (c, v))
    (h : n ∈ ((c.outputs.filter (fun o => o.vid == v.vid)).map (·.field))
      ++ v.filters.filterMap filterSubject
      ++ c.vertices.flatMap (fun w => w.filters.filterMap (tagUseOf v.vid))
      ++ c.folds.flatMap (foldTagUses v.vid)) :
    requiredOk ir v.vid n = true := by
  simp only [requiredOk, requiredProps, hl, requiredPropsAt, List.contains_iff_mem, mem_dedupNames]
  exact h

theorem refSites_required {ir : IRQuery} (hd : VidsDistinct ir) {c : Component}
    (hc : c ∈ subComps ir.rootComponent) {w : IRVertex} (hw : w ∈ c.vertices) {f : IRFilter}
    (hf : f ∈ w.filters) : ∀ s ∈ tagSites c w.vid f, requiredOk ir s.1 s.2 = true := by
  intro s hs
  simp only [tagSites] at hs
  split at hs
  · rename_i r hr
    cases r with
    | fcount e rv => simp [refSites] at hs
    | ctx vid field ty =>
      simp only [refSites] at hs
      cases hx : c.vertex? vid with
      | none => simp [hx] at hs
      | some vx =>
        simp only [hx, Option.isSome_some, ↓reduceIte, List.mem_singleton] at hs
        subst hs
        obtain ⟨hvx, hvid⟩ := vertex?_spec hx
        subst hvid
        apply requiredOk_of (locate_of_distinct hd hc hvx)
        simp only [List.mem_append, List.mem_flatMap, List.mem_filterMap]
        refine Or.inl (Or.inr ⟨w, hw, f, hf, ?_⟩)
        simp [tagUseOf, hr]
  · simp at hs

theorem outputSites_required {ir : IRQuery} (hd : VidsDistinct ir) {c : Component}
    (hc : c ∈ subComps ir.rootComponent) : ∀ s ∈ outputSites c, requiredOk ir s.1 s.2 = true := by
  intro s hs
  simp only [outputSites, List.mem_flatMap] at hs
  obtain ⟨o, ho, hs⟩ := hs
  cases hx : c.vertex? o.vid with
  | none => simp [hx] at hs
  | some vx =>
    simp only [hx, Option.isSome_some, ↓reduceIte, List.mem_singleton] at hs
    subst hs
    obtain ⟨hvx, hvid⟩ := vertex?_spec hx
    rw [← hvid]
    apply requiredOk_of (locate_of_distinct hd hc hvx)
    simp only [List.mem_append, List.mem_map, List.mem_filter]
    exact Or.inl (Or.inl (Or.inl ⟨o, ⟨ho, by simp [hvid]⟩, by simp⟩))

/-- (since the repair of F-3) the tags a fold imports, and the tag operands of its count filters,
are in the required-properties list of their vertex -/
theorem foldTag_required {ir : IRQuery} (hd : VidsDistinct ir) {c : Component}
    (hc : c ∈ subComps ir.rootComponent) {f : Fold} (hf : f ∈ c.folds) :
    ∀ s, (s ∈ f.imports.flatMap (importSites c) ∨ s ∈ f.post.flatMap (tagSites c f.fromVid)) →
      requiredOk ir s.1 s.2 = true := by
  -- both kinds of site come from a context-field reference of `f.imports ++ postTagRefs f`
  have key : ∀ r ∈ f.imports ++ postTagRefs f, ∀ s ∈ importSites c r, requiredOk ir s.1 s.2 = true := by
    intro r hr s hs
    cases r with
    | fcount e rv => simp [importSites] at hs
    | ctx vid field ty =>
      simp only [importSites] at hs
      cases hx : c.vertex? vid with
      | none => simp [hx] at hs
      | some vx =>
        simp only [hx, Option.isSome_some, ↓reduceIte, List.mem_singleton] at hs
        subst hs
        obtain ⟨hvx, hvid⟩ := vertex?_spec hx
        subst hvid
        apply requiredOk_of (locate_of_distinct hd hc hvx)
        simp only [List.mem_append, List.mem_flatMap]
        refine Or.inr ⟨f, hf, ?_⟩
        simp only [foldTagUses, List.mem_filterMap]
        exact ⟨_, hr, by simp [ctxFieldOf]⟩
  intro s hs
  rcases hs with hs | hs
  · obtain ⟨r, hr, hs⟩ := List.mem_flatMap.mp hs
    exact key r (List.mem_append.mpr (Or.inl hr)) s hs
  · obtain ⟨flt, hflt, hs⟩ := List.mem_flatMap.mp hs
    simp only [tagSites] at hs
    split at hs
    · rename_i r hr
      have hmem : r ∈ postTagRefs f := by
        simp only [postTagRefs, List.mem_filterMap]
        exact ⟨flt, hflt, by simp [hr]⟩
      refine key r (List.mem_append.mpr (Or.inr hmem)) s ?_
      cases r with
      | fcount e rv => simp [refSites] at hs
      | ctx vid field ty => simpa [refSites, importSites] using hs
    · simp at hs

/-- (B) Every `resolve_property` call site is in the required-properties list of its vertex. -/
theorem sites_required {ir : IRQuery} (hd : VidsDistinct ir) :
    ∀ s ∈ propSites ir, requiredOk ir s.1 s.2 = true := by
  intro s hs
  simp only [propSites, List.mem_append, List.mem_flatMap] at hs
  rcases hs with hs | ⟨c, hc, hs⟩
  · exact outputSites_required hd (mem_subComps_self _) s hs
  · simp only [localSites, List.mem_append, List.mem_flatMap] at hs
    rcases hs with ⟨v, hv, hs⟩ | ⟨f, hf, hs⟩
    · simp only [vertexSites, List.mem_flatMap, List.mem_append] at hs
      obtain ⟨flt, hflt, hs | hs⟩ := hs
      · cases hleft : flt.left with
        | count => simp [hleft] at hs
        | loc n t =>
          simp only [hleft, List.mem_singleton] at hs
          subst hs
          apply requiredOk_of (locate_of_distinct hd hc hv)
          simp only [List.mem_append, List.mem_filterMap]
          exact Or.inl (Or.inl (Or.inr ⟨flt, hflt, by simp [filterSubject, hleft]⟩))
      · exact refSites_required hd hc hv hflt s hs
    · simp only [foldSites, List.mem_append] at hs
      rcases hs with (hs | hs) | hs
      · exact foldTag_required hd hc hf s (Or.inl hs)
      · exact foldTag_required hd hc hf s (Or.inr hs)
      · exact outputSites_required hd (subComps_trans hc (subComps_of_fold hf (mem_subComps_self _))) s hs

end TF.Engine
