/-
Global half of C04: the table adapter that discards vertices outside the static candidates of the
hint object of each resolution point returns the same rows (`Props/C04.lean`).
-/
import TrustfallModel.Proofs.Hints
import TrustfallModel.Proofs.HintsSound

namespace TF.Engine
open TF Filter

theorem R.toOption_eq_some {α : Type} {r : R α} {a : α} : r.toOption = some a ↔ r = .ok a := by
  cases r <;> simp [R.toOption]

/-- Splitting a successful homomorphic stage over an append. -/
theorem Hom.split_ok {α β : Type} {S : List α → R (List β)} (hS : Hom S) {xs ys : List α} {out : List β}
    (h : S (xs ++ ys) = .ok out) : ∃ a b, S xs = .ok a ∧ S ys = .ok b ∧ out = a ++ b := by
  have := hS xs ys
  rw [h] at this
  cases hx : S xs with
  | ok a =>
    cases hy : S ys with
    | ok b => rw [hx, hy] at this; simp at this; exact ⟨a, b, rfl, rfl, this⟩
    | panic s => rw [hx, hy] at this; simp at this
    | fuel => rw [hx, hy] at this; simp at this
  | panic s => rw [hx] at this; simp at this
  | fuel => rw [hx] at this; simp at this

theorem Hom.join_ok {α β : Type} {S : List α → R (List β)} (hS : Hom S) {xs ys : List α} {a b : List β}
    (hx : S xs = .ok a) (hy : S ys = .ok b) : S (xs ++ ys) = .ok (a ++ b) := by
  have := hS xs ys
  rw [hx, hy] at this
  exact R.toOption_eq_some.mp (by simpa using this)

theorem Hom.nil_ok {α β : Type} {S : List α → R (List β)} (hS : Hom S) {out : List β}
    (h : S [] = .ok out) : out = [] := by
  obtain ⟨a, b, ha, hb, hab⟩ := hS.split_ok (xs := []) (ys := []) (by simpa using h)
  rw [h] at ha hb; cases ha; cases hb
  have : out.length = out.length + out.length := by rw [← List.length_append, ← hab]
  exact List.eq_nil_of_length_eq_zero (by omega)

/-- Dropping, before a homomorphic stage, inputs that the stage maps to nothing. -/
theorem Hom.filter_ok {α β : Type} {S : List α → R (List β)} (hS : Hom S) (keep : α → Bool)
    (l : List α) (out : List β) (h : S l = .ok out)
    (hdrop : ∀ x ∈ l, keep x = false → ∀ o, S [x] = .ok o → o = []) :
    S (l.filter keep) = .ok out := by
  induction l generalizing out with
  | nil => simpa using h
  | cons x xs ih =>
    obtain ⟨a, b, ha, hb, hab⟩ := hS.split_ok (xs := [x]) (ys := xs) (by simpa using h)
    have ih' := ih b hb (fun y hy => hdrop y (by simp [hy]))
    cases hk : keep x with
    | true =>
      simp only [List.filter_cons, hk, ↓reduceIte]
      have := hS.join_ok ha ih'
      simpa [hab] using this
    | false =>
      simp only [List.filter_cons, hk, Bool.false_eq_true, ↓reduceIte]
      have : a = [] := hdrop x (by simp) hk a ha
      subst this; simpa [hab] using ih'

@[simp] theorem R.monad_bind {α β : Type} (x : R α) (f : α → R β) : (x >>= f) = x.bind f := rfl
@[simp] theorem R.monad_pure {α : Type} (a : α) : (pure a : R α) = .ok a := rfl
@[simp] theorem R.bind_panic' {α β : Type} (s : String) (f : α → R β) : (R.panic s : R α).bind f = .panic s := rfl
@[simp] theorem R.bind_fuel' {α β : Type} (f : α → R β) : (R.fuel : R α).bind f = .fuel := rfl

theorem popValue_pushValue (c : Ctx) (v : Value) : (c.pushValue v).popValue = .ok (v, c) := rfl

theorem envArg_lookup {D : Data} {args : List (Name × Value)} {n : Name} {a : Value}
    (h : (Env.ofData D args).arg n = .ok a) : lookupArg args n = .ok a := by
  simp only [Env.arg, Env.ofData, lookupArg] at h ⊢
  cases hf : args.find? (·.1 == n) with
  | none => simp [hf] at h
  | some pr => simpa [hf] using h

section single
variable (D : Data) (args : List (Name × Value))

/-- One local filter on one context with an active vertex: the context is dropped or passes
unchanged, and in the latter case the engine's verdict is the static verdict. -/
theorem applyLocalFieldFilter_single (comp : Component) (vid : Vid) (f : IRFilter) (c : Ctx)
    (x : VertexId) (hc : c.active = some x) (l' : List Ctx)
    (h : applyLocalFieldFilter (Env.ofData D args) comp vid f [c] = .ok l') :
    l' = [] ∨ (l' = [c] ∧ ∀ field, filterSubject f = some field →
      StaticFilterPasses D.regex args f (D.prop x field)) := by
  obtain ⟨op, left, right⟩ := f
  cases left with
  | count => simp [applyLocalFieldFilter] at h
  | loc field ty =>
    simp only [applyLocalFieldFilter] at h
    obtain ⟨t, ht, h⟩ := R_bind_ok h
    have hcl : computeLocalField (Env.ofData D args) vid t field [c] = .ok [c.pushValue (D.prop x field)] := by
      simp [computeLocalField, mapR, Env.ofData, Data.adapter, hc, Data.propOpt]
    rw [hcl] at h
    simp only [R.bind_ok] at h
    have hsub : ∀ fld, filterSubject ⟨op, .loc field ty, right⟩ = some fld → fld = field := by
      intro fld hf; simpa [filterSubject] using hf.symm
    cases op with
    | un o =>
      simp only [applyFilter, filterMapR, R.monad_bind, R.monad_pure, popValue_pushValue, R.bind_ok,
        hc, Option.isNone_some, Bool.false_or] at h
      cases hu : applyUnary o (D.prop x field) with
      | true =>
        right
        simp [hu] at h
        refine ⟨h.symm, fun fld hf => ?_⟩
        rw [hsub fld hf]; simpa [StaticFilterPasses] using hu
      | false => left; simp [hu] at h; exact h
    | bin o =>
      cases right with
      | none => simp [applyFilter] at h
      | some a =>
        cases a with
        | var n vt =>
          simp only [applyFilter] at h
          obtain ⟨rv, hrv, h⟩ := R_bind_ok h
          obtain ⟨u, hu, h⟩ := R_bind_ok h
          simp only [filterMapR, R.monad_bind, R.monad_pure, popValue_pushValue, R.bind_ok,
            hc, Option.isNone_some, Bool.false_eq_true, ↓reduceIte] at h
          cases hb : applyStatic (Env.ofData D args).regex o (D.prop x field) rv with
          | panic => simp [hb, R.ofOutcome] at h
          | ok b =>
            cases b with
            | false => left; simp [hb, R.ofOutcome] at h; exact h
            | true =>
              right
              simp [hb, R.ofOutcome] at h
              refine ⟨h.symm, fun fld hf => ?_⟩
              rw [hsub fld hf]
              exact ⟨rv, envArg_lookup hrv, hb⟩
        | tag r =>
          simp only [applyFilter, filterMapR, R.monad_bind, R.monad_pure] at h
          cases htv : tagValue (Env.ofData D args) comp vid r (c.pushValue (D.prop x field)) with
          | panic s => simp [htv] at h
          | fuel => simp [htv] at h
          | ok tg =>
            simp only [htv, popValue_pushValue, R.bind_ok] at h
            have hP : ∀ fld, filterSubject ⟨.bin o, .loc field ty, some (.tag r)⟩ = some fld →
                StaticFilterPasses D.regex args ⟨.bin o, .loc field ty, some (.tag r)⟩ (D.prop x fld) :=
              fun _ _ => trivial
            cases tg with
            | nonexistent => right; simp at h; exact ⟨h.symm, hP⟩
            | some rv =>
              simp only [hc, Option.isNone_some, Bool.false_eq_true, ↓reduceIte] at h
              cases hb : applyTagged (Env.ofData D args).regex o (D.prop x field) rv with
              | panic => simp [hb, R.ofOutcome] at h
              | ok b =>
                cases b with
                | false => left; simp [hb, R.ofOutcome] at h; exact h
                | true => right; simp [hb, R.ofOutcome] at h; exact ⟨h.symm, hP⟩

theorem applyLocalFilters_nil (env : Env) (comp : Component) (vid : Vid) (fs : List IRFilter)
    (l' : List Ctx) (h : applyLocalFilters env comp vid fs [] = .ok l') : l' = [] :=
  (applyLocalFilters_hom env comp vid fs).nil_ok h

theorem applyLocalFilters_single (comp : Component) (vid : Vid) (fs : List IRFilter) (c : Ctx)
    (x : VertexId) (hc : c.active = some x) (l' : List Ctx)
    (h : applyLocalFilters (Env.ofData D args) comp vid fs [c] = .ok l') :
    l' = [] ∨ (l' = [c] ∧ ∀ f ∈ fs, ∀ field, filterSubject f = some field →
      StaticFilterPasses D.regex args f (D.prop x field)) := by
  induction fs generalizing l' with
  | nil => simp [applyLocalFilters] at h; right; exact ⟨h.symm, by simp⟩
  | cons f fs ih =>
    simp only [applyLocalFilters] at h
    obtain ⟨l1, h1, h⟩ := R_bind_ok h
    rcases applyLocalFieldFilter_single D args comp vid f c x hc l1 h1 with rfl | ⟨rfl, hf⟩
    · left; exact applyLocalFilters_nil _ comp vid fs l' h
    · rcases ih l' h with rfl | ⟨rfl, hfs⟩
      · left; rfl
      · right
        refine ⟨rfl, ?_⟩
        intro g hg
        rcases List.mem_cons.mp hg with rfl | hg
        · exact hf
        · exact hfs g hg

/-- A context that survives the entry into vertex `v` has passed every static filter of `v`. -/
theorem enterVertex_single (comp : Component) (v : IRVertex) (c : Ctx) (x : VertexId)
    (hc : c.active = some x) (o : List Ctx)
    (h : enterVertex (Env.ofData D args) comp v [c] = .ok o) (hne : o ≠ []) :
    ∀ f ∈ v.filters, ∀ field, filterSubject f = some field →
      StaticFilterPasses D.regex args f (D.prop x field) := by
  unfold enterVertex at h
  obtain ⟨l1, h1, h⟩ := R_bind_ok h
  obtain ⟨l2, h2, h⟩ := R_bind_ok h
  have hl1 : l1 = [] ∨ l1 = [c] := by
    unfold coerceIfNeeded at h1
    split at h1
    · right; simpa using h1.symm
    · simp only [filterMapR, R.monad_bind, R.monad_pure] at h1
      cases hco : (Env.ofData D args).adapter.coerce v.vid _ v.typeName c.active with
      | ok b =>
        rw [hco] at h1
        simp only [R.bind_ok, hc, Option.isNone_some, Bool.or_false] at h1
        cases b <;> simp at h1
        · left; exact h1
        · right; exact h1.symm
      | panic s => rw [hco] at h1; simp at h1
      | fuel => rw [hco] at h1; simp at h1
  rcases hl1 with rfl | rfl
  · have := applyLocalFilters_nil _ comp v.vid v.filters l2 h2
    subst this
    simp [mapR] at h; exact absurd h hne
  · rcases applyLocalFilters_single D args comp v.vid v.filters c x hc l2 h2 with rfl | ⟨rfl, hf⟩
    · simp [mapR] at h; exact absurd h hne
    · exact hf

end single



theorem allR_false {α : Type} {f : α → R Bool} {l : List α} (h : allR f l = .ok false) :
    ∃ x ∈ l, f x = .ok false := by
  induction l with
  | nil => simp [allR] at h
  | cons x xs ih =>
    simp only [allR] at h
    obtain ⟨b, hb, h⟩ := R_bind_ok h
    cases b with
    | true =>
      simp at h
      obtain ⟨y, hy, hfy⟩ := ih h
      exact ⟨y, by simp [hy], hfy⟩
    | false => exact ⟨x, by simp, hb⟩

/-- A property the schema declares non-nullable is not null on data vertex `x` (for the filtered
properties of IR vertex `v`). -/
def NonNullOk (D : Data) (v : IRVertex) (x : VertexId) : Prop :=
  ∀ f ∈ v.filters, ∀ p, filterSubject f = some p → subjectNullable f = false →
    Cand.isNull (D.prop x p) = false

/-- **The pruning step is invisible at the entry into the vertex.**  If the static hints of `i`
reject data vertex `x`, a context whose active vertex is `x` does not survive the entry into the
IR vertex the hints describe. -/
theorem enterVertex_dropped (ir : IRQuery) (D : Data) (args : List (Name × Value)) (i : VInfo)
    (comp comp' : Component) (v : IRVertex) (c : Ctx) (x : VertexId) (o : List Ctx)
    (hl : locate ir i.vid = some (comp', v))
    (hp : passesStatic ir args D i x = .ok false)
    (hnn : NonNullOk D v x) (hc : c.active = some x)
    (h : enterVertex (Env.ofData D args) comp v [c] = .ok o) : o = [] := by
  by_cases hne : o = []
  · exact hne
  · exfalso
    have hf := enterVertex_single D args comp v c x hc o h hne
    simp only [passesStatic, hl] at hp
    obtain ⟨p, _, hp⟩ := allR_false hp
    obtain ⟨oc, hoc, hg⟩ := R_map_ok hp
    cases oc with
    | none => simp at hg
    | some cand =>
      simp only at hg
      have := (staticallyRequired_sound D.regex args i v p (D.prop x p) cand hoc
        (fun f hfm hs => hf f hfm p hs) (fun f hfm hs hn => hnn f hfm p hs hn)).1
      rw [this] at hg; cases hg


theorem find?_of_nodup_map {α : Type} (key : α → Nat) {l : List α} {a : α}
    (hn : (l.map key).Nodup) (ha : a ∈ l) : l.find? (fun b => key b == key a) = some a := by
  induction l with
  | nil => simp at ha
  | cons w ws ih =>
    simp only [List.map_cons, List.nodup_cons, List.mem_map, not_exists, not_and] at hn
    rcases List.mem_cons.mp ha with h | h
    · subst h; simp
    · have hne : ¬ (key w = key a) := fun heq => hn.1 a h heq.symm
      have hb : (key w == key a) = false := by simpa using hne
      simp only [List.find?_cons, hb]
      exact ih hn.2 h

theorem find?_none_of_not_mem_map {α : Type} (key : α → Nat) {l : List α} {k : Nat}
    (h : k ∉ l.map key) : l.find? (fun b => key b == k) = none := by
  simp only [List.find?_eq_none, beq_iff_eq]
  intro w hw heq
  exact h (by simp only [List.mem_map]; exact ⟨w, hw, heq⟩)

/-- No Eid occurs twice in the query (`IndexedQuery::try_from` refuses anything else). -/
def EidsDistinct (ir : IRQuery) : Prop := (allEids ir).Nodup

instance (ir : IRQuery) : Decidable (EidsDistinct ir) := inferInstanceAs (Decidable (List.Nodup _))

theorem findEdgeIn_edge {l : List Component} {c : Component} {e : IREdge}
    (hn : (l.flatMap Component.eids).Nodup) (hc : c ∈ l) (he : e ∈ c.edges) :
    findEdgeIn e.eid l = some (.inl e) := by
  induction l with
  | nil => simp at hc
  | cons c0 rest ih =>
    simp only [List.flatMap_cons, List.nodup_append] at hn
    obtain ⟨h0, hr, hdis⟩ := hn
    rcases List.mem_cons.mp hc with h | h
    · subst h
      simp only [Component.eids, List.nodup_append] at h0
      have : c.edges.find? (fun b => b.eid == e.eid) = some e := find?_of_nodup_map (·.eid) h0.1 he
      simp [findEdgeIn, this]
    · have hin : e.eid ∈ rest.flatMap Component.eids := by
        simp only [List.mem_flatMap]
        exact ⟨c, h, by simp only [Component.eids, List.mem_append, List.mem_map]; exact Or.inl ⟨e, he, rfl⟩⟩
      have hnot : e.eid ∉ c0.eids := fun hmem => hdis _ hmem _ hin rfl
      simp only [Component.eids, List.mem_append, not_or] at hnot
      have h1 : c0.edges.find? (fun x => x.eid == e.eid) = none := find?_none_of_not_mem_map IREdge.eid hnot.1
      have h2 : c0.folds.find? (fun x => x.eid == e.eid) = none := find?_none_of_not_mem_map Fold.eid hnot.2
      simp only [findEdgeIn, h1, h2]
      exact ih hr h

theorem findEdgeIn_fold {l : List Component} {c : Component} {f : Fold}
    (hn : (l.flatMap Component.eids).Nodup) (hc : c ∈ l) (hf : f ∈ c.folds) :
    findEdgeIn f.eid l = some (.inr f) := by
  induction l with
  | nil => simp at hc
  | cons c0 rest ih =>
    simp only [List.flatMap_cons, List.nodup_append] at hn
    obtain ⟨h0, hr, hdis⟩ := hn
    rcases List.mem_cons.mp hc with h | h
    · subst h
      simp only [Component.eids, List.nodup_append] at h0
      have hnot : f.eid ∉ c.edges.map (·.eid) := fun hmem =>
        h0.2.2 _ hmem _ (by simp only [List.mem_map]; exact ⟨f, hf, rfl⟩) rfl
      have : c.folds.find? (fun b => b.eid == f.eid) = some f := find?_of_nodup_map (·.eid) h0.2.1 hf
      have h1 : c.edges.find? (fun x => x.eid == f.eid) = none := find?_none_of_not_mem_map IREdge.eid hnot
      simp [findEdgeIn, h1, this]
    · have hin : f.eid ∈ rest.flatMap Component.eids := by
        simp only [List.mem_flatMap]
        exact ⟨c, h, by simp only [Component.eids, List.mem_append, List.mem_map]; exact Or.inr ⟨f, hf, rfl⟩⟩
      have hnot : f.eid ∉ c0.eids := fun hmem => hdis _ hmem _ hin rfl
      simp only [Component.eids, List.mem_append, not_or] at hnot
      have h1 : c0.edges.find? (fun x => x.eid == f.eid) = none := find?_none_of_not_mem_map IREdge.eid hnot.1
      have h2 : c0.folds.find? (fun x => x.eid == f.eid) = none := find?_none_of_not_mem_map Fold.eid hnot.2
      simp only [findEdgeIn, h1, h2]
      exact ih hr h

theorem destinationOf_edge {ir : IRQuery} (hd : EidsDistinct ir) {c : Component} {e : IREdge}
    (hc : c ∈ subComps ir.rootComponent) (he : e ∈ c.edges) :
    destinationOf ir e.eid = some (VInfo.ofEdge e) := by
  simp [destinationOf, findEdgeIn_edge hd hc he]

theorem destinationOf_fold {ir : IRQuery} (hd : EidsDistinct ir) {c : Component} {f : Fold}
    (hc : c ∈ subComps ir.rootComponent) (hf : f ∈ c.folds) :
    destinationOf ir f.eid = some (VInfo.ofFold f) := by
  simp [destinationOf, findEdgeIn_fold hd hc hf]



/-- the verdict of the static hints as a `Bool` (`true` when the hint computation fails) -/
def keepB (ir : IRQuery) (args : List (Name × Value)) (D : Data) (i : VInfo) (x : VertexId) : Bool :=
  match passesStatic ir args D i x with
  | .ok b => b
  | _ => true

theorem filterR_ok {α : Type} {f : α → R Bool} {g : α → Bool} {l : List α}
    (h : ∀ x ∈ l, f x = .ok (g x)) : filterR f l = .ok (l.filter g) := by
  induction l with
  | nil => rfl
  | cons x xs ih =>
    simp only [filterR, h x (by simp), R.bind_ok, ih (fun y hy => h y (by simp [hy])), R.map,
      List.filter_cons]

theorem allR_true {α : Type} {f : α → R Bool} {l : List α} (h : ∀ x ∈ l, f x = .ok true) :
    allR f l = .ok true := by
  induction l with
  | nil => rfl
  | cons x xs ih => simp [allR, h x (by simp), ih (fun y hy => h y (by simp [hy]))]

theorem keepB_nonBinding (ir : IRQuery) (args : List (Name × Value)) (D : Data) (i : VInfo)
    (x : VertexId) (h : i.nonBinding = true) : keepB ir args D i x = true := by
  unfold keepB passesStatic
  cases locate ir i.vid with
  | none => rfl
  | some cv =>
    obtain ⟨c, v⟩ := cv
    simp only
    rw [allR_true (fun p _ => by simp [staticallyRequired, h, R.map])]

/-- The environment whose adapter prunes with the static hints. -/
def envS (ir : IRQuery) (args : List (Name × Value)) (D : Data) : Env :=
  { Env.ofData D args with adapter := pruneStaticAdapter ir args D }

theorem envS_agree (ir : IRQuery) (args : List (Name × Value)) (D : Data) :
    AgreeP (fun _ _ => true) (Env.ofData D args) (envS ir args D) :=
  ⟨rfl, rfl, rfl, rfl, fun _ _ _ => rfl⟩

/-- The hint computation does not panic (argument validation guarantees it: ordering variables are
non-null, `one_of` / `not_one_of` variables are lists). -/
def HintsTotal (ir : IRQuery) (args : List (Name × Value)) (D : Data) : Prop :=
  ∀ (i : VInfo) (x : VertexId), (locate ir i.vid).isSome = true → ∃ b, passesStatic ir args D i x = .ok b

theorem passes_eq_keepB {ir : IRQuery} {args : List (Name × Value)} {D : Data} (ht : HintsTotal ir args D)
    (i : VInfo) (x : VertexId) (hl : (locate ir i.vid).isSome = true) :
    passesStatic ir args D i x = .ok (keepB ir args D i x) := by
  obtain ⟨b, hb⟩ := ht i x hl
  simp [keepB, hb]

/-- what the pruning adapter answers at `resolve_neighbors` -/
theorem envS_nbrs {ir : IRQuery} {args : List (Name × Value)} {D : Data} (ht : HintsTotal ir args D)
    (eid : Eid) (i : VInfo) (hd : destinationOf ir eid = some i) (hl : (locate ir i.vid).isSome = true)
    (t edge : Name) (ps : Params) (v : Option VertexId) :
    (envS ir args D).adapter.nbrs eid t edge ps v =
      .ok ((D.nbrsOpt v edge ps).filter (keepB ir args D i)) := by
  simp only [envS, pruneStaticAdapter, hd]
  exact filterR_ok (fun x _ => passes_eq_keepB ht i x hl)

/-- keep contexts without an active vertex; test the active vertex otherwise -/
def keepCtx (ir : IRQuery) (args : List (Name × Value)) (D : Data) (i : VInfo) (c : Ctx) : Bool :=
  match c.active with
  | some n => keepB ir args D i n
  | none => true

theorem flatMapR_filter {α β : Type} {g g' : α → R (List β)} (k : β → Bool) {l : List α} {mid : List β}
    (h : ∀ c ∈ l, ∀ r, g c = .ok r → g' c = .ok (r.filter k)) (hm : flatMapR g l = .ok mid) :
    flatMapR g' l = .ok (mid.filter k) := by
  induction l generalizing mid with
  | nil => simp [flatMapR] at hm ⊢; subst hm; simp
  | cons x xs ih =>
    simp only [flatMapR] at hm
    cases hx : g x with
    | ok r =>
      rw [hx] at hm
      cases hxs : flatMapR g xs with
      | ok rs =>
        rw [hxs] at hm; simp at hm; subst hm
        simp only [flatMapR, h x (by simp) r hx, ih (fun c hc => h c (by simp [hc])) hxs,
          List.filter_append]
      | panic s => rw [hxs] at hm; simp at hm
      | fuel => rw [hxs] at hm; simp at hm
    | panic s => rw [hx] at hm; simp at hm
    | fuel => rw [hx] at hm; simp at hm

theorem expandOne_filter (ir : IRQuery) (args : List (Name × Value)) (D : Data) (i : VInfo)
    (c : Ctx) (ns : List VertexId) (opt : Bool) (hopt : opt = true → i.nonBinding = true) :
    expandOne c (ns.filter (keepB ir args D i)) opt = (expandOne c ns opt).filter (keepCtx ir args D i) := by
  have hmap : (ns.map fun n => c.splitTo (some n)).filter (keepCtx ir args D i) =
      (ns.filter (keepB ir args D i)).map fun n => c.splitTo (some n) := by
    induction ns with
    | nil => rfl
    | cons n ns ih =>
      simp only [List.map_cons, List.filter_cons, ih]
      have : keepCtx ir args D i (c.splitTo (some n)) = keepB ir args D i n := rfl
      rw [this]
      cases keepB ir args D i n <;> rfl
  cases opt with
  | false =>
    simp only [expandOne, Bool.and_false, Bool.or_false, List.filter_append, hmap]
    congr 1
    cases c.active.isNone <;> simp [Ctx.splitTo] <;> rfl
  | true =>
    have hall : ns.filter (keepB ir args D i) = ns :=
      List.filter_eq_self.mpr (fun n _ => keepB_nonBinding ir args D i n (hopt rfl))
    simp only [expandOne, List.filter_append, hmap, hall]
    congr 1
    split <;> simp [Ctx.splitTo] <;> rfl



theorem mem_expandOne_active {c : Ctx} {ns : List VertexId} {opt : Bool} {x : Ctx} {n : VertexId}
    (hx : x ∈ expandOne c ns opt) (hn : x.active = some n) : n ∈ ns := by
  simp only [expandOne, List.mem_append, List.mem_map] at hx
  rcases hx with ⟨m, hm, rfl⟩ | hx
  · simp only [Ctx.splitTo, Option.some.injEq] at hn; subst hn; exact hm
  · split at hx
    · simp only [List.mem_singleton] at hx; subst hx; simp [Ctx.splitTo] at hn
    · simp at hx

theorem mem_nbrsOpt {D : Data} {v : Option VertexId} {edge : Name} {ps : Params} {n : VertexId}
    (h : n ∈ D.nbrsOpt v edge ps) : ∃ y, n ∈ D.nbrs y edge ps := by
  cases v with
  | none => simp [Data.nbrsOpt] at h
  | some y => exact ⟨y, h⟩

section stages
variable {ir : IRQuery} {args : List (Name × Value)} {D : Data}

/-- `expand_non_recursive_edge` under the pruning adapter yields the plain expansion minus the
contexts whose new active vertex the hints reject. -/
theorem expandNonRecursive_pruned (ht : HintsTotal ir args D) (e : IREdge)
    (hd : destinationOf ir e.eid = some (VInfo.ofEdge e))
    (hl : (locate ir e.toVid).isSome = true) (t : Name) (ctxs mid : List Ctx)
    (hm : expandNonRecursive (Env.ofData D args) t e ctxs = .ok mid) :
    expandNonRecursive (envS ir args D) t e ctxs = .ok (mid.filter (keepCtx ir args D (VInfo.ofEdge e))) ∧
      ∀ x ∈ mid, ∀ n, x.active = some n → ∃ y, n ∈ D.nbrs y e.name e.params := by
  unfold expandNonRecursive at hm ⊢
  constructor
  · refine flatMapR_filter _ ?_ hm
    intro c _ r hr
    simp only [R.monad_bind, R.monad_pure] at hr ⊢
    obtain ⟨c', hc', hr⟩ := R_bind_ok hr
    rw [hc']
    simp only [R.bind_ok, Env.ofData, Data.adapter] at hr
    cases hr
    simp only [R.bind_ok, envS_nbrs ht e.eid _ hd hl]
    congr 1
    apply expandOne_filter
    intro ho; simp [VInfo.ofEdge, VInfo.nonBinding, ho]
  · intro x hx n hn
    obtain ⟨c, _, r, hr, hxr⟩ := flatMapR_ok_mem hm x hx
    simp only [R.monad_bind, R.monad_pure] at hr
    obtain ⟨c', hc', hr⟩ := R_bind_ok hr
    simp only [R.bind_ok, Env.ofData, Data.adapter] at hr
    cases hr
    exact mem_nbrsOpt (mem_expandOne_active hxr hn)

/-- Hypotheses of the global theorem: well-formedness of the IR as `IndexedQuery::try_from`
enforces it, hints that do not panic, and data in which a property declared non-nullable is not
null on the vertices the adapter returns for the corresponding starting edge / edge / fold. -/
structure PruneHyp (ir : IRQuery) (args : List (Name × Value)) (D : Data) : Prop where
  vids : VidsDistinct ir
  eids : EidsDistinct ir
  foldRoots : ∀ c ∈ subComps ir.rootComponent, ∀ f ∈ c.folds, f.toVid = f.component.root
  total : HintsTotal ir args D
  nnStart : ∀ v, ir.rootComponent.vertex? ir.rootComponent.root = some v →
    ∀ x ∈ D.start ir.rootName ir.rootParams, NonNullOk D v x
  nnEdge : ∀ c ∈ subComps ir.rootComponent, ∀ e ∈ c.edges, ∀ v, c.vertex? e.toVid = some v →
    ∀ y, ∀ x ∈ D.nbrs y e.name e.params, NonNullOk D v x
  nnFold : ∀ c ∈ subComps ir.rootComponent, ∀ f ∈ c.folds, ∀ v,
    f.component.vertex? f.component.root = some v → ∀ y, ∀ x ∈ D.nbrs y f.name f.params, NonNullOk D v x

theorem enterVertex_envS (comp : Component) (v : IRVertex) :
    enterVertex (envS ir args D) comp v = enterVertex (Env.ofData D args) comp v :=
  funext fun l => enterVertex_agree (envS_agree ir args D) comp v l (fun _ _ => rfl)

/-- The edge stage (`expand_edge` of a non-recursive edge + entry into the new vertex). -/
theorem expandEdge_nonrec_pruned (hyp : PruneHyp ir args D) (comp : Component)
    (hc : comp ∈ subComps ir.rootComponent) (e : IREdge) (he : e ∈ comp.edges)
    (hrec : e.recursive = none) (ctxs out : List Ctx)
    (h : expandEdge (Env.ofData D args) comp e ctxs = .ok out) :
    expandEdge (envS ir args D) comp e ctxs = .ok out := by
  unfold expandEdge at h ⊢
  cases hf : comp.vertex? e.fromVid with
  | none => simp [hf] at h
  | some fromV =>
    cases htv : comp.vertex? e.toVid with
    | none => simp [hf, htv] at h
    | some toV =>
      simp only [hf, htv, hrec] at h ⊢
      obtain ⟨mid, hmid, h⟩ := R_bind_ok h
      obtain ⟨htoV, hvid⟩ := vertex?_spec htv
      have hloc : locate ir e.toVid = some (comp, toV) := by
        rw [← hvid]; exact locate_of_distinct hyp.vids hc htoV
      obtain ⟨h1, h2⟩ := expandNonRecursive_pruned hyp.total e (destinationOf_edge hyp.eids hc he)
        (by simp [hloc]) fromV.typeName ctxs mid hmid
      rw [h1, enterVertex_envS]
      simp only [R.bind_ok]
      apply (enterVertex_hom _ comp toV).filter_ok _ mid out h
      intro x hx hk o ho
      cases hxa : x.active with
      | none => simp [keepCtx, hxa] at hk
      | some n =>
        simp only [keepCtx, hxa] at hk
        obtain ⟨y, hy⟩ := h2 x hx n hxa
        have hp : passesStatic ir args D (VInfo.ofEdge e) n = .ok false := by
          rw [passes_eq_keepB hyp.total _ n (by simp [VInfo.ofEdge, hloc]), hk]
        exact enterVertex_dropped ir D args (VInfo.ofEdge e) comp comp toV x n o hloc hp
          (hyp.nnEdge comp hc e he toV htv y n hy) hxa ho
end stages

end TF.Engine
