/-
Global half of C04: the table adapter that discards vertices outside the static candidates of the
hint object of each resolution point returns the same rows (`Props/C04.lean`).
-/
import TrustfallModel.Proofs.Hints
import TrustfallModel.Proofs.HintsSound

namespace TF.Engine
open TF Filter

theorem R.toOption_eq_some {α : Type} {r : R α} {a : α} : r.toOption = some a ↔ r = .ok a := by
  cases r <;> simp [R.toOption]

/-- Splitting a successful homomorphic stage over an append. -/
theorem Hom.split_ok {α β : Type} {S : List α → R (List β)} (hS : Hom S) {xs ys : List α} {out : List β}
    (h : S (xs ++ ys) = .ok out) : ∃ a b, S xs = .ok a ∧ S ys = .ok b ∧ out = a ++ b := by
  have := hS xs ys
  rw [h] at this
  cases hx : S xs with
  | ok a =>
    cases hy : S ys with
    | ok b => rw [hx, hy] at this; simp at this; exact ⟨a, b, rfl, rfl, this⟩
    | panic s => rw [hx, hy] at this; simp at this
    | fuel => rw [hx, hy] at this; simp at this
  | panic s => rw [hx] at this; simp at this
  | fuel => rw [hx] at this; simp at this

theorem Hom.join_ok {α β : Type} {S : List α → R (List β)} (hS : Hom S) {xs ys : List α} {a b : List β}
    (hx : S xs = .ok a) (hy : S ys = .ok b) : S (xs ++ ys) = .ok (a ++ b) := by
  have := hS xs ys
  rw [hx, hy] at this
  exact R.toOption_eq_some.mp (by simpa using this)

theorem Hom.nil_ok {α β : Type} {S : List α → R (List β)} (hS : Hom S) {out : List β}
    (h : S [] = .ok out) : out = [] := by
  obtain ⟨a, b, ha, hb, hab⟩ := hS.split_ok (xs := []) (ys := []) (by simpa using h)
  rw [h] at ha hb; cases ha; cases hb
  have : out.length = out.length + out.length := by rw [← List.length_append, ← hab]
  exact List.eq_nil_of_length_eq_zero (by omega)

/-- Dropping, before a homomorphic stage, inputs that the stage maps to nothing. -/
theorem Hom.filter_ok {α β : Type} {S : List α → R (List β)} (hS : Hom S) (keep : α → Bool)
    (l : List α) (out : List β) (h : S l = .ok out)
    (hdrop : ∀ x ∈ l, keep x = false → ∀ o, S [x] = .ok o → o = []) :
    S (l.filter keep) = .ok out := by
  induction l generalizing out with
  | nil => simpa using h
  | cons x xs ih =>
    obtain ⟨a, b, ha, hb, hab⟩ := hS.split_ok (xs := [x]) (ys := xs) (by simpa using h)
    have ih' := ih b hb (fun y hy => hdrop y (by simp [hy]))
    cases hk : keep x with
    | true =>
      simp only [List.filter_cons, hk, ↓reduceIte]
      have := hS.join_ok ha ih'
      simpa [hab] using this
    | false =>
      simp only [List.filter_cons, hk, Bool.false_eq_true, ↓reduceIte]
      have : a = [] := hdrop x (by simp) hk a ha
      subst this; simpa [hab] using ih'

@[simp] theorem R.monad_bind {α β : Type} (x : R α) (f : α → R β) : (x >>= f) = x.bind f := rfl
@[simp] theorem R.monad_pure {α : Type} (a : α) : (pure a : R α) = .ok a := rfl
@[simp] theorem R.bind_panic' {α β : Type} (s : String) (f : α → R β) : (R.panic s : R α).bind f = .panic s := rfl
@[simp] theorem R.bind_fuel' {α β : Type} (f : α → R β) : (R.fuel : R α).bind f = .fuel := rfl

theorem popValue_pushValue (c : Ctx) (v : Value) : (c.pushValue v).popValue = .ok (v, c) := rfl

theorem envArg_lookup {D : Data} {args : List (Name × Value)} {n : Name} {a : Value}
    (h : (Env.ofData D args).arg n = .ok a) : lookupArg args n = .ok a := by
  simp only [Env.arg, Env.ofData, lookupArg] at h ⊢
  cases hf : args.find? (·.1 == n) with
  | none => simp [hf] at h
  | some pr => simpa [hf] using h

section single
variable (D : Data) (args : List (Name × Value))

/-- One local filter on one context with an active vertex: the context is dropped or passes
unchanged, and in the latter case the engine's verdict is the static verdict. -/
theorem applyLocalFieldFilter_single (comp : Component) (vid : Vid) (f : IRFilter) (c : Ctx)
    (x : VertexId) (hc : c.active = some x) (l' : List Ctx)
    (h : applyLocalFieldFilter (Env.ofData D args) comp vid f [c] = .ok l') :
    l' = [] ∨ (l' = [c] ∧ ∀ field, filterSubject f = some field →
      StaticFilterPasses D.regex args f (D.prop x field)) := by
  obtain ⟨op, left, right⟩ := f
  cases left with
  | count => simp [applyLocalFieldFilter] at h
  | loc field ty =>
    simp only [applyLocalFieldFilter] at h
    obtain ⟨t, ht, h⟩ := R_bind_ok h
    have hcl : computeLocalField (Env.ofData D args) vid t field [c] = .ok [c.pushValue (D.prop x field)] := by
      simp [computeLocalField, mapR, Env.ofData, Data.adapter, hc, Data.propOpt]
    rw [hcl] at h
    simp only [R.bind_ok] at h
    have hsub : ∀ fld, filterSubject ⟨op, .loc field ty, right⟩ = some fld → fld = field := by
      intro fld hf; simpa [filterSubject] using hf.symm
    cases op with
    | un o =>
      simp only [applyFilter, filterMapR, R.monad_bind, R.monad_pure, popValue_pushValue, R.bind_ok,
        hc, Option.isNone_some, Bool.false_or] at h
      cases hu : applyUnary o (D.prop x field) with
      | true =>
        right
        simp [hu] at h
        refine ⟨h.symm, fun fld hf => ?_⟩
        rw [hsub fld hf]; simpa [StaticFilterPasses] using hu
      | false => left; simp [hu] at h; exact h
    | bin o =>
      cases right with
      | none => simp [applyFilter] at h
      | some a =>
        cases a with
        | var n vt =>
          simp only [applyFilter] at h
          obtain ⟨rv, hrv, h⟩ := R_bind_ok h
          obtain ⟨u, hu, h⟩ := R_bind_ok h
          simp only [filterMapR, R.monad_bind, R.monad_pure, popValue_pushValue, R.bind_ok,
            hc, Option.isNone_some, Bool.false_eq_true, ↓reduceIte] at h
          cases hb : applyStatic (Env.ofData D args).regex o (D.prop x field) rv with
          | panic => simp [hb, R.ofOutcome] at h
          | ok b =>
            cases b with
            | false => left; simp [hb, R.ofOutcome] at h; exact h
            | true =>
              right
              simp [hb, R.ofOutcome] at h
              refine ⟨h.symm, fun fld hf => ?_⟩
              rw [hsub fld hf]
              exact ⟨rv, envArg_lookup hrv, hb⟩
        | tag r =>
          simp only [applyFilter, filterMapR, R.monad_bind, R.monad_pure] at h
          cases htv : tagValue (Env.ofData D args) comp vid r (c.pushValue (D.prop x field)) with
          | panic s => simp [htv] at h
          | fuel => simp [htv] at h
          | ok tg =>
            simp only [htv, popValue_pushValue, R.bind_ok] at h
            have hP : ∀ fld, filterSubject ⟨.bin o, .loc field ty, some (.tag r)⟩ = some fld →
                StaticFilterPasses D.regex args ⟨.bin o, .loc field ty, some (.tag r)⟩ (D.prop x fld) :=
              fun _ _ => trivial
            cases tg with
            | nonexistent => right; simp at h; exact ⟨h.symm, hP⟩
            | some rv =>
              simp only [hc, Option.isNone_some, Bool.false_eq_true, ↓reduceIte] at h
              cases hb : applyTagged (Env.ofData D args).regex o (D.prop x field) rv with
              | panic => simp [hb, R.ofOutcome] at h
              | ok b =>
                cases b with
                | false => left; simp [hb, R.ofOutcome] at h; exact h
                | true => right; simp [hb, R.ofOutcome] at h; exact ⟨h.symm, hP⟩

theorem applyLocalFilters_nil (env : Env) (comp : Component) (vid : Vid) (fs : List IRFilter)
    (l' : List Ctx) (h : applyLocalFilters env comp vid fs [] = .ok l') : l' = [] :=
  (applyLocalFilters_hom env comp vid fs).nil_ok h

theorem applyLocalFilters_single (comp : Component) (vid : Vid) (fs : List IRFilter) (c : Ctx)
    (x : VertexId) (hc : c.active = some x) (l' : List Ctx)
    (h : applyLocalFilters (Env.ofData D args) comp vid fs [c] = .ok l') :
    l' = [] ∨ (l' = [c] ∧ ∀ f ∈ fs, ∀ field, filterSubject f = some field →
      StaticFilterPasses D.regex args f (D.prop x field)) := by
  induction fs generalizing l' with
  | nil => simp [applyLocalFilters] at h; right; exact ⟨h.symm, by simp⟩
  | cons f fs ih =>
    simp only [applyLocalFilters] at h
    obtain ⟨l1, h1, h⟩ := R_bind_ok h
    rcases applyLocalFieldFilter_single D args comp vid f c x hc l1 h1 with rfl | ⟨rfl, hf⟩
    · left; exact applyLocalFilters_nil _ comp vid fs l' h
    · rcases ih l' h with rfl | ⟨rfl, hfs⟩
      · left; rfl
      · right
        refine ⟨rfl, ?_⟩
        intro g hg
        rcases List.mem_cons.mp hg with rfl | hg
        · exact hf
        · exact hfs g hg

/-- A context that survives the entry into vertex `v` has passed every static filter of `v`. -/
theorem enterVertex_single (comp : Component) (v : IRVertex) (c : Ctx) (x : VertexId)
    (hc : c.active = some x) (o : List Ctx)
    (h : enterVertex (Env.ofData D args) comp v [c] = .ok o) (hne : o ≠ []) :
    ∀ f ∈ v.filters, ∀ field, filterSubject f = some field →
      StaticFilterPasses D.regex args f (D.prop x field) := by
  unfold enterVertex at h
  obtain ⟨l1, h1, h⟩ := R_bind_ok h
  obtain ⟨l2, h2, h⟩ := R_bind_ok h
  have hl1 : l1 = [] ∨ l1 = [c] := by
    unfold coerceIfNeeded at h1
    split at h1
    · right; simpa using h1.symm
    · simp only [filterMapR, R.monad_bind, R.monad_pure] at h1
      cases hco : (Env.ofData D args).adapter.coerce v.vid _ v.typeName c.active with
      | ok b =>
        rw [hco] at h1
        simp only [R.bind_ok, hc, Option.isNone_some, Bool.or_false] at h1
        cases b <;> simp at h1
        · left; exact h1
        · right; exact h1.symm
      | panic s => rw [hco] at h1; simp at h1
      | fuel => rw [hco] at h1; simp at h1
  rcases hl1 with rfl | rfl
  · have := applyLocalFilters_nil _ comp v.vid v.filters l2 h2
    subst this
    simp [mapR] at h; exact absurd h hne
  · rcases applyLocalFilters_single D args comp v.vid v.filters c x hc l2 h2 with rfl | ⟨rfl, hf⟩
    · simp [mapR] at h; exact absurd h hne
    · exact hf

end single



theorem allR_false {α : Type} {f : α → R Bool} {l : List α} (h : allR f l = .ok false) :
    ∃ x ∈ l, f x = .ok false := by
  induction l with
  | nil => simp [allR] at h
  | cons x xs ih =>
    simp only [allR] at h
    obtain ⟨b, hb, h⟩ := R_bind_ok h
    cases b with
    | true =>
      simp at h
      obtain ⟨y, hy, hfy⟩ := ih h
      exact ⟨y, by simp [hy], hfy⟩
    | false => exact ⟨x, by simp, hb⟩

/-- A property the schema declares non-nullable is not null on data vertex `x` (for the filtered
properties of IR vertex `v`). -/
def NonNullOk (D : Data) (v : IRVertex) (x : VertexId) : Prop :=
  ∀ f ∈ v.filters, ∀ p, filterSubject f = some p → subjectNullable f = false →
    Cand.isNull (D.prop x p) = false

/-- **The pruning step is invisible at the entry into the vertex.**  If the static hints of `i`
reject data vertex `x`, a context whose active vertex is `x` does not survive the entry into the
IR vertex the hints describe. -/
theorem enterVertex_dropped (ir : IRQuery) (D : Data) (args : List (Name × Value)) (i : VInfo)
    (comp comp' : Component) (v : IRVertex) (c : Ctx) (x : VertexId) (o : List Ctx)
    (hl : locate ir i.vid = some (comp', v))
    (hp : passesStatic ir args D i x = .ok false)
    (hnn : NonNullOk D v x) (hc : c.active = some x)
    (h : enterVertex (Env.ofData D args) comp v [c] = .ok o) : o = [] := by
  by_cases hne : o = []
  · exact hne
  · exfalso
    have hf := enterVertex_single D args comp v c x hc o h hne
    simp only [passesStatic, hl] at hp
    obtain ⟨p, _, hp⟩ := allR_false hp
    obtain ⟨oc, hoc, hg⟩ := R_map_ok hp
    cases oc with
    | none => simp at hg
    | some cand =>
      simp only at hg
      have := (staticallyRequired_sound D.regex args i v p (D.prop x p) cand hoc
        (fun f hfm hs => hf f hfm p hs) (fun f hfm hs hn => hnn f hfm p hs hn)).1
      rw [this] at hg; cases hg


theorem find?_of_nodup_map {α : Type} (key : α → Nat) {l : List α} {a : α}
    (hn : (l.map key).Nodup) (ha : a ∈ l) : l.find? (fun b => key b == key a) = some a := by
  induction l with
  | nil => simp at ha
  | cons w ws ih =>
    simp only [List.map_cons, List.nodup_cons, List.mem_map, not_exists, not_and] at hn
    rcases List.mem_cons.mp ha with h | h
    · subst h; simp
    · have hne : ¬ (key w = key a) := fun heq => hn.1 a h heq.symm
      have hb : (key w == key a) = false := by simpa using hne
      simp only [List.find?_cons, hb]
      exact ih hn.2 h

theorem find?_none_of_not_mem_map {α : Type} (key : α → Nat) {l : List α} {k : Nat}
    (h : k ∉ l.map key) : l.find? (fun b => key b == k) = none := by
  simp only [List.find?_eq_none, beq_iff_eq]
  intro w hw heq
  exact h (by simp only [List.mem_map]; exact ⟨w, hw, heq⟩)

/-- No Eid occurs twice in the query (`IndexedQuery::try_from` refuses anything else). -/
def EidsDistinct (ir : IRQuery) : Prop := (IRQuery.allEids ir).Nodup

instance (ir : IRQuery) : Decidable (EidsDistinct ir) := inferInstanceAs (Decidable (List.Nodup _))

theorem findEdgeIn_edge {l : List Component} {c : Component} {e : IREdge}
    (hn : (l.flatMap Component.eids).Nodup) (hc : c ∈ l) (he : e ∈ c.edges) :
    findEdgeIn e.eid l = some (.inl e) := by
  induction l with
  | nil => simp at hc
  | cons c0 rest ih =>
    simp only [List.flatMap_cons, List.nodup_append] at hn
    obtain ⟨h0, hr, hdis⟩ := hn
    rcases List.mem_cons.mp hc with h | h
    · subst h
      simp only [Component.eids, List.nodup_append] at h0
      have : c.edges.find? (fun b => b.eid == e.eid) = some e := find?_of_nodup_map (·.eid) h0.1 he
      simp [findEdgeIn, this]
    · have hin : e.eid ∈ rest.flatMap Component.eids := by
        simp only [List.mem_flatMap]
        exact ⟨c, h, by simp only [Component.eids, List.mem_append, List.mem_map]; exact Or.inl ⟨e, he, rfl⟩⟩
      have hnot : e.eid ∉ c0.eids := fun hmem => hdis _ hmem _ hin rfl
      simp only [Component.eids, List.mem_append, not_or] at hnot
      have h1 : c0.edges.find? (fun x => x.eid == e.eid) = none := find?_none_of_not_mem_map IREdge.eid hnot.1
      have h2 : c0.folds.find? (fun x => x.eid == e.eid) = none := find?_none_of_not_mem_map Fold.eid hnot.2
      simp only [findEdgeIn, h1, h2]
      exact ih hr h

theorem findEdgeIn_fold {l : List Component} {c : Component} {f : Fold}
    (hn : (l.flatMap Component.eids).Nodup) (hc : c ∈ l) (hf : f ∈ c.folds) :
    findEdgeIn f.eid l = some (.inr f) := by
  induction l with
  | nil => simp at hc
  | cons c0 rest ih =>
    simp only [List.flatMap_cons, List.nodup_append] at hn
    obtain ⟨h0, hr, hdis⟩ := hn
    rcases List.mem_cons.mp hc with h | h
    · subst h
      simp only [Component.eids, List.nodup_append] at h0
      have hnot : f.eid ∉ c.edges.map (·.eid) := fun hmem =>
        h0.2.2 _ hmem _ (by simp only [List.mem_map]; exact ⟨f, hf, rfl⟩) rfl
      have : c.folds.find? (fun b => b.eid == f.eid) = some f := find?_of_nodup_map (·.eid) h0.2.1 hf
      have h1 : c.edges.find? (fun x => x.eid == f.eid) = none := find?_none_of_not_mem_map IREdge.eid hnot
      simp [findEdgeIn, h1, this]
    · have hin : f.eid ∈ rest.flatMap Component.eids := by
        simp only [List.mem_flatMap]
        exact ⟨c, h, by simp only [Component.eids, List.mem_append, List.mem_map]; exact Or.inr ⟨f, hf, rfl⟩⟩
      have hnot : f.eid ∉ c0.eids := fun hmem => hdis _ hmem _ hin rfl
      simp only [Component.eids, List.mem_append, not_or] at hnot
      have h1 : c0.edges.find? (fun x => x.eid == f.eid) = none := find?_none_of_not_mem_map IREdge.eid hnot.1
      have h2 : c0.folds.find? (fun x => x.eid == f.eid) = none := find?_none_of_not_mem_map Fold.eid hnot.2
      simp only [findEdgeIn, h1, h2]
      exact ih hr h

theorem destinationOf_edge {ir : IRQuery} (hd : EidsDistinct ir) {c : Component} {e : IREdge}
    (hc : c ∈ subComps ir.rootComponent) (he : e ∈ c.edges) :
    destinationOf ir e.eid = some (VInfo.ofEdge e) := by
  simp [destinationOf, findEdgeIn_edge hd hc he]

theorem destinationOf_fold {ir : IRQuery} (hd : EidsDistinct ir) {c : Component} {f : Fold}
    (hc : c ∈ subComps ir.rootComponent) (hf : f ∈ c.folds) :
    destinationOf ir f.eid = some (VInfo.ofFold f) := by
  simp [destinationOf, findEdgeIn_fold hd hc hf]



/-- the verdict of the static hints as a `Bool` (`true` when the hint computation fails) -/
def keepB (ir : IRQuery) (args : List (Name × Value)) (D : Data) (i : VInfo) (x : VertexId) : Bool :=
  match passesStatic ir args D i x with
  | .ok b => b
  | _ => true

theorem filterR_ok {α : Type} {f : α → R Bool} {g : α → Bool} {l : List α}
    (h : ∀ x ∈ l, f x = .ok (g x)) : filterR f l = .ok (l.filter g) := by
  induction l with
  | nil => rfl
  | cons x xs ih =>
    simp only [filterR, h x (by simp), R.bind_ok, ih (fun y hy => h y (by simp [hy])), R.map,
      List.filter_cons]

theorem allR_true {α : Type} {f : α → R Bool} {l : List α} (h : ∀ x ∈ l, f x = .ok true) :
    allR f l = .ok true := by
  induction l with
  | nil => rfl
  | cons x xs ih => simp [allR, h x (by simp), ih (fun y hy => h y (by simp [hy]))]

theorem keepB_nonBinding (ir : IRQuery) (args : List (Name × Value)) (D : Data) (i : VInfo)
    (x : VertexId) (h : i.nonBinding = true) : keepB ir args D i x = true := by
  unfold keepB passesStatic
  cases locate ir i.vid with
  | none => rfl
  | some cv =>
    obtain ⟨c, v⟩ := cv
    simp only
    rw [allR_true (fun p _ => by simp [staticallyRequired, h, R.map])]

/-- The environment whose adapter prunes with the static hints. -/
def envS (ir : IRQuery) (args : List (Name × Value)) (D : Data) : Env :=
  { Env.ofData D args with adapter := pruneStaticAdapter ir args D }

theorem envS_agree (ir : IRQuery) (args : List (Name × Value)) (D : Data) :
    AgreeP (fun _ _ => true) (Env.ofData D args) (envS ir args D) :=
  ⟨rfl, rfl, rfl, rfl, fun _ _ _ => rfl⟩

/-- The hint computation does not panic (argument validation guarantees it: ordering variables are
non-null, `one_of` / `not_one_of` variables are lists). -/
def HintsTotal (ir : IRQuery) (args : List (Name × Value)) (D : Data) : Prop :=
  ∀ (i : VInfo) (x : VertexId), (locate ir i.vid).isSome = true → ∃ b, passesStatic ir args D i x = .ok b

theorem passes_eq_keepB {ir : IRQuery} {args : List (Name × Value)} {D : Data} (ht : HintsTotal ir args D)
    (i : VInfo) (x : VertexId) (hl : (locate ir i.vid).isSome = true) :
    passesStatic ir args D i x = .ok (keepB ir args D i x) := by
  obtain ⟨b, hb⟩ := ht i x hl
  simp [keepB, hb]

/-- what the pruning adapter answers at `resolve_neighbors` -/
theorem envS_nbrs {ir : IRQuery} {args : List (Name × Value)} {D : Data} (ht : HintsTotal ir args D)
    (eid : Eid) (i : VInfo) (hd : destinationOf ir eid = some i) (hl : (locate ir i.vid).isSome = true)
    (t edge : Name) (ps : Params) (v : Option VertexId) :
    (envS ir args D).adapter.nbrs eid t edge ps v =
      .ok ((D.nbrsOpt v edge ps).filter (keepB ir args D i)) := by
  simp only [envS, pruneStaticAdapter, hd]
  exact filterR_ok (fun x _ => passes_eq_keepB ht i x hl)

/-- keep contexts without an active vertex; test the active vertex otherwise -/
def keepCtx (ir : IRQuery) (args : List (Name × Value)) (D : Data) (i : VInfo) (c : Ctx) : Bool :=
  match c.active with
  | some n => keepB ir args D i n
  | none => true

theorem flatMapR_filter {α β : Type} {g g' : α → R (List β)} (k : β → Bool) {l : List α} {mid : List β}
    (h : ∀ c ∈ l, ∀ r, g c = .ok r → g' c = .ok (r.filter k)) (hm : flatMapR g l = .ok mid) :
    flatMapR g' l = .ok (mid.filter k) := by
  induction l generalizing mid with
  | nil => simp [flatMapR] at hm ⊢; subst hm; simp
  | cons x xs ih =>
    simp only [flatMapR] at hm
    cases hx : g x with
    | ok r =>
      rw [hx] at hm
      cases hxs : flatMapR g xs with
      | ok rs =>
        rw [hxs] at hm; simp at hm; subst hm
        simp only [flatMapR, h x (by simp) r hx, ih (fun c hc => h c (by simp [hc])) hxs,
          List.filter_append]
      | panic s => rw [hxs] at hm; simp at hm
      | fuel => rw [hxs] at hm; simp at hm
    | panic s => rw [hx] at hm; simp at hm
    | fuel => rw [hx] at hm; simp at hm

theorem expandOne_filter (ir : IRQuery) (args : List (Name × Value)) (D : Data) (i : VInfo)
    (c : Ctx) (ns : List VertexId) (opt : Bool) (hopt : opt = true → i.nonBinding = true) :
    expandOne c (ns.filter (keepB ir args D i)) opt = (expandOne c ns opt).filter (keepCtx ir args D i) := by
  have hmap : (ns.map fun n => c.splitTo (some n)).filter (keepCtx ir args D i) =
      (ns.filter (keepB ir args D i)).map fun n => c.splitTo (some n) := by
    induction ns with
    | nil => rfl
    | cons n ns ih =>
      simp only [List.map_cons, List.filter_cons, ih]
      have : keepCtx ir args D i (c.splitTo (some n)) = keepB ir args D i n := rfl
      rw [this]
      cases keepB ir args D i n <;> rfl
  cases opt with
  | false =>
    simp only [expandOne, Bool.and_false, Bool.or_false, List.filter_append, hmap]
    congr 1
    cases c.active.isNone <;> simp [Ctx.splitTo] <;> rfl
  | true =>
    have hall : ns.filter (keepB ir args D i) = ns :=
      List.filter_eq_self.mpr (fun n _ => keepB_nonBinding ir args D i n (hopt rfl))
    simp only [expandOne, List.filter_append, hmap, hall]
    congr 1
    split <;> simp [Ctx.splitTo] <;> rfl



theorem mem_expandOne_active {c : Ctx} {ns : List VertexId} {opt : Bool} {x : Ctx} {n : VertexId}
    (hx : x ∈ expandOne c ns opt) (hn : x.active = some n) : n ∈ ns := by
  simp only [expandOne, List.mem_append, List.mem_map] at hx
  rcases hx with ⟨m, hm, rfl⟩ | hx
  · simp only [Ctx.splitTo, Option.some.injEq] at hn; subst hn; exact hm
  · split at hx
    · simp only [List.mem_singleton] at hx; subst hx; simp [Ctx.splitTo] at hn
    · simp at hx

theorem mem_nbrsOpt {D : Data} {v : Option VertexId} {edge : Name} {ps : Params} {n : VertexId}
    (h : n ∈ D.nbrsOpt v edge ps) : ∃ y, n ∈ D.nbrs y edge ps := by
  cases v with
  | none => simp [Data.nbrsOpt] at h
  | some y => exact ⟨y, h⟩

section stages
variable {ir : IRQuery} {args : List (Name × Value)} {D : Data}

/-- `expand_non_recursive_edge` under the pruning adapter yields the plain expansion minus the
contexts whose new active vertex the hints reject. -/
theorem expandNonRecursive_pruned (ht : HintsTotal ir args D) (e : IREdge)
    (hd : destinationOf ir e.eid = some (VInfo.ofEdge e))
    (hl : (locate ir e.toVid).isSome = true) (t : Name) (ctxs mid : List Ctx)
    (hm : expandNonRecursive (Env.ofData D args) t e ctxs = .ok mid) :
    expandNonRecursive (envS ir args D) t e ctxs = .ok (mid.filter (keepCtx ir args D (VInfo.ofEdge e))) ∧
      ∀ x ∈ mid, ∀ n, x.active = some n → ∃ y, n ∈ D.nbrs y e.name e.params := by
  unfold expandNonRecursive at hm ⊢
  constructor
  · refine flatMapR_filter _ ?_ hm
    intro c _ r hr
    simp only [R.monad_bind, R.monad_pure] at hr ⊢
    obtain ⟨c', hc', hr⟩ := R_bind_ok hr
    rw [hc']
    simp only [R.bind_ok, Env.ofData, Data.adapter] at hr
    cases hr
    simp only [R.bind_ok, envS_nbrs ht e.eid _ hd hl]
    congr 1
    apply expandOne_filter
    intro ho; simp [VInfo.ofEdge, VInfo.nonBinding, ho]
  · intro x hx n hn
    obtain ⟨c, _, r, hr, hxr⟩ := flatMapR_ok_mem hm x hx
    simp only [R.monad_bind, R.monad_pure] at hr
    obtain ⟨c', hc', hr⟩ := R_bind_ok hr
    simp only [R.bind_ok, Env.ofData, Data.adapter] at hr
    cases hr
    exact mem_nbrsOpt (mem_expandOne_active hxr hn)

/-- Hypotheses of the global theorem: well-formedness of the IR as `IndexedQuery::try_from`
enforces it, hints that do not panic, and data in which a property declared non-nullable is not
null on the vertices the adapter returns for the corresponding starting edge / edge / fold. -/
structure PruneHyp (ir : IRQuery) (args : List (Name × Value)) (D : Data) : Prop where
  vids : VidsDistinct ir
  eids : EidsDistinct ir
  foldRoots : ∀ c ∈ subComps ir.rootComponent, ∀ f ∈ c.folds, f.toVid = f.component.root
  total : HintsTotal ir args D
  nnStart : ∀ v, ir.rootComponent.vertex? ir.rootComponent.root = some v →
    ∀ x ∈ D.start ir.rootName ir.rootParams, NonNullOk D v x
  nnEdge : ∀ c ∈ subComps ir.rootComponent, ∀ e ∈ c.edges, ∀ v, c.vertex? e.toVid = some v →
    ∀ y, ∀ x ∈ D.nbrs y e.name e.params, NonNullOk D v x
  nnFold : ∀ c ∈ subComps ir.rootComponent, ∀ f ∈ c.folds, ∀ v,
    f.component.vertex? f.component.root = some v → ∀ y, ∀ x ∈ D.nbrs y f.name f.params, NonNullOk D v x

theorem enterVertex_envS (comp : Component) (v : IRVertex) :
    enterVertex (envS ir args D) comp v = enterVertex (Env.ofData D args) comp v :=
  funext fun l => enterVertex_agree (envS_agree ir args D) comp v l (fun _ _ => rfl)

/-- The edge stage (`expand_edge` of a non-recursive edge + entry into the new vertex). -/
theorem expandEdge_nonrec_pruned (hyp : PruneHyp ir args D) (comp : Component)
    (hc : comp ∈ subComps ir.rootComponent) (e : IREdge) (he : e ∈ comp.edges)
    (hrec : e.recursive = none) (ctxs out : List Ctx)
    (h : expandEdge (Env.ofData D args) comp e ctxs = .ok out) :
    expandEdge (envS ir args D) comp e ctxs = .ok out := by
  unfold expandEdge at h ⊢
  cases hf : comp.vertex? e.fromVid with
  | none => simp [hf] at h
  | some fromV =>
    cases htv : comp.vertex? e.toVid with
    | none => simp [hf, htv] at h
    | some toV =>
      simp only [hf, htv, hrec] at h ⊢
      obtain ⟨mid, hmid, h⟩ := R_bind_ok h
      obtain ⟨htoV, hvid⟩ := vertex?_spec htv
      have hloc : locate ir e.toVid = some (comp, toV) := by
        rw [← hvid]; exact locate_of_distinct hyp.vids hc htoV
      obtain ⟨h1, h2⟩ := expandNonRecursive_pruned hyp.total e (destinationOf_edge hyp.eids hc he)
        (by simp [hloc]) fromV.typeName ctxs mid hmid
      rw [h1, enterVertex_envS]
      simp only [R.bind_ok]
      apply (enterVertex_hom _ comp toV).filter_ok _ mid out h
      intro x hx hk o ho
      cases hxa : x.active with
      | none => simp [keepCtx, hxa] at hk
      | some n =>
        simp only [keepCtx, hxa] at hk
        obtain ⟨y, hy⟩ := h2 x hx n hxa
        have hp : passesStatic ir args D (VInfo.ofEdge e) n = .ok false := by
          rw [passes_eq_keepB hyp.total _ n (by simp [VInfo.ofEdge, hloc]), hk]
        exact enterVertex_dropped ir D args (VInfo.ofEdge e) comp comp toV x n o hloc hp
          (hyp.nnEdge comp hc e he toV htv y n hy) hxa ho
end stages



/-- Two homomorphic stages compared context by context. -/
theorem Hom.pointwise_ok {α β : Type} {S S' : List α → R (List β)} (hS : Hom S) (hS' : Hom S')
    (l : List α) (out : List β) (h : S l = .ok out)
    (hp : ∀ x ∈ l, ∀ o, S [x] = .ok o → S' [x] = .ok o) (hnil : ∀ o, S [] = .ok o → S' [] = .ok o) :
    S' l = .ok out := by
  induction l generalizing out with
  | nil => exact hnil out h
  | cons x xs ih =>
    obtain ⟨a, b, ha, hb, hab⟩ := hS.split_ok (xs := [x]) (ys := xs) (by simpa using h)
    have h1 := hp x (by simp) a ha
    have h2 := ih b hb (fun y hy => hp y (by simp [hy]))
    have := hS'.join_ok h1 h2
    simpa [hab] using this

theorem map_split_filter (ir : IRQuery) (args : List (Name × Value)) (D : Data) (i : VInfo) (c : Ctx)
    (ns : List VertexId) :
    (ns.map fun n => c.splitTo (some n)).filter (keepCtx ir args D i) =
      (ns.filter (keepB ir args D i)).map fun n => c.splitTo (some n) := by
  induction ns with
  | nil => rfl
  | cons n ns ih =>
    simp only [List.map_cons, List.filter_cons, ih]
    have : keepCtx ir args D i (c.splitTo (some n)) = keepB ir args D i n := rfl
    rw [this]
    cases keepB ir args D i n <;> rfl

theorem unpackList_map_leaf (f : VertexId → Ctx) (l : List VertexId) :
    unpackList (l.map fun m => PCtx.mk (f m) []) = l.map f := by
  induction l with
  | nil => rfl
  | cons m ms ih => simp [unpackList, unpack, ih]

theorem mapR_ensureUnsuspended_active (l : List Ctx) (h : ∀ c ∈ l, c.active.isSome = true) :
    mapR Ctx.ensureUnsuspended l = .ok l := by
  induction l with
  | nil => rfl
  | cons c cs ih =>
    have hc := h c (by simp)
    have : c.ensureUnsuspended = .ok c := by
      unfold Ctx.ensureUnsuspended
      cases hca : c.active with
      | none => simp [hca] at hc
      | some v => rfl
    simp [mapR, this, ih (fun d hd => h d (by simp [hd]))]

/-- One recursion level from one context with an active vertex: the context itself (depth 0), then
one context per neighbour. -/
theorem recStep (c : Ctx) (v : VertexId) (hc : c.active = some v) (ns : List VertexId) :
    mapR Ctx.ensureUnsuspended (unpackList (recExpandOne ns (.mk c []))) =
      .ok (c :: ns.map fun m => c.splitTo (some m)) := by
  cases ns with
  | nil =>
    simp only [recExpandOne, unpackList, unpack, List.append_nil, List.nil_append, List.map_nil]
    exact mapR_ensureUnsuspended_active [c] (by simp [hc])
  | cons n rest =>
    have hsusp : c.ensureSuspended.ensureUnsuspended = .ok c := by
      simp only [Ctx.ensureSuspended, hc, Ctx.ensureUnsuspended]
      cases c; simp_all
    have hrest : unpackList (rest.map fun m => PCtx.mk ((c.splitTo none).splitTo (some m)) []) =
        rest.map fun m => c.splitTo (some m) := unpackList_map_leaf _ rest
    simp only [recExpandOne, unpackList, unpack, List.append_nil, List.nil_append, hrest,
      List.cons_append, List.map_cons, mapR, hsusp]
    have h2 : (c.splitTo (some n)).ensureUnsuspended = .ok (c.splitTo (some n)) := rfl
    simp only [h2]
    rw [mapR_ensureUnsuspended_active _ (by intro d hd; simp only [List.mem_map] at hd; obtain ⟨m, _, rfl⟩ := hd; rfl)]

theorem ofData_nbrs (D : Data) (args : List (Name × Value)) (eid : Eid) (t edge : Name) (ps : Params)
    (v : Option VertexId) : (Env.ofData D args).adapter.nbrs eid t edge ps v = .ok (D.nbrsOpt v edge ps) := rfl

section recursive
variable {ir : IRQuery} {args : List (Name × Value)} {D : Data}

theorem recFinish_single (env : Env) (e : IREdge) (r : Recursive) (fromV toV : IRVertex) (c : Ctx)
    (hdepth : r.depth - 1 = 0) :
    recFinish env e r fromV toV [c] =
      (env.adapter.nbrs e.eid fromV.typeName e.name e.params c.active).bind fun ns =>
        mapR Ctx.ensureUnsuspended (unpackList (recExpandOne ns (.mk c []))) := by
  simp only [recFinish, hdepth, recLevels, List.map_cons, List.map_nil, recExpandLevel, flatMapR,
    R.monad_bind, R.monad_pure]
  cases env.adapter.nbrs e.eid fromV.typeName e.name e.params c.active with
  | ok ns => simp
  | panic s => rfl
  | fuel => rfl

/-- The edge stage of a *binding* recursive edge (`@recurse(depth: 1)`): pruning the neighbours
removes contexts that the entry into the destination vertex would remove anyway; the depth-0
context (the source vertex itself) is untouched. -/
theorem expandEdge_rec_pruned (hyp : PruneHyp ir args D) (comp : Component)
    (hc : comp ∈ subComps ir.rootComponent) (e : IREdge) (he : e ∈ comp.edges)
    (r : Recursive) (hrec : e.recursive = some r) (hdepth : r.depth - 1 = 0)
    (ctxs out : List Ctx)
    (h : expandEdge (Env.ofData D args) comp e ctxs = .ok out) :
    expandEdge (envS ir args D) comp e ctxs = .ok out := by
  unfold expandEdge at h ⊢
  cases hf : comp.vertex? e.fromVid with
  | none => simp [hf] at h
  | some fromV =>
    cases htv : comp.vertex? e.toVid with
    | none => simp [hf, htv] at h
    | some toV =>
      simp only [hf, htv, hrec, expandRecursive] at h ⊢
      obtain ⟨mid, hmid, h⟩ := R_bind_ok h
      obtain ⟨init, hinit, hmid⟩ := R_bind_ok hmid
      obtain ⟨htoV, hvid⟩ := vertex?_spec htv
      have hloc : locate ir e.toVid = some (comp, toV) := by
        rw [← hvid]; exact locate_of_distinct hyp.vids hc htoV
      have hdest := destinationOf_edge hyp.eids hc he
      rw [hinit, enterVertex_envS]
      simp only [R.bind_ok]
      -- both pipelines after `recInit` are homomorphisms: compare them context by context
      let S := fun l => (recFinish (Env.ofData D args) e r fromV toV l).bind (enterVertex (Env.ofData D args) comp toV)
      let S' := fun l => (recFinish (envS ir args D) e r fromV toV l).bind (enterVertex (Env.ofData D args) comp toV)
      have hS : Hom S := Hom.bind (recFinish_hom _ e r fromV toV) (enterVertex_hom _ comp toV)
      have hS' : Hom S' := Hom.bind (recFinish_hom _ e r fromV toV) (enterVertex_hom _ comp toV)
      have hSinit : S init = .ok out := by show (recFinish _ e r fromV toV init).bind _ = _; rw [hmid]; exact h
      show S' init = .ok out
      apply Hom.pointwise_ok hS hS' init out hSinit
      · intro c _ o ho
        show (recFinish _ e r fromV toV [c]).bind _ = _
        have ho' : (recFinish (Env.ofData D args) e r fromV toV [c]).bind (enterVertex (Env.ofData D args) comp toV) = .ok o := ho
        rw [recFinish_single _ e r fromV toV c hdepth] at ho' ⊢
        rw [envS_nbrs hyp.total e.eid _ hdest (by simp [VInfo.ofEdge, hloc])]
        rw [ofData_nbrs] at ho'
        simp only [R.bind_ok] at ho' ⊢
        cases hca : c.active with
        | none =>
          rw [hca] at ho'
          simpa [Data.nbrsOpt] using ho'
        | some v =>
          rw [hca] at ho'
          rw [recStep c v hca] at ho' ⊢
          simp only [R.bind_ok] at ho' ⊢
          obtain ⟨a, b, ha, hb, hab⟩ := (enterVertex_hom _ comp toV).split_ok
            (xs := [c]) (ys := (D.nbrsOpt (some v) e.name e.params).map fun m => c.splitTo (some m))
            (by simpa using ho')
          have hb' := (enterVertex_hom (Env.ofData D args) comp toV).filter_ok
            (keepCtx ir args D (VInfo.ofEdge e)) _ b hb (by
              intro x hx hk o2 ho2
              simp only [List.mem_map] at hx
              obtain ⟨n, hn, rfl⟩ := hx
              have hkb : keepB ir args D (VInfo.ofEdge e) n = false := hk
              have hp : passesStatic ir args D (VInfo.ofEdge e) n = .ok false := by
                rw [passes_eq_keepB hyp.total _ n (by simp [VInfo.ofEdge, hloc]), hkb]
              exact enterVertex_dropped ir D args (VInfo.ofEdge e) comp comp toV _ n o2 hloc hp
                (hyp.nnEdge comp hc e he toV htv v n hn) rfl ho2)
          rw [map_split_filter] at hb'
          have := (enterVertex_hom (Env.ofData D args) comp toV).join_ok ha hb'
          simpa [hab] using this
      · intro o ho
        have : recFinish (envS ir args D) e r fromV toV [] = recFinish (Env.ofData D args) e r fromV toV [] := by
          simp [recFinish, recExpandLevel, flatMapR, hdepth, recLevels]
        show (recFinish _ e r fromV toV []).bind _ = _
        rw [this]; exact ho
end recursive



section folds
variable {ir : IRQuery} {args : List (Name × Value)} {D : Data}

/-- Edges whose destination hints are non-binding (`@optional`, `@recurse(depth ≥ 2)`): the pruning
adapter answers exactly like the plain one. -/
theorem expandEdge_nonbinding_pruned (hyp : PruneHyp ir args D) (comp : Component)
    (hc : comp ∈ subComps ir.rootComponent) (e : IREdge) (he : e ∈ comp.edges)
    (hnb : (VInfo.ofEdge e).nonBinding = true) (ctxs : List Ctx) :
    expandEdge (envS ir args D) comp e ctxs = expandEdge (Env.ofData D args) comp e ctxs := by
  cases htv : comp.vertex? e.toVid with
  | none =>
    unfold expandEdge
    cases comp.vertex? e.fromVid <;> simp [htv]
  | some toV =>
    obtain ⟨htoV, hvid⟩ := vertex?_spec htv
    have hloc : locate ir e.toVid = some (comp, toV) := by
      rw [← hvid]; exact locate_of_distinct hyp.vids hc htoV
    apply expandEdge_agree (envS_agree ir args D) comp e _ ctxs (fun _ _ _ _ => rfl)
    intro t v
    rw [envS_nbrs hyp.total e.eid _ (destinationOf_edge hyp.eids hc he) (by simp [VInfo.ofEdge, hloc]),
      ofData_nbrs]
    congr 1
    exact List.filter_eq_self.mpr (fun n _ => keepB_nonBinding ir args D _ n hnb)

theorem filterMapR_sub {α β : Type} {f f' : α → R (Option β)} {l : List α} {out : List β}
    (h : ∀ c ∈ l, ∀ o, f c = .ok o → f' c = .ok o) (ho : filterMapR f l = .ok out) :
    filterMapR f' l = .ok out := by
  induction l generalizing out with
  | nil => exact ho
  | cons x xs ih =>
    simp only [filterMapR] at ho ⊢
    cases hx : f x with
    | ok y =>
      rw [hx] at ho
      cases hxs : filterMapR f xs with
      | ok ys =>
        rw [hxs] at ho
        simp only [h x (by simp) y hx, ih (fun c hc => h c (by simp [hc])) hxs]
        exact ho
      | panic s => rw [hxs] at ho; simp at ho
      | fuel => rw [hxs] at ho; simp at ho
    | panic s => rw [hx] at ho; simp at ho
    | fuel => rw [hx] at ho; simp at ho

theorem foldStart_filter (ir : IRQuery) (args : List (Name × Value)) (D : Data) (i : VInfo) (c : Ctx)
    (ns : List VertexId) :
    (foldStart c ns).filter (keepCtx ir args D i) = foldStart c (ns.filter (keepB ir args D i)) := by
  unfold foldStart
  induction ns with
  | nil => rfl
  | cons n ns ih =>
    simp only [List.map_cons, List.filter_cons, ih]
    have : keepCtx ir args D i { Ctx.new (some n) with importedTags := c.importedTags } = keepB ir args D i n := rfl
    rw [this]
    cases keepB ir args D i n <;> rfl

/-- A start context of a component whose vertex the hints reject yields nothing. -/
theorem computeComponent_dropped (hyp : PruneHyp ir args D) (fuel : Nat) (comp : Component)
    (hc : comp ∈ subComps ir.rootComponent) (i : VInfo) (hi : i.vid = comp.root) (x : Ctx) (n : VertexId)
    (hx : x.active = some n) (hp : passesStatic ir args D i n = .ok false)
    (hnn : ∀ v, comp.vertex? comp.root = some v → NonNullOk D v n) (o : List Ctx)
    (h : computeComponent (Env.ofData D args) fuel comp [x] = .ok o) : o = [] := by
  cases fuel with
  | zero => rw [computeComponent.eq_1] at h; cases h
  | succ fuel =>
    rw [computeComponent.eq_2] at h
    cases hr : comp.vertex? comp.root with
    | none => simp [hr] at h
    | some rootV =>
      simp only [hr] at h
      obtain ⟨o1, ho1, h⟩ := R_bind_ok h
      obtain ⟨st, _, h⟩ := R_bind_ok h
      obtain ⟨hrv, hvid⟩ := vertex?_spec hr
      have hloc : locate ir i.vid = some (comp, rootV) := by
        rw [hi, ← hvid]; exact locate_of_distinct hyp.vids hc hrv
      have : o1 = [] := enterVertex_dropped ir D args i comp comp rootV x n o1 hloc hp (hnn rootV hr) hx ho1
      subst this
      exact (runStages_hom _ fuel comp st _).nil_ok h

/-- The fold stage, given the claim for the fold's component. -/
theorem computeFold_pruned (hyp : PruneHyp ir args D) (fuel : Nat) (parent : Component)
    (hc : parent ∈ subComps ir.rootComponent) (fold : Fold) (hf : fold ∈ parent.folds)
    (ih : ∀ ctxs out, computeComponent (Env.ofData D args) fuel fold.component ctxs = .ok out →
      computeComponent (envS ir args D) fuel fold.component ctxs = .ok out)
    (ctxs out : List Ctx)
    (h : computeFold (Env.ofData D args) fuel parent fold ctxs = .ok out) :
    computeFold (envS ir args D) fuel parent fold ctxs = .ok out := by
  rw [computeFold.eq_1] at h ⊢
  cases hfv : parent.vertex? fold.fromVid with
  | none => simp [hfv] at h
  | some fromV =>
    simp only [hfv] at h ⊢
    have hA := envS_agree ir args D
    have h1 : importTags (envS ir args D) parent fold.imports = importTags (Env.ofData D args) parent fold.imports :=
      funext fun c => importTags_agree hA parent fold.imports c (fun _ _ => rfl)
    rw [h1, foldLimits_agree hA]
    obtain ⟨c1, hc1, h⟩ := R_bind_ok h
    obtain ⟨c2, hc2, h⟩ := R_bind_ok h
    obtain ⟨lim, hlim, h⟩ := R_bind_ok h
    simp only [hc1, hc2, hlim, R.bind_ok]
    refine filterMapR_sub ?_ h
    intro c _ o ho
    rw [foldOne.eq_1] at ho ⊢
    have hfc : fold.component ∈ subComps ir.rootComponent :=
      subComps_trans hc (subComps_of_fold hf (mem_subComps_self _))
    rw [ofData_nbrs] at ho
    simp only [R.bind_ok] at ho
    obtain ⟨computed, hcomp, ho⟩ := R_bind_ok ho
    have hroot := hyp.foldRoots parent hc fold hf
    -- the hint object of the fold's resolution point describes the root of the fold's component
    cases hrv : fold.component.vertex? fold.component.root with
    | none =>
      -- the plain run of the component panics at once
      cases fuel with
      | zero => rw [computeComponent.eq_1] at hcomp; cases hcomp
      | succ fuel => rw [computeComponent.eq_2] at hcomp; simp [hrv] at hcomp
    | some rootV =>
      obtain ⟨hrvm, hvid⟩ := vertex?_spec hrv
      have hloc : locate ir fold.toVid = some (fold.component, rootV) := by
        rw [hroot, ← hvid]; exact locate_of_distinct hyp.vids hfc hrvm
      rw [envS_nbrs hyp.total fold.eid _ (destinationOf_fold hyp.eids hc hf) (by simp [VInfo.ofFold, hloc])]
      simp only [R.bind_ok]
      have hfilt := (computeComponent_hom (Env.ofData D args) fuel fold.component).filter_ok
        (keepCtx ir args D (VInfo.ofFold fold)) _ computed hcomp (by
          intro x hx hk o2 ho2
          simp only [foldStart, List.mem_map] at hx
          obtain ⟨n, hn, rfl⟩ := hx
          have hkb : keepB ir args D (VInfo.ofFold fold) n = false := hk
          have hp : passesStatic ir args D (VInfo.ofFold fold) n = .ok false := by
            rw [passes_eq_keepB hyp.total _ n (by simp [VInfo.ofFold, hloc]), hkb]
          obtain ⟨y, hy⟩ := mem_nbrsOpt hn
          exact computeComponent_dropped hyp fuel fold.component hfc (VInfo.ofFold fold) hroot _ n rfl hp
            (fun v hv => hyp.nnFold parent hc fold hf v hv y n hy) o2 ho2)
      rw [foldStart_filter] at hfilt
      rw [ih _ _ hfilt]
      simp only [R.bind_ok]
      rw [foldFinish_agree hA parent fold lim c computed (fun _ _ => rfl)]
      exact ho
end folds



theorem mergeStages_edges (es : List IREdge) (fs : List Fold) (n : Nat) (st : List Stage)
    (h : mergeStages es fs n = .ok st) : ∀ e, Stage.edge e ∈ st → e ∈ es := by
  induction n generalizing es fs st with
  | zero =>
    cases es with
    | nil => simp only [mergeStages] at h; cases h; intro e he; simp at he
    | cons e es =>
      cases fs with
      | nil => simp only [mergeStages] at h; cases h; intro g hg; simpa using hg
      | cons f fs => simp [mergeStages] at h
  | succ n ih =>
    cases es with
    | nil => simp only [mergeStages] at h; cases h; intro e he; simp at he
    | cons e es =>
      cases fs with
      | nil => simp only [mergeStages] at h; cases h; intro g hg; simpa using hg
      | cons f fs =>
        simp only [mergeStages] at h
        split at h
        · cases hm : mergeStages es (f :: fs) n with
          | ok st' =>
            rw [hm] at h; simp only [R.map] at h; cases h
            intro g hg
            simp only [List.mem_cons, Stage.edge.injEq] at hg
            rcases hg with hg | hg
            · subst hg; simp
            · exact List.mem_cons_of_mem _ (ih es (f :: fs) st' hm g hg)
          | panic s => rw [hm] at h; simp [R.map] at h
          | fuel => rw [hm] at h; simp [R.map] at h
        · split at h
          · cases hm : mergeStages (e :: es) fs n with
            | ok st' =>
              rw [hm] at h; simp only [R.map] at h; cases h
              intro g hg
              simp only [List.mem_cons, reduceCtorEq, false_or] at hg
              exact ih (e :: es) fs st' hm g hg
            | panic s => rw [hm] at h; simp [R.map] at h
            | fuel => rw [hm] at h; simp [R.map] at h
          · simp at h

section main
variable {ir : IRQuery} {args : List (Name × Value)} {D : Data}

theorem expandEdge_pruned (hyp : PruneHyp ir args D) (comp : Component)
    (hc : comp ∈ subComps ir.rootComponent) (e : IREdge) (he : e ∈ comp.edges) (ctxs out : List Ctx)
    (h : expandEdge (Env.ofData D args) comp e ctxs = .ok out) :
    expandEdge (envS ir args D) comp e ctxs = .ok out := by
  cases hnb : (VInfo.ofEdge e).nonBinding with
  | true => rw [expandEdge_nonbinding_pruned hyp comp hc e he hnb]; exact h
  | false =>
    cases hrec : e.recursive with
    | none => exact expandEdge_nonrec_pruned hyp comp hc e he hrec ctxs out h
    | some r =>
      have hd : r.depth - 1 = 0 := by
        simp only [VInfo.ofEdge, VInfo.nonBinding, locallyNonBindingEdge, hrec, Bool.false_eq_true,
          ↓reduceIte, Bool.or_eq_false_iff, decide_eq_false_iff_not] at hnb
        omega
      exact expandEdge_rec_pruned hyp comp hc e he r hrec hd ctxs out h

theorem runStages_pruned (hyp : PruneHyp ir args D) (fuel : Nat) (comp : Component)
    (hc : comp ∈ subComps ir.rootComponent)
    (ih : ∀ f ∈ comp.folds, ∀ ctxs out, computeComponent (Env.ofData D args) fuel f.component ctxs = .ok out →
      computeComponent (envS ir args D) fuel f.component ctxs = .ok out)
    (stages : List Stage) (hse : ∀ e, Stage.edge e ∈ stages → e ∈ comp.edges)
    (hsf : ∀ f, Stage.fold f ∈ stages → f ∈ comp.folds)
    (visited : List Vid) (ctxs out : List Ctx)
    (h : runStages (Env.ofData D args) fuel comp stages visited ctxs = .ok out) :
    runStages (envS ir args D) fuel comp stages visited ctxs = .ok out := by
  induction stages generalizing visited ctxs with
  | nil => rw [runStages.eq_1] at h ⊢; exact h
  | cons st rest ihs =>
    have hre : ∀ e, Stage.edge e ∈ rest → e ∈ comp.edges := fun e he => hse e (List.mem_cons_of_mem _ he)
    have hrf : ∀ f, Stage.fold f ∈ rest → f ∈ comp.folds := fun f hf => hsf f (List.mem_cons_of_mem _ hf)
    cases st with
    | edge e =>
      rw [runStages.eq_2] at h ⊢
      obtain ⟨v', hv', h⟩ := R_bind_ok h
      obtain ⟨c', hc', h⟩ := R_bind_ok h
      rw [hv', expandEdge_pruned hyp comp hc e (hse e (by simp)) ctxs c' hc']
      exact ihs hre hrf v' c' h
    | fold f =>
      rw [runStages.eq_3] at h ⊢
      obtain ⟨v', hv', h⟩ := R_bind_ok h
      obtain ⟨c', hc', h⟩ := R_bind_ok h
      have hf : f ∈ comp.folds := hsf f (by simp)
      rw [hv', computeFold_pruned hyp fuel comp hc f hf (ih f hf) ctxs c' hc']
      exact ihs hre hrf v' c' h

theorem computeComponent_pruned (hyp : PruneHyp ir args D) (fuel : Nat) (comp : Component)
    (hc : comp ∈ subComps ir.rootComponent) (ctxs out : List Ctx)
    (h : computeComponent (Env.ofData D args) fuel comp ctxs = .ok out) :
    computeComponent (envS ir args D) fuel comp ctxs = .ok out := by
  induction fuel generalizing comp ctxs out with
  | zero => rw [computeComponent.eq_1] at h; cases h
  | succ fuel ih =>
    rw [computeComponent.eq_2] at h ⊢
    cases hr : comp.vertex? comp.root with
    | none => simp [hr] at h
    | some rootV =>
      simp only [hr] at h ⊢
      rw [enterVertex_envS]
      obtain ⟨c1, hc1, h⟩ := R_bind_ok h
      obtain ⟨st, hst, h⟩ := R_bind_ok h
      rw [hc1, hst]
      simp only [R.bind_ok]
      exact runStages_pruned hyp fuel comp hc
        (fun f hf ctxs out => ih f.component (subComps_trans hc (subComps_of_fold hf (mem_subComps_self _))) ctxs out)
        st (mergeStages_edges _ _ _ _ hst) (mergeStages_folds _ _ _ _ hst) _ c1 out h

/-- **Pruning with the static hints of every resolution point never changes the rows.** -/
theorem interpret_pruned (hyp : PruneHyp ir args D) (rows : List Row)
    (h : interpret (Env.ofData D args) ir = .ok rows) :
    interpret (envS ir args D) ir = .ok rows := by
  unfold interpret at h ⊢
  obtain ⟨starts, hs, h⟩ := R_bind_ok h
  have hs' : starts = D.start ir.rootName ir.rootParams := by
    simpa [Env.ofData, Data.adapter] using hs.symm
  unfold interpretFrom at h
  obtain ⟨out, hout, h⟩ := R_bind_ok h
  cases hr : ir.rootComponent.vertex? ir.rootComponent.root with
  | none => simp [fuelFor, computeComponent.eq_2, hr] at hout
  | some rootV =>
    obtain ⟨hrvm, hvid⟩ := vertex?_spec hr
    have hroot := mem_subComps_self ir.rootComponent
    have hloc : locate ir ir.rootComponent.root = some (ir.rootComponent, rootV) := by
      rw [← hvid]; exact locate_of_distinct hyp.vids hroot hrvm
    let i := VInfo.resolve ir.rootComponent.root false
    have hstart : (envS ir args D).adapter.start ir.rootName ir.rootParams ir.rootComponent.root =
        .ok (starts.filter (keepB ir args D i)) := by
      simp only [envS, pruneStaticAdapter, hs']
      exact filterR_ok (fun x _ => passes_eq_keepB hyp.total i x (by simp [i, VInfo.resolve, hloc]))
    rw [hstart]
    simp only [R.bind_ok]
    unfold interpretFrom
    have hmap : ∀ l : List VertexId, (l.filter (keepB ir args D i)).map (fun v => Ctx.new (some v)) =
        (l.map fun v => Ctx.new (some v)).filter (keepCtx ir args D i) := by
      intro l
      induction l with
      | nil => rfl
      | cons n ns ih =>
        simp only [List.map_cons, List.filter_cons]
        have : keepCtx ir args D i (Ctx.new (some n)) = keepB ir args D i n := rfl
        rw [this]
        cases keepB ir args D i n
        · simpa using ih
        · simpa using ih
    rw [hmap]
    have hfilt := (computeComponent_hom (Env.ofData D args) (fuelFor ir) ir.rootComponent).filter_ok
      (keepCtx ir args D i) _ out hout (by
        intro x hx hk o2 ho2
        simp only [List.mem_map] at hx
        obtain ⟨n, hn, rfl⟩ := hx
        have hkb : keepB ir args D i n = false := hk
        have hp : passesStatic ir args D i n = .ok false := by
          rw [passes_eq_keepB hyp.total i n (by simp [i, VInfo.resolve, hloc]), hkb]
        exact computeComponent_dropped hyp (fuelFor ir) ir.rootComponent hroot i rfl _ n rfl hp
          (fun v hv => hyp.nnStart v hv n (hs' ▸ hn)) o2 ho2)
    rw [computeComponent_pruned hyp _ _ hroot _ out hfilt]
    simp only [R.bind_ok]
    have hcr : constructRow (envS ir args D) ir.rootComponent = constructRow (Env.ofData D args) ir.rootComponent :=
      funext fun c => constructRow_agree (envS_agree ir args D) ir.rootComponent c (fun _ _ => rfl)
    rw [hcr]; exact h
end main


/-! ### the hypotheses are satisfiable (and the hints of the example do prune) -/


def nvIR : IRQuery :=
  ⟨"RA", [], [("v", ⟨"Int", [false]⟩)], .mk 1
    [⟨1, "A", none, [⟨.bin .lessThan, .loc "x" ⟨"Int", [true]⟩, some (.var "v" ⟨"Int", [false]⟩)⟩]⟩,
     ⟨2, "B", none, [⟨.bin .equals, .loc "y" ⟨"Int", [true]⟩, some (.var "v" ⟨"Int", [false]⟩)⟩]⟩]
    [⟨1, 1, 2, "e", [], false, none⟩] [] [⟨"o", 1, "x", ⟨"Int", [true]⟩⟩]⟩
def nvArgs : List (Name × Value) := [("v", .int64 5)]
def nvData : Data :=
  { vertices := [⟨0, "A", [("x", .int64 1)]⟩, ⟨1, "A", [("x", .int64 9)]⟩, ⟨2, "B", [("y", .int64 5)]⟩],
    adj := [⟨0, "e", [], [2]⟩, ⟨1, "e", [], [2]⟩], starts := [⟨"RA", [], [0, 1]⟩], rx := [], sub := [] }

theorem nv_total : HintsTotal nvIR nvArgs nvData := by
  intro i x hl
  unfold passesStatic
  cases hloc : locate nvIR i.vid with
  | none => simp [hloc] at hl
  | some cv =>
    obtain ⟨c, v⟩ := cv
    simp only
    -- the located vertex is one of the two vertices of the query
    have hv : v = ⟨1, "A", none, [⟨.bin .lessThan, .loc "x" ⟨"Int", [true]⟩, some (.var "v" ⟨"Int", [false]⟩)⟩]⟩ ∨
        v = ⟨2, "B", none, [⟨.bin .equals, .loc "y" ⟨"Int", [true]⟩, some (.var "v" ⟨"Int", [false]⟩)⟩]⟩ := by
      simp only [locate, nvIR, subComps, subCompsF, locateIn, Component.vertex?, Component.vertices,
        List.find?_cons, List.find?_nil] at hloc
      split at hloc
      · rename_i v' hv'
        cases hloc
        split at hv'
        · left; cases hv'; rfl
        · split at hv'
          · right; cases hv'; rfl
          · cases hv'
      · cases hloc
    cases hnb : i.nonBinding <;> rcases hv with rfl | rfl <;>
      simp [filterSubjects, dedupNames, filterSubject, allR, staticallyRequired, hnb, filtersOn, isStaticOperand,
        staticCandidateOf, mapR, staticPiece, lookupArg, nvArgs, candidateOfStatic, rangeWithEnd, rangeNew,
        Range.new, Bound.isNullBound, Cand.isNull, R.map, R.bind, StaticPiece.cand?, StaticPiece.post?,
        subjectNullable, initialCandidate, Candidate.intersect, Candidate.intersectArm, Candidate.normalize,
        Range.nullOnly, Range.degenerate, Bound.beq, Range.beq, Range.full]

theorem nv_subComps : subComps nvIR.rootComponent = [nvIR.rootComponent] := rfl

theorem nv_hyp : PruneHyp nvIR nvArgs nvData where
  vids := by decide
  eids := by decide
  foldRoots := by
    intro c hc f hf
    rw [nv_subComps] at hc; simp only [List.mem_singleton] at hc; subst hc
    simp [nvIR, Component.folds] at hf
  total := nv_total
  nnStart := by
    intro v hv x _ f hf p _ hn
    simp only [nvIR, Component.vertex?, Component.vertices, Component.root, List.find?_cons] at hv
    simp at hv; subst hv
    simp at hf; subst hf
    simp [subjectNullable] at hn
  nnEdge := by
    intro c hc e he v hv y x _ f hf p _ hn
    rw [nv_subComps] at hc; simp only [List.mem_singleton] at hc; subst hc
    simp [nvIR, Component.edges] at he; subst he
    simp only [nvIR, Component.vertex?, Component.vertices, List.find?_cons] at hv
    simp at hv; subst hv
    simp at hf; subst hf
    simp [subjectNullable] at hn
  nnFold := by
    intro c hc f hf
    rw [nv_subComps] at hc; simp only [List.mem_singleton] at hc; subst hc
    simp [nvIR, Component.folds] at hf

/-- the hints of this query do prune: the starting vertex with `x = 9` is dropped at the root -/
example : keepB nvIR nvArgs nvData (VInfo.resolve 1 false) 1 = false ∧
    keepB nvIR nvArgs nvData (VInfo.resolve 1 false) 0 = true := by decide

end TF.Engine
