/-
Global half of C04: the table adapter that discards vertices outside the static candidates of the
hint object of each resolution point returns the same rows (`Props/C04.lean`).
-/
import TrustfallModel.Proofs.Hints
import TrustfallModel.Proofs.HintsSound

namespace TF.Engine
open TF

end TF.Engine
