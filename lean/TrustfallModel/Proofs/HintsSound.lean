/-
Local soundness of the candidate values the query hints report (C04, `Props/C04.lean`): every value
that passes a filter is a member of the candidate the hints build for that filter.
-/
import TrustfallModel.Model.Hints
import TrustfallModel.Proofs.Candidates
import TrustfallModel.Proofs.Filter

namespace TF.Engine
open TF Value Cand Candidate Filter

/-- An ordering comparison that answers `true` compared two integers, two floats or two strings. -/
theorem cmpFn_true_kind (op : CmpOp) (l r : Value) (h : cmpFn op l r = .ok true) :
    SameOrderableKind l r := by
  cases l <;> cases r <;> cases op <;>
    simp [cmpFn, greaterThan, greaterThanOrEqual, lessThan, lessThanOrEqual, comparisonOp,
      slowPathGreater, slowPathLess, SameOrderableKind] at h ⊢

theorem cmpFn_true_cmp (op : CmpOp) (l r : Value) (h : cmpFn op l r = .ok true) :
    op.onOrdering (Value.cmp l r) = true ∧ Cand.isNull l = false ∧ Cand.isNull r = false := by
  have hk := cmpFn_true_kind op l r h
  rw [cmpFn_eq_cmp op l r hk] at h
  refine ⟨by simpa using h, ?_, ?_⟩
  · cases l <;> cases r <;> simp [SameOrderableKind] at hk <;> rfl
  · cases l <;> cases r <;> simp [SameOrderableKind] at hk <;> rfl

theorem rangeNew_ok {s e : Bound} {n : Bool} {r : Range} (h : rangeNew s e n = .ok r) :
    r = ⟨s, e, n⟩ ∧ s.isNullBound = false ∧ e.isNullBound = false := by
  unfold rangeNew Range.new at h
  cases hs : s.isNullBound <;> cases he : e.isNullBound <;> simp [hs, he] at h
  exact ⟨h.symm, rfl, rfl⟩

theorem oneOfLoop_containsV (x : Value) (vs : List Value) : oneOfLoop x vs = containsV vs x := by
  rw [oneOfLoop_eq_any]
  unfold containsV
  congr 1; funext a
  show Value.beq x a = Value.beq a x
  exact beq_comm x a

theorem R_map_ok {α β : Type} {f : α → β} {r : R α} {b : β} (h : r.map f = .ok b) :
    ∃ a, r = .ok a ∧ f a = b := by
  cases r with
  | ok a => exact ⟨a, rfl, by simpa [R.map] using h⟩
  | panic s => simp [R.map] at h
  | fuel => simp [R.map] at h

/-- **Local soundness, static operand.** A property value `x` that passes the filter `x op a`
(`a` the value of a query variable) is a member of the candidate `filters.rs` builds for `op a`;
that candidate satisfies the `Range::new` invariant. -/
theorem candidateOfStatic_sound (rx : RegexEngine) (o : BinOp) (x a : Value) (c : Candidate)
    (hf : applyStatic rx o x a = .ok true) (hc : candidateOfStatic o a = .ok (some c)) :
    c.mem x = true := by
  cases o <;> simp only [candidateOfStatic] at hc
  case equals =>
    cases hc
    simp only [applyStatic, equalsOp, Outcome.ok.injEq, equals_eq_beq] at hf
    simpa [Candidate.mem, beq_comm] using hf
  case notEquals =>
    split at hc <;> cases hc
    rename_i hn
    simp only [applyStatic, notOp, equalsOp, Outcome.map, Outcome.ok.injEq, equals_eq_beq,
      Bool.not_eq_true'] at hf
    have : a = .null := by cases a <;> simp [Cand.isNull] at hn; rfl
    subst this
    rw [beq_null_right] at hf
    simp [Candidate.mem, Range.contains, Range.fullNonNull, hf, Bound.startOk, Bound.endOk]
  case lessThan =>
    obtain ⟨r, hr, hc⟩ := R_map_ok hc
    cases hc
    obtain ⟨rfl, -, -⟩ := rangeNew_ok hr
    have := cmpFn_true_cmp .lt x a hf
    simp [Candidate.mem, Range.contains, this.2.1, Bound.startOk, Bound.endOk, Cand.lt]
    simpa [CmpOp.onOrdering] using this.1
  case lessThanOrEqual =>
    obtain ⟨r, hr, hc⟩ := R_map_ok hc
    cases hc
    obtain ⟨rfl, -, -⟩ := rangeNew_ok hr
    have := cmpFn_true_cmp .le x a hf
    simp [Candidate.mem, Range.contains, this.2.1, Bound.startOk, Bound.endOk, Cand.le]
    simpa [CmpOp.onOrdering] using this.1
  case greaterThan =>
    obtain ⟨r, hr, hc⟩ := R_map_ok hc
    cases hc
    obtain ⟨rfl, -, -⟩ := rangeNew_ok hr
    have := cmpFn_true_cmp .gt x a hf
    have hsw := cmp_swap a x
    simp [Candidate.mem, Range.contains, this.2.1, Bound.startOk, Bound.endOk, Cand.lt]
    have h1 : Value.cmp x a = .gt := by simpa [CmpOp.onOrdering] using this.1
    rw [hsw, h1]; rfl
  case greaterThanOrEqual =>
    obtain ⟨r, hr, hc⟩ := R_map_ok hc
    cases hc
    obtain ⟨rfl, -, -⟩ := rangeNew_ok hr
    have := cmpFn_true_cmp .ge x a hf
    have hsw := cmp_swap a x
    simp [Candidate.mem, Range.contains, this.2.1, Bound.startOk, Bound.endOk, Cand.le]
    have h1 : Value.cmp x a ≠ .lt := by simpa [CmpOp.onOrdering] using this.1
    rw [hsw]
    cases hcx : Value.cmp x a <;> simp_all [Ordering.swap]
  case oneOf =>
    cases a <;> simp at hc
    cases hc
    simp only [applyStatic, Filter.oneOf, Outcome.ok.injEq] at hf
    simpa [Candidate.mem, oneOfLoop_containsV] using hf
  all_goals simp at hc

theorem candidateOfStatic_wf (o : BinOp) (a : Value) (c : Candidate)
    (hc : candidateOfStatic o a = .ok (some c)) : c.wf = true := by
  cases o <;> simp only [candidateOfStatic] at hc
  case equals => cases hc; rfl
  case notEquals => split at hc <;> cases hc; rfl
  case oneOf => cases a <;> simp at hc; cases hc; rfl
  case lessThan =>
    obtain ⟨r, hr, hc⟩ := R_map_ok hc; cases hc
    obtain ⟨rfl, h1, h2⟩ := rangeNew_ok hr; simp [Candidate.wf, h1, h2]
  case lessThanOrEqual =>
    obtain ⟨r, hr, hc⟩ := R_map_ok hc; cases hc
    obtain ⟨rfl, h1, h2⟩ := rangeNew_ok hr; simp [Candidate.wf, h1, h2]
  case greaterThan =>
    obtain ⟨r, hr, hc⟩ := R_map_ok hc; cases hc
    obtain ⟨rfl, h1, h2⟩ := rangeNew_ok hr; simp [Candidate.wf, h1, h2]
  case greaterThanOrEqual =>
    obtain ⟨r, hr, hc⟩ := R_map_ok hc; cases hc
    obtain ⟨rfl, h1, h2⟩ := rangeNew_ok hr; simp [Candidate.wf, h1, h2]
  all_goals simp at hc

/-- The engine's verdict on filter `f` for the property value `x`, as far as it is known
statically: unary filters and filters whose operand is a query variable. -/
def StaticFilterPasses (rx : RegexEngine) (args : List (Name × Value)) (f : IRFilter) (x : Value) : Prop :=
  match f.op, f.right with
  | .un o, _ => applyUnary o x = true
  | .bin o, some (.var n _) => ∃ a, lookupArg args n = .ok a ∧ applyStatic rx o x a = .ok true
  | .bin _, _ => True

theorem R_bind_ok {α β : Type} {r : R α} {f : α → R β} {b : β} (h : r.bind f = .ok b) :
    ∃ a, r = .ok a ∧ f a = .ok b := by
  cases r with
  | ok a => exact ⟨a, rfl, h⟩
  | panic s => simp [R.bind] at h
  | fuel => simp [R.bind] at h

theorem staticPiece_sound (rx : RegexEngine) (args : List (Name × Value)) (f : IRFilter) (x : Value)
    (c : Candidate) (hp : staticPiece args f = .ok (.cand c)) (hf : StaticFilterPasses rx args f x) :
    c.mem x = true ∧ c.wf = true := by
  obtain ⟨op, left, right⟩ := f
  cases op with
  | un o =>
    cases o <;> simp only [staticPiece] at hp <;> cases hp <;>
      simp only [StaticFilterPasses, applyUnary] at hf
    · cases x <;> simp [Filter.isNull] at hf
      exact ⟨rfl, rfl⟩
    · cases x <;> simp [Filter.isNull] at hf <;> exact ⟨rfl, rfl⟩
  | bin o =>
    cases right with
    | none => simp [staticPiece] at hp
    | some a =>
      cases a with
      | tag r => simp [staticPiece] at hp
      | var n t =>
        simp only [staticPiece] at hp
        obtain ⟨value, hv, hp⟩ := R_bind_ok hp
        obtain ⟨oc, hoc, hp⟩ := R_map_ok hp
        cases oc with
        | none => simp at hp
        | some c' =>
          simp only [StaticPiece.cand.injEq] at hp
          subst hp
          simp only [StaticFilterPasses] at hf
          obtain ⟨a, ha, hf⟩ := hf
          rw [hv] at ha; cases ha
          exact ⟨candidateOfStatic_sound rx o x value c' hf hoc, candidateOfStatic_wf o value c' hoc⟩

theorem mapR_ok_mem {α β : Type} {f : α → R β} {l : List α} {ys : List β} (h : mapR f l = .ok ys) :
    ∀ y ∈ ys, ∃ x ∈ l, f x = .ok y := by
  induction l generalizing ys with
  | nil => simp [mapR] at h; subst h; simp
  | cons x xs ih =>
    simp only [mapR] at h
    cases hx : f x with
    | ok y0 =>
      rw [hx] at h
      cases hxs : mapR f xs with
      | ok ys0 =>
        rw [hxs] at h; simp at h; subst h
        intro y hy
        rcases List.mem_cons.mp hy with rfl | hy
        · exact ⟨x, by simp, hx⟩
        · obtain ⟨x', hx', hfx⟩ := ih hxs y hy
          exact ⟨x', by simp [hx'], hfx⟩
      | panic s => rw [hxs] at h; simp at h
      | fuel => rw [hxs] at h; simp at h
    | panic s => rw [hx] at h; simp at h
    | fuel => rw [hx] at h; simp at h

theorem flatMapR_ok_mem {α β : Type} {f : α → R (List β)} {l : List α} {zs : List β}
    (h : flatMapR f l = .ok zs) : ∀ z ∈ zs, ∃ x ∈ l, ∃ ys, f x = .ok ys ∧ z ∈ ys := by
  induction l generalizing zs with
  | nil => simp [flatMapR] at h; subst h; simp
  | cons x xs ih =>
    simp only [flatMapR] at h
    cases hx : f x with
    | ok y0 =>
      rw [hx] at h
      cases hxs : flatMapR f xs with
      | ok ys0 =>
        rw [hxs] at h; simp at h; subst h
        intro z hz
        rcases List.mem_append.mp hz with hz | hz
        · exact ⟨x, by simp, y0, hx, hz⟩
        · obtain ⟨x', hx', ys, hfx, hzy⟩ := ih hxs z hz
          exact ⟨x', by simp [hx'], ys, hfx, hzy⟩
      | panic s => rw [hxs] at h; simp at h
      | fuel => rw [hxs] at h; simp at h
    | panic s => rw [hx] at h; simp at h
    | fuel => rw [hx] at h; simp at h

theorem foldl_intersect_sound (x : Value) (cs : List Candidate) (init : Candidate)
    (hi : init.mem x = true ∧ init.wf = true) (hcs : ∀ c ∈ cs, c.mem x = true ∧ c.wf = true) :
    (cs.foldl Candidate.intersect init).mem x = true ∧ (cs.foldl Candidate.intersect init).wf = true := by
  induction cs generalizing init with
  | nil => exact hi
  | cons c cs ih =>
    simp only [List.foldl_cons]
    apply ih
    · have hc := hcs c (by simp)
      refine ⟨?_, wf_intersect' init c hi.2 hc.2⟩
      rw [mem_intersect' init c x hi.2 hc.2, hi.1, hc.1]; rfl
    · intro c' hc'; exact hcs c' (by simp [hc'])

theorem foldl_exclude_sound (x : Value) (ds : List Value) (c : Candidate)
    (hc : c.mem x = true ∧ c.wf = true) (hds : ∀ d ∈ ds, Value.beq x d = false) :
    (ds.foldl Candidate.exclude c).mem x = true ∧ (ds.foldl Candidate.exclude c).wf = true := by
  induction ds generalizing c with
  | nil => exact hc
  | cons d ds ih =>
    simp only [List.foldl_cons]
    apply ih
    · exact ⟨exclude_keeps' c d x hc.2 hc.1 (hds d (by simp)), wf_exclude' c d hc.2⟩
    · intro d' hd'; exact hds d' (by simp [hd'])

theorem disallowed_not_eq (rx : RegexEngine) (args : List (Name × Value)) (f : IRFilter) (x : Value)
    (ds : List Value) (hd : disallowedOf args f = .ok ds) (hf : StaticFilterPasses rx args f x) :
    ∀ d ∈ ds, Value.beq x d = false := by
  obtain ⟨op, left, right⟩ := f
  cases right with
  | none => simp [disallowedOf] at hd; subst hd; simp
  | some a =>
    cases a with
    | tag r => simp [disallowedOf] at hd; subst hd; simp
    | var n t =>
      simp only [disallowedOf] at hd
      obtain ⟨value, hv, hd⟩ := R_bind_ok hd
      cases op with
      | un o => simp at hd; subst hd; simp
      | bin o =>
        simp only [StaticFilterPasses] at hf
        obtain ⟨a, ha, hf⟩ := hf
        rw [hv] at ha; cases ha
        cases o <;> simp at hd
        case notEquals =>
          subst hd
          simp only [applyStatic, notOp, equalsOp, Outcome.map, Outcome.ok.injEq, equals_eq_beq,
            Bool.not_eq_true'] at hf
          simpa using hf
        case notOneOf =>
          cases value <;> simp at hd
          subst hd
          rename_i vs
          simp only [applyStatic, notOp, Filter.oneOf, Outcome.map, Outcome.ok.injEq,
            Bool.not_eq_true', oneOfLoop_eq_any, List.any_eq_false] at hf
          intro d hd
          have := hf d hd
          simpa [BEq.beq] using this
        all_goals (subst hd; simp)

/-- **Local soundness of `candidate_from_statically_evaluated_filters`.** A value that passes every
unary / variable-operand filter of the list (and is non-null when the subject is non-nullable) is a
member of the candidate computed from the list. -/
theorem staticCandidateOf_sound (rx : RegexEngine) (args : List (Name × Value)) (nullable : Bool)
    (fs : List IRFilter) (x : Value) (c : Candidate)
    (hc : staticCandidateOf args nullable fs = .ok (some c))
    (hf : ∀ f ∈ fs, StaticFilterPasses rx args f x)
    (hn : nullable = false → Cand.isNull x = false) :
    c.mem x = true ∧ c.wf = true := by
  unfold staticCandidateOf at hc
  obtain ⟨pieces, hp, hc⟩ := R_bind_ok hc
  have hpieces := mapR_ok_mem hp
  have hcands : ∀ c' ∈ pieces.filterMap StaticPiece.cand?, c'.mem x = true ∧ c'.wf = true := by
    intro c' hc'
    obtain ⟨pc, hpc, hpc'⟩ := List.mem_filterMap.mp hc'
    cases pc with
    | post f => simp [StaticPiece.cand?] at hpc'
    | cand c0 =>
      simp only [StaticPiece.cand?, Option.some.injEq] at hpc'
      subst hpc'
      obtain ⟨f, hfm, hfp⟩ := hpieces _ hpc
      exact staticPiece_sound rx args f x c0 hfp (hf f hfm)
  have hinit : (initialCandidate nullable).mem x = true ∧ (initialCandidate nullable).wf = true := by
    cases nullable
    · have := hn rfl
      simp [initialCandidate, Candidate.mem, Range.contains, Range.fullNonNull, this, Bound.startOk,
        Bound.endOk, Candidate.wf, Bound.isNullBound]
    · simp [initialCandidate, Candidate.mem, Candidate.wf]
  have hfold := foldl_intersect_sound x _ _ hinit hcands
  have hnorm : ((pieces.filterMap StaticPiece.cand?).foldl Candidate.intersect (initialCandidate nullable)).normalize.mem x = true ∧
      ((pieces.filterMap StaticPiece.cand?).foldl Candidate.intersect (initialCandidate nullable)).normalize.wf = true :=
    ⟨by rw [mem_normalize' _ x hfold.2]; exact hfold.1, wf_normalize' _ hfold.2⟩
  simp only [] at hc
  split at hc
  · simp at hc
  · split at hc
    · simp only [R.ok.injEq, Option.some.injEq] at hc
      subst hc; exact hnorm
    · obtain ⟨ds, hds, hc⟩ := R_map_ok hc
      simp only [Option.some.injEq] at hc
      subst hc
      apply foldl_exclude_sound x ds _ hnorm
      intro d hd
      obtain ⟨f, hfm, ys, hfy, hdy⟩ := flatMapR_ok_mem hds d hd
      obtain ⟨pc, hpc, hpc'⟩ := List.mem_filterMap.mp hfm
      cases pc with
      | cand c0 => simp [StaticPiece.post?] at hpc'
      | post f0 =>
        simp only [StaticPiece.post?, Option.some.injEq] at hpc'
        subst hpc'
        obtain ⟨f', hfm', hfp'⟩ := hpieces _ hpc
        -- the post piece carries its own filter
        have : f' = f0 := by
          obtain ⟨op, left, right⟩ := f'
          cases op with
          | un o => cases o <;> simp [staticPiece] at hfp'
          | bin o =>
            cases right with
            | none => simp [staticPiece] at hfp'; exact hfp'
            | some a =>
              cases a with
              | tag r => simp [staticPiece] at hfp'; exact hfp'
              | var n t =>
                simp only [staticPiece] at hfp'
                obtain ⟨value, hv, hfp'⟩ := R_bind_ok hfp'
                obtain ⟨oc, hoc, hfp'⟩ := R_map_ok hfp'
                cases oc <;> simp at hfp'
                exact hfp'
        subst this
        exact disallowed_not_eq rx args f' x ys hfy (hf f' hfm') d hdy



theorem mem_range_intersect (initial : Candidate) (r : Range) (x : Value)
    (hi : initial.mem x = true ∧ initial.wf = true) (hr : (Candidate.range r).mem x = true)
    (hw : (Candidate.range r).wf = true) :
    (initial.intersect (.range r)).mem x = true ∧ (initial.intersect (.range r)).wf = true := by
  refine ⟨?_, wf_intersect' _ _ hi.2 hw⟩
  rw [mem_intersect' _ _ x hi.2 hw, hi.1, hr]; rfl

theorem rangeCandidateOfTag_ok {ni : Bool} {v : Value} {mk : R Range} {initial c : Candidate}
    (h : rangeCandidateOfTag ni v mk initial = .ok c) (hv : Cand.isNull v = false) :
    mk.map (fun r => initial.intersect (.range r)) = .ok c := by
  simpa [rangeCandidateOfTag, hv] using h

/-- **Local soundness, tag operand** — every operator except `>=`.  A property value that passes
`x op tagValue` and is a member of the initial candidate is a member of the candidate that
`compute_candidate_from_operation` / `resolve_fold_specific_field` build for the tag value; a tag
from an `@optional` scope that does not exist leaves the initial candidate. -/
theorem candidateOfTag_sound_partial (rx : RegexEngine) (ni : Bool) (o : BinOp) (x : Value)
    (t : Tagged) (initial c : Candidate)
    (hge : o ≠ .greaterThanOrEqual)
    (hi : initial.mem x = true ∧ initial.wf = true)
    (hf : ∀ v, t = .some v → applyTagged rx o x v = .ok true)
    (hc : candidateOfTag ni o t initial = .ok c) :
    c.mem x = true ∧ c.wf = true := by
  cases t with
  | nonexistent => simp [candidateOfTag] at hc; subst hc; exact hi
  | some v =>
    have hf := hf v rfl
    cases o <;> simp only [candidateOfTag] at hc
    case greaterThanOrEqual => exact absurd rfl hge
    case equals =>
      cases hc
      have hm : (Candidate.single v).mem x = true := by
        simp only [applyTagged, equalsOp, Outcome.ok.injEq, equals_eq_beq] at hf
        simpa [Candidate.mem, beq_comm] using hf
      refine ⟨?_, wf_intersect' _ _ hi.2 rfl⟩
      rw [mem_intersect' _ _ x hi.2 rfl, hi.1, hm]; rfl
    case notEquals =>
      cases hc
      simp only [applyTagged, notOp, equalsOp, Outcome.map, Outcome.ok.injEq, equals_eq_beq,
        Bool.not_eq_true'] at hf
      exact ⟨exclude_keeps' _ v x hi.2 hi.1 hf, wf_exclude' _ v hi.2⟩
    case lessThan =>
      obtain ⟨r, hr, hc⟩ := R_map_ok (rangeCandidateOfTag_ok hc (cmpFn_true_cmp .lt x v hf).2.2); cases hc
      obtain ⟨rfl, h1, h2⟩ := rangeNew_ok hr
      have := cmpFn_true_cmp .lt x v hf
      apply mem_range_intersect _ _ _ hi
      · simp [Candidate.mem, Range.contains, this.2.1, Bound.startOk, Bound.endOk, Cand.lt]
        simpa [CmpOp.onOrdering] using this.1
      · simp [Candidate.wf, h1, h2]
    case lessThanOrEqual =>
      obtain ⟨r, hr, hc⟩ := R_map_ok (rangeCandidateOfTag_ok hc (cmpFn_true_cmp .le x v hf).2.2); cases hc
      obtain ⟨rfl, h1, h2⟩ := rangeNew_ok hr
      have := cmpFn_true_cmp .le x v hf
      apply mem_range_intersect _ _ _ hi
      · simp [Candidate.mem, Range.contains, this.2.1, Bound.startOk, Bound.endOk, Cand.le]
        simpa [CmpOp.onOrdering] using this.1
      · simp [Candidate.wf, h1, h2]
    case greaterThan =>
      obtain ⟨r, hr, hc⟩ := R_map_ok (rangeCandidateOfTag_ok hc (cmpFn_true_cmp .gt x v hf).2.2); cases hc
      obtain ⟨rfl, h1, h2⟩ := rangeNew_ok hr
      have := cmpFn_true_cmp .gt x v hf
      apply mem_range_intersect _ _ _ hi
      · have hsw := cmp_swap v x
        simp [Candidate.mem, Range.contains, this.2.1, Bound.startOk, Bound.endOk, Cand.lt]
        have h1 : Value.cmp x v = .gt := by simpa [CmpOp.onOrdering] using this.1
        rw [hsw, h1]; rfl
      · simp [Candidate.wf, h1, h2]
    case oneOf =>
      cases v <;> simp at hc
      · simp [applyTagged, Filter.oneOf] at hf
      cases hc
      rename_i vs _
      have hm : (Candidate.multiple vs).mem x = true := by
        simp only [applyTagged, Filter.oneOf, Outcome.ok.injEq] at hf
        simpa [Candidate.mem, oneOfLoop_containsV] using hf
      refine ⟨?_, wf_intersect' _ _ hi.2 rfl⟩
      rw [mem_intersect' _ _ x hi.2 rfl, hi.1, hm]; rfl
    all_goals simp at hc

/-- The repaired `>=` arm (`Range::with_start(Bound::Included(value), ..)`) is sound. -/
theorem candidateOfTagFixedGe_sound (ni : Bool) (x v : Value) (initial c : Candidate)
    (hi : initial.mem x = true ∧ initial.wf = true)
    (hf : greaterThanOrEqual x v = .ok true)
    (hc : candidateOfTagFixedGe ni v initial = .ok c) :
    c.mem x = true ∧ c.wf = true := by
  simp only [candidateOfTagFixedGe] at hc
  obtain ⟨r, hr, hc⟩ := R_map_ok hc; cases hc
  obtain ⟨rfl, h1, h2⟩ := rangeNew_ok hr
  have := cmpFn_true_cmp .ge x v hf
  apply mem_range_intersect _ _ _ hi
  · have hsw := cmp_swap v x
    simp [Candidate.mem, Range.contains, this.2.1, Bound.startOk, Bound.endOk, Cand.le]
    have h1 : Value.cmp x v ≠ .lt := by simpa [CmpOp.onOrdering] using this.1
    rw [hsw]
    cases hcx : Value.cmp x v <;> simp_all [Ordering.swap]
  · simp [Candidate.wf, h1, h2]



theorem asU64_some {x : Value} {k : Nat} (h : asU64 x = some k) : cls x = 1 ∧ num x = (k : Int) := by
  cases x with
  | int64 i =>
    have h' : (if 0 ≤ i.toInt then some i.toInt.toNat else none) = some k := h
    by_cases h0 : 0 ≤ i.toInt
    · rw [if_pos h0] at h'
      cases h'
      exact ⟨rfl, (Int.toNat_of_nonneg h0).symm⟩
    · rw [if_neg h0] at h'; cases h'
  | uint64 u =>
    have h' : some u.toNat = some k := h
    cases h'; exact ⟨rfl, rfl⟩
  | _ => simp [asU64] at h

theorem cmp_uint_of_asU64 {x : Value} {k : Nat} (h : asU64 x = some k) (u : UInt64) :
    Value.cmp x (.uint64 u) = compare (k : Int) (u.toNat : Int) := by
  obtain ⟨hc, hn⟩ := asU64_some h
  rw [cmp_int hc rfl, hn]; rfl

theorem count_ge_one_of_beq {x : Value} (hx : (asU64 x).getD 0 ≥ 1) (u : UInt64)
    (hb : Value.beq x (.uint64 u) = true) : 1 ≤ u.toNat := by
  cases hk : asU64 x with
  | none => simp [hk] at hx
  | some k =>
    simp only [hk, Option.getD_some] at hx
    rw [beq_eq_cmp, cmp_uint_of_asU64 hk u] at hb
    have : (k : Int) = u.toNat := by
      have := (beq_ordering_eq_iff _).mp hb
      exact Int.compare_eq_eq.mp this
    omega

theorem count_ge_one_of_le {x : Value} (hx : (asU64 x).getD 0 ≥ 1) (u : UInt64)
    (hb : Cand.le x (.uint64 u) = true) : 1 ≤ u.toNat := by
  cases hk : asU64 x with
  | none => simp [hk] at hx
  | some k =>
    simp only [hk, Option.getD_some] at hx
    simp only [Cand.le, cmp_uint_of_asU64 hk u] at hb
    rcases Int.lt_trichotomy (k : Int) (u.toNat : Int) with h | h | h
    · omega
    · omega
    · rw [Int.compare_eq_gt.mpr h] at hb; simp at hb

theorem count_ge_one_of_lt {x : Value} (hx : (asU64 x).isSome = true) (u : UInt64)
    (hb : Cand.lt x (.uint64 u) = true) : 1 ≤ u.toNat := by
  cases hk : asU64 x with
  | none => simp [hk] at hx
  | some k =>
    simp only [Cand.lt, cmp_uint_of_asU64 hk u] at hb
    have : (k : Int) < u.toNat := Int.compare_eq_lt.mp (by simpa using hb)
    omega

/-- **`fold_requires_at_least_one_element` is sound**: when it answers `true`, every fold count that
passes the fold's (unary / variable-operand) count filters is at least 1. -/
theorem foldRequiresAtLeastOne_sound (rx : RegexEngine) (args : List (Name × Value))
    (post : List IRFilter) (u : UInt64)
    (h : foldRequiresAtLeastOne args post = .ok true)
    (hf : ∀ f ∈ post, StaticFilterPasses rx args f (.uint64 u)) : 1 ≤ u.toNat := by
  unfold foldRequiresAtLeastOne at h
  obtain ⟨oc, hoc, h⟩ := R_map_ok h
  cases oc with
  | none => simp at h
  | some c =>
    have hs := (staticCandidateOf_sound rx args false post (.uint64 u) c hoc hf (fun _ => rfl)).1
    cases c with
    | impossible => simp at h
    | all => simp at h
    | single x =>
      simp only [decide_eq_true_eq] at h
      exact count_ge_one_of_beq h u (by simpa [Candidate.mem] using hs)
    | multiple xs =>
      simp only [List.all_eq_true, decide_eq_true_eq] at h
      simp only [Candidate.mem, containsV, List.any_eq_true] at hs
      obtain ⟨e, he, hb⟩ := hs
      exact count_ge_one_of_beq (h e he) u hb
    | range r =>
      simp only [Candidate.mem, Range.contains, Cand.isNull, Bool.false_eq_true, ↓reduceIte,
        Bool.and_eq_true] at hs
      cases hst : r.start with
      | unbounded => simp [hst] at h
      | included x =>
        simp only [hst, decide_eq_true_eq] at h
        exact count_ge_one_of_le h u (by simpa [hst, Bound.startOk] using hs.1)
      | excluded x =>
        simp only [hst] at h
        exact count_ge_one_of_lt h u (by simpa [hst, Bound.startOk] using hs.1)


theorem staticallyRequired_sound (rx : RegexEngine) (args : List (Name × Value)) (i : VInfo)
    (v : IRVertex) (p : Name) (x : Value) (c : Candidate)
    (hc : staticallyRequired args i v p = .ok (some c))
    (hf : ∀ f ∈ v.filters, filterSubject f = some p → StaticFilterPasses rx args f x)
    (hn : ∀ f ∈ v.filters, filterSubject f = some p → subjectNullable f = false → Cand.isNull x = false) :
    c.mem x = true ∧ c.wf = true := by
  unfold staticallyRequired at hc
  split at hc
  · simp at hc
  · split at hc
    · simp at hc
    · rename_i f0 rest hfs
      obtain ⟨oc, hoc, hc⟩ := R_bind_ok hc
      have hmem : ∀ f ∈ f0 :: rest, f ∈ v.filters ∧ filterSubject f = some p := by
        intro f hfm
        rw [← hfs] at hfm
        have h1 := (List.mem_filter.mp hfm).1
        have h2 := List.mem_filter.mp h1
        exact ⟨h2.1, by simpa using h2.2⟩
      have hoc' : oc = some c := by
        split at hc
        · split at hc
          · simp at hc
          · simpa using hc
        · simpa using hc
      subst hoc'
      apply staticCandidateOf_sound rx args (subjectNullable f0) (f0 :: rest) x c hoc
      · intro f hfm; exact hf f (hmem f hfm).1 (hmem f hfm).2
      · intro hnull; exact hn f0 (hmem f0 (by simp)).1 (hmem f0 (by simp)).2 hnull

end TF.Engine
