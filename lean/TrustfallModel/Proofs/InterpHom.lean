/-
The list-level interpreter is a *list homomorphism* over its input contexts: every stage is a
`map` / `filterMap` / `flatMap` of a per-context function (folds materialise only per context), so
running a pipeline on `xs ++ ys` succeeds exactly when it succeeds on `xs` and on `ys`, and then
yields the two results appended.  This is the extensional core of laziness (C03) and of
independence from batching (C02).  Failures (panic sites, fuel) are identified: `toOption`.
-/
import TrustfallModel.Model.Interp
namespace TF.Engine
def R.toOption {α : Type} : R α → Option α
  | .ok a => some a
  | _ => none
@[simp] theorem R.toOption_ok {α} (a : α) : (R.ok a).toOption = some a := rfl
@[simp] theorem R.toOption_panic {α} (s) : (R.panic s : R α).toOption = none := rfl
@[simp] theorem R.toOption_fuel {α} : (R.fuel : R α).toOption = none := rfl
@[simp] theorem R.bind_ok {α β} (a : α) (f : α → R β) : (R.ok a).bind f = f a := rfl
@[simp] theorem R.bind_panic {α β} (s) (f : α → R β) : (R.panic s).bind f = .panic s := rfl
@[simp] theorem R.bind_fuel {α β} (f : α → R β) : (R.fuel).bind f = .fuel := rfl
def Hom {α β : Type} (S : List α → R (List β)) : Prop :=
  ∀ xs ys, (S (xs ++ ys)).toOption =
    (S xs).toOption.bind fun a => (S ys).toOption.map fun b => a ++ b

theorem mapR_hom {α β : Type} (f : α → R β) : Hom (mapR f) := by
  intro xs ys
  induction xs with
  | nil => cases h : mapR f ys <;> simp [mapR, h]
  | cons x xs ih =>
    simp only [List.cons_append, mapR]
    cases f x <;> simp
    revert ih
    cases mapR f (xs ++ ys) <;> cases mapR f xs <;> cases mapR f ys <;> simp

theorem filterMapR_hom {α β : Type} (f : α → R (Option β)) : Hom (filterMapR f) := by
  intro xs ys
  induction xs with
  | nil => cases h : filterMapR f ys <;> simp [filterMapR, h]
  | cons x xs ih =>
    simp only [List.cons_append, filterMapR]
    cases hx : f x <;> simp
    revert ih
    cases filterMapR f (xs ++ ys) <;> cases filterMapR f xs <;> cases filterMapR f ys <;> simp
    intro h; subst h
    rename_i o _ _
    cases o <;> simp

theorem flatMapR_hom {α β : Type} (f : α → R (List β)) : Hom (flatMapR f) := by
  intro xs ys
  induction xs with
  | nil => cases h : flatMapR f ys <;> simp [flatMapR, h]
  | cons x xs ih =>
    simp only [List.cons_append, flatMapR]
    cases f x <;> simp
    revert ih
    cases flatMapR f (xs ++ ys) <;> cases flatMapR f xs <;> cases flatMapR f ys <;> simp

/-- A total per-list function that is a list homomorphism (map / filter / flatMap). -/
theorem pure_hom {α β : Type} (g : List α → List β) (hg : ∀ xs ys, g (xs ++ ys) = g xs ++ g ys) :
    Hom (fun l => R.ok (g l)) := by
  intro xs ys; simp [hg]

theorem Hom.bind {α β γ : Type} {S : List α → R (List β)} {T : List β → R (List γ)}
    (hS : Hom S) (hT : Hom T) : Hom (fun l => (S l).bind T) := by
  intro xs ys
  have h := hS xs ys
  show ((S (xs ++ ys)).bind T).toOption = ((S xs).bind T).toOption.bind fun a => ((S ys).bind T).toOption.map fun b => a ++ b
  revert h
  cases hx : S xs <;> cases hy : S ys <;> cases hxy : S (xs ++ ys) <;> simp
  · intro h; subst h; exact hT _ _
  all_goals (cases T _ <;> simp)
end TF.Engine
