/-
The list-level interpreter is a *list homomorphism* over its input contexts: every stage is a
`map` / `filterMap` / `flatMap` of a per-context function (folds materialise only per context), so
running a pipeline on `xs ++ ys` succeeds exactly when it succeeds on `xs` and on `ys`, and then
yields the two results appended.  This is the extensional core of laziness (C03) and of
independence from batching (C02).  Failures (panic sites, fuel) are identified: `toOption`.
-/
import TrustfallModel.Model.Interp
namespace TF.Engine
def R.toOption {α : Type} : R α → Option α
  | .ok a => some a
  | _ => none
@[simp] theorem R.toOption_ok {α} (a : α) : (R.ok a).toOption = some a := rfl
@[simp] theorem R.toOption_panic {α} (s) : (R.panic s : R α).toOption = none := rfl
@[simp] theorem R.toOption_fuel {α} : (R.fuel : R α).toOption = none := rfl
@[simp] theorem R.bind_ok {α β} (a : α) (f : α → R β) : (R.ok a).bind f = f a := rfl
@[simp] theorem R.bind_panic {α β} (s) (f : α → R β) : (R.panic s).bind f = .panic s := rfl
@[simp] theorem R.bind_fuel {α β} (f : α → R β) : (R.fuel).bind f = .fuel := rfl
def Hom {α β : Type} (S : List α → R (List β)) : Prop :=
  ∀ xs ys, (S (xs ++ ys)).toOption =
    (S xs).toOption.bind fun a => (S ys).toOption.map fun b => a ++ b

theorem mapR_hom {α β : Type} (f : α → R β) : Hom (mapR f) := by
  intro xs ys
  induction xs with
  | nil => cases h : mapR f ys <;> simp [mapR, h]
  | cons x xs ih =>
    simp only [List.cons_append, mapR]
    cases f x <;> simp
    revert ih
    cases mapR f (xs ++ ys) <;> cases mapR f xs <;> cases mapR f ys <;> simp

theorem filterMapR_hom {α β : Type} (f : α → R (Option β)) : Hom (filterMapR f) := by
  intro xs ys
  induction xs with
  | nil => cases h : filterMapR f ys <;> simp [filterMapR, h]
  | cons x xs ih =>
    simp only [List.cons_append, filterMapR]
    cases hx : f x <;> simp
    revert ih
    cases filterMapR f (xs ++ ys) <;> cases filterMapR f xs <;> cases filterMapR f ys <;> simp
    intro h; subst h
    rename_i o _ _
    cases o <;> simp

theorem flatMapR_hom {α β : Type} (f : α → R (List β)) : Hom (flatMapR f) := by
  intro xs ys
  induction xs with
  | nil => cases h : flatMapR f ys <;> simp [flatMapR, h]
  | cons x xs ih =>
    simp only [List.cons_append, flatMapR]
    cases f x <;> simp
    revert ih
    cases flatMapR f (xs ++ ys) <;> cases flatMapR f xs <;> cases flatMapR f ys <;> simp

/-- A total per-list function that is a list homomorphism (map / filter / flatMap). -/
theorem pure_hom {α β : Type} (g : List α → List β) (hg : ∀ xs ys, g (xs ++ ys) = g xs ++ g ys) :
    Hom (fun l => R.ok (g l)) := by
  intro xs ys; simp [hg]

theorem Hom.bind {α β γ : Type} {S : List α → R (List β)} {T : List β → R (List γ)}
    (hS : Hom S) (hT : Hom T) : Hom (fun l => (S l).bind T) := by
  intro xs ys
  have h := hS xs ys
  show ((S (xs ++ ys)).bind T).toOption = ((S xs).bind T).toOption.bind fun a => ((S ys).bind T).toOption.map fun b => a ++ b
  revert h
  cases hx : S xs <;> cases hy : S ys <;> cases hxy : S (xs ++ ys) <;> simp
  · intro h; subst h; exact hT _ _
  all_goals (cases T _ <;> simp)

/-! ### every stage of the interpreter is a homomorphism -/

theorem Hom.comp_pure {α β γ : Type} {T : List β → R (List γ)} (hT : Hom T) (g : List α → List β)
    (hg : ∀ xs ys, g (xs ++ ys) = g xs ++ g ys) : Hom (fun l => T (g l)) := by
  intro xs ys
  show (T (g (xs ++ ys))).toOption = _
  rw [hg]; exact hT _ _

theorem Hom.const_fail {α β : Type} (r : R (List β)) (h : r.toOption = none) :
    Hom (fun (_ : List α) => r) := by
  intro xs ys; simp [h]

/-- A failure that does not depend on the contexts, in front of a homomorphic stage. -/
theorem Hom.guard {α β γ : Type} (g : R γ) {T : γ → List α → R (List β)}
    (hT : ∀ c, Hom (T c)) : Hom (fun l => g.bind fun c => T c l) := by
  cases g with
  | ok c => exact hT c
  | panic s => exact Hom.const_fail _ rfl
  | fuel => exact Hom.const_fail _ rfl

theorem applyFilter_hom (env : Env) (comp : Component) (vid : Vid) (f : IRFilter) :
    Hom (applyFilter env comp vid f) := by
  unfold applyFilter
  split
  · exact filterMapR_hom _
  · exact Hom.guard _ fun _ => Hom.guard _ fun _ => filterMapR_hom _
  · exact filterMapR_hom _
  · exact Hom.const_fail _ rfl

theorem applyLocalFieldFilter_hom (env : Env) (comp : Component) (vid : Vid) (f : IRFilter) :
    Hom (applyLocalFieldFilter env comp vid f) := by
  unfold applyLocalFieldFilter
  split
  · exact Hom.guard _ fun t => Hom.bind (mapR_hom _) (applyFilter_hom env comp vid f)
  · exact Hom.const_fail _ rfl

theorem applyLocalFilters_hom (env : Env) (comp : Component) (vid : Vid) (fs : List IRFilter) :
    Hom (applyLocalFilters env comp vid fs) := by
  induction fs with
  | nil => exact pure_hom id (by simp)
  | cons f fs ih => exact (applyLocalFieldFilter_hom env comp vid f).bind ih

theorem coerceIfNeeded_hom (env : Env) (v : IRVertex) : Hom (coerceIfNeeded env v) := by
  unfold coerceIfNeeded
  split
  · exact pure_hom id (by simp)
  · exact filterMapR_hom _

theorem enterVertex_hom (env : Env) (comp : Component) (v : IRVertex) :
    Hom (enterVertex env comp v) :=
  Hom.bind (coerceIfNeeded_hom env v)
    (Hom.bind (applyLocalFilters_hom env comp v.vid v.filters) (mapR_hom _))

theorem unpackList_append (xs ys : List PCtx) :
    unpackList (xs ++ ys) = unpackList xs ++ unpackList ys := by
  induction xs with
  | nil => simp [unpackList]
  | cons x xs ih => simp [unpackList, ih]

theorem recLevels_hom (env : Env) (e : IREdge) (et rf : Name) (ct : Option Name) (k : Nat) :
    Hom (recLevels env e et rf ct k) := by
  induction k with
  | zero => exact pure_hom id (by simp)
  | succ k ih =>
    intro xs ys
    simp only [recLevels]
    cases ct with
    | none =>
      simp only [R.bind_ok]
      exact (Hom.bind (flatMapR_hom _) ih) xs ys
    | some t =>
      exact (Hom.bind (mapR_hom _) (Hom.bind (flatMapR_hom _) ih)) xs ys

theorem recFinish_hom (env : Env) (e : IREdge) (r : Recursive) (fromV toV : IRVertex) :
    Hom (recFinish env e r fromV toV) := by
  unfold recFinish
  refine Hom.bind ((flatMapR_hom _).comp_pure _ (by simp)) (Hom.bind (recLevels_hom env e _ _ _ _) ?_)
  exact (mapR_hom _).comp_pure _ unpackList_append

theorem expandRecursive_hom (env : Env) (e : IREdge) (r : Recursive) (fromV toV : IRVertex) :
    Hom (expandRecursive env e r fromV toV) :=
  Hom.bind (mapR_hom _) (recFinish_hom env e r fromV toV)

theorem expandEdge_hom (env : Env) (comp : Component) (e : IREdge) : Hom (expandEdge env comp e) := by
  unfold expandEdge
  split
  · refine Hom.bind ?_ (enterVertex_hom env comp _)
    cases e.recursive with
    | none => exact flatMapR_hom _
    | some r => exact expandRecursive_hom env e r _ _
  · exact Hom.const_fail _ rfl

theorem computeFold_hom (env : Env) (fuel : Nat) (parent : Component) (fold : Fold) :
    Hom (computeFold env fuel parent fold) := by
  intro xs ys
  simp only [computeFold]
  cases parent.vertex? fold.fromVid with
  | none => simp
  | some fromV =>
    exact (Hom.bind (mapR_hom _) (Hom.bind (mapR_hom _)
      (Hom.guard _ fun lim => filterMapR_hom (fun c => foldOne env fuel parent fold _ lim c)))) xs ys

theorem runStages_hom (env : Env) (fuel : Nat) (comp : Component) (stages : List Stage)
    (visited : List Vid) : Hom (runStages env fuel comp stages visited) := by
  induction stages generalizing visited with
  | nil => intro xs ys; simp [runStages]
  | cons st rest ih =>
    intro xs ys
    cases st with
    | edge e =>
      simp only [runStages]
      exact (Hom.guard _ fun v' => Hom.bind (expandEdge_hom env comp e) (ih v')) xs ys
    | fold f =>
      simp only [runStages]
      exact (Hom.guard _ fun v' => Hom.bind (computeFold_hom env fuel comp f) (ih v')) xs ys

theorem computeComponent_hom (env : Env) (fuel : Nat) (comp : Component) :
    Hom (computeComponent env fuel comp) := by
  intro xs ys
  cases fuel with
  | zero => simp [computeComponent]
  | succ fuel =>
    simp only [computeComponent]
    cases comp.vertex? comp.root with
    | none => simp
    | some rootV =>
      exact (Hom.bind (enterVertex_hom env comp rootV)
        (Hom.guard _ fun st => runStages_hom env fuel comp st _)) xs ys

/-- Rows of a query from `xs ++ ys` starting vertices = rows from `xs`, then rows from `ys`. -/
theorem interpretFrom_append (env : Env) (ir : IRQuery) (xs ys : List VertexId) :
    (interpretFrom env ir (xs ++ ys)).toOption =
      (interpretFrom env ir xs).toOption.bind fun a =>
        (interpretFrom env ir ys).toOption.map fun b => a ++ b := by
  have h : Hom (fun (starts : List VertexId) => interpretFrom env ir starts) := by
    unfold interpretFrom
    exact Hom.bind ((computeComponent_hom env _ _).comp_pure _ (by simp)) (mapR_hom _)
  exact h xs ys

end TF.Engine
