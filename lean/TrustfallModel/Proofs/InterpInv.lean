/-
The shared invariant machinery of C13 / C21 / C09, assembled: `compute_fold`, the stage loop,
`compute_component` (by induction on the nesting fuel) and `interpret`, run under the
contract-checking adapter (`World.env`).

Main results: `computeComponent_safe` and `interpret_safe`.
-/
import TrustfallModel.Proofs.InterpInvOutputs

namespace TF.Engine
open TF
open TF.Frontend (SchemaView EdgeInfo ParamDecl TypeInfo)

/-! ### `compute_fold`: what happens to one context once the elements are known -/

theorem lookupC_append_fresh {fc : List (Eid × Option Nat)} {e : Eid} {a : Option Nat}
    (h : e ∉ fc.map (·.1)) : lookupC (fc ++ [(e, a)]) e = some a := by
  induction fc with
  | nil => simp [lookupC]
  | cons p ps ih =>
    simp only [List.map_cons, List.mem_cons, not_or] at h
    have hp : (p.1 == e) = false := by simpa using Ne.symm h.1
    have := ih h.2
    simp only [lookupC, List.cons_append, List.find?_cons, hp] at this ⊢
    exact this

theorem CompHyp.foldTyped {W : World} {chain : List FieldRef} {comp : Component}
    (h : CompHyp W chain comp) {f : Fold} (hf : f ∈ comp.folds) : foldTyped W.S comp f = true := by
  have := h.so
  simp only [soLocal, Bool.and_eq_true, List.all_eq_true] at this
  exact this.1.2 f hf

theorem CompHyp.foldNoTrigger {W : World} {chain : List FieldRef} {comp : Component}
    (h : CompHyp W chain comp) {f : Fold} (hf : f ∈ comp.folds) (g : W.G) :
    ∀ pf ∈ f.post, filterNoTrigger W.D W.args ⟨"Int", [false]⟩ pf = true := by
  have := h.nt g
  simp only [ntLocal, Bool.and_eq_true, List.all_eq_true] at this
  exact this.2 f hf

theorem collect_mem {computed : List Ctx} {maxL minL : Option Nat} {es : List Ctx}
    (h : collectFoldElements computed maxL minL = some es) : ∀ c ∈ es, c ∈ computed := by
  unfold collectFoldElements at h
  intro c hc
  split at h
  · split at h
    · cases h
    · cases h; exact hc
  · split at h
    · cases h; exact List.mem_of_mem_take hc
    · cases h; exact hc

theorem foldFinish_safe (W : World) {comp : Component} {chain : List FieldRef} {st : WState}
    {f : Fold} (h : CompHyp W chain comp) (hf : f ∈ comp.folds)
    (hfc : CompHyp W (f.imports ++ chain) f.component)
    (hwf : stageWf W.vars comp chain st (.fold f) = true)
    (hpre : ∃ rest, comp.edges = st.edgesDone ++ rest)
    (lim : Option Nat × Option Nat) {c : Ctx}
    (hcore : CtxCore W comp (f.imports ++ chain) st c)
    (hact : lookupV c.vertices f.fromVid = some c.active)
    (computed : List Ctx) (hcomp : ∀ e ∈ computed, ElemOK W f.component e) :
    Safe W.G (fun o => ∀ c', o = some c' → CtxOK W comp chain (st.afterFold f) c')
      (foldFinish W.env comp f lim c computed) := by
  simp only [stageWf, Bool.and_eq_true, Bool.not_eq_true', List.contains_eq_mem,
    decide_eq_true_eq, decide_eq_false_iff_not, List.all_eq_true] at hwf
  obtain ⟨⟨⟨⟨⟨⟨⟨⟨⟨_, _⟩, _⟩, hrec⟩, hfromSome⟩, hfresh⟩, himp⟩, hdistinct⟩, hpost⟩, hkeys⟩ := hwf
  have hty := h.foldTyped hf
  cases hfromV : comp.vertex? f.fromVid with
  | none => simp [hfromV] at hfromSome
  | some fromV =>
  cases hrootV : f.component.vertex? f.component.root with
  | none => simp [foldTyped, hfromV, hrootV] at hty
  | some rootV =>
  simp only [foldTyped, hfromV, hrootV, Bool.and_eq_true, List.all_eq_true] at hty
  obtain ⟨⟨_, himpTy⟩, hpostTy⟩ := hty
  have hvt := isVertexType_of_vertexTyped (vertexTyped_of h.so hfromV)
  -- the active vertex is the fold's source
  have hactOK : activeOK W.D c.active fromV.typeName = true := by
    cases hca : c.active with
    | none => rfl
    | some x =>
      rw [hca] at hact
      obtain ⟨vx, hvx, hinst⟩ := hcore.verts.inst _ x hact
      rw [hfromV] at hvx; cases hvx
      simpa [activeOK] using hinst
  have hoptNone : c.active = none → (optionalVertices comp.edges).contains f.fromVid = true := by
    intro hn
    rw [hn] at hact
    have := hcore.verts.opt _ hact
    obtain ⟨rest, hrest⟩ := hpre
    rw [hrest]
    simpa using optionalVertices_mono _ rest this
  unfold foldFinish
  rw [vertexAt?_eq, hact]
  simp only
  -- which elements are kept
  cases helems : (if c.active.isSome = true then
      Option.map some (collectFoldElements computed lim.1 lim.2) else some none) with
  | none => simp
  | some elems =>
    simp only
    have hnoneIff : elems = none → c.active = none := by
      intro he
      cases hca : c.active with
      | none => rfl
      | some x =>
        simp only [hca, Option.isSome_some, if_true, Option.map_eq_some_iff] at helems
        obtain ⟨es, _, hes⟩ := helems
        rw [he] at hes; cases hes
    have hsub : ∀ es, elems = some es → ∀ e ∈ es, ElemOK W f.component e := by
      intro es he e hee
      cases hca : c.active with
      | none => simp [hca, he] at helems
      | some x =>
        simp only [hca, Option.isSome_some, if_true, Option.map_eq_some_iff] at helems
        obtain ⟨es', hcol, hes'⟩ := helems
        rw [he] at hes'; cases hes'
        exact hcomp e (collect_mem hcol e hee)
    -- the slot is fresh
    have hslot : lookupC c.foldCounts f.eid = none := by
      apply lookupC_none
      rw [hcore.counts]; exact hfresh
    rw [foldCount?_eq, hslot]
    simp only [Option.isSome_none, Bool.false_eq_true, if_false, R.bind_eq_bind, R.pure_eq_ok]
    -- remove the imported tags
    have hpresent : ∀ r ∈ f.imports, (lookupT c.importedTags r.key).isSome = true := by
      intro r hr
      obtain ⟨t, ht, _⟩ := hcore.tags r (by simp [hr])
      simp [ht]
    refine Safe.bind (removeTags_safe W f.imports
      { c with foldCounts := c.foldCounts ++ [(f.eid, elems.map List.length)] }
      hdistinct hpresent) ?_
    intro c2 ⟨hs2, hact2, htags2⟩
    have htagsOK : TagsOK chain c2.importedTags := by
      intro r hr
      obtain ⟨t, ht, htt⟩ := hcore.tags r (by simp [hr])
      refine ⟨t, ?_, htt⟩
      rw [htags2 r.key]
      · exact ht
      · intro r' hr' heq
        have := himp r' hr'
        cases r' with
        | ctx vid fld ty =>
          simp only [importWf, Bool.and_eq_true, Bool.not_eq_true', List.any_eq_false] at this
          have := this.2 r hr
          have hk : r.key = TagKey.ctx vid fld := heq.symm
          rw [hk] at this
          simp [TagKey.beq_iff] at this
        | fcount e rv =>
          simp only [importWf, Bool.and_eq_true, Bool.not_eq_true', List.any_eq_false] at this
          have := this.2 r hr
          have hk : r.key = TagKey.fcount e := heq.symm
          rw [hk] at this
          simp [TagKey.beq_iff] at this
    have hcnt2 : lookupC c2.foldCounts f.eid = some (elems.map List.length) := by
      rw [hs2.2.2.1]
      apply lookupC_append_fresh
      rw [hcore.counts]; exact hfresh
    have hvpre : VPre W comp chain st (st.foldsDone.map (·.eid) ++ [f.eid]) fromV.typeName c2 := by
      refine ⟨hs2.1 ▸ hcore.verts, ?_, htagsOK, hact2 ▸ hactOK, hs2.2.1 ▸ hcore.vals⟩
      simp only [CountsOK, hs2.2.2.1, List.map_append, List.map_cons, List.map_nil]
      rw [hcore.counts]
    refine Safe.bind (applyPostFilters_safe W h.so hfromV hvt f.post hpost hpostTy
      (fun g => h.foldNoTrigger hf g) hvpre hcnt2 ?_) ?_
    · -- the slot holds `None` only when the fold's source vertex is missing, and that is the active one
      intro hnone
      rw [hact2]
      apply hnoneIff
      cases helm : elems with
      | none => rfl
      | some es => rw [helm] at hnone; cases hnone
    · intro o ho
      cases o with
      | none => simp
      | some c3 =>
        have h3 := ho c3 rfl
        subst h3
        simp only
        refine Safe.bind (foldOutputs_safe W (opt := optionalVertices comp.edges) hfc.wf hfc.so elems
          hsub (fun he => hoptNone (hnoneIff he))) ?_
        intro news hnews
        -- the new keys are fresh
        have hfreshKeys : (news.any fun p => (lookupFolded c3.foldedValues p.1).isSome) = false := by
          rw [List.any_eq_false]
          intro p hp
          simp only [Bool.not_eq_true, Option.isSome_eq_false_iff, Option.isNone_iff_eq_none]
          cases hl : lookupFolded c3.foldedValues p.1 with
          | none => rfl
          | some ov =>
            exfalso
            obtain ⟨q, hq, hqk, _⟩ := lookupFolded_some hl
            have hq1 : q.1 ∈ st.foldsDone.flatMap keysOfFold := by
              rw [← hcore.folded.keys, ← hs2.2.2.2]
              exact List.mem_map.mpr ⟨q, hq, rfl⟩
            have hp1 : p.1 ∈ keysOfFold f := by
              rw [← hnews.1]; exact List.mem_map.mpr ⟨p, hp, rfl⟩
            have := hkeys _ hp1
            rw [List.any_eq_false] at this
            have := this q.1 hq1
            simp [keyEq, hqk] at this
        simp only [mergeFolded, hfreshKeys, Bool.false_eq_true, if_false, R.bind_ok', Safe.ok_iff,
          Option.some.injEq]
        intro c4 hc4
        subst hc4
        refine ⟨⟨?_, ?_, ?_, ?_, ?_⟩, ?_⟩
        · have hv := hs2.1 ▸ hcore.verts
          exact ⟨hv.keys, hv.inst, hv.opt, hv.noneClosed, hv.ends⟩
        · exact hs2.2.1 ▸ hcore.vals
        · simp only [CountsOK, WState.afterFold, hs2.2.2.1, List.map_append, List.map_cons,
            List.map_nil]
          rw [hcore.counts]
        · refine ⟨?_, ?_⟩
          · simp only [WState.afterFold, List.map_append, List.flatMap_append, List.flatMap_cons,
              List.flatMap_nil, List.append_nil, hnews.1, hs2.2.2.2, hcore.folded.keys]
          · intro p hp
            simp only [WState.afterFold, declaredOutputsFolds_append]
            rcases List.mem_append.mp hp with hp | hp
            · rw [hs2.2.2.2] at hp
              obtain ⟨d, hd, hdn, hdv⟩ := hcore.folded.typed p hp
              exact ⟨d, List.mem_append_left _ hd, hdn, hdv⟩
            · obtain ⟨d, hd, hdn, hdv⟩ := hnews.2 p hp
              exact ⟨d, List.mem_append_right _ hd, hdn, hdv⟩
        · exact htagsOK
        · simp only [WState.afterFold]
          rw [hs2.1, hact2]; exact hact



/-! ### the whole tree of components -/

structure CompAll (W : World) (chain : List FieldRef) (comp : Component) : Prop where
  wf : allComps (wfLocal W.vars) chain comp = true
  so : allComps (soLocal W.S) chain comp = true
  nt : W.G → allComps (ntLocal W.D W.args) chain comp = true

theorem CompAll.here {W : World} {chain : List FieldRef} {comp : Component}
    (h : CompAll W chain comp) : CompHyp W chain comp :=
  ⟨allComps_here h.wf, allComps_here h.so, fun g => allComps_here (h.nt g)⟩

theorem CompAll.fold {W : World} {chain : List FieldRef} {comp : Component}
    (h : CompAll W chain comp) {f : Fold} (hf : f ∈ comp.folds) :
    CompAll W (f.imports ++ chain) f.component :=
  ⟨allComps_fold h.wf hf, allComps_fold h.so hf, fun g => allComps_fold (h.nt g) hf⟩

/-- The contexts a component starts from. -/
structure StartOK (W : World) (comp : Component) (chain : List FieldRef) (c : Ctx) : Prop where
  verts : c.vertices = []
  vals : c.values = []
  counts : c.foldCounts = []
  folded : c.foldedValues = []
  tags : TagsOK chain c.importedTags
  act : ∃ x, c.active = some x ∧
    ∀ rootV, comp.vertex? comp.root = some rootV → instOf W.D x rootV.preType = true

theorem CtxCore.elemOK {W : World} {chain : List FieldRef} {fc : Component}
    (hwf : wfLocal W.vars chain fc = true) {c : Ctx}
    (h : CtxCore W fc chain (finalState fc) c) : ElemOK W fc c := by
  refine ⟨h.verts, ?_⟩
  have := h.folded
  rw [(finalState_done hwf).1] at this
  exact this

theorem postVarOK_of {W : World} {chain : List FieldRef} {comp : Component} {recorded : List Vid}
    {eids : List Eid} {cur : Vid} {curType : Name} {pf : IRFilter}
    (hwf : filterWf W.vars comp chain recorded eids cur true pf = true)
    (hty : filterTyped W.S comp curType cur ⟨"Int", [false]⟩ pf = true) : PostVarOK W.env pf := by
  intro o n vt hop hright
  simp only [filterWf, hop, hright, Bool.and_eq_true] at hwf
  simp only [filterTyped, hop, hright, Bool.and_eq_true] at hty
  refine ⟨hty.1, hty.2, ?_⟩
  cases hfind : W.vars.find? (·.1 == n) with
  | none => simp [hfind] at hwf
  | some q =>
    obtain ⟨n', qty⟩ := q
    simp only [hfind] at hwf
    have hn' : n' = n := by simpa using List.find?_some hfind
    subst hn'
    obtain ⟨p, hp, hpv⟩ := W.hargs n' qty (List.mem_of_find?_eq_some hfind)
    exact ⟨p.2, env_arg_ok hp, validQ_of_scalarOnlySubtype hwf.2 hpv⟩

/-- `compute_fold`, given the result about `compute_component` at the same fuel. -/
theorem computeFold_safe (W : World) (fuel : Nat)
    (IH : ∀ (comp : Component) (chain : List FieldRef) (ctxs : List Ctx), CompAll W chain comp →
      (∀ c ∈ ctxs, StartOK W comp chain c) →
      Safe W.G (fun out => ∀ c ∈ out, CtxOK W comp chain (finalState comp) c)
        (computeComponent W.env fuel comp ctxs))
    {comp : Component} {chain : List FieldRef} {st : WState} {f : Fold}
    (hall : CompAll W chain comp) (hf : f ∈ comp.folds)
    (hwf : stageWf W.vars comp chain st (.fold f) = true)
    (hpre : ∃ rest, comp.edges = st.edgesDone ++ rest)
    (ctxs : List Ctx) (hc : ∀ c ∈ ctxs, CtxOK W comp chain st c) :
    Safe W.G (fun out => ∀ c ∈ out, CtxOK W comp chain (st.afterFold f) c)
      (computeFold W.env fuel comp f ctxs) := by
  have h := hall.here
  have hfall := hall.fold hf
  have hfc := hfall.here
  have hwf0 := hwf
  simp only [stageWf, Bool.and_eq_true, Bool.not_eq_true', List.contains_eq_mem,
    decide_eq_true_eq, decide_eq_false_iff_not, List.all_eq_true] at hwf
  obtain ⟨⟨⟨⟨⟨⟨⟨⟨⟨_, _⟩, _⟩, hrec⟩, hfromSome⟩, hfresh⟩, himp⟩, hdistinct⟩, hpost⟩, hkeys⟩ := hwf
  have hty := h.foldTyped hf
  simp only [computeFold]
  cases hfromV : comp.vertex? f.fromVid with
  | none => simp [hfromV] at hfromSome
  | some fromV =>
  cases hrootV : f.component.vertex? f.component.root with
  | none => simp [foldTyped, hfromV, hrootV] at hty
  | some rootV =>
  simp only [foldTyped, hfromV, hrootV, Bool.and_eq_true, List.all_eq_true] at hty
  obtain ⟨⟨hdecl, himpTy⟩, hpostTy⟩ := hty
  simp only
  -- import the tags
  refine Safe.bind (P := fun ctxs1 => ∀ c1 ∈ ctxs1, CtxCore W comp (f.imports ++ chain) st c1)
    (Safe.mapR (P := fun c => c ∈ ctxs) ?_ (fun x hx => hx)) ?_
  · intro c _ hcm
    have hok := hc c hcm
    refine Safe.mono (importTags_safe W f.imports himp himpTy chain (fun r hr => Or.inl hr)
      hok.verts hok.counts hok.tags) ?_
    intro c1 ⟨hs, ht⟩
    refine ⟨hs.1 ▸ hok.verts, hs.2.1 ▸ hok.vals, hs.2.2.1 ▸ hok.counts, hs.2.2.2 ▸ hok.folded, ?_⟩
    exact ht.of_subset (by
      intro r hr
      rcases List.mem_append.mp hr with hr | hr
      · exact List.mem_append_left _ (List.mem_reverse.mpr hr)
      · exact List.mem_append_right _ hr)
  · intro ctxs1 h1
    -- activate the source vertex
    refine Safe.bind (P := fun ctxs2 => ∀ c2 ∈ ctxs2, CtxCore W comp (f.imports ++ chain) st c2 ∧
        lookupV c2.vertices f.fromVid = some c2.active)
      (Safe.mapR (P := fun c => c ∈ ctxs1) ?_ (fun x hx => hx)) ?_
    · intro c1 _ hc1
      have hcore := h1 c1 hc1
      have hrec' := hrec
      rw [← hcore.verts.keys] at hrec'
      obtain ⟨v, hv⟩ := lookupV_of_mem hrec'
      rw [activate_ok hv]
      exact ⟨hcore.congr rfl rfl rfl rfl rfl, hv⟩
    · intro ctxs2 h2
      obtain ⟨lim, hlim⟩ := foldLimits_ok W.env comp f (fun pf hpf =>
        postVarOK_of (hpost pf hpf) (hpostTy pf hpf))
      rw [hlim]
      simp only [R.bind_ok']
      refine Safe.filterMapR (P := fun c => c ∈ ctxs2) ?_ (fun x hx => hx)
      intro c2 _ hc2
      obtain ⟨hcore, hact⟩ := h2 c2 hc2
      simp only [foldOne]
      have hactOK : activeOK W.D c2.active fromV.typeName = true := by
        cases hca : c2.active with
        | none => rfl
        | some x =>
          rw [hca] at hact
          obtain ⟨vx, hvx, hinst⟩ := hcore.verts.inst _ x hact
          rw [hfromV] at hvx; cases hvx
          simpa [activeOK] using hinst
      rw [checked_nbrs hdecl hactOK]
      simp only [R.bind_ok']
      -- the sub-pipeline over the neighbours
      have hstart : ∀ s ∈ foldStart c2 (W.D.nbrsOpt c2.active f.name f.params),
          StartOK W f.component (f.imports ++ chain) s := by
        intro s hs
        simp only [foldStart, List.mem_map] at hs
        obtain ⟨n, hn, rfl⟩ := hs
        refine ⟨rfl, rfl, rfl, rfl, hcore.tags, n, rfl, ?_⟩
        intro rootV' hrootV'
        rw [hrootV] at hrootV'; cases hrootV'
        cases hca : c2.active with
        | none => simp [hca, Data.nbrsOpt] at hn
        | some x =>
          rw [hca] at hn
          have hx : instOf W.D x fromV.typeName = true := by simpa [activeOK, hca] using hactOK
          exact nbrs_inst hdecl hx n hn
      refine Safe.bind (IH f.component (f.imports ++ chain) _ hfall hstart) ?_
      intro computed hcomputed
      exact foldFinish_safe W h hf hfc hwf0 hpre lim hcore hact computed
        (fun e he => (hcomputed e he).toCtxCore.elemOK hfc.wf)


theorem checkVisited_ok {visited : List Vid} {a b : Vid} (h1 : a ∈ visited) (h2 : b ∉ visited)
    (h3 : a ≠ b) : checkVisited visited a b = .ok (b :: visited) := by
  simp [checkVisited, h1, h2, h3]

/-- the stage loop of `compute_component` -/
theorem runStages_safe (W : World) (fuel : Nat)
    (IH : ∀ (comp : Component) (chain : List FieldRef) (ctxs : List Ctx), CompAll W chain comp →
      (∀ c ∈ ctxs, StartOK W comp chain c) →
      Safe W.G (fun out => ∀ c ∈ out, CtxOK W comp chain (finalState comp) c)
        (computeComponent W.env fuel comp ctxs))
    {comp : Component} {chain : List FieldRef} (hall : CompAll W chain comp) :
    ∀ (stages : List Stage) (st : WState) (ctxs : List Ctx),
      stagesWf W.vars comp chain stages st = true →
      comp.edges = st.edgesDone ++ stages.filterMap Stage.edge? →
      comp.folds = st.foldsDone ++ stages.filterMap Stage.fold? →
      (∀ c ∈ ctxs, CtxOK W comp chain st c) →
      Safe W.G (fun out => ∀ c ∈ out, CtxOK W comp chain (st.run stages) c)
        (runStages W.env fuel comp stages st.visited ctxs) := by
  intro stages
  induction stages with
  | nil =>
    intro st ctxs _ _ _ hc
    simpa [runStages, WState.run] using hc
  | cons s rest ih =>
    intro st ctxs hwf hedges hfolds hc
    simp only [stagesWf, Bool.and_eq_true] at hwf
    obtain ⟨hs, hrest⟩ := hwf
    cases s with
    | edge e =>
      have hs0 := hs
      simp only [stageWf, Bool.and_eq_true, Bool.not_eq_true', List.contains_eq_mem,
        decide_eq_true_eq, decide_eq_false_iff_not, beq_eq_false_iff_ne] at hs
      obtain ⟨⟨⟨⟨⟨⟨⟨hv1, hv2⟩, hv3⟩, _⟩, _⟩, _⟩, _⟩, _⟩ := hs
      have he : e ∈ comp.edges := by
        rw [hedges]; simp
      simp only [runStages, checkVisited_ok hv1 hv2 hv3, R.bind_ok']
      refine Safe.bind (expandEdge_safe W hall.here he hs0 ctxs hc) ?_
      intro ctxs' hc'
      have := ih (st.afterEdge e) ctxs' hrest
        (by rw [hedges, filterMap_edge?_cons_edge]; simp [WState.afterEdge])
        (by rw [hfolds, filterMap_fold?_cons_edge]; simp [WState.afterEdge])
        hc'
      simpa [WState.run, WState.after, WState.afterEdge] using this
    | fold f =>
      have hs0 := hs
      simp only [stageWf, Bool.and_eq_true, Bool.not_eq_true', List.contains_eq_mem,
        decide_eq_true_eq, decide_eq_false_iff_not, beq_eq_false_iff_ne] at hs
      obtain ⟨⟨⟨⟨⟨⟨⟨⟨⟨hv1, hv2⟩, hv3⟩, _⟩, _⟩, _⟩, _⟩, _⟩, _⟩, _⟩ := hs
      have hf : f ∈ comp.folds := by
        rw [hfolds]; simp
      simp only [runStages, checkVisited_ok hv1 hv2 hv3, R.bind_ok']
      refine Safe.bind (computeFold_safe W fuel IH hall hf hs0 ⟨_, hedges⟩ ctxs hc) ?_
      intro ctxs' hc'
      have := ih (st.afterFold f) ctxs' hrest
        (by rw [hedges, filterMap_edge?_cons_fold]; simp [WState.afterFold])
        (by rw [hfolds, filterMap_fold?_cons_fold]; simp [WState.afterFold])
        hc'
      simpa [WState.run, WState.after, WState.afterFold] using this

/-- `compute_component`: from start contexts to contexts satisfying the invariant at the end. -/
theorem computeComponent_safe (W : World) : ∀ (fuel : Nat) (comp : Component)
    (chain : List FieldRef) (ctxs : List Ctx), CompAll W chain comp →
    (∀ c ∈ ctxs, StartOK W comp chain c) →
    Safe W.G (fun out => ∀ c ∈ out, CtxOK W comp chain (finalState comp) c)
      (computeComponent W.env fuel comp ctxs) := by
  intro fuel
  induction fuel with
  | zero => intro comp chain ctxs _ _; simp [computeComponent]
  | succ fuel IH =>
    intro comp chain ctxs hall hstart
    have h := hall.here
    have hwf := h.wf
    unfold wfLocal at hwf
    simp only [computeComponent]
    cases hrootV : comp.vertex? comp.root with
    | none => simp [hrootV] at hwf
    | some rootV =>
      cases hst : stagesOf comp with
      | none => simp [hrootV, hst] at hwf
      | some stages =>
        simp only [hrootV, hst, Bool.and_eq_true, List.all_eq_true] at hwf
        obtain ⟨⟨hrootF, hstages⟩, _⟩ := hwf
        have hvid := vertex?_vid hrootV
        have hrootV' : comp.vertex? rootV.vid = some rootV := by rw [hvid]; exact hrootV
        simp only
        -- enter the root vertex
        let st0 : WState := ⟨[], [], [], [], comp.root⟩
        have hpre : ∀ c ∈ ctxs, VPre W comp chain st0 [] rootV.preType c := by
          intro c hcm
          have hs := hstart c hcm
          obtain ⟨x, hx, hinst⟩ := hs.act
          refine ⟨?_, ?_, hs.tags, ?_, hs.vals⟩
          · rw [hs.verts]
            exact ⟨rfl, fun _ _ h => by simp [lookupV] at h, fun _ h => by simp [lookupV] at h,
              fun _ he => by simp [st0] at he, fun _ he => by simp [st0] at he⟩
          · simp [CountsOK, hs.counts]
          · simpa [activeOK, hx] using hinst rootV hrootV
        refine Safe.bind (enterVertex_safe W (st := st0) (eids := []) h.so hrootV' hrootF
          (h.vertexNoTrigger hrootV) (by simp [st0]) ctxs hpre) ?_
        intro ctxs1 h1
        have hinit : ∀ c ∈ ctxs1, CtxOK W comp chain (WState.init comp.root) c := by
          intro c1 hc1
          obtain ⟨c, hcm, hact, rfl⟩ := h1 c1 hc1
          have hs := hstart c hcm
          obtain ⟨x, hx, _⟩ := hs.act
          simp only [hs.verts, List.nil_append, hvid, hx]
          have hl : ∀ vid, lookupV [(comp.root, some x)] vid =
              if vid = comp.root then some (some x) else none := by
            intro vid
            by_cases hv : vid = comp.root
            · simp [lookupV, hv]
            · have : (comp.root == vid) = false := by simpa using Ne.symm hv
              simp [lookupV, hv, this]
          refine ⟨⟨⟨rfl, ?_, ?_, ?_, ?_⟩, hs.vals, ?_, ?_, hs.tags⟩, ?_⟩
          · intro vid y hy
            rw [hl] at hy
            split at hy
            · rename_i hv
              cases hy
              subst hv
              exact ⟨rootV, hrootV, by simpa [activeOK, hx] using hact⟩
            · cases hy
          · intro vid hy
            rw [hl] at hy
            split at hy <;> cases hy
          · intro e he; simp [WState.init] at he
          · intro e he; simp [WState.init] at he
          · simp [CountsOK, WState.init, hs.counts]
          · refine ⟨by simp [WState.init, hs.folded], ?_⟩
            intro p hp; simp [hs.folded] at hp
          · simp [WState.init, hl]
        have hms : mergeStages comp.edges comp.folds (comp.edges.length + comp.folds.length)
            = .ok stages := by
          unfold stagesOf at hst
          split at hst
          · rename_i l hl; cases hst; exact hl
          · cases hst
        rw [hms]
        simp only [R.bind_ok']
        have hfin : finalState comp = (WState.init comp.root).run stages := by
          simp [finalState, hst]
        rw [hfin]
        have := runStages_safe W fuel IH hall stages (WState.init comp.root) ctxs1 hstages
          (by simpa [WState.init] using (mergeStages_edges hms).symm)
          (by simpa [WState.init] using (mergeStages_folds hms).symm) hinit
        simpa [WState.init] using this


/-! ### rows -/

/-- A result row: exactly the declared output names (sorted), each value valid for the declared
type of that name. -/
def RowOK (comp : Component) (r : Row) : Prop :=
  r.map (·.1) = sortNames ((declaredOutputs comp []).map (·.name)) ∧
  ∀ p ∈ r, ∃ d ∈ declaredOutputs comp [], d.name = p.1 ∧ validQ d.ty p.2 = true

theorem constructRow_safe (W : World) {comp : Component} (h : CompHyp W [] comp) {c : Ctx}
    (hc : CtxOK W comp [] (finalState comp) c) :
    Safe W.G (RowOK comp) (constructRow W.env comp c) := by
  unfold constructRow
  simp only [R.bind_eq_bind, R.pure_eq_ok]
  refine Safe.bind (Safe.mapR_rel (P := fun o => o ∈ comp.outputs)
    (Rel := fun o (p : Name × Value) => p.1 = o.name ∧
      validQ (outputType o.vid o.ty (optionalVertices comp.edges) []) p.2 = true)
    ?_ (fun x hx => hx)) ?_
  · intro o _ ho
    obtain ⟨vx, v, hvx, hlv, hcall, _, hval⟩ := outputCell W h.wf h.so ho hc.verts
    simp only [vertexAt?_eq, hlv, typeOf_ok hvx, R.bind_ok', hcall, Safe.ok_iff]
    refine ⟨by first | rfl | trivial, ?_⟩
    simpa [validQ, innerNulls, outputType] using hval
  · intro own hown
    have hfolds := (finalState_done h.wf).1
    have hnames : (own ++ c.foldedValues.map fun p => (p.1.2, p.2.getD Value.null)).map (·.1) =
        (declaredOutputs comp []).map (·.name) := by
      rw [declaredOutputs_names, List.map_append]
      congr 1
      · exact (ListRel.map_eq hown (f := fun o => o.name) (g := (·.1))
          (fun a b hr => hr.1.symm)).symm
      · rw [← hfolds, ← hc.folded.keys]
        simp [Function.comp_def]
    have hnd : ((declaredOutputs comp []).map (·.name)).Nodup := by
      rw [declaredOutputs_names]
      exact (wfLocal_outputs h.wf).2
    simp only [hnames, eraseDups_of_nodup hnd, bne_self_eq_false, Bool.false_eq_true, if_false,
      Safe.ok_iff, RowOK]
    refine ⟨?_, ?_⟩
    · rw [map_fst_foldr_insertSorted, hnames]
    · intro p hp
      rw [mem_foldr_insertSorted] at hp
      rw [declaredOutputs_eq]
      rcases List.mem_append.mp hp with hp | hp
      · obtain ⟨o, ho, hr⟩ := hown.mem_right hp
        exact ⟨_, List.mem_append_left _ (List.mem_map.mpr ⟨o, ho, rfl⟩), hr.1.symm, hr.2⟩
      · obtain ⟨q, hq, rfl⟩ := List.mem_map.mp hp
        obtain ⟨d, hd, hdn, hdv⟩ := hc.folded.typed q hq
        rw [hfolds] at hd
        exact ⟨d, List.mem_append_right _ hd, hdn, hdv⟩

/-- The whole execution under the contract-checking adapter. -/
theorem interpret_safe (W : World) (ir : IRQuery) (hvars : W.vars = ir.variables)
    (hwf : WFq ir = true) (hso : SchemaOK W.S ir = true)
    (hnt : W.G → NoKnownTrigger W.D ir W.args = true) :
    Safe W.G (fun rows => ∀ r ∈ rows, RowOK ir.rootComponent r) (interpret W.env ir) := by
  unfold WFq at hwf
  unfold SchemaOK at hso
  rw [← hvars] at hwf
  simp only [Bool.and_eq_true] at hso
  obtain ⟨hroot, hsoAll⟩ := hso
  have hall : CompAll W [] ir.rootComponent := ⟨hwf, hsoAll, fun g => hnt g⟩
  cases hei : W.S.root? ir.rootName with
  | none => simp [hei] at hroot
  | some ei =>
    cases hrootV : ir.rootComponent.vertex? ir.rootComponent.root with
    | none => simp [hei, hrootV] at hroot
    | some rootV =>
      simp only [hei, hrootV, Bool.and_eq_true, beq_iff_eq] at hroot
      unfold interpret
      have hstartCall : W.env.adapter.start ir.rootName ir.rootParams ir.rootComponent.root =
          .ok (W.D.start ir.rootName ir.rootParams) := by
        simp [World.env, Env.checked, checkedAdapter, Data.adapter, hei, hroot.2]
      rw [hstartCall]
      simp only [R.bind_ok', interpretFrom]
      refine Safe.bind (computeComponent_safe W (fuelFor ir) ir.rootComponent []
        ((W.D.start ir.rootName ir.rootParams).map fun v => Ctx.new (some v)) hall ?_) ?_
      · intro c hc
        obtain ⟨v, hv, rfl⟩ := List.mem_map.mp hc
        refine ⟨rfl, rfl, rfl, rfl, (fun r hr => by cases hr), v, rfl, ?_⟩
        intro rootV' hrootV'
        rw [hrootV] at hrootV'; cases hrootV'
        exact start_inst hei hroot.1 v hv
      · intro ctxs hctxs
        refine Safe.mapR (P := fun c => c ∈ ctxs) ?_ (fun x hx => hx)
        intro c _ hc
        exact constructRow_safe W hall.here (hctxs c hc)


end TF.Engine
