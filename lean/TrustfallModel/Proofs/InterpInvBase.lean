/-
Base layer of the invariant proofs: the analysed world, what the contract-checking adapter answers
on a call that honours the contract, and what the dataset's conformance gives about the answers.
-/
import TrustfallModel.Proofs.InterpInvSafe

namespace TF.Engine
open TF
open TF.Frontend (SchemaView EdgeInfo ParamDecl TypeInfo)

/-- Everything that is fixed during the analysis of one query execution. -/
structure World where
  S : SchemaView
  D : Data
  args : List (Name × Value)
  vars : List (Name × QTy)
  /-- the guard "no known trigger present" (any proposition; `True` for C09, arbitrary for C13/C21) -/
  G : Prop
  conf : Conforms S D = true
  hargs : ∀ n qty, (n, qty) ∈ vars → ∃ p, args.find? (·.1 == n) = some p ∧ validQ qty p.2 = true

namespace World
def env (W : World) : Env := Env.checked W.S W.D W.args
@[simp] theorem env_args (W : World) : W.env.args = W.args := rfl
@[simp] theorem env_regex (W : World) : W.env.regex = W.D.regex := rfl
@[simp] theorem env_useLimits (W : World) : W.env.useLimits = true := rfl
end World

/-! ### lookups in the context's maps, on the fields -/

def lookupV (vs : List (Vid × Option VertexId)) (vid : Vid) : Option (Option VertexId) :=
  (vs.find? (·.1 == vid)).map (·.2)

theorem vertexAt?_eq (c : Ctx) (vid : Vid) : c.vertexAt? vid = lookupV c.vertices vid := rfl

theorem lookupV_isSome {vs : List (Vid × Option VertexId)} {vid : Vid} :
    (lookupV vs vid).isSome = true ↔ vid ∈ vs.map (·.1) := by
  induction vs with
  | nil => simp [lookupV]
  | cons p ps ih =>
    simp only [lookupV, List.find?_cons, List.map_cons, List.mem_cons] at *
    by_cases h : p.1 = vid
    · simp [h]
    · have : (p.1 == vid) = false := by simpa using h
      simp [this, Ne.symm h]

theorem lookupV_none {vs : List (Vid × Option VertexId)} {vid : Vid} :
    lookupV vs vid = none ↔ vid ∉ vs.map (·.1) := by
  rw [← lookupV_isSome]
  cases lookupV vs vid <;> simp

theorem lookupV_of_mem {vs : List (Vid × Option VertexId)} {vid : Vid} (h : vid ∈ vs.map (·.1)) :
    ∃ a, lookupV vs vid = some a := by
  have := lookupV_isSome.mpr h
  cases h' : lookupV vs vid with
  | none => simp [h'] at this
  | some a => exact ⟨a, rfl⟩

theorem lookupV_append {vs : List (Vid × Option VertexId)} {vid vid' : Vid} {a : Option VertexId}
    (hfresh : lookupV vs vid = none) :
    lookupV (vs ++ [(vid, a)]) vid' = if vid' = vid then some a else lookupV vs vid' := by
  induction vs with
  | nil =>
    by_cases h : vid' = vid
    · simp [lookupV, h]
    · have : (vid == vid') = false := by simpa using Ne.symm h
      simp [lookupV, h, this]
  | cons p ps ih =>
    have hp : (p.1 == vid) = false := by
      cases hpv : (p.1 == vid) with
      | false => rfl
      | true => simp [lookupV, hpv] at hfresh
    have hps : lookupV ps vid = none := by
      simpa [lookupV, List.find?_cons, hp] using hfresh
    have ih' := ih hps
    by_cases h1 : p.1 = vid'
    · have hne : vid' ≠ vid := by
        intro h
        have : p.1 = vid := h1.trans h
        simp [this] at hp
      simp [lookupV, h1, hne]
    · have : (p.1 == vid') = false := by simpa using h1
      simpa [lookupV, List.find?_cons, this] using ih'

/-! ### instances -/

theorem instOf_vertex {D : Data} {x : VertexId} {t : Name} (h : instOf D x t = true) :
    ∃ vd, D.vertex? x = some vd ∧ vd ∈ D.vertices ∧ t ∈ D.supers vd.typeName := by
  unfold instOf at h
  cases hv : D.vertex? x with
  | none => simp [hv] at h
  | some vd =>
    simp only [hv] at h
    refine ⟨vd, rfl, ?_, by simpa using h⟩
    unfold Data.vertex? at hv
    exact List.mem_of_find?_eq_some hv

theorem isA_of_instOf {D : Data} {x : VertexId} {t u : Name} (h : instOf D x t = true) :
    D.isA x u = instOf D x u := by
  obtain ⟨vd, hv, _, _⟩ := instOf_vertex h
  simp [Data.isA, instOf, Data.typeOf, hv]

theorem vertexConforms_of {W : World} {vd : VertexData} (h : vd ∈ W.D.vertices) :
    vertexConforms W.S W.D vd = true := by
  have := W.conf
  simp only [Conforms, Bool.and_eq_true, List.all_eq_true] at this
  exact this.1.1 vd h

/-- supertypes known to the schema are supertypes in the dataset's table -/
theorem instOf_super {W : World} {x : VertexId} {t u : Name} (h : instOf W.D x t = true)
    (hu : W.S.subOrEq u t = true) : instOf W.D x u = true := by
  obtain ⟨vd, hv, hmem, ht⟩ := instOf_vertex h
  have hc := vertexConforms_of (W := W) hmem
  simp only [vertexConforms, Bool.and_eq_true, List.all_eq_true] at hc
  simp only [SchemaView.subOrEq, Bool.or_eq_true, beq_iff_eq] at hu
  rcases hu with rfl | hu
  · exact h
  · have := hc.1.2 t ht u (by simpa using hu)
    have hm : u ∈ W.D.supers vd.typeName := by simpa using this
    simp [instOf, hv, hm]

theorem VertexData.prop_eq {D : Data} {x : VertexId} {vd : VertexData} (hv : D.vertex? x = some vd)
    (f : Name) : D.prop x f = vd.prop f := by
  unfold Data.prop VertexData.prop
  by_cases hf : (f == "__typename") = true
  · simp [hf, Data.typeOf, hv]
  · simp only [hf, hv, Bool.false_eq_true, if_false]
    cases vd.props.find? (·.1 == f) with
    | none => rfl
    | some p => rfl

/-- a property of a type the vertex is an instance of holds a value valid for the schema type -/
theorem prop_valid {W : World} {x : VertexId} {t f : Name} {ty : QTy}
    (h : instOf W.D x t = true) (hp : W.S.propTy? t f = some ty) :
    validQ ty (W.D.prop x f) = true := by
  obtain ⟨vd, hv, hmem, ht⟩ := instOf_vertex h
  rw [VertexData.prop_eq hv]
  unfold SchemaView.propTy? at hp
  by_cases hf : f = "__typename"
  · subst hf
    simp only [beq_self_eq_true, if_true, Option.some.injEq] at hp
    subst hp
    simp [VertexData.prop, SchemaView.typenameTy, validQ, validNulls]
  · have hf' : (f == "__typename") = false := by simpa using hf
    simp only [hf', Bool.false_eq_true, if_false] at hp
    cases hti : W.S.type? t with
    | none => simp [hti] at hp
    | some ti =>
      simp only [hti, Option.map_eq_some_iff] at hp
      obtain ⟨p, hfind, hty⟩ := hp
      have hpm : p ∈ ti.props := List.mem_of_find?_eq_some hfind
      have hpn : p.1 = f := by
        have := List.find?_some hfind
        simpa using this
      have hc := vertexConforms_of (W := W) hmem
      simp only [vertexConforms, Bool.and_eq_true, List.all_eq_true] at hc
      have := hc.2 t ht
      simp only [hti, List.all_eq_true] at this
      have := this p hpm
      rw [hpn, hty] at this
      exact this

theorem propOpt_valid {W : World} {v : Option VertexId} {t f : Name} {ty : QTy}
    (h : activeOK W.D v t = true) (hp : W.S.propTy? t f = some ty) (x : VertexId) (hx : v = some x) :
    validQ ty (W.D.propOpt v f) = true := by
  subst hx
  exact prop_valid (by simpa [activeOK] using h) hp

/-! ### the checking adapter on calls that honour the contract -/

theorem checked_prop {W : World} {vid : Vid} {t f : Name} {v : Option VertexId}
    (ht : W.S.isVertexType t = true) (hp : (W.S.propTy? t f).isSome = true)
    (hv : activeOK W.D v t = true) :
    W.env.adapter.prop vid t f v = .ok (W.D.propOpt v f) := by
  simp [World.env, Env.checked, checkedAdapter, Data.adapter, ht, hv]
  intro _ h
  simp [h] at hp

theorem adapter_coerce_some (D : Data) (vid : Vid) (t to : Name) (x : VertexId) :
    D.adapter.coerce vid t to (some x) = .ok (D.isA x to) := rfl

theorem adapter_coerce_none (D : Data) (vid : Vid) (t to : Name) :
    D.adapter.coerce vid t to none = .ok false := rfl

theorem checked_coerce {W : World} {vid : Vid} {t to : Name} {v : Option VertexId}
    (hc : coercionOK W.S t to = true) (hv : activeOK W.D v t = true) :
    W.env.adapter.coerce vid t to v = W.D.adapter.coerce vid t to v := by
  have ht : W.S.isVertexType t = true := by
    simp only [coercionOK, Bool.and_eq_true, SchemaView.isIface] at hc
    unfold SchemaView.isVertexType
    cases h : W.S.type? t with
    | none => simp [h] at hc
    | some _ => rfl
  simp [World.env, Env.checked, checkedAdapter, ht, hc, hv]

theorem checked_nbrs {W : World} {eid : Eid} {t e target : Name} {ps : Params} {v : Option VertexId}
    (hd : edgeDeclOK W.S t e target ps = true) (hv : activeOK W.D v t = true) :
    W.env.adapter.nbrs eid t e ps v = .ok (W.D.nbrsOpt v e ps) := by
  simp only [edgeDeclOK, Bool.and_eq_true] at hd
  cases he : W.S.edge? t e with
  | none => simp [he] at hd
  | some ei =>
    simp only [he, Bool.and_eq_true] at hd
    simp [World.env, Env.checked, checkedAdapter, Data.adapter, hd.1, he, hd.2.2, hv]

/-- neighbours along an edge declared on a type the vertex is an instance of are instances of the
edge's target -/
theorem nbrs_inst {W : World} {x : VertexId} {t e target : Name} {ps : Params}
    (hd : edgeDeclOK W.S t e target ps = true) (hx : instOf W.D x t = true) :
    ∀ n ∈ W.D.nbrs x e ps, instOf W.D n target = true := by
  intro n hn
  simp only [edgeDeclOK, Bool.and_eq_true] at hd
  cases he : W.S.edge? t e with
  | none => simp [he] at hd
  | some ei =>
    simp only [he, Bool.and_eq_true, beq_iff_eq] at hd
    obtain ⟨vd, hv, _, ht⟩ := instOf_vertex hx
    unfold Data.nbrs at hn
    split at hn
    · rename_i a ha
      have hamem : a ∈ W.D.adj := List.mem_of_find?_eq_some ha
      have hapred := List.find?_some ha
      simp only [Bool.and_eq_true, beq_iff_eq] at hapred
      have hc := W.conf
      simp only [Conforms, Bool.and_eq_true, List.all_eq_true] at hc
      have hadj := hc.1.2 a hamem
      unfold adjConforms at hadj
      rw [hapred.1.1, hv] at hadj
      simp only [List.all_eq_true] at hadj
      have := hadj t ht
      rw [hapred.1.2, he] at this
      simp only [List.all_eq_true] at this
      rw [← hd.2.1]
      exact this n hn
    · simp at hn

theorem start_inst {W : World} {e target : Name} {ps : Params} {ei : EdgeInfo}
    (he : W.S.root? e = some ei) (ht : ei.target = target) :
    ∀ n ∈ W.D.start e ps, instOf W.D n target = true := by
  intro n hn
  unfold Data.start at hn
  split at hn
  · rename_i a ha
    have hamem : a ∈ W.D.starts := List.mem_of_find?_eq_some ha
    have hapred := List.find?_some ha
    simp only [Bool.and_eq_true, beq_iff_eq] at hapred
    have hc := W.conf
    simp only [Conforms, Bool.and_eq_true, List.all_eq_true] at hc
    have hs := hc.2 a hamem
    unfold startConforms at hs
    rw [hapred.1, he] at hs
    simp only [List.all_eq_true] at hs
    rw [← ht]
    exact hs n hn
  · simp at hn

end TF.Engine
