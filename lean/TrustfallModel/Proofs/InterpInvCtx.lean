/-
The shared invariant machinery of C13 / C21 / C09: the per-context invariant (on the fields of a
`DataContext`) and its preservation by every stage of the interpreter model, run under the
contract-checking adapter (`World.env`).  Each stage lemma has the form `Safe W.G Q (stage …)`:
no panic except at a known site in the presence of a known trigger, and `Q` on success.
-/
import TrustfallModel.Proofs.InterpInvBase
import TrustfallModel.Proofs.InterpInvLists
-- import TrustfallModel.Proofs.InterpInvFilter

namespace TF.Engine
open TF
open TF.Frontend (SchemaView EdgeInfo ParamDecl TypeInfo)

/-! ### the invariant, field by field -/

/-- `DataContext::vertices` between two stages. -/
structure VertsOK (W : World) (comp : Component) (st : WState)
    (vs : List (Vid × Option VertexId)) : Prop where
  keys : vs.map (·.1) = st.recorded
  inst : ∀ vid x, lookupV vs vid = some (some x) →
    ∃ vx, comp.vertex? vid = some vx ∧ instOf W.D x vx.typeName = true
  opt : ∀ vid, lookupV vs vid = some none → vid ∈ optionalVertices st.edgesDone
  noneClosed : ∀ e ∈ st.edgesDone, lookupV vs e.fromVid = some none → lookupV vs e.toVid = some none
  ends : ∀ e ∈ st.edgesDone, e.fromVid ∈ st.recorded ∧ e.toVid ∈ st.recorded

def lookupC (fc : List (Eid × Option Nat)) (e : Eid) : Option (Option Nat) :=
  (fc.find? (·.1 == e)).map (·.2)

theorem foldCount?_eq (c : Ctx) (e : Eid) : c.foldCount? e = lookupC c.foldCounts e := rfl

def lookupT (tags : List (TagKey × Tagged)) (k : TagKey) : Option Tagged :=
  (tags.find? (·.1 == k)).map (·.2)

theorem tag?_eq (c : Ctx) (k : TagKey) : c.tag? k = lookupT c.importedTags k := rfl

def tagTyped (r : FieldRef) : Tagged → Prop
  | .nonexistent => True
  | .some v => validQ (fieldRefTy r) v = true

/-- `imported_tags` holds (at least) what the enclosing folds import, typed as declared. -/
def TagsOK (chain : List FieldRef) (tags : List (TagKey × Tagged)) : Prop :=
  ∀ r ∈ chain, ∃ t, lookupT tags r.key = some t ∧ tagTyped r t

/-- `folded_contexts` has exactly the folds computed so far. -/
def CountsOK (eids : List Eid) (fc : List (Eid × Option Nat)) : Prop := fc.map (·.1) = eids

/-- `folded_values`: exactly the keys of the folds computed so far, each value valid for a
declared output of that name (types relative to the component). -/
structure FoldedOK (comp : Component) (foldsDone : List Fold)
    (fv : List ((Eid × Name) × Option Value)) : Prop where
  keys : fv.map (·.1) = foldsDone.flatMap keysOfFold
  typed : ∀ p ∈ fv, ∃ d ∈ declaredOutputsFolds foldsDone (optionalVertices comp.edges) [],
    d.name = p.1.2 ∧ validQ d.ty (p.2.getD .null) = true

/-- The invariant of a context between two stages of `compute_component` (everything but the
active vertex). -/
structure CtxCore (W : World) (comp : Component) (chain : List FieldRef) (st : WState) (c : Ctx) :
    Prop where
  verts : VertsOK W comp st c.vertices
  vals : c.values = []
  counts : CountsOK (st.foldsDone.map (·.eid)) c.foldCounts
  folded : FoldedOK comp st.foldsDone c.foldedValues
  tags : TagsOK chain c.importedTags

/-- … and the active vertex is the one recorded for `st.active`. -/
structure CtxOK (W : World) (comp : Component) (chain : List FieldRef) (st : WState) (c : Ctx) :
    Prop extends CtxCore W comp chain st c where
  act : lookupV c.vertices st.active = some c.active

theorem lookupC_isSome {fc : List (Eid × Option Nat)} {e : Eid} :
    (lookupC fc e).isSome = true ↔ e ∈ fc.map (·.1) := by
  induction fc with
  | nil => simp [lookupC]
  | cons p ps ih =>
    simp only [lookupC, List.find?_cons, List.map_cons, List.mem_cons] at *
    by_cases h : p.1 = e
    · simp [h]
    · have : (p.1 == e) = false := by simpa using h
      simp [this, Ne.symm h]

theorem lookupC_of_mem {fc : List (Eid × Option Nat)} {e : Eid} (h : e ∈ fc.map (·.1)) :
    ∃ a, lookupC fc e = some a := by
  have := lookupC_isSome.mpr h
  cases h' : lookupC fc e with
  | none => simp [h'] at this
  | some a => exact ⟨a, rfl⟩

theorem lookupC_none {fc : List (Eid × Option Nat)} {e : Eid} (h : e ∉ fc.map (·.1)) :
    lookupC fc e = none := by
  cases h' : lookupC fc e with
  | none => rfl
  | some a => exact absurd (lookupC_isSome.mp (by simp [h'])) h

/-! ### component-level facts extracted from the decidable hypotheses -/

theorem vertex?_vid {comp : Component} {vid : Vid} {v : IRVertex} (h : comp.vertex? vid = some v) :
    v.vid = vid := by
  have := List.find?_some h
  simpa using this

theorem vertex?_mem {comp : Component} {vid : Vid} {v : IRVertex} (h : comp.vertex? vid = some v) :
    v ∈ comp.vertices := List.mem_of_find?_eq_some h

theorem typeOf_ok {comp : Component} {vid : Vid} {v : IRVertex} (h : comp.vertex? vid = some v) :
    comp.typeOf vid = .ok v.typeName := by
  simp [Component.typeOf, h]

/-- The typing of a vertex by the schema, from `soLocal`. -/
theorem vertexTyped_of {W : World} {chain} {comp : Component} (h : soLocal W.S chain comp = true)
    {vid : Vid} {v : IRVertex} (hv : comp.vertex? vid = some v) : vertexTyped W.S comp v = true := by
  simp only [soLocal, Bool.and_eq_true, List.all_eq_true] at h
  exact h.1.1.1 v (vertex?_mem hv)

end TF.Engine
