/-
Definitions shared by C13 (rows typed as declared), C21 (adapter calls honour the contract) and C09
(no panic on accepted queries): the *decidable* hypotheses under which the engine model `Interp` is
analysed and the contract-checking adapter (the per-context invariant `CtxOK` is in
`Proofs/InterpInvCtx.lean`).

All hypotheses are `Bool`-valued so that the driver (`Driver/EngineHyps.lean`) can evaluate them on
every real request:

* `WFq ir`          structural well-formedness the engine relies on (an execution-order walk of every
                    component: `checkVisited` discipline, recorded-before-use for every vertex a tag /
                    fold / output refers to, imports covering outer tags, no tag imported twice by one
                    fold, fresh `folded_values` keys, distinct output names, variables declared);
* `ArgsOK ir args`  (in `Model/Args.lean`) the engine's own argument validation accepts;
* `SchemaOK S ir`   the IR is typed by the schema `S` (vertex types, properties with the recorded type,
                    edges with exactly the declared parameters, coercions to strict subtypes of
                    interfaces, operand types admissible per `operand_types_valid`, variable types as
                    inferred by `infer_variable_type`);
* `Conforms S D`    the dataset is typed by the schema;
* `NoKnownTrigger D ir args`  neither of the two known panic triggers F-4, F-5 is present
                    (needs `D` only for its regex table: "does this pattern compile").

History: the guard used to have four clauses.  F-9 (`unreachable!` in `apply_fold_specific_filter` on a
fold inside a missing `@optional` scope) and F-10 (the frontend listed a tag twice in a fold's
`imported_tags`, the second `imported_tags.remove(..).unwrap()` failed) were fixed in the engine: the
F-9 site no longer exists in the model, and "no tag imported twice by one fold" is now a structural
property the frontend guarantees, hence part of `WFq` (`tagKeysDistinct` in `stageWf`); under `WFq` the
`imported_tags.remove(..).unwrap()` site is unreachable.

No Mathlib; compiled into the native driver.
-/
import TrustfallModel.Model.Interp
import TrustfallModel.Model.Outputs
import TrustfallModel.Model.Frontend
import TrustfallModel.Model.Args

namespace TF.Engine
open TF
open TF.Frontend (SchemaView EdgeInfo ParamDecl TypeInfo)

/-! ### generic helpers -/

def distinctNames : List Name → Bool
  | [] => true
  | n :: rest => !rest.contains n && distinctNames rest

def fieldRefEq : FieldRef → FieldRef → Bool
  | .ctx v f t, .ctx v' f' t' => v == v' && f == f' && t == t'
  | .fcount e r, .fcount e' r' => e == e' && r == r'
  | _, _ => false

def refMem (r : FieldRef) (l : List FieldRef) : Bool := l.any (fieldRefEq r)

/-- `FieldRef::field_type`. -/
def fieldRefTy : FieldRef → QTy
  | .ctx _ _ t => t
  | .fcount _ _ => ⟨"Int", [false]⟩

/- A predicate on every component of a query, each with the chain of `FieldRef`s imported by its
enclosing folds (innermost fold's imports first). -/
mutual
def allComps (p : List FieldRef → Component → Bool) (chain : List FieldRef) : Component → Bool
  | .mk r vs es fs os => p chain (.mk r vs es fs os) && allCompsF p chain fs
def allCompsF (p : List FieldRef → Component → Bool) (chain : List FieldRef) : List Fold → Bool
  | [] => true
  | .mk _ _ _ _ _ c imports _ _ :: rest => allComps p (imports ++ chain) c && allCompsF p chain rest
end

/-- The stages of `compute_component` (`none`: an edge and a fold share an Eid). -/
def stagesOf (comp : Component) : Option (List Stage) :=
  match mergeStages comp.edges comp.folds (comp.edges.length + comp.folds.length) with
  | .ok l => some l
  | _ => none

/-- The `folded_values` keys one fold contributes to a surviving context. -/
def keysOfFold (f : Fold) : List (Eid × Name) :=
  (f.fouts.map fun n => (f.eid, n)) ++ (f.component.outputs.map fun o => (f.eid, o.name)) ++
    nestedKeys f.component

def keyEq (a b : Eid × Name) : Bool := a.1 == b.1 && a.2 == b.2

/-- The pre-coercion type of a vertex: what the edge leading to it promises. -/
def IRVertex.preType (v : IRVertex) : Name := v.coercedFrom.getD v.typeName

/-! ### the execution-order walk -/

/-- What is statically known about every context between two stages of a component. -/
structure WState where
  /-- Vids in `DataContext::vertices`, in recording order -/
  recorded : List Vid
  /-- `visited_vids` of `compute_component` -/
  visited : List Vid
  /-- folds already computed, in order -/
  foldsDone : List Fold
  /-- edges already expanded, in order -/
  edgesDone : List IREdge
  /-- the Vid whose vertex is the active one -/
  active : Vid

def WState.init (root : Vid) : WState := ⟨[root], [root], [], [], root⟩

def WState.afterEdge (st : WState) (e : IREdge) : WState :=
  ⟨st.recorded ++ [e.toVid], e.toVid :: st.visited, st.foldsDone, st.edgesDone ++ [e], e.toVid⟩

def WState.afterFold (st : WState) (f : Fold) : WState :=
  ⟨st.recorded, f.toVid :: st.visited, st.foldsDone ++ [f], st.edgesDone, f.fromVid⟩

def WState.after (st : WState) : Stage → WState
  | .edge e => st.afterEdge e
  | .fold f => st.afterFold f

def WState.run (st : WState) (stages : List Stage) : WState := stages.foldl WState.after st

/-- `a` is `F` or a descendant of `F` along the given (already expanded) edges. -/
def ancOrSelf (edges : List IREdge) (F : Vid) : Nat → Vid → Bool
  | 0, a => a == F
  | k + 1, a => a == F || edges.any fun e => e.toVid == a && ancOrSelf edges F k e.fromVid

/-- A tag operand used at vertex `cur` is available: the vertex itself, a vertex of this component
recorded earlier, a fold of this component computed earlier, or imported by an enclosing fold. -/
def tagWf (comp : Component) (chain : List FieldRef) (recorded : List Vid) (foldsDone : List Eid)
    (cur : Vid) : FieldRef → Bool
  | .ctx vid f ty =>
    vid == cur ||
      (match comp.vertex? vid with
        | some _ => recorded.contains vid
        | none => refMem (.ctx vid f ty) chain)
  | .fcount eid rv =>
    if comp.folds.any (·.eid == eid) then foldsDone.contains eid else refMem (.fcount eid rv) chain

/-- One filter: vertex filters are on a local field, post-filters on the count; a binary operator has
an argument; a variable is declared with a type whose values are valid for the use; a tag is
available. -/
def filterWf (vars : List (Name × QTy)) (comp : Component) (chain : List FieldRef)
    (recorded : List Vid) (foldsDone : List Eid) (cur : Vid) (isPost : Bool) (f : IRFilter) : Bool :=
  (match f.left with
    | .loc _ _ => !isPost
    | .count => isPost) &&
  (match f.op, f.right with
    | .un _, _ => true
    | .bin _, none => false
    | .bin _, some (.var n ty) =>
      (match vars.find? (·.1 == n) with
        | some (_, qty) => ty.isScalarOnlySubtype qty
        | none => false)
    | .bin _, some (.tag r) => tagWf comp chain recorded foldsDone cur r)

/-- no tag is imported twice (what the fixed `reference_tag` of the frontend guarantees for a fold's
`imported_tags`; the engine's `imported_tags.remove(..).unwrap()` per import relies on it) -/
def tagKeysDistinct : List FieldRef → Bool
  | [] => true
  | r :: rest => !(rest.any fun r' => r'.key == r.key) && tagKeysDistinct rest

def importWf (comp : Component) (chain : List FieldRef) (st : WState) : FieldRef → Bool
  | .ctx vid f _ =>
    (comp.vertex? vid).isSome && st.recorded.contains vid &&
      !(chain.any fun r => r.key == TagKey.ctx vid f)
  | .fcount eid _ =>
    (st.foldsDone.map (·.eid)).contains eid && !(chain.any fun r => r.key == TagKey.fcount eid)

def stageWf (vars : List (Name × QTy)) (comp : Component) (chain : List FieldRef) (st : WState) :
    Stage → Bool
  | .edge e =>
    st.visited.contains e.fromVid && !st.visited.contains e.toVid && !(e.fromVid == e.toVid) &&
    st.recorded.contains e.fromVid && !st.recorded.contains e.toVid &&
    (comp.vertex? e.fromVid).isSome &&
    (match comp.vertex? e.toVid with
      | some toV =>
        toV.filters.all
          (filterWf vars comp chain st.recorded (st.foldsDone.map (·.eid)) toV.vid false)
      | none => false) &&
    (match e.recursive with
      | some _ => ancOrSelf st.edgesDone e.fromVid st.edgesDone.length st.active
      | none => true)
  | .fold f =>
    st.visited.contains f.fromVid && !st.visited.contains f.toVid && !(f.fromVid == f.toVid) &&
    st.recorded.contains f.fromVid && (comp.vertex? f.fromVid).isSome &&
    !(st.foldsDone.map (·.eid)).contains f.eid &&
    f.imports.all (importWf comp chain st) && tagKeysDistinct f.imports &&
    f.post.all (filterWf vars comp chain st.recorded (st.foldsDone.map (·.eid) ++ [f.eid])
      f.fromVid true) &&
    (keysOfFold f).all (fun k => !((st.foldsDone.flatMap keysOfFold).any (keyEq k)))

def stagesWf (vars : List (Name × QTy)) (comp : Component) (chain : List FieldRef) :
    List Stage → WState → Bool
  | [], _ => true
  | s :: rest, st => stageWf vars comp chain st s && stagesWf vars comp chain rest (st.after s)

/-- The walk of one component (nested components are visited by `allComps`). -/
def wfLocal (vars : List (Name × QTy)) (chain : List FieldRef) (comp : Component) : Bool :=
  match comp.vertex? comp.root, stagesOf comp with
  | some rootV, some stages =>
    rootV.filters.all (filterWf vars comp chain [] [] rootV.vid false) &&
    stagesWf vars comp chain stages (WState.init comp.root) &&
    (let fin := (WState.init comp.root).run stages
     comp.outputs.all (fun o => (comp.vertex? o.vid).isSome && fin.recorded.contains o.vid) &&
     distinctNames (comp.outputs.map (·.name) ++ (fin.foldsDone.flatMap keysOfFold).map (·.2)))
  | _, _ => false

/-- Structural well-formedness of a compiled query, as the engine relies on it. -/
def WFq (ir : IRQuery) : Bool := allComps (wfLocal ir.variables) [] ir.rootComponent

/-! ### typing of the IR by the schema -/

def _root_.TF.Frontend.SchemaView.isIface (S : SchemaView) (t : Name) : Bool :=
  match S.type? t with
  | some ti => ti.isIface
  | none => false

/-- `sub` is `sup` or one of its strict subtypes. -/
def _root_.TF.Frontend.SchemaView.subOrEq (S : SchemaView) (sup sub : Name) : Bool :=
  sup == sub || (S.supersOf sub).contains sup

/-- the contract of `resolve_coercion`: `from` is an interface defined in the schema and `to` a
defined type that implements it -/
def coercionOK (S : SchemaView) (fromT toT : Name) : Bool :=
  S.isIface fromT && S.isVertexType toT && (S.supersOf toT).contains fromT

/-- The parameter tuple is exactly the declared one, each value valid for its declared type. -/
def paramsOK (decl : List ParamDecl) (ps : Params) : Bool :=
  decl.all (fun d => ps.any (·.1 == d.name)) &&
  ps.all (fun p =>
    match decl.find? (·.name == p.1) with
    | some d => validQ d.ty p.2
    | none => false)

def inferredOK (leftTy : QTy) (o : Filter.BinOp) (vt : QTy) : Bool :=
  match Frontend.inferVariableType leftTy o with
  | .ok t => t == vt
  | .error _ => false

/-- the type the schema gives to a tag operand defined in this component (`none`: imported) -/
def localRefTyOK (S : SchemaView) (comp : Component) (curType : Name) (cur : Vid) : FieldRef → Bool
  | .ctx vid f ty =>
    if vid == cur then S.propTy? curType f == some ty
    else
      match comp.vertex? vid with
      | some vx => S.propTy? vx.typeName f == some ty
      | none => true
  | .fcount _ _ => true

/-- operand types of one filter whose left operand has type `leftTy` -/
def filterTyped (S : SchemaView) (comp : Component) (curType : Name) (cur : Vid) (leftTy : QTy)
    (f : IRFilter) : Bool :=
  match f.op, f.right with
  | .bin o, some (.var _ vt) => inferredOK leftTy o vt && Frontend.binTypesValid leftTy vt o
  | .bin o, some (.tag r) =>
    localRefTyOK S comp curType cur r && Frontend.binTypesValid leftTy (fieldRefTy r) o
  | _, _ => true

def vertexFilterTyped (S : SchemaView) (comp : Component) (v : IRVertex) (f : IRFilter) : Bool :=
  match f.left with
  | .loc field ty =>
    S.propTy? v.typeName field == some ty && filterTyped S comp v.typeName v.vid ty f
  | .count => false

def vertexTyped (S : SchemaView) (comp : Component) (v : IRVertex) : Bool :=
  S.isVertexType v.typeName &&
  (match v.coercedFrom with
    | some ft => coercionOK S ft v.typeName
    | none => true) &&
  v.filters.all (vertexFilterTyped S comp v)

def edgeDeclOK (S : SchemaView) (onType edge target : Name) (ps : Params) : Bool :=
  S.isVertexType onType &&
  (match S.edge? onType edge with
    | some ei => ei.target == target && paramsOK ei.params ps
    | none => false)

def edgeTyped (S : SchemaView) (comp : Component) (e : IREdge) : Bool :=
  match comp.vertex? e.fromVid, comp.vertex? e.toVid with
  | some fromV, some toV =>
    edgeDeclOK S fromV.typeName e.name toV.preType e.params &&
    (match e.recursive with
      | none => true
      | some r =>
        S.subOrEq toV.preType fromV.typeName &&
        edgeDeclOK S (r.coerceTo.getD toV.preType) e.name toV.preType e.params &&
        (match r.coerceTo with
          | some t => coercionOK S toV.preType t
          | none => true))
  | _, _ => false

def importTyped (S : SchemaView) (comp : Component) : FieldRef → Bool
  | .ctx vid f ty =>
    (match comp.vertex? vid with
      | some vx => S.isVertexType vx.typeName && S.propTy? vx.typeName f == some ty
      | none => false)
  | .fcount _ _ => true

def foldTyped (S : SchemaView) (comp : Component) (f : Fold) : Bool :=
  match comp.vertex? f.fromVid, f.component.vertex? f.component.root with
  | some fromV, some rootV =>
    edgeDeclOK S fromV.typeName f.name rootV.preType f.params &&
    f.imports.all (importTyped S comp) &&
    f.post.all (filterTyped S comp fromV.typeName f.fromVid ⟨"Int", [false]⟩)
  | _, _ => false

def outputTyped (S : SchemaView) (comp : Component) (o : OutputDef) : Bool :=
  match comp.vertex? o.vid with
  | some vx => S.propTy? vx.typeName o.field == some o.ty && !o.ty.nulls.isEmpty
  | none => false

def soLocal (S : SchemaView) (_chain : List FieldRef) (comp : Component) : Bool :=
  comp.vertices.all (vertexTyped S comp) &&
  comp.edges.all (edgeTyped S comp) &&
  comp.folds.all (foldTyped S comp) &&
  comp.outputs.all (outputTyped S comp)

/-- The compiled query is typed by the schema. -/
def SchemaOK (S : SchemaView) (ir : IRQuery) : Bool :=
  (match S.root? ir.rootName, ir.rootComponent.vertex? ir.rootComponent.root with
    | some ei, some rootV => ei.target == rootV.preType && paramsOK ei.params ir.rootParams
    | _, _ => false) &&
  allComps (soLocal S) [] ir.rootComponent

/-! ### typing of the dataset by the schema -/

/-- `x` is a vertex of the dataset whose concrete type is `t` or a subtype of `t`. -/
def instOf (D : Data) (x : VertexId) (t : Name) : Bool :=
  match D.vertex? x with
  | some vd => (D.supers vd.typeName).contains t
  | none => false

/-- `None`, or an instance of `t`. -/
def activeOK (D : Data) (v : Option VertexId) (t : Name) : Bool :=
  match v with
  | some x => instOf D x t
  | none => true

def VertexData.prop (vd : VertexData) (field : Name) : Value :=
  if field == "__typename" then .string (Data.strBytes vd.typeName)
  else
    match vd.props.find? (·.1 == field) with
    | some (_, x) => x
    | none => .null

def vertexConforms (S : SchemaView) (D : Data) (vd : VertexData) : Bool :=
  -- the concrete type is a defined object type
  (match S.type? vd.typeName with
    | some ti => !ti.isIface
    | none => false) &&
  -- the supertypes the dataset knows are closed under the schema's supertype relation
  (D.supers vd.typeName).all (fun t =>
    (S.supersOf t).all fun u => (D.supers vd.typeName).contains u) &&
  -- every property of every type the vertex is an instance of holds a valid value
  (D.supers vd.typeName).all (fun t =>
    match S.type? t with
    | some ti => ti.props.all fun p => validQ p.2 (vd.prop p.1)
    | none => true)

def adjConforms (S : SchemaView) (D : Data) (a : AdjEntry) : Bool :=
  match D.vertex? a.vertex with
  | some vd =>
    (D.supers vd.typeName).all fun t =>
      match S.edge? t a.edge with
      | some ei => a.nbrs.all fun n => instOf D n ei.target
      | none => true
  | none => true

def startConforms (S : SchemaView) (D : Data) (s : StartEntry) : Bool :=
  match S.root? s.edge with
  | some ei => s.nbrs.all fun n => instOf D n ei.target
  | none => true

/-- The dataset is typed by the schema. -/
def Conforms (S : SchemaView) (D : Data) : Bool :=
  D.vertices.all (vertexConforms S D) && D.adj.all (adjConforms S D) &&
  D.starts.all (startConforms S D)

/-! ### the known panic triggers (DESIGN.md §6: F-4, F-5; F-9 and F-10 are fixed in the engine) -/

def isOrderingOp : Filter.BinOp → Bool
  | .lessThan | .lessThanOrEqual | .greaterThan | .greaterThanOrEqual => true
  | _ => false

/-- one filter whose left operand has type `leftTy` triggers neither F-4 nor F-5 -/
def filterNoTrigger (D : Data) (args : List (Name × Value)) (leftTy : QTy) (f : IRFilter) : Bool :=
  match f.op, f.right with
  | .bin o, some (.var n _) =>
    (!isOrderingOp o || leftTy.nulls.length ≤ 1) &&
    (!isRegexOp o ||
      (match args.find? (·.1 == n) with
        | some (_, .string p) => (D.regex p).isSome
        | _ => false))
  | .bin o, some (.tag _) => !isOrderingOp o || leftTy.nulls.length ≤ 1
  | _, _ => true

def vertexFilterNoTrigger (D : Data) (args : List (Name × Value)) (f : IRFilter) : Bool :=
  match f.left with
  | .loc _ ty => filterNoTrigger D args ty f
  | .count => true

def ntLocal (D : Data) (args : List (Name × Value)) (_chain : List FieldRef) (comp : Component) : Bool :=
  comp.vertices.all (fun v => v.filters.all (vertexFilterNoTrigger D args)) &&
  comp.folds.all (fun f => f.post.all (filterNoTrigger D args ⟨"Int", [false]⟩))

/-- None of the known panic triggers (F-4: a regex variable whose pattern does not compile; F-5: an
ordering operator on a list-typed left operand) is present. -/
def NoKnownTrigger (D : Data) (ir : IRQuery) (args : List (Name × Value)) : Bool :=
  allComps (ntLocal D args) [] ir.rootComponent

/-! ### the contract-checking adapter (C21) -/

/-- The table adapter wrapped by the adapter contract of `trait Adapter`
(`interpreter/mod.rs`): a call that breaks a clause the *caller* guarantees fails with
`contract:<clause>` instead of being answered. -/
def checkedAdapter (S : SchemaView) (D : Data) : Adapter where
  start := fun edge ps vid =>
    match S.root? edge with
    | none => .panic "contract:starting-edge-not-on-root-type"
    | some ei =>
      if paramsOK ei.params ps then D.adapter.start edge ps vid
      else .panic "contract:params"
  prop := fun vid t f v =>
    if !S.isVertexType t then .panic "contract:type-not-defined"
    else if !(f == "__typename" || (S.propTy? t f).isSome) then .panic "contract:property-not-on-type"
    else if !activeOK D v t then .panic "contract:vertex-not-instance-of-type"
    else D.adapter.prop vid t f v
  nbrs := fun eid t e ps v =>
    if !S.isVertexType t then .panic "contract:type-not-defined"
    else
      match S.edge? t e with
      | none => .panic "contract:edge-not-on-type"
      | some ei =>
        if !paramsOK ei.params ps then .panic "contract:params"
        else if !activeOK D v t then .panic "contract:vertex-not-instance-of-type"
        else D.adapter.nbrs eid t e ps v
  coerce := fun vid t to v =>
    if !S.isVertexType t then .panic "contract:type-not-defined"
    else if !coercionOK S t to then .panic "contract:coercion-target-not-subtype"
    else if !activeOK D v t then .panic "contract:vertex-not-instance-of-type"
    else D.adapter.coerce vid t to v

/-- The environment of the analysis: the table adapter under the contract check. -/
def Env.checked (S : SchemaView) (D : Data) (args : List (Name × Value)) : Env :=
  { Env.ofData D args with adapter := checkedAdapter S D }

/-- The panic sites of the two known defects (F-4, F-5). -/
def knownSite (s : String) : Bool :=
  s == "regex argument was not a valid regex" ||
  s == "filter operator: unreachable!"

def isContractSite (s : String) : Bool := "contract:".isPrefixOf s

end TF.Engine
