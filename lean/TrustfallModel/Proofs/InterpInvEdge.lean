/-
Invariant preservation, part 2: non-recursive edge expansion and the bookkeeping of recording the
new vertex.
-/
import TrustfallModel.Proofs.InterpInvVertex

namespace TF.Engine
open TF
open TF.Frontend (SchemaView EdgeInfo ParamDecl TypeInfo)

/-- Recording the destination of edge `e` (active vertex `a`) keeps the vertex invariant. -/
theorem VertsOK.record {W : World} {comp : Component} {st : WState}
    {vs : List (Vid × Option VertexId)} (h : VertsOK W comp st vs) (e : IREdge) {toV : IRVertex}
    (htoV : comp.vertex? e.toVid = some toV) (hfrom : e.fromVid ∈ st.recorded)
    (hfresh : e.toVid ∉ st.recorded)
    {a : Option VertexId} (hact : activeOK W.D a toV.typeName = true)
    (hopt : a = none → lookupV vs e.fromVid = some none ∨ e.optional = true)
    (hclosed : lookupV vs e.fromVid = some none → a = none) :
    VertsOK W comp (st.afterEdge e) (vs ++ [(e.toVid, a)]) := by
  have hnone : lookupV vs e.toVid = none := by
    rw [lookupV_none, h.keys]; exact hfresh
  have hne : e.fromVid ≠ e.toVid := fun heq => hfresh (heq ▸ hfrom)
  refine ⟨?_, ?_, ?_, ?_, ?_⟩
  · simp [WState.afterEdge, h.keys]
  · intro vid x hl
    rw [lookupV_append hnone] at hl
    split at hl
    · rename_i hv
      subst hv
      cases hl
      exact ⟨toV, htoV, by simpa [activeOK] using hact⟩
    · exact h.inst vid x hl
  · intro vid hl
    rw [lookupV_append hnone] at hl
    simp only [WState.afterEdge]
    split at hl
    · rename_i hv
      subst hv
      have ha : a = none := by cases hl; rfl
      rw [optionalVertices_snoc]
      have : (e.optional || (optionalVertices st.edgesDone).contains e.fromVid) = true := by
        rcases hopt ha with hf | ho
        · have := h.opt _ hf
          simp [this]
        · simp [ho]
      rw [if_pos this]
      simp
    · exact optionalVertices_mono _ _ (h.opt vid hl)
  · intro e' he' hl
    simp only [WState.afterEdge, List.mem_append, List.mem_singleton] at he'
    rcases he' with he' | rfl
    · obtain ⟨hf, ht⟩ := h.ends e' he'
      have h1 : e'.fromVid ≠ e.toVid := fun heq => hfresh (heq ▸ hf)
      have h2 : e'.toVid ≠ e.toVid := fun heq => hfresh (heq ▸ ht)
      rw [lookupV_append hnone, if_neg h1] at hl
      rw [lookupV_append hnone, if_neg h2]
      exact h.noneClosed e' he' hl
    · rw [lookupV_append hnone, if_neg hne] at hl
      rw [lookupV_append hnone, if_pos rfl, hclosed hl]
  · intro e' he'
    simp only [WState.afterEdge, List.mem_append, List.mem_singleton] at he' ⊢
    rcases he' with he' | rfl
    · obtain ⟨hf, ht⟩ := h.ends e' he'
      exact ⟨Or.inl hf, Or.inl ht⟩
    · exact ⟨Or.inl hfrom, Or.inr rfl⟩

theorem activate_ok {c : Ctx} {vid : Vid} {v : Option VertexId}
    (h : lookupV c.vertices vid = some v) : c.activate vid = .ok { c with active := v } := by
  simp [Ctx.activate, vertexAt?_eq, h]

/-- What the expansion of edge `e` promises about the new active vertex `a` of a context that came
from `c`. -/
structure NewActive (W : World) (e : IREdge) (target : Name) (c : Ctx) (a : Option VertexId) :
    Prop where
  inst : activeOK W.D a target = true
  opt : a = none → lookupV c.vertices e.fromVid = some none ∨ e.optional = true
  closed : lookupV c.vertices e.fromVid = some none → a = none

theorem expandNonRecursive_safe (W : World) {comp : Component} {chain : List FieldRef}
    {st : WState} {e : IREdge} {fromV : IRVertex} {target : Name}
    (hfromV : comp.vertex? e.fromVid = some fromV)
    (hdecl : edgeDeclOK W.S fromV.typeName e.name target e.params = true)
    (hrec : e.fromVid ∈ st.recorded)
    (ctxs : List Ctx) (hc : ∀ c ∈ ctxs, CtxCore W comp chain st c) :
    Safe W.G (fun out => ∀ c' ∈ out, ∃ c ∈ ctxs, ∃ a, c' = { c with active := a } ∧
        NewActive W e target c a)
      (expandNonRecursive W.env fromV.typeName e ctxs) := by
  unfold expandNonRecursive
  refine Safe.flatMapR (P := fun c => c ∈ ctxs) ?_ (fun x hx => hx)
  intro c _ hcm
  have hcore := hc c hcm
  have hrec' := hrec
  rw [← hcore.verts.keys] at hrec'
  obtain ⟨v, hv⟩ := lookupV_of_mem hrec'
  simp only [R.bind_eq_bind, R.pure_eq_ok, activate_ok hv, R.bind_ok']
  have hact : activeOK W.D v fromV.typeName = true := by
    cases v with
    | none => rfl
    | some x =>
      obtain ⟨vx, hvx, hinst⟩ := hcore.verts.inst _ x hv
      rw [hfromV] at hvx; cases hvx
      simpa [activeOK] using hinst
  rw [checked_nbrs hdecl hact]
  simp only [R.bind_ok', Safe.ok_iff, expandOne, List.mem_append, List.mem_map]
  intro c' hc'
  rcases hc' with ⟨n, hn, rfl⟩ | hc'
  · refine ⟨c, hcm, some n, rfl, ?_, ?_, ?_⟩
    · cases v with
      | none => simp [Data.nbrsOpt] at hn
      | some x =>
        have hx : instOf W.D x fromV.typeName = true := by simpa [activeOK] using hact
        simpa [activeOK] using nbrs_inst hdecl hx n hn
    · intro h; cases h
    · intro h
      rw [hv] at h
      cases h
      simp [Data.nbrsOpt] at hn
  · split at hc'
    · rename_i hcond
      simp only [List.mem_singleton] at hc'
      subst hc'
      refine ⟨c, hcm, none, rfl, rfl, ?_, fun _ => rfl⟩
      intro _
      simp only [Bool.or_eq_true, Bool.and_eq_true] at hcond
      rcases hcond with hn | ⟨_, ho⟩
      · left
        cases v with
        | none => exact hv
        | some x => simp at hn
      · right; exact ho
    · simp at hc'

/-- The core invariant only looks at the maps of a context. -/
theorem CtxCore.congr {W : World} {comp : Component} {chain : List FieldRef} {st : WState}
    {c c' : Ctx} (h : CtxCore W comp chain st c) (hv : c'.vertices = c.vertices)
    (hvals : c'.values = c.values) (hfc : c'.foldCounts = c.foldCounts)
    (hfv : c'.foldedValues = c.foldedValues) (ht : c'.importedTags = c.importedTags) :
    CtxCore W comp chain st c' :=
  ⟨hv ▸ h.verts, hvals ▸ h.vals, hfc ▸ h.counts, hfv ▸ h.folded, ht ▸ h.tags⟩

/-- Entering the destination vertex of an edge whose expansion produced `NewActive` contexts. -/
theorem enterNew_safe (W : World) {comp : Component} {chain : List FieldRef} {st : WState}
    {e : IREdge} {toV : IRVertex}
    (hso : soLocal W.S chain comp = true)
    (htoV : comp.vertex? e.toVid = some toV)
    (hwf : ∀ f ∈ toV.filters,
      filterWf W.vars comp chain st.recorded (st.foldsDone.map (·.eid)) toV.vid false f = true)
    (hnt : W.G → ∀ f ∈ toV.filters, vertexFilterNoTrigger W.D W.args f = true)
    (hfrom : e.fromVid ∈ st.recorded) (hfresh : e.toVid ∉ st.recorded)
    (orig mid : List Ctx) (horig : ∀ c ∈ orig, CtxCore W comp chain st c)
    (hmid : ∀ c' ∈ mid, ∃ c ∈ orig, ∃ a, c'.vertices = c.vertices ∧ c'.values = c.values ∧
      c'.foldCounts = c.foldCounts ∧ c'.foldedValues = c.foldedValues ∧
      c'.importedTags = c.importedTags ∧ c'.active = a ∧ NewActive W e toV.preType c a) :
    Safe W.G (fun out => ∀ c ∈ out, CtxOK W comp chain (st.afterEdge e) c)
      (enterVertex W.env comp toV mid) := by
  have hvid := vertex?_vid htoV
  have htoV' : comp.vertex? toV.vid = some toV := by rw [hvid]; exact htoV
  have hpre : ∀ c' ∈ mid, VPre W comp chain st (st.foldsDone.map (·.eid)) toV.preType c' := by
    intro c' hc'
    obtain ⟨c, hcm, a, hv, hvals, hfc, _, ht, ha, hnew⟩ := hmid c' hc'
    have h := horig c hcm
    exact ⟨hv ▸ h.verts, hfc ▸ h.counts, ht ▸ h.tags, ha ▸ hnew.inst, hvals ▸ h.vals⟩
  refine Safe.mono (enterVertex_safe W hso htoV' hwf hnt (hvid ▸ hfresh) mid hpre) ?_
  intro out hout c'' hc''
  obtain ⟨c', hc', hact, rfl⟩ := hout c'' hc''
  obtain ⟨c, hcm, a, hv, hvals, hfc, hfv, ht, ha, hnew⟩ := hmid c' hc'
  have h := horig c hcm
  have hverts : VertsOK W comp (st.afterEdge e) (c'.vertices ++ [(toV.vid, c'.active)]) := by
    rw [hv, ha, hvid]
    exact h.verts.record e htoV hfrom hfresh (ha ▸ hact) hnew.opt hnew.closed
  refine ⟨⟨hverts, ?_, ?_, ?_, ?_⟩, ?_⟩
  · exact hvals ▸ h.vals
  · exact hfc ▸ h.counts
  · exact hfv ▸ h.folded
  · exact ht ▸ h.tags
  · have hnone : lookupV c'.vertices toV.vid = none := by
      rw [lookupV_none, hv, h.verts.keys, hvid]; exact hfresh
    simp only [WState.afterEdge]
    rw [lookupV_append hnone, hvid]
    simp

end TF.Engine
