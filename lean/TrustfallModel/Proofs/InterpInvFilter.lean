/-
Auxiliary lemmas for the engine invariant proofs (C09 / C13 / C21):
A. value validity (`validNulls` / `validQ`): nullability weakening, scalar-only subtyping, the executed
   validator `validValueR` implies the relation, accepted arguments are valid, list inversion;
B. the filter operators never reach `Outcome.panic` on operands that are valid for admissible operand
   types (`binTypesValid`), outside the known triggers F-4 (regex) and F-5 (ordering on lists);
C. the fold-count limits (`foldLimits`) never panic when the post-filter variables are typed as
   inferred and hold valid values.
-/
import TrustfallModel.Proofs.InterpInvSafe

namespace TF.Engine
open TF

set_option linter.unusedSimpArgs false
set_option linter.unusedVariables false

/-! ### A. validity -/

theorem validNulls_nullable_top {n : Bool} {rest : List Bool} {base : Name} {v : Value}
    (h : validNulls (n :: rest) base v = true) : validNulls (true :: rest) base v = true := by
  cases v <;> simp_all [validNulls]

theorem levelsOk_isEmpty : ∀ {p s : List Bool}, QTy.levelsOk p s = true → p.isEmpty = s.isEmpty
  | [], [], _ => rfl
  | [], _ :: _, h => by simp [QTy.levelsOk] at h
  | _ :: _, [], h => by simp [QTy.levelsOk] at h
  | _ :: _, _ :: _, _ => rfl

mutual
theorem validNulls_levels : ∀ (v : Value) (p s : List Bool) (base : Name),
    QTy.levelsOk p s = true → validNulls s base v = true → validNulls p base v = true
  | .null, p, s, base, hl, h => by
    cases p <;> cases s <;> simp_all [validNulls, QTy.levelsOk]
  | .enum _, p, s, base, hl, h => by
    cases p <;> cases s <;> simp_all [validNulls, QTy.levelsOk]
  | .int64 _, p, s, base, hl, h => by
    cases p <;> cases s <;> simp_all [validNulls, QTy.levelsOk]
    have := levelsOk_isEmpty hl.2; simp_all
  | .uint64 _, p, s, base, hl, h => by
    cases p <;> cases s <;> simp_all [validNulls, QTy.levelsOk]
    have := levelsOk_isEmpty hl.2; simp_all
  | .float64 _, p, s, base, hl, h => by
    cases p <;> cases s <;> simp_all [validNulls, QTy.levelsOk]
    have := levelsOk_isEmpty hl.2; simp_all
  | .string _, p, s, base, hl, h => by
    cases p <;> cases s <;> simp_all [validNulls, QTy.levelsOk]
    have := levelsOk_isEmpty hl.2; simp_all
  | .boolean _, p, s, base, hl, h => by
    cases p <;> cases s <;> simp_all [validNulls, QTy.levelsOk]
    have := levelsOk_isEmpty hl.2; simp_all
  | .list items, p, s, base, hl, h => by
    cases p with
    | nil => cases s <;> simp_all [validNulls, QTy.levelsOk]
    | cons a p' =>
      cases s with
      | nil => simp [QTy.levelsOk] at hl
      | cons b s' =>
        simp only [QTy.levelsOk, Bool.and_eq_true] at hl
        simp only [validNulls, Bool.and_eq_true] at h ⊢
        have he := levelsOk_isEmpty hl.2
        exact ⟨by rw [he]; exact h.1, validNullsList_levels items p' s' base hl.2 h.2⟩
theorem validNullsList_levels : ∀ (l : List Value) (p s : List Bool) (base : Name),
    QTy.levelsOk p s = true → validNullsList s base l = true → validNullsList p base l = true
  | [], _, _, _, _, _ => by simp [validNullsList]
  | x :: xs, p, s, base, hl, h => by
    simp only [validNullsList, Bool.and_eq_true] at h ⊢
    exact ⟨validNulls_levels x p s base hl h.1, validNullsList_levels xs p s base hl h.2⟩
end

theorem validQ_of_scalarOnlySubtype {useTy qTy : QTy} {v : Value}
    (hs : useTy.isScalarOnlySubtype qTy = true) (hv : validQ qTy v = true) :
    validQ useTy v = true := by
  simp only [QTy.isScalarOnlySubtype, Bool.and_eq_true, beq_iff_eq] at hs
  unfold validQ at hv ⊢
  rw [hs.1]
  exact validNulls_levels v _ _ _ hs.2 hv

mutual
theorem validValueR_true' : ∀ (v : Value) (fl : List Bool) (base : Name),
    validValueR fl base v = .ok true → validNulls fl base v = true
  | .null, fl, base, h => by cases fl <;> simp_all [validValueR, validNulls]
  | .enum _, fl, base, h => by cases fl <;> simp_all [validValueR, validNulls]
  | .int64 _, fl, base, h => by cases fl <;> simp_all [validValueR, validNulls]
  | .uint64 _, fl, base, h => by cases fl <;> simp_all [validValueR, validNulls]
  | .float64 _, fl, base, h => by cases fl <;> simp_all [validValueR, validNulls]
  | .string _, fl, base, h => by cases fl <;> simp_all [validValueR, validNulls]
  | .boolean _, fl, base, h => by cases fl <;> simp_all [validValueR, validNulls]
  | .list items, fl, base, h => by
    cases fl with
    | nil => simp [validValueR] at h
    | cons a rest =>
      simp only [validValueR] at h
      simp only [validNulls, Bool.and_eq_true]
      by_cases he : rest.isEmpty = true
      · simp [he] at h
      · simp only [he] at h
        exact ⟨by simpa using he, validValuesR_true items rest base h⟩
theorem validValuesR_true : ∀ (l : List Value) (fl : List Bool) (base : Name),
    validValuesR fl base l = .ok true → validNullsList fl base l = true
  | [], _, _, _ => by simp [validNullsList]
  | x :: xs, fl, base, h => by
    simp only [validValuesR] at h
    simp only [validNullsList, Bool.and_eq_true]
    cases hx : validValueR fl base x with
    | ok b =>
      cases b with
      | true =>
        rw [hx] at h
        exact ⟨validValueR_true' x fl base hx, validValuesR_true xs fl base h⟩
      | false => rw [hx] at h; simp at h
    | panic s => rw [hx] at h; simp at h
    | fuel => rw [hx] at h; simp at h
end

theorem validValueR_true {fl : List Bool} {base : Name} {v : Value}
    (h : validValueR fl base v = .ok true) : validNulls fl base v = true :=
  validValueR_true' v fl base h

theorem argTypeErrs_nil {args : List (Name × Value)} : ∀ {vars : List (Name × QTy)},
    argTypeErrs args vars = .ok [] → ∀ n qty, (n, qty) ∈ vars → ∀ p, args.find? (·.1 == n) = some p →
      validQ qty p.2 = true
  | [], _, _, _, hm, _, _ => by simp at hm
  | (m, t) :: rest, h, n, qty, hm, p, hp => by
    simp only [argTypeErrs] at h
    cases hf : args.find? (·.1 == m) with
    | none =>
      rw [hf] at h
      simp only at h
      rcases List.mem_cons.mp hm with he | hm'
      · cases he; rw [hf] at hp; cases hp
      · exact argTypeErrs_nil h n qty hm' p hp
    | some q =>
      obtain ⟨qn, qv⟩ := q
      rw [hf] at h
      simp only at h
      cases hv : validValueR t.nulls t.base qv with
      | ok b =>
        rw [hv] at h
        simp only at h
        cases hr : argTypeErrs args rest with
        | ok es =>
          rw [hr] at h
          simp only at h
          cases b with
          | true =>
            simp only [if_true, R.ok.injEq] at h
            subst h
            rcases List.mem_cons.mp hm with he | hm'
            · cases he
              rw [hf] at hp; cases hp
              exact validValueR_true hv
            · exact argTypeErrs_nil hr n qty hm' p hp
          | false => simp at h
        | panic s => rw [hr] at h; simp at h
        | fuel => rw [hr] at h; simp at h
      | panic s => rw [hv] at h; simp at h
      | fuel => rw [hv] at h; simp at h

theorem argsOK_arg {ir : IRQuery} {args : List (Name × Value)} (h : ArgsOK ir args = true)
    {n : Name} {qty : QTy} (hm : (n, qty) ∈ ir.variables) :
    ∃ p, args.find? (·.1 == n) = some p ∧ validQ qty p.2 = true := by
  unfold ArgsOK validateArgs at h
  cases he : argTypeErrs args ir.variables with
  | ok es =>
    rw [he] at h
    simp only at h
    cases hmiss : (ir.variables.any fun (x : Name × QTy) => (args.find? (·.1 == x.1)).isNone) with
    | true =>
      rw [hmiss] at h
      simp at h
    | false =>
      rw [hmiss] at h
      cases es with
      | cons e es' => simp at h
      | nil =>
        rw [List.any_eq_false] at hmiss
        have := hmiss (n, qty) hm
        cases hf : args.find? (·.1 == n) with
        | none => simp [hf] at this
        | some p => exact ⟨p, rfl, argTypeErrs_nil he n qty hm p hf⟩
  | panic s => rw [he] at h; simp at h
  | fuel => rw [he] at h; simp at h

theorem validNullsList_iff {fl : List Bool} {base : Name} : ∀ {l : List Value},
    validNullsList fl base l = true ↔ ∀ x ∈ l, validNulls fl base x = true
  | [] => by simp [validNullsList]
  | x :: xs => by
    simp only [validNullsList, Bool.and_eq_true, List.mem_cons, forall_eq_or_imp]
    rw [validNullsList_iff (l := xs)]

theorem validNulls_list_inv {n b : Bool} {rest : List Bool} {base : Name} {l : List Value}
    (h : validNulls (n :: b :: rest) base (.list l) = true) :
    ∀ x ∈ l, validNulls (b :: rest) base x = true := by
  simp only [validNulls, Bool.and_eq_true] at h
  exact validNullsList_iff.mp h.2

theorem validNulls_list_intro {n b : Bool} {rest : List Bool} {base : Name} {l : List Value}
    (h : ∀ x ∈ l, validNulls (b :: rest) base x = true) :
    validNulls (n :: b :: rest) base (.list l) = true := by
  simp only [validNulls, Bool.and_eq_true]
  exact ⟨by simp, validNullsList_iff.mpr h⟩

/-! ### B. operators -/

/-- the shape of a valid value of a non-list type with base `base` -/
def scalarKindOK (base : Name) : Value → Bool
  | .null => true
  | .int64 _ | .uint64 _ => base == "Int"
  | .float64 _ => base == "Float"
  | .string _ => base == "String"
  | .boolean _ => base == "Boolean"
  | _ => false

def nullOrList : Value → Bool
  | .null | .list _ => true
  | _ => false

def nullOrString : Value → Bool
  | .null | .string _ => true
  | _ => false

theorem validNulls_ne_nil {fl : List Bool} {base : Name} {v : Value}
    (h : validNulls fl base v = true) : fl ≠ [] := by
  rintro rfl
  simp [validNulls] at h

theorem validQ_nonlist_inv {t : QTy} {v : Value} (hv : validQ t v = true)
    (hlen : t.nulls.length ≤ 1) : scalarKindOK t.base v = true := by
  unfold validQ at hv
  rcases hn : t.nulls with _ | ⟨n, _ | ⟨b, r⟩⟩
  · rw [hn] at hv; simp [validNulls] at hv
  · rw [hn] at hv
    cases v <;> simp_all [validNulls, scalarKindOK]
  · rw [hn] at hlen; simp at hlen

theorem validQ_string_inv {t : QTy} {v : Value} (hv : validQ t v = true)
    (hlen : t.nulls.length ≤ 1) (hb : t.base = "String") : v = .null ∨ ∃ s, v = .string s := by
  have := validQ_nonlist_inv hv hlen
  rw [hb] at this
  cases v <;> simp_all [scalarKindOK]

theorem validQ_isStringTy_inv {t : QTy} {v : Value} (hv : validQ t v = true)
    (hs : Frontend.isStringTy t = true) : nullOrString v = true := by
  simp only [Frontend.isStringTy, QTy.isList, Bool.and_eq_true, Bool.not_eq_true',
    decide_eq_false_iff_not, beq_iff_eq] at hs
  rcases validQ_string_inv hv (by omega) hs.2 with rfl | ⟨s, rfl⟩ <;> rfl

theorem validQ_list_inv {t inner : QTy} {v : Value} (hv : validQ t v = true)
    (hl : t.asList = some inner) : nullOrList v = true := by
  unfold validQ at hv
  unfold QTy.asList at hl
  rcases hn : t.nulls with _ | ⟨n, _ | ⟨b, r⟩⟩
  · rw [hn] at hl; simp at hl
  · rw [hn] at hl; simp at hl
  · rw [hn] at hv
    cases v <;> simp_all [validNulls, nullOrList]

theorem slowPathGreater_ok (op : Filter.CmpOp) (i : Int64) (u : UInt64) :
    (∃ b, Filter.slowPathGreater op (.int64 i) (.uint64 u) = .ok b) ∧
    (∃ b, Filter.slowPathGreater op (.uint64 u) (.int64 i) = .ok b) := by
  constructor
  · simp only [Filter.slowPathGreater]
    split
    · exact ⟨_, rfl⟩
    · split
      · exact ⟨_, rfl⟩
      · split
        · exact ⟨_, rfl⟩
        · omega
  · simp only [Filter.slowPathGreater]
    split
    · exact ⟨_, rfl⟩
    · split
      · exact ⟨_, rfl⟩
      · split
        · exact ⟨_, rfl⟩
        · omega

theorem slowPathLess_ok (op : Filter.CmpOp) (i : Int64) (u : UInt64) :
    (∃ b, Filter.slowPathLess op (.int64 i) (.uint64 u) = .ok b) ∧
    (∃ b, Filter.slowPathLess op (.uint64 u) (.int64 i) = .ok b) := by
  constructor
  · simp only [Filter.slowPathLess]
    split
    · exact ⟨_, rfl⟩
    · split
      · exact ⟨_, rfl⟩
      · split
        · exact ⟨_, rfl⟩
        · omega
  · simp only [Filter.slowPathLess]
    split
    · exact ⟨_, rfl⟩
    · split
      · exact ⟨_, rfl⟩
      · split
        · exact ⟨_, rfl⟩
        · omega

theorem comparisonOp_ok (op : Filter.CmpOp) (slow : Value → Value → Outcome Bool)
    (hslow : ∀ i u, (∃ b, slow (.int64 i) (.uint64 u) = .ok b) ∧
      (∃ b, slow (.uint64 u) (.int64 i) = .ok b))
    {base : Name} {l r : Value} (hl : scalarKindOK base l = true) (hr : scalarKindOK base r = true)
    (hb : base = "Int" ∨ base = "Float" ∨ base = "String") :
    ∃ b, Filter.comparisonOp op slow l r = .ok b := by
  rcases hb with rfl | rfl | rfl <;>
    cases l <;> cases r <;>
      simp_all [scalarKindOK, Filter.comparisonOp] <;>
      first
        | exact (hslow _ _).1
        | exact (hslow _ _).2

theorem ordering_kinds {lt rt : QTy} {l r : Value} (hl : validQ lt l = true)
    (hr : validQ rt r = true)
    (ht : (lt.isOrderable && rt.isOrderable && lt.eqIgnoringNullability rt) = true)
    (hlen : lt.nulls.length ≤ 1) :
    scalarKindOK lt.base l = true ∧ scalarKindOK lt.base r = true ∧
      (lt.base = "Int" ∨ lt.base = "Float" ∨ lt.base = "String") := by
  simp only [QTy.isOrderable, QTy.eqIgnoringNullability, Bool.and_eq_true, Bool.or_eq_true,
    beq_iff_eq] at ht
  obtain ⟨⟨ho, _⟩, hbase, hlen'⟩ := ht
  refine ⟨validQ_nonlist_inv hl hlen, ?_, ?_⟩
  · rw [hbase]; exact validQ_nonlist_inv hr (by omega)
  · rcases ho with (h | h) | h <;> simp [h]

theorem stringOp_ok (f : Bytes → Bytes → Bool) {l r : Value} (hl : nullOrString l = true)
    (hr : nullOrString r = true) : ∃ b, Filter.stringOp f l r = .ok b := by
  cases l <;> cases r <;> simp_all [nullOrString, Filter.stringOp]

theorem oneOf_ok (l : Value) {r : Value} (hr : nullOrList r = true) :
    ∃ b, Filter.oneOf l r = .ok b := by
  cases r <;> simp_all [nullOrList, Filter.oneOf]

theorem notOp_ok {ρ : Type} {f : Value → ρ → Outcome Bool} {l : Value} {r : ρ}
    (h : ∃ b, f l r = .ok b) : ∃ b, Filter.notOp f l r = .ok b := by
  obtain ⟨b, hb⟩ := h
  exact ⟨!b, by simp [Filter.notOp, hb, Outcome.map]⟩

theorem regexMatchesOptimized_ok (m : Bytes → Bool) {l : Value} (hl : nullOrString l = true) :
    ∃ b, Filter.regexMatchesOptimized m l = .ok b := by
  cases l <;> simp_all [nullOrString, Filter.regexMatchesOptimized]

theorem compileStaticRegex_ok (rx : Filter.RegexEngine) {r : Value}
    (h : ∃ p, r = .string p ∧ (rx p).isSome = true) :
    ∃ m, Filter.compileStaticRegex rx r = .ok m := by
  obtain ⟨p, rfl, hp⟩ := h
  cases hx : rx p with
  | none => simp [hx] at hp
  | some m => exact ⟨m, by simp [Filter.compileStaticRegex, hx]⟩

/-- the operators whose implementation is shared by the two dispatch tables -/
theorem applyCommon_ok (o : Filter.BinOp) (lt rt : QTy) (l r : Value)
    (hl : validQ lt l = true) (hr : validQ rt r = true)
    (ht : Frontend.binTypesValid lt rt o = true)
    (hord : isOrderingOp o = true → lt.nulls.length ≤ 1) (hrx : isRegexOp o = false)
    (rx : Filter.RegexEngine) :
    (∃ b, Filter.applyTagged rx o l r = .ok b) ∧ (∃ b, Filter.applyStatic rx o l r = .ok b) := by
  cases o
  case equals => exact ⟨⟨_, rfl⟩, ⟨_, rfl⟩⟩
  case notEquals => exact ⟨notOp_ok ⟨_, rfl⟩, notOp_ok ⟨_, rfl⟩⟩
  case lessThan =>
    obtain ⟨h1, h2, h3⟩ := ordering_kinds hl hr ht (hord rfl)
    exact ⟨comparisonOp_ok _ _ (slowPathLess_ok _) h1 h2 h3,
      comparisonOp_ok _ _ (slowPathLess_ok _) h1 h2 h3⟩
  case lessThanOrEqual =>
    obtain ⟨h1, h2, h3⟩ := ordering_kinds hl hr ht (hord rfl)
    exact ⟨comparisonOp_ok _ _ (slowPathLess_ok _) h1 h2 h3,
      comparisonOp_ok _ _ (slowPathLess_ok _) h1 h2 h3⟩
  case greaterThan =>
    obtain ⟨h1, h2, h3⟩ := ordering_kinds hl hr ht (hord rfl)
    exact ⟨comparisonOp_ok _ _ (slowPathGreater_ok _) h1 h2 h3,
      comparisonOp_ok _ _ (slowPathGreater_ok _) h1 h2 h3⟩
  case greaterThanOrEqual =>
    obtain ⟨h1, h2, h3⟩ := ordering_kinds hl hr ht (hord rfl)
    exact ⟨comparisonOp_ok _ _ (slowPathGreater_ok _) h1 h2 h3,
      comparisonOp_ok _ _ (slowPathGreater_ok _) h1 h2 h3⟩
  case contains =>
    simp only [Frontend.binTypesValid] at ht
    cases ha : lt.asList with
    | none => simp [ha] at ht
    | some inner =>
      have := oneOf_ok r (validQ_list_inv hl ha)
      exact ⟨this, this⟩
  case notContains =>
    simp only [Frontend.binTypesValid] at ht
    cases ha : lt.asList with
    | none => simp [ha] at ht
    | some inner =>
      have : ∃ b, Filter.contains l r = .ok b := oneOf_ok r (validQ_list_inv hl ha)
      exact ⟨notOp_ok this, notOp_ok this⟩
  case oneOf =>
    simp only [Frontend.binTypesValid] at ht
    cases ha : rt.asList with
    | none => simp [ha] at ht
    | some inner =>
      have := oneOf_ok l (validQ_list_inv hr ha)
      exact ⟨this, this⟩
  case notOneOf =>
    simp only [Frontend.binTypesValid] at ht
    cases ha : rt.asList with
    | none => simp [ha] at ht
    | some inner =>
      have := oneOf_ok l (validQ_list_inv hr ha)
      exact ⟨notOp_ok this, notOp_ok this⟩
  case hasPrefix =>
    simp only [Frontend.binTypesValid, Bool.and_eq_true] at ht
    have := stringOp_ok (fun l r => r.isPrefixOf l) (validQ_isStringTy_inv hl ht.1)
      (validQ_isStringTy_inv hr ht.2)
    exact ⟨this, this⟩
  case notHasPrefix =>
    simp only [Frontend.binTypesValid, Bool.and_eq_true] at ht
    have : ∃ b, Filter.hasPrefix l r = .ok b :=
      stringOp_ok _ (validQ_isStringTy_inv hl ht.1) (validQ_isStringTy_inv hr ht.2)
    exact ⟨notOp_ok this, notOp_ok this⟩
  case hasSuffix =>
    simp only [Frontend.binTypesValid, Bool.and_eq_true] at ht
    have : ∃ b, Filter.hasSuffix l r = .ok b :=
      stringOp_ok _ (validQ_isStringTy_inv hl ht.1) (validQ_isStringTy_inv hr ht.2)
    exact ⟨this, this⟩
  case notHasSuffix =>
    simp only [Frontend.binTypesValid, Bool.and_eq_true] at ht
    have : ∃ b, Filter.hasSuffix l r = .ok b :=
      stringOp_ok _ (validQ_isStringTy_inv hl ht.1) (validQ_isStringTy_inv hr ht.2)
    exact ⟨notOp_ok this, notOp_ok this⟩
  case hasSubstring =>
    simp only [Frontend.binTypesValid, Bool.and_eq_true] at ht
    have : ∃ b, Filter.hasSubstring l r = .ok b :=
      stringOp_ok _ (validQ_isStringTy_inv hl ht.1) (validQ_isStringTy_inv hr ht.2)
    exact ⟨this, this⟩
  case notHasSubstring =>
    simp only [Frontend.binTypesValid, Bool.and_eq_true] at ht
    have : ∃ b, Filter.hasSubstring l r = .ok b :=
      stringOp_ok _ (validQ_isStringTy_inv hl ht.1) (validQ_isStringTy_inv hr ht.2)
    exact ⟨notOp_ok this, notOp_ok this⟩
  case regexMatches => simp [isRegexOp] at hrx
  case notRegexMatches => simp [isRegexOp] at hrx

theorem applyTagged_ok (rx : Filter.RegexEngine) (o : Filter.BinOp) (lt rt : QTy) (l r : Value)
    (hl : validQ lt l = true) (hr : validQ rt r = true)
    (ht : Frontend.binTypesValid lt rt o = true)
    (hord : isOrderingOp o = true → lt.nulls.length ≤ 1) :
    ∃ b, Filter.applyTagged rx o l r = .ok b := by
  cases hx : isRegexOp o with
  | false => exact (applyCommon_ok o lt rt l r hl hr ht hord hx rx).1
  | true =>
    cases o <;> simp [isRegexOp] at hx
    · simp only [Frontend.binTypesValid, Bool.and_eq_true] at ht
      exact stringOp_ok _ (validQ_isStringTy_inv hl ht.1) (validQ_isStringTy_inv hr ht.2)
    · simp only [Frontend.binTypesValid, Bool.and_eq_true] at ht
      have : ∃ b, Filter.regexMatchesSlowPath rx l r = .ok b :=
        stringOp_ok _ (validQ_isStringTy_inv hl ht.1) (validQ_isStringTy_inv hr ht.2)
      exact notOp_ok this

theorem applyStatic_ok (rx : Filter.RegexEngine) (o : Filter.BinOp) (lt rt : QTy) (l r : Value)
    (hl : validQ lt l = true) (hr : validQ rt r = true)
    (ht : Frontend.binTypesValid lt rt o = true)
    (hord : isOrderingOp o = true → lt.nulls.length ≤ 1)
    (hrx : isRegexOp o = true → ∃ p, r = .string p ∧ (rx p).isSome = true) :
    ∃ b, Filter.applyStatic rx o l r = .ok b := by
  cases hx : isRegexOp o with
  | false => exact (applyCommon_ok o lt rt l r hl hr ht hord hx rx).2
  | true =>
    obtain ⟨m, hm⟩ := compileStaticRegex_ok rx (hrx hx)
    cases o <;> simp [isRegexOp] at hx
    · simp only [Frontend.binTypesValid, Bool.and_eq_true] at ht
      simp only [Filter.applyStatic, hm, Outcome.bind]
      exact regexMatchesOptimized_ok m (validQ_isStringTy_inv hl ht.1)
    · simp only [Frontend.binTypesValid, Bool.and_eq_true] at ht
      simp only [Filter.applyStatic, hm, Outcome.bind]
      have : ∃ b, (fun l (p : Bytes → Bool) => Filter.regexMatchesOptimized p l) l m = .ok b :=
        regexMatchesOptimized_ok m (validQ_isStringTy_inv hl ht.1)
      exact notOp_ok this

/-! ### C. fold-count limits -/

theorem QTy.beq_eq {a b : QTy} (h : (a == b) = true) : a = b := by
  obtain ⟨ab, an⟩ := a; obtain ⟨bb, bn⟩ := b
  simp only [BEq.beq, instBEqQTy.beq, Bool.and_eq_true, decide_eq_true_eq] at h
  obtain ⟨h1, h2⟩ := h
  have h2' : (an == bn) = true := h2
  rw [beq_iff_eq] at h2'
  simp_all

theorem inferredOK_inv {lt : QTy} {o : Filter.BinOp} {vt : QTy}
    (h : inferredOK lt o vt = true) : Frontend.inferVariableType lt o = .ok vt := by
  unfold inferredOK at h
  split at h
  · rename_i t ht
    rw [ht, QTy.beq_eq h]
  · cases h

theorem inferredOK_count_inv {o : Filter.BinOp} {vt : QTy}
    (h : inferredOK ⟨"Int", [false]⟩ o vt = true)
    (hb : Frontend.binTypesValid ⟨"Int", [false]⟩ vt o = true) :
    (o = .oneOf ∨ o = .notOneOf) ∧ vt = ⟨"Int", [false, false]⟩ ∨
      (o ≠ .oneOf ∧ o ≠ .notOneOf) ∧ vt = ⟨"Int", [false]⟩ := by
  have hi := inferredOK_inv h
  cases o <;>
    simp [Frontend.inferVariableType, QTy.withNullability, QTy.listOf, QTy.asList,
      Frontend.orErr, Frontend.binTypesValid, Frontend.isStringTy, QTy.isList] at hi hb ⊢ <;>
    first
      | exact hi.symm
      | (cases hi)

theorem usizeExpect_ok {v : Value} (h : validQ ⟨"Int", [false]⟩ v = true) :
    ∃ n, usizeExpect v = .ok n := by
  cases v <;>
    simp_all [validQ, validNulls, usizeExpect, usizeFromValue, R.bind]

theorem listMaxR_ok : ∀ {l : List Value} (h : ∀ x ∈ l, validQ ⟨"Int", [false]⟩ x = true),
    ∃ m, listMaxR l = .ok m
  | [], _ => ⟨none, rfl⟩
  | x :: xs, h => by
    obtain ⟨n, hn⟩ := usizeExpect_ok (h x (by simp))
    obtain ⟨m, hm⟩ := listMaxR_ok (l := xs) (fun y hy => h y (by simp [hy]))
    simp only [listMaxR, R.bind_eq_bind, R.pure_eq_ok, hn, hm, R.bind_ok']
    cases m <;> exact ⟨_, rfl⟩

def PostVarOK (env : Env) (f : IRFilter) : Prop :=
  ∀ o n vt, f.op = .bin o → f.right = some (.var n vt) →
    inferredOK ⟨"Int", [false]⟩ o vt = true ∧ Frontend.binTypesValid ⟨"Int", [false]⟩ vt o = true ∧
      ∃ v, env.arg n = .ok v ∧ validQ vt v = true

/-- a scalar count operand: the argument exists and is coercible to `usize` -/
theorem postVar_scalar {env : Env} {f : IRFilter} (h : PostVarOK env f) {o : Filter.BinOp}
    {n : Name} {vt : QTy} (ho : f.op = .bin o) (hr : f.right = some (.var n vt))
    (hno : o ≠ .oneOf ∧ o ≠ .notOneOf) :
    ∃ v k, env.arg n = .ok v ∧ usizeExpect v = .ok k := by
  obtain ⟨h1, h2, v, hv, hval⟩ := h o n vt ho hr
  rcases inferredOK_count_inv h1 h2 with ⟨ho' | ho', _⟩ | ⟨_, rfl⟩
  · exact absurd ho' hno.1
  · exact absurd ho' hno.2
  · obtain ⟨k, hk⟩ := usizeExpect_ok hval
    exact ⟨v, k, hv, hk⟩

theorem postVar_list {env : Env} {f : IRFilter} (h : PostVarOK env f)
    {n : Name} {vt : QTy} (ho : f.op = .bin .oneOf) (hr : f.right = some (.var n vt)) :
    ∃ vs m, env.arg n = .ok (.list vs) ∧ listMaxR vs = .ok m := by
  obtain ⟨h1, h2, v, hv, hval⟩ := h _ n vt ho hr
  rcases inferredOK_count_inv h1 h2 with ⟨_, rfl⟩ | ⟨⟨hno, _⟩, _⟩
  · unfold validQ at hval
    cases v with
    | list vs =>
      obtain ⟨m, hm⟩ := listMaxR_ok (l := vs) (fun x hx => validNulls_list_inv hval x hx)
      exact ⟨vs, m, hv, hm⟩
    | _ => simp [validNulls] at hval
  · exact absurd rfl hno

theorem maxLimitOf_ok {env : Env} {f : IRFilter} (h : PostVarOK env f) :
    ∃ m, maxLimitOf env f = .ok m := by
  unfold maxLimitOf
  split
  · rename_i n vt hl ho hr
    obtain ⟨v, k, hv, hk⟩ := postVar_scalar h ho hr (by simp)
    simp [hv, hk]
  · rename_i n vt hl ho hr
    obtain ⟨v, k, hv, hk⟩ := postVar_scalar h ho hr (by simp)
    simp [hv, hk]
  · rename_i n vt hl ho hr
    obtain ⟨v, k, hv, hk⟩ := postVar_scalar h ho hr (by simp)
    simp [hv, hk]
  · rename_i n vt hl ho hr
    obtain ⟨vs, m, hv, hm⟩ := postVar_list h ho hr
    simp [hv, hm]
  · exact ⟨none, rfl⟩

theorem maxFoldLimit_ok {env : Env} : ∀ {fs : List IRFilter} (acc : Option Nat)
    (h : ∀ f ∈ fs, PostVarOK env f), ∃ m, maxFoldLimit env fs acc = .ok m
  | [], acc, _ => ⟨acc, rfl⟩
  | f :: fs, acc, h => by
    obtain ⟨m, hm⟩ := maxLimitOf_ok (h f (by simp))
    simp only [maxFoldLimit, R.bind_eq_bind, hm, R.bind_ok']
    exact maxFoldLimit_ok _ (fun g hg => h g (by simp [hg]))

theorem minLimitOf_ok {env : Env} {f : IRFilter} (h : PostVarOK env f) :
    ∃ m, minLimitOf env f = .ok m := by
  unfold minLimitOf
  split
  · rename_i n vt hl ho hr
    obtain ⟨v, k, hv, hk⟩ := postVar_scalar h ho hr (by simp)
    simp [hv, hk]
  · rename_i n vt hl ho hr
    obtain ⟨v, k, hv, hk⟩ := postVar_scalar h ho hr (by simp)
    simp [hv, hk]
  · exact ⟨none, rfl⟩

theorem minFoldLimit_ok {env : Env} : ∀ {fs : List IRFilter} (acc : Option Nat)
    (h : ∀ f ∈ fs, PostVarOK env f), ∃ m, minFoldLimit env fs acc = .ok m
  | [], acc, _ => ⟨acc, rfl⟩
  | f :: fs, acc, h => by
    obtain ⟨m, hm⟩ := minLimitOf_ok (h f (by simp))
    simp only [minFoldLimit, R.bind_eq_bind, R.pure_eq_ok, hm, R.bind_ok']
    cases m with
    | none => exact ⟨none, rfl⟩
    | some k => exact minFoldLimit_ok _ (fun g hg => h g (by simp [hg]))

theorem effectiveMinLimit_ok {env : Env} (parent : Component) {fold : Fold}
    (h : ∀ f ∈ fold.post, PostVarOK env f) : ∃ m, effectiveMinLimit env parent fold = .ok m := by
  obtain ⟨m, hm⟩ := minFoldLimit_ok (env := env) none h
  simp only [effectiveMinLimit, R.bind_eq_bind, R.pure_eq_ok, hm, R.bind_ok']
  cases m <;> exact ⟨_, rfl⟩

theorem foldLimits_ok (env : Env) (parent : Component) (fold : Fold)
    (h : ∀ f ∈ fold.post, PostVarOK env f) : ∃ lim, foldLimits env parent fold = .ok lim := by
  unfold foldLimits
  split
  · obtain ⟨a, ha⟩ := maxFoldLimit_ok (env := env) none h
    obtain ⟨b, hb⟩ := effectiveMinLimit_ok (env := env) parent h
    simp only [R.bind_eq_bind, R.pure_eq_ok, ha, hb, R.bind_ok']
    exact ⟨_, rfl⟩
  · exact ⟨_, rfl⟩

end TF.Engine
