/-
Invariant preservation, part 5: the pieces of `compute_fold` that do not involve the recursive call:
importing and removing tags, fold-count limits, post-filters, output collection.
-/
import TrustfallModel.Proofs.InterpInvStage

namespace TF.Engine
open TF
open TF.Frontend (SchemaView EdgeInfo ParamDecl TypeInfo)

/-! ### the `imported_tags` map -/

theorem TagKey.beq_iff {a b : TagKey} : (a == b) = true ↔ a = b := by
  cases a <;> cases b <;>
    simp [BEq.beq, instBEqTagKey.beq]

theorem TagKey.beq_false_iff {a b : TagKey} : (a == b) = false ↔ a ≠ b := by
  rw [← Bool.not_eq_true, TagKey.beq_iff]

theorem lookupT_cons (p : TagKey × Tagged) (ps : List (TagKey × Tagged)) (k' : TagKey) :
    lookupT (p :: ps) k' = if (p.1 == k') = true then some p.2 else lookupT ps k' := by
  unfold lookupT
  rw [List.find?_cons]
  cases (p.1 == k') <;> rfl

theorem lookupT_filter_ne {tags : List (TagKey × Tagged)} {k k' : TagKey} (h : k' ≠ k) :
    lookupT (tags.filter fun p => !(p.1 == k)) k' = lookupT tags k' := by
  induction tags with
  | nil => rfl
  | cons p ps ih =>
    rw [List.filter_cons]
    by_cases hp : p.1 = k
    · have h1 : (p.1 == k) = true := TagKey.beq_iff.mpr hp
      have h2 : (p.1 == k') = false := TagKey.beq_false_iff.mpr (by rw [hp]; exact Ne.symm h)
      rw [lookupT_cons, h2, h1]
      simpa using ih
    · have h1 : (p.1 == k) = false := TagKey.beq_false_iff.mpr hp
      rw [h1]
      simp only [Bool.not_false, if_true]
      rw [lookupT_cons, lookupT_cons, ih]

theorem lookupT_filter_self {tags : List (TagKey × Tagged)} {k : TagKey} :
    lookupT (tags.filter fun p => !(p.1 == k)) k = none := by
  induction tags with
  | nil => rfl
  | cons p ps ih =>
    rw [List.filter_cons]
    by_cases hp : p.1 = k
    · have h1 : (p.1 == k) = true := TagKey.beq_iff.mpr hp
      rw [h1]
      simpa using ih
    · have h1 : (p.1 == k) = false := TagKey.beq_false_iff.mpr hp
      rw [h1]
      simp only [Bool.not_false, if_true]
      rw [lookupT_cons, h1, ih]
      simp

theorem lookupT_append_single {tags : List (TagKey × Tagged)} {k k' : TagKey} {t : Tagged} :
    lookupT (tags ++ [(k, t)]) k' =
      match lookupT tags k' with
      | some x => some x
      | none => if k' = k then some t else none := by
  induction tags with
  | nil =>
    rw [List.nil_append, lookupT_cons]
    by_cases h : k' = k
    · subst h
      have : (k' == k') = true := TagKey.beq_iff.mpr rfl
      simp [this, lookupT]
    · have : (k == k') = false := TagKey.beq_false_iff.mpr (Ne.symm h)
      simp [this, h, lookupT]
  | cons p ps ih =>
    rw [List.cons_append, lookupT_cons, lookupT_cons, ih]
    cases (p.1 == k') <;> simp

theorem lookupT_insertTag (c : Ctx) (k k' : TagKey) (t : Tagged) :
    lookupT (c.insertTag k t).importedTags k' =
      if k' = k then some t else lookupT c.importedTags k' := by
  simp only [Ctx.insertTag, lookupT_append_single]
  by_cases h : k' = k
  · subst h
    simp [lookupT_filter_self]
  · rw [lookupT_filter_ne h]
    simp only [h, if_false]
    cases lookupT c.importedTags k' <;> rfl

/-! ### importing tags -/

/-- same maps except `imported_tags` (and the active vertex / suspended stack) -/
def SameMaps (c c' : Ctx) : Prop :=
  c'.vertices = c.vertices ∧ c'.values = c.values ∧ c'.foldCounts = c.foldCounts ∧
    c'.foldedValues = c.foldedValues

theorem SameMaps.refl (c : Ctx) : SameMaps c c := ⟨rfl, rfl, rfl, rfl⟩

theorem SameMaps.trans {a b c : Ctx} (h1 : SameMaps a b) (h2 : SameMaps b c) : SameMaps a c :=
  ⟨h2.1.trans h1.1, h2.2.1.trans h1.2.1, h2.2.2.1.trans h1.2.2.1, h2.2.2.2.trans h1.2.2.2⟩

theorem TagsOK.of_subset {L L' : List FieldRef} {tags : List (TagKey × Tagged)}
    (h : TagsOK L tags) (hsub : ∀ r ∈ L', r ∈ L) : TagsOK L' tags :=
  fun r hr => h r (hsub r hr)

theorem import_ty_eq {S : SchemaView} {comp : Component} {r r' : FieldRef}
    (h : importTyped S comp r = true) (h' : importTyped S comp r' = true) (hk : r.key = r'.key) :
    fieldRefTy r = fieldRefTy r' := by
  cases r with
  | ctx vid f ty =>
    cases r' with
    | ctx vid' f' ty' =>
      simp only [FieldRef.key, TagKey.ctx.injEq] at hk
      obtain ⟨rfl, rfl⟩ := hk
      simp only [importTyped] at h h'
      cases hvx : comp.vertex? vid with
      | none => simp [hvx] at h
      | some vx =>
        simp only [hvx, Bool.and_eq_true] at h h'
        have h1 := optQTy_beq h.2
        have h2 := optQTy_beq h'.2
        rw [h1] at h2
        simpa [fieldRefTy] using h2
    | fcount e r => simp [FieldRef.key] at hk
  | fcount e rv =>
    cases r' with
    | ctx vid' f' ty' => simp [FieldRef.key] at hk
    | fcount e' rv' => rfl

theorem importTag_safe (W : World) {comp : Component} {chain : List FieldRef} {st : WState}
    {r : FieldRef} (hwf : importWf comp chain st r = true) (hty : importTyped W.S comp r = true)
    {L : List FieldRef} (hL : ∀ r0 ∈ L, r0.key = r.key → fieldRefTy r0 = fieldRefTy r)
    {c : Ctx} (hv : VertsOK W comp st c.vertices)
    (hcnt : CountsOK (st.foldsDone.map (·.eid)) c.foldCounts) (ht : TagsOK L c.importedTags) :
    Safe W.G (fun c' => SameMaps c c' ∧ TagsOK (r :: L) c'.importedTags)
      (importTag W.env comp r c) := by
  have key : ∀ (c0 : Ctx) (t : Tagged), c0.importedTags = c.importedTags → tagTyped r t →
      TagsOK (r :: L) (c0.insertTag r.key t).importedTags := by
    intro c0 t hc0 htt r0 hr0
    rw [lookupT_insertTag, hc0]
    rcases List.mem_cons.mp hr0 with rfl | hr0
    · exact ⟨t, by simp, htt⟩
    · by_cases hk : r0.key = r.key
      · refine ⟨t, by simp [hk], ?_⟩
        cases t with
        | nonexistent => trivial
        | some v =>
          simp only [tagTyped] at htt ⊢
          rw [hL r0 hr0 hk]; exact htt
      · obtain ⟨t0, ht0, htt0⟩ := ht r0 hr0
        exact ⟨t0, by simp [hk, ht0], htt0⟩
  cases r with
  | ctx vid field ty =>
    simp only [importWf, Bool.and_eq_true, List.contains_eq_mem, decide_eq_true_eq] at hwf
    obtain ⟨⟨hvsome, hrec⟩, _⟩ := hwf
    simp only [importTag]
    cases hvx : comp.vertex? vid with
    | none => simp [hvx] at hvsome
    | some vx =>
      simp only [importTyped, hvx, Bool.and_eq_true] at hty
      have hp := optQTy_beq hty.2
      rw [← hv.keys] at hrec
      obtain ⟨target, htarget⟩ := lookupV_of_mem hrec
      simp only [R.bind_eq_bind, R.pure_eq_ok, activate_ok htarget, R.bind_ok']
      have hact : activeOK W.D target vx.typeName = true := by
        cases target with
        | none => rfl
        | some x =>
          obtain ⟨vx', hvx', hinst⟩ := hv.inst vid x htarget
          rw [hvx] at hvx'; cases hvx'
          simpa [activeOK] using hinst
      rw [checked_prop hty.1 (by simp [hp]) hact]
      simp only [R.bind_ok', Safe.ok_iff]
      refine ⟨⟨rfl, rfl, rfl, rfl⟩, ?_⟩
      apply key { c with active := target } _ rfl
      cases target with
      | none => trivial
      | some x => exact propOpt_valid hact hp x rfl
  | fcount eid rv =>
    simp only [importWf, Bool.and_eq_true, List.contains_eq_mem, decide_eq_true_eq] at hwf
    have hin := hwf.1
    rw [← hcnt] at hin
    obtain ⟨a, ha⟩ := lookupC_of_mem hin
    simp only [importTag, foldCount?_eq, ha]
    cases a with
    | none =>
      simp only [Safe.ok_iff]
      exact ⟨⟨rfl, rfl, rfl, rfl⟩, key c _ rfl trivial⟩
    | some n =>
      simp only [Safe.ok_iff]
      refine ⟨⟨rfl, rfl, rfl, rfl⟩, key c _ rfl ?_⟩
      simp [tagTyped, fieldRefTy, validQ, validNulls]

theorem importTags_safe (W : World) {comp : Component} {chain : List FieldRef} {st : WState}
    (rs : List FieldRef) (hwf : ∀ r ∈ rs, importWf comp chain st r = true)
    (hty : ∀ r ∈ rs, importTyped W.S comp r = true)
    (L : List FieldRef) (hL : ∀ r0 ∈ L, r0 ∈ chain ∨ importTyped W.S comp r0 = true)
    {c : Ctx} (hv : VertsOK W comp st c.vertices)
    (hcnt : CountsOK (st.foldsDone.map (·.eid)) c.foldCounts) (ht : TagsOK L c.importedTags) :
    Safe W.G (fun c' => SameMaps c c' ∧ TagsOK (rs.reverse ++ L) c'.importedTags)
      (importTags W.env comp rs c) := by
  induction rs generalizing L c with
  | nil => simpa [importTags] using ⟨SameMaps.refl c, ht⟩
  | cons r rs ih =>
    simp only [importTags]
    have hcompat : ∀ r0 ∈ L, r0.key = r.key → fieldRefTy r0 = fieldRefTy r := by
      intro r0 hr0 hk
      rcases hL r0 hr0 with hch | hit
      · exfalso
        have := hwf r (by simp)
        cases r with
        | ctx vid f ty =>
          simp only [importWf, Bool.and_eq_true, Bool.not_eq_true', List.any_eq_false] at this
          have := this.2 r0 hch
          have hk' : r0.key = TagKey.ctx vid f := hk
          rw [hk'] at this
          simp [TagKey.beq_iff] at this
        | fcount e rv =>
          simp only [importWf, Bool.and_eq_true, Bool.not_eq_true', List.any_eq_false] at this
          have := this.2 r0 hch
          have hk' : r0.key = TagKey.fcount e := hk
          rw [hk'] at this
          simp [TagKey.beq_iff] at this
      · exact import_ty_eq hit (hty r (by simp)) hk
    refine Safe.bind (importTag_safe W (hwf r (by simp)) (hty r (by simp)) hcompat hv hcnt ht) ?_
    intro c1 ⟨hsame, ht1⟩
    have := ih (fun x hx => hwf x (by simp [hx])) (fun x hx => hty x (by simp [hx])) (r :: L)
      (by
        intro r0 hr0
        rcases List.mem_cons.mp hr0 with rfl | hr0
        · exact Or.inr (hty _ (by simp))
        · exact hL r0 hr0)
      (c := c1) (hsame.1 ▸ hv) (hsame.2.2.1 ▸ hcnt) ht1
    refine Safe.mono this ?_
    intro c' ⟨hs', ht'⟩
    refine ⟨hsame.trans hs', ?_⟩
    simpa [List.reverse_cons, List.append_assoc] using ht'


/-! ### removing the imported tags -/

theorem removeTags_shape : ∀ (rs : List FieldRef) (c c' : Ctx), removeTags rs c = .ok c' →
    SameMaps c c' ∧ c'.active = c.active ∧
      ∀ k, (∀ r ∈ rs, r.key ≠ k) → lookupT c'.importedTags k = lookupT c.importedTags k := by
  intro rs
  induction rs with
  | nil =>
    intro c c' h
    simp only [removeTags, R.ok.injEq] at h
    subst h
    exact ⟨SameMaps.refl c, rfl, fun _ _ => rfl⟩
  | cons r rs ih =>
    intro c c' h
    simp only [removeTags, Ctx.removeTag] at h
    cases ht : c.tag? r.key with
    | none => simp [ht] at h
    | some t =>
      simp only [ht, R.bind_ok'] at h
      obtain ⟨hs, ha, hl⟩ := ih _ c' h
      refine ⟨⟨hs.1, hs.2.1, hs.2.2.1, hs.2.2.2⟩, ha, ?_⟩
      intro k hk
      rw [hl k (fun r' hr' => hk r' (by simp [hr']))]
      exact lookupT_filter_ne (Ne.symm (hk r (by simp)))

theorem removeTags_site : ∀ (rs : List FieldRef) (c : Ctx) (s : String),
    removeTags rs c = .panic s → s = "imported_tags.remove(..).unwrap()" := by
  intro rs
  induction rs with
  | nil => intro c s h; simp [removeTags] at h
  | cons r rs ih =>
    intro c s h
    simp only [removeTags, Ctx.removeTag] at h
    cases ht : c.tag? r.key with
    | none => simp only [ht, R.bind_panic', R.panic.injEq] at h; exact h.symm
    | some t =>
      simp only [ht, R.bind_ok'] at h
      exact ih _ s h

theorem removeTags_ne_fuel : ∀ (rs : List FieldRef) (c : Ctx), removeTags rs c ≠ .fuel := by
  intro rs
  induction rs with
  | nil => intro c h; simp [removeTags] at h
  | cons r rs ih =>
    intro c h
    simp only [removeTags, Ctx.removeTag] at h
    cases ht : c.tag? r.key with
    | none => simp [ht] at h
    | some t =>
      simp only [ht, R.bind_ok'] at h
      exact ih _ h

theorem removeTags_ok : ∀ (rs : List FieldRef) (c : Ctx), tagKeysDistinct rs = true →
    (∀ r ∈ rs, (lookupT c.importedTags r.key).isSome = true) → ∃ c', removeTags rs c = .ok c' := by
  intro rs
  induction rs with
  | nil => intro c _ _; exact ⟨c, rfl⟩
  | cons r rs ih =>
    intro c hd hp
    simp only [tagKeysDistinct, Bool.and_eq_true, Bool.not_eq_true', List.any_eq_false] at hd
    simp only [removeTags, Ctx.removeTag]
    have := hp r (by simp)
    rw [tag?_eq]
    cases ht : lookupT c.importedTags r.key with
    | none => simp [ht] at this
    | some t =>
      simp only [R.bind_ok']
      apply ih _ hd.2
      intro r' hr'
      have hne : r'.key ≠ r.key := by
        intro heq
        have := hd.1 r' hr'
        rw [heq] at this
        simp [TagKey.beq_iff] at this
      simp only
      rw [lookupT_filter_ne hne]
      exact hp r' (by simp [hr'])

/-- Since the fix of F-10 the imports of a fold are pairwise distinct by well-formedness (`WFq`), so
`imported_tags.remove(..).unwrap()` cannot fail: no guard, no known site. -/
theorem removeTags_safe (W : World) (rs : List FieldRef) (c : Ctx)
    (hd : tagKeysDistinct rs = true)
    (hp : ∀ r ∈ rs, (lookupT c.importedTags r.key).isSome = true) :
    Safe W.G (fun c' => SameMaps c c' ∧ c'.active = c.active ∧
      ∀ k, (∀ r ∈ rs, r.key ≠ k) → lookupT c'.importedTags k = lookupT c.importedTags k)
      (removeTags rs c) := by
  obtain ⟨c', hc'⟩ := removeTags_ok rs c hd hp
  rw [hc']
  exact removeTags_shape rs c c' hc'


/-! ### post-filters on the fold count -/

/-- One post-filter.  `hnone`: a fold whose slot holds `None` (the fold does not exist: it hangs off a
missing `@optional` vertex) is filtered in a context without active vertex — the placeholder `Null`
that `apply_fold_specific_filter` pushes (fix of F-9) is never looked at by an operator. -/
theorem applyPostFilter_safe (W : World) {comp : Component} {chain : List FieldRef} {st : WState}
    {eids : List Eid} {fold : Fold} {fromV : IRVertex}
    (hso : soLocal W.S chain comp = true) (hfromV : comp.vertex? fold.fromVid = some fromV)
    (hvt : W.S.isVertexType fromV.typeName = true) {pf : IRFilter}
    (hwf : filterWf W.vars comp chain st.recorded eids fold.fromVid true pf = true)
    (hty : filterTyped W.S comp fromV.typeName fold.fromVid ⟨"Int", [false]⟩ pf = true)
    (hnt : W.G → filterNoTrigger W.D W.args ⟨"Int", [false]⟩ pf = true)
    {c : Ctx} (hc : VPre W comp chain st eids fromV.typeName c) {cnt : Option Nat}
    (hcnt : lookupC c.foldCounts fold.eid = some cnt) (hnone : cnt = none → c.active = none) :
    Safe W.G (fun o => ∀ c', o = some c' → c' = c) (applyPostFilter W.env comp fold pf c) := by
  -- the two existing slots run the same filter stage, on different pushed values
  have key : ∀ v : Value, (∀ x, c.active = some x → validQ ⟨"Int", [false]⟩ v = true) →
      Safe W.G (fun o => ∀ c', o = some c' → c' = c)
        ((applyFilter W.env comp fold.fromVid pf [c.pushValue v]).bind fun out =>
          match out with
          | [] => R.ok none
          | c' :: _ => R.ok (some c')) := by
    intro v hv
    refine Safe.bind (applyFilter_safe W (st := st) (eids := eids) (leftTy := ⟨"Int", [false]⟩) hso
      hfromV hvt hwf hty hnt [c.pushValue v] ?_) ?_
    · intro c0 hc0
      simp only [List.mem_singleton] at hc0
      subst hc0
      exact ⟨hc.verts, hc.counts, hc.tags, hc.act, _, _, rfl, hv⟩
    · intro out hout
      cases out with
      | nil => simp
      | cons c' rest =>
        simp only [Safe.ok_iff, Option.some.injEq]
        intro c'' hc''
        subst hc''
        obtain ⟨c0, hc0, val, rest', hvals, rfl⟩ := hout c' (by simp)
        simp only [List.mem_singleton] at hc0
        subst hc0
        simp only [Ctx.pushValue, hc.vals, List.cons.injEq] at hvals
        obtain ⟨_, rfl⟩ := hvals
        have := Ctx.push_pop c v
        rw [hc.vals] at this
        exact this
  unfold applyPostFilter
  rw [foldCount?_eq, hcnt]
  cases cnt with
  | none =>
    have hact := hnone rfl
    simp only [R.bind_eq_bind, R.pure_eq_ok]
    exact key .null (fun x hx => by rw [hact] at hx; cases hx)
  | some n =>
    simp only [R.bind_eq_bind, R.pure_eq_ok]
    exact key (.uint64 (UInt64.ofNat n)) (fun _ _ => by simp [validQ, validNulls])

theorem applyPostFilters_safe (W : World) {comp : Component} {chain : List FieldRef} {st : WState}
    {eids : List Eid} {fold : Fold} {fromV : IRVertex}
    (hso : soLocal W.S chain comp = true) (hfromV : comp.vertex? fold.fromVid = some fromV)
    (hvt : W.S.isVertexType fromV.typeName = true) (fs : List IRFilter)
    (hwf : ∀ pf ∈ fs, filterWf W.vars comp chain st.recorded eids fold.fromVid true pf = true)
    (hty : ∀ pf ∈ fs, filterTyped W.S comp fromV.typeName fold.fromVid ⟨"Int", [false]⟩ pf = true)
    (hnt : W.G → ∀ pf ∈ fs, filterNoTrigger W.D W.args ⟨"Int", [false]⟩ pf = true)
    {c : Ctx} (hc : VPre W comp chain st eids fromV.typeName c) {cnt : Option Nat}
    (hcnt : lookupC c.foldCounts fold.eid = some cnt) (hnone : cnt = none → c.active = none) :
    Safe W.G (fun o => ∀ c', o = some c' → c' = c) (applyPostFilters W.env comp fold fs c) := by
  induction fs with
  | nil => simp [applyPostFilters]
  | cons pf fs ih =>
    simp only [applyPostFilters, R.bind_eq_bind, R.pure_eq_ok]
    refine Safe.bind (applyPostFilter_safe W hso hfromV hvt (hwf pf (by simp)) (hty pf (by simp))
      (fun g => hnt g pf (by simp)) hc hcnt hnone) ?_
    intro o ho
    cases o with
    | none => simp
    | some c1 =>
      have h1 := ho c1 rfl
      subst h1
      simp only
      exact ih (fun pf hpf => hwf pf (by simp [hpf])) (fun pf hpf => hty pf (by simp [hpf]))
        (fun g pf hpf => hnt g pf (by simp [hpf]))


end TF.Engine
