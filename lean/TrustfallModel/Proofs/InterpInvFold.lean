/-
Invariant preservation, part 5: the pieces of `compute_fold` that do not involve the recursive call:
importing and removing tags, fold-count limits, post-filters, output collection.
-/
import TrustfallModel.Proofs.InterpInvStage

namespace TF.Engine
open TF
open TF.Frontend (SchemaView EdgeInfo ParamDecl TypeInfo)

/-! ### the `imported_tags` map -/

theorem TagKey.beq_iff {a b : TagKey} : (a == b) = true ↔ a = b := by
  cases a <;> cases b <;>
    simp [BEq.beq, instBEqTagKey.beq]

theorem TagKey.beq_false_iff {a b : TagKey} : (a == b) = false ↔ a ≠ b := by
  rw [← Bool.not_eq_true, TagKey.beq_iff]

theorem lookupT_cons (p : TagKey × Tagged) (ps : List (TagKey × Tagged)) (k' : TagKey) :
    lookupT (p :: ps) k' = if (p.1 == k') = true then some p.2 else lookupT ps k' := by
  unfold lookupT
  rw [List.find?_cons]
  cases (p.1 == k') <;> rfl

theorem lookupT_filter_ne {tags : List (TagKey × Tagged)} {k k' : TagKey} (h : k' ≠ k) :
    lookupT (tags.filter fun p => !(p.1 == k)) k' = lookupT tags k' := by
  induction tags with
  | nil => rfl
  | cons p ps ih =>
    rw [List.filter_cons]
    by_cases hp : p.1 = k
    · have h1 : (p.1 == k) = true := TagKey.beq_iff.mpr hp
      have h2 : (p.1 == k') = false := TagKey.beq_false_iff.mpr (by rw [hp]; exact Ne.symm h)
      rw [lookupT_cons, h2, h1]
      simpa using ih
    · have h1 : (p.1 == k) = false := TagKey.beq_false_iff.mpr hp
      rw [h1]
      simp only [Bool.not_false, if_true]
      rw [lookupT_cons, lookupT_cons, ih]

theorem lookupT_filter_self {tags : List (TagKey × Tagged)} {k : TagKey} :
    lookupT (tags.filter fun p => !(p.1 == k)) k = none := by
  induction tags with
  | nil => rfl
  | cons p ps ih =>
    rw [List.filter_cons]
    by_cases hp : p.1 = k
    · have h1 : (p.1 == k) = true := TagKey.beq_iff.mpr hp
      rw [h1]
      simpa using ih
    · have h1 : (p.1 == k) = false := TagKey.beq_false_iff.mpr hp
      rw [h1]
      simp only [Bool.not_false, if_true]
      rw [lookupT_cons, h1, ih]
      simp

theorem lookupT_append_single {tags : List (TagKey × Tagged)} {k k' : TagKey} {t : Tagged} :
    lookupT (tags ++ [(k, t)]) k' =
      match lookupT tags k' with
      | some x => some x
      | none => if k' = k then some t else none := by
  induction tags with
  | nil =>
    rw [List.nil_append, lookupT_cons]
    by_cases h : k' = k
    · subst h
      have : (k' == k') = true := TagKey.beq_iff.mpr rfl
      simp [this, lookupT]
    · have : (k == k') = false := TagKey.beq_false_iff.mpr (Ne.symm h)
      simp [this, h, lookupT]
  | cons p ps ih =>
    rw [List.cons_append, lookupT_cons, lookupT_cons, ih]
    cases (p.1 == k') <;> simp

theorem lookupT_insertTag (c : Ctx) (k k' : TagKey) (t : Tagged) :
    lookupT (c.insertTag k t).importedTags k' =
      if k' = k then some t else lookupT c.importedTags k' := by
  simp only [Ctx.insertTag, lookupT_append_single]
  by_cases h : k' = k
  · subst h
    simp [lookupT_filter_self]
  · rw [lookupT_filter_ne h]
    simp only [h, if_false]
    cases lookupT c.importedTags k' <;> rfl

end TF.Engine
